package main

import (
	"bytes"
	"encoding/json"
	"fmt"
	"net/http"
	"net/http/httptest"
	"os"
	"path/filepath"
	"strconv"
	"strings"
	"sync"

	shell_operator "github.com/flant/shell-operator/pkg/shell-operator"
)

// The bash hook used by every application case. Its behaviour at the i-th run of the case is the
// i-th line of ctl/script; every run is logged to ctl/log as `<hook> <from>><to>[id@ver,…]`.
const c15HookScript = `#!/usr/bin/env bash
ctl="$(cd "$(dirname "$0")/.." && pwd)/ctl"
me="$(basename "$0")"
if [[ "$1" == "--config" ]]; then cat "$ctl/$me.cfg"; exit 0; fi
n=$(cat "$ctl/counter"); echo $((n+1)) > "$ctl/counter"
item=$(sed -n "$((n+1))p" "$ctl/script")
jq -r --arg me "$me" '.[0] | $me + "#" + (.binding // "") + " " + .fromVersion + ">" + .toVersion + "[" + ([(.review.request.objects // [])[] | ((.metadata.name // "0") + "@" + (.apiVersion // ""))] | join(",")) + "]"' "$BINDING_CONTEXT_PATH" >> "$ctl/log"
group=$(cat "$ctl/group"); desired=$(cat "$ctl/desired")
to=$(jq -r '.[0].toVersion' "$BINDING_CONTEXT_PATH")
case "$to" in */*) fullto="$to";; *) fullto="$group/$to";; esac
objs() { # $1 = count, $2 = apiVersion to set ("" = leave)
  jq -c --argjson n "$1" --arg v "$2" '(.[0].review.request.objects // []) as $o
    | [range(0;$n) | . as $j | (if $j < ($o|length) then $o[$j] else {"apiVersion": (($o[0].apiVersion) // ""), "kind":"Thing", "metadata":{"name": ((900+$j)|tostring)}} end)
       | (if $v != "" then .apiVersion = $v else . end)]' "$BINDING_CONTEXT_PATH"
}
mixed() { # $1 = one letter per returned object: c converted (the rule's toVersion) · d desired apiVersion ·
  # o left as it came · n apiVersion removed · b {} · z null; $2 = the rule's toVersion
  jq -c --arg s "$1" --arg v "$2" --arg d "$desired" '(.[0].review.request.objects // []) as $o
    | [range(0; $s|length) as $j | ($s[$j:$j+1]) as $k
       | (if $j < ($o|length) then $o[$j] else {"apiVersion": (($o[0].apiVersion) // ""), "kind":"Thing", "metadata":{"name": ((900+$j)|tostring)}} end)
       | if $k == "c" then .apiVersion = $v
         elif $k == "d" then .apiVersion = $d
         elif $k == "o" then .
         elif $k == "n" then (if . == null then null else del(.apiVersion) end)
         elif $k == "b" then {}
         else null end]' "$BINDING_CONTEXT_PATH"
}
kind="${item:0:1}"; rest="${item:1}"
case "$kind" in
  x|"") exit 1 ;;
  j) echo '{"convertedObjects": [' > "$CONVERSION_RESPONSE_PATH" ;;
  e) : ;;
  k) echo "{\"convertedObjects\": $(objs "$rest" "$fullto")}" > "$CONVERSION_RESPONSE_PATH" ;;
  w) echo "{\"convertedObjects\": $(objs "$rest" "")}" > "$CONVERSION_RESPONSE_PATH" ;;
  d) echo "{\"convertedObjects\": $(objs "$rest" "$desired")}" > "$CONVERSION_RESPONSE_PATH" ;;
  p) echo "{\"convertedObjects\": $(mixed "$rest" "$fullto")}" > "$CONVERSION_RESPONSE_PATH" ;;
  m) cnt="${rest%%:*}"; msg="${rest#*:}"
     echo "{\"failedMessage\": \"$msg\", \"convertedObjects\": $(objs "$cnt" "$fullto")}" > "$CONVERSION_RESPONSE_PATH" ;;
esac
exit 0
`

var c15HookOnce sync.Once

func c15SharedHook(r *Run) string {
	p := filepath.Join(r.Scratch, "c15-hook.sh")
	c15HookOnce.Do(func() { _ = writeScript(p, []byte(c15HookScript), 0o755) })
	return p
}

// a further request on the same operator (stateful cache): only the oracle line is recorded for it,
// because with a warm cache the chain chosen may legitimately differ from the model's
type c15Req struct {
	From, Desired string
	NObjs         int
	Script        []string
}

type c15E2E struct {
	More    []c15Req
	Rules   []c15Rule
	Owner   []int // hook number per rule
	Bind    []int // binding number (within its hook) per rule; nil = one binding per hook
	NHooks  int
	From    string // apiVersion of the request objects (full spelling)
	Desired string
	NObjs   int
	Script  []string
}

func c15ObjsTok(ids []string, vers []string) string {
	var ss []string
	for i := range ids {
		ss = append(ss, ids[i]+"@"+c15Tok(vers[i]))
	}
	return joinStrs(ss)
}

func c15CanonMsg(m string) string {
	switch {
	case strings.HasPrefix(m, "Hook failed to convert to"):
		return "hook-failed"
	case strings.HasPrefix(m, "Conversion to"):
		return "not-successful"
	case strings.HasPrefix(m, "hook task prop error"):
		return "prop-error"
	case strings.HasPrefix(m, "no hook found"):
		return "no-hook"
	case strings.HasPrefix(m, "hook returned"):
		return "count-mismatch"
	}
	return "own:" + strings.ReplaceAll(m, " ", "_")
}

// c15RunE2E runs one ConversionReview through the real handler chain and records the case.
func c15RunE2E(r *Run, c *Case, e c15E2E) {
	root := filepath.Join(r.Scratch, fmt.Sprintf("c15-e2e-%d", c.Idx))
	hooksDir := filepath.Join(root, "hooks")
	ctl := filepath.Join(root, "ctl")
	tmp := filepath.Join(root, "tmp")
	for _, d := range []string{hooksDir, ctl, tmp} {
		_ = os.MkdirAll(d, 0o755)
	}
	defer os.RemoveAll(root)
	hookName := func(h int) string { return fmt.Sprintf("h%d.sh", h) }
	bindOf := func(i int) int {
		if i < len(e.Bind) {
			return e.Bind[i]
		}
		return 0
	}
	bindName := func(h, b int) string { return fmt.Sprintf("conv%d_%d", h, b) }
	maxBind := 0
	for i := range e.Rules {
		if bindOf(i) > maxBind {
			maxBind = bindOf(i)
		}
	}
	splitHooks := 0
	for h := 0; h < e.NHooks; h++ {
		// one kubernetesCustomResourceConversion binding per binding number that has rules, all for
		// the same CRD (the shape of pkg/hook/testdata/hook_manager_conversion_chains/hook.sh)
		var bindings []string
		for b := 0; b <= maxBind; b++ {
			var convs []string
			for i, rl := range e.Rules {
				if e.Owner[i] == h && bindOf(i) == b {
					convs = append(convs, fmt.Sprintf(`{"fromVersion": %q, "toVersion": %q}`, rl.From, rl.To))
				}
			}
			if len(convs) > 0 {
				bindings = append(bindings, fmt.Sprintf(`{"name":%q,"crdName":"things.g.io","conversions":[%s]}`,
					bindName(h, b), strings.Join(convs, ",")))
			}
		}
		if len(bindings) == 0 {
			continue
		}
		if len(bindings) > 1 {
			splitHooks++
		}
		cfg := fmt.Sprintf(`{"configVersion":"v1","kubernetesCustomResourceConversion":[%s]}`, strings.Join(bindings, ","))
		_ = os.WriteFile(filepath.Join(ctl, hookName(h)+".cfg"), []byte(cfg), 0o644)
		// a hard link to the one script written before the parallel cases start: writing an
		// executable while another case forks gives "text file busy"
		if err := os.Link(c15SharedHook(r), filepath.Join(hooksDir, hookName(h))); err != nil {
			c.Inconcl = "cannot link the hook script: " + err.Error()
			return
		}
	}
	_ = os.WriteFile(filepath.Join(ctl, "group"), []byte(c15Group), 0o644)

	op, handler, err := shell_operator.VerifC15NewOperator(hooksDir, tmp)
	if err != nil {
		c.Op("e2e setup", "setup-error "+firstLine(err.Error()))
		return
	}
	defer op.VerifC15Stop()

	reqs := append([]c15Req{{e.From, e.Desired, e.NObjs, e.Script}}, e.More...)
	for qi, q := range reqs {
		e.From, e.Desired, e.NObjs, e.Script = q.From, q.Desired, q.NObjs, q.Script
		_ = os.WriteFile(filepath.Join(ctl, "counter"), []byte("0\n"), 0o644)
		_ = os.WriteFile(filepath.Join(ctl, "script"), []byte(strings.Join(e.Script, "\n")+"\n"), 0o644)
		_ = os.WriteFile(filepath.Join(ctl, "desired"), []byte(e.Desired), 0o644)
		_ = os.WriteFile(filepath.Join(ctl, "log"), nil, 0o644)

		var ids, vers []string
		var objs []string
		for i := 1; i <= e.NObjs; i++ {
			ids = append(ids, strconv.Itoa(i))
			vers = append(vers, e.From)
			objs = append(objs, fmt.Sprintf(`{"apiVersion":%q,"kind":"Thing","metadata":{"name":"%d"}}`, e.From, i))
		}
		uid := fmt.Sprintf("uid-%d-%d", c.Idx, qi)
		body := fmt.Sprintf(`{"apiVersion":"apiextensions.k8s.io/v1","kind":"ConversionReview","request":{"uid":%q,"desiredAPIVersion":%q,"objects":[%s]}}`,
			uid, e.Desired, strings.Join(objs, ","))

		params := fmt.Sprintf("rules=%s links=%s to=%s group=%s objs=%s script=%s", c15Rules(e.Rules), c15Rules(e.Rules),
			c15Tok(e.Desired), c15Group, c15ObjsTok(ids, vers), strings.ReplaceAll(joinStrs(e.Script), ",", ";"))

		req := httptest.NewRequest(http.MethodPost, "/things.g.io", bytes.NewReader([]byte(body)))
		req.Header.Set("Content-Type", "application/json")
		rec := httptest.NewRecorder()
		handler.Router.ServeHTTP(rec, req)

		// ---- observation
		var review struct {
			Response *struct {
				UID              string            `json:"uid"`
				ConvertedObjects []json.RawMessage `json:"convertedObjects"`
				Result           struct {
					Status  string `json:"status"`
					Message string `json:"message"`
				} `json:"result"`
			} `json:"response"`
		}
		status, reply, oreply := "", "", ""
		if rec.Code != http.StatusOK {
			status = fmt.Sprintf("http-%d", rec.Code)
		} else if err := json.Unmarshal(rec.Body.Bytes(), &review); err != nil || review.Response == nil {
			status = "undecodable-response"
		} else {
			status = review.Response.Result.Status
			if review.Response.UID != uid {
				status = "uid-not-echoed"
			}
		}
		switch status {
		case "Success":
			var oi, ov []string
			for _, raw := range review.Response.ConvertedObjects {
				var o struct {
					APIVersion string `json:"apiVersion"`
					Metadata   struct {
						Name string `json:"name"`
					} `json:"metadata"`
				}
				_ = json.Unmarshal(raw, &o) // `null`, `{}`: no name, no apiVersion
				if o.Metadata.Name == "" {
					o.Metadata.Name = "0"
				}
				oi = append(oi, o.Metadata.Name)
				ov = append(ov, o.APIVersion)
			}
			reply = "Success objs=" + c15ObjsTok(oi, ov)
			oreply = "status=Success robjs=" + c15ObjsTok(oi, ov)
		case "Failure":
			m := c15CanonMsg(review.Response.Result.Message)
			reply = "Failed msg=" + m
			oreply = "status=Failed msg=" + m
		default:
			reply = status
			oreply = "status=" + status
		}
		// the hook runs, in order
		owner := map[string]string{}
		nonLast := map[string]bool{} // rules of a binding that is not the last one of its hook
		for i, rl := range e.Rules {
			for j := range e.Rules {
				if e.Owner[j] == e.Owner[i] && bindOf(j) > bindOf(i) {
					nonLast[rl.String()] = true
				}
			}
			owner[rl.String()] = hookName(e.Owner[i]) + "#" + bindName(e.Owner[i], bindOf(i))
		}
		var inv []string
		logB, _ := os.ReadFile(filepath.Join(ctl, "log"))
		for _, l := range strings.Split(strings.TrimSpace(string(logB)), "\n") {
			if l == "" {
				continue
			}
			f := strings.SplitN(l, " ", 2)
			if len(f) != 2 {
				inv = append(inv, "unreadable-log-line")
				continue
			}
			entry := f[1]
			if strings.HasSuffix(entry, "[]") {
				entry = strings.TrimSuffix(entry, "[]") + "[-]"
			}
			entry = strings.ReplaceAll(entry, "@,", "@-,")
			entry = strings.ReplaceAll(entry, "@]", "@-]")
			ruleTok := entry[:strings.IndexByte(entry, '[')]
			if owner[ruleTok] != f[0] {
				entry = "ran-in-a-hook-or-binding-that-did-not-register-it:" + f[0] + ":" + entry
			}
			if nonLast[ruleTok] {
				c.Note("e2e:ran-a-rule-of-a-non-last-binding")
			}
			inv = append(inv, entry)
		}
		invTok := "-"
		if len(inv) > 0 {
			invTok = strings.Join(inv, ";")
		}
		if qi == 0 {
			c.Op("e2e "+params, reply+" inv="+invTok)
		} else {
			c.Note("e2e:later-request-on-a-warm-cache")
		}
		c.Oracle("e2e " + params + " inv=" + invTok + " " + oreply)
		c.Note("e2e:reply:" + strings.SplitN(reply, "=", 2)[0] + func() string {
			if strings.HasPrefix(reply, "Failed msg=own:") {
				return "=own"
			}
			if i := strings.Index(reply, "="); i >= 0 && strings.HasPrefix(reply, "Failed") {
				return "=" + reply[i+1:]
			}
			return ""
		}())
		c.Note(fmt.Sprintf("e2e:runs=%d", len(inv)))
		if splitHooks > 0 {
			c.Note("e2e:bindings:a-hook-splits-the-crd's-rules-over-several-bindings")
		} else {
			c.Note("e2e:bindings:one-per-hook")
		}
		for _, s := range e.Script {
			c.Note("e2e:script:" + s[:1])
		}
		c.Nontrivial = c.Nontrivial || len(inv) > 0
	}
}

// c15ShortestCount counts the rule sequences of minimal length from a to b (classes = short versions).
func c15ShortestCount(rules []c15Rule, a, b string) (int, int) {
	dist := map[string]int{c15Trim(a): 0}
	cnt := map[string]int{c15Trim(a): 1}
	frontier := []string{c15Trim(a)}
	for d := 1; len(frontier) > 0; d++ {
		var next []string
		for _, u := range frontier {
			for _, rl := range rules {
				if c15Trim(rl.From) != u {
					continue
				}
				v := c15Trim(rl.To)
				if dv, ok := dist[v]; !ok {
					dist[v] = d
					cnt[v] = cnt[u]
					next = append(next, v)
				} else if dv == d {
					cnt[v] += cnt[u]
				}
			}
		}
		if _, ok := dist[c15Trim(b)]; ok {
			break
		}
		frontier = next
	}
	if d, ok := dist[c15Trim(b)]; ok {
		return cnt[c15Trim(b)], d
	}
	return 0, 0
}

func c15E2ECorpus(r *Run) {
	c15SharedHook(r)
	lin := []c15Rule{{"v1", "v2"}, {"g.io/v2", "v3"}, {"v3", "g.io/v2"}}
	r.One(10, func(c *Case, _ *Rng) {
		c.Desc = "corpus: the hook of step 1 of 2 answers with its own failedMessage"
		c15RunE2E(r, c, c15E2E{Rules: lin, Owner: []int{0, 1, 1}, NHooks: 2, From: "g.io/v1", Desired: "g.io/v3", NObjs: 2,
			Script: []string{"m0:my-own-message", "k2"}})
	})
	r.One(11, func(c *Case, _ *Rng) {
		c.Desc = "corpus: two objects requested, the hook returns one converted object"
		c15RunE2E(r, c, c15E2E{Rules: lin, Owner: []int{0, 1, 1}, NHooks: 2, From: "g.io/v2", Desired: "g.io/v3", NObjs: 2,
			Script: []string{"k1"}})
	})
	r.One(12, func(c *Case, _ *Rng) {
		c.Desc = "corpus: two steps, both succeed"
		c15RunE2E(r, c, c15E2E{Rules: lin, Owner: []int{0, 1, 1}, NHooks: 2, From: "g.io/v1", Desired: "g.io/v3", NObjs: 3,
			Script: []string{"k3", "k3"}})
	})
	r.One(13, func(c *Case, _ *Rng) {
		c.Desc = "corpus: step 2 of 3 exits non-zero; step 1 returns one object too many"
		rules := []c15Rule{{"v1", "v2"}, {"v2", "v3"}, {"v3", "v4"}}
		c15RunE2E(r, c, c15E2E{Rules: rules, Owner: []int{0, 0, 0}, NHooks: 1, From: "g.io/v1", Desired: "g.io/v4", NObjs: 1,
			Script: []string{"k2", "x", "k1"}})
	})
	updown := []c15Rule{{"v1", "v2"}, {"v2", "v3"}, {"v3", "v2"}, {"v2", "v1"}, {"v3", "v4"}}
	r.One(14, func(c *Case, _ *Rng) {
		c.Desc = "corpus: one hook declares the up and the down conversions of the CRD in two bindings; up, down and across"
		c15RunE2E(r, c, c15E2E{Rules: updown, Owner: []int{0, 0, 0, 0, 1}, Bind: []int{0, 0, 1, 1, 0}, NHooks: 2,
			From: "g.io/v1", Desired: "g.io/v3", NObjs: 2, Script: []string{"k2", "k2"},
			More: []c15Req{{"g.io/v3", "g.io/v1", 1, []string{"k1", "k1"}}, {"g.io/v1", "g.io/v4", 1, []string{"k1", "k1", "k1"}}}})
	})
	r.One(15, func(c *Case, _ *Rng) {
		c.Desc = "corpus: three bindings of one hook for one CRD, the middle step of the chain is in the first binding"
		rules := []c15Rule{{"v1", "v2"}, {"g.io/v2", "v3"}, {"v3", "v4"}}
		c15RunE2E(r, c, c15E2E{Rules: rules, Owner: []int{0, 0, 0}, Bind: []int{2, 0, 1}, NHooks: 1,
			From: "g.io/v1", Desired: "g.io/v4", NObjs: 1, Script: []string{"k1", "k1", "k1"}})
	})
	// hook answers whose objects differ: some converted, some left behind, some without apiVersion,
	// some `null` — at the first, a middle and the last position, at the last and at an earlier step
	two := []c15Rule{{"v1", "v2"}, {"v2", "v3"}}
	for i, sc := range [][]string{
		{"k3", "pcnc"}, {"k3", "pccz"}, {"k3", "pzcc"}, {"k3", "pcco"}, {"k3", "pbcc"}, {"k3", "pccb"},
		{"pdnn", "k3"}, {"pdzd", "k3"}, {"pcoz", "k3"}, {"k3", "pccc"},
	} {
		sc := sc
		r.One(20+i, func(c *Case, _ *Rng) {
			c.Desc = "corpus: two steps, three objects, one step answers with objects that differ (" + strings.Join(sc, " ") +
				": c converted, d desired, o untouched, n apiVersion removed, b {}, z null)"
			c15RunE2E(r, c, c15E2E{Rules: two, Owner: []int{0, 0}, NHooks: 1, From: "g.io/v1", Desired: "g.io/v3", NObjs: 3, Script: sc})
		})
	}
}

// c15MixedItem is a hook answer with one letter per object (see the hook script): mostly converted
// objects with one or two that are not, or any mixture.
func c15MixedItem(c *Case, rng *Rng, n int) string {
	if n < 1 {
		n = 1
	}
	good := byte('c')
	if rng.Chance(25) {
		good = 'd'
	}
	spec := bytes.Repeat([]byte{good}, n)
	const bad = "onzb"
	if rng.Chance(65) {
		for k := rng.Range(1, 2); k > 0; k-- {
			at := rng.Intn(n)
			spec[at] = bad[rng.Intn(len(bad))]
			switch {
			case at == 0:
				c.Note("e2e:mixed:first-object-not-converted")
			case at == n-1:
				c.Note("e2e:mixed:last-object-not-converted")
			default:
				c.Note("e2e:mixed:a-middle-object-not-converted")
			}
		}
	} else {
		const any = "ccccddonzb"
		for i := range spec {
			spec[i] = any[rng.Intn(len(any))]
		}
		c.Note("e2e:mixed:any-mixture")
	}
	return "p" + string(spec)
}

func c15E2ERandom(r *Run) {
	n := r.N(400, 4000)
	r.Cases(500000, n, 0, func(c *Case, rng *Rng) {
		var e c15E2E
		var a, b string
		// a rule graph with exactly one shortest rule sequence from a to b (or none)
		for try := 0; ; try++ {
			nv := rng.Range(2, 7)
			e.Rules = c15RandomGraph(rng, nv, false)
			// declared rules are a set
			seen := map[c15Rule]bool{}
			var rs []c15Rule
			for _, rl := range e.Rules {
				if !seen[rl] {
					seen[rl] = true
					rs = append(rs, rl)
				}
			}
			e.Rules = rs
			a, b = c15Names[rng.Intn(nv)], c15Names[rng.Intn(nv)]
			if a == b || len(e.Rules) == 0 {
				continue
			}
			cnt, d := c15ShortestCount(e.Rules, a, b)
			if cnt == 1 && d < 2 && try < 40 && rng.Chance(70) {
				continue // prefer chains of several steps
			}
			if cnt == 1 || (cnt == 0 && rng.Chance(10)) || try > 50 {
				if cnt > 1 {
					e.Rules = []c15Rule{{a, b}}
					d = 1
				}
				e.From, e.Desired = c15Group+"/"+a, c15Group+"/"+b
				e.NObjs = PickOne(rng, []int{0, 1, 1, 2, 2, 3})
				faulty := rng.Chance(60)
				// a third of the cases: one step (mostly the last) answers with objects that differ
				mixedAt := -1
				if d > 0 && rng.Chance(35) {
					e.NObjs = rng.Range(2, 4)
					faulty = rng.Chance(15)
					mixedAt = d - 1
					if rng.Chance(35) {
						mixedAt = rng.Intn(d)
					}
				}
				for i := 0; i < d; i++ {
					it := fmt.Sprintf("k%d", e.NObjs)
					if i == mixedAt {
						it = c15MixedItem(c, rng, PickOne(rng, []int{e.NObjs, e.NObjs, e.NObjs, e.NObjs, e.NObjs - 1, e.NObjs + 1}))
					} else if faulty && (rng.Chance(100/d+10) || (i == d-1 && rng.Chance(40))) {
						switch rng.Intn(8) {
						case 0:
							it = "x"
						case 1:
							it = "j"
						case 2:
							it = "e"
						case 3:
							it = fmt.Sprintf("k%d", e.NObjs+1)
						case 4:
							if e.NObjs > 0 {
								it = fmt.Sprintf("k%d", e.NObjs-1)
							}
						case 5:
							it = fmt.Sprintf("w%d", e.NObjs)
						case 6:
							it = fmt.Sprintf("d%d", PickOne(rng, []int{e.NObjs, e.NObjs, e.NObjs + 1}))
						default:
							// the hook's own message is relayed verbatim: also when it looks like a format string
							it = fmt.Sprintf("m%d:own-message-%d%s", PickOne(rng, []int{0, e.NObjs}), rng.Intn(90),
								PickOne(rng, []string{"", "", "-100%", "-%s", "-%d-of-%d", "-%v%%", "-%!x", "-{{.}}"}))
						}
					}
					e.Script = append(e.Script, it)
				}
				if rng.Chance(15) {
					e.Script = append(e.Script, "k1") // never reached unless something is wrong
				}
				break
			}
		}
		// further requests on the same operator, any pair of versions
		for k := rng.Intn(3); k > 0 && rng.Chance(60); k-- {
			var vs []string
			seenV := map[string]bool{}
			for _, rl := range e.Rules {
				for _, v := range []string{c15Trim(rl.From), c15Trim(rl.To)} {
					if !seenV[v] {
						seenV[v] = true
						vs = append(vs, v)
					}
				}
			}
			if len(vs) < 2 {
				break
			}
			fa, fb := PickOne(rng, vs), PickOne(rng, vs)
			if fa == fb {
				continue
			}
			n := rng.Range(1, 2)
			var sc []string
			for i := 0; i < 6; i++ {
				it := fmt.Sprintf("k%d", n)
				if rng.Chance(12) {
					it = PickOne(rng, []string{"x", "e", fmt.Sprintf("m%d:later-%d", n, i), fmt.Sprintf("k%d", n+1), fmt.Sprintf("d%d", n)})
				}
				sc = append(sc, it)
			}
			e.More = append(e.More, c15Req{c15Group + "/" + fa, c15Group + "/" + fb, n, sc})
		}
		e.NHooks = rng.Range(1, 3)
		for range e.Rules {
			e.Owner = append(e.Owner, rng.Intn(e.NHooks))
		}
		// the rules a hook owns are declared in one binding, or spread over up to three bindings
		// for the same CRD (up_conversions / down_conversions …)
		if rng.Chance(65) {
			nb := make([]int, e.NHooks)
			for h := range nb {
				nb[h] = rng.Range(1, 3)
			}
			for i := range e.Rules {
				e.Bind = append(e.Bind, rng.Intn(nb[e.Owner[i]]))
			}
		}
		c15RunE2E(r, c, e)
	})
}
