package main

import (
	"bytes"
	"encoding/json"
	"fmt"
	"net/http"
	"net/http/httptest"
	"os"
	"path/filepath"
	"strconv"
	"strings"
	"sync"
	"time"

	shell_operator "github.com/flant/shell-operator/pkg/shell-operator"
	"github.com/flant/shell-operator/pkg/utils/verifsched"
)

// The bash hook used by every application case. Its behaviour at the i-th run of the case is the
// i-th line of ctl/script.<uid of the request in its binding context>; every run is logged to ctl/log
// as `<hook>#<binding> <uid> <from>><to>[id@ver,…]`.
const c15HookScript = `#!/usr/bin/env bash
ctl="$(cd "$(dirname "$0")/.." && pwd)/ctl"
me="$(basename "$0")"
if [[ "$1" == "--config" ]]; then cat "$ctl/$me.cfg"; exit 0; fi
# what this run does is scripted per request: the i-th run that finds request <uid> in its binding
# context does the i-th line of ctl/script.<uid> (requests may be in flight at the same time)
uid=$(jq -r '.[0].review.request.uid // "none" | gsub("[^A-Za-z0-9_-]"; "_")' "$BINDING_CONTEXT_PATH")
n=$(cat "$ctl/counter.$uid" 2>/dev/null); echo $((n+1)) > "$ctl/counter.$uid"
item=$(sed -n "$((n+1))p" "$ctl/script.$uid" 2>/dev/null)
jq -r --arg me "$me" --arg uid "$uid" '.[0] | $me + "#" + (.binding // "") + " " + $uid + " " + .fromVersion + ">" + .toVersion + "[" + ([(.review.request.objects // [])[] | ((.metadata.name // "0") + "@" + (.apiVersion // ""))] | join(",")) + "]"' "$BINDING_CONTEXT_PATH" >> "$ctl/log"
group=$(cat "$ctl/group"); desired=$(cat "$ctl/desired.$uid" 2>/dev/null)
to=$(jq -r '.[0].toVersion' "$BINDING_CONTEXT_PATH")
case "$to" in */*) fullto="$to";; *) fullto="$group/$to";; esac
objs() { # $1 = count, $2 = apiVersion to set ("" = leave)
  jq -c --argjson n "$1" --arg v "$2" '(.[0].review.request.objects // []) as $o
    | [range(0;$n) | . as $j | (if $j < ($o|length) then $o[$j] else {"apiVersion": (($o[0].apiVersion) // ""), "kind":"Thing", "metadata":{"name": ((900+$j)|tostring)}} end)
       | (if $v != "" then .apiVersion = $v else . end)]' "$BINDING_CONTEXT_PATH"
}
mixed() { # $1 = one letter per returned object: c converted (the rule's toVersion) · d desired apiVersion ·
  # o left as it came · n apiVersion removed · b {} · z null; $2 = the rule's toVersion
  jq -c --arg s "$1" --arg v "$2" --arg d "$desired" '(.[0].review.request.objects // []) as $o
    | [range(0; $s|length) as $j | ($s[$j:$j+1]) as $k
       | (if $j < ($o|length) then $o[$j] else {"apiVersion": (($o[0].apiVersion) // ""), "kind":"Thing", "metadata":{"name": ((900+$j)|tostring)}} end)
       | if $k == "c" then .apiVersion = $v
         elif $k == "d" then .apiVersion = $d
         elif $k == "o" then .
         elif $k == "n" then (if . == null then null else del(.apiVersion) end)
         elif $k == "b" then {}
         else null end]' "$BINDING_CONTEXT_PATH"
}
# a leading capital letter: what the hook does besides answering (its other output channels) -
# M a metric operation that parses but is not valid (the operator fails the run after the hook ended) ·
# P an object-patch operation that is not valid (the same) · G a valid metric operation (the run is fine)
mod=""
case "${item:0:1}" in M|P|G) mod="${item:0:1}"; item="${item:1}" ;; esac
case "$mod" in
  M) echo '{"name":"c15_conversions_total","action":"inc","value":1}' >> "$METRICS_PATH" ;;
  P) echo '{"operation":"Frobnicate","kind":"Thing","name":"t"}' >> "$KUBERNETES_PATCH_PATH" ;;
  G) echo '{"name":"c15_conversions_total","action":"add","value":1}' >> "$METRICS_PATH" ;;
esac
kind="${item:0:1}"; rest="${item:1}"
case "$kind" in
  x|"") exit 1 ;;
  j) echo '{"convertedObjects": [' > "$CONVERSION_RESPONSE_PATH" ;;
  e) : ;;
  k) echo "{\"convertedObjects\": $(objs "$rest" "$fullto")}" > "$CONVERSION_RESPONSE_PATH" ;;
  w) echo "{\"convertedObjects\": $(objs "$rest" "")}" > "$CONVERSION_RESPONSE_PATH" ;;
  d) echo "{\"convertedObjects\": $(objs "$rest" "$desired")}" > "$CONVERSION_RESPONSE_PATH" ;;
  p) echo "{\"convertedObjects\": $(mixed "$rest" "$fullto")}" > "$CONVERSION_RESPONSE_PATH" ;;
  m) cnt="${rest%%:*}"; msg="${rest#*:}"
     echo "{\"failedMessage\": \"$msg\", \"convertedObjects\": $(objs "$cnt" "$fullto")}" > "$CONVERSION_RESPONSE_PATH" ;;
esac
exit 0
`

var c15HookOnce sync.Once

func c15SharedHook(r *Run) string {
	p := filepath.Join(r.Scratch, "c15-hook.sh")
	c15HookOnce.Do(func() { _ = writeScript(p, []byte(c15HookScript), 0o755) })
	return p
}

// a further request on the same operator (stateful cache): only the oracle line is recorded for it,
// because with a warm cache the chain chosen may legitimately differ from the model's
type c15Req struct {
	From, Desired string
	NObjs         int
	Script        []string
	Crd           int // the CRD the request is for (0 = things.g.io)
}

// the CRDs a case may declare conversions for; one hook may serve several of them
var c15CrdNames = []string{"things.g.io", "gadgets.g.io", "widgets.g.io"}

func c15CrdKey(crd int, rule string) string { return strconv.Itoa(crd) + "|" + rule }

type c15E2E struct {
	More    []c15Req
	Rules   []c15Rule
	Owner   []int // hook number per rule
	Bind    []int // binding number (within its hook) per rule; nil = one binding per hook
	NHooks  int
	From    string // apiVersion of the request objects (full spelling)
	Desired string
	NObjs   int
	Script  []string
	// Rate[h]: hook h is rate limited (settings.executionMinInterval / executionBurst): every run of it
	// passes a real wait in RateLimitWait between "task built" and "binding context written"
	Rate []bool
	// Sched != nil: the requests (0 = the first one, 1… = More) are in flight at the same time. Each
	// element is a request number and moves that request one stage forward while all the others stand
	// still: sent and handled up to the yield point conversion.taskBuilt of its first step (chain found,
	// task and binding context of the step built, hook run not begun) -> that step's hook run, up to the
	// same point of the next step -> … -> answered. Requests the schedule leaves unfinished are finished
	// one after the other at the end.
	Sched []int
	// Crd[i]: the CRD rule i is declared for (nil = all for CRD 0). The rules of one hook for different
	// CRDs are different bindings of that hook; the request names its CRD (c15Req.Crd, ReqCrd).
	Crd    []int
	ReqCrd int
	// CrdDesc: a hook lists its bindings for the highest CRD number first
	CrdDesc bool
	// Grouped: "<hook>_<binding>_<crd>" -> the binding carries the optional `group` key (its binding
	// context is still a conversion context: fromVersion, toVersion, review)
	Grouped map[string]string
}

func (e *c15E2E) crdOf(i int) int {
	if i < len(e.Crd) {
		return e.Crd[i]
	}
	return 0
}

// rulesOf lists the rules declared for one CRD.
func (e *c15E2E) rulesOf(crd int) []c15Rule {
	var out []c15Rule
	for i, rl := range e.Rules {
		if e.crdOf(i) == crd {
			out = append(out, rl)
		}
	}
	return out
}

func c15ObjsTok(ids []string, vers []string) string {
	var ss []string
	for i := range ids {
		ss = append(ss, ids[i]+"@"+c15Tok(vers[i]))
	}
	return joinStrs(ss)
}

func c15CanonMsg(m string) string {
	switch {
	case strings.HasPrefix(m, "Hook failed to convert to"):
		return "hook-failed"
	case strings.HasPrefix(m, "Conversion to"):
		return "not-successful"
	case strings.HasPrefix(m, "hook task prop error"):
		return "prop-error"
	case strings.HasPrefix(m, "no hook found"):
		return "no-hook"
	case strings.HasPrefix(m, "hook returned"):
		return "count-mismatch"
	}
	// a message is relayed byte for byte, also when it is made of line breaks or tabs only: shown escaped,
	// the way the script item spells it inside the JSON string it writes
	return "own:" + strings.NewReplacer(" ", "_", "\n", `\n`, "\r", `\r`, "\t", `\t`).Replace(m)
}

// how long one stage of a request in flight (at most one hook run) may take before the case is given
// up as undecidable
const c15StageMax = 25 * time.Second

// one operator over the hooks of a case
type c15Env struct {
	c          *Case
	e          c15E2E
	ctl        string
	router     http.Handler
	owner      map[string]string // rule -> "<hook>#<binding>" that declared it
	nonLast    map[string]bool   // rules of a binding that is not the last one of its hook
	splitHooks int
}

// one request of a case
type c15Flight struct {
	qi     int
	q      c15Req
	uid    string
	body   string
	params string
	lines  []string // the log lines of the hook runs made on behalf of this request
	rec    *httptest.ResponseRecorder
	// overlap
	launched bool
	arrive   <-chan *verifsched.Arrival
	parked   *verifsched.Arrival
	done     chan *httptest.ResponseRecorder
}

func (v *c15Env) logNow() []string {
	b, _ := os.ReadFile(filepath.Join(v.ctl, "log"))
	t := string(b)
	if k := strings.LastIndexByte(t, '\n'); k >= 0 {
		t = t[:k]
	} else {
		t = ""
	}
	var out []string
	for _, l := range strings.Split(t, "\n") {
		if l != "" {
			out = append(out, l)
		}
	}
	return out
}

// prepare writes the control files of request qi (its script, keyed by its uid) and builds its body:
// object names are qi*100+1… — no two requests of a case share an object.
func (v *c15Env) prepare(qi int, q c15Req) *c15Flight {
	uid := fmt.Sprintf("uid-%d-%d", v.c.Idx, qi)
	_ = os.WriteFile(filepath.Join(v.ctl, "counter."+uid), []byte("0\n"), 0o644)
	_ = os.WriteFile(filepath.Join(v.ctl, "script."+uid), []byte(strings.Join(q.Script, "\n")+"\n"), 0o644)
	_ = os.WriteFile(filepath.Join(v.ctl, "desired."+uid), []byte(q.Desired), 0o644)
	var ids, vers, objs []string
	for i := 1; i <= q.NObjs; i++ {
		ids = append(ids, strconv.Itoa(qi*100+i))
		vers = append(vers, q.From)
		objs = append(objs, fmt.Sprintf(`{"apiVersion":%q,"kind":"Thing","metadata":{"name":"%d"}}`, q.From, qi*100+i))
	}
	body := fmt.Sprintf(`{"apiVersion":"apiextensions.k8s.io/v1","kind":"ConversionReview","request":{"uid":%q,"desiredAPIVersion":%q,"objects":[%s]}}`,
		uid, q.Desired, strings.Join(objs, ","))
	mine := v.e.rulesOf(q.Crd) // the rules declared for the CRD of this request, and only those
	params := fmt.Sprintf("crd=%s rules=%s links=%s to=%s group=%s objs=%s script=%s", c15CrdNames[q.Crd], c15Rules(mine), c15Rules(mine),
		c15Tok(q.Desired), c15Group, c15ObjsTok(ids, vers), strings.ReplaceAll(joinStrs(q.Script), ",", ";"))
	return &c15Flight{qi: qi, q: q, uid: uid, body: body, params: params}
}

func (v *c15Env) send(f *c15Flight) *httptest.ResponseRecorder {
	req := httptest.NewRequest(http.MethodPost, "/"+c15CrdNames[f.q.Crd], bytes.NewReader([]byte(f.body)))
	req.Header.Set("Content-Type", "application/json")
	rec := httptest.NewRecorder()
	v.router.ServeHTTP(rec, req)
	return rec
}

// record turns what request f showed (its answer, the hook runs made for it) into the op lines.
func (v *c15Env) record(f *c15Flight, withOp bool) {
	c := v.c
	rec := f.rec
	var review struct {
		Response *struct {
			UID              string            `json:"uid"`
			ConvertedObjects []json.RawMessage `json:"convertedObjects"`
			Result           struct {
				Status  string `json:"status"`
				Message string `json:"message"`
			} `json:"result"`
		} `json:"response"`
	}
	status, reply, oreply := "", "", ""
	if rec == nil {
		status = "not-answered"
	} else if rec.Code != http.StatusOK {
		status = fmt.Sprintf("http-%d", rec.Code)
	} else if err := json.Unmarshal(rec.Body.Bytes(), &review); err != nil || review.Response == nil {
		status = "undecodable-response"
	} else {
		status = review.Response.Result.Status
		if review.Response.UID != f.uid {
			status = "uid-not-echoed"
		}
	}
	switch status {
	case "Success":
		var oi, ov []string
		for _, raw := range review.Response.ConvertedObjects {
			var o struct {
				APIVersion string `json:"apiVersion"`
				Metadata   struct {
					Name string `json:"name"`
				} `json:"metadata"`
			}
			_ = json.Unmarshal(raw, &o) // `null`, `{}`: no name, no apiVersion
			if o.Metadata.Name == "" {
				o.Metadata.Name = "0"
			}
			oi = append(oi, o.Metadata.Name)
			ov = append(ov, o.APIVersion)
		}
		reply = "Success objs=" + c15ObjsTok(oi, ov)
		oreply = "status=Success robjs=" + c15ObjsTok(oi, ov)
	case "Failure":
		m := c15CanonMsg(review.Response.Result.Message)
		reply = "Failed msg=" + m
		oreply = "status=Failed msg=" + m
	default:
		reply = status
		oreply = "status=" + status
	}
	// the hook runs, in order
	var inv, handed []string
	for _, l := range f.lines {
		fl := strings.SplitN(l, " ", 3)
		if len(fl) != 3 || strings.IndexByte(fl[2], '[') < 0 {
			inv = append(inv, "unreadable-log-line")
			handed = append(handed, "?")
			continue
		}
		entry := fl[2]
		if strings.HasSuffix(entry, "[]") {
			entry = strings.TrimSuffix(entry, "[]") + "[-]"
		}
		entry = strings.ReplaceAll(entry, "@,", "@-,")
		entry = strings.ReplaceAll(entry, "@]", "@-]")
		ruleTok := entry[:strings.IndexByte(entry, '[')]
		if v.owner[c15CrdKey(f.q.Crd, ruleTok)] != fl[0] {
			entry = "ran-in-a-hook-or-binding-that-did-not-register-it:" + fl[0] + ":" + entry
		}
		handed = append(handed, fl[1])
		if fl[1] != f.uid {
			// the review in the binding context of a run made for this request is another request's
			c.Note("e2e:a-run-was-handed-another-request")
		}
		if v.nonLast[c15CrdKey(f.q.Crd, ruleTok)] {
			c.Note("e2e:ran-a-rule-of-a-non-last-binding")
		}
		inv = append(inv, entry)
	}
	invTok := "-"
	if len(inv) > 0 {
		invTok = strings.Join(inv, ";")
	}
	if withOp {
		c.Op("e2e "+f.params, reply+" inv="+invTok)
	} else if v.e.Sched == nil {
		c.Note("e2e:later-request-on-a-warm-cache")
	}
	handedTok := "-"
	if len(handed) > 0 {
		handedTok = strings.Join(handed, ";")
	}
	c.Oracle("e2e " + f.params + " inv=" + invTok + " req=" + f.uid + " handed=" + handedTok + " " + oreply)
	c.Note("e2e:reply:" + strings.SplitN(reply, "=", 2)[0] + func() string {
		if strings.HasPrefix(reply, "Failed msg=own:") {
			return "=own"
		}
		if i := strings.Index(reply, "="); i >= 0 && strings.HasPrefix(reply, "Failed") {
			return "=" + reply[i+1:]
		}
		return ""
	}())
	c.Note(fmt.Sprintf("e2e:runs=%d", len(inv)))
	if v.splitHooks > 0 {
		c.Note("e2e:bindings:a-hook-splits-the-crd's-rules-over-several-bindings")
	} else {
		c.Note("e2e:bindings:one-per-hook")
	}
	for _, s := range f.q.Script {
		c.Note("e2e:script:" + s[:1])
	}
	c.Nontrivial = c.Nontrivial || len(inv) > 0
}

// c15RunE2E runs the ConversionReviews of a case through the real handler chain (one after the other,
// or in flight at the same time in a forced interleaving) and records the case.
func c15RunE2E(r *Run, c *Case, e c15E2E) {
	root := filepath.Join(r.Scratch, fmt.Sprintf("c15-e2e-%d", c.Idx))
	hooksDir := filepath.Join(root, "hooks")
	ctl := filepath.Join(root, "ctl")
	tmp := filepath.Join(root, "tmp")
	for _, d := range []string{hooksDir, ctl, tmp} {
		_ = os.MkdirAll(d, 0o755)
	}
	defer os.RemoveAll(root)
	hookName := func(h int) string { return fmt.Sprintf("h%d.sh", h) }
	bindOf := func(i int) int {
		if i < len(e.Bind) {
			return e.Bind[i]
		}
		return 0
	}
	bindName := func(h, b, crd int) string {
		if crd == 0 {
			return fmt.Sprintf("conv%d_%d", h, b)
		}
		return fmt.Sprintf("conv%d_%dc%d", h, b, crd)
	}
	maxBind, maxCrd := 0, 0
	for i := range e.Rules {
		if bindOf(i) > maxBind {
			maxBind = bindOf(i)
		}
		if e.crdOf(i) > maxCrd {
			maxCrd = e.crdOf(i)
		}
	}
	if maxCrd >= len(c15CrdNames) || e.ReqCrd >= len(c15CrdNames) {
		c.Inconcl = "generator: CRD number out of range"
		return
	}
	v := &c15Env{c: c, e: e, ctl: ctl, owner: map[string]string{}, nonLast: map[string]bool{}}
	multiCrdHooks, groupedBindings := 0, 0
	for h := 0; h < e.NHooks; h++ {
		// one kubernetesCustomResourceConversion binding per (binding number, CRD) that has rules: several
		// bindings of a hook for one CRD (the shape of pkg/hook/testdata/hook_manager_conversion_chains/
		// hook.sh) and bindings of one hook for different CRDs
		var bindings []string
		crdsOfHook := map[int]bool{}
		for ci := 0; ci <= maxCrd; ci++ {
			crd := ci
			if e.CrdDesc {
				crd = maxCrd - ci
			}
			for b := 0; b <= maxBind; b++ {
				var convs []string
				for i, rl := range e.Rules {
					if e.Owner[i] == h && bindOf(i) == b && e.crdOf(i) == crd {
						convs = append(convs, fmt.Sprintf(`{"fromVersion": %q, "toVersion": %q}`, rl.From, rl.To))
					}
				}
				if len(convs) > 0 {
					grp := ""
					if g := e.Grouped[fmt.Sprintf("%d_%d_%d", h, b, crd)]; g != "" {
						grp = fmt.Sprintf(`"group":%q,`, g)
						groupedBindings++
					}
					bindings = append(bindings, fmt.Sprintf(`{"name":%q,%s"crdName":%q,"conversions":[%s]}`,
						bindName(h, b, crd), grp, c15CrdNames[crd], strings.Join(convs, ",")))
					crdsOfHook[crd] = true
				}
			}
		}
		if len(bindings) == 0 {
			continue
		}
		if len(bindings) > len(crdsOfHook) {
			v.splitHooks++
		}
		if len(crdsOfHook) > 1 {
			multiCrdHooks++
		}
		settings := ""
		if h < len(e.Rate) && e.Rate[h] {
			settings = `"settings":{"executionMinInterval":"40ms","executionBurst":1},`
			c.Note("e2e:a-rate-limited-hook")
		}
		cfg := fmt.Sprintf(`{"configVersion":"v1",%s"kubernetesCustomResourceConversion":[%s]}`, settings, strings.Join(bindings, ","))
		_ = os.WriteFile(filepath.Join(ctl, hookName(h)+".cfg"), []byte(cfg), 0o644)
		// a hard link to the one script written before the parallel cases start: writing an
		// executable while another case forks gives "text file busy"
		if err := os.Link(c15SharedHook(r), filepath.Join(hooksDir, hookName(h))); err != nil {
			c.Inconcl = "cannot link the hook script: " + err.Error()
			return
		}
	}
	_ = os.WriteFile(filepath.Join(ctl, "group"), []byte(c15Group), 0o644)
	_ = os.WriteFile(filepath.Join(ctl, "log"), nil, 0o644)
	for i, rl := range e.Rules {
		for j := range e.Rules {
			if e.Owner[j] == e.Owner[i] && e.crdOf(j) == e.crdOf(i) && bindOf(j) > bindOf(i) {
				v.nonLast[c15CrdKey(e.crdOf(i), rl.String())] = true
			}
		}
		v.owner[c15CrdKey(e.crdOf(i), rl.String())] = hookName(e.Owner[i]) + "#" + bindName(e.Owner[i], bindOf(i), e.crdOf(i))
	}
	if maxCrd > 0 {
		c.Note(fmt.Sprintf("e2e:crds=%d", maxCrd+1))
		if multiCrdHooks > 0 {
			c.Note("e2e:a-hook-has-conversion-bindings-for-several-crds")
		} else {
			c.Note("e2e:several-crds-each-hook-serves-one")
		}
	}
	if groupedBindings > 0 {
		c.Note("e2e:a-conversion-binding-with-a-group")
	}

	op, handler, err := shell_operator.VerifC15NewOperator(hooksDir, tmp)
	if err != nil {
		c.Op("e2e setup", "setup-error "+firstLine(err.Error()))
		return
	}
	defer op.VerifC15Stop()
	v.router = handler.Router

	reqs := append([]c15Req{{e.From, e.Desired, e.NObjs, e.Script, e.ReqCrd}}, e.More...)
	if e.Sched == nil {
		for qi, q := range reqs {
			f := v.prepare(qi, q)
			before := len(v.logNow())
			f.rec = v.send(f)
			if l := v.logNow(); len(l) > before {
				f.lines = l[before:]
			}
			v.record(f, qi == 0)
		}
		return
	}

	// ---- requests in flight at the same time, interleaved as scripted
	fl := make([]*c15Flight, len(reqs))
	for qi, q := range reqs {
		fl[qi] = v.prepare(qi, q)
	}
	key := func(f *c15Flight) string { return "conversion/" + f.uid }
	// moves request f one stage forward while every other request stands still; "" = timeout
	move := func(f *c15Flight) string {
		if f.rec != nil {
			return "answered"
		}
		before := len(v.logNow())
		if !f.launched {
			f.launched = true
			f.arrive = sched.Subscribe(key(f))
			f.done = make(chan *httptest.ResponseRecorder, 1)
			go func() { f.done <- v.send(f) }()
		} else if f.parked != nil {
			f.parked.Release()
			f.parked = nil
		}
		res := ""
		select {
		case a := <-f.arrive:
			f.parked = a
			res = "parked"
		case rec := <-f.done:
			f.rec = rec
			res = "answered"
		case <-time.After(c15StageMax):
		}
		// only this request moved: the hook runs logged meanwhile are its runs
		if l := v.logNow(); len(l) > before {
			f.lines = append(f.lines, l[before:]...)
		}
		return res
	}
	stuck := ""
	first := -1
	maxInFlight, inFlight := 0, 0
	step := func(qi int) bool {
		f := fl[qi]
		if first < 0 {
			first = qi
		}
		was := f.launched && f.rec == nil
		switch move(f) {
		case "":
			stuck = fmt.Sprintf("request %d", qi)
			return false
		case "parked":
			if !was {
				inFlight++
			}
		case "answered":
			if was {
				inFlight--
			}
		}
		if inFlight > maxInFlight {
			maxInFlight = inFlight
		}
		return true
	}
	for _, qi := range e.Sched {
		if qi < 0 || qi >= len(fl) {
			continue
		}
		if !step(qi) {
			break
		}
	}
	for qi := 0; qi < len(fl) && stuck == ""; qi++ {
		for fl[qi].rec == nil && step(qi) {
		}
	}
	for _, f := range fl {
		if f.launched {
			sched.Unsubscribe(key(f))
		}
	}
	if stuck != "" {
		// let everything end: the script cannot be followed any further
		for _, f := range fl {
			if f.parked != nil {
				f.parked.Release()
				f.parked = nil
			}
		}
		for _, f := range fl {
			for f.launched && f.rec == nil {
				select {
				case a := <-f.arrive:
					a.Release()
					continue
				case f.rec = <-f.done:
					continue
				case <-time.After(c15StageMax):
				}
				break
			}
		}
		c.Inconcl = "the scripted interleaving got stuck at " + stuck + " (a yield point was not reached or a hook run did not end in time)"
		return
	}
	c.Note(fmt.Sprintf("overlap:requests=%d", len(fl)))
	c.Note(fmt.Sprintf("overlap:most-in-flight=%d", maxInFlight))
	for _, f := range fl {
		// the request handled first found a cold cache: the model's chain is the one chosen
		v.record(f, f.qi == 0 && first == 0)
	}
}

// c15ShortestCount counts the rule sequences of minimal length from a to b (classes = short versions).
func c15ShortestCount(rules []c15Rule, a, b string) (int, int) {
	dist := map[string]int{c15Trim(a): 0}
	cnt := map[string]int{c15Trim(a): 1}
	frontier := []string{c15Trim(a)}
	for d := 1; len(frontier) > 0; d++ {
		var next []string
		for _, u := range frontier {
			for _, rl := range rules {
				if c15Trim(rl.From) != u {
					continue
				}
				v := c15Trim(rl.To)
				if dv, ok := dist[v]; !ok {
					dist[v] = d
					cnt[v] = cnt[u]
					next = append(next, v)
				} else if dv == d {
					cnt[v] += cnt[u]
				}
			}
		}
		if _, ok := dist[c15Trim(b)]; ok {
			break
		}
		frontier = next
	}
	if d, ok := dist[c15Trim(b)]; ok {
		return cnt[c15Trim(b)], d
	}
	return 0, 0
}

func c15E2ECorpus(r *Run) {
	c15SharedHook(r)
	lin := []c15Rule{{"v1", "v2"}, {"g.io/v2", "v3"}, {"v3", "g.io/v2"}}
	r.One(10, func(c *Case, _ *Rng) {
		c.Desc = "corpus: the hook of step 1 of 2 answers with its own failedMessage"
		c15RunE2E(r, c, c15E2E{Rules: lin, Owner: []int{0, 1, 1}, NHooks: 2, From: "g.io/v1", Desired: "g.io/v3", NObjs: 2,
			Script: []string{"m0:my-own-message", "k2"}})
	})
	r.One(50, func(c *Case, _ *Rng) {
		c.Desc = "corpus: the hook of step 1 of 2 answers with a failedMessage that is one line break: Failed with that message, step 2 is not run"
		c15RunE2E(r, c, c15E2E{Rules: lin, Owner: []int{0, 1, 1}, NHooks: 2, From: "g.io/v1", Desired: "g.io/v3", NObjs: 2,
			Script: []string{`m2:\n`, "k2"}})
	})
	r.One(11, func(c *Case, _ *Rng) {
		c.Desc = "corpus: two objects requested, the hook returns one converted object"
		c15RunE2E(r, c, c15E2E{Rules: lin, Owner: []int{0, 1, 1}, NHooks: 2, From: "g.io/v2", Desired: "g.io/v3", NObjs: 2,
			Script: []string{"k1"}})
	})
	r.One(12, func(c *Case, _ *Rng) {
		c.Desc = "corpus: two steps, both succeed"
		c15RunE2E(r, c, c15E2E{Rules: lin, Owner: []int{0, 1, 1}, NHooks: 2, From: "g.io/v1", Desired: "g.io/v3", NObjs: 3,
			Script: []string{"k3", "k3"}})
	})
	r.One(13, func(c *Case, _ *Rng) {
		c.Desc = "corpus: step 2 of 3 exits non-zero; step 1 returns one object too many"
		rules := []c15Rule{{"v1", "v2"}, {"v2", "v3"}, {"v3", "v4"}}
		c15RunE2E(r, c, c15E2E{Rules: rules, Owner: []int{0, 0, 0}, NHooks: 1, From: "g.io/v1", Desired: "g.io/v4", NObjs: 1,
			Script: []string{"k2", "x", "k1"}})
	})
	updown := []c15Rule{{"v1", "v2"}, {"v2", "v3"}, {"v3", "v2"}, {"v2", "v1"}, {"v3", "v4"}}
	r.One(14, func(c *Case, _ *Rng) {
		c.Desc = "corpus: one hook declares the up and the down conversions of the CRD in two bindings; up, down and across"
		c15RunE2E(r, c, c15E2E{Rules: updown, Owner: []int{0, 0, 0, 0, 1}, Bind: []int{0, 0, 1, 1, 0}, NHooks: 2,
			From: "g.io/v1", Desired: "g.io/v3", NObjs: 2, Script: []string{"k2", "k2"},
			More: []c15Req{{"g.io/v3", "g.io/v1", 1, []string{"k1", "k1"}, 0}, {"g.io/v1", "g.io/v4", 1, []string{"k1", "k1", "k1"}, 0}}})
	})
	r.One(15, func(c *Case, _ *Rng) {
		c.Desc = "corpus: three bindings of one hook for one CRD, the middle step of the chain is in the first binding"
		rules := []c15Rule{{"v1", "v2"}, {"g.io/v2", "v3"}, {"v3", "v4"}}
		c15RunE2E(r, c, c15E2E{Rules: rules, Owner: []int{0, 0, 0}, Bind: []int{2, 0, 1}, NHooks: 1,
			From: "g.io/v1", Desired: "g.io/v4", NObjs: 1, Script: []string{"k1", "k1", "k1"}})
	})
	// hook answers whose objects differ: some converted, some left behind, some without apiVersion,
	// some `null` — at the first, a middle and the last position, at the last and at an earlier step
	two := []c15Rule{{"v1", "v2"}, {"v2", "v3"}}
	for i, sc := range [][]string{
		{"k3", "pcnc"}, {"k3", "pccz"}, {"k3", "pzcc"}, {"k3", "pcco"}, {"k3", "pbcc"}, {"k3", "pccb"},
		{"pdnn", "k3"}, {"pdzd", "k3"}, {"pcoz", "k3"}, {"k3", "pccc"},
	} {
		sc := sc
		r.One(20+i, func(c *Case, _ *Rng) {
			c.Desc = "corpus: two steps, three objects, one step answers with objects that differ (" + strings.Join(sc, " ") +
				": c converted, d desired, o untouched, n apiVersion removed, b {}, z null)"
			c15RunE2E(r, c, c15E2E{Rules: two, Owner: []int{0, 0}, NHooks: 1, From: "g.io/v1", Desired: "g.io/v3", NObjs: 3, Script: sc})
		})
	}
	// requests in flight at the same time: every hook run and every answer belongs to its own request
	one := []c15Rule{{"v1", "v2"}}
	r.One(30, func(c *Case, _ *Rng) {
		c.Desc = "corpus: two requests for the same rule in flight: A built, B built, A's hook runs, B's hook runs (the hook is rate limited)"
		c15RunE2E(r, c, c15E2E{Rules: one, Owner: []int{0}, NHooks: 1, Rate: []bool{true}, From: "g.io/v1", Desired: "g.io/v2", NObjs: 1,
			Script: []string{"k1"}, More: []c15Req{{"g.io/v1", "g.io/v2", 2, []string{"k2"}, 0}}, Sched: []int{0, 1, 0, 1}})
	})
	r.One(31, func(c *Case, _ *Rng) {
		c.Desc = "corpus: two requests for the same two-step chain in flight, step by step in turns, B overtakes A at the second step"
		c15RunE2E(r, c, c15E2E{Rules: two, Owner: []int{0, 1}, NHooks: 2, From: "g.io/v1", Desired: "g.io/v3", NObjs: 2,
			Script: []string{"k2", "k2"}, More: []c15Req{{"g.io/v1", "g.io/v3", 1, []string{"k1", "k1"}, 0}}, Sched: []int{0, 1, 0, 1, 1, 0}})
	})
	r.One(32, func(c *Case, _ *Rng) {
		c.Desc = "corpus: three requests in flight over one hook with two bindings: v1->v3, v2->v3 (shares the second rule) and v3->v1 (down); the first one fails at step 2 with its own message"
		c15RunE2E(r, c, c15E2E{Rules: updown, Owner: []int{0, 0, 0, 0, 1}, Bind: []int{0, 0, 1, 1, 0}, NHooks: 2, Rate: []bool{true, false},
			From: "g.io/v1", Desired: "g.io/v3", NObjs: 2, Script: []string{"k2", "m0:not-me"},
			More:  []c15Req{{"g.io/v2", "g.io/v3", 1, []string{"k1"}, 0}, {"g.io/v3", "g.io/v1", 3, []string{"k3", "k3"}, 0}},
			Sched: []int{0, 1, 2, 0, 2, 1, 0, 2}})
	})
	r.One(33, func(c *Case, _ *Rng) {
		c.Desc = "corpus: a request arrives and is answered while another one for the same rule waits between task built and hook run; then a third one arrives"
		c15RunE2E(r, c, c15E2E{Rules: one, Owner: []int{0}, NHooks: 1, From: "g.io/v1", Desired: "g.io/v2", NObjs: 2,
			Script: []string{"k2"}, More: []c15Req{{"g.io/v1", "g.io/v2", 1, []string{"k1"}, 0}, {"g.io/v1", "g.io/v2", 3, []string{"x"}, 0}},
			Sched: []int{0, 1, 1, 2, 0, 2}})
	})
	// a conversion binding may carry the optional `group` key: its hook still gets a conversion context
	r.One(40, func(c *Case, _ *Rng) {
		c.Desc = "corpus: two steps served by one binding that carries a group"
		c15RunE2E(r, c, c15E2E{Rules: two, Owner: []int{0, 0}, NHooks: 1, From: "g.io/v1", Desired: "g.io/v3", NObjs: 2,
			Script: []string{"k2", "k2"}, Grouped: map[string]string{"0_0_0": "main"}})
	})
	r.One(41, func(c *Case, _ *Rng) {
		c.Desc = "corpus: three steps, two hooks, the middle step in a binding with a group, the others without; then back down"
		c15RunE2E(r, c, c15E2E{Rules: updown, Owner: []int{0, 1, 1, 0, 0}, Bind: []int{0, 1, 0, 0, 1}, NHooks: 2,
			From: "g.io/v1", Desired: "g.io/v4", NObjs: 1, Script: []string{"k1", "k1", "k1"},
			Grouped: map[string]string{"1_1_0": "middle", "0_0_0": ""},
			More:    []c15Req{{"g.io/v3", "g.io/v1", 2, []string{"k2", "k2"}, 0}}})
	})
	// a hook run can fail after the hook process ended and left a well formed response: its other output
	// channels (metrics, object patches) are refused by the operator. Such a step has not succeeded.
	for i, sc := range [][]string{{"Mk2", "k2"}, {"Pk2", "k2"}, {"k2", "Mk2"}, {"Gk2", "Gk2"}, {"Mm0:my-own-message", "k2"}, {"Mpdd", "k2"}} {
		sc := sc
		r.One(42+i, func(c *Case, _ *Rng) {
			c.Desc = "corpus: two steps, two objects; a hook also writes metrics / an object patch (" + strings.Join(sc, " ") +
				": M a metric operation that is not valid, P a patch operation that is not valid, G a valid metric)"
			c15RunE2E(r, c, c15E2E{Rules: two, Owner: []int{0, 1}, NHooks: 2, From: "g.io/v1", Desired: "g.io/v3", NObjs: 2, Script: sc})
		})
	}
	// one hook with conversion bindings for several CRDs: every CRD has its own rules
	r.One(48, func(c *Case, _ *Rng) {
		c.Desc = "corpus: one hook declares v1>v2 for things.g.io and v1>v2, v2>v3 for gadgets.g.io; gadgets v1->v3, things v1->v3 (no chain), things v1->v2"
		c15RunE2E(r, c, c15E2E{Rules: []c15Rule{{"v1", "v2"}, {"v1", "v2"}, {"v2", "v3"}}, Crd: []int{0, 1, 1}, Owner: []int{0, 0, 0}, NHooks: 1,
			ReqCrd: 1, From: "g.io/v1", Desired: "g.io/v3", NObjs: 2, Script: []string{"k2", "k2"},
			More: []c15Req{{"g.io/v1", "g.io/v3", 1, []string{"k1", "k1"}, 0}, {"g.io/v1", "g.io/v2", 1, []string{"k1"}, 0}}})
	})
	r.One(49, func(c *Case, _ *Rng) {
		c.Desc = "corpus: two hooks share three CRDs, the bindings for the last CRD come first; the chain of widgets.g.io crosses both hooks"
		c15RunE2E(r, c, c15E2E{Rules: []c15Rule{{"v1", "v2"}, {"v2", "v1"}, {"v2", "v3"}, {"v1", "v2"}, {"g.io/v2", "v3"}, {"v3", "v4"}},
			Crd: []int{0, 0, 1, 2, 2, 2}, Owner: []int{0, 1, 0, 1, 0, 1}, Bind: []int{0, 0, 0, 1, 0, 0}, NHooks: 2, CrdDesc: true,
			ReqCrd: 2, From: "g.io/v1", Desired: "g.io/v4", NObjs: 1, Script: []string{"k1", "k1", "k1"},
			More: []c15Req{{"g.io/v2", "g.io/v3", 2, []string{"k2"}, 1}, {"g.io/v2", "g.io/v1", 1, []string{"k1"}, 0},
				{"g.io/v1", "g.io/v3", 1, []string{"k1", "k1"}, 0}, {"g.io/v1", "g.io/v3", 1, []string{"k1", "k1"}, 1}}})
	})
}

// c15SideChannels: now and then a step also uses the hook's other output channels (see the hook script).
func c15SideChannels(rng *Rng, sc []string) []string {
	for i := range sc {
		switch k := rng.Intn(100); {
		case k < 7:
			sc[i] = "M" + sc[i]
		case k < 12:
			sc[i] = "P" + sc[i]
		case k < 20:
			sc[i] = "G" + sc[i]
		}
	}
	return sc
}

// c15GroupSome gives some of the bindings of a case the optional `group` key.
func c15GroupSome(rng *Rng, e *c15E2E) {
	e.Grouped = map[string]string{}
	for i := range e.Rules {
		b := 0
		if i < len(e.Bind) {
			b = e.Bind[i]
		}
		k := fmt.Sprintf("%d_%d_%d", e.Owner[i], b, e.crdOf(i))
		if _, ok := e.Grouped[k]; !ok {
			e.Grouped[k] = ""
			if rng.Chance(55) {
				e.Grouped[k] = fmt.Sprintf("grp%d", rng.Intn(2))
			}
		}
	}
}

// c15MixedItem is a hook answer with one letter per object (see the hook script): mostly converted
// objects with one or two that are not, or any mixture.
func c15MixedItem(c *Case, rng *Rng, n int) string {
	if n < 1 {
		n = 1
	}
	good := byte('c')
	if rng.Chance(25) {
		good = 'd'
	}
	spec := bytes.Repeat([]byte{good}, n)
	const bad = "onzb"
	if rng.Chance(65) {
		for k := rng.Range(1, 2); k > 0; k-- {
			at := rng.Intn(n)
			spec[at] = bad[rng.Intn(len(bad))]
			switch {
			case at == 0:
				c.Note("e2e:mixed:first-object-not-converted")
			case at == n-1:
				c.Note("e2e:mixed:last-object-not-converted")
			default:
				c.Note("e2e:mixed:a-middle-object-not-converted")
			}
		}
	} else {
		const any = "ccccddonzb"
		for i := range spec {
			spec[i] = any[rng.Intn(len(any))]
		}
		c.Note("e2e:mixed:any-mixture")
	}
	return "p" + string(spec)
}

func c15E2ERandom(r *Run) {
	n := r.N(400, 4000)
	r.Cases(500000, n, 0, func(c *Case, rng *Rng) {
		var e c15E2E
		var a, b string
		// a rule graph with exactly one shortest rule sequence from a to b (or none)
		for try := 0; ; try++ {
			nv := rng.Range(2, 7)
			e.Rules = c15RandomGraph(rng, nv, false)
			// declared rules are a set
			seen := map[c15Rule]bool{}
			var rs []c15Rule
			for _, rl := range e.Rules {
				if !seen[rl] {
					seen[rl] = true
					rs = append(rs, rl)
				}
			}
			e.Rules = rs
			a, b = c15Names[rng.Intn(nv)], c15Names[rng.Intn(nv)]
			if a == b || len(e.Rules) == 0 {
				continue
			}
			cnt, d := c15ShortestCount(e.Rules, a, b)
			if cnt == 1 && d < 2 && try < 40 && rng.Chance(70) {
				continue // prefer chains of several steps
			}
			if cnt == 1 || (cnt == 0 && rng.Chance(10)) || try > 50 {
				if cnt > 1 {
					e.Rules = []c15Rule{{a, b}}
					d = 1
				}
				e.From, e.Desired = c15Group+"/"+a, c15Group+"/"+b
				e.NObjs = PickOne(rng, []int{0, 1, 1, 2, 2, 3})
				faulty := rng.Chance(60)
				// a third of the cases: one step (mostly the last) answers with objects that differ
				mixedAt := -1
				if d > 0 && rng.Chance(35) {
					e.NObjs = rng.Range(2, 4)
					faulty = rng.Chance(15)
					mixedAt = d - 1
					if rng.Chance(35) {
						mixedAt = rng.Intn(d)
					}
				}
				for i := 0; i < d; i++ {
					it := fmt.Sprintf("k%d", e.NObjs)
					if i == mixedAt {
						it = c15MixedItem(c, rng, PickOne(rng, []int{e.NObjs, e.NObjs, e.NObjs, e.NObjs, e.NObjs - 1, e.NObjs + 1}))
					} else if faulty && (rng.Chance(100/d+10) || (i == d-1 && rng.Chance(40))) {
						switch rng.Intn(8) {
						case 0:
							it = "x"
						case 1:
							it = "j"
						case 2:
							it = "e"
						case 3:
							it = fmt.Sprintf("k%d", e.NObjs+1)
						case 4:
							if e.NObjs > 0 {
								it = fmt.Sprintf("k%d", e.NObjs-1)
							}
						case 5:
							it = fmt.Sprintf("w%d", e.NObjs)
						case 6:
							it = fmt.Sprintf("d%d", PickOne(rng, []int{e.NObjs, e.NObjs, e.NObjs + 1}))
						default:
							// the hook's own message is relayed verbatim: also when it looks like a format string
							it = fmt.Sprintf("m%d:own-message-%d%s", PickOne(rng, []int{0, e.NObjs}), rng.Intn(90),
								PickOne(rng, []string{"", "", "-100%", "-%s", "-%d-of-%d", "-%v%%", "-%!x", "-{{.}}"}))
							if rng.Chance(20) {
								// ... and when it is white space only or ends / begins with a line break (JSON escapes,
								// spelled as in the response file): a non-empty message is a failure whatever it looks like
								it = fmt.Sprintf("m%d:%s", PickOne(rng, []int{0, e.NObjs}),
									PickOne(rng, []string{`\n`, `\r\n`, `\n\n`, `\t`, `msg\n`, `\nmsg`, `\n\t\n`}))
							}
						}
					}
					e.Script = append(e.Script, it)
				}
				if rng.Chance(15) {
					e.Script = append(e.Script, "k1") // never reached unless something is wrong
				}
				if rng.Chance(45) {
					e.Script = c15SideChannels(rng, e.Script)
				}
				break
			}
		}
		// further requests on the same operator, any pair of versions
		for k := rng.Intn(3); k > 0 && rng.Chance(60); k-- {
			var vs []string
			seenV := map[string]bool{}
			for _, rl := range e.Rules {
				for _, v := range []string{c15Trim(rl.From), c15Trim(rl.To)} {
					if !seenV[v] {
						seenV[v] = true
						vs = append(vs, v)
					}
				}
			}
			if len(vs) < 2 {
				break
			}
			fa, fb := PickOne(rng, vs), PickOne(rng, vs)
			if fa == fb {
				continue
			}
			n := rng.Range(1, 2)
			var sc []string
			for i := 0; i < 6; i++ {
				it := fmt.Sprintf("k%d", n)
				if rng.Chance(12) {
					it = PickOne(rng, []string{"x", "e", fmt.Sprintf("m%d:later-%d", n, i), fmt.Sprintf("k%d", n+1), fmt.Sprintf("d%d", n)})
				}
				sc = append(sc, it)
			}
			if rng.Chance(25) {
				sc = c15SideChannels(rng, sc)
			}
			e.More = append(e.More, c15Req{c15Group + "/" + fa, c15Group + "/" + fb, n, sc, 0})
		}
		// a third of the cases: the hooks also serve one or two other CRDs, each with its own rules over
		// the same version names; the requests go to any of them
		if rng.Chance(35) {
			ncrd := rng.Range(2, 3)
			mainCrd := rng.Intn(ncrd)
			e.ReqCrd = mainCrd
			for range e.Rules {
				e.Crd = append(e.Crd, mainCrd)
			}
			for i := range e.More {
				e.More[i].Crd = mainCrd
			}
			nvAll := len(c15Versions(e.Rules)) + 1
			if nvAll < 3 {
				nvAll = 3
			}
			if nvAll > len(c15Names) {
				nvAll = len(c15Names)
			}
			for crd := 0; crd < ncrd; crd++ {
				if crd == mainCrd {
					continue
				}
				seen := map[c15Rule]bool{}
				for _, rl := range c15RandomGraph(rng, rng.Range(2, nvAll), false) {
					if !seen[rl] {
						seen[rl] = true
						e.Rules = append(e.Rules, rl)
						e.Crd = append(e.Crd, crd)
					}
				}
				// a request for this CRD: mostly a pair its own rules do not connect but the rules of all
				// CRDs together might, or any pair
				own := e.rulesOf(crd)
				vs := c15Versions(e.Rules)
				for k := rng.Range(1, 2); k > 0 && len(vs) >= 2 && len(own) > 0; k-- {
					fa, fb := PickOne(rng, vs), PickOne(rng, vs)
					for try := 0; try < 20; try++ {
						cntOwn, _ := c15ShortestCount(own, fa, fb)
						cntAll, _ := c15ShortestCount(e.Rules, fa, fb)
						if fa != fb && (try >= 10 || (cntOwn == 0) == (k == 1) && cntAll > 0) {
							break
						}
						fa, fb = PickOne(rng, vs), PickOne(rng, vs)
					}
					if fa == fb {
						continue
					}
					n := rng.Range(1, 2)
					var sc []string
					for i := 0; i < 6; i++ {
						sc = append(sc, fmt.Sprintf("k%d", n))
					}
					e.More = append(e.More, c15Req{c15Group + "/" + fa, c15Group + "/" + fb, n, sc, crd})
				}
			}
			e.CrdDesc = rng.Chance(50)
			rng.Shuffle(len(e.More), func(i, j int) { e.More[i], e.More[j] = e.More[j], e.More[i] })
		}
		e.NHooks = rng.Range(1, 3)
		for range e.Rules {
			e.Owner = append(e.Owner, rng.Intn(e.NHooks))
		}
		// the rules a hook owns are declared in one binding, or spread over up to three bindings
		// for the same CRD (up_conversions / down_conversions …)
		if rng.Chance(65) {
			nb := make([]int, e.NHooks)
			for h := range nb {
				nb[h] = rng.Range(1, 3)
			}
			for i := range e.Rules {
				e.Bind = append(e.Bind, rng.Intn(nb[e.Owner[i]]))
			}
		}
		if rng.Chance(35) {
			c15GroupSome(rng, &e)
		}
		c15RunE2E(r, c, e)
	})
}

// c15Versions lists the short versions the rules mention.
func c15Versions(rules []c15Rule) []string {
	var vs []string
	seen := map[string]bool{}
	for _, rl := range rules {
		for _, v := range []string{c15Trim(rl.From), c15Trim(rl.To)} {
			if !seen[v] {
				seen[v] = true
				vs = append(vs, v)
			}
		}
	}
	return vs
}

// c15E2EOverlap: 2-3 conversion requests in flight on one operator at the same time.
func c15E2EOverlap(r *Run) {
	n := r.N(160, 1200)
	r.Cases(600000, n, 0, func(c *Case, rng *Rng) {
		var e c15E2E
		var a, b string
		d := 0
		for try := 0; ; try++ {
			nv := rng.Range(2, 5)
			e.Rules = c15RandomGraph(rng, nv, false)
			seen := map[c15Rule]bool{}
			var rs []c15Rule
			for _, rl := range e.Rules {
				if !seen[rl] {
					seen[rl] = true
					rs = append(rs, rl)
				}
			}
			e.Rules = rs
			a, b = c15Names[rng.Intn(nv)], c15Names[rng.Intn(nv)]
			if a == b || len(e.Rules) == 0 {
				continue
			}
			var cnt int
			cnt, d = c15ShortestCount(e.Rules, a, b)
			if cnt == 1 && d >= 1 && d <= 3 {
				break
			}
			if try > 60 {
				e.Rules = []c15Rule{{a, b}}
				d = 1
				break
			}
		}
		// a scripted outcome per step: mostly every step succeeds
		mkScript := func(steps, nobj int) []string {
			var sc []string
			for i := 0; i < steps; i++ {
				it := fmt.Sprintf("k%d", nobj)
				if rng.Chance(10) {
					it = PickOne(rng, []string{"x", "e", fmt.Sprintf("m%d:own-%d", nobj, rng.Intn(90)), fmt.Sprintf("k%d", nobj+1),
						fmt.Sprintf("d%d", nobj), fmt.Sprintf("w%d", nobj)})
				}
				sc = append(sc, it)
			}
			if rng.Chance(20) {
				sc = c15SideChannels(rng, sc)
			}
			return sc
		}
		e.From, e.Desired = c15Group+"/"+a, c15Group+"/"+b
		e.NObjs = rng.Range(1, 3)
		e.Script = mkScript(d, e.NObjs)
		vs := c15Versions(e.Rules)
		nreq := 2
		if rng.Chance(40) {
			nreq = 3
		}
		steps := []int{d + 1}
		same := 0
		for k := 1; k < nreq; k++ {
			q := c15Req{From: e.From, Desired: e.Desired, NObjs: rng.Range(1, 3)}
			st := d
			switch {
			case rng.Chance(55):
				same++ // the same pair of versions: the same rules, the same links
			case rng.Chance(50) && d > 1:
				// the tail of the chain: shares its last rules
				q.From = c15Group + "/" + c15Trim(c15PathVia(e.Rules, a, b)[rng.Range(1, d-1)])
				st = 6
			default:
				fa, fb := PickOne(rng, vs), PickOne(rng, vs)
				if fa == fb {
					same++
					break
				}
				q.From, q.Desired = c15Group+"/"+fa, c15Group+"/"+fb
				st = 6
			}
			if rng.Chance(8) {
				q.NObjs = 0
			}
			q.Script = mkScript(st, q.NObjs)
			e.More = append(e.More, q)
			if st > 4 {
				st = 4
			}
			steps = append(steps, st+1)
		}
		// the interleaving: a random merge of the stages of the requests (a few moves may be left for
		// the end, some requests then finish one after the other)
		for qi, st := range steps {
			for k := 0; k < st; k++ {
				e.Sched = append(e.Sched, qi)
			}
		}
		rng.Shuffle(len(e.Sched), func(i, j int) { e.Sched[i], e.Sched[j] = e.Sched[j], e.Sched[i] })
		if rng.Chance(50) {
			// the first request is handled first (cold cache: compared with the model as well)
			for i, qi := range e.Sched {
				if qi == 0 {
					e.Sched[0], e.Sched[i] = e.Sched[i], e.Sched[0]
					break
				}
			}
		}
		e.NHooks = rng.Range(1, 3)
		for range e.Rules {
			e.Owner = append(e.Owner, rng.Intn(e.NHooks))
		}
		if rng.Chance(50) {
			nb := make([]int, e.NHooks)
			for h := range nb {
				nb[h] = rng.Range(1, 3)
			}
			for i := range e.Rules {
				e.Bind = append(e.Bind, rng.Intn(nb[e.Owner[i]]))
			}
		}
		if rng.Chance(25) {
			c15GroupSome(rng, &e)
		}
		for h := 0; h < e.NHooks; h++ {
			e.Rate = append(e.Rate, rng.Chance(30))
		}
		if same > 0 {
			c.Note("overlap:requests-for-the-same-pair-of-versions")
		}
		if same < nreq-1 {
			c.Note("overlap:requests-for-different-pairs-of-versions")
		}
		c.Note("case:overlap")
		c.Desc = fmt.Sprintf("overlap: %d requests in flight (%s>%s ×%d …), order %s", nreq, a, b, same+1, joinInts(e.Sched))
		c15RunE2E(r, c, e)
	})
}

// c15PathVia returns the versions a shortest rule sequence from a to b passes (a … b), short spelling.
func c15PathVia(rules []c15Rule, a, b string) []string {
	prev := map[string]string{c15Trim(a): ""}
	queue := []string{c15Trim(a)}
	for len(queue) > 0 {
		u := queue[0]
		queue = queue[1:]
		if u == c15Trim(b) {
			break
		}
		for _, rl := range rules {
			if c15Trim(rl.From) == u {
				if _, ok := prev[c15Trim(rl.To)]; !ok {
					prev[c15Trim(rl.To)] = u
					queue = append(queue, c15Trim(rl.To))
				}
			}
		}
	}
	var path []string
	for v := c15Trim(b); ; v = prev[v] {
		path = append([]string{v}, path...)
		if v == c15Trim(a) {
			break
		}
		if _, ok := prev[v]; !ok {
			return []string{c15Trim(a), c15Trim(b)}
		}
	}
	return path
}
