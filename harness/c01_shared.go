package main

import (
	"context"
	"fmt"
	"sort"
	"strconv"
	"strings"
	"sync"
	"time"

	"github.com/deckhouse/deckhouse/pkg/log"
	corev1 "k8s.io/api/core/v1"
	metav1 "k8s.io/apimachinery/pkg/apis/meta/v1"
	"k8s.io/apimachinery/pkg/watch"
	fakedynamic "k8s.io/client-go/dynamic/fake"
	fakeclientset "k8s.io/client-go/kubernetes/fake"
	k8stesting "k8s.io/client-go/testing"

	"github.com/flant/kube-client/fake"
	kem "github.com/flant/shell-operator/pkg/kube_events_manager"
	kemtypes "github.com/flant/shell-operator/pkg/kube_events_manager/types"
)

// Several bindings over one cluster, KubeEventsManager level ("all binding configurations"): resource
// informers of different monitors with the same kind / namespace / selectors are served by ONE
// process-wide shared informer (FactoryStore). The property speaks about every binding on its own:
// once a binding has been given its Synchronization view and is unlocked, every later change reaches
// it — whatever its siblings do meanwhile: start later (join a running shared informer), stop
// (StopMonitor), lose a namespace (namespace.labelSelector binding whose namespace is deleted and
// comes back), whichever of them started the shared informer.
//
// One real KubeEventsManager on the fake cluster; 2-4 monitors over ConfigMaps of one or two
// namespaces (static name selectors, mostly overlapping, and namespace.labelSelector monitors); a
// generated script of start (add + start + Synchronization view + optional changes + unlock) / stop /
// change / namespace delete / namespace re-create steps; one goroutine consumes the event channel the
// way ManagerEventsHandler does. At the end a sentinel object is created in every namespace; per
// surviving monitor: view + delivered Events = final matching state (oracle `replay`).
//
// "Never delivered" is decided without a clock: a monitor whose resource informer is registered with
// a factory whose shared informer has STOPPED (its Run returned) will never get another callback.
// A sentinel that is merely late ends as inconclusive.

type c01ShMon struct {
	num     int
	id      string
	nss     []int // static namespaces (1, 2); empty for a namespace.labelSelector monitor
	varying bool
	live    bool
	view    map[int]int
	mon     kem.Monitor // kept after StopMonitor (the manager forgets it)
	mu      sync.Mutex
	events  []c01Ev
}

type c01ShEnv struct {
	c      *Case
	key    string
	fc     *fake.Cluster
	mgr    kem.KubeEventsManager
	mons   map[string]*c01ShMon
	order  []*c01ShMon
	truth  map[int]int
	nsLive map[int]bool
	nsGone map[int]bool // deleted at least once during the case

	wmu       sync.Mutex
	watches   map[string]int             // established watches per namespace name ("namespaces" for the namespace watch)
	stores    map[string]map[string]bool // shared informers ever seen per namespace name
	nsInfs    int                        // namespace informers started
	sharedMax int
}

func (e *c01ShEnv) nsName(n int) string { return fmt.Sprintf("%s-n%d", e.key, n) }
func (e *c01ShEnv) nsNum(name string) int {
	n, _ := strconv.Atoi(name[strings.LastIndex(name, "-n")+2:])
	return n
}

func (e *c01ShEnv) createNs(n int) {
	nsObj := &corev1.Namespace{}
	nsObj.SetName(e.nsName(n))
	nsObj.SetLabels(map[string]string{"c01sh": "yes"})
	_, _ = e.fc.Client.CoreV1().Namespaces().Create(context.TODO(), nsObj, metav1.CreateOptions{})
	e.nsLive[n] = true
}

func (e *c01ShEnv) apply(es []c01Ev) bool {
	for _, ev := range es {
		if err := c01OpObj(e.fc, e.nsName(ev.id/10), ev); err != nil {
			e.c.Inconcl = "cluster operation failed: " + err.Error()
			return false
		}
		if ev.kind == "d" {
			delete(e.truth, ev.id)
		} else {
			e.truth[ev.id] = ev.cs
		}
	}
	return true
}

// watched: the namespaces whose objects the monitor must account for. A namespace.labelSelector
// monitor is not asked about a namespace that was deleted during the case (its informers there are
// stopped together with the namespace; what they still deliver of the final deletions is a race).
func (e *c01ShEnv) watched(m *c01ShMon) map[int]bool {
	res := map[int]bool{}
	if m.varying {
		for n := range e.nsLive {
			if !e.nsGone[n] {
				res[n] = true
			}
		}
		return res
	}
	for _, n := range m.nss {
		res[n] = true
	}
	return res
}

func c01ShRestrict(m map[int]int, nss map[int]bool) map[int]int {
	res := map[int]int{}
	for id, v := range m {
		if nss[id/10] {
			res[id] = v
		}
	}
	return res
}

// settleWatches waits until every resource informer of every live monitor is registered with a shared
// informer whose watch is established on the fake cluster: the fake has no resource versions, a
// change made between a shared informer's list and its watch would be lost by the fake, not by the
// operator. Every shared informer opens exactly one watch right after its list.
func (e *c01ShEnv) settleWatches() bool {
	deadline := time.Now().Add(15 * time.Second)
	for {
		ok := true
		users := map[string]int{}
		for _, m := range e.order {
			if !m.live {
				continue
			}
			mon := e.mgr.GetMonitor(m.id)
			if mon == nil {
				ok = false
				continue
			}
			seen := map[int]bool{}
			for _, inf := range kem.VerifC02Describe(mon) {
				seen[e.nsNum(inf.Namespace)] = true
				if !inf.Registered || inf.StoreID == "" {
					ok = false
					continue
				}
				users[inf.StoreID]++
				e.wmu.Lock()
				if e.stores[inf.Namespace] == nil {
					e.stores[inf.Namespace] = map[string]bool{}
				}
				e.stores[inf.Namespace][inf.StoreID] = true
				if e.watches[inf.Namespace] < len(e.stores[inf.Namespace]) {
					ok = false
				}
				e.wmu.Unlock()
			}
			if m.varying {
				for n := range e.nsLive {
					if !seen[n] {
						ok = false // the namespace callback has not created the informers yet
					}
				}
			}
		}
		e.wmu.Lock()
		if e.watches["namespaces"] < e.nsInfs {
			ok = false
		}
		e.wmu.Unlock()
		if ok {
			for _, n := range users {
				if n > e.sharedMax {
					e.sharedMax = n
				}
			}
			return true
		}
		if time.Now().After(deadline) {
			e.c.Inconcl = "list/watch machinery of the fake cluster did not catch up within the deadline"
			return false
		}
		time.Sleep(2 * time.Millisecond)
	}
}

func (e *c01ShEnv) config(m *c01ShMon) *kem.MonitorConfig {
	mc := &kem.MonitorConfig{ApiVersion: "v1", Kind: "ConfigMap", KeepFullObjectsInMemory: true,
		EventTypes: []kemtypes.WatchEventType{kemtypes.WatchEventAdded, kemtypes.WatchEventModified, kemtypes.WatchEventDeleted},
		Logger:     log.NewNop(),
	}
	if m.varying {
		mc.NamespaceSelector = &kemtypes.NamespaceSelector{
			LabelSelector: &metav1.LabelSelector{MatchLabels: map[string]string{"c01sh": "yes"}},
		}
	} else {
		var names []string
		for _, n := range m.nss {
			names = append(names, e.nsName(n))
		}
		mc.NamespaceSelector = &kemtypes.NamespaceSelector{NameSelector: &kemtypes.NameSelector{MatchNames: names}}
	}
	mc.Metadata.DebugName = m.id
	mc.Metadata.MonitorId = m.id
	mc.Metadata.MetricLabels = map[string]string{}
	mc.Metadata.LogLabels = map[string]string{}
	return mc
}

func c01ShView(objs []kemtypes.ObjectAndFilterResult) map[int]int {
	v := map[int]int{}
	for _, o := range objs {
		if o.Object != nil {
			id, _ := strconv.Atoi(strings.TrimPrefix(o.Object.GetName(), "o"))
			data, _, _ := unstructuredNestedString(o.Object.Object, "data", "v")
			cs, _ := strconv.Atoi(data)
			v[id] = cs
		}
	}
	return v
}

// start: AddMonitor + StartMonitor, the Synchronization view (the one Snapshot() of the locked
// monitor), optionally changes that must be buffered and replayed, the unlock.
func (e *c01ShEnv) start(m *c01ShMon, between []c01Ev) bool {
	if err := e.mgr.AddMonitor(e.config(m)); err != nil {
		e.c.Inconcl = "AddMonitor failed: " + err.Error()
		return false
	}
	if m.varying {
		e.wmu.Lock()
		e.nsInfs++
		e.wmu.Unlock()
	}
	e.mgr.StartMonitor(m.id)
	m.live = true
	if !e.settleWatches() {
		return false
	}
	mon := e.mgr.GetMonitor(m.id)
	m.mon = mon
	m.view = c01ShView(mon.Snapshot())
	if !e.apply(between) {
		return false
	}
	mon.EnableKubeEventCb()
	return true
}

func (e *c01ShEnv) stop(m *c01ShMon) bool {
	mon := e.mgr.GetMonitor(m.id)
	_ = e.mgr.StopMonitor(m.id)
	m.live = false
	// bounded, nothing is asserted: what follows is the history "after the sibling has left"
	for dl := time.Now().Add(5 * time.Second); time.Now().Before(dl); time.Sleep(time.Millisecond) {
		left := false
		for _, inf := range kem.VerifC02Describe(mon) {
			left = left || inf.Registered
		}
		if !left {
			return true
		}
	}
	e.c.Inconcl = "a stopped monitor did not leave its shared informers within the deadline"
	return false
}

// inNs1: the monitor has a resource informer on the factory index of namespace 1 (never deleted)
func (m *c01ShMon) inNs1() bool {
	if m.varying {
		return true
	}
	for _, n := range m.nss {
		if n == 1 {
			return true
		}
	}
	return false
}

// shObs: what the real FactoryStore shows for the index of namespace 1 — the monitors whose informer
// is registered there and whether the shared informer behind them is running (correspondence with
// Model/EventFlow.Shared, op lines `sh start i` / `sh stop i`).
func (e *c01ShEnv) shObs() string {
	var regs []int
	running := 0
	for _, m := range e.order {
		if m.mon == nil {
			continue
		}
		for _, inf := range kem.VerifC02Describe(m.mon) {
			if inf.Namespace != e.nsName(1) {
				continue
			}
			if inf.Registered {
				regs = append(regs, m.num)
			}
			if stopped, ok := kem.VerifC01SharedStopped(inf.Index); ok && !stopped {
				running = 1
			}
		}
	}
	sort.Ints(regs)
	return fmt.Sprintf("regs=%s running=%d", joinInts(regs), running)
}

func c01ShGenOps(rng *Rng, live map[int]int, next *int, nss []int, n int) []c01Ev {
	var w []c01Ev
	for i := 0; i < n && len(nss) > 0; i++ {
		id := nss[rng.Intn(len(nss))]*10 + rng.Range(1, 3)
		cs, ok := live[id]
		switch {
		case !ok:
			*next++
			live[id] = *next
			w = append(w, c01Ev{id, "a", *next})
		case rng.Chance(25):
			delete(live, id)
			w = append(w, c01Ev{id, "d", cs})
		default:
			*next++
			live[id] = *next
			w = append(w, c01Ev{id, "m", *next})
		}
	}
	return w
}

type c01ShStep struct {
	op      string // start stop chg nsdel nsadd
	mon     int
	evs     []c01Ev
	between []c01Ev
}

func (s c01ShStep) String() string {
	switch s.op {
	case "start":
		return fmt.Sprintf("start m%d (between view and unlock: %s)", s.mon, c01Evs(s.between))
	case "stop":
		return fmt.Sprintf("stop m%d", s.mon)
	case "chg":
		return "change " + c01Evs(s.evs)
	}
	return s.op + " n2"
}

func c01SharedRun(c *Case, specs []*c01ShMon, steps []c01ShStep) {
	kem.DefaultSyncTime = time.Millisecond
	e := &c01ShEnv{c: c, key: fmt.Sprintf("c01sh-%d", c.Idx), mons: map[string]*c01ShMon{}, truth: map[int]int{},
		nsLive: map[int]bool{}, nsGone: map[int]bool{}, watches: map[string]int{}, stores: map[string]map[string]bool{}}
	e.fc = fake.NewFakeCluster(fake.ClusterVersionV121)
	dyn, ok1 := e.fc.Client.Dynamic().(*fakedynamic.FakeDynamicClient)
	cs, ok2 := e.fc.Client.Interface.(*fakeclientset.Clientset)
	if !ok1 || !ok2 {
		c.Inconcl = "fake cluster has unexpected client types"
		return
	}
	dyn.PrependWatchReactor("*", func(action k8stesting.Action) (bool, watch.Interface, error) {
		wa, ok := action.(k8stesting.WatchAction)
		if !ok {
			return false, nil, nil
		}
		w, err := dyn.Tracker().Watch(wa.GetResource(), wa.GetNamespace())
		if err != nil {
			return true, nil, err
		}
		e.wmu.Lock()
		e.watches[wa.GetNamespace()]++
		e.wmu.Unlock()
		return true, w, nil
	})
	cs.PrependWatchReactor("namespaces", func(action k8stesting.Action) (bool, watch.Interface, error) {
		wa, ok := action.(k8stesting.WatchAction)
		if !ok {
			return false, nil, nil
		}
		w, err := cs.Tracker().Watch(wa.GetResource(), wa.GetNamespace())
		if err != nil {
			return true, nil, err
		}
		e.wmu.Lock()
		e.watches["namespaces"]++
		e.wmu.Unlock()
		return true, w, nil
	})
	e.createNs(1)
	e.createNs(2)
	ctx, cancel := context.WithCancel(context.Background())
	mgr := kem.NewKubeEventsManager(ctx, e.fc.Client, log.NewNop())
	mgr.WithMetricStorage(c01Metrics)
	e.mgr = mgr
	for _, m := range specs {
		m.id = fmt.Sprintf("%s-m%d", e.key, m.num)
		e.mons[m.id] = m
		e.order = append(e.order, m)
	}
	// the single consumer of the event channel
	consumerDone := make(chan struct{})
	go func() {
		defer close(consumerDone)
		for {
			select {
			case ev := <-mgr.Ch():
				m := e.mons[ev.MonitorId]
				if m == nil || len(ev.WatchEvents) == 0 {
					continue
				}
				k := map[kemtypes.WatchEventType]string{kemtypes.WatchEventAdded: "a", kemtypes.WatchEventModified: "m", kemtypes.WatchEventDeleted: "d"}[ev.WatchEvents[0]]
				for id, v := range c01ShView(ev.Objects) {
					m.mu.Lock()
					m.events = append(m.events, c01Ev{id, k, v})
					m.mu.Unlock()
				}
			case <-ctx.Done():
				return
			}
		}
	}()
	defer func() {
		mgr.PauseHandleEvents()
		for _, m := range e.order {
			if m.live {
				_ = mgr.StopMonitor(m.id)
			}
		}
		cancel()
		<-consumerDone
	}()
	stopsShared, changesAfterStop := 0, 0
	for _, st := range steps {
		switch st.op {
		case "start":
			if !e.start(specs[st.mon], st.between) {
				return
			}
			if specs[st.mon].inNs1() {
				c.Op(fmt.Sprintf("sh start %d", st.mon), e.shObs())
			}
		case "stop":
			if e.sharedMax >= 2 {
				stopsShared++
			}
			if !e.stop(specs[st.mon]) {
				return
			}
			if specs[st.mon].inNs1() {
				c.Op(fmt.Sprintf("sh stop %d", st.mon), e.shObs())
			}
		case "chg":
			if !e.apply(st.evs) {
				return
			}
			if stopsShared > 0 {
				changesAfterStop++
			}
		case "nsdel":
			// the objects of the namespace go first, as on a real cluster, then the namespace itself
			var del []c01Ev
			for id, v := range e.truth {
				if id/10 == 2 {
					del = append(del, c01Ev{id, "d", v})
				}
			}
			if !e.apply(del) {
				return
			}
			_ = e.fc.Client.CoreV1().Namespaces().Delete(context.TODO(), e.nsName(2), metav1.DeleteOptions{})
			delete(e.nsLive, 2)
			e.nsGone[2] = true
			// bounded, nothing is asserted: the namespace.labelSelector monitors have dropped its informers
			for dl := time.Now().Add(5 * time.Second); time.Now().Before(dl); time.Sleep(time.Millisecond) {
				still := false
				for _, m := range e.order {
					if m.live && m.varying {
						for _, inf := range kem.VerifC02Describe(mgr.GetMonitor(m.id)) {
							if inf.Varying && inf.Namespace == e.nsName(2) {
								still = true
							}
						}
					}
				}
				if !still {
					break
				}
			}
			if stopsShared == 0 && e.sharedMax >= 2 {
				stopsShared++
			}
		case "nsadd":
			e.createNs(2)
			if !e.settleWatches() {
				return
			}
		}
	}
	// sentinels: one object per live namespace, created last
	var sentinels []c01Ev
	for n := range e.nsLive {
		sentinels = append(sentinels, c01Ev{n*10 + 9, "a", 999})
	}
	if !e.apply(sentinels) {
		return
	}
	deaf := map[string]bool{}
	deadline := time.Now().Add(25 * time.Second)
	for {
		all := true
		for _, m := range e.order {
			if !m.live || deaf[m.id] {
				continue
			}
			got := map[int]bool{}
			m.mu.Lock()
			for _, ev := range m.events {
				if ev.id%10 == 9 {
					got[ev.id/10] = true
				}
			}
			m.mu.Unlock()
			for n := range e.watched(m) {
				if got[n] || !e.nsLive[n] {
					continue
				}
				// not there yet — or never: the informer's handler sits on a shared informer that has stopped
				dead := false
				for _, inf := range kem.VerifC02Describe(mgr.GetMonitor(m.id)) {
					if inf.Namespace == e.nsName(n) && inf.Registered {
						if stopped, ok := kem.VerifC01SharedStopped(inf.Index); ok && stopped {
							dead = true
						}
					}
				}
				if dead {
					deaf[m.id] = true
					c.Note("shared:registered-with-a-stopped-shared-informer")
				} else {
					all = false
				}
			}
		}
		if all {
			break
		}
		if time.Now().After(deadline) {
			c.Inconcl = "a sentinel object was not delivered within the deadline although the shared informer is running"
			return
		}
		time.Sleep(3 * time.Millisecond)
	}
	// everything that was delivered before the sentinel is there (FIFO per informer, one consumer); for a
	// monitor with two namespaces the sentinels of both have arrived
	time.Sleep(10 * time.Millisecond)
	c.Op("cfg types=a,m,d", "ok")
	for _, m := range e.order {
		if !m.live {
			continue
		}
		w := e.watched(m)
		m.mu.Lock()
		var del []c01Ev
		for _, ev := range m.events {
			if w[ev.id/10] {
				del = append(del, ev)
			}
		}
		m.mu.Unlock()
		c.Oracle(fmt.Sprintf("replay binding=m%d view=%s delivered=%s final=%s", m.num,
			c01StateStr(c01ShRestrict(m.view, w)), c01Evs(del), c01StateStr(c01ShRestrict(e.truth, w))))
	}
	if e.sharedMax >= 2 {
		c.Note("shared:informer-shared-by-several-monitors")
	}
	if stopsShared > 0 {
		c.Note("shared:sibling-left-a-shared-informer")
	}
	if changesAfterStop > 0 {
		c.Note("shared:changes-after-a-sibling-left")
	}
}

// runC01Shared: fixed cases first (the sibling that started the shared informer stops; the one that
// joined stops; a namespace.labelSelector sibling loses the namespace), then generated scripts.
func runC01Shared(r *Run) {
	const fixed = 4
	n := r.N(fixed+20, fixed+200)
	r.Cases(870000, n, 8, func(c *Case, rng *Rng) {
		i := c.Idx - 870000
		live := map[int]int{}
		next := 10
		var specs []*c01ShMon
		var steps []c01ShStep
		chg := func(nss []int, k int) c01ShStep {
			return c01ShStep{op: "chg", evs: c01ShGenOps(rng, live, &next, nss, k)}
		}
		nsdel := func() c01ShStep {
			for id := range live {
				if id/10 == 2 {
					delete(live, id)
				}
			}
			return c01ShStep{op: "nsdel"}
		}
		switch i {
		case 0, 1:
			// two equal bindings; the first (0) / the second (1) to start is stopped, then changes
			specs = []*c01ShMon{{num: 0, nss: []int{1}}, {num: 1, nss: []int{1}}}
			steps = []c01ShStep{chg([]int{1}, 1), {op: "start", mon: 0}, {op: "start", mon: 1}, chg([]int{1}, 1),
				{op: "stop", mon: i}, chg([]int{1}, 2)}
		case 2, 3:
			// a namespace.labelSelector binding and a static one share the informer of namespace 2; the
			// namespace is deleted (the labelSelector binding drops its informers), comes back, changes
			specs = []*c01ShMon{{num: 0, varying: true}, {num: 1, nss: []int{1, 2}}}
			a, b := 0, 1
			if i == 3 {
				a, b = 1, 0
			}
			steps = []c01ShStep{chg([]int{1, 2}, 2), {op: "start", mon: a}, {op: "start", mon: b}, chg([]int{2}, 1),
				nsdel(), {op: "nsadd"}, chg([]int{1, 2}, 3)}
		default:
			nm := rng.Range(2, 4)
			for k := 0; k < nm; k++ {
				m := &c01ShMon{num: k}
				switch x := rng.Intn(10); {
				case x < 5:
					m.nss = []int{1}
				case x < 7:
					m.nss = []int{1, 2}
				case x < 8:
					m.nss = []int{2}
				default:
					m.varying = true
				}
				specs = append(specs, m)
			}
			state := make([]int, nm) // 0 not started, 1 live, 2 stopped
			ns2 := true
			liveNss := func() []int {
				if ns2 {
					return []int{1, 2}
				}
				return []int{1}
			}
			steps = append(steps, chg(liveNss(), rng.Range(0, 2)))
			nLive := 0
			for k := rng.Range(6, 12); k > 0; k-- {
				var notStarted, started []int
				for j, s := range state {
					if s == 0 {
						notStarted = append(notStarted, j)
					}
					if s == 1 {
						started = append(started, j)
					}
				}
				p := rng.Intn(100)
				switch {
				case len(notStarted) > 0 && (nLive == 0 || p < 30):
					j := notStarted[rng.Intn(len(notStarted))]
					var between []c01Ev
					if rng.Chance(40) {
						nss := specs[j].nss
						if specs[j].varying {
							nss = liveNss()
						}
						var ok []int
						for _, x := range nss {
							if x == 1 || ns2 {
								ok = append(ok, x)
							}
						}
						between = c01ShGenOps(rng, live, &next, ok, rng.Range(1, 2))
					}
					steps = append(steps, c01ShStep{op: "start", mon: j, between: between})
					state[j] = 1
					nLive++
				case nLive >= 2 && p < 50:
					j := started[rng.Intn(len(started))]
					steps = append(steps, c01ShStep{op: "stop", mon: j})
					state[j] = 2
					nLive--
				case p < 60 && nLive > 0:
					if ns2 {
						steps = append(steps, nsdel())
					} else {
						steps = append(steps, c01ShStep{op: "nsadd"})
					}
					ns2 = !ns2
				default:
					steps = append(steps, chg(liveNss(), rng.Range(1, 3)))
				}
			}
			steps = append(steps, chg(liveNss(), rng.Range(1, 2)))
		}
		var ds, ss []string
		for _, m := range specs {
			if m.varying {
				ds = append(ds, fmt.Sprintf("m%d(namespace.labelSelector)", m.num))
			} else {
				ds = append(ds, fmt.Sprintf("m%d(namespaces=%v)", m.num, m.nss))
			}
		}
		for _, s := range steps {
			ss = append(ss, s.String())
		}
		c.Desc = "KubeEventsManager, monitors over ConfigMaps sharing informers: " + strings.Join(ds, " ") + "; steps: " + strings.Join(ss, "; ") + "; then a sentinel object per namespace"
		c01SharedRun(c, specs, steps)
		c.Nontrivial = true
		c.Note("shared-informers")
	})
}

// c01CountWatches makes the dynamic client of the fake cluster count the watches it has ESTABLISHED per
// namespace (the reactor registers the watch with the tracker itself, then counts).
func c01CountWatches(fc *fake.Cluster) func(ns string) int {
	var mu sync.Mutex
	n := map[string]int{}
	dyn, ok := fc.Client.Dynamic().(*fakedynamic.FakeDynamicClient)
	if !ok {
		return func(string) int { return 1 << 30 }
	}
	dyn.PrependWatchReactor("*", func(action k8stesting.Action) (bool, watch.Interface, error) {
		wa, ok := action.(k8stesting.WatchAction)
		if !ok {
			return false, nil, nil
		}
		w, err := dyn.Tracker().Watch(wa.GetResource(), wa.GetNamespace())
		if err != nil {
			return true, nil, err
		}
		mu.Lock()
		n[wa.GetNamespace()]++
		mu.Unlock()
		return true, w, nil
	})
	return func(ns string) int {
		mu.Lock()
		defer mu.Unlock()
		return n[ns]
	}
}
