package main

// Whole-operator case of C17: the real ShellOperator.Shutdown() (ScheduleManager.Stop, PauseHandleEvents,
// TaskQueueSet.Stop, WaitStopWithTimeout) on an operator assembled from the real pieces, with bash hooks
// in several queues, ticks still arriving, one hook in the middle of its run.

import (
	"context"
	"fmt"
	"os"
	"path/filepath"
	"strings"
	"time"

	shell_operator "github.com/flant/shell-operator/pkg/shell-operator"
	"github.com/flant/shell-operator/pkg/task/queue"
)

func c17Operator(r *Run, c *Case, rng *Rng) {
	if tooManyHangs(c) {
		return
	}
	dir := filepath.Join(r.Scratch, fmt.Sprintf("c17op-%d", c.Idx))
	if abs, err := filepath.Abs(dir); err == nil {
		dir = abs
	}
	_ = os.MkdirAll(filepath.Join(dir, "hooks"), 0o755)
	_ = os.MkdirAll(filepath.Join(dir, "tmp"), 0o755)
	defer os.RemoveAll(dir)
	logFile := filepath.Join(dir, "run.log")
	nq := rng.Range(1, 3)
	nh := rng.Range(2, 4)
	var hooks []*opHook
	for i := 1; i <= nh; i++ {
		h := &opHook{idx: i, name: fmt.Sprintf("h%d", i), queueNo: rng.Range(0, nq), crontab: fmt.Sprintf("%d %d 1 1 *", i, i)}
		if i == 1 {
			h.queueNo = 1
		}
		hooks = append(hooks, h)
		if err := writeHook(dir, h, logFile, i > 1 && rng.Chance(25)); err != nil {
			c.Inconcl = "cannot write hook: " + err.Error()
			return
		}
	}
	ctx, cancel := context.WithCancel(context.Background())
	defer cancel()
	hd, td := filepath.Join(dir, "hooks"), filepath.Join(dir, "tmp")
	op, err := shell_operator.VerifC03Assemble(ctx, hd, td)
	for try := 0; err != nil && strings.Contains(err.Error(), "text file busy") && try < 10; try++ {
		time.Sleep(30 * time.Millisecond)
		op, err = shell_operator.VerifC03Assemble(ctx, hd, td)
	}
	if err != nil && strings.Contains(err.Error(), "text file busy") {
		c.Inconcl = "hook script busy (fork/exec race between parallel cases)"
		return
	}
	if err != nil {
		c.Oracle("opflag what=assembled:" + strings.ReplaceAll(firstLine(err.Error()), " ", "_") + " ok=false")
		return
	}
	op.VerifC03Run(func(q *queue.TaskQueue) {
		q.WaitLoopCheckInterval = time.Millisecond
		q.DelayOnQueueIsEmpty = time.Millisecond
		q.DelayOnRepeat = time.Millisecond
		q.ExponentialBackoffFn = func(int) time.Duration { return 2 * time.Millisecond }
	})
	waitFor := func(cond func() bool, d time.Duration) bool {
		deadline := time.Now().Add(d)
		for time.Now().Before(deadline) {
			if cond() {
				return true
			}
			time.Sleep(2 * time.Millisecond)
		}
		return cond()
	}
	if !waitFor(func() bool { return op.TaskQueues.GetMain().Length() == 0 }, 20*time.Second) {
		hangs.Add(1)
		c.Oracle("opflag what=startup-tasks-of-main-done ok=false")
		return
	}
	tick := func(h *opHook) bool {
		select {
		case op.ScheduleManager.Ch() <- h.crontab:
			return true
		case <-time.After(wStepTimeout):
			return false
		}
	}
	// h1 is in the middle of its run when the shutdown is requested (in 2 of 3 cases)
	midRun := rng.Chance(66)
	ok := true
	if midRun {
		_ = os.WriteFile(filepath.Join(dir, "block-h1"), nil, 0o644)
		ok = tick(hooks[0]) && waitFor(func() bool { return len(readLog(logFile)) >= 1 }, 20*time.Second)
	}
	for i := rng.Range(0, 6); i > 0 && ok; i-- {
		ok = tick(hooks[rng.Intn(len(hooks))])
		if rng.Chance(40) {
			time.Sleep(time.Duration(rng.Intn(15)) * time.Millisecond)
		}
	}
	if !ok {
		hangs.Add(1)
		c.Oracle("opflag what=ticks-accepted ok=false")
		return
	}
	t0 := time.Now()
	op.Shutdown() // returns when every queue shows "stop" or after WaitQueuesTimeout (shortened by the suite)
	took := time.Since(t0)
	// A queue that shows "stop" has no hook process any more (the handler runs the hook synchronously, the
	// worker sets the status after its last handler returned): a line its hooks write after the status was
	// seen is an execution after the worker's exit. For a queue that does not show "stop" yet, the marker of
	// the one task it had picked may come arbitrarily late on a loaded machine (no bound asserted).
	seen := map[int]bool{0: true}
	for _, h := range hooks {
		seen[h.queueNo] = true
	}
	var want []int
	for k := 0; k <= nq; k++ {
		if seen[k] {
			want = append(want, k)
		}
	}
	qname := func(k int) string {
		if k == 0 {
			return "main"
		}
		return fmt.Sprintf("q%d", k)
	}
	exitPos := map[int]int{} // queue -> number of log lines when it was first seen stopped
	observeStops := func() bool {
		all := true
		for _, k := range want {
			if _, ok := exitPos[k]; ok {
				continue
			}
			if q := op.TaskQueues.GetByName(qname(k)); q != nil && q.GetStatus() == "stop" {
				exitPos[k] = len(readLog(logFile))
			} else {
				all = false
			}
		}
		return all
	}
	observeStops()
	appendLine := func(l string) {
		f, err := os.OpenFile(logFile, os.O_APPEND|os.O_CREATE|os.O_WRONLY, 0o644)
		if err == nil {
			fmt.Fprintln(f, l)
			f.Close()
		}
	}
	appendLine("STOP - -")
	// events and ticks keep arriving after the shutdown
	for i := rng.Range(1, 4); i > 0; i-- {
		select {
		case op.ScheduleManager.Ch() <- hooks[rng.Intn(len(hooks))].crontab:
		case <-time.After(200 * time.Millisecond): // nobody has to listen any more
		}
	}
	_ = os.Remove(filepath.Join(dir, "block-h1")) // the current handler returns
	allStopped := waitFor(observeStops, 20*time.Second)
	if !allStopped {
		hangs.Add(1)
		time.Sleep(300 * time.Millisecond) // what a worker that is still alive starts meanwhile is evidence
	}
	time.Sleep(30 * time.Millisecond)
	// trace: executions, the stop mark, the exits where they were observed
	var ev []string
	var qs []int
	putExits := func(upTo int) {
		for _, k := range want {
			if p, ok := exitPos[k]; ok && p <= upTo {
				ev = append(ev, fmt.Sprintf("x%d", k+1))
				delete(exitPos, k)
			}
		}
	}
	n := 0
	lines := readLog(logFile)
	stopPut := false
	for i, l := range lines {
		putExits(i)
		f := strings.Fields(l)
		if len(f) != 3 {
			continue
		}
		if f[0] == "STOP" {
			ev = append(ev, "S")
			stopPut = true
			continue
		}
		for _, h := range hooks {
			if h.name == f[1] {
				n++
				if f[0] == "start" {
					ev = append(ev, fmt.Sprintf("s%d:%d:%d", h.queueNo+1, h.idx*1000+n, h.idx*1000+n))
				}
			}
		}
	}
	if !stopPut {
		ev = append(ev, "S")
	}
	putExits(len(lines) + 1)
	for _, k := range want {
		qs = append(qs, k+1)
	}
	c.Oracle(fmt.Sprintf("weakstop q=%s ev=%s", joinInts(qs), joinStrs(ev)))
	c.Oracle(fmt.Sprintf("terminated q=%s ev=%s", joinInts(qs), joinStrs(ev)))
	if midRun {
		// h1 was inside its handler for the whole call: the wait for the queues cannot have ended before its timeout
		c.Oracle(fmt.Sprintf("shutdownwaits busy=%d early=%v", hooks[0].queueNo, took < shell_operator.WaitQueuesTimeout))
	}
	c.Nontrivial = true
	if midRun {
		c.Note("kind:whole-operator-shutdown-mid-run")
	} else {
		c.Note("kind:whole-operator-shutdown")
	}
}
