package main

import (
	"context"
	"fmt"
	"sort"
	"strconv"
	"strings"
	"sync"
	"sync/atomic"
	"time"

	"github.com/deckhouse/deckhouse/pkg/log"

	"github.com/flant/shell-operator/pkg/hook/config"
	kemtypes "github.com/flant/shell-operator/pkg/kube_events_manager/types"
	schedulemanager "github.com/flant/shell-operator/pkg/schedule_manager"
	shell_operator "github.com/flant/shell-operator/pkg/shell-operator"
	"github.com/flant/shell-operator/pkg/task"
	"github.com/flant/shell-operator/pkg/task/queue"
)

func init() { suites["c03"] = runC03 }

// plainResult: Success / Fail / Repeat without extra tasks (the per-queue order oracle applies).
func plainResult(rng *Rng) wResult {
	k := rng.Intn(100)
	switch {
	case k < 70:
		return wResult{status: "success"}
	case k < 88:
		return wResult{status: "fail", backMs: rng.Intn(2)}
	default:
		return wResult{status: "repeat"}
	}
}

// c03Controlled: a random schedule over several named queues, every worker stepped point by point.
func c03Controlled(c *Case, rng *Rng, plain bool) {
	if tooManyHangs(c) {
		return
	}
	w := newWorld(c, fmt.Sprintf("c03-%d", c.Idx))
	defer w.close()
	next := 10
	nq := rng.Range(2, 4)
	for i := 1; i <= nq; i++ {
		w.opNew(i, true)
	}
	for i := 1; i <= nq; i++ {
		w.opStart(i)
		if rng.Chance(20) {
			w.opStart(i) // repeated Start()
		}
	}
	deliver := func() {
		var ts []delivery
		for j := rng.Range(1, 4); j > 0; j-- {
			next++
			qn := rng.Range(1, nq)
			if !plain && rng.Chance(4) {
				qn = 9
			}
			ts = append(ts, delivery{qn, next})
		}
		w.opDeliver(ts, rng.Bool(), "deliver")
	}
	steps := rng.Range(15, 45)
	for i := 0; i < steps && w.bad == ""; i++ {
		k := rng.Intn(100)
		switch {
		case k < 20:
			deliver()
		case k < 23:
			w.opStart(rng.Range(1, nq))
		default:
			n := w.order[rng.Intn(len(w.order))]
			q := w.qs[n]
			if plain && strings.HasPrefix(q.at, "run:") {
				w.opRet(n, plainResult(rng))
			} else if !stepWorker(w, n, rng, &next) {
				deliver()
			}
		}
	}
	if plain {
		// run the queues dry: every placed task is executed, in arrival order
		w.drain(func(int, string) wResult { return wResult{status: "success"} }, 400)
	}
	if w.bad != "" {
		c.Op("harness-timeout", "hang")
		return
	}
	w.oracleLog()
	if plain {
		c.Oracle(fmt.Sprintf("order q=%s ev=%s", w.names(), w.traceStr()))
		c.Oracle(fmt.Sprintf("complete q=%s ev=%s", w.names(), w.traceStr()))
		c.Note("kind:controlled-plain")
	} else {
		c.Note("kind:controlled-rich")
	}
	c.Nontrivial = len(w.trace) >= 10
}

// c03Blocked: queue 1's handler is entered and kept open (a hook that hangs, or: fails and sleeps in
// its back-off) while the other queues receive and execute all their tasks; only then queue 1 goes on.
func c03Blocked(c *Case, rng *Rng) {
	if tooManyHangs(c) {
		return
	}
	w := newWorld(c, fmt.Sprintf("c03b-%d", c.Idx))
	defer w.close()
	nq := rng.Range(2, 4)
	for i := 1; i <= nq; i++ {
		w.opNew(i, true)
		w.opStart(i)
	}
	next := 10
	w.opDeliver([]delivery{{1, 1}, {1, 2}}, rng.Bool(), "deliver")
	mode := rng.Intn(3)
	switch mode {
	case 0: // inside the handler
		w.opGo(1)
		w.opGo(1)
		c.Note("blocked:in-handler")
	case 1: // failed, sleeping in the back-off (a long one), parked before the select
		w.opGo(1)
		w.opGo(1)
		w.opRet(1, wResult{status: "fail", backMs: 60000})
		w.opGo(1)
		w.opGo(1)
		w.opGo(1)
		c.Note("blocked:back-off")
	default: // inside the handler, and the handler itself holds on while it compacts its queue
		w.opGo(1)
		w.opGo(1)
		w.opFilter(1, []int{2})
		c.Note("blocked:in-handler-after-filter")
	}
	done := map[int]int{}
	for round := 0; round < rng.Range(1, 3); round++ {
		var ts []delivery
		for j := rng.Range(2, 5); j > 0; j-- {
			next++
			qn := rng.Range(1, nq) // also more tasks for the blocked queue
			ts = append(ts, delivery{qn, next})
			if qn != 1 {
				done[qn]++
			}
		}
		w.opDeliver(ts, rng.Bool(), "deliver")
		// the other queues run dry while queue 1 stays where it is
		for i := 0; i < 200 && w.bad == ""; i++ {
			progressed := false
			for _, n := range w.order {
				if n == 1 {
					continue
				}
				q := w.qs[n]
				switch {
				case q.at == "loop" || q.at == "afterCheck" || q.at == "afterHandler":
					w.opGo(n)
					progressed = true
				case q.at == "beforeSelect" && q.q.Length() > 0:
					w.opSel(n, false)
					progressed = true
				case q.at == "tick":
					w.opTickGo(n)
					progressed = true
				case strings.HasPrefix(q.at, "run:"):
					w.opRet(n, wResult{status: "success"})
					progressed = true
				}
			}
			if !progressed {
				break
			}
		}
	}
	if w.bad != "" {
		c.Op("harness-timeout", "hang")
		return
	}
	if mode != 1 {
		// queue 1's execution is still open: the others completed theirs meanwhile
		for n, k := range done {
			if k > 0 {
				c.Oracle(fmt.Sprintf("progress a=1 b=%d n=%d ev=%s,f1:1", n, k, w.traceStr()))
			}
		}
	}
	var others []int
	for _, n := range w.order {
		if n != 1 {
			others = append(others, n)
		}
	}
	c.Oracle(fmt.Sprintf("complete q=%s ev=%s", joinInts(others), w.traceStr()))
	// release queue 1
	if mode != 1 {
		w.opRet(1, wResult{status: "success"})
	}
	w.oracleLog()
	c.Nontrivial = true
}

// ---------------------------------------------------------------- free-running workers

type recorder struct {
	mu sync.Mutex
	ev []string
}

func (r *recorder) add(e string) {
	r.mu.Lock()
	r.ev = append(r.ev, e)
	r.mu.Unlock()
}
func (r *recorder) str() string {
	r.mu.Lock()
	defer r.mu.Unlock()
	return joinStrs(r.ev)
}

type freeWorld struct {
	prefix string
	tqs    *queue.TaskQueueSet
	cancel context.CancelFunc
	kem    *fakeKem
	sm     schedulemanager.ScheduleManager
	meh    *shell_operator.ManagerEventsHandler
	rec    *recorder
	mu     sync.Mutex
	tasks  map[string][]task.Task
	recs   map[string][]string
	nq     int
	onRecv func(key string) // called when the consumer asks for the tasks of event `key`
}

// newFreeWorld: real queue set, real consumer, workers started and left to the Go scheduler.
// handler(n, id) scripts what the handler of queue n does for task id.
func newFreeWorld(prefix string, nq int, handler func(n int, id string) queue.TaskResult) *freeWorld {
	ctx, cancel := context.WithCancel(context.Background())
	f := &freeWorld{prefix: prefix, cancel: cancel, rec: &recorder{}, tasks: map[string][]task.Task{}, recs: map[string][]string{}, nq: nq}
	f.tqs = queue.NewTaskQueueSet()
	f.tqs.WithMainName(prefix + "-1")
	f.tqs.WithContext(ctx)
	f.kem = &fakeKem{ch: make(chan kemtypes.KubeEvent, 1)}
	f.sm = schedulemanager.NewScheduleManager(ctx, log.NewNop())
	f.meh = shell_operator.VerifNewManagerEventsHandler(ctx, f.tqs, f.kem, f.sm)
	// the consumer asks for the tasks of an event when it has received it: that is the receive order
	cb := func(key string) []task.Task {
		f.mu.Lock()
		ts := f.tasks[key]
		recs := f.recs[key]
		f.mu.Unlock()
		for _, r := range recs {
			f.rec.add(r)
		}
		if f.onRecv != nil {
			f.onRecv(key)
		}
		return ts
	}
	f.meh.WithKubeEventHandler(func(ev kemtypes.KubeEvent) []task.Task { return cb(ev.MonitorId) })
	f.meh.WithScheduleEventHandler(func(crontab string) []task.Task { return cb(crontab) })
	for i := 1; i <= nq; i++ {
		n := i
		name := fmt.Sprintf("%s-%d", prefix, n)
		var q *queue.TaskQueue
		f.tqs.NewNamedQueue(name, func(t task.Task) queue.TaskResult {
			id := taskID(t)
			f.rec.add(fmt.Sprintf("s%d:%s:%s", n, id, taskID(q.GetFirst())))
			res := handler(n, id)
			f.rec.add(fmt.Sprintf("f%d:%s", n, id))
			return res
		})
		q = f.tqs.GetByName(name)
		q.WaitLoopCheckInterval = time.Millisecond
		q.DelayOnQueueIsEmpty = time.Millisecond
		q.DelayOnRepeat = time.Millisecond
		q.ExponentialBackoffFn = func(int) time.Duration { return time.Millisecond }
	}
	return f
}

func (f *freeWorld) q(n int) *queue.TaskQueue {
	return f.tqs.GetByName(fmt.Sprintf("%s-%d", f.prefix, n))
}

func (f *freeWorld) names() string {
	var l []int
	for i := 1; i <= f.nq; i++ {
		l = append(l, i)
	}
	return joinInts(l)
}

// send delivers one event (its tasks) through the real consumer; the arrival is recorded when the
// consumer takes the event off its channel (the two channels are buffered: send order is not receive order).
func (f *freeWorld) send(seq int, ts []delivery, viaKube bool) bool {
	var tasks []task.Task
	for _, d := range ts {
		tasks = append(tasks, mkTask(d.t).(*task.BaseTask).WithQueueName(fmt.Sprintf("%s-%d", f.prefix, d.q)))
	}
	key := fmt.Sprintf("ev-%d", seq)
	var recs []string
	for _, d := range ts {
		recs = append(recs, fmt.Sprintf("r%d:%d", d.q, d.t))
	}
	f.mu.Lock()
	f.tasks[key] = tasks
	f.recs[key] = recs
	f.mu.Unlock()
	if viaKube {
		select {
		case f.kem.ch <- kemtypes.KubeEvent{MonitorId: key}:
			return true
		case <-time.After(wStepTimeout):
			return false
		}
	}
	select {
	case f.sm.Ch() <- key:
		return true
	case <-time.After(wStepTimeout):
		return false
	}
}

func spin(d time.Duration) {
	t0 := time.Now()
	for time.Since(t0) < d {
	}
}

// c03Free: several queues run freely (real goroutines, no yield points held); queue 1's first
// execution blocks on a channel until every task of the other queues has been executed — the other
// queues must get there while queue 1 is stalled; then queue 1 is released and everything drains.
func c03Free(c *Case, rng *Rng) {
	if tooManyHangs(c) {
		return
	}
	nq := rng.Range(2, 4)
	perQ := rng.Range(3, 8)
	var othersDone atomic.Int64
	othersTotal := int64((nq - 1) * perQ)
	release := make(chan struct{})
	var failOnce sync.Map
	failPct := rng.Intn(30)
	durs := make([]int, 64)
	for i := range durs {
		durs[i] = rng.Intn(300)
	}
	var hcount atomic.Int64
	var entered atomic.Bool
	f := newFreeWorld(fmt.Sprintf("c03f-%d", c.Idx), nq, func(n int, id string) queue.TaskResult {
		k := hcount.Add(1)
		if n == 1 && id == "1001" {
			entered.Store(true)
			<-release // the stalled hook
			return queue.TaskResult{Status: queue.Success}
		}
		spin(time.Duration(durs[int(k)%len(durs)]) * time.Microsecond)
		if v, _ := strconv.Atoi(id); v%100 < failPct {
			if _, seen := failOnce.LoadOrStore(id, true); !seen {
				if v%2 == 0 {
					return queue.TaskResult{Status: queue.Fail}
				}
				return queue.TaskResult{Status: queue.Repeat}
			}
		}
		if n != 1 {
			othersDone.Add(1)
		}
		return queue.TaskResult{Status: queue.Success}
	})
	defer f.cancel()
	f.meh.Start()
	for i := 1; i <= nq; i++ {
		f.q(i).Start()
		if rng.Chance(30) {
			f.q(i).Start()
		}
	}
	// the feeder: events with tasks for several queues, in a fixed order
	var all []delivery
	for n := 1; n <= nq; n++ {
		for j := 1; j <= perQ; j++ {
			all = append(all, delivery{n, n*1000 + j})
		}
	}
	// keep the per-queue order (ids ascending) but interleave the queues at random
	idx := make([]int, nq+1)
	idx[1] = 1
	order := []delivery{{1, 1001}}
	for len(order) < len(all) {
		n := rng.Range(1, nq)
		if idx[n] < perQ {
			idx[n]++
			order = append(order, delivery{n, n*1000 + idx[n]})
		}
	}
	seq := 1
	if !f.send(seq, order[:1], rng.Bool()) {
		c.Op("harness-timeout", "hang")
		close(release)
		return
	}
	for t0 := time.Now(); !entered.Load() && time.Since(t0) < 20*time.Second; {
		time.Sleep(200 * time.Microsecond)
	}
	for i := 1; i < len(order); {
		k := rng.Range(1, 3)
		if i+k > len(order) {
			k = len(order) - i
		}
		seq++
		if !f.send(seq, order[i:i+k], rng.Bool()) {
			c.Op("harness-timeout", "hang")
			close(release)
			return
		}
		i += k
	}
	// the other queues must finish while queue 1 is stalled (generous bound: a deadlock, not slowness, trips it)
	deadline := time.Now().Add(20 * time.Second)
	for othersDone.Load() < othersTotal && time.Now().Before(deadline) {
		time.Sleep(time.Millisecond)
	}
	if othersDone.Load() < othersTotal {
		hangs.Add(1)
	} else {
		// the handler has counted its last completion; wait until its end marker is in the record too
		for t0 := time.Now(); time.Since(t0) < 20*time.Second; time.Sleep(200 * time.Microsecond) {
			open := 0
			for _, e := range strings.Split(f.rec.str(), ",") {
				if len(e) > 1 && e[1] != '1' {
					if e[0] == 's' {
						open++
					} else if e[0] == 'f' {
						open--
					}
				}
			}
			if open == 0 {
				break
			}
		}
	}
	blockedTrace := f.rec.str()
	for n := 2; n <= nq; n++ {
		c.Oracle(fmt.Sprintf("progress a=1 b=%d n=%d ev=%s,f1:1001", n, perQ, blockedTrace))
	}
	close(release)
	deadline = time.Now().Add(20 * time.Second)
	for time.Now().Before(deadline) {
		empty := true
		for n := 1; n <= nq; n++ {
			if f.q(n).Length() > 0 {
				empty = false
			}
		}
		if empty {
			break
		}
		time.Sleep(time.Millisecond)
	}
	time.Sleep(2 * time.Millisecond)
	tr := f.rec.str()
	c.Oracle(fmt.Sprintf("log q=%s ev=%s", f.names(), tr))
	c.Oracle(fmt.Sprintf("order q=%s ev=%s", f.names(), tr))
	c.Oracle(fmt.Sprintf("complete q=%s ev=%s", f.names(), tr))
	c.Nontrivial = true
	c.Note("kind:free-running")
}

// c03DefaultQueue: a binding without `queue` is given the queue "main" by the real config loader, a
// binding with `queue: x` keeps x (the name the consumer then routes by).
func c03DefaultQueue(c *Case) {
	yaml := `
configVersion: v1
schedule:
- name: s-default
  crontab: "* * * * *"
- name: s-named
  crontab: "* * * * *"
  queue: slow
kubernetes:
- name: k-default
  kind: Pod
- name: k-named
  kind: Pod
  queue: pods
`
	cfg := &config.HookConfig{}
	err := cfg.LoadAndValidate([]byte(yaml))
	if err != nil {
		c.Op("loadconfig", "err")
		c.Oracle("queuenames cfg=k-default:-,k-named:pods,s-default:-,s-named:slow got=err")
		return
	}
	var got []string
	for _, s := range cfg.Schedules {
		got = append(got, s.BindingName+"="+s.Queue)
	}
	for _, k := range cfg.OnKubernetesEvents {
		got = append(got, k.BindingName+"="+k.Queue)
	}
	sort.Strings(got)
	c.Op("loadconfig", "ok")
	c.Oracle("queuenames cfg=k-default:-,k-named:pods,s-default:-,s-named:slow got=" + strings.Join(got, ","))
	c.Nontrivial = true
}

// c03IterateLock: TaskQueueSet.Iterate (the live-metrics goroutine of operator.go calls it every 5 s, the
// debug endpoints on demand) holds the set's read lock while the consumer wants the write lock for an
// event (DoWithLock). Iterate is parked right after it took the read lock, the consumer's DoWithLock is
// started, Iterate goes on. Both must finish: otherwise no event is ever placed in a queue again and
// every handler that looks a queue up blocks — all queues stall.
func c03IterateLock(c *Case) {
	key := fmt.Sprintf("c03lock-%d", c.Idx)
	ctx, cancel := context.WithCancel(context.Background())
	defer cancel()
	tqs := queue.NewTaskQueueSet()
	tqs.WithMainName(key)
	tqs.WithContext(ctx)
	tqs.NewNamedQueue(key, func(task.Task) queue.TaskResult { return queue.TaskResult{Status: queue.Success} })
	arrive := sched.Subscribe(key)
	defer sched.Unsubscribe(key)
	iterDone := make(chan struct{})
	go func() {
		tqs.Iterate(func(*queue.TaskQueue) {})
		close(iterDone)
	}()
	responsive := true
	select {
	case a := <-arrive:
		lockDone := make(chan struct{})
		go func() {
			tqs.DoWithLock(func(*queue.TaskQueueSet) {}) // the consumer placing the tasks of an event
			close(lockDone)
		}()
		time.Sleep(50 * time.Millisecond) // the writer is waiting for the reader now
		a.Release()
		for _, ch := range []chan struct{}{iterDone, lockDone} {
			select {
			case <-ch:
			case <-time.After(5 * time.Second):
				responsive = false
			}
		}
	case <-time.After(5 * time.Second):
		responsive = false
	}
	if !responsive {
		hangs.Add(1)
	}
	c.Oracle(fmt.Sprintf("opflag what=queue-set-answers-while-Iterate-and-the-consumer-overlap ok=%v", responsive))
	c.Nontrivial = true
}

func runC03(r *Run) {
	r.Rule = "real TaskQueueSet, real started TaskQueue workers, the real ManagerEventsHandler as consumer. Three kinds of cases: (1) controlled: 2-4 named queues, random schedules (deliveries for several queues per event through the schedule or the kube channel, worker steps from yield point to yield point, handler results, repeated Start) compared op by op with the model; `plain` cases (Success/Fail/Repeat only) are run dry and checked for per-queue execution order = arrival order; (2) blocked: queue 1 is held inside its handler (or in a 60 s back-off) while the other queues receive and complete all their tasks; (3) free-running: the same with real goroutines and no scheduler control, handler durations 0-300us, failures and repeats, queue 1's first hook blocks on a channel until the other queues have completed everything. (4) whole operator: a real ShellOperator assembled from the real pieces over 2-5 generated bash hooks with schedule bindings in main and 1-3 named queues (queues created by initAndStartHookQueues), ticks sent into the schedule channel, hook processes write start/end markers with their number of binding contexts; hook h1 hangs while the other queues must finish; some hooks fail their first run. Oracles on the start/end/arrival trace of the real code: no two executions of one queue overlap, the handled task is the head, per-queue order = arrival order, the other queues complete n executions while queue 1's execution is open, placement by the consumer. (5) loader: generated v0/v1 configurations (schedule and kubernetes bindings, queue absent / named / main) through LoadAndValidate: every binding gets the queue it names, main when none. (6) controller: generated v0/v1 schedule configurations (1-5 bindings, crontabs from a pool of three) through the loader into a real HookController, EnableScheduleBindings, one HandleScheduleEvent per crontab, compared with Model/Routing (op schedfan) and judged by oracle fanout. (7) whole operator, multi-binding hooks: 2-4 bash hooks, v1 or v0, 1-3 schedule bindings each on crontabs from a pool of three, 0-1 kubernetes binding, every binding its own queue (absent, q1..q3); h1 is bound in q1 and in another queue (half of the time on one crontab) and its executions for q1 hang; taps at the consumer (tasks made per received event) and at every queue handler (queue identity, contexts handled); arrivals carry the configured queue, starts the queue that ran them; the other queues, including executions of h1 itself, must complete what arrived while q1 hangs. (8) head change on the retry path: one or two controlled queues, the first task of queue 1 fails / repeats / asks for a delay, and while the worker stands at loop / afterCheck / beforeSelect / after a few ticks of its back-off the head of the queue is changed through the queue API (AddFirst, Remove of the failed task, Filter; 30 % with CancelTaskDelay; sometimes a delivery too): the execution after the back-off must be of the head of then (oracle log), op by op against the model (driver ops `ext ...`). (9) lock windows: 2-3 free-running queues with the real consumer; queue 1's worker is parked at every yield point queue.lock.* (in front of its queue lock: empty test of the shortcut and of the periodic head check, status updates) 40-120 times, in 30 % of them an event with 1-3 tasks for queue 1 (often empty then) and the other queues arrives: the consumer must come back for the next event and the other queues must run dry before the worker is released; loader/controller cases draw binding names from three regimes (all different, none named, pool of two) and queue names from a pool with look-alikes of `main` and of each other (case variants, prefixes, suffixes). (10) compaction window: the handler of controlled queue 1 (3-6 tasks, 1-3 queues) walks its queue and drops some followers of the running task (Iterate, then Filter with a callback that keeps every task it does not know — what combineBindingContextForHook does) and from INSIDE the callback for item number `at` an event with 1-3 tasks (mostly for queue 1) is sent through the real consumer; the callback holds on until the consumer has placed them or, when it has to wait for the queue lock, 25 ms; 1-3 such compactions per case, handler results Success/Fail/Repeat, then run dry: oracle compacted (old tasks not dropped, in their order, then the delivered ones), log, orderkept, op filterdeliver against the model. (11) whole operator with webhook bindings: 1-3 v1 bash hooks with 1-2 schedule bindings and 0-1 kubernetes binding (queue key absent / `main` written out / one named queue, also look-alikes of main; kubernetes bindings with waitForSynchronization / keepFullObjectsInMemory / allowFailure keys) and kubernetesValidating / kubernetesMutating / kubernetesCustomResourceConversion bindings (h1 always); the real initValidatingWebhookManager closure and the real conversionEventHandler behind their chi routers; h1's execution for its first binding hangs at the head of its queue (75 % main), 2-5 more ticks / objects put followers behind it, then 1-3 admission / conversion requests (one for h1) are answered through the routers: every queue holds what it held (untouched), requests answered positively, and after the release logfree / order / complete on the taps' trace plus logfree on the hook PROCESSES' own start/end lines, an execution counted for the queues of the bindings whose contexts it was given; loader / controller cases now also write the other keys of a binding (waitForSynchronization true/false, executeHookOnSynchronization, keepFullObjectsInMemory, allowFailure, group, jqFilter, namespace selector) and compare the converter with Routing.convKube (op convkube). Non-trivial = trace of >= 10 events; distinct = distinct op-line sequences."
	r.One(0, func(c *Case, _ *Rng) {
		c.Desc = "default queue name from the real config loader"
		c03DefaultQueue(c)
	})
	r.One(1, func(c *Case, _ *Rng) {
		c.Desc = "corpus: TaskQueueSet.Iterate overlapping with the consumer's DoWithLock"
		c03IterateLock(c)
	})
	n := r.N(500, 5000)
	r.Cases(10, n, 0, func(c *Case, rng *Rng) { c03Controlled(c, rng, true) })
	r.Cases(10000, n, 0, func(c *Case, rng *Rng) { c03Controlled(c, rng, false) })
	r.Cases(20000, r.N(300, 3000), 0, func(c *Case, rng *Rng) { c03Blocked(c, rng) })
	r.Cases(30000, r.N(500, 8000), 0, func(c *Case, rng *Rng) { c03Free(c, rng) })
	r.Cases(40000, r.N(24, 200), 8, func(c *Case, rng *Rng) { c03Operator(r, c, rng) })
	r.Cases(50000, r.N(200, 2000), 0, func(c *Case, rng *Rng) { c03LoaderGen(c, rng) })
	r.Cases(55000, r.N(300, 3000), 0, func(c *Case, rng *Rng) { c03Controller(c, rng) })
	r.Cases(60000, r.N(40, 300), 8, func(c *Case, rng *Rng) { c03OperatorMulti(r, c, rng) })
	r.Cases(70000, r.N(300, 3000), 0, func(c *Case, rng *Rng) { c03HeadChange(c, rng) })
	r.Cases(80000, r.N(60, 600), 0, func(c *Case, rng *Rng) { c03LockWindows(c, rng) })
	r.Cases(90000, r.N(150, 1000), 0, func(c *Case, rng *Rng) { c03FilterWindow(c, rng) })
	r.Cases(95000, r.N(30, 160), 8, func(c *Case, rng *Rng) { c03OperatorWebhook(r, c, rng) })
}
