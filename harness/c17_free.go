package main

import (
	"context"
	"fmt"
	"sync/atomic"
	"time"

	"github.com/deckhouse/deckhouse/pkg/log"

	schedulemanager "github.com/flant/shell-operator/pkg/schedule_manager"
	smtypes "github.com/flant/shell-operator/pkg/schedule_manager/types"
	"github.com/flant/shell-operator/pkg/task/queue"
)

// c17Free: workers run freely (real goroutines, no yield point held), events keep arriving through the
// consumer, handlers take 0-200us and fail/repeat now and then; TaskQueueSet.Stop() is called at a
// random moment. Observed: per queue at most one execution is started after the stop request was
// recorded (the weak form of the first clause: without yield points the harness cannot tell whether the
// worker had already picked that task), every worker exits (Status "stop"), nothing runs after its exit,
// WaitStopWithTimeout returns.
func c17Free(c *Case, rng *Rng) {
	if tooManyHangs(c) {
		return
	}
	nq := rng.Range(1, 4)
	durs := make([]int, 32)
	for i := range durs {
		durs[i] = rng.Intn(200)
	}
	failPct := rng.Intn(40)
	var hcount atomic.Int64
	f := newFreeWorld(fmt.Sprintf("c17f-%d", c.Idx), nq, func(n int, id string) queue.TaskResult {
		k := hcount.Add(1)
		spin(time.Duration(durs[int(k)%len(durs)]) * time.Microsecond)
		switch {
		case int(k)%100 < failPct/2:
			return queue.TaskResult{Status: queue.Fail}
		case int(k)%100 < failPct:
			return queue.TaskResult{Status: queue.Repeat}
		}
		return queue.TaskResult{Status: queue.Success}
	})
	defer f.cancel()
	f.meh.Start()
	for i := 1; i <= nq; i++ {
		f.q(i).Start()
	}
	total := rng.Range(5, 40)
	stopAfter := rng.Intn(total)
	stopDelay := time.Duration(rng.Intn(400)) * time.Microsecond
	next := 100
	for i := 0; i < total; i++ {
		if i == stopAfter {
			time.Sleep(stopDelay)
			f.tqs.Stop()
			f.rec.add("S") // recorded once the context is cancelled: what is started after this mark is started after the stop
		}
		var ts []delivery
		for j := rng.Range(1, 3); j > 0; j-- {
			next++
			ts = append(ts, delivery{rng.Range(1, nq), next})
		}
		if !f.send(i+1, ts, rng.Bool()) {
			hangs.Add(1)
			c.Op("harness-timeout", "hang")
			return
		}
		if rng.Chance(30) {
			time.Sleep(time.Duration(rng.Intn(300)) * time.Microsecond)
		}
	}
	// every worker exits: poll from a helper (a deadlocked implementation may hold the queue lock)
	exited := make(chan bool, 1)
	go func() {
		deadline := time.Now().Add(15 * time.Second)
		for time.Now().Before(deadline) {
			all := true
			for n := 1; n <= nq; n++ {
				if f.q(n).GetStatus() != "stop" {
					all = false
				}
			}
			if all {
				exited <- true
				return
			}
			time.Sleep(time.Millisecond)
		}
		exited <- false
	}()
	ok := false
	select {
	case ok = <-exited:
	case <-time.After(20 * time.Second):
	}
	var names []int
	for n := 1; n <= nq; n++ {
		names = append(names, n)
		if ok {
			f.rec.add(fmt.Sprintf("x%d", n))
		}
	}
	if !ok {
		hangs.Add(1)
	}
	// late events after every worker has gone
	f.send(total+1, []delivery{{1, 9001}}, true)
	time.Sleep(3 * time.Millisecond)
	tr := f.rec.str()
	c.Oracle(fmt.Sprintf("weakstop q=%s ev=%s", joinInts(names), tr))
	c.Oracle(fmt.Sprintf("terminated q=%s ev=%s", joinInts(names), tr))
	c.Oracle(fmt.Sprintf("logfree q=%s ev=%s", joinInts(names), tr))
	if ok {
		t0 := time.Now()
		f.tqs.WaitStopWithTimeout(6 * time.Second)
		c.Oracle(fmt.Sprintf("waitreturns exited=true early=%v", time.Since(t0) < 6*time.Second))
	}
	c.Nontrivial = true
	c.Note("kind:free-running")
}

// c17Cron: the real ScheduleManager with a real every-second crontab. After Stop() (and the time its
// goroutine needs to stop the cron) no tick reaches the channel any more. Runtime observation.
func c17Cron(c *Case) {
	ctx, cancel := context.WithCancel(context.Background())
	defer cancel()
	sm := schedulemanager.NewScheduleManager(ctx, log.NewNop())
	sm.Add(smtypes.ScheduleEntry{Crontab: "* * * * * *", Id: "c17"})
	sm.Start()
	before := 0
	select {
	case <-sm.Ch():
		before = 1
	case <-time.After(5 * time.Second):
	}
	sm.Stop()
	// ticks that were already on their way may still arrive for a moment
	grace := time.After(1500 * time.Millisecond)
	inFlight := 0
loop:
	for {
		select {
		case <-sm.Ch():
			inFlight++
		case <-grace:
			break loop
		}
	}
	late := 0
	window := time.After(2500 * time.Millisecond)
loop2:
	for {
		select {
		case <-sm.Ch():
			late++
		case <-window:
			break loop2
		}
	}
	c.Op("cronrun", fmt.Sprintf("fired-before-stop=%d", before))
	c.Oracle(fmt.Sprintf("cronstop before=%d inflight=%d late=%d", before, inFlight, late))
	c.Nontrivial = true
}
