package main

import (
	"bytes"
	"encoding/base64"
	"encoding/json"
	"fmt"
	"net/http"
	"net/http/httptest"
	"os"
	"path/filepath"
	"strconv"
	"strings"
	"sync"

	shell_operator "github.com/flant/shell-operator/pkg/shell-operator"
	"github.com/flant/shell-operator/pkg/utils/string_helper"
	"github.com/flant/shell-operator/pkg/webhook/admission"
)

func init() { suites["c14"] = runC14 }

// The bash hook of every case. ctl/<hook>.names lists the binding names (line number = index);
// ctl/<hook>.<index>.exit and .resp say what to do for that binding.
const c14HookScript = `#!/usr/bin/env bash
ctl="$(cd "$(dirname "$0")/.." && pwd)/ctl"
me="$(basename "$0")"
if [[ "$1" == "--config" ]]; then cat "$ctl/$me.cfg"; exit 0; fi
binding=$(jq -r '.[0].binding' "$BINDING_CONTEXT_PATH")
uid=$(jq -r '.[0].review.request.uid' "$BINDING_CONTEXT_PATH")
idx=$(grep -nxF -- "$binding" "$ctl/$me.names" | head -1 | cut -d: -f1)
echo "$me ${idx:-0} $uid" >> "$ctl/log"
if [[ -f "$ctl/$me.$idx.resp" ]]; then cat "$ctl/$me.$idx.resp" > "$VALIDATING_RESPONSE_PATH"; fi
exit "$(cat "$ctl/$me.$idx.exit" 2>/dev/null || echo 3)"
`

var c14HookOnce sync.Once

func c14SharedHook(r *Run) string {
	p := filepath.Join(r.Scratch, "c14-hook.sh")
	c14HookOnce.Do(func() {
		_ = os.WriteFile(p, []byte(c14HookScript), 0o755)
		_ = os.WriteFile(filepath.Join(r.Scratch, "c14-ca.crt"), []byte("not a certificate: only read into CABundle\n"), 0o644)
	})
	return p
}

func c14Enc(s string) string {
	if s == "" {
		return "∅"
	}
	return strings.ReplaceAll(s, " ", "␣")
}

type c14Binding struct {
	Kind string // v | m
	Name string
}

// what the hook does for one binding name
type c14Outcome struct {
	Exit    int
	Kind    string // e g t y b z s o n u a d
	Msg     string
	Warns   []string
	Patch   string // decoded patch text
	Content string // response file content ("" = leave empty)
}

func (o c14Outcome) token() string {
	file := ""
	switch o.Kind {
	case "e":
		file = "e"
	case "g", "t", "y", "b", "z", "s":
		file = "g"
	default:
		v := "d"
		if o.allowed() {
			v = "a"
		}
		parts := []string{v}
		if o.Msg != "" {
			parts = append(parts, "m="+c14Enc(o.Msg))
		}
		if len(o.Warns) > 0 {
			ws := make([]string, len(o.Warns))
			for i, w := range o.Warns {
				ws[i] = c14Enc(w)
			}
			parts = append(parts, "w="+strings.Join(ws, "~"))
		}
		if o.Patch != "" {
			parts = append(parts, "p="+c14Enc(o.Patch))
		}
		file = strings.Join(parts, ";")
	}
	return fmt.Sprintf("%d:%s", o.Exit, file)
}

func (o c14Outcome) allowed() bool { return o.Kind == "a" || o.Kind == "u" }

func c14GenOutcome(rng *Rng, tag string) c14Outcome {
	o := c14Outcome{}
	if rng.Chance(18) {
		o.Exit = PickOne(rng, []int{1, 2, 127})
	}
	k := rng.Intn(100)
	switch {
	case k < 8:
		o.Kind = "e"
	case k < 12:
		o.Kind, o.Content = "g", "this is not json"
	case k < 16:
		o.Kind, o.Content = "t", `{"allowed": tr`
	case k < 20:
		o.Kind, o.Content = "y", PickOne(rng, []string{`{"allowed": "yes"}`, `{"allowed": 1}`, `{"allowed": true, "warnings": "w"}`, `[true]`})
	case k < 23:
		o.Kind, o.Content = "b", `{"allowed": true, "patch": "!!!not-base64!!!"}`
	case k < 28:
		o.Kind, o.Content = "z", PickOne(rng, []string{"{\"allowed\": true}\ngarbage", `{"allowed": true}}`, `{"allowed": true} x`})
	case k < 31:
		o.Kind, o.Content = "s", "{\"allowed\": true}\n{\"allowed\": false}"
	case k < 35:
		o.Kind, o.Content = "o", "{}"
	case k < 38:
		o.Kind, o.Content = "n", "null"
	case k < 42:
		o.Kind, o.Content = "u", `{"allowed": true, "unknownField": [1, 2]}`
	default:
		o.Kind = "d"
		if rng.Chance(60) {
			o.Kind = "a"
		}
		m := map[string]any{"allowed": o.Kind == "a"}
		if rng.Chance(60) {
			o.Msg = PickOne(rng, []string{"denied by " + tag, "msg-" + tag, "no way: " + tag + "!", "Ünïcode " + tag})
			m["message"] = o.Msg
		}
		if rng.Chance(40) {
			for i := rng.Range(1, 3); i > 0; i-- {
				o.Warns = append(o.Warns, fmt.Sprintf("warn %d of %s", i, tag))
			}
			m["warnings"] = o.Warns
		}
		if rng.Chance(45) {
			o.Patch = fmt.Sprintf(`[{"op":"add","path":"/metadata/labels/by","value":"%s"}]`, tag)
			m["patch"] = base64.StdEncoding.EncodeToString([]byte(o.Patch))
		}
		b, _ := json.Marshal(m)
		o.Content = string(b)
	}
	return o
}

type c14Hook struct {
	ID       int
	Bindings []c14Binding
	Out      map[string]c14Outcome // by binding name
}

type c14Req struct {
	Path string
	Body string // ok | garbage | norequest
	UID  string
}

var c14ValidatingNames = []string{"a.example.com", "b.example.com", "my.hook.ex.io", "my-hook.ex.io", "x.y.z", "deny.all.io"}
var c14MutatingNames = []string{"myHook", "my-hook", "hooks/nextHook", "weird spaced Name", "UPPER", "mutate.example.com",
	"a.example.com", "x.y.z", "dashed---Name", "ünï.code", "a//b", "/lead", "trail/", "my.hook.ex.io"}

func c14RegisteredPath(name string) string { return "/hooks/" + string_helper.SafeURLString(name) }

// c14RunCase builds the operator over generated hooks and sends the requests through the real chain.
func c14RunCase(r *Run, c *Case, hooks []c14Hook, reqs []c14Req) {
	shared := c14SharedHook(r)
	root := filepath.Join(r.Scratch, fmt.Sprintf("c14-%d", c.Idx))
	hooksDir, ctl, tmp := filepath.Join(root, "hooks"), filepath.Join(root, "ctl"), filepath.Join(root, "tmp")
	for _, d := range []string{hooksDir, ctl, tmp} {
		_ = os.MkdirAll(d, 0o755)
	}
	defer os.RemoveAll(root)
	hookFile := func(id int) string { return fmt.Sprintf("h%d.sh", id) }
	rule := `"rules":[{"apiGroups":["*"],"apiVersions":["*"],"operations":["*"],"resources":["pods"]}]`
	for _, h := range hooks {
		var v, m []string
		var names []string
		seen := map[string]bool{}
		for _, b := range h.Bindings {
			nb, _ := json.Marshal(b.Name)
			item := fmt.Sprintf(`{"name":%s,%s}`, nb, rule)
			if b.Kind == "v" {
				v = append(v, item)
			} else {
				m = append(m, item)
			}
			if !seen[b.Name] {
				seen[b.Name] = true
				names = append(names, b.Name)
			}
		}
		cfg := `{"configVersion":"v1"`
		if len(v) > 0 {
			cfg += `,"kubernetesValidating":[` + strings.Join(v, ",") + `]`
		}
		if len(m) > 0 {
			cfg += `,"kubernetesMutating":[` + strings.Join(m, ",") + `]`
		}
		cfg += "}"
		f := hookFile(h.ID)
		_ = os.WriteFile(filepath.Join(ctl, f+".cfg"), []byte(cfg), 0o644)
		_ = os.WriteFile(filepath.Join(ctl, f+".names"), []byte(strings.Join(names, "\n")+"\n"), 0o644)
		for i, n := range names {
			o := h.Out[n]
			_ = os.WriteFile(filepath.Join(ctl, fmt.Sprintf("%s.%d.exit", f, i+1)), []byte(strconv.Itoa(o.Exit)), 0o644)
			if o.Kind != "e" {
				_ = os.WriteFile(filepath.Join(ctl, fmt.Sprintf("%s.%d.resp", f, i+1)), []byte(o.Content), 0o644)
			}
		}
		if err := os.Link(shared, filepath.Join(hooksDir, f)); err != nil {
			c.Inconcl = "cannot link the hook script: " + err.Error()
			return
		}
		// the protocol line
		var toks []string
		for _, b := range h.Bindings {
			toks = append(toks, b.Kind+"|"+c14Enc(b.Name)+"|"+h.Out[b.Name].token())
		}
		c.Op(fmt.Sprintf("hook %d %s", h.ID, strings.Join(toks, " ")), "ok")
	}
	_ = os.WriteFile(filepath.Join(ctl, "log"), nil, 0o644)

	op, handler, err := shell_operator.VerifC14NewOperator(hooksDir, tmp, filepath.Join(r.Scratch, "c14-ca.crt"))
	if err != nil {
		c.Op("setup", "setup-error "+strings.Join(strings.Fields(err.Error()), " "))
		return
	}
	defer op.VerifC14Stop()
	if handler == nil {
		c.Op("setup", "no-admission-handler")
		return
	}

	nameOf := func(hookFileName string, idx int) (int, string) {
		for _, h := range hooks {
			if hookFile(h.ID) != hookFileName {
				continue
			}
			seen := map[string]bool{}
			k := 0
			for _, b := range h.Bindings {
				if !seen[b.Name] {
					seen[b.Name] = true
					k++
					if k == idx {
						return h.ID, b.Name
					}
				}
			}
			return h.ID, "?"
		}
		return -1, "?"
	}

	for _, q := range reqs {
		_ = os.WriteFile(filepath.Join(ctl, "log"), nil, 0o644)
		var body string
		switch q.Body {
		case "ok":
			body = fmt.Sprintf(`{"apiVersion":"admission.k8s.io/v1","kind":"AdmissionReview","request":{"uid":%q,"kind":{"group":"","version":"v1","kind":"Pod"},"resource":{"group":"","version":"v1","resource":"pods"},"name":"p","namespace":"default","operation":"CREATE","object":{"apiVersion":"v1","kind":"Pod","metadata":{"name":"p"}}}}`, q.UID)
		case "garbage":
			body = `{"apiVersion": "admission.k8s.io/v1", "request": [`
		default:
			body = `{"apiVersion":"admission.k8s.io/v1","kind":"AdmissionReview"}`
		}
		req := httptest.NewRequest(http.MethodPost, "/x", bytes.NewReader([]byte(body)))
		req.URL.Path = q.Path
		req.URL.RawPath = ""
		req.Header.Set("Content-Type", "application/json")
		rec := httptest.NewRecorder()
		handler.Router.ServeHTTP(rec, req)

		// who ran
		ran := "-"
		logB, _ := os.ReadFile(filepath.Join(ctl, "log"))
		lines := strings.Split(strings.TrimSpace(string(logB)), "\n")
		if len(lines) == 1 && lines[0] != "" {
			f := strings.Fields(lines[0])
			if len(f) >= 2 {
				idx, _ := strconv.Atoi(f[1])
				hid, name := nameOf(f[0], idx)
				ran = fmt.Sprintf("%d:%s", hid, c14Enc(name))
				if len(f) < 3 || f[2] != q.UID {
					ran = "another-request-was-handed-to-the-hook"
				}
			}
		} else if len(lines) > 1 {
			ran = "several-hooks-ran"
		}

		line := fmt.Sprintf("path=%s body=%s uid=%s", c14Enc(q.Path), q.Body, c14Enc(q.UID))
		var ans, oans string
		if rec.Code == http.StatusBadRequest {
			ans = "400 ran=" + ran
			oans = "ans=400 ran=" + ran
		} else if rec.Code != http.StatusOK {
			ans = fmt.Sprintf("http-%d", rec.Code)
			oans = "ans=" + ans
		} else {
			var rv struct {
				Response *struct {
					UID      string   `json:"uid"`
					Allowed  bool     `json:"allowed"`
					Warnings []string `json:"warnings"`
					Patch    []byte   `json:"patch"`
					PType    *string  `json:"patchType"`
					Status   *struct {
						Code    int    `json:"code"`
						Message string `json:"message"`
					} `json:"status"`
				} `json:"response"`
			}
			if err := json.Unmarshal(rec.Body.Bytes(), &rv); err != nil || rv.Response == nil {
				ans = "undecodable-review"
				oans = "ans=undecodable-review"
			} else {
				rs := rv.Response
				code, reason := 0, "-"
				if rs.Status != nil {
					code = rs.Status.Code
					switch {
					case code == 403 && rs.Status.Message == "Hook failed":
						reason = "hook-failed"
					case code == 403:
						reason = "hook:" + c14Enc(rs.Status.Message)
					case strings.HasPrefix(rs.Status.Message, "no hook found"):
						reason = "no-hook"
					case strings.HasPrefix(rs.Status.Message, "hook task prop error"):
						reason = "prop-error"
					default:
						reason = "other-error"
					}
				}
				ws := "-"
				if len(rs.Warnings) > 0 {
					e := make([]string, len(rs.Warnings))
					for i, w := range rs.Warnings {
						e[i] = c14Enc(w)
					}
					ws = strings.Join(e, "~")
				}
				patch := "-"
				if len(rs.Patch) > 0 {
					patch = c14Enc(string(rs.Patch))
				}
				pt := "-"
				if rs.PType != nil {
					pt = *rs.PType
				}
				fields := fmt.Sprintf("uid=%s allowed=%v code=%d reason=%s warnings=%s patch=%s ptype=%s ran=%s",
					c14Enc(rs.UID), rs.Allowed, code, reason, ws, patch, pt, ran)
				ans = "review " + fields
				oans = "ans=review r" + fields
				c.Note(fmt.Sprintf("answer:allowed=%v", rs.Allowed))
				c.Note("answer:reason=" + strings.SplitN(reason, ":", 2)[0])
			}
		}
		c.Op("req "+line, ans)
		c.Oracle("req " + line + " " + oans)
		c.Note("request:body=" + q.Body)
		if ran != "-" {
			c.Note("request:hook-ran")
			c.Nontrivial = true
		}
	}
}

func c14Differential(c *Case, names []string, paths []string) {
	for _, n := range names {
		c.Op("safe "+c14Enc(n), c14Enc(string_helper.SafeURLString(n)))
	}
	for _, p := range paths {
		a, b := admission.VerifC14DetectConfigurationAndWebhook(p)
		c.Op("detect "+c14Enc(p), c14Enc(a)+"|"+c14Enc(b))
	}
}

func c14RandName(rng *Rng) string {
	alphabet := []string{"a", "b", "z", "A", "B", "Z", "0", "9", "-", "-", "/", ".", "_", " ", "é", "Я", "~", "%", "m", "H"}
	n := rng.Range(0, 10)
	var sb strings.Builder
	for i := 0; i < n; i++ {
		sb.WriteString(PickOne(rng, alphabet))
	}
	return sb.String()
}

func c14Variant(rng *Rng, p string) string {
	switch rng.Intn(12) {
	case 0:
		return p + "/"
	case 1:
		return strings.Replace(p, "/hooks/", "/hooks//", 1)
	case 2:
		return strings.ToUpper(p)
	case 3:
		return "/" + p
	case 4:
		return strings.Replace(p, "/hooks/", "/other/", 1)
	case 5:
		return p + "x"
	case 6:
		if len(p) > 8 {
			return p[:len(p)-1]
		}
	}
	return p
}

func runC14(r *Run) {
	r.Rule = "1-3 hooks with 1-3 validating/mutating bindings each (fully qualified names for validating; arbitrary names for mutating: upper case, blanks, slashes, empty path segments, non-ASCII; names whose SafeURL forms collide within and across hooks), a scripted outcome per (hook, binding): exit code x response file (empty, not JSON, truncated, wrong types, bad base64, JSON followed by garbage, two documents, {}, null, unknown fields, allowed/denied with message/warnings/base64 JSONPatch); 3-6 requests per case: registered paths and variants (trailing/double slashes, upper case, other configuration id, prefix/suffix changes, unknown, /, /hooks), bodies valid / garbage / without request. Everything runs through the real chain: chi router of the admission WebhookHandler (httptest) -> the event closure of initValidatingWebhookManager -> HookManager routing -> taskHandler -> Hook.Run -> bash -> response file -> AdmissionReview. Plus differential lines for SafeURLString and detectConfigurationAndWebhook on random strings. A case is non-trivial when a hook process ran; distinct = distinct op-line sequences."
	c14SharedHook(r)

	// ---- corpus
	r.One(0, func(c *Case, _ *Rng) {
		c.Desc = "corpus: a valid verdict followed by garbage in the response file"
		h := c14Hook{ID: 1, Bindings: []c14Binding{{"v", "a.example.com"}}, Out: map[string]c14Outcome{
			"a.example.com": {Kind: "z", Content: "{\"allowed\": true}\ngarbage"}}}
		c14RunCase(r, c, []c14Hook{h}, []c14Req{{"/hooks/a-example-com", "ok", "uid-1"}})
	})
	r.One(1, func(c *Case, _ *Rng) {
		c.Desc = "corpus: allowed with warnings and patch; denied with message; hook exits 1; empty file; unknown path"
		pt := `[{"op":"add","path":"/metadata/labels/x","value":"y"}]`
		h1 := c14Hook{ID: 1, Bindings: []c14Binding{{"v", "a.example.com"}, {"m", "myHook"}}, Out: map[string]c14Outcome{
			"a.example.com": {Kind: "d", Msg: "denied by a", Content: `{"allowed":false,"message":"denied by a"}`},
			"myHook": {Kind: "a", Warns: []string{"w 1", "w2"}, Patch: pt,
				Content: `{"allowed":true,"warnings":["w 1","w2"],"patch":"` + base64.StdEncoding.EncodeToString([]byte(pt)) + `"}`}}}
		h2 := c14Hook{ID: 2, Bindings: []c14Binding{{"v", "b.example.com"}, {"v", "x.y.z"}}, Out: map[string]c14Outcome{
			"b.example.com": {Exit: 1, Kind: "a", Content: `{"allowed":true}`},
			"x.y.z":         {Kind: "e"}}}
		c14RunCase(r, c, []c14Hook{h1, h2}, []c14Req{
			{"/hooks/my-hook", "ok", "u1"}, {"/hooks/a-example-com", "ok", "u2"}, {"/hooks/b-example-com", "ok", "u3"},
			{"/hooks/x-y-z", "ok", "u4"}, {"/hooks/nope", "ok", "u5"}, {"/hooks/my-hook", "garbage", "u6"}, {"/hooks/my-hook", "norequest", "u7"}})
	})
	r.One(2, func(c *Case, _ *Rng) {
		c.Desc = "corpus: colliding webhook ids (my.hook.ex.io / my-hook.ex.io / myHook) and an id with an empty path segment"
		mk := func(tag string, allow bool) c14Outcome {
			k := "d"
			if allow {
				k = "a"
			}
			return c14Outcome{Kind: k, Msg: "from " + tag, Content: fmt.Sprintf(`{"allowed":%v,"message":"from %s"}`, allow, tag)}
		}
		h1 := c14Hook{ID: 1, Bindings: []c14Binding{{"v", "my.hook.ex.io"}, {"m", "a//b"}}, Out: map[string]c14Outcome{"my.hook.ex.io": mk("h1", true), "a//b": mk("h1ab", true)}}
		h2 := c14Hook{ID: 2, Bindings: []c14Binding{{"v", "my-hook.ex.io"}}, Out: map[string]c14Outcome{"my-hook.ex.io": mk("h2", false)}}
		h3 := c14Hook{ID: 3, Bindings: []c14Binding{{"m", "myHook.ex.io"}}, Out: map[string]c14Outcome{"myHook.ex.io": mk("h3", true)}}
		c14RunCase(r, c, []c14Hook{h1, h2, h3}, []c14Req{{"/hooks/my-hook-ex-io", "ok", "u1"}, {"/hooks/a//b", "ok", "u2"}, {"/hooks/a/b", "ok", "u3"}})
	})

	// ---- the complete outcome table: every response-file content class x exit code x binding kind
	pt := `[{"op":"replace","path":"/spec/x","value":1}]`
	pt64 := base64.StdEncoding.EncodeToString([]byte(pt))
	table := []c14Outcome{
		{Kind: "e"},
		{Kind: "g", Content: "this is not json"}, {Kind: "g", Content: " "}, {Kind: "g", Content: "\n"},
		{Kind: "t", Content: `{"allowed": tr`}, {Kind: "t", Content: `{"allowed": true`},
		{Kind: "y", Content: `{"allowed": "yes"}`}, {Kind: "y", Content: `{"allowed": 1}`}, {Kind: "y", Content: `{"allowed": true, "warnings": "w"}`},
		{Kind: "y", Content: `[true]`}, {Kind: "y", Content: `"allowed"`}, {Kind: "y", Content: `{"allowed": true, "message": 5}`},
		{Kind: "b", Content: `{"allowed": true, "patch": "!!!not-base64!!!"}`}, {Kind: "b", Content: `{"allowed": true, "patch": 5}`},
		{Kind: "z", Content: "{\"allowed\": true}\ngarbage"}, {Kind: "z", Content: `{"allowed": true}}`}, {Kind: "z", Content: `{"allowed": true} x`},
		{Kind: "z", Content: `{"allowed": true}]`}, {Kind: "s", Content: "{\"allowed\": true}\n{\"allowed\": false}"}, {Kind: "s", Content: `{"allowed": true}{"allowed": true}`},
		{Kind: "o", Content: "{}"}, {Kind: "n", Content: "null"}, {Kind: "u", Content: `{"allowed": true, "unknownField": [1, 2]}`},
		{Kind: "a", Content: `{"allowed": true}`}, {Kind: "a", Content: "  {\"allowed\": true}\n\n"}, {Kind: "a", Content: `{"Allowed": true}`},
		{Kind: "d", Content: `{"allowed": false}`},
		{Kind: "a", Msg: "fine by me", Content: `{"allowed": true, "message": "fine by me"}`},
		{Kind: "d", Msg: "no", Content: `{"allowed": false, "message": "no"}`},
		{Kind: "a", Warns: []string{"w 1", "w2"}, Content: `{"allowed": true, "warnings": ["w 1", "w2"]}`},
		{Kind: "d", Msg: "no", Warns: []string{"w"}, Content: `{"allowed": false, "message": "no", "warnings": ["w"]}`},
		{Kind: "a", Patch: pt, Content: `{"allowed": true, "patch": "` + pt64 + `"}`},
		{Kind: "d", Msg: "no", Patch: pt, Content: `{"allowed": false, "message": "no", "patch": "` + pt64 + `"}`},
		{Kind: "a", Content: `{"allowed": true, "patch": ""}`}, {Kind: "a", Content: `{"allowed": true, "warnings": []}`},
		{Kind: "d", Content: `{"allowed": null}`},
	}
	exits := []int{0, 1}
	kinds := []string{"v", "m"}
	r.Cases(200, len(table)*len(exits)*len(kinds), 0, func(c *Case, _ *Rng) {
		k := c.Idx - 200
		o := table[k%len(table)]
		o.Exit = exits[(k/len(table))%len(exits)]
		kind := kinds[k/(len(table)*len(exits))]
		name := "table.example.com"
		h := c14Hook{ID: 1, Bindings: []c14Binding{{kind, name}}, Out: map[string]c14Outcome{name: o}}
		c.Desc = fmt.Sprintf("table: exit %d, %s binding, response file %q", o.Exit, kind, o.Content)
		c14RunCase(r, c, []c14Hook{h}, []c14Req{
			{"/hooks/table-example-com", "ok", fmt.Sprintf("t-%d-a", k)},
			{"/hooks/table-example-com/", "ok", fmt.Sprintf("t-%d-b", k)},
			{"/hooks/table.example.com", "ok", fmt.Sprintf("t-%d-c", k)},
			{"/hooks/table-example-com", "garbage", fmt.Sprintf("t-%d-d", k)}})
		c.Note("case:outcome-table")
	})
	r.Exhaust = true
	r.Extra["exhaustive_scope"] = fmt.Sprintf("the complete table of %d response-file contents (every content class) x exit {0,1} x {validating, mutating} binding, each asked on the registered path, with a trailing slash, on a non-registered spelling and with a garbage body", len(table))

	if r.Thorough() {
		// every pair of single-binding hooks over a pool of names that collide in several ways
		pool := []c14Binding{{"v", "my.hook.ex.io"}, {"v", "my-hook.ex.io"}, {"v", "other.ex.io"}, {"m", "myHook.ex.io"},
			{"m", "my.hook.ex.io"}, {"m", "my-hook-ex-io"}, {"m", "MY.HOOK.EX.IO"}, {"m", "my hook ex io"}, {"m", "other.ex.io"},
			{"m", "a//b"}, {"m", "a/b"}, {"m", "a/B"}}
		mk := func(tag string, allow bool) c14Outcome {
			k := "d"
			if allow {
				k = "a"
			}
			return c14Outcome{Kind: k, Msg: "from " + tag, Content: fmt.Sprintf(`{"allowed":%v,"message":"from %s"}`, allow, tag)}
		}
		r.Cases(5000, len(pool)*len(pool), 0, func(c *Case, _ *Rng) {
			k := c.Idx - 5000
			b1, b2 := pool[k%len(pool)], pool[k/len(pool)]
			h1 := c14Hook{ID: 1, Bindings: []c14Binding{b1}, Out: map[string]c14Outcome{b1.Name: mk("h1", true)}}
			h2 := c14Hook{ID: 2, Bindings: []c14Binding{b2}, Out: map[string]c14Outcome{b2.Name: mk("h2", false)}}
			c.Desc = fmt.Sprintf("pairs: hook 1 %s %q, hook 2 %s %q", b1.Kind, b1.Name, b2.Kind, b2.Name)
			c14RunCase(r, c, []c14Hook{h1, h2}, []c14Req{
				{c14RegisteredPath(b1.Name), "ok", fmt.Sprintf("p-%d-1", k)},
				{c14RegisteredPath(b2.Name), "ok", fmt.Sprintf("p-%d-2", k)},
				{"/hooks/a/b", "ok", fmt.Sprintf("p-%d-3", k)}})
			c.Note("case:pairs")
		})
		r.Extra["exhaustive_pairs"] = fmt.Sprintf("all %d ordered pairs of single-binding hooks over %d names/kinds that collide after SafeURLString in several ways", len(pool)*len(pool), len(pool))
	}

	// ---- differential: SafeURLString / detectConfigurationAndWebhook
	r.Cases(50, r.N(40, 400), 0, func(c *Case, rng *Rng) {
		var names, paths []string
		for i := 0; i < 25; i++ {
			names = append(names, c14RandName(rng))
			p := "/" + c14RandName(rng)
			if rng.Bool() {
				p = "/hooks/" + string_helper.SafeURLString(c14RandName(rng))
			}
			paths = append(paths, strings.ReplaceAll(c14Variant(rng, p), " ", "_"))
		}
		names = append(names, c14MutatingNames...)
		c14Differential(c, names, paths)
		c.Nontrivial = true
		c.Note("case:differential")
	})

	// ---- the chain
	n := r.N(300, 3000)
	r.Cases(1000, n, 0, func(c *Case, rng *Rng) {
		nh := rng.Range(1, 3)
		var hooks []c14Hook
		var regPaths []string
		for id := 1; id <= nh; id++ {
			h := c14Hook{ID: id, Out: map[string]c14Outcome{}}
			nb := rng.Range(1, 3)
			for i := 0; i < nb; i++ {
				b := c14Binding{Kind: "v", Name: PickOne(rng, c14ValidatingNames)}
				if rng.Chance(50) {
					b = c14Binding{Kind: "m", Name: PickOne(rng, c14MutatingNames)}
				}
				dup := false
				for _, x := range h.Bindings {
					if x == b {
						dup = true
					}
				}
				if dup {
					continue
				}
				h.Bindings = append(h.Bindings, b)
				if _, ok := h.Out[b.Name]; !ok {
					h.Out[b.Name] = c14GenOutcome(rng, fmt.Sprintf("h%d.%d", id, i))
					c.Note("outcome:file=" + h.Out[b.Name].Kind)
					if h.Out[b.Name].Exit != 0 {
						c.Note("outcome:exit!=0")
					}
				}
				regPaths = append(regPaths, c14RegisteredPath(b.Name))
			}
			if len(h.Bindings) > 0 {
				hooks = append(hooks, h)
			}
		}
		if len(hooks) == 0 {
			return
		}
		var reqs []c14Req
		for i, nq := 0, rng.Range(3, 6); i < nq; i++ {
			p := PickOne(rng, regPaths)
			if rng.Chance(30) {
				p = c14Variant(rng, p)
			}
			if rng.Chance(6) {
				p = PickOne(rng, []string{"/", "/hooks", "/hooks/", "/hooks/nope", "//", "/hooks/a-example-com/extra"})
			}
			body := "ok"
			if k := rng.Intn(100); k < 7 {
				body = "garbage"
			} else if k < 13 {
				body = "norequest"
			}
			reqs = append(reqs, c14Req{p, body, fmt.Sprintf("uid-%d-%d", c.Idx, i)})
		}
		c14RunCase(r, c, hooks, reqs)
		c.Note(fmt.Sprintf("case:hooks=%d", len(hooks)))
	})
}
