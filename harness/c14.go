package main

import (
	"bytes"
	"encoding/base64"
	"encoding/json"
	"fmt"
	"net/http"
	"net/http/httptest"
	"os"
	"path/filepath"
	"strconv"
	"strings"
	"sync"
	"sync/atomic"
	"time"

	shell_operator "github.com/flant/shell-operator/pkg/shell-operator"
	"github.com/flant/shell-operator/pkg/utils/string_helper"
	"github.com/flant/shell-operator/pkg/utils/verifsched"
	"github.com/flant/shell-operator/pkg/webhook/admission"
)

func init() { suites["c14"] = runC14 }

// The bash hook of every case. ctl/<hook>.names lists the binding names (line number = index);
// ctl/<hook>.<index>.exit and .resp say what to do for that binding.
const c14HookScript = `#!/usr/bin/env bash
ctl="$(cd "$(dirname "$0")/.." && pwd)/ctl"
me="$(basename "$0")"
if [[ "$1" == "--config" ]]; then cat "$ctl/$me.cfg"; exit 0; fi
wait_for() { local i; for ((i = 0; i < 1500; i++)); do [[ -e "$1" ]] && return 0; sleep 0.02; done; return 1; }
# overlapping requests: the run is prepared (its files are written) and the process runs, but it has not
# read its binding context yet — it tells the harness and waits to be let go
if [[ -e "$ctl/sync/pregate" ]]; then tok="$ctl/sync/proc.$$.$(date +%s%N)"; : > "$tok.ready"; wait_for "$tok.go"; fi
# what this process was handed: how many binding contexts, for which binding, of which type, and the request in it
IFS=$'\x1f' read -r nctx binding typ uid rname < <(jq -r '[length, .[0].binding, .[0].type, .[0].review.request.uid, .[0].review.request.name] | map(tostring) | join("\u001f")' "$BINDING_CONTEXT_PATH")
idx=$(grep -nxF -- "$binding" "$ctl/$me.names" | head -1 | cut -d: -f1)
echo "$me ${idx:-0} ${uid:-null} ${typ:-null} ${nctx:-0} ${rname:-null}" >> "$ctl/log"
# what to do: per request (ctl/uid.<uid>.*) if scripted, else per binding (ctl/<hook>.<index>.*)
base="$ctl/$me.$idx"
if [[ -f "$ctl/uid.$uid.exit" ]]; then base="$ctl/uid.$uid"; fi
# overlapping requests: the harness scripts the order of "writes its files" and "exits" with marker files
if [[ -f "$base.gate" ]]; then : > "$ctl/sync/$uid.started"; wait_for "$ctl/sync/$uid.write"; fi
if [[ -f "$base.resp" ]]; then cat "$base.resp" > "$VALIDATING_RESPONSE_PATH"; fi
if [[ -f "$base.metrics" ]]; then cat "$base.metrics" > "$METRICS_PATH"; fi
if [[ -f "$base.kpatch" ]]; then cat "$base.kpatch" > "$KUBERNETES_PATCH_PATH"; fi
if [[ -f "$base.gate" ]]; then : > "$ctl/sync/$uid.wrote"; wait_for "$ctl/sync/$uid.go"; fi
# what it says on stdout / stderr before it ends
if [[ -f "$base.noise" ]]; then
  n="$(cat "$base.noise")"
  [[ "$n" == *o* ]] && echo "c14 hook $me: a line on stdout"
  [[ "$n" == *e* ]] && echo "c14 hook $me: a line on stderr" >&2
fi
# how the process ends: "<n>" = exit n; "k<n>" = a signal terminates it (it kills itself; the files above are written)
e="$(cat "$base.exit" 2>/dev/null || echo 3)"
if [[ "$e" == k* ]]; then
  ulimit -c 0 2>/dev/null
  kill -"${e#k}" $$
  for ((i = 0; i < 100; i++)); do sleep 0.05; done
  kill -KILL $$ # the signal asked for is ignored in this environment: still a death by signal
fi
exit "$e"
`

var c14HookOnce sync.Once

func c14SharedHook(r *Run) string {
	p := filepath.Join(r.Scratch, "c14-hook.sh")
	c14HookOnce.Do(func() {
		_ = writeScript(p, []byte(c14HookScript), 0o755)
		_ = os.WriteFile(filepath.Join(r.Scratch, "c14-ca.crt"), []byte("not a certificate: only read into CABundle\n"), 0o644)
	})
	return p
}

func c14Enc(s string) string {
	if s == "" {
		return "∅"
	}
	return strings.ReplaceAll(s, " ", "␣")
}

type c14Binding struct {
	Kind string // v | m
	Name string
}

// the optional fields of an admission binding's configuration (none of them is named by the property:
// whatever they are, the request is handed to the hook as an admission review and the answer fails closed)
type c14Opts struct {
	Group         string // "group"
	FailurePolicy string // "failurePolicy": Fail | Ignore
	SideEffects   string // "sideEffects": None | NoneOnDryRun
	Timeout       int    // "timeoutSeconds"
	Selector      bool   // "labelSelector"
	NsSelector    bool   // "namespace": {"labelSelector": …}
}

func (o c14Opts) json() string {
	s := ""
	if o.Group != "" {
		s += fmt.Sprintf(`,"group":%q`, o.Group)
	}
	if o.FailurePolicy != "" {
		s += fmt.Sprintf(`,"failurePolicy":%q`, o.FailurePolicy)
	}
	if o.SideEffects != "" {
		s += fmt.Sprintf(`,"sideEffects":%q`, o.SideEffects)
	}
	if o.Timeout != 0 {
		s += fmt.Sprintf(`,"timeoutSeconds":%d`, o.Timeout)
	}
	if o.Selector {
		s += `,"labelSelector":{"matchLabels":{"c14":"yes"}}`
	}
	if o.NsSelector {
		s += `,"namespace":{"labelSelector":{"matchExpressions":[{"key":"c14","operator":"Exists"}]}}`
	}
	return s
}

// token: the options in the protocol line, appended to the binding's kind (`m,g=main,fp=Ignore`)
func (o c14Opts) token() string {
	s := ""
	if o.Group != "" {
		s += ",g=" + o.Group
	}
	if o.FailurePolicy != "" {
		s += ",fp=" + o.FailurePolicy
	}
	if o.SideEffects != "" {
		s += ",se=" + o.SideEffects
	}
	if o.Timeout != 0 {
		s += fmt.Sprintf(",ts=%d", o.Timeout)
	}
	if o.Selector {
		s += ",ls=1"
	}
	if o.NsSelector {
		s += ",ns=1"
	}
	return s
}

// c14GenOpts: about 40 % of the bindings carry optional configuration fields
func c14GenOpts(rng *Rng) c14Opts {
	var o c14Opts
	if !rng.Chance(40) {
		return o
	}
	if rng.Chance(50) {
		o.Group = PickOne(rng, []string{"main", "main", "second"})
	}
	if rng.Chance(60) {
		o.FailurePolicy = PickOne(rng, []string{"Ignore", "Ignore", "Fail"})
	}
	if rng.Chance(25) {
		o.SideEffects = PickOne(rng, []string{"None", "NoneOnDryRun"})
	}
	if rng.Chance(25) {
		o.Timeout = rng.Range(1, 30)
	}
	o.Selector = rng.Chance(15)
	o.NsSelector = rng.Chance(15)
	return o
}

func c14OptKey(b c14Binding) string { return b.Kind + "|" + b.Name }

// what the hook does for one binding name
type c14Outcome struct {
	Exit    int
	Noise   string // what the process prints before it ends: "" nothing, "o" a line on stdout, "e" a line on stderr, "oe" both
	Sig     int    // != 0: the hook process does not exit: after writing its files it is terminated by this signal (Exit is not used)
	Kind    string // e g t y b z s o n u a d
	Msg     string
	Warns   []string
	Patch   string // decoded patch text
	Content string // response file content ("" = leave empty)
	// the other output files of the run: "" none; "ok.mv" a valid metric operation; "bad.ms" metrics file
	// that is not JSON; "bad.mo" a metric operation that does not validate; "bad.po" an unknown object
	// patch operation; "bad.pg" an object patch file that is neither JSON nor YAML
	Side string
}

func (o c14Outcome) sideFiles() (metrics, kpatch string) {
	switch o.Side {
	case "ok.mv":
		metrics = `{"name":"c14_checked","action":"set","value":1}` + "\n"
	case "bad.ms":
		metrics = `{"name": "c14_checked", "action":` + "\n"
	case "bad.mo":
		metrics = `{"name":"c14_checked","action":"set"}` + "\n"
	case "bad.po":
		kpatch = `{"operation":"NoSuchOperation","kind":"Pod","name":"x"}` + "\n"
	case "bad.pg":
		kpatch = "{{{ this is: [neither JSON nor: YAML\n"
	}
	return
}

var c14Sides = []string{"ok.mv", "bad.ms", "bad.mo", "bad.po", "bad.pg"}

// write the files that tell the hook script what to do (base = ctl/<hook>.<index> or ctl/uid.<uid>)
func (o c14Outcome) writeCtl(base string, gate bool) {
	_ = os.WriteFile(base+".exit", []byte(o.ending()), 0o644)
	if o.Kind != "e" {
		_ = os.WriteFile(base+".resp", []byte(o.Content), 0o644)
	}
	if o.Noise != "" {
		_ = os.WriteFile(base+".noise", []byte(o.Noise), 0o644)
	}
	m, k := o.sideFiles()
	if m != "" {
		_ = os.WriteFile(base+".metrics", []byte(m), 0o644)
	}
	if k != "" {
		_ = os.WriteFile(base+".kpatch", []byte(k), 0o644)
	}
	if gate {
		_ = os.WriteFile(base+".gate", nil, 0o644)
	}
}

// ending: how the hook process ends — "<n>" it exits with status n, "k<n>" signal n terminates it
func (o c14Outcome) ending() string {
	if o.Sig != 0 {
		return "k" + strconv.Itoa(o.Sig)
	}
	return strconv.Itoa(o.Exit)
}

// endingToken: the ending in the protocol line, with what the process printed before (`!o`, `!e`, `!oe`)
func (o c14Outcome) endingToken() string {
	if o.Noise != "" {
		return o.ending() + "!" + o.Noise
	}
	return o.ending()
}

// the statuses a hook process exits with besides 0 (shell conventions: 126 not executable, 127 not found,
// 128+n "killed by signal n" as reported by a wrapper, 255 exit -1) and the signals that terminate it
// (KILL, TERM, SEGV, ABRT, USR1, ALRM: none of them is ignored in a child of a Go program)
var c14ExitCodes = []int{1, 2, 3, 64, 126, 127, 128, 130, 137, 139, 143, 254, 255}
var c14Signals = []int{9, 15, 11, 6, 10, 14}

func (o c14Outcome) token() string {
	file := ""
	switch o.Kind {
	case "e":
		file = "e"
	case "g", "t", "y", "b", "z", "s":
		file = "g"
	default:
		v := "d"
		if o.allowed() {
			v = "a"
		}
		parts := []string{v}
		if o.Msg != "" {
			parts = append(parts, "m="+c14Enc(o.Msg))
		}
		if len(o.Warns) > 0 {
			ws := make([]string, len(o.Warns))
			for i, w := range o.Warns {
				ws[i] = c14Enc(w)
			}
			parts = append(parts, "w="+strings.Join(ws, "~"))
		}
		if o.Patch != "" {
			parts = append(parts, "p="+c14Enc(o.Patch))
		}
		file = strings.Join(parts, ";")
	}
	if o.Side != "" {
		return fmt.Sprintf("%s+%s:%s", o.endingToken(), o.Side, file)
	}
	return fmt.Sprintf("%s:%s", o.endingToken(), file)
}

func (o c14Outcome) allowed() bool { return o.Kind == "a" || o.Kind == "u" }

// c14GenOutcomeSide: an outcome whose run also leaves metric / object patch operation files behind
// in about a quarter of the cases (most of them not applicable: the hook task fails after a clean exit).
func c14GenOutcomeSide(rng *Rng, tag string) c14Outcome {
	o := c14GenOutcome(rng, tag)
	if rng.Chance(25) {
		o.Side = PickOne(rng, c14Sides)
	}
	return o
}

func c14GenOutcome(rng *Rng, tag string) c14Outcome {
	o := c14Outcome{}
	if rng.Chance(25) {
		// the process does not exit zero: an exit status 1..255, or a signal terminates it
		if rng.Chance(55) {
			o.Exit = PickOne(rng, c14ExitCodes)
		} else {
			o.Sig = PickOne(rng, c14Signals)
		}
	}
	if rng.Chance(30) {
		o.Noise = PickOne(rng, []string{"o", "e", "e", "oe"})
	}
	k := rng.Intn(100)
	switch {
	case k < 8:
		o.Kind = "e"
	case k < 12:
		o.Kind, o.Content = "g", "this is not json"
	case k < 16:
		o.Kind, o.Content = "t", `{"allowed": tr`
	case k < 20:
		o.Kind, o.Content = "y", PickOne(rng, []string{`{"allowed": "yes"}`, `{"allowed": 1}`, `{"allowed": true, "warnings": "w"}`, `[true]`})
	case k < 23:
		o.Kind, o.Content = "b", `{"allowed": true, "patch": "!!!not-base64!!!"}`
	case k < 28:
		o.Kind, o.Content = "z", PickOne(rng, []string{"{\"allowed\": true}\ngarbage", `{"allowed": true}}`, `{"allowed": true} x`})
	case k < 31:
		o.Kind, o.Content = "s", "{\"allowed\": true}\n{\"allowed\": false}"
	case k < 35:
		o.Kind, o.Content = "o", "{}"
	case k < 38:
		o.Kind, o.Content = "n", "null"
	case k < 42:
		o.Kind, o.Content = "u", `{"allowed": true, "unknownField": [1, 2]}`
	default:
		o.Kind = "d"
		if rng.Chance(60) {
			o.Kind = "a"
		}
		m := map[string]any{"allowed": o.Kind == "a"}
		if rng.Chance(60) {
			o.Msg = PickOne(rng, []string{"denied by " + tag, "msg-" + tag, "no way: " + tag + "!", "Ünïcode " + tag})
			m["message"] = o.Msg
		}
		if rng.Chance(40) {
			for i := rng.Range(1, 3); i > 0; i-- {
				o.Warns = append(o.Warns, fmt.Sprintf("warn %d of %s", i, tag))
			}
			m["warnings"] = o.Warns
		}
		if rng.Chance(45) {
			o.Patch = fmt.Sprintf(`[{"op":"add","path":"/metadata/labels/by","value":"%s"}]`, tag)
			m["patch"] = base64.StdEncoding.EncodeToString([]byte(o.Patch))
		}
		b, _ := json.Marshal(m)
		o.Content = string(b)
	}
	return o
}

type c14Hook struct {
	ID       int
	Bindings []c14Binding
	Out      map[string]c14Outcome // by binding name
	Opts     map[string]c14Opts    // by c14OptKey (kind|name): the optional fields of the binding's configuration
}

type c14Req struct {
	Path string
	Body string // ok | garbage | norequest
	UID  string
	Out  *c14Outcome // what the hook does for this request (nil: what it does for the binding)
}

// one step of a case: a single request, or several overlapping requests whose hook runs are
// interleaved as Sched says: "h<i>" request i is sent and handed over by the hook manager (its task with
// its binding context is built; the hook run has not begun), "p<i>" its run is prepared (Hook.Run wrote
// the run's files, the binding context file among them; the process waits in front of reading it) — both
// optional, "s<i>" alone goes through them —, "s<i>" its hook process starts, "w<i>" its hook writes its output files,
// "x<i>" its hook exits and the request is answered.
type c14Step struct {
	Reqs  []c14Req
	Sched []string
}

// c14RandSched: a random interleaving of h<i> < p<i> < s<i> < w<i> < x<i> for n requests
func c14RandSched(rng *Rng, n int) []string {
	next := make([]int, n)
	var out []string
	for len(out) < 5*n {
		i := rng.Intn(n)
		if next[i] >= 5 {
			continue
		}
		out = append(out, fmt.Sprintf("%c%d", "hpswx"[next[i]], i+1))
		next[i]++
	}
	return out
}

var c14ValidatingNames = []string{"a.example.com", "b.example.com", "my.hook.ex.io", "my-hook.ex.io", "x.y.z", "deny.all.io"}
var c14MutatingNames = []string{"myHook", "my-hook", "hooks/nextHook", "weird spaced Name", "UPPER", "mutate.example.com",
	"a.example.com", "x.y.z", "dashed---Name", "ünï.code", "a//b", "/lead", "trail/", "my.hook.ex.io"}

// the name of the object in the AdmissionRequest: the hook process logs what it finds there
func c14ReqName(q c14Req) string { return "pod-of-" + q.UID }

func c14RegisteredPath(name string) string { return "/hooks/" + string_helper.SafeURLString(name) }

// c14RunCase builds the operator over generated hooks and sends the requests through the real chain.
func c14RunCase(r *Run, c *Case, hooks []c14Hook, reqs []c14Req) {
	steps := make([]c14Step, len(reqs))
	for i, q := range reqs {
		steps[i] = c14Step{Reqs: []c14Req{q}}
	}
	c14RunSteps(r, c, hooks, steps)
}

func c14RunSteps(r *Run, c *Case, hooks []c14Hook, steps []c14Step) {
	shared := c14SharedHook(r)
	root := filepath.Join(r.Scratch, fmt.Sprintf("c14-%d", c.Idx))
	hooksDir, ctl, tmp := filepath.Join(root, "hooks"), filepath.Join(root, "ctl"), filepath.Join(root, "tmp")
	syncDir := filepath.Join(ctl, "sync")
	for _, d := range []string{hooksDir, ctl, tmp, syncDir} {
		_ = os.MkdirAll(d, 0o755)
	}
	defer os.RemoveAll(root)
	hookFile := func(id int) string { return fmt.Sprintf("h%d.sh", id) }
	rule := `"rules":[{"apiGroups":["*"],"apiVersions":["*"],"operations":["*"],"resources":["pods"]}]`
	for _, h := range hooks {
		var v, m []string
		var names []string
		seen := map[string]bool{}
		for _, b := range h.Bindings {
			nb, _ := json.Marshal(b.Name)
			item := fmt.Sprintf(`{"name":%s%s,%s}`, nb, h.Opts[c14OptKey(b)].json(), rule)
			if o := h.Opts[c14OptKey(b)]; o != (c14Opts{}) {
				c.Note("binding:options")
				if o.Group != "" {
					c.Note("binding:group:" + b.Kind)
				}
				if o.FailurePolicy != "" {
					c.Note("binding:failurePolicy=" + o.FailurePolicy)
				}
			}
			if b.Kind == "v" {
				v = append(v, item)
			} else {
				m = append(m, item)
			}
			if !seen[b.Name] {
				seen[b.Name] = true
				names = append(names, b.Name)
			}
		}
		cfg := `{"configVersion":"v1"`
		if len(v) > 0 {
			cfg += `,"kubernetesValidating":[` + strings.Join(v, ",") + `]`
		}
		if len(m) > 0 {
			cfg += `,"kubernetesMutating":[` + strings.Join(m, ",") + `]`
		}
		cfg += "}"
		f := hookFile(h.ID)
		_ = os.WriteFile(filepath.Join(ctl, f+".cfg"), []byte(cfg), 0o644)
		_ = os.WriteFile(filepath.Join(ctl, f+".names"), []byte(strings.Join(names, "\n")+"\n"), 0o644)
		for i, n := range names {
			h.Out[n].writeCtl(filepath.Join(ctl, fmt.Sprintf("%s.%d", f, i+1)), false)
		}
		if err := os.Link(shared, filepath.Join(hooksDir, f)); err != nil {
			c.Inconcl = "cannot link the hook script: " + err.Error()
			return
		}
		// the protocol line
		var toks []string
		for _, b := range h.Bindings {
			toks = append(toks, b.Kind+h.Opts[c14OptKey(b)].token()+"|"+c14Enc(b.Name)+"|"+h.Out[b.Name].token())
		}
		c.Op(fmt.Sprintf("hook %d %s", h.ID, strings.Join(toks, " ")), "ok")
	}
	_ = os.WriteFile(filepath.Join(ctl, "log"), nil, 0o644)

	op, handler, err := shell_operator.VerifC14NewOperator(hooksDir, tmp, filepath.Join(r.Scratch, "c14-ca.crt"))
	if err != nil {
		c.Op("setup", "setup-error "+strings.Join(strings.Fields(err.Error()), " "))
		return
	}
	defer op.VerifC14Stop()
	if handler == nil {
		c.Op("setup", "no-admission-handler")
		return
	}

	nameOf := func(hookFileName string, idx int) (int, string) {
		for _, h := range hooks {
			if hookFile(h.ID) != hookFileName {
				continue
			}
			seen := map[string]bool{}
			k := 0
			for _, b := range h.Bindings {
				if !seen[b.Name] {
					seen[b.Name] = true
					k++
					if k == idx {
						return h.ID, b.Name
					}
				}
			}
			return h.ID, "?"
		}
		return -1, "?"
	}

	send := func(q c14Req) *httptest.ResponseRecorder {
		var body string
		switch q.Body {
		case "ok":
			body = fmt.Sprintf(`{"apiVersion":"admission.k8s.io/v1","kind":"AdmissionReview","request":{"uid":%q,"kind":{"group":"","version":"v1","kind":"Pod"},"resource":{"group":"","version":"v1","resource":"pods"},"name":%q,"namespace":"default","operation":"CREATE","object":{"apiVersion":"v1","kind":"Pod","metadata":{"name":"p"}}}}`, q.UID, c14ReqName(q))
		case "garbage":
			body = `{"apiVersion": "admission.k8s.io/v1", "request": [`
		default:
			body = `{"apiVersion":"admission.k8s.io/v1","kind":"AdmissionReview"}`
		}
		req := httptest.NewRequest(http.MethodPost, "/x", bytes.NewReader([]byte(body)))
		req.URL.Path = q.Path
		req.URL.RawPath = ""
		req.Header.Set("Content-Type", "application/json")
		rec := httptest.NewRecorder()
		handler.Router.ServeHTTP(rec, req)
		return rec
	}

	// the op line and the oracle line of one answered request; logLines = what the hook processes
	// logged during the step, stepUIDs = the uids of the step's requests
	// own = the log line of the hook process that was started for this request, when the scripted
	// interleaving tells ("" = the lines that carry the request's uid)
	// what a hook process found in its binding context file (from its log line): for which binding of which
	// hook, the uid and the object name of the AdmissionRequest in it, the context's type, how many contexts
	type found struct {
		hid                   int
		name, uid, typ, rname string
		n                     int
	}
	parseFound := func(line string) found {
		f := strings.Fields(line)
		g := found{-1, "?", "?", "?", "?", -1}
		if len(f) >= 3 {
			idx, _ := strconv.Atoi(f[1])
			g.hid, g.name = nameOf(f[0], idx)
			g.uid = f[2]
		}
		if len(f) >= 6 {
			g.typ, g.rname = f[3], f[5]
			g.n, _ = strconv.Atoi(f[4])
		}
		return g
	}
	// the hand-over clause on one observed hook process: it was started for the request q
	handed := func(q c14Req, g found) {
		c.Oracle(fmt.Sprintf("handed path=%s uid=%s name=%s ghook=%d gbinding=%s guid=%s gtype=%s gn=%d gname=%s", c14Enc(q.Path), c14Enc(q.UID),
			c14Enc(c14ReqName(q)), g.hid, c14Enc(g.name), c14Enc(g.uid), c14Enc(g.typ), g.n, c14Enc(g.rname)))
		c.Note("handed:type=" + g.typ)
	}
	// plain = the request was the only one in flight
	report := func(q c14Req, rec *httptest.ResponseRecorder, logLines []string, stepUIDs map[string]bool, own string, plain bool) {
		// who ran
		ran := "-"
		var mine []string
		foreign := 0
		if plain && own == "" && len(logLines) == 1 {
			// nothing else is in flight: the only process that logged is the one that was started for this request
			own = logLines[0]
			handed(q, parseFound(own))
		}
		if own != "" {
			mine, logLines = []string{own}, nil
		}
		for _, l := range logLines {
			f := strings.Fields(l)
			if len(f) >= 3 && f[2] == q.UID {
				mine = append(mine, l)
			} else if len(f) < 3 || !stepUIDs[f[2]] {
				foreign++
			}
		}
		switch {
		case len(mine)+foreign > 1 && (len(mine) > 1 || foreign > 0):
			ran = "several-hooks-ran"
		case len(mine) == 1:
			f := strings.Fields(mine[0])
			idx, _ := strconv.Atoi(f[1])
			hid, name := nameOf(f[0], idx)
			ran = fmt.Sprintf("%d:%s", hid, c14Enc(name))
		case foreign == 1:
			ran = "another-request-was-handed-to-the-hook"
		}

		line := fmt.Sprintf("path=%s body=%s uid=%s", c14Enc(q.Path), q.Body, c14Enc(q.UID))
		var ans, oans string
		if rec == nil {
			ans = "hang"
			oans = "ans=hang"
		} else if rec.Code == http.StatusBadRequest {
			ans = "400 ran=" + ran
			oans = "ans=400 ran=" + ran
		} else if rec.Code != http.StatusOK {
			ans = fmt.Sprintf("http-%d", rec.Code)
			oans = "ans=" + ans
		} else {
			var rv struct {
				Response *struct {
					UID      string   `json:"uid"`
					Allowed  bool     `json:"allowed"`
					Warnings []string `json:"warnings"`
					Patch    []byte   `json:"patch"`
					PType    *string  `json:"patchType"`
					Status   *struct {
						Code    int    `json:"code"`
						Message string `json:"message"`
					} `json:"status"`
				} `json:"response"`
			}
			if err := json.Unmarshal(rec.Body.Bytes(), &rv); err != nil || rv.Response == nil {
				ans = "undecodable-review"
				oans = "ans=undecodable-review"
			} else {
				rs := rv.Response
				code, reason := 0, "-"
				if rs.Status != nil {
					code = rs.Status.Code
					switch {
					case code == 403 && rs.Status.Message == "Hook failed":
						reason = "hook-failed"
					case code == 403:
						reason = "hook:" + c14Enc(rs.Status.Message)
					case strings.HasPrefix(rs.Status.Message, "no hook found"):
						reason = "no-hook"
					case strings.HasPrefix(rs.Status.Message, "hook task prop error"):
						reason = "prop-error"
					default:
						reason = "other-error"
					}
				}
				ws := "-"
				if len(rs.Warnings) > 0 {
					e := make([]string, len(rs.Warnings))
					for i, w := range rs.Warnings {
						e[i] = c14Enc(w)
					}
					ws = strings.Join(e, "~")
				}
				patch := "-"
				if len(rs.Patch) > 0 {
					patch = c14Enc(string(rs.Patch))
				}
				pt := "-"
				if rs.PType != nil {
					pt = *rs.PType
				}
				fields := fmt.Sprintf("uid=%s allowed=%v code=%d reason=%s warnings=%s patch=%s ptype=%s ran=%s",
					c14Enc(rs.UID), rs.Allowed, code, reason, ws, patch, pt, ran)
				ans = "review " + fields
				oans = "ans=review r" + fields
				c.Note(fmt.Sprintf("answer:allowed=%v", rs.Allowed))
				c.Note("answer:reason=" + strings.SplitN(reason, ":", 2)[0])
			}
		}
		c.Op("req "+line, ans)
		c.Oracle("req " + line + " " + oans)
		c.Note("request:body=" + q.Body)
		if ran != "-" {
			c.Note("request:hook-ran")
			c.Nontrivial = true
		}
	}

	exists := func(p string) bool { _, err := os.Stat(p); return err == nil }
	touch := func(p string) { _ = os.WriteFile(p, nil, 0o644) }
	const waitMax = 20 * time.Second

	for _, st := range steps {
		_ = os.WriteFile(filepath.Join(ctl, "log"), nil, 0o644)
		uids := map[string]bool{}
		for _, q := range st.Reqs {
			uids[q.UID] = true
			if q.Out != nil {
				q.Out.writeCtl(filepath.Join(ctl, "uid."+q.UID), len(st.Sched) > 0)
				c.Op(fmt.Sprintf("reqout %s %s", c14Enc(q.UID), q.Out.token()), "ok")
				c.Note("outcome:file=" + q.Out.Kind)
				if q.Out.Sig != 0 {
					c.Note("outcome:ended-by-signal")
				} else if q.Out.Exit != 0 {
					c.Note("outcome:exit!=0")
				}
				if q.Out.Side != "" {
					c.Note("outcome:others=" + q.Out.Side)
				}
			}
		}
		recs := make([]*httptest.ResponseRecorder, len(st.Reqs))
		// overlapping requests: the index in the log of the line of the process started for request i (-1 = not known)
		procIdx := make([]int, len(st.Reqs))
		for i := range procIdx {
			procIdx[i] = -1
		}
		if len(st.Sched) == 0 {
			for i, q := range st.Reqs {
				recs[i] = send(q)
			}
		} else {
			// overlapping requests, interleaved as scripted
			n := len(st.Reqs)
			done := make([]chan *httptest.ResponseRecorder, n)
			arrive := make([]<-chan *verifsched.Arrival, n)
			parkedT := make([]*verifsched.Arrival, n) // parked between HandleAdmissionEvent and taskHandler
			parkedE := make([]string, n)              // its hook process waits at the gate in front of reading its binding context (token)
			// 0 not sent · 1 handed over (task built) · 2 run prepared · 3 hook process started
			stage := make([]int, n)
			hookRuns := make([]bool, n)
			stepDone := make(chan struct{})
			key := func(i int) string { return "admission/" + st.Reqs[i].UID }
			// the gate in front of every hook process of this step: the process announces itself (a token
			// file) before it reads its binding context and waits to be let go
			pregate := filepath.Join(syncDir, "pregate")
			touch(pregate)
			var execOpen atomic.Bool // true: let every process through
			seenTok := map[string]bool{}
			if old, _ := filepath.Glob(filepath.Join(syncDir, "proc.*.ready")); len(old) > 0 { // of earlier steps
				for _, f := range old {
					seenTok[f] = true
				}
			}
			newTokens := func() []string {
				m, _ := filepath.Glob(filepath.Join(syncDir, "proc.*.ready"))
				var out []string
				for _, f := range m {
					if !seenTok[f] {
						seenTok[f] = true
						out = append(out, strings.TrimSuffix(f, ".ready"))
					}
				}
				return out
			}
			logPath := filepath.Join(ctl, "log")
			// the complete lines the hook processes of this step have logged so far
			logNow := func() []string {
				b, _ := os.ReadFile(logPath)
				t := string(b)
				if k := strings.LastIndexByte(t, '\n'); k >= 0 {
					t = t[:k]
				} else {
					t = ""
				}
				var out []string
				for _, l := range strings.Split(t, "\n") {
					if l != "" {
						out = append(out, l)
					}
				}
				return out
			}
			logSeen := 0
			// sends request i; park: its goroutine stops at the yield point between HandleAdmissionEvent
			// (the task with its binding context is built) and taskHandler (the hook run)
			launch := func(i int, park bool) {
				if park {
					arrive[i] = sched.Subscribe(key(i))
				}
				done[i] = make(chan *httptest.ResponseRecorder, 1)
				go func(q c14Req, ch chan *httptest.ResponseRecorder) { ch <- send(q) }(st.Reqs[i], done[i])
			}
			// waits until cond holds ("ok"), request i is parked at the yield point asked for (want 'T' / 'E':
			// "parked") or request i is answered ("answered"); "" = timeout
			await := func(i int, want byte, cond func() bool) string {
				deadline := time.Now().Add(waitMax)
				for time.Now().Before(deadline) {
					if cond != nil && cond() {
						return "ok"
					}
					if execOpen.Load() {
						for _, tok := range newTokens() {
							touch(tok + ".go")
						}
					}
					if want == 'T' && arrive[i] != nil {
						select {
						case parkedT[i] = <-arrive[i]:
							return "parked"
						default:
						}
					}
					if want == 'E' {
						// one request moves at a time: the process that gets here is the run of request i
						if toks := newTokens(); len(toks) > 0 {
							parkedE[i] = toks[0]
							for _, t := range toks[1:] { // never expected: more than one process for one request
								touch(t + ".go")
							}
							return "parked"
						}
					}
					if recs[i] == nil && done[i] != nil {
						select {
						case recs[i] = <-done[i]:
						default:
						}
					}
					if recs[i] != nil {
						return "answered"
					}
					time.Sleep(2 * time.Millisecond)
				}
				return ""
			}
			// lets request i pass the first yield point (now, or as soon as it gets there)
			releaseT := func(i int) {
				if parkedT[i] != nil {
					parkedT[i].Release()
					parkedT[i] = nil
				} else if arrive[i] != nil && recs[i] == nil {
					go func(ch <-chan *verifsched.Arrival) {
						select {
						case a := <-ch:
							a.Release()
						case <-stepDone:
						}
					}(arrive[i])
				}
				arrive[i] = nil
			}
			// opens every gate of the step and collects the answers
			finishAll := func() {
				execOpen.Store(true)
				_ = os.Remove(pregate)
				for _, q := range st.Reqs {
					touch(filepath.Join(syncDir, q.UID+".write"))
					touch(filepath.Join(syncDir, q.UID+".go"))
				}
				for i := range st.Reqs {
					if parkedE[i] != "" {
						touch(parkedE[i] + ".go")
						parkedE[i] = ""
					}
					if stage[i] == 0 && done[i] == nil {
						launch(i, false)
					} else {
						releaseT(i)
					}
				}
				for i := range st.Reqs {
					await(i, 0, nil)
				}
			}
			// what the hook process started for request i found in its binding context (from its log line)
			var got found
			// moves request i forward to the stage asked for: "ok" (reached), "answered" (the request was
			// answered on the way), "" (a yield point / marker did not show up in time)
			advance := func(i, to int) string {
				for stage[i] < to {
					if recs[i] != nil {
						return "answered"
					}
					var r string
					switch stage[i] {
					case 0:
						launch(i, true)
						r = await(i, 'T', nil)
					case 1:
						releaseT(i)
						r = await(i, 'E', nil)
					case 2:
						before := logSeen
						if parkedE[i] != "" {
							touch(parkedE[i] + ".go")
							parkedE[i] = ""
						}
						r = await(i, 0, func() bool { return len(logNow()) > before })
						if r == "ok" {
							// exactly one request was let go: the new log line is its hook process
							lines := logNow()
							logSeen = len(lines)
							procIdx[i] = before
							got = parseFound(lines[before])
						}
					}
					switch r {
					case "parked", "ok":
						stage[i]++
					default:
						return r
					}
				}
				return "ok"
			}
			stuck, deviated := "", false
			for _, ev := range st.Sched {
				i, _ := strconv.Atoi(ev[1:])
				i--
				q := st.Reqs[i]
				sy := filepath.Join(syncDir, q.UID)
				switch ev[0] {
				case 'h', 'p':
					to, line, yes := 1, "ov hand", "handed"
					if ev[0] == 'p' {
						to, line, yes = 2, "ov prep", "prepared"
					}
					line = fmt.Sprintf("%s %s path=%s", line, c14Enc(q.UID), c14Enc(q.Path))
					switch advance(i, to) {
					case "ok":
						c.Op(line, yes)
					case "answered":
						c.Op(line, "answered")
					default:
						stuck = ev
					}
				case 's':
					startLine := fmt.Sprintf("ov start %s path=%s", c14Enc(q.UID), c14Enc(q.Path))
					if stage[i] >= 3 {
						break
					}
					switch advance(i, 3) {
					case "ok":
						if got.uid == q.UID {
							if await(i, 0, func() bool { return exists(sy + ".started") }) == "" {
								stuck = ev
								break
							}
							hookRuns[i] = true
							c.Op(startLine, "started")
						} else {
							c.Op(startLine, "handed-another-request")
							deviated = true
						}
						handed(q, got)
					case "answered":
						c.Op(startLine, "answered")
					default:
						stuck = ev
					}
				case 'w':
					touch(sy + ".write")
					if hookRuns[i] && await(i, 0, func() bool { return exists(sy + ".wrote") }) == "" {
						stuck = ev
					}
					c.Op("ov write "+c14Enc(q.UID), "ok")
				case 'x':
					touch(sy + ".go")
					if await(i, 0, nil) == "" {
						stuck = ev
					}
					c.Op("ov exit "+c14Enc(q.UID), "ok")
				}
				if stuck != "" || deviated {
					break
				}
			}
			if stuck != "" || deviated {
				// let every run end: the script cannot be followed any further
				finishAll()
			}
			for i := range st.Reqs {
				sched.Unsubscribe(key(i))
			}
			_ = os.Remove(pregate)
			close(stepDone)
			if stuck != "" {
				c.Inconcl = "the scripted interleaving got stuck at " + stuck + " (a yield point was not reached or a marker did not appear in time)"
				return
			}
			if deviated {
				c.Note("overlap:a-hook-process-was-handed-another-request")
			}
			c.Note(fmt.Sprintf("overlap:requests=%d", len(st.Reqs)))
		}
		logB, _ := os.ReadFile(filepath.Join(ctl, "log"))
		var logLines []string
		for _, l := range strings.Split(strings.TrimSpace(string(logB)), "\n") {
			if l != "" {
				logLines = append(logLines, l)
			}
		}
		for i, q := range st.Reqs {
			if procIdx[i] >= 0 && procIdx[i] < len(logLines) {
				report(q, recs[i], nil, uids, logLines[procIdx[i]], false)
				continue
			}
			var rest []string
			for k, l := range logLines {
				claimed := false
				for _, x := range procIdx {
					claimed = claimed || x == k
				}
				if !claimed {
					rest = append(rest, l)
				}
			}
			report(q, recs[i], rest, uids, "", len(st.Sched) == 0 && len(st.Reqs) == 1)
		}
	}
}

func c14Differential(c *Case, names []string, paths []string) {
	for _, n := range names {
		c.Op("safe "+c14Enc(n), c14Enc(string_helper.SafeURLString(n)))
	}
	for _, p := range paths {
		a, b := admission.VerifC14DetectConfigurationAndWebhook(p)
		c.Op("detect "+c14Enc(p), c14Enc(a)+"|"+c14Enc(b))
	}
}

func c14RandName(rng *Rng) string {
	alphabet := []string{"a", "b", "z", "A", "B", "Z", "0", "9", "-", "-", "/", ".", "_", " ", "é", "Я", "~", "%", "m", "H"}
	n := rng.Range(0, 10)
	var sb strings.Builder
	for i := 0; i < n; i++ {
		sb.WriteString(PickOne(rng, alphabet))
	}
	return sb.String()
}

func c14Variant(rng *Rng, p string) string {
	switch rng.Intn(12) {
	case 0:
		return p + "/"
	case 1:
		return strings.Replace(p, "/hooks/", "/hooks//", 1)
	case 2:
		return strings.ToUpper(p)
	case 3:
		return "/" + p
	case 4:
		return strings.Replace(p, "/hooks/", "/other/", 1)
	case 5:
		return p + "x"
	case 6:
		if len(p) > 8 {
			return p[:len(p)-1]
		}
	}
	return p
}

func runC14(r *Run) {
	r.Rule = "1-3 hooks with 1-3 validating/mutating bindings each (fully qualified names for validating; arbitrary names for mutating: upper case, blanks, slashes, empty path segments, non-ASCII; names whose SafeURL forms collide within and across hooks; about 40 % of the bindings carry optional configuration fields: group, failurePolicy Fail/Ignore, sideEffects, timeoutSeconds, labelSelector, namespace selector — and the complete table kind x group x failurePolicy x 12 classes of run), every AdmissionRequest names its own object and every hook process logs what it was handed (number of binding contexts, binding, context type, request uid and object name: checked for every request against the request sent and the kind of the registering binding), a scripted outcome per (hook, binding) or per request: how the hook process ends (exit 0; an exit status 1-255 incl. 126, 127, 128+n, 255; a signal — KILL, TERM, SEGV, ABRT, USR1, ALRM — that terminates it after it wrote its files; before it ends it may print a line on stdout and / or stderr) x response file (empty, not JSON, truncated, wrong types, bad base64, JSON followed by garbage, two documents, {}, null, unknown fields, allowed/denied with message/warnings/base64 JSONPatch); 3-6 requests per case: registered paths and variants (trailing/double slashes, upper case, other configuration id, prefix/suffix changes, unknown, /, /hooks), bodies valid / garbage / without request. A run may also leave metric / object patch operation files behind (a valid metric operation; a metrics file that is not JSON; a metric operation that does not validate; an unknown object patch operation; an unparsable object patch file) — all but the first make the hook task fail after a clean exit. Overlap cases: 2-4 requests in flight at the same time (mostly to the same hook and binding, also to other bindings of the same hook and to other hooks, each with its own uid and its own scripted outcome), the order of \"handed over by the hook manager (task and binding context built, hook run not begun) / run prepared (Hook.Run wrote the binding context file and the other files, process not started) / hook process started / hook writes its files / hook exits\" over all of them chosen at random and forced with a yield point in the event closure (verifsched admission.taskBuilt), a gate at the very start of the hook process (before it reads its binding context) and marker files; every hook process is checked against the request it was started for (which request uid, which hook and binding it found in its binding context), every answer against its own request. Everything runs through the real chain: chi router of the admission WebhookHandler (httptest) -> the event closure of initValidatingWebhookManager -> HookManager routing -> taskHandler -> Hook.Run -> bash -> response file -> AdmissionReview. Plus differential lines for SafeURLString and detectConfigurationAndWebhook on random strings. A case is non-trivial when a hook process ran; distinct = distinct op-line sequences."
	c14SharedHook(r)

	// ---- corpus
	r.One(0, func(c *Case, _ *Rng) {
		c.Desc = "corpus: a valid verdict followed by garbage in the response file"
		h := c14Hook{ID: 1, Bindings: []c14Binding{{"v", "a.example.com"}}, Out: map[string]c14Outcome{
			"a.example.com": {Kind: "z", Content: "{\"allowed\": true}\ngarbage"}}}
		c14RunCase(r, c, []c14Hook{h}, []c14Req{{"/hooks/a-example-com", "ok", "uid-1", nil}})
	})
	r.One(1, func(c *Case, _ *Rng) {
		c.Desc = "corpus: allowed with warnings and patch; denied with message; hook exits 1; empty file; unknown path"
		pt := `[{"op":"add","path":"/metadata/labels/x","value":"y"}]`
		h1 := c14Hook{ID: 1, Bindings: []c14Binding{{"v", "a.example.com"}, {"m", "myHook"}}, Out: map[string]c14Outcome{
			"a.example.com": {Kind: "d", Msg: "denied by a", Content: `{"allowed":false,"message":"denied by a"}`},
			"myHook": {Kind: "a", Warns: []string{"w 1", "w2"}, Patch: pt,
				Content: `{"allowed":true,"warnings":["w 1","w2"],"patch":"` + base64.StdEncoding.EncodeToString([]byte(pt)) + `"}`}}}
		h2 := c14Hook{ID: 2, Bindings: []c14Binding{{"v", "b.example.com"}, {"v", "x.y.z"}}, Out: map[string]c14Outcome{
			"b.example.com": {Exit: 1, Kind: "a", Content: `{"allowed":true}`},
			"x.y.z":         {Kind: "e"}}}
		c14RunCase(r, c, []c14Hook{h1, h2}, []c14Req{
			{"/hooks/my-hook", "ok", "u1", nil}, {"/hooks/a-example-com", "ok", "u2", nil}, {"/hooks/b-example-com", "ok", "u3", nil},
			{"/hooks/x-y-z", "ok", "u4", nil}, {"/hooks/nope", "ok", "u5", nil}, {"/hooks/my-hook", "garbage", "u6", nil}, {"/hooks/my-hook", "norequest", "u7", nil}})
	})
	r.One(2, func(c *Case, _ *Rng) {
		c.Desc = "corpus: colliding webhook ids (my.hook.ex.io / my-hook.ex.io / myHook) and an id with an empty path segment"
		mk := func(tag string, allow bool) c14Outcome {
			k := "d"
			if allow {
				k = "a"
			}
			return c14Outcome{Kind: k, Msg: "from " + tag, Content: fmt.Sprintf(`{"allowed":%v,"message":"from %s"}`, allow, tag)}
		}
		h1 := c14Hook{ID: 1, Bindings: []c14Binding{{"v", "my.hook.ex.io"}, {"m", "a//b"}}, Out: map[string]c14Outcome{"my.hook.ex.io": mk("h1", true), "a//b": mk("h1ab", true)}}
		h2 := c14Hook{ID: 2, Bindings: []c14Binding{{"v", "my-hook.ex.io"}}, Out: map[string]c14Outcome{"my-hook.ex.io": mk("h2", false)}}
		h3 := c14Hook{ID: 3, Bindings: []c14Binding{{"m", "myHook.ex.io"}}, Out: map[string]c14Outcome{"myHook.ex.io": mk("h3", true)}}
		c14RunCase(r, c, []c14Hook{h1, h2, h3}, []c14Req{{"/hooks/my-hook-ex-io", "ok", "u1", nil}, {"/hooks/a//b", "ok", "u2", nil}, {"/hooks/a/b", "ok", "u3", nil}})
	})

	r.One(3, func(c *Case, _ *Rng) {
		c.Desc = "corpus: the hook exits 0 with allowed=true, but an object patch / metric operation of the run cannot be applied (the hook task fails)"
		mk := func(side string, allow bool) c14Outcome {
			k := "d"
			if allow {
				k = "a"
			}
			return c14Outcome{Kind: k, Msg: "from the hook", Side: side, Content: fmt.Sprintf(`{"allowed":%v,"message":"from the hook"}`, allow)}
		}
		h := c14Hook{ID: 1, Bindings: []c14Binding{{"v", "gate.example.com"}, {"m", "mutGate"}}, Out: map[string]c14Outcome{
			"gate.example.com": mk("", true), "mutGate": mk("bad.mo", true)}}
		var reqs []c14Req
		for i, o := range []c14Outcome{mk("bad.po", true), mk("bad.mo", true), mk("bad.pg", true), mk("bad.ms", true), mk("ok.mv", true),
			mk("bad.mo", false), mk("ok.mv", false), {Kind: "e", Side: "bad.po"}, {Kind: "e", Side: "ok.mv"}} {
			o := o
			reqs = append(reqs, c14Req{"/hooks/gate-example-com", "ok", fmt.Sprintf("side-%d", i), &o})
		}
		reqs = append(reqs, c14Req{"/hooks/mut-gate", "ok", "side-m", nil}, c14Req{"/hooks/gate-example-com", "ok", "side-plain", nil})
		c14RunCase(r, c, []c14Hook{h}, reqs)
	})
	r.One(4, func(c *Case, _ *Rng) {
		c.Desc = "corpus: two overlapping requests to one hook: A writes a denial and keeps running, B writes allowed=true, A exits first"
		deny := c14Outcome{Kind: "d", Msg: "denied for A", Content: `{"allowed":false,"message":"denied for A"}`}
		allow := c14Outcome{Kind: "a", Warns: []string{"for B"}, Content: `{"allowed":true,"warnings":["for B"]}`}
		h := c14Hook{ID: 1, Bindings: []c14Binding{{"v", "gate.example.com"}}, Out: map[string]c14Outcome{"gate.example.com": {Kind: "e"}}}
		p := "/hooks/gate-example-com"
		c14RunSteps(r, c, []c14Hook{h}, []c14Step{
			{Reqs: []c14Req{{p, "ok", "ov-A", &deny}, {p, "ok", "ov-B", &allow}}, Sched: []string{"s1", "w1", "s2", "w2", "x1", "x2"}},
			{Reqs: []c14Req{{p, "ok", "ov-C", &deny}, {p, "ok", "ov-D", &allow}}, Sched: []string{"s1", "s2", "w1", "w2", "x1", "x2"}},
			{Reqs: []c14Req{{p, "ok", "ov-E", &allow}, {p, "ok", "ov-F", &deny}}, Sched: []string{"s1", "w1", "s2", "x1", "w2", "x2"}},
			{Reqs: []c14Req{{p, "ok", "ov-G", &allow}}},
		})
	})
	r.One(5, func(c *Case, _ *Rng) {
		c.Desc = "corpus: three overlapping requests over two hooks and an unknown path; one run exits 1, one leaves the file empty"
		deny := c14Outcome{Kind: "d", Msg: "no", Content: `{"allowed":false,"message":"no"}`}
		allow := c14Outcome{Kind: "a", Content: `{"allowed":true}`}
		allow1 := c14Outcome{Exit: 1, Kind: "a", Content: `{"allowed":true}`}
		empty := c14Outcome{Kind: "e"}
		h1 := c14Hook{ID: 1, Bindings: []c14Binding{{"v", "gate.example.com"}, {"m", "mutGate"}}, Out: map[string]c14Outcome{"gate.example.com": deny, "mutGate": deny}}
		h2 := c14Hook{ID: 2, Bindings: []c14Binding{{"v", "other.example.com"}}, Out: map[string]c14Outcome{"other.example.com": deny}}
		c14RunSteps(r, c, []c14Hook{h1, h2}, []c14Step{
			{Reqs: []c14Req{{"/hooks/gate-example-com", "ok", "ov3-A", &empty}, {"/hooks/mut-gate", "ok", "ov3-B", &allow}, {"/hooks/other-example-com", "ok", "ov3-C", &deny}},
				Sched: []string{"s1", "s2", "s3", "w2", "w3", "w1", "x1", "x3", "x2"}},
			{Reqs: []c14Req{{"/hooks/gate-example-com", "ok", "ov3-D", &allow1}, {"/hooks/nope", "ok", "ov3-E", &allow}, {"/hooks/gate-example-com", "ok", "ov3-F", &deny}},
				Sched: []string{"s1", "w1", "s2", "s3", "w3", "w2", "x2", "x1", "x3"}},
		})
	})

	r.One(6, func(c *Case, _ *Rng) {
		c.Desc = "corpus: requests handed over by the hook manager while earlier ones wait for their hook run: two to one binding, four over two bindings of one hook and another hook"
		deny := func(tag string) *c14Outcome {
			return &c14Outcome{Kind: "d", Msg: "denied " + tag, Content: fmt.Sprintf(`{"allowed":false,"message":"denied %s"}`, tag)}
		}
		allow := func(tag string) *c14Outcome {
			return &c14Outcome{Kind: "a", Warns: []string{"for " + tag}, Content: fmt.Sprintf(`{"allowed":true,"warnings":["for %s"]}`, tag)}
		}
		h1 := c14Hook{ID: 1, Bindings: []c14Binding{{"v", "gate.example.com"}, {"m", "mutGate"}}, Out: map[string]c14Outcome{"gate.example.com": {Kind: "e"}, "mutGate": {Kind: "e"}}}
		h2 := c14Hook{ID: 2, Bindings: []c14Binding{{"v", "other.example.com"}}, Out: map[string]c14Outcome{"other.example.com": {Kind: "e"}}}
		g, m, o := "/hooks/gate-example-com", "/hooks/mut-gate", "/hooks/other-example-com"
		c14RunSteps(r, c, []c14Hook{h1, h2}, []c14Step{
			{Reqs: []c14Req{{g, "ok", "hd-A", deny("A")}, {g, "ok", "hd-B", allow("B")}}, Sched: []string{"h1", "h2", "s1", "s2", "w1", "w2", "x1", "x2"}},
			{Reqs: []c14Req{{g, "ok", "hd-J", allow("J")}, {g, "ok", "hd-K", deny("K")}}, Sched: []string{"h1", "p1", "h2", "p2", "s1", "s2", "w2", "w1", "x2", "x1"}},
			{Reqs: []c14Req{{g, "ok", "hd-L", deny("L")}, {m, "ok", "hd-M", allow("M")}, {g, "ok", "hd-N", allow("N")}}, Sched: []string{"h1", "h2", "p2", "h3", "p3", "p1", "s3", "s1", "s2", "w1", "w2", "w3", "x3", "x2", "x1"}},
			{Reqs: []c14Req{{g, "ok", "hd-C", allow("C")}, {g, "ok", "hd-D", deny("D")}}, Sched: []string{"h2", "h1", "s2", "w2", "x2", "s1", "w1", "x1"}},
			{Reqs: []c14Req{{g, "ok", "hd-E", deny("E")}, {m, "ok", "hd-F", allow("F")}, {g, "ok", "hd-G", allow("G")}, {o, "ok", "hd-H", deny("H")}},
				Sched: []string{"h1", "h2", "h3", "h4", "s4", "s3", "s2", "s1", "w1", "w2", "w3", "w4", "x4", "x1", "x3", "x2"}},
			{Reqs: []c14Req{{m, "ok", "hd-I", allow("I")}}},
		})
	})

	r.One(7, func(c *Case, _ *Rng) {
		c.Desc = "corpus: the hook writes allowed=true and then does not exit zero: a signal terminates it (KILL, TERM, SEGV) or it exits 137 / 255 / 126"
		allowEnd := func(exit, sig int) *c14Outcome {
			return &c14Outcome{Exit: exit, Sig: sig, Kind: "a", Warns: []string{"written before the end"}, Content: `{"allowed":true,"warnings":["written before the end"]}`}
		}
		ok := c14Outcome{Kind: "a", Content: `{"allowed":true}`}
		h := c14Hook{ID: 1, Bindings: []c14Binding{{"v", "gate.example.com"}, {"m", "mutGate"}}, Out: map[string]c14Outcome{"gate.example.com": ok, "mutGate": ok}}
		g, m := "/hooks/gate-example-com", "/hooks/mut-gate"
		noisy := func(o *c14Outcome, n string) *c14Outcome { o.Noise = n; return o }
		c14RunCase(r, c, []c14Hook{h}, []c14Req{
			{g, "ok", "end-0", allowEnd(0, 0)}, {g, "ok", "end-kill", allowEnd(0, 9)}, {g, "ok", "end-term", allowEnd(0, 15)}, {m, "ok", "end-segv", allowEnd(0, 11)},
			{g, "ok", "end-137", allowEnd(137, 0)}, {m, "ok", "end-255", allowEnd(255, 0)}, {g, "ok", "end-126", allowEnd(126, 0)},
			{g, "ok", "end-0-stderr", noisy(allowEnd(0, 0), "e")}, {g, "ok", "end-kill-stderr", noisy(allowEnd(0, 9), "oe")}, {m, "ok", "end-1-stderr", noisy(allowEnd(1, 0), "e")},
			{g, "ok", "end-kill-empty", &c14Outcome{Sig: 9, Kind: "e"}}, {g, "ok", "end-plain", nil}})
	})

	// ---- how the hook process ends: every exit status class / terminating signal x response-file class x binding kind
	type c14End struct{ exit, sig int }
	var ends []c14End
	for _, e := range c14ExitCodes {
		ends = append(ends, c14End{e, 0})
	}
	for _, s := range c14Signals {
		ends = append(ends, c14End{0, s})
	}
	pte := `[{"op":"replace","path":"/spec/x","value":1}]`
	endFiles := []c14Outcome{
		{Kind: "e"}, {Kind: "g", Content: "this is not json"}, {Kind: "t", Content: `{"allowed": true`},
		{Kind: "a", Content: `{"allowed": true}`},
		{Kind: "a", Warns: []string{"w 1"}, Patch: pte, Content: `{"allowed": true, "warnings": ["w 1"], "patch": "` + base64.StdEncoding.EncodeToString([]byte(pte)) + `"}`},
		{Kind: "d", Msg: "no", Content: `{"allowed": false, "message": "no"}`},
		{Kind: "u", Content: `{"allowed": true, "unknownField": [1, 2]}`},
		{Kind: "a", Side: "ok.mv", Content: `{"allowed": true}`},
	}
	r.Cases(700, len(ends)*2, 0, func(c *Case, _ *Rng) {
		k := c.Idx - 700
		e := ends[k%len(ends)]
		kind := []string{"v", "m"}[k/len(ends)]
		name := "table.example.com"
		h := c14Hook{ID: 1, Bindings: []c14Binding{{kind, name}}, Out: map[string]c14Outcome{name: {Kind: "a", Content: `{"allowed": true}`}}}
		var reqs []c14Req
		for i, f := range endFiles {
			o := f
			o.Exit, o.Sig = e.exit, e.sig
			o.Noise = []string{"", "e", "oe"}[i%3] // the executor words the error of a failed run after what is on stderr
			reqs = append(reqs, c14Req{"/hooks/table-example-com", "ok", fmt.Sprintf("e-%d-%d", c.Idx, i), &o})
		}
		// afterwards the same hook exits zero with the same verdict: allowed
		reqs = append(reqs, c14Req{"/hooks/table-example-com", "ok", fmt.Sprintf("e-%d-plain", c.Idx), nil})
		if e.sig != 0 {
			c.Desc = fmt.Sprintf("ending table: signal %d terminates the hook process after it wrote its files, %s binding, every response-file class", e.sig, kind)
		} else {
			c.Desc = fmt.Sprintf("ending table: the hook process exits %d after it wrote its files, %s binding, every response-file class", e.exit, kind)
		}
		c14RunCase(r, c, []c14Hook{h}, reqs)
		c.Note("case:ending-table")
	})
	r.Extra["exhaustive_ending_table"] = fmt.Sprintf("%d exit statuses besides 0 (%v) and %d terminating signals (%v) x %d response-file classes x {validating, mutating}", len(c14ExitCodes), c14ExitCodes, len(c14Signals), c14Signals, len(endFiles))

	// ---- the optional fields of a binding's configuration: kind x group x failurePolicy x (sideEffects, timeoutSeconds,
	// selectors rotating), every class of run behind each: the request must be handed over as an admission review of the
	// binding's kind and every failure (of the hook, of its response, of applying its other output files) must be a denial
	ptb := `[{"op":"add","path":"/metadata/labels/c14","value":"set"}]`
	ptb64 := base64.StdEncoding.EncodeToString([]byte(ptb))
	optRuns := []c14Outcome{
		{Kind: "a", Warns: []string{"w 1"}, Patch: ptb, Content: `{"allowed": true, "warnings": ["w 1"], "patch": "` + ptb64 + `"}`},
		{Kind: "d", Msg: "no", Content: `{"allowed": false, "message": "no"}`},
		{Kind: "a", Side: "bad.po", Content: `{"allowed": true}`}, {Kind: "a", Side: "bad.pg", Content: `{"allowed": true}`},
		{Kind: "a", Side: "bad.mo", Content: `{"allowed": true}`}, {Kind: "a", Side: "bad.ms", Content: `{"allowed": true}`},
		{Kind: "a", Side: "ok.mv", Content: `{"allowed": true}`},
		{Kind: "a", Exit: 1, Content: `{"allowed": true}`}, {Kind: "a", Sig: 9, Content: `{"allowed": true}`},
		{Kind: "e"}, {Kind: "g", Content: "this is not json"}, {Kind: "e", Side: "bad.po"},
	}
	optGroups := []string{"", "main"}
	optPolicies := []string{"", "Fail", "Ignore"}
	r.Cases(800, 2*len(optGroups)*len(optPolicies), 0, func(c *Case, _ *Rng) {
		k := c.Idx - 800
		kind := []string{"v", "m"}[k%2]
		k /= 2
		o := c14Opts{Group: optGroups[k%len(optGroups)]}
		k /= len(optGroups)
		o.FailurePolicy = optPolicies[k]
		switch (c.Idx - 800) % 4 {
		case 1:
			o.SideEffects, o.Timeout = "NoneOnDryRun", 7
		case 2:
			o.Selector = true
		case 3:
			o.SideEffects, o.NsSelector = "None", true
		}
		b := c14Binding{kind, "table.example.com"}
		// a second binding of the other kind, with the same options, is registered next to it
		other := c14Binding{map[string]string{"v": "m", "m": "v"}[kind], "other.example.com"}
		h := c14Hook{ID: 1, Bindings: []c14Binding{b, other}, Out: map[string]c14Outcome{b.Name: {Kind: "a", Content: `{"allowed": true}`}, other.Name: {Kind: "d", Msg: "other", Content: `{"allowed": false, "message": "other"}`}},
			Opts: map[string]c14Opts{c14OptKey(b): o, c14OptKey(other): o}}
		var reqs []c14Req
		for i, f := range optRuns {
			f := f
			reqs = append(reqs, c14Req{"/hooks/table-example-com", "ok", fmt.Sprintf("o-%d-%d", c.Idx, i), &f})
		}
		reqs = append(reqs, c14Req{"/hooks/other-example-com", "ok", fmt.Sprintf("o-%d-other", c.Idx), nil}, c14Req{"/hooks/table-example-com", "ok", fmt.Sprintf("o-%d-plain", c.Idx), nil})
		c.Desc = fmt.Sprintf("options table: %s binding with %q, every class of run", kind, o.json())
		c14RunCase(r, c, []c14Hook{h}, reqs)
		c.Note("case:options-table")
	})
	r.Extra["exhaustive_options_table"] = fmt.Sprintf("{validating, mutating} x group {none, set} x failurePolicy {none, Fail, Ignore} (sideEffects / timeoutSeconds / labelSelector / namespace selector rotating) x %d classes of run (allowed with warnings and patch, denied, allowed + 4 kinds of other output files that cannot be applied, + a valid metric operation, exit 1, SIGKILL, empty / malformed response file)", len(optRuns))

	r.One(8, func(c *Case, _ *Rng) {
		c.Desc = "corpus: bindings with optional configuration fields: a mutating and a validating binding with a group, a binding with failurePolicy Ignore whose run leaves an object patch behind that cannot be applied"
		allow := func(side string) *c14Outcome {
			return &c14Outcome{Kind: "a", Patch: ptb, Side: side, Content: `{"allowed": true, "patch": "` + ptb64 + `"}`}
		}
		ok := c14Outcome{Kind: "a", Content: `{"allowed":true}`}
		lab, gate, len_, str := c14Binding{"m", "labeler"}, c14Binding{"v", "gate.example.com"}, c14Binding{"v", "lenient.example.com"}, c14Binding{"m", "strictMut"}
		h1 := c14Hook{ID: 1, Bindings: []c14Binding{gate, lab}, Out: map[string]c14Outcome{gate.Name: ok, lab.Name: ok},
			Opts: map[string]c14Opts{c14OptKey(lab): {Group: "main"}, c14OptKey(gate): {Group: "main"}}}
		h2 := c14Hook{ID: 2, Bindings: []c14Binding{len_, str}, Out: map[string]c14Outcome{len_.Name: ok, str.Name: ok},
			Opts: map[string]c14Opts{c14OptKey(len_): {FailurePolicy: "Ignore"}, c14OptKey(str): {FailurePolicy: "Ignore", Group: "second", Timeout: 5}}}
		c14RunCase(r, c, []c14Hook{h1, h2}, []c14Req{
			{"/hooks/labeler", "ok", "opt-lab", allow("")}, {"/hooks/gate-example-com", "ok", "opt-gate", nil}, {"/hooks/labeler", "ok", "opt-lab-plain", nil},
			{"/hooks/lenient-example-com", "ok", "opt-len-po", allow("bad.po")}, {"/hooks/lenient-example-com", "ok", "opt-len-mo", allow("bad.mo")},
			{"/hooks/strict-mut", "ok", "opt-str-pg", allow("bad.pg")}, {"/hooks/strict-mut", "ok", "opt-str-ok", allow("ok.mv")},
			{"/hooks/lenient-example-com", "ok", "opt-len-exit1", &c14Outcome{Kind: "a", Exit: 1, Content: `{"allowed":true}`}},
			{"/hooks/lenient-example-com", "ok", "opt-len-plain", nil}})
	})

	// ---- the complete outcome table: every response-file content class x exit code x binding kind
	pt := `[{"op":"replace","path":"/spec/x","value":1}]`
	pt64 := base64.StdEncoding.EncodeToString([]byte(pt))
	table := []c14Outcome{
		{Kind: "e"},
		{Kind: "g", Content: "this is not json"}, {Kind: "g", Content: " "}, {Kind: "g", Content: "\n"},
		{Kind: "t", Content: `{"allowed": tr`}, {Kind: "t", Content: `{"allowed": true`},
		{Kind: "y", Content: `{"allowed": "yes"}`}, {Kind: "y", Content: `{"allowed": 1}`}, {Kind: "y", Content: `{"allowed": true, "warnings": "w"}`},
		{Kind: "y", Content: `[true]`}, {Kind: "y", Content: `"allowed"`}, {Kind: "y", Content: `{"allowed": true, "message": 5}`},
		{Kind: "b", Content: `{"allowed": true, "patch": "!!!not-base64!!!"}`}, {Kind: "b", Content: `{"allowed": true, "patch": 5}`},
		{Kind: "z", Content: "{\"allowed\": true}\ngarbage"}, {Kind: "z", Content: `{"allowed": true}}`}, {Kind: "z", Content: `{"allowed": true} x`},
		{Kind: "z", Content: `{"allowed": true}]`}, {Kind: "s", Content: "{\"allowed\": true}\n{\"allowed\": false}"}, {Kind: "s", Content: `{"allowed": true}{"allowed": true}`},
		{Kind: "o", Content: "{}"}, {Kind: "n", Content: "null"}, {Kind: "u", Content: `{"allowed": true, "unknownField": [1, 2]}`},
		{Kind: "a", Content: `{"allowed": true}`}, {Kind: "a", Content: "  {\"allowed\": true}\n\n"}, {Kind: "a", Content: `{"Allowed": true}`},
		{Kind: "d", Content: `{"allowed": false}`},
		{Kind: "a", Msg: "fine by me", Content: `{"allowed": true, "message": "fine by me"}`},
		{Kind: "d", Msg: "no", Content: `{"allowed": false, "message": "no"}`},
		{Kind: "a", Warns: []string{"w 1", "w2"}, Content: `{"allowed": true, "warnings": ["w 1", "w2"]}`},
		{Kind: "d", Msg: "no", Warns: []string{"w"}, Content: `{"allowed": false, "message": "no", "warnings": ["w"]}`},
		{Kind: "a", Patch: pt, Content: `{"allowed": true, "patch": "` + pt64 + `"}`},
		{Kind: "d", Msg: "no", Patch: pt, Content: `{"allowed": false, "message": "no", "patch": "` + pt64 + `"}`},
		{Kind: "a", Content: `{"allowed": true, "patch": ""}`}, {Kind: "a", Content: `{"allowed": true, "warnings": []}`},
		{Kind: "d", Content: `{"allowed": null}`},
	}
	exits := []int{0, 1}
	kinds := []string{"v", "m"}
	r.Cases(200, len(table)*len(exits)*len(kinds), 0, func(c *Case, _ *Rng) {
		k := c.Idx - 200
		o := table[k%len(table)]
		o.Exit = exits[(k/len(table))%len(exits)]
		kind := kinds[k/(len(table)*len(exits))]
		name := "table.example.com"
		h := c14Hook{ID: 1, Bindings: []c14Binding{{kind, name}}, Out: map[string]c14Outcome{name: o}}
		c.Desc = fmt.Sprintf("table: exit %d, %s binding, response file %q", o.Exit, kind, o.Content)
		c14RunCase(r, c, []c14Hook{h}, []c14Req{
			{"/hooks/table-example-com", "ok", fmt.Sprintf("t-%d-a", k), nil},
			{"/hooks/table-example-com/", "ok", fmt.Sprintf("t-%d-b", k), nil},
			{"/hooks/table.example.com", "ok", fmt.Sprintf("t-%d-c", k), nil},
			{"/hooks/table-example-com", "garbage", fmt.Sprintf("t-%d-d", k), nil}})
		c.Note("case:outcome-table")
	})
	r.Exhaust = true
	r.Extra["exhaustive_scope"] = fmt.Sprintf("the complete table of %d response-file contents (every content class) x exit {0,1} x {validating, mutating} binding, each asked on the registered path, with a trailing slash, on a non-registered spelling and with a garbage body", len(table))

	// ---- the other output files of a run: every class x response-file class x exit code x binding kind
	sideTable := []c14Outcome{
		{Kind: "e"}, {Kind: "g", Content: "this is not json"},
		{Kind: "a", Content: `{"allowed": true}`},
		{Kind: "a", Warns: []string{"w 1"}, Patch: pt, Content: `{"allowed": true, "warnings": ["w 1"], "patch": "` + pt64 + `"}`},
		{Kind: "d", Msg: "no", Content: `{"allowed": false, "message": "no"}`},
		{Kind: "u", Content: `{"allowed": true, "unknownField": [1, 2]}`},
	}
	r.Cases(400, len(c14Sides)*len(sideTable)*len(exits)*len(kinds), 0, func(c *Case, _ *Rng) {
		k := c.Idx - 400
		o := sideTable[k%len(sideTable)]
		k /= len(sideTable)
		o.Side = c14Sides[k%len(c14Sides)]
		k /= len(c14Sides)
		o.Exit = exits[k%len(exits)]
		kind := kinds[k/len(exits)]
		name := "table.example.com"
		h := c14Hook{ID: 1, Bindings: []c14Binding{{kind, name}}, Out: map[string]c14Outcome{name: o}}
		c.Desc = fmt.Sprintf("side table: exit %d, %s binding, response file %q, other output files %s", o.Exit, kind, o.Content, o.Side)
		c14RunCase(r, c, []c14Hook{h}, []c14Req{
			{"/hooks/table-example-com", "ok", fmt.Sprintf("s-%d-a", c.Idx), nil},
			{"/hooks/table-example-com/", "ok", fmt.Sprintf("s-%d-b", c.Idx), nil}})
		c.Note("case:side-table")
		c.Note("outcome:others=" + o.Side)
	})
	r.Extra["exhaustive_side_table"] = fmt.Sprintf("%d classes of other output files (valid metric operation, metrics file not JSON, metric operation that does not validate, unknown object patch operation, unparsable object patch file) x %d response-file classes x exit {0,1} x {validating, mutating}", len(c14Sides), len(sideTable))

	if r.Thorough() {
		// every pair of single-binding hooks over a pool of names that collide in several ways
		pool := []c14Binding{{"v", "my.hook.ex.io"}, {"v", "my-hook.ex.io"}, {"v", "other.ex.io"}, {"m", "myHook.ex.io"},
			{"m", "my.hook.ex.io"}, {"m", "my-hook-ex-io"}, {"m", "MY.HOOK.EX.IO"}, {"m", "my hook ex io"}, {"m", "other.ex.io"},
			{"m", "a//b"}, {"m", "a/b"}, {"m", "a/B"}}
		mk := func(tag string, allow bool) c14Outcome {
			k := "d"
			if allow {
				k = "a"
			}
			return c14Outcome{Kind: k, Msg: "from " + tag, Content: fmt.Sprintf(`{"allowed":%v,"message":"from %s"}`, allow, tag)}
		}
		r.Cases(5000, len(pool)*len(pool), 0, func(c *Case, _ *Rng) {
			k := c.Idx - 5000
			b1, b2 := pool[k%len(pool)], pool[k/len(pool)]
			h1 := c14Hook{ID: 1, Bindings: []c14Binding{b1}, Out: map[string]c14Outcome{b1.Name: mk("h1", true)}}
			h2 := c14Hook{ID: 2, Bindings: []c14Binding{b2}, Out: map[string]c14Outcome{b2.Name: mk("h2", false)}}
			c.Desc = fmt.Sprintf("pairs: hook 1 %s %q, hook 2 %s %q", b1.Kind, b1.Name, b2.Kind, b2.Name)
			c14RunCase(r, c, []c14Hook{h1, h2}, []c14Req{
				{c14RegisteredPath(b1.Name), "ok", fmt.Sprintf("p-%d-1", k), nil},
				{c14RegisteredPath(b2.Name), "ok", fmt.Sprintf("p-%d-2", k), nil},
				{"/hooks/a/b", "ok", fmt.Sprintf("p-%d-3", k), nil}})
			c.Note("case:pairs")
		})
		r.Extra["exhaustive_pairs"] = fmt.Sprintf("all %d ordered pairs of single-binding hooks over %d names/kinds that collide after SafeURLString in several ways", len(pool)*len(pool), len(pool))
	}

	// ---- differential: SafeURLString / detectConfigurationAndWebhook
	r.Cases(50, r.N(40, 400), 0, func(c *Case, rng *Rng) {
		var names, paths []string
		for i := 0; i < 25; i++ {
			names = append(names, c14RandName(rng))
			p := "/" + c14RandName(rng)
			if rng.Bool() {
				p = "/hooks/" + string_helper.SafeURLString(c14RandName(rng))
			}
			paths = append(paths, strings.ReplaceAll(c14Variant(rng, p), " ", "_"))
		}
		names = append(names, c14MutatingNames...)
		c14Differential(c, names, paths)
		c.Nontrivial = true
		c.Note("case:differential")
	})

	// ---- the chain
	n := r.N(300, 3000)
	r.Cases(1000, n, 0, func(c *Case, rng *Rng) {
		nh := rng.Range(1, 3)
		var hooks []c14Hook
		var regPaths []string
		for id := 1; id <= nh; id++ {
			h := c14Hook{ID: id, Out: map[string]c14Outcome{}, Opts: map[string]c14Opts{}}
			nb := rng.Range(1, 3)
			for i := 0; i < nb; i++ {
				b := c14Binding{Kind: "v", Name: PickOne(rng, c14ValidatingNames)}
				if rng.Chance(50) {
					b = c14Binding{Kind: "m", Name: PickOne(rng, c14MutatingNames)}
				}
				dup := false
				for _, x := range h.Bindings {
					if x == b {
						dup = true
					}
				}
				if dup {
					continue
				}
				h.Bindings = append(h.Bindings, b)
				h.Opts[c14OptKey(b)] = c14GenOpts(rng)
				if _, ok := h.Out[b.Name]; !ok {
					h.Out[b.Name] = c14GenOutcomeSide(rng, fmt.Sprintf("h%d.%d", id, i))
					c.Note("outcome:file=" + h.Out[b.Name].Kind)
					if h.Out[b.Name].Side != "" {
						c.Note("outcome:others=" + h.Out[b.Name].Side)
					}
					if o := h.Out[b.Name]; o.Sig != 0 {
						c.Note("outcome:ended-by-signal")
					} else if o.Exit != 0 {
						c.Note("outcome:exit!=0")
					}
				}
				regPaths = append(regPaths, c14RegisteredPath(b.Name))
			}
			if len(h.Bindings) > 0 {
				hooks = append(hooks, h)
			}
		}
		if len(hooks) == 0 {
			return
		}
		var reqs []c14Req
		for i, nq := 0, rng.Range(3, 6); i < nq; i++ {
			p := PickOne(rng, regPaths)
			if rng.Chance(30) {
				p = c14Variant(rng, p)
			}
			if rng.Chance(6) {
				p = PickOne(rng, []string{"/", "/hooks", "/hooks/", "/hooks/nope", "//", "/hooks/a-example-com/extra"})
			}
			body := "ok"
			if k := rng.Intn(100); k < 7 {
				body = "garbage"
			} else if k < 13 {
				body = "norequest"
			}
			reqs = append(reqs, c14Req{Path: p, Body: body, UID: fmt.Sprintf("uid-%d-%d", c.Idx, i)})
		}
		c14RunCase(r, c, hooks, reqs)
		c.Note(fmt.Sprintf("case:hooks=%d", len(hooks)))
	})

	// ---- overlapping requests
	r.Cases(10000, r.N(150, 1500), 0, func(c *Case, rng *Rng) {
		names := []c14Binding{{"v", "gate.example.com"}, {"v", "other.example.com"}, {"m", "mutGate"}, {"m", "hooks/nextHook"}, {"v", "x.y.z"}, {"m", "UPPER"}}
		rng.Shuffle(len(names), func(i, j int) { names[i], names[j] = names[j], names[i] })
		nh := rng.Range(1, 2)
		var hooks []c14Hook
		var paths []string
		k := 0
		for id := 1; id <= nh; id++ {
			h := c14Hook{ID: id, Out: map[string]c14Outcome{}, Opts: map[string]c14Opts{}}
			for i, nb := 0, rng.Range(1, 2); i < nb; i++ {
				b := names[k]
				k++
				h.Bindings = append(h.Bindings, b)
				h.Opts[c14OptKey(b)] = c14GenOpts(rng)
				h.Out[b.Name] = c14GenOutcome(rng, fmt.Sprintf("h%d.%d", id, i))
				paths = append(paths, c14RegisteredPath(b.Name))
			}
			hooks = append(hooks, h)
		}
		var steps []c14Step
		u := 0
		for s, ns := 0, rng.Range(1, 2); s < ns; s++ {
			st := c14Step{}
			nq := 2 // 2-4 requests in flight
			if k := rng.Intn(100); k < 20 {
				nq = 4
			} else if k < 50 {
				nq = 3
			}
			target := PickOne(rng, paths)
			for i := 0; i < nq; i++ {
				p := target // mostly: all to the same hook and binding
				if rng.Chance(30) {
					p = PickOne(rng, paths)
				}
				if rng.Chance(5) {
					p = PickOne(rng, []string{"/hooks/nope", "/other/" + strings.TrimPrefix(p, "/hooks/"), p + "/"})
				}
				var o c14Outcome
				switch rng.Intn(10) {
				case 0, 1, 2, 3:
					o = c14Outcome{Kind: "a", Content: `{"allowed":true}`}
					if rng.Bool() {
						o.Warns = []string{fmt.Sprintf("warn for %d", u)}
						o.Content = fmt.Sprintf(`{"allowed":true,"warnings":["warn for %d"]}`, u)
					}
				case 4, 5, 6:
					o = c14Outcome{Kind: "d", Msg: fmt.Sprintf("denied for %d", u), Content: fmt.Sprintf(`{"allowed":false,"message":"denied for %d"}`, u)}
				default:
					o = c14GenOutcomeSide(rng, fmt.Sprintf("q%d", u))
				}
				st.Reqs = append(st.Reqs, c14Req{Path: p, Body: "ok", UID: fmt.Sprintf("ov-%d-%d", c.Idx, u), Out: &o})
				u++
			}
			st.Sched = c14RandSched(rng, nq)
			steps = append(steps, st)
			if rng.Chance(50) {
				// a plain request afterwards: the files of the overlapping runs are gone
				steps = append(steps, c14Step{Reqs: []c14Req{{Path: PickOne(rng, paths), Body: "ok", UID: fmt.Sprintf("ov-%d-%d", c.Idx, u)}}})
				u++
			}
		}
		var ds []string
		for _, st := range steps {
			if len(st.Sched) > 0 {
				ds = append(ds, fmt.Sprintf("%d requests in flight, order %s", len(st.Reqs), strings.Join(st.Sched, ",")))
			} else {
				ds = append(ds, "1 plain request")
			}
		}
		c.Desc = fmt.Sprintf("overlap: %d hooks; %s", len(hooks), strings.Join(ds, "; "))
		c14RunSteps(r, c, hooks, steps)
		c.Note("case:overlap")
	})
}
