package main

import (
	hookconfig "github.com/flant/shell-operator/pkg/hook/config"
	"github.com/flant/shell-operator/pkg/kube/object_patch"
)

// warmCaches fills the package-level schema caches of the implementation before a suite starts.
// They are unsynchronised maps filled on first use. shell-operator fills the hook-config one from a
// single goroutine (Manager.Init loads the hooks one after the other), but a suite that assembles
// several operators in ONE process at the same time (parallel cases) would fill it from several —
// `fatal error: concurrent map writes` at pkg/hook/config/schemas.go, an artefact of the harness and
// not a behaviour of one operator (seen once: C17 quick, seed 5, operator family). The object_patch
// cache is warmed for the same reason; that one CAN be filled from two queues at once in a real
// operator (two hooks whose first patch files arrive together) — outside the quantifier of every
// property here, recorded in DESIGN.md §12.1 as an observation.
func warmCaches() {
	for name := range hookconfig.Schemas {
		hookconfig.GetSchema(name)
	}
	for name := range object_patch.Schemas {
		object_patch.GetSchema(name)
	}
}
