package main

import (
	"context"
	"encoding/json"
	"fmt"
	"io"
	"os"
	"path/filepath"
	"sort"
	"strconv"
	"strings"
	"sync"
	"syscall"
	"time"

	"github.com/flant/kube-client/fake"
	"github.com/flant/kube-client/manifest"

	"github.com/flant/shell-operator/pkg/hook/task_metadata"
	htypes "github.com/flant/shell-operator/pkg/hook/types"
	metricstorage "github.com/flant/shell-operator/pkg/metric_storage"
	shell_operator "github.com/flant/shell-operator/pkg/shell-operator"
	"github.com/flant/shell-operator/pkg/task"
	"github.com/flant/shell-operator/pkg/task/queue"
	eb "github.com/flant/shell-operator/pkg/utils/exponential_backoff"
)

func init() { suites["c04"] = runC04 }

// ================================================================ part 1: CalculateDelay

func c04Delays(c *Case, r *Run) {
	c.Desc = "CalculateDelay: constants and membership of observed delays in the model's set"
	c.Nontrivial = true
	c.Op("facts", fmt.Sprintf("expCount=%d max=%d rand=%d factor=%d init=%d stale=false",
		eb.ExponentialCalculationsCount, eb.MaxExponentialBackoffDelay.Nanoseconds(), eb.ExponentialDelayRandomMs,
		int(eb.ExponentialDelayFactor), queue.DefaultInitialDelayOnFailedTask.Nanoseconds()))
	inits := []time.Duration{queue.DefaultInitialDelayOnFailedTask, time.Millisecond, 3300 * time.Millisecond, 0,
		250 * time.Millisecond, 31950 * time.Millisecond, 32 * time.Second, 40 * time.Second}
	n := r.N(12, 120)
	for _, init := range inits {
		for k := 0; k <= 40; k++ {
			seen := map[int64]bool{}
			for i := 0; i < n; i++ {
				got := eb.CalculateDelay(init, k).Nanoseconds()
				if seen[got] {
					continue
				}
				seen[got] = true
				args := fmt.Sprintf("init=%d k=%d got=%d", init.Nanoseconds(), k, got)
				c.Op("delay "+args, "member")
				if init <= eb.MaxExponentialBackoffDelay {
					c.Oracle("delay " + args)
				}
			}
		}
	}
	// the closure the queues are created with
	q := queue.NewTasksQueue()
	for k := 0; k <= 12; k++ {
		for i := 0; i < n; i++ {
			got := q.ExponentialBackoffFn(k).Nanoseconds()
			args := fmt.Sprintf("init=%d k=%d got=%d", queue.DefaultInitialDelayOnFailedTask.Nanoseconds(), k, got)
			c.Op("delay "+args, "member")
			c.Oracle("delay " + args)
		}
	}
}

// ================================================================ part 2: the real operator

type c04Binding struct { // a schedule binding
	Name    string // unique key of the binding inside the case
	Crontab string
	AF      bool
	Group   int
	CfgName string   // the `name:` of the configuration: "" = Name, "-" = no name (default name "schedule"), else a name other bindings may share
	Snaps   []string // includeSnapshotsFrom: names of kubernetes bindings of the hook (unambiguous ones)
}

// c04CfgName is the binding name the operator uses (binding names need not be unique).
func c04CfgName(key, cfg, dflt string) string {
	switch cfg {
	case "":
		return key
	case "-":
		return dflt
	}
	return cfg
}

func (b c04Binding) bname() string { return c04CfgName(b.Name, b.CfgName, "schedule") }

func (b c04KBinding) bname() string { return c04CfgName(b.Name, b.CfgName, "kubernetes") }

func c04NameLine(cfg, key string) string {
	if cfg == "-" {
		return "- "
	}
	return fmt.Sprintf("- name: %s\n  ", c04CfgName(key, cfg, ""))
}

type c04KBinding struct { // a kubernetes binding (ConfigMaps labelled verif=<Name> in the case's namespace)
	Name    string // unique key: namespace and label of the binding's objects
	AF      bool
	Group   int
	EOS     bool     // executeHookOnSynchronization
	CfgName string   // see c04Binding.CfgName (default name "kubernetes")
	Snaps   []string // includeSnapshotsFrom (see c04Binding.Snaps)
	Jq      bool     // jqFilter: ".data" — the hook is shown a filterResult next to every object
}

type c04Hook struct {
	Name      string
	Num       int
	OnStartup int // 0 = none, else the order
	Queue     int // 0 = main, 1 = q1, …
	Bindings  []c04Binding
	KBindings []c04KBinding
	V0        bool // v0 configuration (JSON): onStartup + schedule only, main queue, no groups; no combining
	Extra     string // further top-level sections of a v1 configuration (YAML), e.g. webhook bindings (C07)
}

func c04QueueName(n int) string {
	if n == 0 {
		return "main"
	}
	return "q" + strconv.Itoa(n)
}

func c04GroupName(g int) string {
	if g == 0 {
		return ""
	}
	return "g" + strconv.Itoa(g)
}

func c04GroupNum(s string) int {
	if s == "" || s == "-" {
		return 0
	}
	g, _ := strconv.Atoi(strings.TrimPrefix(s, "g"))
	return g
}

func (h c04Hook) script(dir, ns string) string {
	var b strings.Builder
	b.WriteString("#!/usr/bin/env bash\n")
	if h.V0 {
		b.WriteString("if [[ \"$1\" == \"--config\" ]]; then\ncat <<'EOF'\n{")
		if h.OnStartup > 0 {
			fmt.Fprintf(&b, "\"onStartup\": %d, ", h.OnStartup)
		}
		b.WriteString("\"schedule\": [")
		for i, bd := range h.Bindings {
			if i > 0 {
				b.WriteString(", ")
			}
			fmt.Fprintf(&b, "{\"name\": %q, \"crontab\": %q, \"allowFailure\": %v}", bd.Name, bd.Crontab, bd.AF)
		}
		b.WriteString("]}\nEOF\nexit 0\nfi\n")
		return b.String() + h.body(dir)
	}
	b.WriteString("if [[ \"$1\" == \"--config\" ]]; then\ncat <<'EOF'\nconfigVersion: v1\n")
	if h.OnStartup > 0 {
		fmt.Fprintf(&b, "onStartup: %d\n", h.OnStartup)
	}
	if len(h.Bindings) > 0 {
		b.WriteString("schedule:\n")
		for _, bd := range h.Bindings {
			fmt.Fprintf(&b, "%scrontab: \"%s\"\n  allowFailure: %v\n", c04NameLine(bd.CfgName, bd.Name), bd.Crontab, bd.AF)
			if h.Queue != 0 {
				fmt.Fprintf(&b, "  queue: %s\n", c04QueueName(h.Queue))
			}
			if bd.Group != 0 {
				fmt.Fprintf(&b, "  group: %s\n", c04GroupName(bd.Group))
			}
			if len(bd.Snaps) > 0 {
				fmt.Fprintf(&b, "  includeSnapshotsFrom: [%s]\n", strings.Join(bd.Snaps, ", "))
			}
		}
	}
	if len(h.KBindings) > 0 {
		b.WriteString("kubernetes:\n")
		for _, kb := range h.KBindings {
			fmt.Fprintf(&b, "%sapiVersion: v1\n  kind: ConfigMap\n  allowFailure: %v\n  executeHookOnSynchronization: %v\n", c04NameLine(kb.CfgName, kb.Name), kb.AF, kb.EOS)
			fmt.Fprintf(&b, "  namespace:\n    nameSelector:\n      matchNames: [%s-%s]\n  labelSelector:\n    matchLabels:\n      verif: %s\n", ns, kb.Name, kb.Name)
			if h.Queue != 0 {
				fmt.Fprintf(&b, "  queue: %s\n", c04QueueName(h.Queue))
			}
			if kb.Group != 0 {
				fmt.Fprintf(&b, "  group: %s\n", c04GroupName(kb.Group))
			}
			if len(kb.Snaps) > 0 {
				fmt.Fprintf(&b, "  includeSnapshotsFrom: [%s]\n", strings.Join(kb.Snaps, ", "))
			}
			if kb.Jq {
				b.WriteString("  jqFilter: \".data\"\n")
			}
		}
	}
	b.WriteString(h.Extra)
	b.WriteString("EOF\nexit 0\nfi\n")
	return b.String() + h.body(dir)
}

// body is the part of the script that runs for a binding context.
func (h c04Hook) body(dir string) string {
	var b strings.Builder
	fmt.Fprintf(&b, "D=%q\nH=%q\n", dir, h.Name)
	b.WriteString(`n=$(cat "$D/count.$H" 2>/dev/null || echo 0); n=$((n+1)); echo $n > "$D/count.$H"
ctx=$(jq -c '[.[] | [.binding, (.type // "-"), (.groupName // "-")]]' "$BINDING_CONTEXT_PATH")
cp "$BINDING_CONTEXT_PATH" "$D/ctx.$H.$n"
mkfifo "$D/gate.$H.$n"
printf 'start\t%s\t%s\t%s\t%s\n' "$H" "$n" "$(date +%s%N)" "$ctx" >> "$D/log"
read -r mode < "$D/gate.$H.$n"
printf 'end\t%s\t%s\t%s\t%s\n' "$H" "$n" "$(date +%s%N)" "$mode" >> "$D/log"
case "$mode" in
  ok) exit 0 ;;
  okfault) exit 0 ;;
  exit) exit 1 ;;
  metrics) echo '{"name": 5, bad' > "$METRICS_PATH"; exit 0 ;;
  patch) echo 'this is: [not, a valid' > "$KUBERNETES_PATCH_PATH"; exit 0 ;;
  metricsop) echo '{"name":"verif_m","action":"bogus","value":1}' > "$METRICS_PATH"; exit 0 ;;
  gen\ *)
    if [ -s "$D/out.$H.$n.m" ]; then cat "$D/out.$H.$n.m" > "$METRICS_PATH"; fi
    if [ -s "$D/out.$H.$n.p" ]; then cat "$D/out.$H.$n.p" > "$KUBERNETES_PATCH_PATH"; fi
    x="${mode#gen }"
    case "$x" in
      sig*) ulimit -c 0; kill -"${x#sig}" $$; sleep 0.2; kill -9 $$ ;;
    esac
    exit "$x" ;;
  patchop) printf 'operation: MergePatch\nkind: ConfigMap\nnamespace: default\nname: does-not-exist\nmergePatch:\n  data:\n    a: b\n' > "$KUBERNETES_PATCH_PATH"; exit 0 ;;
esac
exit 3
`)
	return b.String()
}

type c04BoCall struct {
	fc    int
	delay time.Duration
	at    time.Time
}

// c04Snap is what the harness reads off a queued task.
type c04Snap struct {
	id    string
	typ   task.TaskType
	hook  string
	af    bool
	group string
	bt    htypes.BindingType
	eos   bool
	ctxs  string // intrinsic: binding:type:group
	bname string // binding name of the first context
	mon   string // first monitor id (Synchronization tasks)
}

// c04Entry is taken inside the wrapped queue handler before the real handler runs: the queue as the
// worker found it. c04Ret when the real handler returns: the queue after combining and running the
// hook, before the worker applies the result.
type c04Entry struct {
	at  time.Time
	pre []c04Snap
}

type c04Ret struct {
	status queue.TaskStatus
	post   []c04Snap
}

type c04Start struct {
	hook string
	n    int
	ts   int64
	ctxs string
}

type c04Running struct {
	head  c04Snap
	real  task.Task
	hook  c04Hook
	start c04Start
	kind  string // exec | norun | noexec
	ret   *c04Ret
	pay   string // what the context file carried, per context (see hookPayload)
}

type c04World struct {
	c      *Case
	dir    string
	ns     string
	fc     *fake.Cluster
	op     *shell_operator.ShellOperator
	hooks  []c04Hook
	cancel context.CancelFunc
	tasks  *Interner // task uuid → number
	binds  *Interner // binding name → number
	pays   *Interner // payload parts of the context files (watch event, object + filterResult, snapshot entry) → number
	known  map[string]bool
	boInit time.Duration
	boStep time.Duration
	realBo bool
	objs   int

	imu     sync.Mutex
	mu      sync.Mutex
	boCalls map[string][]c04BoCall
	entries map[string]chan c04Entry
	rets    map[string]chan c04Ret
	logSeen int
	// per queue: the previous non-allowed failure (for the retry-timing oracle)
	lastFail map[int]*c04BoCall
	notAfter time.Time // set while events are fired into a back-off: the earliest moment that back-off can end
	running  map[int]*c04Running
	// onExec (optional, set by other suites that reuse this world): called for every hook execution
	// once the hook has started, with the queue at handler entry and the queue now
	onExec func(qn, id int, pre, now []c04Snap, run *c04Running)
	// recoverPanics (optional, C07): a panic that escapes the operator's task handler is caught by the
	// wrapped queue handler and reported to the worker as a failed run (the harness plays an operator
	// that survives it); off: it takes the process down, as in production
	recoverPanics bool
}

func (w *c04World) snap(x task.Task) c04Snap {
	s := c04Snap{id: x.GetId(), typ: x.GetType()}
	if x.GetMetadata() != nil {
		hm := task_metadata.HookMetadataAccessor(x)
		s.hook, s.af, s.group, s.bt, s.eos, s.ctxs = hm.HookName, hm.AllowFailure, hm.Group, hm.BindingType, hm.ExecuteOnSynchronization, w.metaCtxs(hm)
		if len(hm.BindingContext) > 0 {
			s.bname = hm.BindingContext[0].Binding
		}
		if len(hm.MonitorIDs) > 0 {
			s.mon = hm.MonitorIDs[0]
		}
	}
	return s
}

func (w *c04World) snapQueue(q *queue.TaskQueue) []c04Snap {
	var res []c04Snap
	q.Iterate(func(x task.Task) { res = append(res, w.snap(x)) })
	return res
}

func (w *c04World) configure(q *queue.TaskQueue) {
	q.WaitLoopCheckInterval = 2 * time.Millisecond
	q.DelayOnQueueIsEmpty = 4 * time.Millisecond
	q.DelayOnRepeat = 4 * time.Millisecond
	name := q.Name
	realHandler := q.Handler
	w.mu.Lock()
	w.entries[name] = make(chan c04Entry, 256)
	w.rets[name] = make(chan c04Ret, 256)
	ech, rch := w.entries[name], w.rets[name]
	w.mu.Unlock()
	q.Handler = func(t task.Task) (res queue.TaskResult) {
		ech <- c04Entry{time.Now(), w.snapQueue(q)}
		func() {
			defer func() {
				if w.recoverPanics {
					if p := recover(); p != nil {
						res = queue.TaskResult{Status: queue.Fail}
					}
				}
			}()
			res = realHandler(t)
		}()
		rch <- c04Ret{res.Status, w.snapQueue(q)}
		return res
	}
	orig := q.ExponentialBackoffFn
	q.ExponentialBackoffFn = func(fc int) time.Duration {
		var d time.Duration
		switch {
		case w.boInit == 0:
			d = orig(fc) // the closure the queue was created with (default 5 s initial delay)
		case w.realBo:
			d = eb.CalculateDelay(w.boInit, fc)
		default:
			d = w.boInit + time.Duration(fc)*w.boStep
		}
		w.mu.Lock()
		w.boCalls[name] = append(w.boCalls[name], c04BoCall{fc, d, time.Now()})
		w.mu.Unlock()
		return d
	}
}

func newC04World(c *Case, r *Run, hooks []c04Hook, boInit, boStep time.Duration, realBo bool, preObjs ...int) (*c04World, error) {
	dir := filepath.Join(r.Scratch, fmt.Sprintf("c04-%d", c.Idx))
	if err := os.MkdirAll(filepath.Join(dir, "hooks"), 0o755); err != nil {
		return nil, err
	}
	_ = os.MkdirAll(filepath.Join(dir, "tmp"), 0o755)
	w := &c04World{c: c, dir: dir, hooks: hooks, tasks: NewInterner(), binds: NewInterner(), pays: NewInterner(), known: map[string]bool{},
		boInit: boInit, boStep: boStep, realBo: realBo, boCalls: map[string][]c04BoCall{},
		entries: map[string]chan c04Entry{}, rets: map[string]chan c04Ret{}, lastFail: map[int]*c04BoCall{}, running: map[int]*c04Running{}}
	// informer factories are shared process-wide by (resource, namespace, selector): one namespace per case
	w.ns = fmt.Sprintf("c04-%d-%d", r.Seed, c.Idx)
	for _, h := range hooks {
		// a child forked by another goroutine meanwhile would inherit the write fd (ETXTBSY on exec)
		syscall.ForkLock.RLock()
		err := os.WriteFile(filepath.Join(dir, "hooks", h.Name+".sh"), []byte(h.script(dir, w.ns)), 0o755)
		syscall.ForkLock.RUnlock()
		if err != nil {
			return nil, err
		}
	}
	ctx, cancel := context.WithCancel(context.Background())
	w.cancel = cancel
	w.fc = fake.NewFakeCluster(fake.ClusterVersionV127)
	// the fake watch ignores label selectors: one namespace per kubernetes binding
	for _, h := range hooks {
		for _, kb := range h.KBindings {
			w.fc.CreateNs(w.ns + "-" + kb.Name)
		}
	}
	for _, h := range hooks {
		for _, kb := range h.KBindings {
			for i := 0; len(preObjs) > 0 && i < preObjs[0]; i++ {
				m := manifest.MustFromYAML(fmt.Sprintf("apiVersion: v1\nkind: ConfigMap\nmetadata:\n  name: pre-%d\n  namespace: %s-%s\n  labels:\n    verif: %s\ndata:\n  p: \"%d\"\n",
					i, w.ns, kb.Name, kb.Name, i))
				if err := w.fc.Create(w.ns+"-"+kb.Name, m); err != nil {
					cancel()
					return nil, err
				}
			}
		}
	}
	w.fc.CreateNs(w.ns + "-out") // where generated patch files create their objects
	op, err := shell_operator.VerifAssemble(ctx, w.fc.Client, filepath.Join(dir, "hooks"), filepath.Join(dir, "tmp"))
	for i := 0; err != nil && strings.Contains(err.Error(), "text file busy") && i < 20; i++ {
		time.Sleep(10 * time.Millisecond)
		op, err = shell_operator.VerifAssemble(ctx, w.fc.Client, filepath.Join(dir, "hooks"), filepath.Join(dir, "tmp"))
	}
	if err != nil {
		cancel()
		return nil, err
	}
	w.op = op
	seen := map[int]bool{}
	for _, h := range hooks {
		if h.Queue != 0 && !seen[h.Queue] {
			seen[h.Queue] = true
			op.TaskQueues.NewNamedQueue(c04QueueName(h.Queue), op.VerifTaskHandler())
			w.configure(op.TaskQueues.GetByName(c04QueueName(h.Queue)))
			op.TaskQueues.GetByName(c04QueueName(h.Queue)).Start()
		}
	}
	op.VerifBootstrapMainQueue()
	w.configure(op.TaskQueues.GetMain())
	op.ManagerEventsHandler.Start()
	return w, nil
}

// openGate writes the outcome into the fifo the hook is blocked on (never blocks for ever).
func (w *c04World) openGate(path, mode string) {
	for i := 0; i < 2000; i++ {
		f, err := os.OpenFile(path, os.O_WRONLY|syscall.O_NONBLOCK, 0)
		if err == nil {
			_, _ = f.WriteString(mode + "\n")
			_ = f.Close()
			return
		}
		time.Sleep(time.Millisecond) // ENXIO: the reader has not opened its end yet
	}
}

func (w *c04World) close() {
	// let every blocked hook go, then stop
	for round := 0; round < 3; round++ {
		gates, _ := filepath.Glob(filepath.Join(w.dir, "gate.*"))
		for _, g := range gates {
			if f, err := os.OpenFile(g, os.O_WRONLY|syscall.O_NONBLOCK, 0); err == nil {
				_, _ = f.WriteString("ok\n")
				_ = f.Close()
			}
		}
		time.Sleep(5 * time.Millisecond)
	}
	w.op.Shutdown()
	w.cancel()
	time.Sleep(20 * time.Millisecond)
}

func (w *c04World) hookByName(name string) (c04Hook, bool) {
	for _, h := range w.hooks {
		if h.Name == name || h.Name+".sh" == name {
			return h, true
		}
	}
	return c04Hook{}, false
}

func (w *c04World) queueLen(qn int) int {
	q := w.op.TaskQueues.GetByName(c04QueueName(qn))
	if q == nil {
		return 0
	}
	return q.Length()
}

func (w *c04World) snapIds(ss []c04Snap) string {
	var ids []int
	for _, s := range ss {
		ids = append(ids, w.tasks.Id(s.id))
	}
	return joinInts(ids)
}

// metaCtxs prints the contexts of a task's metadata (intrinsic type: 0 Synchronization, 1 Event,
// 3 Schedule, 4 OnStartup; the hook sees type 2 "Group" for a grouped context).
func (w *c04World) metaCtxs(hm task_metadata.HookMetadata) string {
	w.imu.Lock()
	defer w.imu.Unlock()
	var ss []string
	for _, bc := range hm.BindingContext {
		ty := 4
		switch {
		case bc.Metadata.BindingType == htypes.Schedule:
			ty = 3
		case bc.Metadata.BindingType == htypes.OnKubernetesEvent && bc.Type == "Synchronization":
			ty = 0
		case bc.Metadata.BindingType == htypes.OnKubernetesEvent:
			ty = 1
		}
		ss = append(ss, fmt.Sprintf("%d:%d:%d", w.binds.Id(bc.Binding), ty, c04GroupNum(bc.Metadata.Group)))
	}
	if len(ss) == 0 {
		return "-"
	}
	return strings.Join(ss, ";")
}

// hookCtxs turns the hook's own view (jq output of its context file) into binding:type:group
func (w *c04World) hookCtxs(js string) string {
	w.imu.Lock()
	defer w.imu.Unlock()
	var raw [][]string
	if err := json.Unmarshal([]byte(js), &raw); err != nil {
		return "unparsable"
	}
	var ss []string
	for _, x := range raw {
		if len(x) != 3 {
			return "unparsable"
		}
		ty, ok := map[string]int{"Synchronization": 0, "Event": 1, "Group": 2, "Schedule": 3, "-": 4}[x[1]]
		if !ok {
			ty = 9
		}
		ss = append(ss, fmt.Sprintf("%d:%d:%d", w.binds.Id(x[0]), ty, c04GroupNum(x[2])))
	}
	if len(ss) == 0 {
		return "-"
	}
	return strings.Join(ss, ";")
}

// c04Canon is the JSON value with sorted keys ("<absent>" when the member is missing).
func c04Canon(raw json.RawMessage) string {
	if raw == nil {
		return "<absent>"
	}
	var v interface{}
	if err := json.Unmarshal(raw, &v); err != nil {
		return "<unparsable>"
	}
	b, _ := json.Marshal(v)
	return string(b)
}

// hookPayload is what the hook process received besides binding / type / group, read from the copy
// the hook made of its context file: per context `<ev>/<objs>/<snaps>`, each a list of interned
// numbers. ev = watch event, then object + filterResult (an Event with `"object": null` has only the
// first; no Event members at all: `-`); objs = the members of `objects` (object + filterResult);
// snaps = the `snapshots` member: one number for the member itself, one per key, one per entry.
func (w *c04World) hookPayload(hook string, n int) string {
	b, err := os.ReadFile(filepath.Join(w.dir, fmt.Sprintf("ctx.%s.%d", hook, n)))
	if err != nil {
		return "unreadable"
	}
	var raw []map[string]json.RawMessage
	if err := json.Unmarshal(b, &raw); err != nil {
		return "unparsable"
	}
	w.imu.Lock()
	defer w.imu.Unlock()
	list := func(xs []int, sorted bool) string {
		if sorted {
			sort.Ints(xs)
		}
		if len(xs) == 0 {
			return "-"
		}
		return joinInts(xs)
	}
	var res []string
	for _, m := range raw {
		var ev, objs, snaps []int
		_, hasObj := m["object"]
		_, hasWE := m["watchEvent"]
		_, hasFR := m["filterResult"]
		if hasObj || hasWE || hasFR {
			ev = append(ev, w.pays.Id("we|"+c04Canon(m["watchEvent"])))
			if o := c04Canon(m["object"]); o != "null" && o != "<absent>" {
				ev = append(ev, w.pays.Id("o|"+o+"|"+c04Canon(m["filterResult"])))
			}
		}
		if r, has := m["objects"]; has {
			var els []json.RawMessage
			if json.Unmarshal(r, &els) != nil {
				objs = append(objs, w.pays.Id("objects|"+c04Canon(r)))
			}
			for _, el := range els {
				objs = append(objs, w.pays.Id("o|"+c04Canon(el)))
			}
		}
		if r, has := m["snapshots"]; has {
			snaps = append(snaps, w.pays.Id("s|"))
			var keys map[string][]json.RawMessage
			if json.Unmarshal(r, &keys) != nil {
				snaps = append(snaps, w.pays.Id("snapshots|"+c04Canon(r)))
			}
			var ks []string
			for k := range keys {
				ks = append(ks, k)
			}
			sort.Strings(ks)
			for _, k := range ks {
				els := keys[k]
				snaps = append(snaps, w.pays.Id("s|"+k))
				for _, el := range els {
					snaps = append(snaps, w.pays.Id("s|"+k+"|"+c04Canon(el)))
				}
			}
		}
		res = append(res, list(ev, false)+"/"+list(objs, true)+"/"+list(snaps, true))
		if len(ev) > 1 {
			w.c.Note("shown:event-with-object")
		}
		if hasFR {
			w.c.Note("shown:filterResult")
		}
		if len(objs) > 0 {
			w.c.Note("shown:synchronization-with-objects")
		}
		if len(snaps) > 2 {
			w.c.Note("shown:snapshots-with-objects")
		}
	}
	if len(res) == 0 {
		return "-"
	}
	return strings.Join(res, ";")
}

func (w *c04World) readStarts() []c04Start {
	b, _ := os.ReadFile(filepath.Join(w.dir, "log"))
	var res []c04Start
	for _, l := range strings.Split(string(b), "\n") {
		f := strings.Split(l, "\t")
		if len(f) == 5 && f[0] == "start" {
			n, _ := strconv.Atoi(f[2])
			ts, _ := strconv.ParseInt(f[3], 10, 64)
			res = append(res, c04Start{hook: f[1], n: n, ts: ts, ctxs: f[4]})
		}
	}
	return res
}

func c04B01(b bool) int {
	if b {
		return 1
	}
	return 0
}

func (w *c04World) taskLine(s c04Snap, qn int) string {
	h, _ := w.hookByName(s.hook)
	ty := 2
	switch s.typ {
	case task_metadata.HookRun:
		ty = 0
	case task_metadata.EnableKubernetesBindings:
		ty = 1
	}
	bt := 0
	switch s.bt {
	case htypes.Schedule:
		bt = 1
	case htypes.OnKubernetesEvent:
		bt = 2
	}
	af, grp, eos := s.af, c04GroupNum(s.group), s.eos
	if s.typ == task_metadata.HookRun && s.bt == htypes.OnKubernetesEvent {
		// a Synchronization task: what the generated configuration of its binding prescribes
		// (binding names need not be unique: the monitor id tells which binding of the configuration it is)
		idx := -1
		if rh := w.op.HookManager.GetHook(s.hook); rh != nil && rh.Config != nil && s.mon != "" {
			for i, kc := range rh.Config.OnKubernetesEvents {
				if kc.Monitor != nil && kc.Monitor.Metadata.MonitorId == s.mon {
					idx = i
				}
			}
		}
		for i, kb := range h.KBindings {
			if (idx < 0 && kb.bname() == s.bname) || i == idx {
				af, grp, eos = kb.AF, kb.Group, kb.EOS
			}
		}
	}
	return fmt.Sprintf("task %d q=%d hook=%d type=%d af=%d bt=%d grp=%d eos=%d ctxs=%s", w.tasks.Id(s.id), qn, h.Num, ty,
		c04B01(af), bt, grp, c04B01(eos), s.ctxs)
}

// arrived waits until the queue has grown and declares the new tail task to the model with the
// attributes the generated hook configuration prescribes.
func (w *c04World) arrived(h c04Hook, before int, af bool, group int, bt int, bname string, ctxType int) bool {
	deadline := time.Now().Add(30 * time.Second)
	for {
		grown := w.queueLen(h.Queue) > before
		// An arrival fired during a back-off has to be seen in the queue before that back-off can
		// have ended (the worker then picks the head again and merges the new task into it: the
		// queue shrinks back and what the harness sees no longer tells which came first).
		if !w.notAfter.IsZero() && !time.Now().Before(w.notAfter) {
			w.c.Inconcl = "an event fired during a back-off was not seen in the queue before the back-off could end (machine too busy): order of arrival and retry undetermined"
			return false
		}
		if grown {
			break
		}
		if time.Now().After(deadline) {
			w.c.Op(fmt.Sprintf("task 999 q=%d hook=%d", h.Queue, h.Num), "event-not-queued")
			return false
		}
		time.Sleep(time.Millisecond)
	}
	ss := w.snapQueue(w.op.TaskQueues.GetByName(c04QueueName(h.Queue)))
	if !w.notAfter.IsZero() && !time.Now().Before(w.notAfter) {
		w.c.Inconcl = "an event fired during a back-off was read off the queue when the back-off could already have ended (machine too busy)"
		return false
	}
	if len(ss) <= before {
		w.c.Op(fmt.Sprintf("task 999 q=%d hook=%d", h.Queue, h.Num), "queue-shrank-while-reading")
		return false
	}
	nt := ss[len(ss)-1]
	w.known[nt.id] = true
	w.imu.Lock()
	bnum := w.binds.Id(bname)
	w.imu.Unlock()
	line := fmt.Sprintf("task %d q=%d hook=%d type=0 af=%d bt=%d grp=%d eos=%d ctxs=%d:%d:%d", w.tasks.Id(nt.id), h.Queue, h.Num,
		c04B01(af), bt, group, c04B01(bt != 2), bnum, ctxType, group)
	w.c.Op(line, fmt.Sprintf("af=%d grp=%d ctxs=%s queue=%s", c04B01(nt.af), c04GroupNum(nt.group), nt.ctxs, w.snapIds(ss)))
	return true
}

// push fires the schedule binding: the real events handler turns it into a task in the queue.
func (w *c04World) push(h c04Hook, bd c04Binding) bool {
	before := w.queueLen(h.Queue)
	select {
	case w.op.ScheduleManager.Ch() <- bd.Crontab:
	case <-time.After(5 * time.Second):
		w.c.Inconcl = "schedule channel not consumed"
		return false
	}
	w.c.Note("event:schedule")
	if bd.CfgName != "" {
		w.c.Note("event:binding-with-shared-name")
	}
	return w.arrived(h, before, bd.AF, bd.Group, 1, bd.bname(), 3)
}

// pushKube creates a ConfigMap matching exactly this binding: informer → kube event → task.
func (w *c04World) pushKube(h c04Hook, kb c04KBinding) bool {
	before := w.queueLen(h.Queue)
	w.objs++
	m := manifest.MustFromYAML(fmt.Sprintf("apiVersion: v1\nkind: ConfigMap\nmetadata:\n  name: cm-%d\n  namespace: %s-%s\n  labels:\n    verif: %s\ndata:\n  n: \"%d\"\n",
		w.objs, w.ns, kb.Name, kb.Name, w.objs))
	if err := w.fc.Create(w.ns+"-"+kb.Name, m); err != nil {
		w.c.Inconcl = "fake cluster create: " + firstLine(err.Error())
		return false
	}
	w.c.Note("event:kubernetes")
	if kb.CfgName != "" {
		w.c.Note("event:binding-with-shared-name")
	}
	return w.arrived(h, before, kb.AF, kb.Group, 2, kb.bname(), 1)
}

// begin waits until the worker of the queue has entered the handler for its head task; for a hook
// run, until the hook has written its start line and is blocked at its gate.
func (w *c04World) begin(qn int) string {
	qname := c04QueueName(qn)
	w.mu.Lock()
	ech, rch := w.entries[qname], w.rets[qname]
	w.mu.Unlock()
	var ent c04Entry
	deadline := time.Now().Add(40 * time.Second)
	for got := false; !got; {
		select {
		case ent = <-ech:
			got = true
		default:
			if w.queueLen(qn) == 0 && len(ech) == 0 {
				w.c.Op(fmt.Sprintf("begin q=%d", qn), "idle")
				return "idle"
			}
			if time.Now().After(deadline) {
				w.c.Op(fmt.Sprintf("begin q=%d", qn), "worker-does-not-pick")
				return "hang"
			}
			time.Sleep(time.Millisecond)
		}
	}
	if len(ent.pre) == 0 {
		w.c.Op(fmt.Sprintf("begin q=%d", qn), "handler-entered-with-empty-queue")
		return "hang"
	}
	// tasks the harness has not seen yet were put at the head by the previous handler (HeadTasks of
	// EnableKubernetesBindings) or, at startup, by bootstrapMainQueue
	var unknown []c04Snap
	for _, s := range ent.pre {
		if !w.known[s.id] {
			unknown = append(unknown, s)
		}
	}
	for _, s := range unknown {
		w.tasks.Id(s.id) // number them in queue order
	}
	for i := len(unknown) - 1; i >= 0; i-- {
		s := unknown[i]
		w.known[s.id] = true
		w.c.Op(w.taskLine(s, qn)+" at=head", fmt.Sprintf("af=%d grp=%d eos=%d head", c04B01(s.af), c04GroupNum(s.group), c04B01(s.eos)))
	}
	head := ent.pre[0]
	id := w.tasks.Id(head.id)
	var real task.Task
	w.op.TaskQueues.GetByName(qname).Iterate(func(t task.Task) {
		if t.GetId() == head.id {
			real = t
		}
	})
	run := &c04Running{head: head, real: real}
	w.running[qn] = run
	if head.typ != task_metadata.HookRun {
		run.kind = "noexec"
		w.c.Op(fmt.Sprintf("begin q=%d", qn), fmt.Sprintf("noexec task=%d", id))
		return "noexec"
	}
	// a hook run: either the hook starts (and blocks at its gate) or the handler returns without running it
	for {
		ss := w.readStarts()
		if len(ss) > w.logSeen {
			run.start = ss[w.logSeen]
			w.logSeen++
			break
		}
		select {
		case ret := <-rch:
			run.kind = "norun"
			run.ret = &ret
			w.c.Op(fmt.Sprintf("begin q=%d", qn), fmt.Sprintf("norun task=%d queue=%s", id, w.snapIds(ret.post)))
			w.c.Note("begin:hook-not-run-by-configuration")
			return "norun"
		default:
		}
		if time.Now().After(deadline) {
			w.c.Op(fmt.Sprintf("begin q=%d", qn), "no-hook-start")
			return "hang"
		}
		time.Sleep(2 * time.Millisecond)
	}
	run.kind = "exec"
	run.hook, _ = w.hookByName(run.start.hook)
	run.pay = w.hookPayload(run.start.hook, run.start.n)
	now := w.snapQueue(w.op.TaskQueues.GetByName(qname))
	w.c.Op(fmt.Sprintf("begin q=%d", qn), fmt.Sprintf("exec task=%d hook=%d ctxs=%s queue=%s", id, run.hook.Num, w.hookCtxs(run.start.ctxs), w.snapIds(now)))
	gap := int64(0)
	if lf := w.lastFail[qn]; lf != nil {
		// from the back-off call after the failed attempt to the worker entering the handler again
		gap = ent.at.Sub(lf.at).Nanoseconds()
	}
	w.c.Oracle(fmt.Sprintf("begin q=%d task=%d gap=%d ctxs=%s pay=%s", qn, id, gap, w.hookCtxs(run.start.ctxs), run.pay))
	if w.onExec != nil {
		w.onExec(qn, id, ent.pre, now, run)
	}
	if strings.Contains(head.ctxs, ":0:") {
		w.c.Note("begin:synchronization-run")
		if head.group == "" && head.bt == htypes.OnKubernetesEvent && strings.Contains(strings.SplitN(head.ctxs, ";", 2)[0], ":0:") {
			// C07.6: an ungrouped Synchronization is never combined
			w.c.Oracle(fmt.Sprintf("nocombine q=%d ctxs=%s queue=%s", qn, w.hookCtxs(run.start.ctxs), w.snapIds(now)))
			w.c.Note("oracle:nocombine-ungrouped-synchronization")
		}
	}
	return "exec"
}

// cancelDelay calls the public CancelTaskDelay of the queue while its worker is inside the handler
// (the hook is blocked at its gate): no wait loop is in progress, the request must leave nothing
// behind — a back-off that starts later is not its business.
func (w *c04World) cancelDelay(qn int) {
	q := w.op.TaskQueues.GetByName(c04QueueName(qn))
	if q == nil {
		return
	}
	q.CancelTaskDelay()
	wip, pend := q.VerifWaitFlags()
	w.c.Op(fmt.Sprintf("cancel q=%d", qn), fmt.Sprintf("wait=%d pending=%d", c04B01(wip), c04B01(pend)))
	w.c.Note("cancel:CancelTaskDelay-while-the-handler-runs")
}

// end lets the blocked hook finish in the given mode and records what the handler returned.
func (w *c04World) end(qn int, mode string, out *c04Out) string {
	run := w.running[qn]
	delete(w.running, qn)
	if run == nil {
		return "not-running"
	}
	qname := c04QueueName(qn)
	id := w.tasks.Id(run.head.id)
	w.mu.Lock()
	nbo := len(w.boCalls[qname])
	rch := w.rets[qname]
	w.mu.Unlock()
	var ret c04Ret
	switch run.kind {
	case "norun":
		ret = *run.ret
		mode = "ok"
		out = nil
	default:
		if run.kind != "exec" {
			out = nil
		}
		if out != nil {
			// generated output files: the hook copies them to $METRICS_PATH / $KUBERNETES_PATCH_PATH
			base := filepath.Join(w.dir, fmt.Sprintf("out.%s.%d", run.hook.Name, run.start.n))
			_ = os.WriteFile(base+".m", []byte(out.Metrics), 0o644)
			_ = os.WriteFile(base+".p", []byte(out.Patch), 0o644)
			mode = fmt.Sprintf("gen %d", out.Exit)
			if out.Sig > 0 {
				mode = fmt.Sprintf("gen sig%d", out.Sig)
			}
		}
		if run.kind == "exec" {
			// the hook blocks reading its gate fifo
			w.openGate(filepath.Join(w.dir, fmt.Sprintf("gate.%s.%d", run.hook.Name, run.start.n)), mode)
		}
		select {
		case ret = <-rch:
		case <-time.After(40 * time.Second):
			w.c.Op(fmt.Sprintf("end q=%d %s", qn, c04OkArg(mode, out)), "hang")
			return "hang"
		}
	}
	if run.kind == "noexec" {
		w.c.Op(fmt.Sprintf("end q=%d ok=1", qn), "status="+strings.ToLower(string(ret.status))+" noexec")
		return "success"
	}
	status := "success"
	var bo c04BoCall
	if ret.status == queue.Fail {
		status = "fail"
		// the worker calls ExponentialBackoffFn and IncrementFailureCount right after the handler
		for i := 0; i < 2000; i++ {
			w.mu.Lock()
			got := len(w.boCalls[qname]) > nbo
			if got {
				bo = w.boCalls[qname][nbo]
			}
			w.mu.Unlock()
			if got && run.real != nil && run.real.GetFailureCount() == bo.fc+1 {
				break
			}
			time.Sleep(time.Millisecond)
		}
	} else if ret.status != queue.Success {
		status = string(ret.status)
	}
	var after []string
	var afterSnaps []c04Snap
	for _, x := range ret.post {
		if status == "success" && x.id == run.head.id {
			continue // the worker removes the handled task on Success
		}
		after = append(after, fmt.Sprintf("%d,%d,%s", w.tasks.Id(x.id), c04B01(x.af), x.ctxs))
		afterSnaps = append(afterSnaps, x)
	}
	afterS := "-"
	if len(after) > 0 {
		afterS = strings.Join(after, "|")
	}
	ok := c04OkArg(mode, out)
	fc := 0
	if run.real != nil {
		fc = run.real.GetFailureCount()
	}
	if run.kind == "exec" {
		una := ""
		if out != nil {
			una = " unapplied=" + w.unapplied(run.hook.Name, out.Metrics)
		}
		w.c.Oracle(fmt.Sprintf("end q=%d %s task=%d ctxs=%s sleep=%d after=%s s0=0 pay=%s%s", qn, ok, id, w.hookCtxs(run.start.ctxs),
			bo.delay.Nanoseconds(), afterS, run.pay, una))
	}
	w.c.Op(fmt.Sprintf("end q=%d %s", qn, ok), fmt.Sprintf("status=%s fc=%d sleep=%d queue=%s", status, fc,
		bo.delay.Nanoseconds(), w.snapIds(afterSnaps)))
	if out != nil {
		mode = "gen:" + out.Shape
		w.c.Note("output:" + out.Shape)
	}
	if status == "fail" {
		w.lastFail[qn] = &bo
		w.c.Note("end:fail-" + mode)
	} else {
		w.lastFail[qn] = nil
		switch {
		case run.kind == "norun":
		case mode == "ok" || (out != nil && !out.Bad):
			w.c.Note("end:success")
		default:
			w.c.Note("end:allowed-failure-" + mode)
		}
	}
	return status
}

// unapplied looks, right after the handler has returned, for the EFFECT of every operation of the metrics
// file in the registry of the operator's HookMetricStorage (Gather): an operation other than "expire"
// must be visible as a series of its name with the hook's label, unless a later "expire" of its group in
// the same file removed it again. The answer is the number of operations without a visible effect ("-":
// the harness cannot read the text as a stream of objects — nothing is claimed then). The documents are
// read with encoding/json into a struct of the harness; the only knowledge about the operator used is the
// documented meaning of the members (set/add shortcuts, expire).
func (w *c04World) unapplied(hook, text string) string {
	type mop struct {
		Name, Group, Action string
		Set, Add, Value     *float64
	}
	var ops []mop
	dec := json.NewDecoder(strings.NewReader(text))
	for {
		var o mop
		err := dec.Decode(&o)
		if err != nil {
			if err == io.EOF {
				break
			}
			return "-"
		}
		if o.Set != nil && o.Add == nil {
			o.Action = "set"
		}
		if o.Add != nil && o.Set == nil {
			o.Action = "add"
		}
		ops = append(ops, o)
	}
	if len(ops) == 0 {
		return "0"
	}
	visible := map[string]bool{}
	ms, isMS := w.op.HookMetricStorage.(*metricstorage.MetricStorage)
	if !isMS || ms.Registry == nil {
		return "-"
	}
	mfs, err := ms.Registry.Gather()
	if err != nil {
		return "-"
	}
	for _, mf := range mfs {
		for _, m := range mf.GetMetric() {
			for _, lp := range m.GetLabel() {
				if lp.GetName() == "hook" && (lp.GetValue() == hook || lp.GetValue() == hook+".sh") {
					visible[mf.GetName()] = true
				}
			}
		}
	}
	n := 0
	for i, o := range ops {
		if o.Action == "expire" && o.Group != "" {
			continue // its effect is an absence
		}
		expiredLater := false
		for _, l := range ops[i+1:] {
			if o.Group != "" && l.Group == o.Group && l.Action == "expire" {
				expiredLater = true
			}
		}
		if expiredLater {
			continue
		}
		if o.Name == "" || !visible[o.Name] {
			n++
		}
	}
	return strconv.Itoa(n)
}

// c04OkArg is how the outcome of a run is stated on the `end` lines: ok=<0|1> for the fixed modes,
// exit code and the text of the output files for a generated output (the driver decides).
func c04OkArg(mode string, out *c04Out) string {
	if out != nil {
		return out.args()
	}
	return fmt.Sprintf("ok=%d", c04B01(mode == "ok"))
}

// ---------------------------------------------------------------- scenarios

// an event to fire: hook index, binding index, kube?
type c04Ev struct {
	H, B int
	Kube bool
}

type c04Plan struct {
	hooks      []c04Hook
	boInit     time.Duration
	boStep     time.Duration
	realBo     bool
	outcome    func(taskID int, failuresSoFar int) string  // "ok" | "exit" | "metrics" | "patch" | … | "gen-ok" | "gen-bad" (generated output files)
	genRng     *Rng                                        // for the generated outputs
	genOut     func(taskID int, failuresSoFar int) *c04Out // fixed outputs (corpus); overrides outcome
	arrivals   func(qn int, step int) []c04Ev              // events fired while a run is blocked
	boArrivals func(qn int, step int) []c04Ev              // events fired right after a failed run, i.e. during its back-off
	initial    map[int][]c04Ev                             // per queue: first layout (the rest arrives while the first run is blocked)
	maxSteps   int
	onExec     func(w *c04World, qn, id int, pre, now []c04Snap, run *c04Running) // see c04World.onExec
	cancels    func(qn int, step int) int                                         // CancelTaskDelay() calls on the queue while a run is blocked (handler running)
	preObjs    int                                                                // ConfigMaps that exist per kubernetes binding before the operator starts (Synchronization runs and snapshots then carry objects)
}

func (w *c04World) fire(p c04Plan, e c04Ev) bool {
	h := p.hooks[e.H]
	if e.Kube {
		return w.pushKube(h, h.KBindings[e.B])
	}
	return w.push(h, h.Bindings[e.B])
}

func c04Execute(c *Case, r *Run, p c04Plan) {
	w, err := newC04World(c, r, p.hooks, p.boInit, p.boStep, p.realBo, p.preObjs)
	if err != nil {
		c.Op("assemble", "error "+firstLine(err.Error()))
		return
	}
	defer w.close()
	if p.onExec != nil {
		w.onExec = func(qn, id int, pre, now []c04Snap, run *c04Running) { p.onExec(w, qn, id, pre, now, run) }
	}
	bi := p.boInit
	if bi == 0 {
		bi = queue.DefaultInitialDelayOnFailedTask
	}
	c.Op(fmt.Sprintf("backoff init=%d step=%d", bi.Nanoseconds(), p.boStep.Nanoseconds()), "ok")
	for _, h := range p.hooks {
		if h.V0 {
			c.Op(fmt.Sprintf("hookver hook=%d v=0", h.Num), "ok")
			c.Note("hook:v0-config")
		}
	}
	fails := map[int]int{}
	finish := func(qn int) string {
		run := w.running[qn]
		id := w.tasks.Id(run.head.id)
		mode := "ok"
		var out *c04Out
		if run.kind == "exec" {
			if p.genOut != nil {
				out = p.genOut(id, fails[id])
			} else {
				mode = p.outcome(id, fails[id])
			}
			if strings.HasPrefix(mode, "gen-") && p.genRng != nil {
				out = c04GenOut(p.genRng, mode == "gen-bad", fmt.Sprintf("c%d", c.Idx%7), w.ns+"-out")
			}
			if out != nil {
				mode = "gen"
				if out.Bad {
					fails[id]++
				}
			} else if mode != "ok" {
				fails[id]++
			}
		}
		return w.end(qn, mode, out)
	}
	drive := func(qn int, withArrivals bool) bool {
		for step := 0; step < p.maxSteps; step++ {
			switch w.begin(qn) {
			case "idle":
				return true
			case "hang":
				return false
			case "exec":
				if withArrivals && p.arrivals != nil {
					for _, e := range p.arrivals(qn, step) {
						if !w.fire(p, e) {
							return false
						}
					}
				}
				if p.cancels != nil {
					for n := p.cancels(qn, step); n > 0; n-- {
						w.cancelDelay(qn)
					}
				}
			}
			st := finish(qn)
			if st == "hang" {
				return false
			}
			if st == "fail" && withArrivals && p.boArrivals != nil {
				// a task appended while the queue is sleeping in its back-off must not shorten it
				if lf := w.lastFail[qn]; lf != nil {
					w.notAfter = lf.at.Add(lf.delay - 2*time.Millisecond)
				}
				for _, e := range p.boArrivals(qn, step) {
					if !w.fire(p, e) {
						w.notAfter = time.Time{}
						return false
					}
					c.Note("arrival:during-backoff")
				}
				w.notAfter = time.Time{}
			}
		}
		return true
	}
	// startup: onStartup runs, EnableKubernetesBindings (→ Synchronization runs at the head), EnableScheduleBindings
	w.op.TaskQueues.StartMain()
	if !drive(0, false) {
		return
	}
	// layouts: per queue, the first event starts running at once; the rest arrives while it is blocked
	for _, qn := range []int{0, 1} {
		evs := p.initial[qn]
		if len(evs) == 0 {
			continue
		}
		if !w.fire(p, evs[0]) {
			return
		}
		if w.begin(qn) != "exec" {
			return
		}
		for _, e := range evs[1:] {
			if !w.fire(p, e) {
				return
			}
		}
		if p.cancels != nil {
			for n := p.cancels(qn, -1); n > 0; n-- {
				w.cancelDelay(qn)
			}
		}
		if finish(qn) == "hang" {
			return
		}
		if !drive(qn, true) {
			return
		}
	}
}

func c04GenHooks(rng *Rng, nh int, kube bool) []c04Hook {
	var hooks []c04Hook
	cron := 0
	bnum := 0
	for i := 0; i < nh; i++ {
		h := c04Hook{Name: fmt.Sprintf("hook%02d", i+1), Num: i + 1}
		if rng.Chance(50) {
			h.OnStartup = rng.Range(1, 20)
		}
		h.Queue = rng.Intn(2)
		nb := rng.Range(1, 3)
		for j := 0; j < nb; j++ {
			bnum++
			cron++
			bd := c04Binding{Name: fmt.Sprintf("b%d", bnum), Crontab: fmt.Sprintf("%d %d 1 1 *", cron%60, cron/60), AF: rng.Chance(40)}
			if rng.Chance(35) {
				bd.Group = rng.Range(1, 2)
			}
			h.Bindings = append(h.Bindings, bd)
		}
		if rng.Chance(15) {
			// a v0 hook: main queue, no groups, no kubernetes bindings (an Event for a v0 hook panics in MapV0)
			h.V0 = true
			h.Queue = 0
			for j := range h.Bindings {
				h.Bindings[j].Group = 0
			}
		}
		if kube && !h.V0 && rng.Chance(60) {
			for j := rng.Range(1, 3); j > 0; j-- {
				bnum++
				kb := c04KBinding{Name: fmt.Sprintf("k%d", bnum), AF: rng.Chance(40), EOS: !rng.Chance(15)}
				if rng.Chance(50) {
					kb.Group = rng.Range(1, 2)
				}
				h.KBindings = append(h.KBindings, kb)
			}
		}
		// binding names need not be unique: unnamed bindings all get the default name of their kind
		// ("schedule" / "kubernetes"), explicit names may be repeated — also across kinds
		if !h.V0 && rng.Chance(45) {
			share := PickOne(rng, []string{"-", "-", fmt.Sprintf("n%d", i+1)})
			for j := range h.Bindings {
				if rng.Chance(80) {
					h.Bindings[j].CfgName = share
				}
			}
			if rng.Chance(50) {
				kshare := PickOne(rng, []string{"-", fmt.Sprintf("n%d", i+1), fmt.Sprintf("kn%d", i+1)})
				// (the name of a grouped kubernetes binding must be unambiguous among the kubernetes
				// bindings of the hook — configuration check: only ungrouped ones share)
				for j := range h.KBindings {
					if h.KBindings[j].Group == 0 && rng.Chance(80) {
						h.KBindings[j].CfgName = kshare
					}
				}
			}
		}
		// what the hook is shown besides binding / type / group: snapshots of other bindings
		// (includeSnapshotsFrom of ungrouped schedule / kubernetes bindings; the names must be unambiguous
		// among the kubernetes bindings — grouped bindings get their group's list from the operator) and a
		// filterResult next to every object (jqFilter)
		if !h.V0 && len(h.KBindings) > 0 {
			cnt := map[string]int{}
			for _, kb := range h.KBindings {
				cnt[kb.bname()]++
			}
			var uniq []string
			for _, kb := range h.KBindings {
				if cnt[kb.bname()] == 1 {
					uniq = append(uniq, kb.bname())
				}
			}
			pick := func() []string {
				var res []string
				for _, u := range uniq {
					if rng.Chance(60) {
						res = append(res, u)
					}
				}
				if len(res) == 0 {
					res = append(res, PickOne(rng, uniq))
				}
				return res
			}
			for j := range h.Bindings {
				if h.Bindings[j].Group == 0 && len(uniq) > 0 && rng.Chance(50) {
					h.Bindings[j].Snaps = pick()
				}
			}
			for j := range h.KBindings {
				if h.KBindings[j].Group == 0 && len(uniq) > 0 && rng.Chance(40) {
					h.KBindings[j].Snaps = pick()
				}
				h.KBindings[j].Jq = rng.Chance(50)
			}
		}
		hooks = append(hooks, h)
	}
	return hooks
}

func c04FailMode(rng *Rng) string {
	return PickOne(rng, []string{"exit", "metrics", "patch", "metricsop", "patchop", "gen-bad", "gen-bad", "gen-bad", "gen-bad", "gen-bad", "gen-bad"})
}

func c04Random(c *Case, rng *Rng, r *Run) {
	kube := rng.Chance(60)
	hooks := c04GenHooks(rng, rng.Range(1, 3), kube)
	p := c04Plan{hooks: hooks, boInit: time.Duration(rng.Range(30, 60)) * time.Millisecond, boStep: 5 * time.Millisecond,
		initial: map[int][]c04Ev{}, maxSteps: 60}
	if rng.Chance(15) {
		p.realBo = true // real CalculateDelay(init, 0): tasks fail at most once
	}
	byQueue := map[int][]c04Ev{}
	nk := 0
	for hi, h := range hooks {
		for bi := range h.Bindings {
			byQueue[h.Queue] = append(byQueue[h.Queue], c04Ev{hi, bi, false})
		}
		for bi := range h.KBindings {
			byQueue[h.Queue] = append(byQueue[h.Queue], c04Ev{hi, bi, true})
			nk++
		}
	}
	for _, qn := range []int{0, 1} {
		bs := byQueue[qn]
		if len(bs) == 0 {
			continue
		}
		n := rng.Range(1, 6)
		cur := PickOne(rng, bs)
		for i := 0; i < n; i++ {
			if rng.Chance(35) {
				cur = PickOne(rng, bs)
			} else {
				// another binding of the same hook (so that tasks get combined)
				var same []c04Ev
				for _, x := range bs {
					if x.H == cur.H {
						same = append(same, x)
					}
				}
				cur = PickOne(rng, same)
			}
			p.initial[qn] = append(p.initial[qn], cur)
		}
	}
	maxFail := 3
	if p.realBo {
		maxFail = 1
	}
	p.outcome = func(id, failed int) string {
		if failed < maxFail && rng.Chance(40) {
			return c04FailMode(rng)
		}
		if rng.Chance(50) {
			return "gen-ok" // a successful run that leaves metrics / patch files behind
		}
		return "ok"
	}
	p.genRng = rng
	arrivals := 0
	p.arrivals = func(qn, step int) []c04Ev {
		if arrivals >= 4 || !rng.Chance(25) || len(byQueue[qn]) == 0 {
			return nil
		}
		arrivals++
		return []c04Ev{PickOne(rng, byQueue[qn])}
	}
	boArr := 0
	p.boArrivals = func(qn, step int) []c04Ev {
		if boArr >= 3 || !rng.Chance(40) || len(byQueue[qn]) == 0 {
			return nil
		}
		boArr++
		return []c04Ev{PickOne(rng, byQueue[qn])}
	}
	// CancelTaskDelay() (public, used by embedding operators to wake a queue) while a run is blocked
	withCancels := rng.Chance(50)
	p.cancels = func(qn, step int) int {
		if !withCancels || !rng.Chance(35) {
			return 0
		}
		return rng.Range(1, 2)
	}
	nb := 0
	shared := false
	for _, h := range hooks {
		nb += len(h.Bindings)
		seen := map[string]bool{}
		for _, b := range h.Bindings {
			shared = shared || seen[b.bname()]
			seen[b.bname()] = true
		}
		for _, b := range h.KBindings {
			shared = shared || seen[b.bname()]
			seen[b.bname()] = true
		}
	}
	if shared {
		c.Note("case:bindings-sharing-a-name")
	}
	c.Desc = fmt.Sprintf("operator run: %d hooks, %d schedule + %d kubernetes bindings, layouts main=%d q1=%d", len(hooks), nb, nk, len(p.initial[0]), len(p.initial[1]))
	c.Nontrivial = len(p.initial[0])+len(p.initial[1]) >= 2
	if nk > 0 && rng.Chance(50) {
		p.preObjs = rng.Range(1, 2)
		c.Note("case:objects-exist-before-startup")
	}
	if p.realBo {
		c.Note("backoff:real-CalculateDelay")
	} else {
		c.Note("backoff:linear-shortened")
	}
	if nk > 0 {
		c.Note("case:with-kubernetes-bindings")
	} else {
		c.Note("case:schedule-and-onStartup-only")
	}
	c04Execute(c, r, p)
}

// The layout of DESIGN §9 row 4: head task allowFailure:true, follower of the same hook
// allowFailure:false, failing hook.
func c04Witness(c *Case, r *Run, headAF, followerAF bool, queueN int, fails int) {
	hooks := []c04Hook{{Name: "hook01", Num: 1, Queue: queueN, Bindings: []c04Binding{
		{Name: "b2", Crontab: "1 0 1 1 *", AF: headAF},
		{Name: "b3", Crontab: "2 0 1 1 *", AF: followerAF},
	}}, {Name: "hook02", Num: 2, Queue: queueN, Bindings: []c04Binding{{Name: "b4", Crontab: "3 0 1 1 *"}}}}
	p := c04Plan{hooks: hooks, boInit: 20 * time.Millisecond, boStep: 5 * time.Millisecond, maxSteps: 20,
		initial: map[int][]c04Ev{queueN: {{1, 0, false}, {0, 0, false}, {0, 1, false}, {1, 0, false}}}}
	p.outcome = func(id, failed int) string {
		if id >= 4 && failed < fails { // tasks 1..3 are EnableSchedule ×2 and the gate run of hook02
			return "exit"
		}
		return "ok"
	}
	c04Execute(c, r, p)
}

// Two bindings of one hook that share their binding name (both unnamed: "schedule"; or the same
// explicit name) with different allowFailure, adjacent in one queue, failing hook; CancelTaskDelay()
// is called while runs are blocked.
func c04SameNameWitness(c *Case, r *Run, cfgName string, headAF bool, queueN int) {
	hooks := []c04Hook{{Name: "hook01", Num: 1, Queue: queueN, Bindings: []c04Binding{
		{Name: "b2", Crontab: "1 0 1 1 *", AF: headAF, CfgName: cfgName},
		{Name: "b3", Crontab: "2 0 1 1 *", AF: !headAF, CfgName: cfgName},
	}}, {Name: "hook02", Num: 2, Queue: queueN, Bindings: []c04Binding{{Name: "b4", Crontab: "3 0 1 1 *"}}}}
	p := c04Plan{hooks: hooks, boInit: 30 * time.Millisecond, boStep: 5 * time.Millisecond, maxSteps: 20,
		initial: map[int][]c04Ev{queueN: {{1, 0, false}, {0, 0, false}, {0, 1, false}, {0, 0, false}, {1, 0, false}}}}
	gate := -1
	p.outcome = func(id, failed int) string {
		if gate < 0 {
			gate = id // the gate run of hook02
			return "ok"
		}
		if failed < 2 {
			return "exit"
		}
		return "ok"
	}
	p.cancels = func(qn, step int) int { return 1 }
	c04Execute(c, r, p)
}

// A hook process that is terminated by a signal instead of exiting (with and without output files
// written before), a task of another hook waiting behind it.
func c04KillWitness(c *Case, r *Run) {
	hooks := []c04Hook{{Name: "hook01", Num: 1, Queue: 1, Bindings: []c04Binding{{Name: "b2", Crontab: "1 0 1 1 *"}}},
		{Name: "hook02", Num: 2, Queue: 1, Bindings: []c04Binding{{Name: "b3", Crontab: "2 0 1 1 *"}}}}
	p := c04Plan{hooks: hooks, boInit: 30 * time.Millisecond, boStep: 5 * time.Millisecond, maxSteps: 30,
		initial: map[int][]c04Ev{1: {{1, 0, false}, {0, 0, false}, {1, 0, false}}}}
	m := `{"name":"verif_k","set":1}` + "\n"
	outs := []*c04Out{
		{Sig: 9, Shape: "killed-by-signal-9", Bad: true},
		{Sig: 15, Metrics: m, Shape: "killed-by-signal-15", Bad: true},
		{Sig: 11, Shape: "killed-by-signal-11", Bad: true},
		{Exit: 255, Metrics: m, Shape: "exit-255", Bad: true},
		{Metrics: m, Shape: "valid-output"},
	}
	first := -1
	p.genOut = func(id, failed int) *c04Out {
		if first < 0 {
			first = id // the gate run of hook02
		}
		if id == first || id == first+2 {
			return &c04Out{Shape: "valid-output", PApply: true}
		}
		o := *outs[min(failed, len(outs)-1)]
		o.PApply = true
		return &o
	}
	p.cancels = func(qn, step int) int { return step % 2 }
	c04Execute(c, r, p)
}

// Synchronization layouts: grouped and ungrouped kubernetes bindings with mixed allowFailure, failing.
func c04SyncWitness(c *Case, r *Run) {
	hooks := []c04Hook{{Name: "hook01", Num: 1, OnStartup: 1, Queue: 0, KBindings: []c04KBinding{
		{Name: "k1", AF: true, Group: 1, EOS: true},
		{Name: "k2", AF: false, Group: 1, EOS: true},
		{Name: "k3", AF: false, Group: 0, EOS: true},
		{Name: "k4", AF: false, Group: 0, EOS: false},
		{Name: "k5", AF: false, Group: 2, EOS: true},
		{Name: "k6", AF: false, Group: 2, EOS: true},
	}}}
	p := c04Plan{hooks: hooks, boInit: 20 * time.Millisecond, boStep: 5 * time.Millisecond, maxSteps: 40,
		initial: map[int][]c04Ev{0: {{0, 1, true}, {0, 2, true}, {0, 0, true}}}}
	p.outcome = func(id, failed int) string {
		if failed < 1 {
			return "exit"
		}
		return "ok"
	}
	c04Execute(c, r, p)
}

// What the hook is shown on a retry: kubernetes Event tasks (two objects of one binding with a
// jqFilter and snapshots, one of a grouped binding), a schedule task with snapshots, Synchronization
// runs over objects that exist before the start; every run fails twice, then succeeds.
func c04PayloadWitness(c *Case, r *Run) {
	hooks := []c04Hook{{Name: "hook01", Num: 1, OnStartup: 1, Queue: 0, KBindings: []c04KBinding{
		{Name: "k1", EOS: true, Jq: true, Snaps: []string{"k1", "k2"}},
		{Name: "k2", EOS: true, Group: 1},
		{Name: "k3", EOS: true, Group: 1, Jq: true},
	}, Bindings: []c04Binding{
		{Name: "b1", Crontab: "1 0 1 1 *", Snaps: []string{"k1"}},
		{Name: "b2", Crontab: "2 0 1 1 *", Group: 1},
	}}, {Name: "hook02", Num: 2, Queue: 0, Bindings: []c04Binding{{Name: "b4", Crontab: "3 0 1 1 *", AF: true}}}}
	p := c04Plan{hooks: hooks, boInit: 25 * time.Millisecond, boStep: 5 * time.Millisecond, maxSteps: 60, preObjs: 2,
		initial: map[int][]c04Ev{0: {{1, 0, false}, {0, 0, true}, {0, 0, true}, {0, 0, false}, {0, 1, true}, {0, 1, false}, {1, 0, false}, {0, 2, true}, {0, 0, true}}}}
	p.outcome = func(id, failed int) string {
		if failed < 2 {
			return "exit"
		}
		return "ok"
	}
	// an object of k2 and one of k1 appear while the combined Event run waits in its first back-off
	calls := 0
	p.boArrivals = func(qn, step int) []c04Ev {
		if calls++; calls == 1 {
			return []c04Ev{{0, 1, true}, {0, 0, true}}
		}
		return nil
	}
	c04Execute(c, r, p)
}

// Output-file layouts: a task that does not allow failure leaves unparsable output files behind
// (exit code 0) several times, then good ones; a later task of another hook waits behind it.
func c04OutWitness(c *Case, r *Run, table bool) {
	hooks := []c04Hook{{Name: "hook01", Num: 1, Queue: 1, Bindings: []c04Binding{{Name: "b2", Crontab: "1 0 1 1 *"}}},
		{Name: "hook02", Num: 2, Queue: 1, Bindings: []c04Binding{{Name: "b3", Crontab: "2 0 1 1 *"}}}}
	p := c04Plan{hooks: hooks, boInit: 20 * time.Millisecond, boStep: 5 * time.Millisecond, maxSteps: 30,
		initial: map[int][]c04Ev{1: {{1, 0, false}, {0, 0, false}, {1, 0, false}}}}
	m := `{"name":"verif_w","set":1}`
	cm := `{"operation":"CreateOrUpdate","object":{"apiVersion":"v1","kind":"ConfigMap","metadata":{"name":"w","namespace":"NS"}}}`
	outs := []*c04Out{
		{Metrics: m + "}\n", Shape: "metrics:stray-closer-last", Bad: true},
		{Metrics: m + "\n]\n" + m + "\n", Shape: "metrics:stray-closer-middle", Bad: true},
		{Metrics: m + "\n" + m[:12], Shape: "metrics:truncated", Bad: true},
		{Metrics: `{"name":"verif_w","set":"1"}`, Shape: "metrics:wrong-type-set", Bad: true},
		{Patch: cm + "}\n", PApply: true, Shape: "patch:stray-closer-last", Bad: true},
		{Metrics: m + "\n" + m + "\n", Patch: cm, PApply: true, Shape: "valid-output"},
	}
	if table {
		// every member legal, the combination not: nothing applies such an operation
		outs = []*c04Out{
			{Metrics: `{"group":"verif_grp","name":"verif_w_h","action":"observe","value":1,"buckets":[1,2]}` + "\n", Shape: "metrics:table-grouped-observe", Bad: true},
			{Metrics: m + "\n" + `{"name":"verif_w","action":"expire"}` + "\n", Shape: "metrics:table-ungrouped-expire", Bad: true},
			{Metrics: `{"group":"verif_grp","action":"set","value":1}`, Shape: "metrics:table-grouped-set-without-name", Bad: true},
			{Metrics: `{"name":"verif_w_h","action":"observe","value":1}` + "\n" + m, Shape: "metrics:table-observe-without-buckets", Bad: true},
			{Metrics: `{"group":"verif_grp","name":"verif_w_gc","action":"Expire"}`, Shape: "metrics:table-action-wrong-case", Bad: true},
			{Metrics: `{"group":"verif_grp","name":"verif_w_gg","set":1,"add":1}`, Shape: "metrics:table-set-and-add", Bad: true},
			{Metrics: `{"group":"verif_grp","name":"verif_w_gc","action":"add","value":1}` + "\n" + `{"group":"verif_grp2","action":"expire","name":null}` + "\n" +
				`{"name":"verif_w_h","action":"observe","value":1,"buckets":[1,2]}` + "\n" + `{"group":"verif_grp","name":"verif_w_gg","set":2,"action":"observe"}` + "\n", Shape: "valid-output"},
		}
	}
	first := -1
	p.genOut = func(id, failed int) *c04Out {
		if first < 0 {
			first = id // the gate run of hook02
		}
		if id == first || id == first+2 {
			return &c04Out{Shape: "valid-output", Metrics: m, PApply: true}
		}
		o := *outs[min(failed, len(outs)-1)]
		o.Patch = strings.ReplaceAll(o.Patch, "NS", fmt.Sprintf("c04-%d-%d-out", r.Seed, c.Idx))
		return &o
	}
	c04Execute(c, r, p)
}

func runC04(r *Run) {
	r.Rule = "part 1: the real CalculateDelay (8 initial delays x retry counts 0..40, repeated) and the queue's default ExponentialBackoffFn: every observed delay must be a member of the model's set {calcDelay k r | r < 1000}; oracle: initial <= delay <= 32s. part 2: the real operator (NewShellOperator + real metric storages + kube-client/fake + real hook manager, kube events manager, events handler and queues) with 1..3 generated bash hooks (onStartup, 1..3 schedule bindings, in 60% of the cases 1..3 kubernetes bindings on ConfigMaps, each with allowFailure/group, kubernetes ones with executeHookOnSynchronization; queue main or q1) whose every execution blocks at a gate until the harness lets it finish as scripted (ok / exit 1 / unparsable metrics file / unparsable patch file / metric operation that fails validation / patch operation that cannot be applied); startup runs onStartup and Synchronization tasks; then schedule events are fired through ScheduleManager.Ch() and kubernetes events by creating objects in the fake cluster while a run is blocked, so queue layouts of 1..6 tasks (+ up to 4 arriving during runs) with mixed allowFailure values are in the queue when the head is handled; back-off shortened through ExponentialBackoffFn (15..30 ms + 5 ms*failureCount, or the real CalculateDelay for the first failure). Observation per run (taken inside a wrapper of the queue's Handler field and from the hook): queue at handler entry, contexts in the hook's context file, queue at handler return, failure counter, back-off returned, time from the back-off call to the next handler entry. 60% of the failing and half of the successful executions leave GENERATED output files behind (exit code, text of the metrics file, text of the patch file: 1..3 valid metric operations / 1..2 valid patch specs in varied spelling, damaged by one of: truncated, stray closer }/] before the first / between two / after the last document, trailing garbage, wrong type of a field, top level not an object, separator between documents, bad token, operation failing validation, unknown field, patch that cannot be applied, non-zero exit with good files); for these runs the lines carry exit code and file texts and the Lean driver decides from the texts whether the run failed. Fourth wave dimensions: 45% of the v1 hooks have bindings that SHARE A NAME (no name: line = default name of the kind, or one explicit name; ungrouped kubernetes bindings too, also across kinds); 18% of the generated failing outputs end with the hook process TERMINATED BY A SIGNAL (16 signals, after the files are written; exit=sig<n> on the lines), exit codes 1 2 3 64 126 127 128 130 137 143 254 255; in half of the cases the public CancelTaskDelay() of the queue is called 1..2 times in 35% of the runs WHILE THE HOOK IS BLOCKED (worker inside the handler, no wait in progress; cancel line: flags read through VerifWaitFlags) — the back-off of a failure of that run must still last its length (oracle begin). Fifth wave dimensions: every hook execution COPIES THE CONTEXT FILE IT RECEIVED; the oracle lines carry per context what it held (pay=<watch event, object+filterResult>/<objects>/<snapshots entries>, interned canonical JSON) and oracle begin compares the retry of a failed run with the failed run itself (Event members identical, objects / snapshot entries a superset, every ungrouped Event context as often); ungrouped schedule (50%) / kubernetes (40%) bindings get includeSnapshotsFrom (subset of the unambiguously named kubernetes bindings of the hook), half of the kubernetes bindings a jqFilter, in half of the cases with kubernetes bindings 1..2 objects per binding exist before the operator starts. Sixth wave dimensions: metric operations drawn from the CROSS PRODUCT group x action (set/add/observe/expire/none/unknown/wrong case) x name x value x buckets x set/add shortcuts, every member spelled legally (3 of 12 spellings of the valid documents; damage shape validation-table = an unsupported combination among good documents); after every run with a generated output the harness looks for the EFFECT of every operation of the metrics file in the registry of the operator's HookMetricStorage (Gather: a series of its name with the hook's label; expire = absence) and states unapplied=<n> on oracle end — operations without effect while the task of a binding that does not allow failure left the queue is a violation, whatever the model says about the text. part 3: generated and corpus texts through MetricOperationsFromBytes+ValidateOperations and ParseOperations alone, compared with the model's verdict. Non-trivial: >= 2 tasks in the layouts. distinct = distinct op-line sequences."
	r.CaseTimeout = 300 * time.Second
	r.One(0, func(c *Case, _ *Rng) { c04Delays(c, r) })
	r.One(1, func(c *Case, _ *Rng) {
		c.Desc = "corpus (DESIGN §9 row 4): head allowFailure:true + follower of the same hook allowFailure:false, hook fails twice"
		c.Nontrivial = true
		c04Witness(c, r, true, false, 1, 2)
	})
	r.One(2, func(c *Case, _ *Rng) {
		c.Desc = "corpus: head allowFailure:false + follower allowFailure:true, hook fails twice, main queue"
		c.Nontrivial = true
		c04Witness(c, r, false, true, 0, 2)
	})
	r.One(3, func(c *Case, _ *Rng) {
		c.Desc = "corpus: onStartup + grouped/ungrouped Synchronization tasks with mixed allowFailure and executeHookOnSynchronization:false, every run fails once; then kubernetes events"
		c.Nontrivial = true
		c04SyncWitness(c, r)
	})
	r.One(5, func(c *Case, _ *Rng) { c04ParserCorpus(c) })
	r.One(6, func(c *Case, rng *Rng) { c04Parsers(c, rng, r) })
	r.One(7, func(c *Case, _ *Rng) {
		c.Desc = "corpus: metrics files with a stray closing brace / bracket after good documents, a truncated one, a wrong type; patch file with a stray closer; each then a good output"
		c.Nontrivial = true
		c04OutWitness(c, r, false)
	})
	r.One(5000000, func(c *Case, _ *Rng) {
		c.Desc = "corpus: metrics files whose operations are spelled legally but in an unsupported COMBINATION (grouped observe, ungrouped expire, grouped set without name, observe without buckets, action in the wrong case, set+add), exit code 0 each time, then a good output with grouped / ungrouped / shortcut operations; a task of another hook waits behind"
		c.Nontrivial = true
		c04OutWitness(c, r, true)
	})
	r.One(8, func(c *Case, _ *Rng) {
		c.Desc = "corpus: two UNNAMED schedule bindings of one hook (both named \"schedule\"), head allowFailure:true, follower allowFailure:false, hook fails twice; CancelTaskDelay() while each run is blocked"
		c.Nontrivial = true
		c04SameNameWitness(c, r, "-", true, 1)
	})
	r.One(9, func(c *Case, _ *Rng) {
		c.Desc = "corpus: two schedule bindings with the same explicit name, head allowFailure:false, follower allowFailure:true, main queue"
		c.Nontrivial = true
		c04SameNameWitness(c, r, "same", false, 0)
	})
	r.One(4, func(c *Case, _ *Rng) {
		c.Desc = "corpus: hook process terminated by SIGKILL / SIGTERM / SIGSEGV (ExitCode() = -1), then exit 255, then success; a task of another hook waits behind; CancelTaskDelay() during every other run"
		c.Nontrivial = true
		c04KillWitness(c, r)
	})
	r.One(3000000, func(c *Case, _ *Rng) {
		c.Desc = "corpus: what the hook is shown on a retry — Event tasks (jqFilter, snapshots, grouped), schedule with snapshots, Synchronization over existing objects; every run fails twice"
		c.Nontrivial = true
		c04PayloadWitness(c, r)
	})
	r.Cases(10, r.N(120, 1000), 0, func(c *Case, rng *Rng) { c04Random(c, rng, r) })
	if r.Thorough() {
		// exhaustive small scope: layouts of 1..3 schedule tasks of two hooks x allowFailure x failure counts 0..2
		type cfg struct {
			n     int
			af    [3]bool
			other [3]bool
			fails int
			share bool // the two bindings of a hook are unnamed: both are called "schedule"
		}
		var cfgs []cfg
		for n := 1; n <= 3; n++ {
			for m := 0; m < 1<<(2*n); m++ {
				var x cfg
				x.n = n
				for i := 0; i < n; i++ {
					x.af[i] = m>>(2*i)&1 == 1
					x.other[i] = m>>(2*i+1)&1 == 1
				}
				if x.other[0] {
					continue
				}
				for f := 0; f <= 2; f++ {
					x.fails = f
					x.share = false
					cfgs = append(cfgs, x)
					x.share = true
					cfgs = append(cfgs, x)
				}
			}
		}
		r.Cases(1000000, len(cfgs), 0, func(c *Case, _ *Rng) {
			x := cfgs[c.Idx-1000000]
			hooks := []c04Hook{
				{Name: "hook01", Num: 1, Queue: 1, Bindings: []c04Binding{{Name: "b2", Crontab: "1 0 1 1 *", AF: false}, {Name: "b3", Crontab: "2 0 1 1 *", AF: true}}},
				{Name: "hook02", Num: 2, Queue: 1, Bindings: []c04Binding{{Name: "b4", Crontab: "3 0 1 1 *", AF: false}, {Name: "b5", Crontab: "4 0 1 1 *", AF: true}}},
				{Name: "hook03", Num: 3, Queue: 1, Bindings: []c04Binding{{Name: "b6", Crontab: "5 0 1 1 *"}}},
			}
			if x.share {
				for hi := 0; hi < 2; hi++ {
					for bi := range hooks[hi].Bindings {
						hooks[hi].Bindings[bi].CfgName = "-"
					}
				}
			}
			lay := []c04Ev{{2, 0, false}}
			for i := 0; i < x.n; i++ {
				lay = append(lay, c04Ev{c04B01(x.other[i]), c04B01(x.af[i]), false})
			}
			p := c04Plan{hooks: hooks, boInit: 15 * time.Millisecond, boStep: 5 * time.Millisecond, maxSteps: 20,
				initial: map[int][]c04Ev{1: lay}}
			gate := -1
			p.outcome = func(id, failed int) string {
				if gate < 0 {
					gate = id // the first run is the gate run of hook03
					return "ok"
				}
				if id != gate && failed < x.fails {
					return "exit"
				}
				return "ok"
			}
			c.Nontrivial = x.n >= 2
			c04Execute(c, r, p)
		})
		r.Exhaust = true
		r.Extra["exhaustive_scope"] = fmt.Sprintf("all %d scripts: layouts of 1..3 schedule tasks over 2 hooks x allowFailure, every task failing 0..2 times, x (bindings with unique names | both bindings of a hook unnamed)", len(cfgs))
		// exhaustive small scope 2: what the hook is shown on the retry of kubernetes Event tasks —
		// jqFilter x includeSnapshotsFrom x grouped x objects before the start x second event of the same / another binding x 1..2 failures
		r.Cases(4000000, 64, 0, func(c *Case, _ *Rng) {
			m := c.Idx - 4000000
			bit := func(i int) bool { return m>>i&1 == 1 }
			k1 := c04KBinding{Name: "k1", EOS: true, Jq: bit(0)}
			if bit(1) {
				k1.Snaps = []string{"k1", "k2"}
			}
			if bit(2) {
				k1.Group = 1
			}
			hooks := []c04Hook{
				{Name: "hook01", Num: 1, Queue: 1, KBindings: []c04KBinding{k1, {Name: "k2", EOS: true}}},
				{Name: "hook02", Num: 2, Queue: 1, Bindings: []c04Binding{{Name: "b4", Crontab: "3 0 1 1 *", AF: true}}},
			}
			second := c04Ev{0, 0, true}
			if bit(4) {
				second = c04Ev{0, 1, true}
			}
			fails := 1
			if bit(5) {
				fails = 2
			}
			p := c04Plan{hooks: hooks, boInit: 15 * time.Millisecond, boStep: 5 * time.Millisecond, maxSteps: 30,
				initial: map[int][]c04Ev{1: {{1, 0, false}, {0, 0, true}, second, {1, 0, false}}}}
			if bit(3) {
				p.preObjs = 1
			}
			p.outcome = func(id, failed int) string {
				if failed < fails {
					return "exit"
				}
				return "ok"
			}
			c.Desc = fmt.Sprintf("exhaustive payload scope: jq=%v snaps=%v grouped=%v pre=%v second-of-other-binding=%v fails=%d", bit(0), bit(1), bit(2), bit(3), bit(4), fails)
			c.Nontrivial = true
			c04Execute(c, r, p)
		})
		r.Extra["exhaustive_scope_payload"] = "all 64 scripts: two kubernetes Event tasks (same / another binding) of one hook behind a gate run, binding with jqFilter x includeSnapshotsFrom x group x objects existing before the start, every run failing 1..2 times"
		// the default back-off once (5 s)
		r.One(2000000, func(c *Case, _ *Rng) {
			c.Desc = "default ExponentialBackoffFn (5 s initial delay), one failure then success"
			c.Nontrivial = true
			hooks := []c04Hook{{Name: "hook01", Num: 1, Queue: 1, Bindings: []c04Binding{{Name: "b2", Crontab: "1 0 1 1 *"}}}}
			p := c04Plan{hooks: hooks, boInit: 0, maxSteps: 10, initial: map[int][]c04Ev{1: {{0, 0, false}}}}
			p.outcome = func(id, failed int) string {
				if failed < 1 {
					return "exit"
				}
				return "ok"
			}
			c04Execute(c, r, p)
		})
	}
}
