package main

import (
	"context"
	"encoding/json"
	"fmt"
	"os"
	"path/filepath"
	"strconv"
	"strings"
	"sync"
	"syscall"
	"time"

	"github.com/flant/kube-client/fake"

	"github.com/flant/shell-operator/pkg/hook/task_metadata"
	htypes "github.com/flant/shell-operator/pkg/hook/types"
	shell_operator "github.com/flant/shell-operator/pkg/shell-operator"
	"github.com/flant/shell-operator/pkg/task"
	"github.com/flant/shell-operator/pkg/task/queue"
	eb "github.com/flant/shell-operator/pkg/utils/exponential_backoff"
)

func init() { suites["c04"] = runC04 }

// ================================================================ part 1: CalculateDelay

func c04Delays(c *Case, r *Run) {
	c.Desc = "CalculateDelay: constants and membership of observed delays in the model's set"
	c.Nontrivial = true
	c.Op("facts", fmt.Sprintf("expCount=%d max=%d rand=%d factor=%d init=%d stale=false",
		eb.ExponentialCalculationsCount, eb.MaxExponentialBackoffDelay.Nanoseconds(), eb.ExponentialDelayRandomMs,
		int(eb.ExponentialDelayFactor), queue.DefaultInitialDelayOnFailedTask.Nanoseconds()))
	inits := []time.Duration{queue.DefaultInitialDelayOnFailedTask, time.Millisecond, 3300 * time.Millisecond, 0,
		250 * time.Millisecond, 31950 * time.Millisecond, 32 * time.Second, 40 * time.Second}
	n := r.N(12, 120)
	for _, init := range inits {
		for k := 0; k <= 40; k++ {
			seen := map[int64]bool{}
			for i := 0; i < n; i++ {
				got := eb.CalculateDelay(init, k).Nanoseconds()
				if seen[got] {
					continue
				}
				seen[got] = true
				args := fmt.Sprintf("init=%d k=%d got=%d", init.Nanoseconds(), k, got)
				c.Op("delay "+args, "member")
				if init <= eb.MaxExponentialBackoffDelay {
					c.Oracle("delay " + args)
				}
			}
		}
	}
	// the closure the queues are created with
	q := queue.NewTasksQueue()
	for k := 0; k <= 12; k++ {
		for i := 0; i < n; i++ {
			got := q.ExponentialBackoffFn(k).Nanoseconds()
			args := fmt.Sprintf("init=%d k=%d got=%d", queue.DefaultInitialDelayOnFailedTask.Nanoseconds(), k, got)
			c.Op("delay "+args, "member")
			c.Oracle("delay " + args)
		}
	}
}

// ================================================================ part 2: the real operator

type c04Binding struct {
	Name    string
	Num     int // interned binding name
	Crontab string
	AF      bool
	Group   int
}

type c04Hook struct {
	Name      string
	Num       int
	OnStartup int // 0 = none, else the order
	Queue     int // 0 = main, 1 = q1, …
	Bindings  []c04Binding
}

func c04QueueName(n int) string {
	if n == 0 {
		return "main"
	}
	return "q" + strconv.Itoa(n)
}

func c04GroupName(g int) string {
	if g == 0 {
		return ""
	}
	return "g" + strconv.Itoa(g)
}

func (h c04Hook) script(dir string) string {
	var b strings.Builder
	b.WriteString("#!/usr/bin/env bash\n")
	b.WriteString("if [[ \"$1\" == \"--config\" ]]; then\ncat <<'EOF'\nconfigVersion: v1\n")
	if h.OnStartup > 0 {
		fmt.Fprintf(&b, "onStartup: %d\n", h.OnStartup)
	}
	if len(h.Bindings) > 0 {
		b.WriteString("schedule:\n")
		for _, bd := range h.Bindings {
			fmt.Fprintf(&b, "- name: %s\n  crontab: \"%s\"\n  allowFailure: %v\n", bd.Name, bd.Crontab, bd.AF)
			if h.Queue != 0 {
				fmt.Fprintf(&b, "  queue: %s\n", c04QueueName(h.Queue))
			}
			if bd.Group != 0 {
				fmt.Fprintf(&b, "  group: %s\n", c04GroupName(bd.Group))
			}
		}
	}
	b.WriteString("EOF\nexit 0\nfi\n")
	fmt.Fprintf(&b, "D=%q\nH=%q\n", dir, h.Name)
	b.WriteString(`n=$(cat "$D/count.$H" 2>/dev/null || echo 0); n=$((n+1)); echo $n > "$D/count.$H"
ctx=$(jq -c '[.[] | [.binding, (.type // "-"), (.groupName // "-")]]' "$BINDING_CONTEXT_PATH")
printf 'start\t%s\t%s\t%s\t%s\n' "$H" "$n" "$(date +%s%N)" "$ctx" >> "$D/log"
while [ ! -e "$D/gate.$H.$n" ]; do sleep 0.003; done
mode=$(cat "$D/gate.$H.$n")
printf 'end\t%s\t%s\t%s\t%s\n' "$H" "$n" "$(date +%s%N)" "$mode" >> "$D/log"
case "$mode" in
  ok) exit 0 ;;
  exit) exit 1 ;;
  metrics) echo '{"name": 5, bad' > "$METRICS_PATH"; exit 0 ;;
  patch) echo 'this is: [not, a valid' > "$KUBERNETES_PATCH_PATH"; exit 0 ;;
  metricsop) echo '{"name":"verif_m","action":"bogus","value":1}' > "$METRICS_PATH"; exit 0 ;;
  patchop) printf 'operation: MergePatch\nkind: ConfigMap\nnamespace: default\nname: does-not-exist\nmergePatch:\n  data:\n    a: b\n' > "$KUBERNETES_PATCH_PATH"; exit 0 ;;
esac
exit 3
`)
	return b.String()
}

type c04BoCall struct {
	fc    int
	delay time.Duration
	at    time.Time
}

// c04Ret is taken inside the (wrapped) queue handler when the real handler returns: the queue as
// it is after combining and running the hook, before the worker applies the result.
type c04Ret struct {
	status queue.TaskStatus
	post   []c04Snap
}

type c04Snap struct {
	id   string
	af   bool
	ctxs string
}

type c04Start struct {
	hook string
	n    int
	ts   int64
	ctxs string // canonical b:t:g;…
}

type c04World struct {
	c      *Case
	dir    string
	op     *shell_operator.ShellOperator
	hooks  []c04Hook
	cancel context.CancelFunc
	tasks  *Interner // task uuid → number
	binds  *Interner // binding name → number
	boInit time.Duration
	boStep time.Duration
	realBo bool // use the real CalculateDelay (first failure only)

	imu     sync.Mutex
	mu      sync.Mutex
	boCalls map[string][]c04BoCall
	rets    map[string]chan c04Ret
	entered map[string]time.Time // when the worker entered the handler last (per queue)
	logSeen int
	// per queue: the previous non-allowed failure (for the retry-timing oracle)
	lastFail map[int]*c04BoCall
	running  map[int]*c04Running
}

type c04Running struct {
	head  task.Task
	hook  c04Hook
	start c04Start
}

func (w *c04World) configure(q *queue.TaskQueue) {
	qn := q.Name
	realHandler := q.Handler
	w.mu.Lock()
	w.rets[qn] = make(chan c04Ret, 256)
	ch := w.rets[qn]
	w.mu.Unlock()
	q.Handler = func(t task.Task) queue.TaskResult {
		w.mu.Lock()
		w.entered[qn] = time.Now()
		w.mu.Unlock()
		res := realHandler(t)
		if t.GetType() == task_metadata.HookRun {
			var post []c04Snap
			q.Iterate(func(x task.Task) {
				hm := task_metadata.HookMetadataAccessor(x)
				post = append(post, c04Snap{x.GetId(), hm.AllowFailure, w.metaCtxs(hm)})
			})
			ch <- c04Ret{res.Status, post}
		}
		return res
	}
	q.WaitLoopCheckInterval = 2 * time.Millisecond
	q.DelayOnQueueIsEmpty = 4 * time.Millisecond
	q.DelayOnRepeat = 4 * time.Millisecond
	name := q.Name
	orig := q.ExponentialBackoffFn
	q.ExponentialBackoffFn = func(fc int) time.Duration {
		var d time.Duration
		switch {
		case w.boInit == 0:
			d = orig(fc) // the closure the queue was created with (default 5s initial delay)
		case w.realBo:
			d = eb.CalculateDelay(w.boInit, fc)
		default:
			d = w.boInit + time.Duration(fc)*w.boStep
		}
		w.mu.Lock()
		w.boCalls[name] = append(w.boCalls[name], c04BoCall{fc, d, time.Now()})
		w.mu.Unlock()
		return d
	}
}

func newC04World(c *Case, r *Run, hooks []c04Hook, boInit, boStep time.Duration, realBo bool) (*c04World, error) {
	dir := filepath.Join(r.Scratch, fmt.Sprintf("c04-%d", c.Idx))
	if err := os.MkdirAll(filepath.Join(dir, "hooks"), 0o755); err != nil {
		return nil, err
	}
	_ = os.MkdirAll(filepath.Join(dir, "tmp"), 0o755)
	w := &c04World{c: c, dir: dir, hooks: hooks, tasks: NewInterner(), binds: NewInterner(), boInit: boInit, boStep: boStep,
		realBo: realBo, boCalls: map[string][]c04BoCall{}, rets: map[string]chan c04Ret{}, entered: map[string]time.Time{}, lastFail: map[int]*c04BoCall{}, running: map[int]*c04Running{}}
	for _, h := range hooks {
		// a child forked by another goroutine meanwhile would inherit the write fd (ETXTBSY on exec)
		syscall.ForkLock.RLock()
		err := os.WriteFile(filepath.Join(dir, "hooks", h.Name+".sh"), []byte(h.script(dir)), 0o755)
		syscall.ForkLock.RUnlock()
		if err != nil {
			return nil, err
		}
	}
	ctx, cancel := context.WithCancel(context.Background())
	w.cancel = cancel
	fc := fake.NewFakeCluster(fake.ClusterVersionV127)
	op, err := shell_operator.VerifAssemble(ctx, fc.Client, filepath.Join(dir, "hooks"), filepath.Join(dir, "tmp"))
	for i := 0; err != nil && strings.Contains(err.Error(), "text file busy") && i < 20; i++ {
		// ETXTBSY: another goroutine forked while the script was still open for writing
		time.Sleep(10 * time.Millisecond)
		op, err = shell_operator.VerifAssemble(ctx, fc.Client, filepath.Join(dir, "hooks"), filepath.Join(dir, "tmp"))
	}
	if err != nil {
		cancel()
		return nil, err
	}
	w.op = op
	seen := map[int]bool{}
	for _, h := range hooks {
		if h.Queue != 0 && !seen[h.Queue] {
			seen[h.Queue] = true
			op.TaskQueues.NewNamedQueue(c04QueueName(h.Queue), op.VerifTaskHandler())
			w.configure(op.TaskQueues.GetByName(c04QueueName(h.Queue)))
			op.TaskQueues.GetByName(c04QueueName(h.Queue)).Start()
		}
	}
	op.VerifBootstrapMainQueue()
	w.configure(op.TaskQueues.GetMain())
	op.ManagerEventsHandler.Start()
	return w, nil
}

func (w *c04World) close() {
	// let every blocked hook go, then stop
	for _, h := range w.hooks {
		for n := 1; n < 200; n++ {
			_ = os.WriteFile(filepath.Join(w.dir, fmt.Sprintf("gate.%s.%d", h.Name, n)), []byte("ok"), 0o644)
		}
	}
	w.op.Shutdown()
	w.cancel()
	time.Sleep(20 * time.Millisecond)
}

func (w *c04World) hookByName(name string) (c04Hook, bool) {
	for _, h := range w.hooks {
		if h.Name == name || h.Name+".sh" == name {
			return h, true
		}
	}
	return c04Hook{}, false
}

func (w *c04World) queueTasks(qn int) []task.Task {
	var ts []task.Task
	q := w.op.TaskQueues.GetByName(c04QueueName(qn))
	if q == nil {
		return nil
	}
	q.Iterate(func(t task.Task) { ts = append(ts, t) })
	return ts
}

func (w *c04World) ids(ts []task.Task) string {
	var ids []int
	for _, t := range ts {
		ids = append(ids, w.tasks.Id(t.GetId()))
	}
	return joinInts(ids)
}

// c04MetaCtxs prints the contexts of a task's metadata the way the hook sees them.
func (w *c04World) metaCtxs(hm task_metadata.HookMetadata) string {
	w.imu.Lock()
	defer w.imu.Unlock()
	var ss []string
	for _, bc := range hm.BindingContext {
		g := 0
		if bc.Metadata.Group != "" {
			g, _ = strconv.Atoi(strings.TrimPrefix(bc.Metadata.Group, "g"))
		}
		ty := 4
		switch {
		case g != 0:
			ty = 2
		case bc.Metadata.BindingType == htypes.Schedule:
			ty = 3
		case bc.Metadata.BindingType == htypes.OnKubernetesEvent && bc.Type == "Synchronization":
			ty = 0
		case bc.Metadata.BindingType == htypes.OnKubernetesEvent:
			ty = 1
		}
		ss = append(ss, fmt.Sprintf("%d:%d:%d", w.binds.Id(bc.Binding), ty, g))
	}
	if len(ss) == 0 {
		return "-"
	}
	return strings.Join(ss, ";")
}

// parse the hook's own view (jq output) into the canonical form
func (w *c04World) hookCtxs(js string) string {
	w.imu.Lock()
	defer w.imu.Unlock()
	var raw [][]string
	if err := json.Unmarshal([]byte(js), &raw); err != nil {
		return "unparsable"
	}
	var ss []string
	for _, x := range raw {
		if len(x) != 3 {
			return "unparsable"
		}
		g := 0
		if x[2] != "-" {
			g, _ = strconv.Atoi(strings.TrimPrefix(x[2], "g"))
		}
		ty := map[string]int{"Synchronization": 0, "Event": 1, "Group": 2, "Schedule": 3, "-": 4}[x[1]]
		ss = append(ss, fmt.Sprintf("%d:%d:%d", w.binds.Id(x[0]), ty, g))
	}
	if len(ss) == 0 {
		return "-"
	}
	return strings.Join(ss, ";")
}

func (w *c04World) readStarts() []c04Start {
	b, _ := os.ReadFile(filepath.Join(w.dir, "log"))
	var res []c04Start
	for _, l := range strings.Split(string(b), "\n") {
		f := strings.Split(l, "\t")
		if len(f) == 5 && f[0] == "start" {
			n, _ := strconv.Atoi(f[2])
			ts, _ := strconv.ParseInt(f[3], 10, 64)
			res = append(res, c04Start{hook: f[1], n: n, ts: ts, ctxs: f[4]})
		}
	}
	return res
}

// waitStart waits for the next unseen start line.
func (w *c04World) waitStart(timeout time.Duration) (c04Start, bool) {
	deadline := time.Now().Add(timeout)
	for time.Now().Before(deadline) {
		ss := w.readStarts()
		if len(ss) > w.logSeen {
			s := ss[w.logSeen]
			w.logSeen++
			return s, true
		}
		time.Sleep(2 * time.Millisecond)
	}
	return c04Start{}, false
}

func b01(b bool) int {
	if b {
		return 1
	}
	return 0
}

// describe the tasks already sitting in a queue (startup tasks) to the model
func (w *c04World) declareExisting(qn int) {
	for _, t := range w.queueTasks(qn) {
		hm := task_metadata.HookMetadataAccessor(t)
		h, _ := w.hookByName(hm.HookName)
		ty := 2
		switch t.GetType() {
		case task_metadata.HookRun:
			ty = 0
		case task_metadata.EnableKubernetesBindings:
			ty = 1
		}
		id := w.tasks.Id(t.GetId())
		line := fmt.Sprintf("task %d q=%d hook=%d type=%d af=0 bt=0 grp=0 ctxs=%s", id, qn, h.Num, ty, w.metaCtxs(hm))
		w.c.Op(line, fmt.Sprintf("af=%d grp=0 queue=%s", b01(hm.AllowFailure), w.idsUpTo(qn, t)))
	}
}

func (w *c04World) idsUpTo(qn int, last task.Task) string {
	var ids []int
	for _, t := range w.queueTasks(qn) {
		ids = append(ids, w.tasks.Id(t.GetId()))
		if t.GetId() == last.GetId() {
			break
		}
	}
	return joinInts(ids)
}

// push fires the schedule binding: the real events handler turns it into a task in the queue.
func (w *c04World) push(h c04Hook, bd c04Binding) bool {
	before := len(w.queueTasks(h.Queue))
	select {
	case w.op.ScheduleManager.Ch() <- bd.Crontab:
	case <-time.After(5 * time.Second):
		w.c.Inconcl = "schedule channel not consumed"
		return false
	}
	deadline := time.Now().Add(10 * time.Second)
	for len(w.queueTasks(h.Queue)) <= before {
		if time.Now().After(deadline) {
			w.c.Op(fmt.Sprintf("task 999 q=%d hook=%d", h.Queue, h.Num), "event-not-queued")
			return false
		}
		time.Sleep(time.Millisecond)
	}
	ts := w.queueTasks(h.Queue)
	nt := ts[len(ts)-1]
	hm := task_metadata.HookMetadataAccessor(nt)
	ty := 3
	if bd.Group != 0 {
		ty = 2
	}
	g := 0
	if hm.Group != "" {
		g, _ = strconv.Atoi(strings.TrimPrefix(hm.Group, "g"))
	}
	line := fmt.Sprintf("task %d q=%d hook=%d type=0 af=%d bt=1 grp=%d ctxs=%d:%d:%d", w.tasks.Id(nt.GetId()), h.Queue, h.Num,
		b01(bd.AF), bd.Group, w.binds.Id(bd.Name), ty, bd.Group)
	w.c.Op(line, fmt.Sprintf("af=%d grp=%d queue=%s", b01(hm.AllowFailure), g, w.ids(ts)))
	w.c.Note("event:schedule")
	return true
}

// begin waits until the worker of the queue is inside the handler of the head task (the hook has
// written its start line and is blocked at its gate) and records the `begin` line.
func (w *c04World) begin(qn int) string {
	var st c04Start
	deadline := time.Now().Add(15 * time.Second)
	for {
		ss := w.readStarts()
		if len(ss) > w.logSeen {
			st = ss[w.logSeen]
			w.logSeen++
			break
		}
		if len(w.queueTasks(qn)) == 0 {
			w.c.Op(fmt.Sprintf("begin q=%d", qn), "idle")
			return "idle"
		}
		if time.Now().After(deadline) {
			w.c.Op(fmt.Sprintf("begin q=%d", qn), "no-hook-start")
			return "hang"
		}
		time.Sleep(2 * time.Millisecond)
	}
	ts := w.queueTasks(qn)
	if len(ts) == 0 {
		w.c.Op(fmt.Sprintf("begin q=%d", qn), "hook-started-with-empty-queue")
		return "hang"
	}
	head := ts[0]
	id := w.tasks.Id(head.GetId())
	h, _ := w.hookByName(st.hook)
	ctxs := w.hookCtxs(st.ctxs)
	w.c.Op(fmt.Sprintf("begin q=%d", qn), fmt.Sprintf("exec task=%d hook=%d ctxs=%s queue=%s", id, h.Num, ctxs, w.ids(ts)))
	w.running[qn] = &c04Running{head: head, hook: h, start: st}
	gap := int64(0)
	if lf := w.lastFail[qn]; lf != nil {
		// from the back-off call after the failed attempt to the worker entering the handler again
		w.mu.Lock()
		entered := w.entered[c04QueueName(qn)]
		w.mu.Unlock()
		gap = entered.Sub(lf.at).Nanoseconds()
		if gap < 0 {
			gap = 0
		}
	}
	w.c.Oracle(fmt.Sprintf("begin q=%d task=%d gap=%d", qn, id, gap))
	return "exec"
}

// end lets the blocked hook finish in the given mode and records what the worker did with the result.
func (w *c04World) end(qn int, mode string) string {
	run := w.running[qn]
	delete(w.running, qn)
	if run == nil {
		return "not-running"
	}
	qname := c04QueueName(qn)
	id := w.tasks.Id(run.head.GetId())
	w.mu.Lock()
	nbo := len(w.boCalls[qname])
	w.mu.Unlock()
	gate := filepath.Join(w.dir, fmt.Sprintf("gate.%s.%d", run.hook.Name, run.start.n))
	_ = os.WriteFile(gate+".tmp", []byte(mode), 0o644)
	_ = os.Rename(gate+".tmp", gate)
	status := ""
	var bo c04BoCall
	w.mu.Lock()
	ch := w.rets[qname]
	w.mu.Unlock()
	var ret c04Ret
	select {
	case ret = <-ch:
	case <-time.After(20 * time.Second):
		w.c.Op(fmt.Sprintf("end q=%d ok=%d", qn, b01(mode == "ok")), "hang")
		return "hang"
	}
	status = "success"
	if ret.status == queue.Fail {
		status = "fail"
		// the worker calls ExponentialBackoffFn and IncrementFailureCount right after the handler
		for i := 0; i < 400; i++ {
			w.mu.Lock()
			if len(w.boCalls[qname]) > nbo {
				bo = w.boCalls[qname][nbo]
			}
			got := len(w.boCalls[qname]) > nbo
			w.mu.Unlock()
			if got && run.head.GetFailureCount() == bo.fc+1 {
				break
			}
			time.Sleep(time.Millisecond)
		}
	} else if ret.status != queue.Success {
		status = string(ret.status)
	}
	var after []string
	var afterIds []int
	for _, x := range ret.post {
		if status == "success" && x.id == run.head.GetId() {
			continue // the worker removes the handled task on Success
		}
		after = append(after, fmt.Sprintf("%d,%d,%s", w.tasks.Id(x.id), b01(x.af), x.ctxs))
		afterIds = append(afterIds, w.tasks.Id(x.id))
	}
	afterS := "-"
	if len(after) > 0 {
		afterS = strings.Join(after, "|")
	}
	ok := b01(mode == "ok")
	w.c.Oracle(fmt.Sprintf("end q=%d ok=%d task=%d ctxs=%s sleep=%d after=%s s0=0", qn, ok, id, w.hookCtxs(run.start.ctxs),
		bo.delay.Nanoseconds(), afterS))
	w.c.Op(fmt.Sprintf("end q=%d ok=%d", qn, ok), fmt.Sprintf("status=%s fc=%d sleep=%d queue=%s", status, run.head.GetFailureCount(),
		bo.delay.Nanoseconds(), joinInts(afterIds)))
	if status == "fail" {
		w.lastFail[qn] = &bo
		w.c.Note("end:fail-" + mode)
	} else {
		w.lastFail[qn] = nil
		if mode == "ok" {
			w.c.Note("end:success")
		} else {
			w.c.Note("end:allowed-failure-" + mode)
		}
	}
	return status
}

// ---------------------------------------------------------------- scenarios

type c04Plan struct {
	hooks  []c04Hook
	boInit time.Duration
	boStep time.Duration
	realBo bool
	// decide(rng state is inside): called at every begin of a hook run
	outcome func(taskID int, failuresSoFar int) string // "ok" | "exit" | "metrics" | "patch"
	// events to push while a run is blocked: returns bindings to fire
	arrivals func(qn int, step int) [][2]int // (hook index, binding index)
	initial  map[int][][2]int                // per queue: first layout (pushed while the first event's hook is blocked)
	maxSteps int
}

func c04Execute(c *Case, r *Run, p c04Plan) {
	w, err := newC04World(c, r, p.hooks, p.boInit, p.boStep, p.realBo)
	if err != nil {
		c.Op("assemble", "error "+firstLine(err.Error()))
		return
	}
	defer w.close()
	bi := p.boInit
	if bi == 0 {
		bi = queue.DefaultInitialDelayOnFailedTask
	}
	c.Op(fmt.Sprintf("backoff init=%d step=%d", bi.Nanoseconds(), p.boStep.Nanoseconds()), "ok")
	fails := map[int]int{}
	drive := func(qn int, withArrivals bool) bool {
		for step := 0; step < p.maxSteps; step++ {
			switch w.begin(qn) {
			case "idle":
				return true
			case "hang":
				return false
			}
			run := w.running[qn]
			id := w.tasks.Id(run.head.GetId())
			if withArrivals && p.arrivals != nil {
				for _, hb := range p.arrivals(qn, step) {
					if !w.push(p.hooks[hb[0]], p.hooks[hb[0]].Bindings[hb[1]]) {
						return false
					}
				}
			}
			mode := p.outcome(id, fails[id])
			if mode != "ok" {
				fails[id]++
			}
			if w.end(qn, mode) == "hang" {
				return false
			}
		}
		return true
	}
	// startup: the main queue holds onStartup runs and the Enable… tasks
	w.declareExisting(0)
	startup := w.queueTasks(0)
	w.op.TaskQueues.StartMain()
	for _, t := range startup {
		if t.GetType() != task_metadata.HookRun {
			// EnableScheduleBindings …: another handler, no hook run; wait until the task is gone
			deadline := time.Now().Add(10 * time.Second)
			for gone := false; !gone; {
				gone = true
				for _, x := range w.queueTasks(0) {
					if x.GetId() == t.GetId() {
						gone = false
					}
				}
				if !gone && time.Now().After(deadline) {
					c.Op("begin q=0", "hang")
					return
				}
				if !gone {
					time.Sleep(time.Millisecond)
				}
			}
			c.Op("begin q=0", fmt.Sprintf("noexec task=%d", w.tasks.Id(t.GetId())))
			c.Op("end q=0 ok=1", "status=success noexec")
			continue
		}
		for {
			if w.begin(0) != "exec" {
				return
			}
			id := w.tasks.Id(t.GetId())
			mode := p.outcome(id, fails[id])
			if mode != "ok" {
				fails[id]++
			}
			st := w.end(0, mode)
			if st == "hang" {
				return
			}
			if st != "fail" {
				break
			}
		}
		c.Note("startup:onStartup-run")
	}
	// layouts: per queue, the first event starts running at once; the rest arrives while it is blocked
	for _, qn := range []int{0, 1} {
		evs := p.initial[qn]
		if len(evs) == 0 {
			continue
		}
		h0 := p.hooks[evs[0][0]]
		if !w.push(h0, h0.Bindings[evs[0][1]]) {
			return
		}
		if w.begin(qn) != "exec" {
			return
		}
		for _, hb := range evs[1:] {
			if !w.push(p.hooks[hb[0]], p.hooks[hb[0]].Bindings[hb[1]]) {
				return
			}
		}
		run := w.running[qn]
		id := w.tasks.Id(run.head.GetId())
		mode := p.outcome(id, fails[id])
		if mode != "ok" {
			fails[id]++
		}
		if w.end(qn, mode) == "hang" {
			return
		}
		if !drive(qn, true) {
			return
		}
	}
}

func c04GenHooks(rng *Rng, nh int) []c04Hook {
	var hooks []c04Hook
	cron := 0
	bnum := 1 // binding number 1 is "onStartup" (interned first by declareExisting? no: explicit below)
	for i := 0; i < nh; i++ {
		h := c04Hook{Name: fmt.Sprintf("hook%02d", i+1), Num: i + 1}
		if rng.Chance(50) {
			h.OnStartup = rng.Range(1, 20)
		}
		h.Queue = rng.Intn(2)
		nb := rng.Range(1, 3)
		for j := 0; j < nb; j++ {
			bnum++
			cron++
			bd := c04Binding{Name: fmt.Sprintf("b%d", bnum), Num: bnum, Crontab: fmt.Sprintf("%d %d 1 1 *", cron%60, cron/60),
				AF: rng.Chance(40)}
			if rng.Chance(35) {
				bd.Group = rng.Range(1, 2)
			}
			h.Bindings = append(h.Bindings, bd)
		}
		hooks = append(hooks, h)
	}
	return hooks
}

func c04FailMode(rng *Rng) string {
	return PickOne(rng, []string{"exit", "exit", "metrics", "patch", "metricsop", "patchop"})
}

func c04Random(c *Case, rng *Rng, r *Run) {
	hooks := c04GenHooks(rng, rng.Range(1, 3))
	p := c04Plan{hooks: hooks, boInit: time.Duration(rng.Range(15, 30)) * time.Millisecond, boStep: 5 * time.Millisecond,
		initial: map[int][][2]int{}, maxSteps: 40}
	if rng.Chance(15) {
		p.realBo = true // real CalculateDelay(init, 0): tasks fail at most once
	}
	byQueue := map[int][][2]int{}
	for hi, h := range hooks {
		for bi := range h.Bindings {
			byQueue[h.Queue] = append(byQueue[h.Queue], [2]int{hi, bi})
		}
	}
	for qn, bs := range byQueue {
		n := rng.Range(1, 6)
		// bias towards runs of the same hook (so that tasks get combined)
		cur := PickOne(rng, bs)
		for i := 0; i < n; i++ {
			if rng.Chance(35) {
				cur = PickOne(rng, bs)
			} else {
				// another binding of the same hook
				var same [][2]int
				for _, x := range bs {
					if x[0] == cur[0] {
						same = append(same, x)
					}
				}
				cur = PickOne(rng, same)
			}
			p.initial[qn] = append(p.initial[qn], cur)
		}
	}
	maxFail := 3
	if p.realBo {
		maxFail = 1
	}
	p.outcome = func(id, failed int) string {
		if failed < maxFail && rng.Chance(45) {
			return c04FailMode(rng)
		}
		return "ok"
	}
	arrivals := 0
	p.arrivals = func(qn, step int) [][2]int {
		if arrivals >= 4 || !rng.Chance(25) {
			return nil
		}
		arrivals++
		return [][2]int{PickOne(rng, byQueue[qn])}
	}
	nb := 0
	for _, h := range hooks {
		nb += len(h.Bindings)
	}
	c.Desc = fmt.Sprintf("operator run: %d hooks, %d schedule bindings, layouts main=%d q1=%d", len(hooks), nb, len(p.initial[0]), len(p.initial[1]))
	c.Nontrivial = len(p.initial[0])+len(p.initial[1]) >= 2
	if p.realBo {
		c.Note("backoff:real-CalculateDelay")
	} else {
		c.Note("backoff:linear-shortened")
	}
	c04Execute(c, r, p)
}

// The layout of DESIGN §9 row 4: head task allowFailure:true, follower of the same hook
// allowFailure:false, failing hook.
func c04Witness(c *Case, r *Run, headAF, followerAF bool, queueN int, fails int) {
	hooks := []c04Hook{{Name: "hook01", Num: 1, Queue: queueN, Bindings: []c04Binding{
		{Name: "b2", Num: 2, Crontab: "1 0 1 1 *", AF: headAF},
		{Name: "b3", Num: 3, Crontab: "2 0 1 1 *", AF: followerAF},
	}}, {Name: "hook02", Num: 2, Queue: queueN, Bindings: []c04Binding{{Name: "b4", Num: 4, Crontab: "3 0 1 1 *"}}}}
	p := c04Plan{hooks: hooks, boInit: 20 * time.Millisecond, boStep: 5 * time.Millisecond, maxSteps: 20,
		initial: map[int][][2]int{queueN: {{1, 0}, {0, 0}, {0, 1}, {1, 0}}}}
	p.outcome = func(id, failed int) string {
		if id >= 4 && failed < fails { // tasks 1..3 are EnableSchedule ×2 and the gate run of hook02
			return "exit"
		}
		return "ok"
	}
	c04Execute(c, r, p)
}

func runC04(r *Run) {
	r.Rule = "part 1: the real CalculateDelay (8 initial delays x retry counts 0..40, repeated) and the queue's default ExponentialBackoffFn: every observed delay must be a member of the model's set {calcDelay k r | r < 1000}; oracle: initial <= delay <= 32s. part 2: the real operator (NewShellOperator + real metric storages + kube-client/fake + real hook manager, event handler and queues) with 1..3 generated bash hooks (onStartup, 1..3 schedule bindings each with allowFailure/group, queue main or q1) whose every execution blocks at a gate until the harness lets it finish as scripted (ok / exit 1 / unparsable metrics file / unparsable patch file / metric operation that fails validation / patch operation that cannot be applied); schedule events are fired through ScheduleManager.Ch() while a run is blocked, so queue layouts of 1..6 tasks (+ up to 4 arriving during runs) with mixed allowFailure values are in the queue when the head is handled; back-off shortened through ExponentialBackoffFn (15..30 ms + 5 ms*failureCount, or the real CalculateDelay for the first failure). Observation per run: the contexts in the hook's context file, the queue afterwards, failure counter, back-off returned, wall-clock gap to the retry. Non-trivial: >= 2 tasks in the layouts. distinct = distinct op-line sequences."
	r.CaseTimeout = 120 * time.Second
	r.One(0, func(c *Case, _ *Rng) { c04Delays(c, r) })
	r.One(1, func(c *Case, _ *Rng) {
		c.Desc = "corpus (DESIGN §9 row 4): head allowFailure:true + follower of the same hook allowFailure:false, hook fails twice"
		c.Nontrivial = true
		c04Witness(c, r, true, false, 1, 2)
	})
	r.One(2, func(c *Case, _ *Rng) {
		c.Desc = "corpus: head allowFailure:false + follower allowFailure:true, hook fails twice, main queue"
		c.Nontrivial = true
		c04Witness(c, r, false, true, 0, 2)
	})
	r.Cases(10, r.N(120, 1200), 0, func(c *Case, rng *Rng) { c04Random(c, rng, r) })
	if r.Thorough() {
		// exhaustive small scope: layouts of 1..3 schedule tasks of two hooks x allowFailure x failure counts 0..2
		type cfg struct {
			n     int
			af    [3]bool
			other [3]bool
			fails int
		}
		var cfgs []cfg
		for n := 1; n <= 3; n++ {
			for m := 0; m < 1<<(2*n); m++ {
				var x cfg
				x.n = n
				for i := 0; i < n; i++ {
					x.af[i] = m>>(2*i)&1 == 1
					x.other[i] = m>>(2*i+1)&1 == 1
				}
				if x.other[0] {
					continue
				}
				for f := 0; f <= 2; f++ {
					x.fails = f
					cfgs = append(cfgs, x)
				}
			}
		}
		r.Cases(1000000, len(cfgs), 0, func(c *Case, _ *Rng) {
			x := cfgs[c.Idx-1000000]
			hooks := []c04Hook{
				{Name: "hook01", Num: 1, Queue: 1, Bindings: []c04Binding{{Name: "b2", Num: 2, Crontab: "1 0 1 1 *", AF: false}, {Name: "b3", Num: 3, Crontab: "2 0 1 1 *", AF: true}}},
				{Name: "hook02", Num: 2, Queue: 1, Bindings: []c04Binding{{Name: "b4", Num: 4, Crontab: "3 0 1 1 *", AF: false}, {Name: "b5", Num: 5, Crontab: "4 0 1 1 *", AF: true}}},
				{Name: "hook03", Num: 3, Queue: 1, Bindings: []c04Binding{{Name: "b6", Num: 6, Crontab: "5 0 1 1 *"}}},
			}
			lay := [][2]int{{2, 0}}
			for i := 0; i < x.n; i++ {
				lay = append(lay, [2]int{b01(x.other[i]), b01(x.af[i])})
			}
			p := c04Plan{hooks: hooks, boInit: 15 * time.Millisecond, boStep: 5 * time.Millisecond, maxSteps: 20,
				initial: map[int][][2]int{1: lay}}
			gate := -1
			p.outcome = func(id, failed int) string {
				if gate < 0 {
					gate = id // the first run is the gate run of hook03
					return "ok"
				}
				if id != gate && failed < x.fails {
					return "exit"
				}
				return "ok"
			}
			c.Nontrivial = x.n >= 2
			c04Execute(c, r, p)
		})
		r.Extra["exhaustive_scope"] = fmt.Sprintf("all %d scripts: layouts of 1..3 schedule tasks over 2 hooks x allowFailure, every task failing 0..2 times", len(cfgs))
		// the default back-off once (5 s)
		r.One(3, func(c *Case, _ *Rng) {
			c.Desc = "default ExponentialBackoffFn (5 s initial delay), one failure then success"
			c.Nontrivial = true
			hooks := []c04Hook{{Name: "hook01", Num: 1, Queue: 1, Bindings: []c04Binding{{Name: "b2", Num: 2, Crontab: "1 0 1 1 *"}}}}
			p := c04Plan{hooks: hooks, boInit: 0, maxSteps: 10, initial: map[int][][2]int{1: {{0, 0}}}}
			p.outcome = func(id, failed int) string {
				if failed < 1 {
					return "exit"
				}
				return "ok"
			}
			c04Execute(c, r, p)
		})
	}
}
