package main

import (
	"context"
	"fmt"
	"strconv"
	"strings"
	"sync"
	"time"

	"github.com/deckhouse/deckhouse/pkg/log"

	bctx "github.com/flant/shell-operator/pkg/hook/binding_context"
	"github.com/flant/shell-operator/pkg/hook/task_metadata"
	htypes "github.com/flant/shell-operator/pkg/hook/types"
	kemtypes "github.com/flant/shell-operator/pkg/kube_events_manager/types"
	shell_operator "github.com/flant/shell-operator/pkg/shell-operator"
	"github.com/flant/shell-operator/pkg/task"
	"github.com/flant/shell-operator/pkg/task/queue"
)

func init() { suites["c07"] = runC07 }

// ---------------------------------------------------------------- generated layout (plain data)

type c07Ctx struct{ B, T, G int } // binding number (unique per context), type, group (0 = "")

type c07Task struct {
	ID    int
	Meta  bool
	Hook  int
	Type  int // 0 HookRun, 1 EnableKubernetesBindings, 2 other
	Queue int
	AF    bool
	Ctxs  []c07Ctx
	Mons  []int
}

var c07TaskTypes = []task.TaskType{task_metadata.HookRun, task_metadata.EnableKubernetesBindings, "VerifOther"}
var c07CtxTypes = []kemtypes.KubeEventType{kemtypes.TypeSynchronization, kemtypes.TypeEvent, "Group", "Schedule", ""}

// c07HookNames: what the interned hook number stands for in the real metadata. The names are
// pairwise different strings that LOOK equal: letter case only, one a prefix of the other, trailing
// characters, a path separator, unicode case pairs (hook names are paths relative to the hooks
// directory; all of these are different files on a case-sensitive file system). One table per case.
var c07HookNameSets = [][]string{
	{"", "hook1", "hook2", "hook3"},
	{"", "10-Sync.sh", "10-sync.sh", "10-SYNC.sh"},
	{"", "sync.sh", "sync.sh.bak", "sync.s"},
	{"", "a/hook.sh", "A/hook.sh", "a/hook.sh "},
	{"", "hook", "hook.sh", "hooks"},
	{"", "001-hook.sh", "01-hook.sh", "1-hook.sh"},
	{"", "straße.sh", "STRASSE.sh", "strasse.sh"},
	{"", "ſync.sh", "sync.sh", "Sync.sh"}, // U+017F folds to s
	{"", "Kelvin.sh", "\u212Aelvin.sh", "kelvin.sh"},
	{"", "dir/hook.sh", "dir//hook.sh", "./dir/hook.sh"},
}

func c07HookName(set, h int) string {
	names := c07HookNameSets[set%len(c07HookNameSets)]
	if h >= 0 && h < len(names) && h > 0 {
		return names[h]
	}
	return "hook" + strconv.Itoa(h)
}

func c07Group(g int) string {
	if g == 0 {
		return ""
	}
	return "g" + strconv.Itoa(g)
}

func c07ShowCtxs(cs []c07Ctx) string {
	if len(cs) == 0 {
		return "-"
	}
	var ss []string
	for _, c := range cs {
		ss = append(ss, fmt.Sprintf("%d:%d:%d", c.B, c.T, c.G))
	}
	return strings.Join(ss, ";")
}

func (t c07Task) line() string {
	b := func(x bool) int {
		if x {
			return 1
		}
		return 0
	}
	return fmt.Sprintf("task %d meta=%d hook=%d type=%d q=%d af=%d ctxs=%s mons=%s", t.ID, b(t.Meta), t.Hook, t.Type,
		t.Queue, b(t.AF), c07ShowCtxs(t.Ctxs), joinInts(t.Mons))
}

// ---------------------------------------------------------------- the real objects

type c07World struct {
	prefix string
	names  int // index into c07HookNameSets
	op     *shell_operator.ShellOperator
	tqs    *queue.TaskQueueSet
	qnums  []int // queue numbers in definition order
	cancel context.CancelFunc

	// probe: a concurrent AddLast launched from inside the combiner's k-th access to a queued task
	pmu      sync.Mutex
	pArmed   bool
	pLeft    int
	pFire    func()
	pTouches int
}

func (w *c07World) qname(n int) string { return fmt.Sprintf("%s-q%d", w.prefix, n) }

func newC07World(prefix string, queues []int) *c07World {
	ctx, cancel := context.WithCancel(context.Background())
	op := shell_operator.NewShellOperator(ctx, shell_operator.WithLogger(log.NewNop()))
	tqs := queue.NewTaskQueueSet()
	tqs.WithContext(ctx)
	op.TaskQueues = tqs
	w := &c07World{prefix: prefix, op: op, tqs: tqs, qnums: queues, cancel: cancel}
	// queue 1 plays the main queue of this set (a name of its own per case: yield points are keyed by queue name)
	tqs.WithMainName(w.qname(1))
	for _, n := range queues {
		tqs.NewNamedQueue(w.qname(n), func(task.Task) queue.TaskResult { return queue.TaskResult{Status: queue.Success} })
	}
	return w
}

// c07Probe is a queued task that tells the world about every access the code under test makes to
// it (GetId / GetType / GetMetadata): the k-th access of a call launches an AddLast from another
// goroutine and gives it a moment to get in. Wherever the combiner reads tasks without holding the
// queue lock, the append lands right there; where it holds the lock, the append waits for it.
type c07Probe struct {
	*task.BaseTask
	w *c07World
}

func (p *c07Probe) GetId() string            { p.w.touch(); return p.BaseTask.GetId() }
func (p *c07Probe) GetType() task.TaskType   { p.w.touch(); return p.BaseTask.GetType() }
func (p *c07Probe) GetMetadata() interface{} { p.w.touch(); return p.BaseTask.GetMetadata() }

func (w *c07World) touch() {
	w.pmu.Lock()
	if !w.pArmed {
		w.pmu.Unlock()
		return
	}
	w.pTouches++
	w.pLeft--
	if w.pLeft != 0 {
		w.pmu.Unlock()
		return
	}
	w.pArmed = false
	f := w.pFire
	w.pmu.Unlock()
	f()
}

// mkProbeTask: the same task, wrapped.
func (w *c07World) mkProbeTask(t c07Task) task.Task {
	return &c07Probe{BaseTask: w.mkTask(t).(*task.BaseTask), w: w}
}

func (w *c07World) mkTask(t c07Task) task.Task {
	bt := task.NewTask(c07TaskTypes[t.Type])
	bt.Id = strconv.Itoa(t.ID)
	if t.Queue == 0 {
		// a task that is in no queue and names none: what the admission / conversion handlers build
		bt.WithQueueName("")
	} else {
		bt.WithQueueName(w.qname(t.Queue))
	}
	if t.Meta {
		bt.WithMetadata(w.mkMeta(t))
	}
	return bt
}

func (w *c07World) mkMeta(t c07Task) task_metadata.HookMetadata {
	var cs []bctx.BindingContext
	for _, c := range t.Ctxs {
		bc := bctx.BindingContext{Binding: "b" + strconv.Itoa(c.B), Type: c07CtxTypes[c.T]}
		bc.Metadata.Group = c07Group(c.G)
		bc.Metadata.BindingType = htypes.OnKubernetesEvent
		bc.Metadata.Version = "v1"
		cs = append(cs, bc)
	}
	var ms []string
	for _, m := range t.Mons {
		ms = append(ms, "m"+strconv.Itoa(m))
	}
	return task_metadata.HookMetadata{HookName: c07HookName(w.names, t.Hook), BindingType: htypes.OnKubernetesEvent,
		BindingContext: cs, MonitorIDs: ms, AllowFailure: t.AF}
}

func c07ObsCtxs(cs []bctx.BindingContext) string {
	if len(cs) == 0 {
		return "-"
	}
	var ss []string
	for _, c := range cs {
		ty := -1
		for i, k := range c07CtxTypes {
			if k == c.Type {
				ty = i
			}
		}
		g := 0
		if c.Metadata.Group != "" {
			g, _ = strconv.Atoi(strings.TrimPrefix(c.Metadata.Group, "g"))
		}
		ss = append(ss, fmt.Sprintf("%s:%d:%d", strings.TrimPrefix(c.Binding, "b"), ty, g))
	}
	return strings.Join(ss, ";")
}

func (w *c07World) obsQueues() string {
	var parts []string
	for _, n := range w.qnums {
		var ids []string
		w.tqs.GetByName(w.qname(n)).Iterate(func(t task.Task) { ids = append(ids, taskID(t)) })
		parts = append(parts, fmt.Sprintf("%d:%s", n, joinStrs(ids)))
	}
	if len(parts) == 0 {
		return "-"
	}
	return strings.Join(parts, ";")
}

type c07Call struct {
	Twin   bool
	Passed int // -1 = nil pointer
	T      c07Task
	ByName bool              // the queue pointer is what production passes: GetByName(t.GetQueueName())
	Stop   string            // "none" | "af" | "ids:…"
	Apps   map[int][]c07Task // appended between Iterate and Filter, per queue
	AppOrd []int
	// Probe > 0: Apps is one task for the task's queue; it is appended by another goroutine started
	// from inside the combiner's Probe-th access to a queued (non-head) task
	Probe int
}

func (c c07Call) args() string {
	fn := "int"
	if c.Twin {
		fn = "twin"
	}
	passed := "nil"
	if c.Passed >= 0 {
		passed = strconv.Itoa(c.Passed)
	}
	app := "-"
	var parts []string
	for _, n := range c.AppOrd {
		var ids []int
		for _, t := range c.Apps[n] {
			ids = append(ids, t.ID)
		}
		parts = append(parts, fmt.Sprintf("%d:%s", n, joinInts(ids)))
	}
	if len(parts) > 0 {
		app = strings.Join(parts, ";")
	}
	return fmt.Sprintf("fn=%s passed=%s t=%d stop=%s app=%s", fn, passed, c.T.ID, c.Stop, app)
}

// combine runs the real function; tasks of call.Apps are appended by this goroutine while the
// combining goroutine is parked at the yield point between Iterate and Filter.
func (w *c07World) combine(call c07Call, real task.Task) (string, string) {
	var stop func(task.Task) bool
	switch {
	case call.Stop == "af":
		stop = func(tsk task.Task) bool {
			return task_metadata.HookMetadataAccessor(tsk).AllowFailure != call.T.AF
		}
	case strings.HasPrefix(call.Stop, "ids:"):
		set := map[string]bool{}
		for _, s := range strings.Split(strings.TrimPrefix(call.Stop, "ids:"), ",") {
			set[s] = true
		}
		stop = func(tsk task.Task) bool { return set[tsk.GetId()] }
	}
	var passed *queue.TaskQueue
	if call.Passed >= 0 {
		passed = w.tqs.GetByName(w.qname(call.Passed))
	}
	if call.ByName {
		passed = w.tqs.GetByName(real.GetQueueName())
	}
	key := real.GetQueueName()
	if key == "" {
		key = w.prefix + "-no-queue" // never reached by a point: a task without a queue name parks nowhere
	}
	arrive := sched.Subscribe(key)
	defer sched.Unsubscribe(key)
	done := make(chan string, 1)
	go func() {
		done <- Catch(func() string {
			var res *shell_operator.CombineResult
			if call.Twin {
				res = w.op.CombineBindingContextForHook(passed, real, stop)
			} else {
				res = w.op.VerifCombineBindingContextForHook(w.tqs, passed, real, stop)
			}
			if res == nil {
				return "out=nil"
			}
			var ms []string
			for _, m := range res.MonitorIDs {
				ms = append(ms, strings.TrimPrefix(m, "m"))
			}
			return fmt.Sprintf("out=res ctxs=%s mons=%s", c07ObsCtxs(res.BindingContexts), joinStrs(ms))
		})
	}()
	probeDone := make(chan struct{})
	probeFired := false
	var probeQ *queue.TaskQueue
	var probeTask task.Task
	if call.Probe > 0 && len(call.AppOrd) == 1 {
		probeQ, probeTask = w.tqs.GetByName(w.qname(call.AppOrd[0])), w.mkTask(call.Apps[call.AppOrd[0]][0])
		w.pmu.Lock()
		w.pArmed, w.pLeft, w.pTouches = true, call.Probe, 0
		w.pFire = func() {
			probeFired = true // read after the combiner has returned (happens-before through `done`)
			go func() { defer close(probeDone); probeQ.AddLast(probeTask) }()
			select {
			case <-probeDone:
			case <-time.After(30 * time.Millisecond): // the queue is locked here: the append waits
			}
		}
		w.pmu.Unlock()
	}
	out := ""
	// One of the concurrent appends is held back and attempted while Filter is walking the queue
	// (yield point inside the queue lock): it must wait for Filter and land behind its result.
	var hold *c07Task
	holdQ := -1
	holdDone := make(chan struct{})
	reached := false
	for out == "" {
		select {
		case a := <-arrive:
			switch a.Name {
			case "combine.afterIterate":
				reached = true
				for _, n := range call.AppOrd {
					if call.Probe > 0 {
						break
					}
					ts := call.Apps[n]
					if hold == nil && w.qname(n) == key && len(ts) > 0 && n == call.AppOrd[len(call.AppOrd)-1] {
						h := ts[len(ts)-1]
						hold, holdQ = &h, n
						ts = ts[:len(ts)-1]
					}
					for _, t := range ts {
						w.tqs.GetByName(w.qname(n)).AddLast(w.mkTask(t))
					}
				}
			case "queue.filter.locked":
				if hold != nil && holdQ >= 0 {
					q, t := w.tqs.GetByName(w.qname(holdQ)), w.mkTask(*hold)
					holdQ = -1
					go func() { defer close(holdDone); q.AddLast(t) }()
					time.Sleep(25 * time.Millisecond)
				}
			}
			a.Release()
		case out = <-done:
		case <-time.After(20 * time.Second):
			out = "hang"
		}
	}
	if call.Probe > 0 && probeQ != nil {
		w.pmu.Lock()
		w.pArmed = false
		w.pmu.Unlock()
		if out != "hang" {
			if !probeFired {
				// fewer accesses than Probe: the append comes after the call (if the call got as far as Iterate)
				if reached {
					probeQ.AddLast(probeTask)
				}
			} else {
				select {
				case <-probeDone:
				case <-time.After(10 * time.Second):
					out = "hang"
				}
			}
		}
	}
	if hold != nil && out != "hang" {
		if holdQ >= 0 {
			// Filter was not reached (nothing to merge): the held task is appended now
			if reached {
				w.tqs.GetByName(w.qname(holdQ)).AddLast(w.mkTask(*hold))
			}
		} else {
			select {
			case <-holdDone:
			case <-time.After(10 * time.Second):
				out = "hang"
			}
		}
	}
	if out == "panic" {
		out = "out=panic"
	}
	return out, w.obsQueues()
}

// ---------------------------------------------------------------- one case

type c07Layout struct {
	Tasks  []c07Task     // every task (queued or not)
	Queues map[int][]int // queue number → task ids in order
	QOrd   []int
	Names  int // hook name table (c07HookNameSets)
}

func (l c07Layout) task(id int) c07Task {
	for _, t := range l.Tasks {
		if t.ID == id {
			return t
		}
	}
	return c07Task{}
}

// c07Run builds the real world for the layout, replays the calls and records lines.
func c07Run(c *Case, l c07Layout, calls []c07Call, updateMeta bool) {
	w := newC07World(fmt.Sprintf("c07-%d", c.Idx), l.QOrd)
	w.names = l.Names
	defer w.cancel()
	real := map[int]task.Task{}
	for _, t := range l.Tasks {
		c.Op(t.line(), "ok")
	}
	for _, n := range l.QOrd {
		for i, id := range l.Queues[n] {
			rt := w.mkTask(l.task(id))
			if i > 0 {
				rt = w.mkProbeTask(l.task(id))
			}
			real[id] = rt
			w.tqs.GetByName(w.qname(n)).AddLast(rt)
		}
		c.Op(fmt.Sprintf("queue %d %s", n, joinInts(l.Queues[n])), "ok")
	}
	for _, call := range calls {
		for _, n := range call.AppOrd {
			for _, t := range call.Apps[n] {
				c.Op(t.line(), "ok")
			}
		}
		rt, ok := real[call.T.ID]
		if !ok {
			rt = w.mkTask(call.T)
			real[call.T.ID] = rt
		}
		// is the call in the property's domain? (head of the queue it names, that queue passed)
		var ids []string
		inDomain := false
		if q := w.tqs.GetByName(rt.GetQueueName()); q != nil && call.T.Meta && call.Passed == call.T.Queue {
			q.Iterate(func(t task.Task) { ids = append(ids, t.GetId()) })
			inDomain = len(ids) > 0 && ids[0] == rt.GetId()
		}
		out, queues := w.combine(call, rt)
		c.Op("combine "+call.args(), out+" queues="+queues)
		if out == "hang" {
			return
		}
		if inDomain {
			c.Oracle("combine " + call.args() + " " + out + " queues=" + queues)
			c.Note("oracle:in-domain")
		} else if call.ByName && call.T.Queue == 0 {
			// a run that is not a queue task (webhook): nothing is merged, nothing leaves a queue
			c.Oracle("untouched " + call.args() + " " + out + " queues=" + queues)
			c.Note("oracle:not-a-queue-task")
		} else {
			c.Note("oracle:outside-domain(correspondence only)")
		}
		switch {
		case out == "out=nil":
			c.Note("out:nil")
		case out == "out=panic":
			c.Note("out:panic")
			return
		default:
			c.Note("out:res")
		}
		if updateMeta && strings.HasPrefix(out, "out=res") && call.T.Meta {
			// what taskHandleHookRun does with the result: the task keeps the combined contexts
			hm := task_metadata.HookMetadataAccessor(rt)
			f := strings.Fields(out)
			ctxs, mons := strings.TrimPrefix(f[1], "ctxs="), strings.TrimPrefix(f[2], "mons=")
			var cs []c07Ctx
			if ctxs != "-" {
				for _, p := range strings.Split(ctxs, ";") {
					x := strings.Split(p, ":")
					b, _ := strconv.Atoi(x[0])
					ty, _ := strconv.Atoi(x[1])
					g, _ := strconv.Atoi(x[2])
					cs = append(cs, c07Ctx{b, ty, g})
				}
			}
			var ms []int
			if mons != "-" {
				for _, p := range strings.Split(mons, ",") {
					m, _ := strconv.Atoi(p)
					ms = append(ms, m)
				}
			}
			nt := call.T
			nt.Ctxs, nt.Mons = cs, ms
			nm := w.mkMeta(nt)
			hm.BindingContext, hm.MonitorIDs = nm.BindingContext, nm.MonitorIDs
			rt.UpdateMetadata(hm)
			c.Op(fmt.Sprintf("setmeta %d ctxs=%s mons=%s", call.T.ID, ctxs, mons), "ok")
			for i := range l.Tasks {
				if l.Tasks[i].ID == call.T.ID {
					l.Tasks[i] = nt
				}
			}
		}
	}
}

// ---------------------------------------------------------------- generators

type c07Gen struct {
	rng     *Rng
	nextID  int
	nextB   int
	nextMon int
}

func (g *c07Gen) ctxs(n int, groupBias int) []c07Ctx {
	var cs []c07Ctx
	for i := 0; i < n; i++ {
		g.nextB++
		grp := 0
		if g.rng.Chance(groupBias) {
			grp = g.rng.Range(1, 2)
		}
		cs = append(cs, c07Ctx{g.nextB, g.rng.Intn(len(c07CtxTypes)), grp})
	}
	return cs
}

func (g *c07Gen) task(queue, headHook, headType int, headAF bool) c07Task {
	g.nextID++
	t := c07Task{ID: g.nextID, Meta: !g.rng.Chance(6), Queue: queue}
	t.Hook = headHook
	if g.rng.Chance(25) {
		t.Hook = g.rng.Range(1, 3)
	}
	t.Type = headType
	if g.rng.Chance(12) {
		t.Type = g.rng.Intn(3)
	}
	t.AF = headAF
	if g.rng.Chance(25) {
		t.AF = !headAF
	}
	t.Ctxs = g.ctxs(g.rng.Range(0, 3), 60)
	for i := g.rng.Intn(3); i > 0; i-- {
		g.nextMon++
		t.Mons = append(t.Mons, g.nextMon)
	}
	return t
}

func c07Random(c *Case, rng *Rng) {
	g := &c07Gen{rng: rng}
	l := c07Layout{Queues: map[int][]int{}, QOrd: []int{1, 2}, Names: rng.Intn(len(c07HookNameSets))}
	c.Note(fmt.Sprintf("hook-names:%q", c07HookNameSets[l.Names][1:]))
	headHook, headType, headAF := rng.Range(1, 3), 0, rng.Bool()
	if rng.Chance(15) {
		headType = rng.Intn(3)
	}
	n := rng.Range(1, 10)
	for i := 0; i < n; i++ {
		t := g.task(1, headHook, headType, headAF)
		if i == 0 {
			t.Hook, t.Type, t.AF = headHook, headType, headAF
			t.Meta = !rng.Chance(3)
		}
		l.Tasks = append(l.Tasks, t)
		l.Queues[1] = append(l.Queues[1], t.ID)
	}
	for i := rng.Intn(3); i > 0; i-- {
		t := g.task(2, headHook, headType, headAF)
		l.Tasks = append(l.Tasks, t)
		l.Queues[2] = append(l.Queues[2], t.ID)
	}
	ncalls := 1
	if rng.Chance(35) {
		ncalls = 2
	}
	var calls []c07Call
	tIdx := 0
	kind := "head"
	switch k := rng.Intn(100); {
	case k < 78:
	case k < 88:
		tIdx = rng.Intn(n)
		kind = "middle"
	case k < 91:
		kind = "nil-queue"
	case k < 94:
		kind = "foreign"
	case k < 97:
		kind = "webhook-task"
	default:
		kind = "absent-queue"
	}
	var webhookTask c07Task
	if kind == "webhook-task" {
		// same hook and task type as the head of the main queue, but in no queue and naming none
		webhookTask = g.task(0, headHook, headType, headAF)
		webhookTask.Meta, webhookTask.Hook, webhookTask.Type = true, headHook, headType
		l.Tasks = append(l.Tasks, webhookTask)
	}
	for ci := 0; ci < ncalls; ci++ {
		call := c07Call{Twin: rng.Bool(), Passed: 1, T: l.Tasks[tIdx], Stop: "none", Apps: map[int][]c07Task{}}
		switch kind {
		case "webhook-task":
			call.Passed = -1
			call.ByName = true
			call.T = webhookTask
		case "nil-queue":
			call.Passed = -1
		case "foreign":
			// the task names queue 2 but queue 1 is passed (and holds it)
			l.Tasks[tIdx].Queue = 2
			call.T = l.Tasks[tIdx]
		case "absent-queue":
			l.Tasks[tIdx].Queue = 9
			call.T = l.Tasks[tIdx]
		}
		switch k := rng.Intn(100); {
		case k < 55:
		case k < 75:
			call.Stop = "af"
		default:
			var ids []int
			for _, t := range l.Tasks {
				if rng.Chance(20) {
					ids = append(ids, t.ID)
				}
			}
			if len(ids) == 0 {
				ids = []int{99}
			}
			call.Stop = "ids:" + joinInts(ids)
		}
		if kind == "head" && rng.Chance(15) {
			// one task appended from inside the combiner's k-th access to a queued task
			call.Apps[1] = []c07Task{g.task(1, headHook, headType, headAF)}
			call.AppOrd = []int{1}
			call.Probe = rng.Range(1, 5*n+2)
			c.Note("call:append-from-inside-kth-task-access")
		} else if kind != "webhook-task" && rng.Chance(55) {
			for _, qn := range []int{1, 2} {
				if qn == 2 && !rng.Chance(30) {
					continue
				}
				k := rng.Range(1, 3)
				for i := 0; i < k; i++ {
					t := g.task(qn, headHook, headType, headAF)
					call.Apps[qn] = append(call.Apps[qn], t)
				}
				call.AppOrd = append(call.AppOrd, qn)
			}
			c.Note("call:with-concurrent-append")
		} else {
			c.Note("call:no-append")
		}
		calls = append(calls, call)
	}
	c.Note("t:" + kind)
	c.Desc = fmt.Sprintf("random layout: %d tasks, t=%s, %d call(s)", n, kind, ncalls)
	c.Nontrivial = n >= 2
	// calls are replayed one by one; later calls see the task as updated by the first
	c07RunSeq(c, l, calls)
}

// c07RunSeq replays calls so that each later call uses the task data updated by setmeta.
func c07RunSeq(c *Case, l c07Layout, calls []c07Call) {
	c07Run(c, l, calls, true)
}

// exhaustive small scope: head + up to 4 followers over 6 follower kinds × 3 head groups × {no append, append}
func c07Exhaustive(c *Case, k int) {
	const kinds = 6
	app := k%2 == 1
	k /= 2
	headGroup := k % 3
	k /= 3
	nf := 0
	for p := 1; k >= p; p *= kinds {
		k -= p
		nf++
	}
	var fk []int
	for i := 0; i < nf; i++ {
		fk = append(fk, k%kinds)
		k /= kinds
	}
	l := c07Layout{Queues: map[int][]int{}, QOrd: []int{1}, Names: c.Idx % len(c07HookNameSets)}
	b := 0
	mk := func(id, hook, typ int, meta bool, grp int) c07Task {
		b++
		return c07Task{ID: id, Meta: meta, Hook: hook, Type: typ, Queue: 1, Ctxs: []c07Ctx{{b, 1, grp}}, Mons: []int{id}}
	}
	l.Tasks = append(l.Tasks, mk(1, 1, 0, true, headGroup))
	for i, f := range fk {
		id := i + 2
		switch f {
		case 0, 1, 2:
			l.Tasks = append(l.Tasks, mk(id, 1, 0, true, f))
		case 3:
			l.Tasks = append(l.Tasks, mk(id, 2, 0, true, 1))
		case 4:
			l.Tasks = append(l.Tasks, mk(id, 1, 1, true, 1))
		case 5:
			l.Tasks = append(l.Tasks, mk(id, 1, 0, false, 1))
		}
	}
	for _, t := range l.Tasks {
		l.Queues[1] = append(l.Queues[1], t.ID)
	}
	call := c07Call{Twin: nf%2 == 1, Passed: 1, T: l.Tasks[0], Stop: "none", Apps: map[int][]c07Task{}}
	if app {
		call.Apps[1] = []c07Task{mk(10, 1, 0, true, 1)}
		call.AppOrd = []int{1}
	}
	c.Nontrivial = nf >= 1
	c07Run(c, l, []c07Call{call}, false)
}

// ---------------------------------------------------------------- whole-operator cases

// hook file names that look equal (case only / prefix / trailing characters)
var c07OpNameSets = [][]string{
	{"hook01", "hook02", "hook03"},
	{"10-sync", "10-Sync", "10-SYNC"},
	{"sync", "sync-2", "syn"},
	{"Hook", "hook", "hooK"},
	{"a.b", "a.B", "a.b.c"},
}

// c07OpHooks: 2..3 hooks, mostly in one queue (so that tasks of different hooks are adjacent), each with
// 2..3 schedule bindings and 0..2 kubernetes bindings; per hook one of the group layouts
// schedule-only (a `group:` carried by schedule bindings only), kubernetes-only, mixed, two groups, none.
func c07OpHooks(c *Case, rng *Rng) []c04Hook {
	names := PickOne(rng, c07OpNameSets)
	c.Note(fmt.Sprintf("op-hook-names:%q", names))
	nh := rng.Range(2, 3)
	oneQueue := rng.Intn(2)
	spread := rng.Chance(20)
	var hooks []c04Hook
	cron, bnum := 0, 0
	for i := 0; i < nh; i++ {
		h := c04Hook{Name: names[i], Num: i + 1, Queue: oneQueue}
		if spread {
			h.Queue = rng.Intn(2)
		}
		if rng.Chance(30) {
			h.OnStartup = rng.Range(1, 20)
		}
		layout := PickOne(rng, []string{"schedule-only", "schedule-only", "kubernetes-only", "mixed", "mixed", "two-groups", "none"})
		c.Note("group-layout:" + layout)
		nb := rng.Range(2, 3)
		nk := 0
		if layout == "kubernetes-only" || layout == "mixed" || rng.Chance(30) {
			nk = rng.Range(1, 2)
		}
		for j := 0; j < nb; j++ {
			bnum++
			cron++
			bd := c04Binding{Name: fmt.Sprintf("b%d", bnum), Crontab: fmt.Sprintf("%d %d 1 1 *", cron%60, cron/60), AF: rng.Chance(25)}
			switch layout {
			case "schedule-only", "mixed":
				if j < 2 || rng.Chance(60) {
					bd.Group = 1
				}
			case "two-groups":
				bd.Group = 1 + j%2
			}
			h.Bindings = append(h.Bindings, bd)
		}
		for j := 0; j < nk; j++ {
			bnum++
			kb := c04KBinding{Name: fmt.Sprintf("k%d", bnum), AF: rng.Chance(25), EOS: !rng.Chance(15)}
			switch layout {
			case "kubernetes-only", "mixed":
				kb.Group = 1
			case "schedule-only":
				if rng.Chance(50) {
					kb.Group = 2 // another group: g1 stays schedule-only
				}
			case "two-groups":
				kb.Group = rng.Intn(3)
			}
			h.KBindings = append(h.KBindings, kb)
		}
		hooks = append(hooks, h)
	}
	return hooks
}

// c07Operator: the real operator with hooks loaded by the real loader; schedule / kubernetes events are
// turned into tasks by the real controllers and handlers; runs fail and are retried. Every execution
// (first attempt and retries) is judged by `oracle merged`.
func c07Operator(c *Case, rng *Rng, r *Run) {
	hooks := c07OpHooks(c, rng)
	// sixth wave: 60 % of the cases give most hooks webhook bindings (conversion / validating / mutating);
	// requests for them are answered out of band while a head task runs or waits for its retry
	ww := &c07WhWorld{byHook: map[int][]c07Wh{}}
	if rng.Chance(60) {
		for i := range hooks {
			if rng.Chance(75) {
				ww.byHook[i] = c07GenWebhooks(rng, hooks[i].Num)
				for _, x := range ww.byHook[i] {
					hooks[i].Extra += x.yaml()
				}
			}
		}
	}
	p := c04Plan{hooks: hooks, boInit: time.Duration(rng.Range(30, 60)) * time.Millisecond, boStep: 5 * time.Millisecond,
		initial: map[int][]c04Ev{}, maxSteps: 60}
	if len(ww.byHook) > 0 {
		// a request sent during a back-off has to be answered (bash hook run) before the back-off can end
		p.boInit = time.Duration(rng.Range(600, 900)) * time.Millisecond
		c.Note("case:operator-with-webhook-bindings")
	}
	byQueue := map[int][]c04Ev{}
	for hi, h := range hooks {
		for bi := range h.Bindings {
			byQueue[h.Queue] = append(byQueue[h.Queue], c04Ev{hi, bi, false})
		}
		for bi := range h.KBindings {
			byQueue[h.Queue] = append(byQueue[h.Queue], c04Ev{hi, bi, true})
		}
	}
	total := 0
	for _, qn := range []int{0, 1} {
		bs := byQueue[qn]
		if len(bs) == 0 {
			continue
		}
		n := rng.Range(2, 7)
		cur := PickOne(rng, bs)
		for i := 0; i < n; i++ {
			if rng.Chance(25) {
				cur = PickOne(rng, bs)
			} else {
				var same []c04Ev
				for _, x := range bs {
					if x.H == cur.H {
						same = append(same, x)
					}
				}
				cur = PickOne(rng, same)
			}
			p.initial[qn] = append(p.initial[qn], cur)
		}
		total += n
	}
	// sixth wave: a third of the failing runs do not fail in the hook process: the hook ends well and a
	// dependency of the handler (the storage of hook metrics) panics once, after the combination and
	// the hook run; the queue handler of the world reports the panic as a failed run and the task is retried
	var fault *c07FaultStorage
	p.outcome = func(id, failed int) string {
		if failed < 2 && rng.Chance(45) {
			if fault != nil && rng.Chance(35) && !c07HeadAF(ww.w, id) {
				fault.armed.Store(true)
				c.Note("fault:handler-panic-after-the-hook-run(reported as a failed run, retried)")
				return "okfault"
			}
			return "exit"
		}
		return "ok"
	}
	// a webhook request: mostly for the hook whose task is at the head of the driven queue
	whLeft, whDead := 4, false
	webhook := func(qn int, state string) {
		if whDead || whLeft == 0 || ww.w == nil || len(ww.byHook) == 0 || !rng.Chance(55) {
			return
		}
		hi := -1
		if q := ww.w.op.TaskQueues.GetByName(c04QueueName(qn)); q != nil && rng.Chance(80) {
			if ss := ww.w.snapQueue(q); len(ss) > 0 {
				if hh, ok := ww.w.hookByName(ss[0].hook); ok && len(ww.byHook[hh.Num-1]) > 0 {
					hi = hh.Num - 1
				}
			}
		}
		if hi < 0 {
			var his []int
			for i := range hooks {
				if len(ww.byHook[i]) > 0 {
					his = append(his, i)
				}
			}
			hi = PickOne(rng, his)
		}
		whLeft--
		if !ww.fire(hi, PickOne(rng, ww.byHook[hi]), state) {
			whDead = true
		}
	}
	arrivals := 0
	p.arrivals = func(qn, step int) []c04Ev {
		if rng.Chance(50) {
			webhook(qn, "running") // the head is blocked at its gate, its followers (if any) are queued
		}
		var evs []c04Ev
		if !(arrivals >= 4 || !rng.Chance(30) || len(byQueue[qn]) == 0) {
			arrivals++
			evs = []c04Ev{PickOne(rng, byQueue[qn])}
		}
		return evs
	}
	boArr := 0
	p.boArrivals = func(qn, step int) []c04Ev {
		var evs []c04Ev
		if !(boArr >= 2 || !rng.Chance(30) || len(byQueue[qn]) == 0) {
			boArr++
			evs = []c04Ev{PickOne(rng, byQueue[qn])}
		}
		if len(evs) == 0 {
			webhook(qn, "backoff") // the failed head waits for its retry
		}
		return evs
	}
	p.onExec = func(w *c04World, qn, id int, pre, now []c04Snap, run *c04Running) {
		if ww.w == nil {
			ww.w = w
			fault = c07InstallFault(w)
		}
		c07OnExec(w, qn, id, pre, now, run)
	}
	c.Desc = fmt.Sprintf("operator: %d hooks (names %q…), event layouts main=%d q1=%d, failing runs retried, %d hooks with webhook bindings", len(hooks), hooks[0].Name, len(p.initial[0]), len(p.initial[1]), len(ww.byHook))
	c.Nontrivial = total >= 2
	c.Note("case:operator-events-and-retries")
	c.Op("mode operator", "ok")
	c04Execute(c, r, p)
}

// c07HeadAF: allowFailure of the running head task with that number (true when unknown: an allowed
// failure is not retried).
func c07HeadAF(w *c04World, id int) bool {
	if w == nil {
		return true
	}
	for _, run := range w.running {
		if run != nil && w.tasks.Id(run.head.id) == id {
			return run.head.af
		}
	}
	return true
}

// c07OnExec states the property for one execution on the real operator.
func c07OnExec(w *c04World, qn, id int, pre, now []c04Snap, run *c04Running) {
	w.c.Oracle(fmt.Sprintf("merged q=%d task=%d pre=%s ctxs=%s queue=%s", qn, id, w.snapIds(pre), w.hookCtxs(run.start.ctxs), w.snapIds(now)))
	switch {
	case run.real != nil && run.real.GetFailureCount() > 0 && len(pre) > len(now):
		w.c.Note("oracle:merged(retry, merging more)")
	case run.real != nil && run.real.GetFailureCount() > 0:
		w.c.Note("oracle:merged(retry)")
	case len(pre) > len(now):
		w.c.Note("oracle:merged(first attempt, merging)")
	default:
		w.c.Note("oracle:merged(first attempt, alone)")
	}
}

func runC07(r *Run) {
	r.Rule = "queue layouts of 1..10 tasks in the task's queue (+0..2 in a second queue) over 3 hooks x 3 task types x metadata-less tasks x contexts (0..3 per task, unique binding names, groups {\"\",g1,g2} interleaved) x monitor ids x allowFailure; the real combineBindingContextForHook (via verif_export_c07.go) or its exported twin is called for the head task (78%), a task in the middle, with a nil queue, with a task naming another / an absent queue, for a task that is in no queue and names none (what the admission and conversion handlers run; the queue pointer is then GetByName of its empty name, as in taskHandleHookRun; oracle untouched: nothing merged, no queue changed); stop predicate nil / allowFailure-differs / id set; in 55% of the calls 1..3 tasks are appended to the queues by a second goroutine while the combiner is parked between Iterate and Filter; 35% of the cases run a second call after the task's metadata was updated with the first result. Oracle lines (head-of-own-queue calls): returned contexts = Spec.compact of the concatenation in queue order, monitor ids, every queue of the set afterwards. Non-trivial: >= 2 tasks in the queue; distinct = distinct op-line sequences. Plus whole-operator startups (real taskHandleHookRun with generated hooks: grouped/ungrouped Synchronization tasks; oracle: an ungrouped Synchronization runs with its own contexts and the queue is left alone). Fourth wave: the hook number of a layout stands for one of 10 tables of names that look equal (letter case only, prefix of each other, trailing characters, unicode case pairs, path spellings); queued non-head tasks are probes that report every GetId/GetType/GetMetadata the combiner makes: in 15% of the head calls one task is appended by another goroutine started from inside the k-th such access (k random), so the append lands wherever the combiner reads tasks without the queue lock (and waits where it holds it). Whole-operator cases with events (40 quick / 300 thorough): 2..3 bash hooks whose file names look equal, mostly in one queue, loaded by the real loader, each with 2..3 schedule and 0..2 kubernetes bindings in one of the group layouts schedule-only / kubernetes-only / mixed / two groups / none; layouts of 2..7 tasks are built by the real schedule / kubernetes controllers and the events handler while a run is blocked, 45% of the runs fail (up to twice per task) and are retried, more tasks arrive during runs and back-offs. Oracle `merged` on EVERY execution (first attempt and retries): what the hook found in its context file = Spec.compact of the concatenation in queue order of the contexts, as the hook configuration declares them, of the head, of everything merged into it by earlier attempts and of the following run of the same hook/type; exactly that run left the queue. Sixth wave: in 60% of the event-and-retry operator cases most hooks ALSO have 1..2 webhook bindings (kubernetesCustomResourceConversion / kubernetesValidating / kubernetesMutating, 30% of them with the `group:` the other bindings use); up to 4 requests per case are answered out of band through the real routers (chi, httptest) of the operator's admission and conversion WebhookHandlers -> the event closure of initValidatingWebhookManager / conversionEventHandler -> HookManager -> taskHandler -> taskHandleHookRun -> bash, mostly for the hook whose task is at the head of the driven queue, while that head task is blocked in its run (its followers queued behind it) or sleeps in its back-off after a failed run (back-off 600..900 ms; inconclusive when the answer did not arrive before the back-off could end). Oracle `webhook` per request: the hook found exactly the context of its request in its context file (rendered with its own type, never Group) and every queue of the set holds the same tasks in the same places while that hook runs and after it has finished as before the request - tasks leave a queue only by being merged into its executed head. A third of the failing runs of these cases (head not allowFailure) do not fail in the hook process: the hook ends well and the storage of hook metrics (public interface field of the operator, wrapped) panics once in the SendBatch that follows every hook run, i.e. after combination and run; the queue handler of the world reports the escaping panic to the worker as a failed run, the task is retried and the retry is judged by oracle merged like every attempt. Corpus: 5 (webhook requests while the head of main runs / waits), 6 (handler panic after combined runs), 7 (a task merged by a failing retry, third attempt judged). Thorough adds every layout of a head (3 groups) with <= 4 followers over 6 follower kinds, with and without a concurrent append."
	// corpus
	r.One(0, func(c *Case, _ *Rng) {
		c.Desc = "corpus: interleaved groups, monitor ids, a foreign hook in the middle, concurrent append"
		c.Nontrivial = true
		l := c07Layout{Queues: map[int][]int{1: {1, 2, 3, 4, 5}, 2: {6}}, QOrd: []int{1, 2}}
		l.Tasks = []c07Task{
			{ID: 1, Meta: true, Hook: 1, Queue: 1, Ctxs: []c07Ctx{{1, 0, 1}}, Mons: []int{1}},
			{ID: 2, Meta: true, Hook: 1, Queue: 1, Ctxs: []c07Ctx{{2, 0, 1}, {3, 1, 0}, {4, 1, 2}}, Mons: []int{2}},
			{ID: 3, Meta: true, Hook: 1, Queue: 1, Ctxs: []c07Ctx{{5, 1, 2}, {6, 1, 1}}},
			{ID: 4, Meta: true, Hook: 2, Queue: 1, Ctxs: []c07Ctx{{7, 1, 1}}},
			{ID: 5, Meta: true, Hook: 1, Queue: 1, Ctxs: []c07Ctx{{8, 1, 1}}},
			{ID: 6, Meta: true, Hook: 1, Queue: 2, Ctxs: []c07Ctx{{9, 1, 1}}},
		}
		app := c07Task{ID: 7, Meta: true, Hook: 1, Queue: 1, Ctxs: []c07Ctx{{10, 1, 1}}}
		c07Run(c, l, []c07Call{
			{Passed: 1, T: l.Tasks[0], Stop: "none", Apps: map[int][]c07Task{1: {app}}, AppOrd: []int{1}},
			{Twin: true, Passed: 1, T: l.Tasks[0], Stop: "none", Apps: map[int][]c07Task{}},
		}, true)
	})
	r.One(1, func(c *Case, _ *Rng) {
		c.Desc = "corpus: twin called for a task that names another queue than the one passed (excluded point of twin_result_partial)"
		c.Nontrivial = true
		l := c07Layout{Queues: map[int][]int{1: {1, 2}, 2: {3}}, QOrd: []int{1, 2}}
		l.Tasks = []c07Task{
			{ID: 1, Meta: true, Hook: 1, Queue: 2, Ctxs: []c07Ctx{{1, 1, 0}}},
			{ID: 2, Meta: true, Hook: 1, Queue: 1, Ctxs: []c07Ctx{{2, 1, 0}}},
			{ID: 3, Meta: true, Hook: 1, Queue: 2, Ctxs: []c07Ctx{{3, 1, 0}}},
		}
		c07Run(c, l, []c07Call{{Twin: true, Passed: 1, T: l.Tasks[0], Stop: "none", Apps: map[int][]c07Task{}}}, false)
	})
	r.Cases(10, r.N(4000, 40000), 0, c07Random)
	// C07.6 on the real operator (taskHandleHookRun's combine decision): startup with grouped and
	// ungrouped Synchronization tasks; the lines are those of the C04 suite, answered by the same model
	r.CaseTimeout = 300 * time.Second
	r.One(2, func(c *Case, _ *Rng) {
		c.Desc = "operator: onStartup + grouped/ungrouped Synchronization tasks (mixed allowFailure, executeHookOnSynchronization:false), then kubernetes events"
		c.Nontrivial = true
		c.Op("mode operator", "ok")
		c04SyncWitness(c, r)
	})
	r.Cases(500000, r.N(16, 100), 0, func(c *Case, rng *Rng) {
		hooks := c04GenHooks(rng, rng.Range(1, 2), true)
		for i := range hooks {
			if len(hooks[i].KBindings) == 0 {
				hooks[i].KBindings = []c04KBinding{{Name: fmt.Sprintf("kx%d", i), EOS: true}, {Name: fmt.Sprintf("ky%d", i), EOS: true, Group: rng.Intn(2)}}
			}
		}
		p := c04Plan{hooks: hooks, boInit: 15 * time.Millisecond, boStep: 5 * time.Millisecond, initial: map[int][]c04Ev{}, maxSteps: 60, onExec: c07OnExec}
		p.outcome = func(id, failed int) string {
			if failed < 1 && rng.Chance(25) {
				return "exit"
			}
			return "ok"
		}
		c.Desc = "operator: startup with Synchronization tasks of generated kubernetes bindings"
		c.Nontrivial = true
		c.Note("case:operator-startup")
		c.Op("mode operator", "ok")
		c04Execute(c, r, p)
	})
	r.One(3, func(c *Case, _ *Rng) {
		c.Desc = "corpus operator: a group carried by schedule bindings only, hooks whose names differ in letter case in one queue, combined runs that fail once and are retried"
		c.Nontrivial = true
		hooks := []c04Hook{
			{Name: "10-sync", Num: 1, Queue: 1, Bindings: []c04Binding{
				{Name: "b1", Crontab: "1 0 1 1 *", Group: 1}, {Name: "b2", Crontab: "2 0 1 1 *", Group: 1}, {Name: "b3", Crontab: "3 0 1 1 *"}}},
			{Name: "10-Sync", Num: 2, Queue: 1, Bindings: []c04Binding{{Name: "b4", Crontab: "4 0 1 1 *"}, {Name: "b5", Crontab: "5 0 1 1 *"}}},
		}
		p := c04Plan{hooks: hooks, boInit: 20 * time.Millisecond, boStep: 5 * time.Millisecond, maxSteps: 40, onExec: c07OnExec,
			initial: map[int][]c04Ev{1: {{1, 0, false}, {0, 0, false}, {0, 1, false}, {0, 0, false}, {1, 0, false}, {1, 1, false}, {0, 2, false}, {0, 1, false}}}}
		gate := -1
		p.outcome = func(id, failed int) string {
			if gate < 0 {
				gate = id
				return "ok"
			}
			if failed < 1 {
				return "exit"
			}
			return "ok"
		}
		c.Op("mode operator", "ok")
		c04Execute(c, r, p)
	})
	r.One(4, func(c *Case, _ *Rng) {
		c.Desc = "corpus: hooks whose names differ in letter case / by a suffix, adjacent in one queue; a task appended from inside the combiner's accesses to the queued tasks"
		c.Nontrivial = true
		for probe := 1; probe <= 16; probe++ {
			l := c07Layout{Queues: map[int][]int{1: {1, 2, 3, 4, 5}}, QOrd: []int{1}, Names: 1 + probe%2}
			l.Tasks = []c07Task{
				{ID: 1, Meta: true, Hook: 1, Queue: 1, Ctxs: []c07Ctx{{1, 1, 0}}},
				{ID: 2, Meta: true, Hook: 1, Queue: 1, Ctxs: []c07Ctx{{2, 1, 1}}},
				{ID: 3, Meta: true, Hook: 1, Queue: 1, Ctxs: []c07Ctx{{3, 1, 1}}, Mons: []int{1}},
				{ID: 4, Meta: true, Hook: 2, Queue: 1, Ctxs: []c07Ctx{{4, 1, 0}}},
				{ID: 5, Meta: true, Hook: 1, Queue: 1, Ctxs: []c07Ctx{{5, 1, 0}}},
			}
			app := c07Task{ID: 6, Meta: true, Hook: 1, Queue: 1, Ctxs: []c07Ctx{{6, 1, 1}}}
			c.Op("reset", "ok")
			c07Run(c, l, []c07Call{{Twin: probe%4 >= 2, Passed: 1, T: l.Tasks[0], Stop: "none", Apps: map[int][]c07Task{1: {app}}, AppOrd: []int{1}, Probe: probe}}, false)
		}
	})
	r.One(5, func(c *Case, _ *Rng) {
		c.Desc = "corpus operator: hooks with conversion / validating / mutating bindings next to schedule bindings in the main queue; requests answered out of band while the head task of main (same hook, followers queued) runs and while it waits for its retry"
		c.Nontrivial = true
		ww := &c07WhWorld{byHook: map[int][]c07Wh{
			0: {{Kind: "conversion", Name: "conv1", Crd: "things1.c07.example.com"}, {Kind: "validating", Name: "v1.c07.example.com", Group: 1}},
			1: {{Kind: "mutating", Name: "m2.c07.example.com"}},
		}}
		hooks := []c04Hook{
			{Name: "10-sync", Num: 1, Queue: 0, Bindings: []c04Binding{
				{Name: "b1", Crontab: "1 0 1 1 *", Group: 1}, {Name: "b2", Crontab: "2 0 1 1 *", Group: 1}, {Name: "b3", Crontab: "3 0 1 1 *"}}},
			{Name: "10-Sync", Num: 2, Queue: 0, Bindings: []c04Binding{{Name: "b4", Crontab: "4 0 1 1 *"}, {Name: "b5", Crontab: "5 0 1 1 *"}}},
		}
		for i := range hooks {
			for _, x := range ww.byHook[i] {
				hooks[i].Extra += x.yaml()
			}
		}
		p := c04Plan{hooks: hooks, boInit: 500 * time.Millisecond, boStep: 5 * time.Millisecond, maxSteps: 40,
			initial: map[int][]c04Ev{0: {{0, 0, false}, {0, 1, false}, {0, 2, false}, {1, 0, false}, {0, 0, false}, {0, 1, false}, {1, 1, false}}}}
		p.onExec = func(w *c04World, qn, id int, pre, now []c04Snap, run *c04Running) {
			ww.w = w
			c07OnExec(w, qn, id, pre, now, run)
		}
		gate := -1
		p.outcome = func(id, failed int) string {
			if gate < 0 {
				gate = id
				return "ok"
			}
			if failed < 1 {
				return "exit"
			}
			return "ok"
		}
		headHook := func(qn int) int {
			if ss := ww.w.snapQueue(ww.w.op.TaskQueues.GetByName(c04QueueName(qn))); len(ss) > 0 {
				if hh, ok := ww.w.hookByName(ss[0].hook); ok {
					return hh.Num - 1
				}
			}
			return 0
		}
		dead := false
		nreq := 0
		req := func(qn int, state string) {
			if dead || ww.w == nil || nreq >= 8 {
				return
			}
			hi := headHook(qn)
			l := ww.byHook[hi]
			x := l[nreq%len(l)]
			nreq++
			dead = !ww.fire(hi, x, state)
		}
		p.arrivals = func(qn, step int) []c04Ev { req(qn, "running"); return nil }
		p.boArrivals = func(qn, step int) []c04Ev { req(qn, "backoff"); return nil }
		c.Op("mode operator", "ok")
		c04Execute(c, r, p)
	})
	r.One(6, func(c *Case, _ *Rng) {
		c.Desc = "corpus operator: combined runs whose handler panics once after the hook process ended well (the storage of hook metrics is broken once); the panic is reported to the queue as a failed run, the retry must receive every merged context"
		c.Nontrivial = true
		hooks := []c04Hook{
			{Name: "hook01", Num: 1, Queue: 0, Bindings: []c04Binding{
				{Name: "b1", Crontab: "1 0 1 1 *"}, {Name: "b2", Crontab: "2 0 1 1 *", Group: 1}, {Name: "b3", Crontab: "3 0 1 1 *"}}},
			{Name: "hook02", Num: 2, Queue: 0, Bindings: []c04Binding{{Name: "b4", Crontab: "4 0 1 1 *"}}},
		}
		p := c04Plan{hooks: hooks, boInit: 20 * time.Millisecond, boStep: 5 * time.Millisecond, maxSteps: 40,
			initial: map[int][]c04Ev{0: {{0, 0, false}, {0, 1, false}, {0, 2, false}, {0, 0, false}, {1, 0, false}, {0, 1, false}, {0, 2, false}}}}
		var fault *c07FaultStorage
		p.onExec = func(w *c04World, qn, id int, pre, now []c04Snap, run *c04Running) {
			if fault == nil {
				fault = c07InstallFault(w)
			}
			c07OnExec(w, qn, id, pre, now, run)
		}
		gate := -1
		p.outcome = func(id, failed int) string {
			if gate < 0 {
				gate = id
				return "ok"
			}
			if failed < 1 && fault != nil {
				fault.armed.Store(true)
				c.Note("fault:handler-panic-after-the-hook-run(reported as a failed run, retried)")
				return "okfault"
			}
			return "ok"
		}
		c.Op("mode operator", "ok")
		c04Execute(c, r, p)
	})
	r.One(7, func(c *Case, _ *Rng) {
		c.Desc = "corpus operator: a combined run fails, a task of the same hook arrives during the back-off and is merged by the retry, the retry fails as well (once by exit code, once by a handler panic after the hook run): the third attempt must receive every merged context"
		c.Nontrivial = true
		hooks := []c04Hook{
			{Name: "hook01", Num: 1, Queue: 0, Bindings: []c04Binding{
				{Name: "b1", Crontab: "1 0 1 1 *"}, {Name: "b2", Crontab: "2 0 1 1 *"}, {Name: "b3", Crontab: "3 0 1 1 *", Group: 1}}},
			{Name: "hook02", Num: 2, Queue: 0, Bindings: []c04Binding{{Name: "b4", Crontab: "4 0 1 1 *"}}},
		}
		p := c04Plan{hooks: hooks, boInit: 400 * time.Millisecond, boStep: 5 * time.Millisecond, maxSteps: 40,
			initial: map[int][]c04Ev{0: {{0, 0, false}, {0, 1, false}, {0, 2, false}, {1, 0, false}, {0, 0, false}, {0, 2, false}}}}
		var fault *c07FaultStorage
		p.onExec = func(w *c04World, qn, id int, pre, now []c04Snap, run *c04Running) {
			if fault == nil {
				fault = c07InstallFault(w)
			}
			c07OnExec(w, qn, id, pre, now, run)
		}
		gate := -1
		p.outcome = func(id, failed int) string {
			if gate < 0 {
				gate = id
				return "ok"
			}
			switch {
			case failed == 0:
				return "exit"
			case failed == 1 && fault != nil && id%2 == 0:
				fault.armed.Store(true)
				c.Note("fault:handler-panic-after-the-hook-run(reported as a failed run, retried)")
				return "okfault"
			case failed == 1:
				return "exit"
			}
			return "ok"
		}
		nbo := 0
		p.boArrivals = func(qn, step int) []c04Ev {
			nbo++
			if nbo%2 == 1 && nbo <= 5 {
				return []c04Ev{{0, (nbo / 2) % 3, false}} // a task of hook01 behind the waiting head (directly behind it in the first round)
			}
			return nil
		}
		c.Op("mode operator", "ok")
		c04Execute(c, r, p)
	})
	r.Cases(600000, r.N(40, 300), 0, func(c *Case, rng *Rng) { c07Operator(c, rng, r) })
	if r.Thorough() {
		total := 0
		for nf, p := 0, 1; nf <= 4; nf++ {
			total += p
			p *= 6
		}
		total *= 6
		r.Cases(1000000, total, 0, func(c *Case, _ *Rng) { c07Exhaustive(c, c.Idx-1000000) })
		r.Exhaust = true
		r.Extra["exhaustive_scope"] = fmt.Sprintf("all %d layouts: head task (group \"\",g1,g2) + <= 4 followers over {same hook&type with group \"\"/g1/g2, other hook, other type, no metadata}, each with and without a task appended between Iterate and Filter", total)
	}
}
