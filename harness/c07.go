package main

import (
	"context"
	"fmt"
	"strconv"
	"strings"
	"time"

	"github.com/deckhouse/deckhouse/pkg/log"

	bctx "github.com/flant/shell-operator/pkg/hook/binding_context"
	"github.com/flant/shell-operator/pkg/hook/task_metadata"
	htypes "github.com/flant/shell-operator/pkg/hook/types"
	kemtypes "github.com/flant/shell-operator/pkg/kube_events_manager/types"
	shell_operator "github.com/flant/shell-operator/pkg/shell-operator"
	"github.com/flant/shell-operator/pkg/task"
	"github.com/flant/shell-operator/pkg/task/queue"
)

func init() { suites["c07"] = runC07 }

// ---------------------------------------------------------------- generated layout (plain data)

type c07Ctx struct{ B, T, G int } // binding number (unique per context), type, group (0 = "")

type c07Task struct {
	ID    int
	Meta  bool
	Hook  int
	Type  int // 0 HookRun, 1 EnableKubernetesBindings, 2 other
	Queue int
	AF    bool
	Ctxs  []c07Ctx
	Mons  []int
}

var c07TaskTypes = []task.TaskType{task_metadata.HookRun, task_metadata.EnableKubernetesBindings, "VerifOther"}
var c07CtxTypes = []kemtypes.KubeEventType{kemtypes.TypeSynchronization, kemtypes.TypeEvent, "Group", "Schedule", ""}

func c07Group(g int) string {
	if g == 0 {
		return ""
	}
	return "g" + strconv.Itoa(g)
}

func c07ShowCtxs(cs []c07Ctx) string {
	if len(cs) == 0 {
		return "-"
	}
	var ss []string
	for _, c := range cs {
		ss = append(ss, fmt.Sprintf("%d:%d:%d", c.B, c.T, c.G))
	}
	return strings.Join(ss, ";")
}

func (t c07Task) line() string {
	b := func(x bool) int {
		if x {
			return 1
		}
		return 0
	}
	return fmt.Sprintf("task %d meta=%d hook=%d type=%d q=%d af=%d ctxs=%s mons=%s", t.ID, b(t.Meta), t.Hook, t.Type,
		t.Queue, b(t.AF), c07ShowCtxs(t.Ctxs), joinInts(t.Mons))
}

// ---------------------------------------------------------------- the real objects

type c07World struct {
	prefix string
	op     *shell_operator.ShellOperator
	tqs    *queue.TaskQueueSet
	names  []int // queue numbers in definition order
	cancel context.CancelFunc
}

func (w *c07World) qname(n int) string { return fmt.Sprintf("%s-q%d", w.prefix, n) }

func newC07World(prefix string, queues []int) *c07World {
	ctx, cancel := context.WithCancel(context.Background())
	op := shell_operator.NewShellOperator(ctx, shell_operator.WithLogger(log.NewNop()))
	tqs := queue.NewTaskQueueSet()
	tqs.WithContext(ctx)
	op.TaskQueues = tqs
	w := &c07World{prefix: prefix, op: op, tqs: tqs, names: queues, cancel: cancel}
	// queue 1 plays the main queue of this set (a name of its own per case: yield points are keyed by queue name)
	tqs.WithMainName(w.qname(1))
	for _, n := range queues {
		tqs.NewNamedQueue(w.qname(n), func(task.Task) queue.TaskResult { return queue.TaskResult{Status: queue.Success} })
	}
	return w
}

func (w *c07World) mkTask(t c07Task) task.Task {
	bt := task.NewTask(c07TaskTypes[t.Type])
	bt.Id = strconv.Itoa(t.ID)
	if t.Queue == 0 {
		// a task that is in no queue and names none: what the admission / conversion handlers build
		bt.WithQueueName("")
	} else {
		bt.WithQueueName(w.qname(t.Queue))
	}
	if t.Meta {
		bt.WithMetadata(w.mkMeta(t))
	}
	return bt
}

func (w *c07World) mkMeta(t c07Task) task_metadata.HookMetadata {
	var cs []bctx.BindingContext
	for _, c := range t.Ctxs {
		bc := bctx.BindingContext{Binding: "b" + strconv.Itoa(c.B), Type: c07CtxTypes[c.T]}
		bc.Metadata.Group = c07Group(c.G)
		bc.Metadata.BindingType = htypes.OnKubernetesEvent
		bc.Metadata.Version = "v1"
		cs = append(cs, bc)
	}
	var ms []string
	for _, m := range t.Mons {
		ms = append(ms, "m"+strconv.Itoa(m))
	}
	return task_metadata.HookMetadata{HookName: "hook" + strconv.Itoa(t.Hook), BindingType: htypes.OnKubernetesEvent,
		BindingContext: cs, MonitorIDs: ms, AllowFailure: t.AF}
}

func c07ObsCtxs(cs []bctx.BindingContext) string {
	if len(cs) == 0 {
		return "-"
	}
	var ss []string
	for _, c := range cs {
		ty := -1
		for i, k := range c07CtxTypes {
			if k == c.Type {
				ty = i
			}
		}
		g := 0
		if c.Metadata.Group != "" {
			g, _ = strconv.Atoi(strings.TrimPrefix(c.Metadata.Group, "g"))
		}
		ss = append(ss, fmt.Sprintf("%s:%d:%d", strings.TrimPrefix(c.Binding, "b"), ty, g))
	}
	return strings.Join(ss, ";")
}

func (w *c07World) obsQueues() string {
	var parts []string
	for _, n := range w.names {
		var ids []string
		w.tqs.GetByName(w.qname(n)).Iterate(func(t task.Task) { ids = append(ids, taskID(t)) })
		parts = append(parts, fmt.Sprintf("%d:%s", n, joinStrs(ids)))
	}
	if len(parts) == 0 {
		return "-"
	}
	return strings.Join(parts, ";")
}

type c07Call struct {
	Twin   bool
	Passed int // -1 = nil pointer
	T      c07Task
	ByName bool              // the queue pointer is what production passes: GetByName(t.GetQueueName())
	Stop   string            // "none" | "af" | "ids:…"
	Apps   map[int][]c07Task // appended between Iterate and Filter, per queue
	AppOrd []int
}

func (c c07Call) args() string {
	fn := "int"
	if c.Twin {
		fn = "twin"
	}
	passed := "nil"
	if c.Passed >= 0 {
		passed = strconv.Itoa(c.Passed)
	}
	app := "-"
	var parts []string
	for _, n := range c.AppOrd {
		var ids []int
		for _, t := range c.Apps[n] {
			ids = append(ids, t.ID)
		}
		parts = append(parts, fmt.Sprintf("%d:%s", n, joinInts(ids)))
	}
	if len(parts) > 0 {
		app = strings.Join(parts, ";")
	}
	return fmt.Sprintf("fn=%s passed=%s t=%d stop=%s app=%s", fn, passed, c.T.ID, c.Stop, app)
}

// combine runs the real function; tasks of call.Apps are appended by this goroutine while the
// combining goroutine is parked at the yield point between Iterate and Filter.
func (w *c07World) combine(call c07Call, real task.Task) (string, string) {
	var stop func(task.Task) bool
	switch {
	case call.Stop == "af":
		stop = func(tsk task.Task) bool {
			return task_metadata.HookMetadataAccessor(tsk).AllowFailure != call.T.AF
		}
	case strings.HasPrefix(call.Stop, "ids:"):
		set := map[string]bool{}
		for _, s := range strings.Split(strings.TrimPrefix(call.Stop, "ids:"), ",") {
			set[s] = true
		}
		stop = func(tsk task.Task) bool { return set[tsk.GetId()] }
	}
	var passed *queue.TaskQueue
	if call.Passed >= 0 {
		passed = w.tqs.GetByName(w.qname(call.Passed))
	}
	if call.ByName {
		passed = w.tqs.GetByName(real.GetQueueName())
	}
	key := real.GetQueueName()
	if key == "" {
		key = w.prefix + "-no-queue" // never reached by a point: a task without a queue name parks nowhere
	}
	arrive := sched.Subscribe(key)
	defer sched.Unsubscribe(key)
	done := make(chan string, 1)
	go func() {
		done <- Catch(func() string {
			var res *shell_operator.CombineResult
			if call.Twin {
				res = w.op.CombineBindingContextForHook(passed, real, stop)
			} else {
				res = w.op.VerifCombineBindingContextForHook(w.tqs, passed, real, stop)
			}
			if res == nil {
				return "out=nil"
			}
			var ms []string
			for _, m := range res.MonitorIDs {
				ms = append(ms, strings.TrimPrefix(m, "m"))
			}
			return fmt.Sprintf("out=res ctxs=%s mons=%s", c07ObsCtxs(res.BindingContexts), joinStrs(ms))
		})
	}()
	out := ""
	// One of the concurrent appends is held back and attempted while Filter is walking the queue
	// (yield point inside the queue lock): it must wait for Filter and land behind its result.
	var hold *c07Task
	holdQ := -1
	holdDone := make(chan struct{})
	reached := false
	for out == "" {
		select {
		case a := <-arrive:
			switch a.Name {
			case "combine.afterIterate":
				reached = true
				for _, n := range call.AppOrd {
					ts := call.Apps[n]
					if hold == nil && w.qname(n) == key && len(ts) > 0 && n == call.AppOrd[len(call.AppOrd)-1] {
						h := ts[len(ts)-1]
						hold, holdQ = &h, n
						ts = ts[:len(ts)-1]
					}
					for _, t := range ts {
						w.tqs.GetByName(w.qname(n)).AddLast(w.mkTask(t))
					}
				}
			case "queue.filter.locked":
				if hold != nil && holdQ >= 0 {
					q, t := w.tqs.GetByName(w.qname(holdQ)), w.mkTask(*hold)
					holdQ = -1
					go func() { defer close(holdDone); q.AddLast(t) }()
					time.Sleep(25 * time.Millisecond)
				}
			}
			a.Release()
		case out = <-done:
		case <-time.After(20 * time.Second):
			out = "hang"
		}
	}
	if hold != nil && out != "hang" {
		if holdQ >= 0 {
			// Filter was not reached (nothing to merge): the held task is appended now
			if reached {
				w.tqs.GetByName(w.qname(holdQ)).AddLast(w.mkTask(*hold))
			}
		} else {
			select {
			case <-holdDone:
			case <-time.After(10 * time.Second):
				out = "hang"
			}
		}
	}
	if out == "panic" {
		out = "out=panic"
	}
	return out, w.obsQueues()
}

// ---------------------------------------------------------------- one case

type c07Layout struct {
	Tasks  []c07Task     // every task (queued or not)
	Queues map[int][]int // queue number → task ids in order
	QOrd   []int
}

func (l c07Layout) task(id int) c07Task {
	for _, t := range l.Tasks {
		if t.ID == id {
			return t
		}
	}
	return c07Task{}
}

// c07Run builds the real world for the layout, replays the calls and records lines.
func c07Run(c *Case, l c07Layout, calls []c07Call, updateMeta bool) {
	w := newC07World(fmt.Sprintf("c07-%d", c.Idx), l.QOrd)
	defer w.cancel()
	real := map[int]task.Task{}
	for _, t := range l.Tasks {
		c.Op(t.line(), "ok")
	}
	for _, n := range l.QOrd {
		for _, id := range l.Queues[n] {
			rt := w.mkTask(l.task(id))
			real[id] = rt
			w.tqs.GetByName(w.qname(n)).AddLast(rt)
		}
		c.Op(fmt.Sprintf("queue %d %s", n, joinInts(l.Queues[n])), "ok")
	}
	for _, call := range calls {
		for _, n := range call.AppOrd {
			for _, t := range call.Apps[n] {
				c.Op(t.line(), "ok")
			}
		}
		rt, ok := real[call.T.ID]
		if !ok {
			rt = w.mkTask(call.T)
			real[call.T.ID] = rt
		}
		// is the call in the property's domain? (head of the queue it names, that queue passed)
		var ids []string
		inDomain := false
		if q := w.tqs.GetByName(rt.GetQueueName()); q != nil && call.T.Meta && call.Passed == call.T.Queue {
			q.Iterate(func(t task.Task) { ids = append(ids, t.GetId()) })
			inDomain = len(ids) > 0 && ids[0] == rt.GetId()
		}
		out, queues := w.combine(call, rt)
		c.Op("combine "+call.args(), out+" queues="+queues)
		if out == "hang" {
			return
		}
		if inDomain {
			c.Oracle("combine " + call.args() + " " + out + " queues=" + queues)
			c.Note("oracle:in-domain")
		} else if call.ByName && call.T.Queue == 0 {
			// a run that is not a queue task (webhook): nothing is merged, nothing leaves a queue
			c.Oracle("untouched " + call.args() + " " + out + " queues=" + queues)
			c.Note("oracle:not-a-queue-task")
		} else {
			c.Note("oracle:outside-domain(correspondence only)")
		}
		switch {
		case out == "out=nil":
			c.Note("out:nil")
		case out == "out=panic":
			c.Note("out:panic")
			return
		default:
			c.Note("out:res")
		}
		if updateMeta && strings.HasPrefix(out, "out=res") && call.T.Meta {
			// what taskHandleHookRun does with the result: the task keeps the combined contexts
			hm := task_metadata.HookMetadataAccessor(rt)
			f := strings.Fields(out)
			ctxs, mons := strings.TrimPrefix(f[1], "ctxs="), strings.TrimPrefix(f[2], "mons=")
			var cs []c07Ctx
			if ctxs != "-" {
				for _, p := range strings.Split(ctxs, ";") {
					x := strings.Split(p, ":")
					b, _ := strconv.Atoi(x[0])
					ty, _ := strconv.Atoi(x[1])
					g, _ := strconv.Atoi(x[2])
					cs = append(cs, c07Ctx{b, ty, g})
				}
			}
			var ms []int
			if mons != "-" {
				for _, p := range strings.Split(mons, ",") {
					m, _ := strconv.Atoi(p)
					ms = append(ms, m)
				}
			}
			nt := call.T
			nt.Ctxs, nt.Mons = cs, ms
			nm := w.mkMeta(nt)
			hm.BindingContext, hm.MonitorIDs = nm.BindingContext, nm.MonitorIDs
			rt.UpdateMetadata(hm)
			c.Op(fmt.Sprintf("setmeta %d ctxs=%s mons=%s", call.T.ID, ctxs, mons), "ok")
			for i := range l.Tasks {
				if l.Tasks[i].ID == call.T.ID {
					l.Tasks[i] = nt
				}
			}
		}
	}
}

// ---------------------------------------------------------------- generators

type c07Gen struct {
	rng     *Rng
	nextID  int
	nextB   int
	nextMon int
}

func (g *c07Gen) ctxs(n int, groupBias int) []c07Ctx {
	var cs []c07Ctx
	for i := 0; i < n; i++ {
		g.nextB++
		grp := 0
		if g.rng.Chance(groupBias) {
			grp = g.rng.Range(1, 2)
		}
		cs = append(cs, c07Ctx{g.nextB, g.rng.Intn(len(c07CtxTypes)), grp})
	}
	return cs
}

func (g *c07Gen) task(queue, headHook, headType int, headAF bool) c07Task {
	g.nextID++
	t := c07Task{ID: g.nextID, Meta: !g.rng.Chance(6), Queue: queue}
	t.Hook = headHook
	if g.rng.Chance(25) {
		t.Hook = g.rng.Range(1, 3)
	}
	t.Type = headType
	if g.rng.Chance(12) {
		t.Type = g.rng.Intn(3)
	}
	t.AF = headAF
	if g.rng.Chance(25) {
		t.AF = !headAF
	}
	t.Ctxs = g.ctxs(g.rng.Range(0, 3), 60)
	for i := g.rng.Intn(3); i > 0; i-- {
		g.nextMon++
		t.Mons = append(t.Mons, g.nextMon)
	}
	return t
}

func c07Random(c *Case, rng *Rng) {
	g := &c07Gen{rng: rng}
	l := c07Layout{Queues: map[int][]int{}, QOrd: []int{1, 2}}
	headHook, headType, headAF := rng.Range(1, 3), 0, rng.Bool()
	if rng.Chance(15) {
		headType = rng.Intn(3)
	}
	n := rng.Range(1, 10)
	for i := 0; i < n; i++ {
		t := g.task(1, headHook, headType, headAF)
		if i == 0 {
			t.Hook, t.Type, t.AF = headHook, headType, headAF
			t.Meta = !rng.Chance(3)
		}
		l.Tasks = append(l.Tasks, t)
		l.Queues[1] = append(l.Queues[1], t.ID)
	}
	for i := rng.Intn(3); i > 0; i-- {
		t := g.task(2, headHook, headType, headAF)
		l.Tasks = append(l.Tasks, t)
		l.Queues[2] = append(l.Queues[2], t.ID)
	}
	ncalls := 1
	if rng.Chance(35) {
		ncalls = 2
	}
	var calls []c07Call
	tIdx := 0
	kind := "head"
	switch k := rng.Intn(100); {
	case k < 78:
	case k < 88:
		tIdx = rng.Intn(n)
		kind = "middle"
	case k < 91:
		kind = "nil-queue"
	case k < 94:
		kind = "foreign"
	case k < 97:
		kind = "webhook-task"
	default:
		kind = "absent-queue"
	}
	var webhookTask c07Task
	if kind == "webhook-task" {
		// same hook and task type as the head of the main queue, but in no queue and naming none
		webhookTask = g.task(0, headHook, headType, headAF)
		webhookTask.Meta, webhookTask.Hook, webhookTask.Type = true, headHook, headType
		l.Tasks = append(l.Tasks, webhookTask)
	}
	for ci := 0; ci < ncalls; ci++ {
		call := c07Call{Twin: rng.Bool(), Passed: 1, T: l.Tasks[tIdx], Stop: "none", Apps: map[int][]c07Task{}}
		switch kind {
		case "webhook-task":
			call.Passed = -1
			call.ByName = true
			call.T = webhookTask
		case "nil-queue":
			call.Passed = -1
		case "foreign":
			// the task names queue 2 but queue 1 is passed (and holds it)
			l.Tasks[tIdx].Queue = 2
			call.T = l.Tasks[tIdx]
		case "absent-queue":
			l.Tasks[tIdx].Queue = 9
			call.T = l.Tasks[tIdx]
		}
		switch k := rng.Intn(100); {
		case k < 55:
		case k < 75:
			call.Stop = "af"
		default:
			var ids []int
			for _, t := range l.Tasks {
				if rng.Chance(20) {
					ids = append(ids, t.ID)
				}
			}
			if len(ids) == 0 {
				ids = []int{99}
			}
			call.Stop = "ids:" + joinInts(ids)
		}
		if kind != "webhook-task" && rng.Chance(55) {
			for _, qn := range []int{1, 2} {
				if qn == 2 && !rng.Chance(30) {
					continue
				}
				k := rng.Range(1, 3)
				for i := 0; i < k; i++ {
					t := g.task(qn, headHook, headType, headAF)
					call.Apps[qn] = append(call.Apps[qn], t)
				}
				call.AppOrd = append(call.AppOrd, qn)
			}
			c.Note("call:with-concurrent-append")
		} else {
			c.Note("call:no-append")
		}
		calls = append(calls, call)
	}
	c.Note("t:" + kind)
	c.Desc = fmt.Sprintf("random layout: %d tasks, t=%s, %d call(s)", n, kind, ncalls)
	c.Nontrivial = n >= 2
	// calls are replayed one by one; later calls see the task as updated by the first
	c07RunSeq(c, l, calls)
}

// c07RunSeq replays calls so that each later call uses the task data updated by setmeta.
func c07RunSeq(c *Case, l c07Layout, calls []c07Call) {
	c07Run(c, l, calls, true)
}

// exhaustive small scope: head + up to 4 followers over 6 follower kinds × 3 head groups × {no append, append}
func c07Exhaustive(c *Case, k int) {
	const kinds = 6
	app := k%2 == 1
	k /= 2
	headGroup := k % 3
	k /= 3
	nf := 0
	for p := 1; k >= p; p *= kinds {
		k -= p
		nf++
	}
	var fk []int
	for i := 0; i < nf; i++ {
		fk = append(fk, k%kinds)
		k /= kinds
	}
	l := c07Layout{Queues: map[int][]int{}, QOrd: []int{1}}
	b := 0
	mk := func(id, hook, typ int, meta bool, grp int) c07Task {
		b++
		return c07Task{ID: id, Meta: meta, Hook: hook, Type: typ, Queue: 1, Ctxs: []c07Ctx{{b, 1, grp}}, Mons: []int{id}}
	}
	l.Tasks = append(l.Tasks, mk(1, 1, 0, true, headGroup))
	for i, f := range fk {
		id := i + 2
		switch f {
		case 0, 1, 2:
			l.Tasks = append(l.Tasks, mk(id, 1, 0, true, f))
		case 3:
			l.Tasks = append(l.Tasks, mk(id, 2, 0, true, 1))
		case 4:
			l.Tasks = append(l.Tasks, mk(id, 1, 1, true, 1))
		case 5:
			l.Tasks = append(l.Tasks, mk(id, 1, 0, false, 1))
		}
	}
	for _, t := range l.Tasks {
		l.Queues[1] = append(l.Queues[1], t.ID)
	}
	call := c07Call{Twin: nf%2 == 1, Passed: 1, T: l.Tasks[0], Stop: "none", Apps: map[int][]c07Task{}}
	if app {
		call.Apps[1] = []c07Task{mk(10, 1, 0, true, 1)}
		call.AppOrd = []int{1}
	}
	c.Nontrivial = nf >= 1
	c07Run(c, l, []c07Call{call}, false)
}

func runC07(r *Run) {
	r.Rule = "queue layouts of 1..10 tasks in the task's queue (+0..2 in a second queue) over 3 hooks x 3 task types x metadata-less tasks x contexts (0..3 per task, unique binding names, groups {\"\",g1,g2} interleaved) x monitor ids x allowFailure; the real combineBindingContextForHook (via verif_export_c07.go) or its exported twin is called for the head task (78%), a task in the middle, with a nil queue, with a task naming another / an absent queue, for a task that is in no queue and names none (what the admission and conversion handlers run; the queue pointer is then GetByName of its empty name, as in taskHandleHookRun; oracle untouched: nothing merged, no queue changed); stop predicate nil / allowFailure-differs / id set; in 55% of the calls 1..3 tasks are appended to the queues by a second goroutine while the combiner is parked between Iterate and Filter; 35% of the cases run a second call after the task's metadata was updated with the first result. Oracle lines (head-of-own-queue calls): returned contexts = Spec.compact of the concatenation in queue order, monitor ids, every queue of the set afterwards. Non-trivial: >= 2 tasks in the queue; distinct = distinct op-line sequences. Plus whole-operator startups (real taskHandleHookRun with generated hooks: grouped/ungrouped Synchronization tasks; oracle: an ungrouped Synchronization runs with its own contexts and the queue is left alone). Thorough adds every layout of a head (3 groups) with <= 4 followers over 6 follower kinds, with and without a concurrent append."
	// corpus
	r.One(0, func(c *Case, _ *Rng) {
		c.Desc = "corpus: interleaved groups, monitor ids, a foreign hook in the middle, concurrent append"
		c.Nontrivial = true
		l := c07Layout{Queues: map[int][]int{1: {1, 2, 3, 4, 5}, 2: {6}}, QOrd: []int{1, 2}}
		l.Tasks = []c07Task{
			{ID: 1, Meta: true, Hook: 1, Queue: 1, Ctxs: []c07Ctx{{1, 0, 1}}, Mons: []int{1}},
			{ID: 2, Meta: true, Hook: 1, Queue: 1, Ctxs: []c07Ctx{{2, 0, 1}, {3, 1, 0}, {4, 1, 2}}, Mons: []int{2}},
			{ID: 3, Meta: true, Hook: 1, Queue: 1, Ctxs: []c07Ctx{{5, 1, 2}, {6, 1, 1}}},
			{ID: 4, Meta: true, Hook: 2, Queue: 1, Ctxs: []c07Ctx{{7, 1, 1}}},
			{ID: 5, Meta: true, Hook: 1, Queue: 1, Ctxs: []c07Ctx{{8, 1, 1}}},
			{ID: 6, Meta: true, Hook: 1, Queue: 2, Ctxs: []c07Ctx{{9, 1, 1}}},
		}
		app := c07Task{ID: 7, Meta: true, Hook: 1, Queue: 1, Ctxs: []c07Ctx{{10, 1, 1}}}
		c07Run(c, l, []c07Call{
			{Passed: 1, T: l.Tasks[0], Stop: "none", Apps: map[int][]c07Task{1: {app}}, AppOrd: []int{1}},
			{Twin: true, Passed: 1, T: l.Tasks[0], Stop: "none", Apps: map[int][]c07Task{}},
		}, true)
	})
	r.One(1, func(c *Case, _ *Rng) {
		c.Desc = "corpus: twin called for a task that names another queue than the one passed (excluded point of twin_result_partial)"
		c.Nontrivial = true
		l := c07Layout{Queues: map[int][]int{1: {1, 2}, 2: {3}}, QOrd: []int{1, 2}}
		l.Tasks = []c07Task{
			{ID: 1, Meta: true, Hook: 1, Queue: 2, Ctxs: []c07Ctx{{1, 1, 0}}},
			{ID: 2, Meta: true, Hook: 1, Queue: 1, Ctxs: []c07Ctx{{2, 1, 0}}},
			{ID: 3, Meta: true, Hook: 1, Queue: 2, Ctxs: []c07Ctx{{3, 1, 0}}},
		}
		c07Run(c, l, []c07Call{{Twin: true, Passed: 1, T: l.Tasks[0], Stop: "none", Apps: map[int][]c07Task{}}}, false)
	})
	r.Cases(10, r.N(4000, 40000), 0, c07Random)
	// C07.6 on the real operator (taskHandleHookRun's combine decision): startup with grouped and
	// ungrouped Synchronization tasks; the lines are those of the C04 suite, answered by the same model
	r.CaseTimeout = 300 * time.Second
	r.One(2, func(c *Case, _ *Rng) {
		c.Desc = "operator: onStartup + grouped/ungrouped Synchronization tasks (mixed allowFailure, executeHookOnSynchronization:false), then kubernetes events"
		c.Nontrivial = true
		c.Op("mode operator", "ok")
		c04SyncWitness(c, r)
	})
	r.Cases(500000, r.N(16, 100), 0, func(c *Case, rng *Rng) {
		hooks := c04GenHooks(rng, rng.Range(1, 2), true)
		for i := range hooks {
			if len(hooks[i].KBindings) == 0 {
				hooks[i].KBindings = []c04KBinding{{Name: fmt.Sprintf("kx%d", i), EOS: true}, {Name: fmt.Sprintf("ky%d", i), EOS: true, Group: rng.Intn(2)}}
			}
		}
		p := c04Plan{hooks: hooks, boInit: 15 * time.Millisecond, boStep: 5 * time.Millisecond, initial: map[int][]c04Ev{}, maxSteps: 60}
		p.outcome = func(id, failed int) string {
			if failed < 1 && rng.Chance(25) {
				return "exit"
			}
			return "ok"
		}
		c.Desc = "operator: startup with Synchronization tasks of generated kubernetes bindings"
		c.Nontrivial = true
		c.Note("case:operator-startup")
		c.Op("mode operator", "ok")
		c04Execute(c, r, p)
	})
	if r.Thorough() {
		total := 0
		for nf, p := 0, 1; nf <= 4; nf++ {
			total += p
			p *= 6
		}
		total *= 6
		r.Cases(1000000, total, 0, func(c *Case, _ *Rng) { c07Exhaustive(c, c.Idx-1000000) })
		r.Exhaust = true
		r.Extra["exhaustive_scope"] = fmt.Sprintf("all %d layouts: head task (group \"\",g1,g2) + <= 4 followers over {same hook&type with group \"\"/g1/g2, other hook, other type, no metadata}, each with and without a task appended between Iterate and Filter", total)
	}
}
