package main

// C02 — Synchronization objects and snapshots equal the set of matching objects.
// Real kubeEventsManager / monitor / resourceInformer / HookController over kube-client/fake.

import (
	"context"
	"fmt"
	"strings"
	"time"

	"github.com/deckhouse/deckhouse/pkg/log"

	kem "github.com/flant/shell-operator/pkg/kube_events_manager"
	kemtypes "github.com/flant/shell-operator/pkg/kube_events_manager/types"
	metricstorage "github.com/flant/shell-operator/pkg/metric_storage"
)

func init() { suites["c02"] = runC02 }

const c02GhostID = "ghost-after-gap-delete"

// c02Mon is one real monitor under observation.
type c02Mon struct {
	spec   c02MonSpec
	mgr    kem.KubeEventsManager
	id     string
	cancel context.CancelFunc
}

type c02Env struct {
	c      *Case
	cl     *c02Cluster
	active []*c02Mon // started monitors of the case
}

func (e *c02Env) op(line string, err error) {
	if err != nil {
		e.c.Op(line, "err "+firstLine(err.Error()))
		return
	}
	e.c.Op(line, "ok")
}

func (e *c02Env) newMon(spec c02MonSpec) *c02Mon {
	ctx, cancel := context.WithCancel(context.Background())
	mgr := kem.NewKubeEventsManager(ctx, e.cl.fc.Client, log.NewNop())
	mgr.WithMetricStorage(metricstorage.NewMetricStorage(ctx, "c02_", true, log.NewNop()))
	m := &c02Mon{spec: spec, mgr: mgr, id: fmt.Sprintf("c%d-mon-%d", e.c.Idx, spec.id), cancel: cancel}
	e.c.Op(spec.line(), "ok")
	return m
}

// newMonOn: a monitor on an existing manager (the bindings of one hook share the manager).
func (e *c02Env) newMonOn(spec c02MonSpec, mgr kem.KubeEventsManager) *c02Mon {
	m := &c02Mon{spec: spec, mgr: mgr, id: fmt.Sprintf("c%d-mon-%d", e.c.Idx, spec.id), cancel: func() {}}
	e.c.Op(spec.line(), "ok")
	return m
}

func (e *c02Env) add(m *c02Mon) bool {
	err := m.mgr.AddMonitor(m.spec.config(e.cl, m.id))
	e.op(fmt.Sprintf("add %d", m.spec.id), err)
	return err == nil
}

// expectedVarying: namespaces for which the monitor should hold varying informers right now.
func (e *c02Env) expectedVarying(spec c02MonSpec) []int {
	if !spec.nsSel {
		return nil
	}
	var res []int
	e.cl.mu.Lock()
	for ns, l := range e.cl.nss {
		if l == 1 {
			res = append(res, ns)
		}
	}
	e.cl.mu.Unlock()
	return res
}

func (e *c02Env) start(m *c02Mon) {
	if m.spec.nsSel {
		e.cl.mu.Lock()
		e.cl.nsInfs++
		e.cl.mu.Unlock()
	}
	m.mgr.StartMonitor(m.id)
	e.c.Op(fmt.Sprintf("start %d", m.spec.id), "ok")
	e.cl.waitWatches(m.mgr.GetMonitor(m.id), m.spec, e.expectedVarying(m.spec))
}

// snap takes the observation of one monitor: correspondence line + the property oracle.
// Returns false when the case should stop (inconclusive or the observation already disagrees).
func (e *c02Env) snap(m *c02Mon) bool {
	mon := m.mgr.GetMonitor(m.id)
	want := e.cl.wantSnap(m.spec)
	got, inconcl := e.cl.settle(mon, m.spec, want)
	if inconcl {
		e.c.Inconcl = "list/watch machinery of the fake cluster did not catch up within the deadline"
		return false
	}
	e.c.Op(fmt.Sprintf("snap %d", m.spec.id), got)
	e.c.Oracle(fmt.Sprintf("snap %d got=%s", m.spec.id, got))
	if m.spec.flt > 0 {
		// "each with the binding's filter applied": the documented result of the program, per object
		e.c.Oracle(fmt.Sprintf("filt %d got=%s", m.spec.id, got))
	}
	return got == want
}

// c02Held: a snapshot an execution has read and keeps (a hook run holds the lists of its binding
// contexts from UpdateSnapshots until the context file is written; admission / conversion requests,
// other queues and the debug endpoint read the same binding meanwhile).
type c02Held struct {
	m     *c02Mon
	list  []kemtypes.ObjectAndFilterResult
	first string
}

// hold reads the binding's snapshot as an execution does and keeps the returned list. Only a read
// that shows the quiet state is kept (the model then answers the same), nil otherwise.
func (e *c02Env) hold(m *c02Mon) *c02Held {
	mon := m.mgr.GetMonitor(m.id)
	list := mon.Snapshot()
	first := c02RenderSnap(list, m.spec.flt > 0)
	if first != e.cl.wantSnap(m.spec) {
		return nil
	}
	e.c.Op(fmt.Sprintf("hold %d", m.spec.id), first)
	return &c02Held{m: m, list: list, first: first}
}

// lookAgain: the execution looks at the list it holds once more — after the cluster has changed and
// other readers have taken snapshots of the same binding. It must read what it read before.
func (e *c02Env) lookAgain(h *c02Held) bool {
	again := c02RenderSnap(h.list, h.m.spec.flt > 0)
	e.c.Op(fmt.Sprintf("held %d", h.m.spec.id), again)
	e.c.Oracle(fmt.Sprintf("held %d first=%s again=%s", h.m.spec.id, h.first, again))
	e.c.Note("held:looked-again")
	if h.first != "-" {
		e.c.Note("held:non-empty")
	}
	return again == h.first
}

// matchingNow: keys of the objects matching the binding right now, plus the matching namespaces.
func (e *c02Env) matchingNow(spec c02MonSpec) map[string]bool {
	res := map[string]bool{}
	e.cl.mu.Lock()
	defer e.cl.mu.Unlock()
	for k, v := range e.cl.objs {
		if spec.matches(e.cl, k, v) {
			res[fmt.Sprintf("o/%d/%d/%d", k.ns, k.kind, k.name)] = true
		}
	}
	if spec.nsSel {
		for ns, l := range e.cl.nss {
			if l == 1 {
				res[fmt.Sprintf("n/%d", ns)] = true
			}
		}
	}
	return res
}

func (e *c02Env) stop(m *c02Mon) {
	_ = m.mgr.StopMonitor(m.id)
	m.cancel()
}

// ------------------------------------------------------------------ generator

func c02RandSpec(rng *Rng, id int) c02MonSpec {
	s := c02MonSpec{id: id, kind: rng.Range(1, 2), keep: rng.Bool(), flt: rng.Intn(3)}
	if s.flt == 1 {
		s.prog = c02GenProg(rng)
	}
	pickSome := func(n, max int) []int { _ = n; return c02PickList(rng, max) }
	switch rng.Intn(6) {
	case 0: // whole cluster
	case 1, 2: // static namespaces
		s.nss = pickSome(4, 3)
	case 3, 4: // namespace label selector
		s.nsSel = true
	case 5: // both given: the label selector wins (namespaces() returns nil)
		s.nsSel = true
		s.nss = pickSome(4, 2)
	}
	if rng.Chance(35) {
		s.names = pickSome(4, 2)
	}
	if rng.Chance(25) {
		s.lblSel = true
	}
	if rng.Chance(20) {
		s.excl = rng.Range(1, 4)
	}
	return s
}

// c02PickList: a matchNames list over the ranks 1..4: 1..max distinct entries in random order and,
// in about a third of the lists, one or two entries repeated at arbitrary positions (adjacent or
// not, before or after other entries) — matchNames is a plain YAML list, nothing forbids repeats.
func c02PickList(rng *Rng, max int) []int {
	perm := []int{1, 2, 3, 4}
	rng.Shuffle(4, func(i, j int) { perm[i], perm[j] = perm[j], perm[i] })
	res := append([]int{}, perm[:rng.Range(1, max)]...)
	if rng.Chance(33) {
		for r := rng.Range(1, 2); r > 0; r-- {
			x := res[rng.Intn(len(res))]
			at := rng.Intn(len(res) + 1)
			res = append(res[:at], append([]int{x}, res[at:]...)...)
		}
	}
	return res
}

// c02HasRepeat: some entry occurs twice; nonAdjacent: with a different entry in between.
func c02HasRepeat(xs []int) (repeat, nonAdjacent bool) {
	for i := range xs {
		for j := i + 1; j < len(xs); j++ {
			if xs[i] == xs[j] {
				repeat = true
				for k := i + 1; k < j; k++ {
					if xs[k] != xs[i] {
						nonAdjacent = true
					}
				}
			}
		}
	}
	return
}

func (s c02MonSpec) bucket() string {
	var b []string
	switch {
	case s.nsSel:
		b = append(b, "ns-labelselector")
	case len(s.nss) > 0:
		b = append(b, "ns-static")
	default:
		b = append(b, "ns-all")
	}
	if len(s.names) > 0 {
		b = append(b, "names")
	}
	if s.lblSel {
		b = append(b, "labelsel")
	}
	if s.excl > 0 {
		b = append(b, "fieldsel")
	}
	if s.keep {
		b = append(b, "keepfull")
	}
	for _, l := range [][]int{s.names, s.nss} {
		if rep, gap := c02HasRepeat(l); gap {
			b = append(b, "matchnames-repeat-nonadjacent")
		} else if rep {
			b = append(b, "matchnames-repeat-adjacent")
		}
	}
	b = append(b, fmt.Sprintf("flt%d", s.flt))
	if s.flt == 1 {
		b = append(b, s.theProg().bucket())
	}
	return strings.Join(b, "+")
}

type c02Hist struct {
	e        *c02Env
	rng      *Rng
	creates  int
	deletes  int
	recreate int
	nsOps    int
	mods     int
	deleted  map[c02Key]bool
}

// randomOp applies one random cluster operation; gapSafe avoids deletes/unmatching of existing objects.
func (h *c02Hist) randomOp(kindBias int, gapSafe bool) {
	rng, cl, e := h.rng, h.e.cl, h.e
	k := c02Key{ns: rng.Range(1, 4), kind: kindBias, name: rng.Range(1, 4)}
	if rng.Chance(15) {
		k.kind = 3 - kindBias
	}
	cl.mu.Lock()
	cur, exists := cl.objs[k]
	_, nsExists := cl.nss[k.ns]
	nsl := cl.nss[k.ns]
	cl.mu.Unlock()
	r := rng.Intn(100)
	switch {
	case r < 12 && !gapSafe: // namespace label flip / create
		h.nsOps++
		lbl := 1
		if nsExists && nsl == 1 {
			lbl = 0
		}
		e.nsSetOp(k.ns, lbl)
	case r < 18 && !gapSafe && nsExists: // namespace delete (cascade)
		h.nsOps++
		e.nsDelOp(k.ns)
	case r < 40 && exists && !gapSafe: // delete
		h.deletes++
		h.deleted[k] = true
		e.op(cl.del(k))
	case exists: // modify: inside the projection, outside it, or the label
		h.mods++
		v := cur
		switch rng.Intn(4) {
		case 0, 1:
			v.a = rng.Range(1, 9)
		case 2:
			v.b = rng.Range(1, 9)
		case 3:
			if !gapSafe || v.lbl == 0 {
				v.lbl = 1 - v.lbl
			} else {
				v.b = rng.Range(1, 9)
			}
		}
		e.op(cl.set(k, v))
	default: // create (namespace first, as Kubernetes requires)
		if !nsExists {
			if gapSafe {
				return
			}
			h.nsOps++
			e.nsSetOp(k.ns, rng.Intn(2))
		}
		if h.deleted[k] {
			h.recreate++
		}
		h.creates++
		e.op(cl.set(k, c02Val{a: rng.Range(1, 9), b: rng.Range(1, 9), lbl: rng.Intn(2)}))
	}
}

// afterNsChange waits until the started monitors of the case hold the varying informers the
// namespace set calls for, with their watches established (see waitWatches).
func (e *c02Env) afterNsChange() {
	for _, m := range e.active {
		if m.spec.nsSel {
			e.cl.waitWatches(m.mgr.GetMonitor(m.id), m.spec, e.expectedVarying(m.spec))
		}
	}
}

func (e *c02Env) setActive(ms []*c02Mon) { e.active = ms }

// markStale remembers the varying informers a namespace has right now: once the namespace stops
// matching they must go, and a later re-appearance must bring new ones. Waiting for "the informers
// of the namespace exist" would otherwise be satisfied by the old ones while the namespace
// callbacks have not run yet — and a write in that window falls between the new informer's own
// list and its shared informer's list (the recorded finding, not what these cases are about).
func (e *c02Env) markStale(ns int) {
	for _, m := range e.active {
		if !m.spec.nsSel {
			continue
		}
		for _, inf := range kem.VerifC02Describe(m.mgr.GetMonitor(m.id)) {
			if inf.Varying && inf.Namespace == c02Namespaces[ns-1] {
				e.cl.mu.Lock()
				e.cl.stale[inf.ID] = true
				e.cl.mu.Unlock()
			}
		}
	}
}

// nsSetOp / nsDelOp: namespace operations of a running case.
func (e *c02Env) nsSetOp(ns, lbl int) {
	e.cl.mu.Lock()
	was, exists := e.cl.nss[ns]
	e.cl.mu.Unlock()
	if exists && was == 1 && lbl != 1 {
		e.markStale(ns)
	}
	e.op(e.cl.nsSet(ns, lbl))
	e.afterNsChange()
}

func (e *c02Env) nsDelOp(ns int) {
	e.markStale(ns)
	lines, err := e.cl.nsDel(ns)
	for i, l := range lines {
		if i == len(lines)-1 {
			e.op(l, err)
		} else {
			e.op(l, nil)
		}
	}
	e.afterNsChange()
}

// seedWorld creates some namespaces and objects before the monitor exists.
func (h *c02Hist) seedWorld(kind int) {
	rng, cl, e := h.rng, h.e.cl, h.e
	for ns := 1; ns <= 4; ns++ {
		if rng.Chance(70) {
			e.op(cl.nsSet(ns, rng.Intn(2)))
		}
	}
	n := rng.Range(0, 6)
	for i := 0; i < n; i++ {
		k := c02Key{ns: rng.Range(1, 4), kind: kind, name: rng.Range(1, 4)}
		cl.mu.Lock()
		_, nsExists := cl.nss[k.ns]
		_, exists := cl.objs[k]
		cl.mu.Unlock()
		if !nsExists || exists {
			continue
		}
		h.creates++
		e.op(cl.set(k, c02Val{a: rng.Range(1, 9), b: rng.Range(1, 9), lbl: rng.Intn(2)}))
	}
}

func c02MonitorCase(c *Case, rng *Rng, spec c02MonSpec, withGap bool, nops int) {
	rng = NewRng(rng.U64()) // the lib derives neighbouring cases from shifted copies of one stream
	kem.DefaultSyncTime = time.Millisecond
	e := &c02Env{c: c, cl: newC02Cluster(c.Idx)}
	defer e.setActive(nil)
	c.Op(c02RidLine(), "ok")
	h := &c02Hist{e: e, rng: rng, deleted: map[c02Key]bool{}}
	h.seedWorld(spec.kind)
	m := e.newMon(spec)
	defer e.stop(m)
	if !e.add(m) {
		return
	}
	if rng.Chance(50) {
		// AddMonitor has returned: the snapshot is the monitor's own initial list
		if !e.snap(m) {
			return
		}
		c.Note("snap:before-start")
	}
	atAdd := e.matchingNow(spec)
	if withGap {
		// the cluster moves on between AddMonitor (own List) and StartMonitor (registration):
		// creations and in-place modifications only; deletions in the gap are the recorded finding
		for i := rng.Range(1, 3); i > 0; i-- {
			h.randomOp(spec.kind, true)
		}
		c.Note("gap:safe-ops")
	}
	// classifier of the recorded finding: something that matched at AddMonitor time is gone or no
	// longer matches at StartMonitor time (the generator avoids it; should it happen anyway the
	// case is a replay of the finding, not a new violation)
	atStart := e.matchingNow(spec)
	for k := range atAdd {
		if !atStart[k] {
			c.Known = c02GhostID
			c.Note("known:" + c02GhostID + ":generated")
		}
	}
	e.start(m)
	e.setActive([]*c02Mon{m})
	ok := e.snap(m) // the Synchronization point
	for i := 0; ok && i < nops; i++ {
		var held *c02Held
		if rng.Chance(45) {
			held = e.hold(m) // an execution keeps what it read while the cluster moves on
		}
		burst := rng.Range(1, 3)
		for j := 0; j < burst; j++ {
			h.randomOp(spec.kind, false)
		}
		ok = e.snap(m) // the other readers of the binding
		if held != nil && c.Inconcl == "" {
			ok = e.lookAgain(held) && ok
		}
	}
	if ok && rng.Chance(50) {
		// restart: a fresh manager and monitor over the same cluster must show the same objects
		spec2 := spec
		spec2.id = spec.id + 1
		m2 := e.newMon(spec2)
		defer e.stop(m2)
		if e.add(m2) {
			e.start(m2)
			e.setActive([]*c02Mon{m, m2})
			e.snap(m2)
			c.Note("restart")
		}
	}
	c.Nontrivial = h.creates >= 2 && (h.deletes+h.mods+h.nsOps) >= 2
	for _, b := range strings.Split(spec.bucket(), "+") {
		c.Note("cfg:" + b)
	}
	if h.recreate > 0 {
		c.Note("hist:delete+recreate")
	}
	if h.nsOps > 0 {
		c.Note("hist:namespace-ops")
	}
	c.Desc = fmt.Sprintf("monitor %s, %d creates %d mods %d deletes %d ns-ops", spec.bucket(), h.creates, h.mods, h.deletes, h.nsOps)
}

// corpus: duplicate names in nameSelector.matchNames / namespace.nameSelector.matchNames
func c02DupNamesCase(c *Case, dupNs bool) {
	kem.DefaultSyncTime = time.Millisecond
	e := &c02Env{c: c, cl: newC02Cluster(c.Idx)}
	c.Op(c02RidLine(), "ok")
	e.op(e.cl.nsSet(1, 0))
	e.op(e.cl.nsSet(2, 0))
	e.op(e.cl.set(c02Key{1, 1, 1}, c02Val{a: 3, b: 4}))
	e.op(e.cl.set(c02Key{2, 1, 2}, c02Val{a: 5, b: 6}))
	spec := c02MonSpec{id: 1, kind: 1, keep: true, flt: 1}
	if dupNs {
		spec.nss = []int{1, 1, 2}
		c.Desc = "corpus: namespace.nameSelector.matchNames [a, a, a-b]"
	} else {
		spec.names = []int{1, 1}
		spec.nss = []int{1}
		c.Desc = "corpus: nameSelector.matchNames [x, x]"
	}
	m := e.newMon(spec)
	defer e.stop(m)
	if !e.add(m) {
		return
	}
	e.start(m)
	if e.snap(m) {
		e.op(e.cl.set(c02Key{1, 1, 1}, c02Val{a: 7, b: 4}))
		e.snap(m)
	}
	c.Nontrivial = true
	c.Note("corpus:dup-names")
}

// corpus / known finding: object deleted between AddMonitor's own List and StartMonitor
func c02GhostCase(c *Case, variant int) {
	kem.DefaultSyncTime = time.Millisecond
	e := &c02Env{c: c, cl: newC02Cluster(c.Idx)}
	c.Known = c02GhostID
	c.Op(c02RidLine(), "ok")
	e.op(e.cl.nsSet(1, 1))
	e.op(e.cl.set(c02Key{1, 1, 1}, c02Val{a: 3, b: 4, lbl: 1}))
	e.op(e.cl.set(c02Key{1, 1, 2}, c02Val{a: 5, b: 6, lbl: 1}))
	spec := c02MonSpec{id: 1, kind: 1, keep: variant%2 == 0, flt: 1}
	switch variant {
	case 0:
		spec.nss = []int{1}
		c.Desc = "finding replay: create, AddMonitor, delete, StartMonitor, Snapshot"
	case 1:
		spec.lblSel = true
		c.Desc = "finding replay: object stops matching the label selector between AddMonitor and StartMonitor"
	case 2:
		spec.nsSel = true
		c.Desc = "finding replay: namespace (and its objects) deleted between AddMonitor and StartMonitor"
	}
	m := e.newMon(spec)
	defer e.stop(m)
	if !e.add(m) {
		return
	}
	switch variant {
	case 0:
		e.op(e.cl.del(c02Key{1, 1, 1}))
	case 1:
		e.op(e.cl.set(c02Key{1, 1, 1}, c02Val{a: 3, b: 4, lbl: 0}))
	case 2:
		lines, err := e.cl.nsDel(1)
		for _, l := range lines {
			e.op(l, err)
		}
	}
	e.start(m)
	e.snap(m)
	c.Nontrivial = true
	c.Note("known:" + c02GhostID)
}

// corpus (fifth wave): an execution keeps the snapshot it read while two of four objects are deleted
// and another reader takes the binding's snapshot; one static namespace = one informer.
func c02HeldCorpusCase(c *Case) {
	kem.DefaultSyncTime = time.Millisecond
	e := &c02Env{c: c, cl: newC02Cluster(c.Idx)}
	defer e.setActive(nil)
	c.Op(c02RidLine(), "ok")
	e.op(e.cl.nsSet(1, 0))
	for n := 1; n <= 4; n++ {
		e.op(e.cl.set(c02Key{1, 1, n}, c02Val{a: n, b: 9 - n}))
	}
	spec := c02MonSpec{id: 1, kind: 1, keep: true, flt: 0, nss: []int{1}}
	m := e.newMon(spec)
	defer e.stop(m)
	if !e.add(m) {
		return
	}
	e.start(m)
	e.setActive([]*c02Mon{m})
	if !e.snap(m) {
		return
	}
	held := e.hold(m)
	e.op(e.cl.del(c02Key{1, 1, 1}))
	e.op(e.cl.del(c02Key{1, 1, 2}))
	ok := e.snap(m)
	if held != nil && c.Inconcl == "" {
		ok = e.lookAgain(held) && ok
	}
	if ok {
		// and once more after a creation and a further read
		held = e.hold(m)
		e.op(e.cl.set(c02Key{1, 1, 1}, c02Val{a: 7, b: 7}))
		e.snap(m)
		if held != nil && c.Inconcl == "" {
			e.lookAgain(held)
		}
	}
	c.Nontrivial = true
	c.Note("corpus:held-snapshot")
	c.Desc = "corpus: a reader keeps its snapshot while objects are deleted / created and another reader reads the binding"
}

// corpus (fifth wave): jqFilters with two object outputs, with a scalar before an object, with no
// output — Synchronization snapshot and a snapshot after a watch event.
func c02FilterCorpusCase(c *Case, variant int) {
	kem.DefaultSyncTime = time.Millisecond
	e := &c02Env{c: c, cl: newC02Cluster(c.Idx)}
	defer e.setActive(nil)
	c.Op(c02RidLine(), "ok")
	e.op(e.cl.nsSet(1, 0))
	e.op(e.cl.set(c02Key{1, 1, 1}, c02Val{a: 3, b: 4, lbl: 1}))
	objA := c02Term{kind: "f", f: c02ObjF("a", c02Path("data", "a"), "l", c02Path("metadata", "labels", "sel"))}
	objB := c02Term{kind: "f", f: c02ObjF("a", c02Path("data", "b"), "b", c02Path("data", "b"))}
	progs := []*c02Prog{
		{terms: []c02Term{objA, objB}},
		{terms: []c02Term{{kind: "f", f: c02Path("data", "a")}, objB}},
		{terms: []c02Term{{kind: "empty"}}},
		{terms: []c02Term{{kind: "iter", path: []string{"data"}}, objA, {kind: "empty"}}},
	}
	spec := c02MonSpec{id: 1, kind: 1, keep: variant%2 == 0, flt: 1, prog: progs[variant%len(progs)]}
	m := e.newMon(spec)
	defer e.stop(m)
	if !e.add(m) {
		return
	}
	e.start(m)
	e.setActive([]*c02Mon{m})
	if e.snap(m) {
		e.op(e.cl.set(c02Key{1, 1, 2}, c02Val{a: 5, b: 6}))
		e.op(e.cl.set(c02Key{1, 1, 1}, c02Val{a: 3, b: 8, lbl: 1}))
		e.snap(m)
	}
	c.Nontrivial = true
	c.Note("corpus:jq-outputs")
	c.Desc = "corpus: jqFilter " + spec.prog.text()
}

func runC02(r *Run) {
	r.CaseTimeout = 150 * time.Second
	r.Rule = "real kubeEventsManager/monitor/resourceInformer over kube-client/fake (list/watch made selector-faithful by harness reactors; one CRD group per case so that the process-wide informer factory store is not shared): random binding selectors (all namespaces / namespace.nameSelector / namespace.labelSelector, nameSelector, labelSelector, fieldSelector, keepFullObjectsInMemory, jqFilter / FilterFunc / none) x random histories over 4 namespaces x 4 names x 2 kinds (create, modify inside/outside the filter projection, label flips, delete, delete+recreate, namespace create / relabel / delete with its objects, safe changes between AddMonitor and StartMonitor, restart = second manager on the same cluster); snapshots observed at the Synchronization point and after every burst. Multi cases: 2-5 bindings (monitors) over one cluster, on one shared or on separate managers, whose selectors are derived from one base so that their informers fall on the same process-wide shared informer (same kind / namespace / label / field selector), started and stopped (StopMonitor) at random points of the history, namespaces leaving a namespace.labelSelector binding while a sibling still watches them; every live monitor is observed after every step. matchNames lists carry repeated entries at arbitrary positions in about a third of the lists. jqFilter programs (monitor, multi, exec and half of the conc cases): 12% the classic {a: .data.a}, 33% one expression (object construction with keys from a/b/l/x over .data.a/.data.b/.data.c(missing)/.data/.metadata.labels(.sel)/literals, scalars, arrays, null), 40% two to four top-level terms joined by `,` (object-valued ones with overlapping keys, scalars / arrays / null in between, `empty`, `.data[]`), 15% programs with no output or with non-object outputs only; the AST goes to the Lean side next to the text. Held snapshots: before 45% of the bursts (40% in multi cases) an execution reads the binding's snapshot and keeps the returned list, the cluster changes, the other readers take their snapshots, then the first reader looks at its list again. Exec cases: real HookConfig.LoadAndValidate + HookController.UpdateSnapshots at Synchronization / Event / Schedule / Group / admission points with the cluster changed between the reads of one execution; the contexts of the previous execution are kept and rendered again after the next execution has read the same bindings. Non-trivial: >= 2 creations and >= 2 further changes (monitor cases) or >= 2 contexts / an include list of >= 2 names (exec cases); distinct = distinct op-line sequences."
	r.One(0, func(c *Case, _ *Rng) { c02DupNamesCase(c, false) })
	r.One(1, func(c *Case, _ *Rng) { c02DupNamesCase(c, true) })
	for v := 0; v < 3; v++ {
		v := v
		r.One(2+v, func(c *Case, _ *Rng) { c02GhostCase(c, v) })
	}
	r.One(5, func(c *Case, _ *Rng) { c02HeldCorpusCase(c) })
	for v := 0; v < 4; v++ {
		v := v
		r.One(6+v, func(c *Case, _ *Rng) { c02FilterCorpusCase(c, v) })
	}
	n := r.N(400, 6000)
	r.Cases(100, n, 0, func(c *Case, rng *Rng) {
		rng = NewRng(rng.U64() ^ 0x5bd1e995)
		spec := c02RandSpec(rng, 1)
		c02MonitorCase(c, rng, spec, rng.Chance(25), rng.Range(3, 8))
	})
	runC02Exec(r)
	r.Cases(300000, r.N(160, 2500), 0, func(c *Case, rng *Rng) { c02MultiCase(c, rng) })
	r.Cases(400000, r.N(150, 1500), 0, func(c *Case, rng *Rng) { c02CfgCase(c, rng) })
	r.Cases(200000, r.N(150, 2000), 0, func(c *Case, rng *Rng) { c02ConcCase(c, rng) })
	r.Cases(500000, r.N(100, 1200), 0, func(c *Case, rng *Rng) { c02RestartCase(c, rng) })
	if r.Thorough() {
		runC02Exhaustive(r)
	}
}
