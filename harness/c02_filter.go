package main

// C02, "each with the binding's filter applied": jqFilter programs with any number of outputs.
// A program is a list of top-level terms joined by `,`: an expression of the one-output fragment
// shared with C08 (jqF: paths, literals, object / array construction), `empty` (no output) or
// `.path[]` (one output per member). The Lean side gets the AST next to the text and evaluates the
// documented result itself; what the harness computes here (gojq + the documented merge) is used
// only to decide when to stop waiting for the informers.

import (
	"encoding/json"
	"math/big"
	"strings"

	"github.com/itchyny/gojq"
)

type c02Term struct {
	kind string // f | empty | iter
	f    *jqF
	path []string
}

type c02Prog struct {
	terms []c02Term
}

func (p *c02Prog) text() string {
	var ps []string
	for _, t := range p.terms {
		switch t.kind {
		case "f":
			ps = append(ps, "("+t.f.text()+")")
		case "empty":
			ps = append(ps, "empty")
		case "iter":
			ps = append(ps, "(."+strings.Join(t.path, ".")+"[])")
		}
	}
	return strings.Join(ps, ",")
}

func (p *c02Prog) ast() string {
	ts := []any{}
	for _, t := range p.terms {
		switch t.kind {
		case "f":
			ts = append(ts, t.f.ast())
		case "empty":
			ts = append(ts, map[string]any{"e": []any{}})
		case "iter":
			ks := []any{}
			for _, k := range t.path {
				ks = append(ks, k)
			}
			ts = append(ts, map[string]any{"it": ks})
		}
	}
	b, _ := json.Marshal(map[string]any{"c": ts})
	return string(b)
}

// outputs: how many outputs the program has (on every object of the universe: none of the terms
// depends on the data for its number of outputs — `.data` always has the two members a and b).
func (p *c02Prog) outputs() int {
	n := 0
	for _, t := range p.terms {
		switch t.kind {
		case "f":
			n++
		case "iter":
			n += 2
		}
	}
	return n
}

func c02Path(ks ...string) *jqF { return &jqF{Kind: "path", Path: ks} }

func c02ObjF(kv ...any) *jqF {
	f := &jqF{Kind: "obj"}
	for i := 0; i+1 < len(kv); i += 2 {
		f.Fields = append(f.Fields, jqField{kv[i].(string), kv[i+1].(*jqF)})
	}
	return f
}

// the program every earlier case used: {"a": .data.a}
func c02LegacyProg() *c02Prog {
	return &c02Prog{terms: []c02Term{{kind: "f", f: c02ObjF("a", c02Path("data", "a"))}}}
}

var c02Leaves = [][]string{
	{"data", "a"}, {"data", "b"}, {"data", "c"}, {"data"}, {"metadata", "labels"},
	{"metadata", "labels", "sel"}, {"metadata", "labels", "nope"}, {"nope"}, {"nope", "deeper"},
}

// c02GenExpr: one expression with exactly one output and no error on any object of the universe
// (paths run through objects / null only).
func c02GenExpr(rng *Rng, depth int) *jqF {
	k := rng.Intn(100)
	if depth <= 0 && k >= 55 {
		k = rng.Intn(55)
	}
	switch {
	case k < 45:
		return c02Path(PickOne(rng, c02Leaves)...)
	case k < 55:
		return &jqF{Kind: "lit", Lit: PickOne(rng, []any{nil, true, "k", "yes"})}
	case k < 85:
		f := &jqF{Kind: "obj"}
		for n := rng.Range(0, 3); n > 0; n-- {
			f.Fields = append(f.Fields, jqField{PickOne(rng, []string{"a", "b", "l", "x"}), c02GenExpr(rng, depth-1)})
		}
		return f
	default:
		f := &jqF{Kind: "arr"}
		for n := rng.Range(0, 3); n > 0; n-- {
			f.Items = append(f.Items, c02GenExpr(rng, depth-1))
		}
		return f
	}
}

// c02GenObjExpr: an expression whose output is an object (construction, `.data`, or — when the
// object carries the label — `.metadata.labels`).
func c02GenObjExpr(rng *Rng) *jqF {
	switch rng.Intn(10) {
	case 0, 1:
		return c02Path("data")
	case 2:
		return c02Path("metadata", "labels")
	}
	f := &jqF{Kind: "obj"}
	for n := rng.Range(1, 3); n > 0; n-- {
		f.Fields = append(f.Fields, jqField{PickOne(rng, []string{"a", "b", "l", "x"}), c02GenExpr(rng, 1)})
	}
	return f
}

// c02GenProg: 45% one expression (mostly object-valued: what hooks write), 40% two to four terms
// joined by `,` (object-valued ones with overlapping keys, scalars / arrays / null in between,
// `empty`, `.data[]`), 15% a program with no output or with non-object outputs only.
func c02GenProg(rng *Rng) *c02Prog {
	p := &c02Prog{}
	switch k := rng.Intn(100); {
	case k < 12:
		return c02LegacyProg()
	case k < 35:
		p.terms = append(p.terms, c02Term{kind: "f", f: c02GenObjExpr(rng)})
	case k < 45:
		p.terms = append(p.terms, c02Term{kind: "f", f: c02GenExpr(rng, 2)})
	case k < 85:
		for n := rng.Range(2, 4); n > 0; n-- {
			switch r := rng.Intn(100); {
			case r < 60:
				p.terms = append(p.terms, c02Term{kind: "f", f: c02GenObjExpr(rng)})
			case r < 80:
				p.terms = append(p.terms, c02Term{kind: "f", f: c02GenExpr(rng, 1)})
			case r < 90:
				p.terms = append(p.terms, c02Term{kind: "empty"})
			default:
				p.terms = append(p.terms, c02Term{kind: "iter", path: []string{"data"}})
			}
		}
	case k < 90:
		p.terms = append(p.terms, c02Term{kind: "empty"})
	case k < 95:
		p.terms = append(p.terms, c02Term{kind: "iter", path: []string{"data"}})
	default:
		p.terms = append(p.terms, c02Term{kind: "f", f: c02Path("data", "a")}, c02Term{kind: "f", f: c02Path("data", "b")})
	}
	return p
}

func (p *c02Prog) bucket() string {
	objs := 0
	for _, t := range p.terms {
		if t.kind == "f" && (t.f.Kind == "obj" || (t.f.Kind == "path" && len(t.f.Path) == 1 && t.f.Path[0] == "data")) {
			objs++
		}
	}
	switch n := p.outputs(); {
	case n == 0:
		return "jq:no-output"
	case n == 1:
		return "jq:one-output"
	case objs >= 2:
		return "jq:several-outputs-objects-merged"
	case objs == 1:
		return "jq:several-outputs-one-object"
	default:
		return "jq:several-outputs-no-object"
	}
}

// c02ObjView: the part of a cluster object the programs can see.
func c02ObjView(v c02Val) map[string]any {
	md := map[string]any{}
	if v.lbl == 1 {
		md["labels"] = map[string]any{c02LabelKey: "yes"}
	}
	return map[string]any{
		"data":     map[string]any{"a": itoa(v.a), "b": itoa(v.b)},
		"metadata": md,
	}
}

func itoa(n int) string { b, _ := json.Marshal(n); return string(b) }

// want: the JSON text the harness expects as filter result (for waiting only): gojq's outputs,
// one output as it is, otherwise the members of the object-valued outputs, later ones winning.
func (p *c02Prog) want(v c02Val) string {
	q, err := gojq.Parse(p.text())
	if err != nil {
		return "parse-error"
	}
	var outs []any
	it := q.Run(c02ObjView(v))
	for {
		o, ok := it.Next()
		if !ok {
			break
		}
		if _, isErr := o.(error); isErr {
			return "run-error"
		}
		outs = append(outs, o)
	}
	var res any
	if len(outs) == 1 {
		res = outs[0]
	} else {
		m := map[string]any{}
		for _, o := range outs {
			if om, ok := o.(map[string]any); ok {
				for k, x := range om {
					m[k] = x
				}
			}
		}
		res = m
	}
	b, err := json.Marshal(res)
	if err != nil {
		return "marshal-error"
	}
	return string(b)
}

// c02EncText: a JSON text as the protocol carries it — the number whose base-256 digits are 1
// followed by the bytes of the text (entries are separated by `,` and `:`, which JSON uses too).
func c02EncText(s string) string {
	n := big.NewInt(1)
	for i := 0; i < len(s); i++ {
		n.Mul(n, big.NewInt(256))
		n.Add(n, big.NewInt(int64(s[i])))
	}
	return n.String()
}

// c02FilterText: the filter result of a snapshot element as JSON text. A jqFilter result is stored
// as JSON text already, a FilterFunc result is whatever the function returned.
func c02FilterText(fr interface{}) (string, bool) {
	switch x := fr.(type) {
	case nil:
		return "", false
	case string:
		if !json.Valid([]byte(x)) {
			return "", false
		}
		return x, true
	default:
		b, err := json.Marshal(fr)
		if err != nil {
			return "", false
		}
		return string(b), true
	}
}
