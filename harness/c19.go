package main

// C19 — the bash framework (shell_lib.sh + frameworks/shell/*.sh of the repository worktree) run by
// real bash on generated hook scripts and generated binding-context arrays.

import (
	"context"
	"encoding/json"
	"fmt"
	"os"
	"os/exec"
	"path/filepath"
	"sort"
	"strings"
	"sync"
	"sync/atomic"
	"time"
)

func init() { suites["c19"] = runC19 }

func c19Repo() string {
	if v := os.Getenv("VERIF_REPO"); v != "" {
		return v
	}
	return "/repo"
}

var c19Once sync.Once
var c19Lib string
var c19LibErr error

// c19Setup writes a copy of the repository's shell_lib.sh whose only change is the hard-coded
// directory `/frameworks/shell/` → `<repo>/frameworks/shell/` (the image path → the worktree path).
func c19Setup(r *Run) (string, error) {
	c19Once.Do(func() {
		b, err := os.ReadFile(filepath.Join(c19Repo(), "shell_lib.sh"))
		if err != nil {
			c19LibErr = err
			return
		}
		if !strings.Contains(string(b), "/frameworks/shell/") {
			c19LibErr = fmt.Errorf("shell_lib.sh no longer names /frameworks/shell/")
			return
		}
		s := strings.ReplaceAll(string(b), "/frameworks/shell/", filepath.Join(c19Repo(), "frameworks/shell")+"/")
		dir := filepath.Join(r.Scratch, "c19fw")
		_ = os.MkdirAll(dir, 0o755)
		c19Lib = filepath.Join(dir, "shell_lib.sh")
		c19LibErr = os.WriteFile(c19Lib, []byte(s), 0o644)
	})
	return c19Lib, c19LibErr
}

type c19Ctx struct {
	kind                    string
	binding, typ, we, group string // "" = field absent
	from, to                string
	pad                     int  // > 0: the context carries a payload of about pad bytes (objects / snapshots / review)
	decoy                   bool // nested objects repeat the keys the framework reads (binding, type, watchEvent, groupName)
}

// c19Payload builds a list of rendered objects of about `bytes` bytes of compact JSON. Every item
// repeats, one level down, the keys the dispatch reads at the top level of a context (with values
// that would select another handler), so a reader that is not anchored at the top level shows up.
func c19Payload(bytes int) []any {
	var items []any
	for n, i := 0, 0; n < bytes; i++ {
		it := map[string]any{
			"object": map[string]any{"apiVersion": "v1", "kind": "Pod",
				"metadata": map[string]any{"name": fmt.Sprintf("pod-%06d", i), "namespace": "default"}},
			"filterResult": map[string]any{"binding": "decoy", "type": "Schedule", "watchEvent": "Deleted", "groupName": "decoy", "vid": 4242},
		}
		items = append(items, it)
		n += 215 // compact size of one item
	}
	return items
}

func (x c19Ctx) json(vid int) map[string]any {
	m := map[string]any{"vid": vid}
	if x.binding != "" {
		m["binding"] = x.binding
	}
	if x.typ != "" {
		m["type"] = x.typ
	}
	if x.we != "" {
		m["watchEvent"] = x.we
		m["object"] = map[string]any{"kind": "Pod"}
	}
	if x.group != "" {
		m["groupName"] = x.group
		m["snapshots"] = map[string]any{}
	}
	if x.from != "" {
		m["fromVersion"] = x.from
	}
	if x.to != "" {
		m["toVersion"] = x.to
	}
	if x.typ == "Synchronization" {
		m["objects"] = []any{}
	}
	if x.decoy && x.pad == 0 {
		m["filterResult"] = map[string]any{"binding": "decoy", "type": "Schedule", "watchEvent": "Deleted", "groupName": "decoy", "vid": 4242}
	}
	if x.pad > 0 {
		// the payload goes where shell-operator puts the bulk of a context of this type
		pl := c19Payload(x.pad)
		switch {
		case x.typ == "Synchronization":
			m["objects"] = pl
		case x.typ == "Event":
			m["object"] = map[string]any{"kind": "ConfigMap", "data": map[string]any{"items": pl}}
		case x.typ == "Validating" || x.typ == "Mutating" || x.typ == "Conversion":
			m["review"] = map[string]any{"request": map[string]any{"uid": "u-1", "objects": pl}}
		default:
			m["snapshots"] = map[string]any{"pods": pl}
		}
	}
	return m
}

func dash(s string) string {
	if s == "" {
		return "-"
	}
	return s
}

func (x c19Ctx) line() string {
	l := fmt.Sprintf("ctx b=%s t=%s w=%s g=%s from=%s to=%s", dash(x.binding), dash(x.typ), dash(x.we), dash(x.group), dash(x.from), dash(x.to))
	if x.pad > 0 {
		l += fmt.Sprintf(" sz=%dK", x.pad/1024) // not read by the model: the dispatch does not depend on the size
	}
	return l
}

func (x c19Ctx) sizeBucket() string {
	switch {
	case x.pad == 0:
		return "small"
	case x.pad <= 128*1024:
		return "<=128K"
	case x.pad <= 512*1024:
		return "128K-512K"
	}
	return ">512K"
}

// c19Cands is the harness's own copy of the documented names, used only to *generate* interesting
// sets of defined functions (never to judge an answer).
func (x c19Ctx) cands() []string {
	b := x.binding
	if b == "" {
		b = "unknown"
	}
	k := "__on_kubernetes::" + b
	switch {
	case b == "onStartup":
		return []string{"__on_startup"}
	case x.typ == "Synchronization":
		return []string{k + "::synchronization", k}
	case x.typ == "Event" && x.we == "Added":
		return []string{k + "::added", k + "::added_or_modified", k}
	case x.typ == "Event" && x.we == "Modified":
		return []string{k + "::modified", k + "::added_or_modified", k}
	case x.typ == "Event" && x.we == "Deleted":
		return []string{k + "::deleted", k}
	case x.typ == "Group":
		return []string{"__on_group::" + x.group}
	case x.typ == "Schedule":
		return []string{"__on_schedule::" + b}
	case x.typ == "Validating":
		return []string{"__on_validating::" + b}
	case x.typ == "Mutating":
		return []string{"__on_mutating::" + b}
	case x.typ == "Conversion":
		v := strings.Replace(x.from, "/", ".", 1) + "::" + strings.Replace(x.to, "/", ".", 1)
		return []string{"__on_conversion::" + b + "::" + v, "__on_conversion::" + b}
	}
	return nil
}

var c19Kinds = []string{"startup", "sync", "added", "modified", "deleted", "group", "schedule", "validating", "mutating", "conversion"}

func c19Make(kind, b, g string) c19Ctx {
	switch kind {
	case "startup":
		return c19Ctx{kind: kind, binding: "onStartup"}
	case "sync":
		return c19Ctx{kind: kind, binding: b, typ: "Synchronization"}
	case "added":
		return c19Ctx{kind: kind, binding: b, typ: "Event", we: "Added"}
	case "modified":
		return c19Ctx{kind: kind, binding: b, typ: "Event", we: "Modified"}
	case "deleted":
		return c19Ctx{kind: kind, binding: b, typ: "Event", we: "Deleted"}
	case "group":
		return c19Ctx{kind: kind, binding: b, typ: "Group", group: g}
	case "schedule":
		return c19Ctx{kind: kind, binding: b, typ: "Schedule"}
	case "validating":
		return c19Ctx{kind: kind, binding: b, typ: "Validating"}
	case "mutating":
		return c19Ctx{kind: kind, binding: b, typ: "Mutating"}
	case "conversion":
		return c19Ctx{kind: kind, binding: b, typ: "Conversion", from: "stable.example.com/v1beta1", to: "stable.example.com/v1"}
	// odd shapes
	case "event-other":
		return c19Ctx{kind: kind, binding: b, typ: "Event", we: "Bookmark"}
	case "event-none":
		return c19Ctx{kind: kind, binding: b, typ: "Event"}
	case "type-other":
		return c19Ctx{kind: kind, binding: b, typ: "Whatever"}
	case "no-type":
		return c19Ctx{kind: kind, binding: b}
	case "no-binding":
		return c19Ctx{kind: kind, typ: "Schedule"}
	case "startup-typed":
		return c19Ctx{kind: kind, binding: "onStartup", typ: "Schedule"}
	case "conversion-plain":
		return c19Ctx{kind: kind, binding: b, typ: "Conversion", from: "v1", to: "a/b/c"}
	}
	return c19Ctx{kind: kind, binding: b}
}

type c19Case struct {
	ctxs      []c19Ctx
	defined   []string
	failIdx   []int
	failNames []string
	failMode  string // how a failing handler ends: return3 | exit2 | false | pipefail | nounset | cmdsubst
	args      []string
	acts      map[string]string // what else a handler does (c19Acts), by function name; absent = nothing
	stdin     []string          // the lines on the hook's standard input (nil: /dev/null, as the operator starts hooks)
	looks     map[string]string // where the handler looks at the current context from (c19Looks), by function name; absent = "subst"
	inherit   string            // "" = the hook process finds no BINDING_CONTEXT_CURRENT_* in its environment (as under the operator); else a stale index it inherits
	layout    string            // where the script loads the bundled library relative to its own function definitions (c19Layouts); "" = "first"
	ctxFile   string            // non-empty: the binding-context file lives at <scratch>/<ctxFile> and stays there after the run (a later run of the same case reuses the path, as a second execution of the hook does)
	exitTrap  bool              // the hook installs an EXIT trap of its own after loading the library (the temp-file idiom); bash keeps one EXIT trap per shell
	env       []string          // NAME=value pairs the hook process inherits besides its own (the operator hands os.Environ() to every hook): c19EnvPool
}

// c19Layouts: the order of "load the bundled library" and "define __config__ and the handlers" in the
// hook script. The property speaks of "a hook that loads the bundled shell library and framework" and of
// "the handler functions defined by the hook script" — it does not say in which order the script does the two.
//
//	first    source shell_lib.sh; definitions; hook::run "$@"            (the bundled examples)
//	last     definitions; source shell_lib.sh; hook::run "$@"            (functions first, boilerplate at the end)
//	twice    source shell_lib.sh; definitions; source common.sh (a shared include that loads the library again); hook::run "$@"
//	include  source common.sh (loads the library, defines shared helpers); definitions; hook::run "$@"
//	between  half of the definitions; source shell_lib.sh; the other half; hook::run "$@"
var c19Layouts = []string{"first", "last", "twice", "include", "between"}

// c19EnvPool: variables the hook process may find in its environment. The operator starts every hook with
// its own os.Environ() (pkg/hook/hook.go), so its configuration variables (the Envar(...) names of
// pkg/app) reach the hook; the second group are names the framework and the library use as plain shell
// variables (an exported variable of the caller with the same name is imported by bash at start-up).
var c19EnvPool = []string{
	"LOG_LEVEL=debug", "LOG_LEVEL=debug", "LOG_LEVEL=debug", "LOG_LEVEL=info", "LOG_LEVEL=error", "LOG_LEVEL=trace",
	"LOG_TYPE=json", "LOG_TYPE=text", "LOG_TYPE=color", "LOG_NO_TIME=true", "LOG_PROXY_HOOK_JSON=true",
	"DEBUG=yes", "DEBUG=1", "VERBOSE=1", "TRACE=1", "DEBUG_KEEP_TMP_FILES=yes", "DEBUG_KUBERNETES_API=yes",
	"DEBUG_UNIX_SOCKET=/var/run/shell-operator/debug.socket", "DEBUG_HTTP_SERVER_ADDR=:9115",
	"SHELL_OPERATOR_HOOKS_DIR=/hooks", "SHELL_OPERATOR_TMP_DIR=/tmp/shell-operator", "SHELL_OPERATOR_NAMESPACE=default",
	"KUBE_CONTEXT=kind", "KUBE_CLIENT_QPS=5", "VALIDATING_WEBHOOK_FAILURE_POLICY=Fail", "QUEUE_ACTIONS_METRICS=no",
	"i=7", "i=0", "CONTEXT_LENGTH=0", "CONTEXT_LENGTH=99", "HANDLERS=__main__", "handler=__main__", "handlers=__main__",
	"f=/dev/null", "frame=3", "frames=0", "ret=1", "lineno=1", "BINDING_CONTEXT_CURRENT_TYPE=Schedule", "BINDING_CONTEXT_GROUP_NAME=stale",
}

func c19RandEnv(rng *Rng, p int) []string {
	var env []string
	if !rng.Chance(p) {
		return nil
	}
	seen := map[string]bool{}
	for j, m := 0, rng.Range(1, 4); j < m; j++ {
		e := PickOne(rng, c19EnvPool)
		n := e[:strings.IndexByte(e, '=')]
		if !seen[n] {
			seen[n] = true
			env = append(env, e)
		}
	}
	sort.Strings(env)
	return env
}

// c19Looks: where the code that inspects the current context runs. The first group stays inside the
// handler's shell or a fork of it (shell variables are inherited whether exported or not); the second
// group is a NEW PROGRAM started by the handler (hooks split into several scripts): only the
// environment gets there, and the program loads the shell library again.
//
//	subst    $(context::jq …) in the handler itself        subshell  ( … ) with output to a file
//	pipe     a pipeline element fed the filter on stdin    bg        a background job, then wait
//	script   an executable helper script (#!/bin/bash, sources the library, context::jq)
//	get      the same helper using context::get
//	bashc    bash -c 'source <lib>; context::jq …'
//	nested   the helper script starts the helper script (two execs deep)
//	xargs    the helper started through other programs (env, xargs) that are not bash
var c19Looks = []string{"subst", "subshell", "pipe", "bg", "script", "get", "bashc", "nested", "xargs"}

func c19LookClass(m string) string {
	switch m {
	case "script", "get", "bashc", "nested", "xargs":
		return "exec"
	}
	return "shell"
}

// c19Acts: things a handler body may do besides ending with a status. None of them may change which
// handler the following contexts get: reading the standard input the handler shares with the
// framework (read = one line, cat = everything), assigning the framework's variables, redefining /
// unsetting functions, switching strict mode off, changing directory, closing stdin, printing.
var c19Acts = []string{"read", "cat", "vars", "undef", "cd", "opts", "noise", "closein"}

// c19Run materialises the hook and runs it with real bash. Returns the cands lines (one per
// context), the observed log, config flag, exit status.
func c19Run(r *Run, c *Case, k c19Case, tag string) {
	lib, err := c19Setup(r)
	if err != nil {
		c.Op("setup", "err "+err.Error())
		return
	}
	dir := filepath.Join(r.Scratch, fmt.Sprintf("c19-%d-%s", c.Idx, tag))
	if a, err := filepath.Abs(dir); err == nil {
		dir = a // a handler may `cd`
	}
	_ = os.MkdirAll(dir, 0o755)
	defer os.RemoveAll(dir)
	var arr []any
	for i, x := range k.ctxs {
		arr = append(arr, x.json(i))
	}
	if arr == nil {
		arr = []any{}
	}
	jb, _ := json.Marshal(arr)
	ctxPath := filepath.Join(dir, "binding_context.json")
	if k.ctxFile != "" {
		ctxPath = filepath.Join(r.Scratch, k.ctxFile)
		if a, err := filepath.Abs(ctxPath); err == nil {
			ctxPath = a
		}
		c.Note("ctxfile:reused-path")
	}
	_ = os.WriteFile(ctxPath, jb, 0o644)
	logPath := filepath.Join(dir, "log.txt")

	// the pieces the script is assembled from (k.layout decides their order): loading the library,
	// the hook's own definitions (__config__, the helpers, one function per defined handler), the tail
	var pieces []string
	pieces = append(pieces, "function __config__() { echo 'VERIF-CONFIG-MARKER configVersion: v1'; }\n")
	var sb strings.Builder
	sb.WriteString(`function __verif_look() {
  echo "${BINDING_CONTEXT_CURRENT_INDEX-unset} $(context::jq -r "${1:-.vid}") ${BINDING_CONTEXT_CURRENT_BINDING-unset}"
}
function __verif_handler() {
  local seen=-
  case "${2:-}" in
    read) if IFS= read -r seen; then seen="l:$seen"; else seen=eof; fi;;
    cat) seen="a:$(cat | tr '\n' '+')";;
  esac
  # where the handler looks at the current context from ($3, c19Looks): "<index> <vid of the context> <binding>"
  local look=fail
  case "${3:-subst}" in
    subst) look=$(__verif_look) || look=fail;;
    subshell) ( __verif_look > "$VERIF_DIR/look.out" ) || true; look=$(cat "$VERIF_DIR/look.out"); rm -f "$VERIF_DIR/look.out";;
    pipe) look=$(echo .vid | { IFS= read -r f; __verif_look "$f"; } | cat) || look=fail;;
    bg) __verif_look > "$VERIF_DIR/look.out" < /dev/null & wait $! || true; look=$(cat "$VERIF_DIR/look.out"); rm -f "$VERIF_DIR/look.out";;
    script) look=$("$VERIF_DIR/look.sh" jq < /dev/null 2>> "$VERIF_DIR/look.err") || look=fail;;
    get) look=$("$VERIF_DIR/look.sh" get < /dev/null 2>> "$VERIF_DIR/look.err") || look=fail;;
    nested) look=$("$VERIF_DIR/look.sh" nested < /dev/null 2>> "$VERIF_DIR/look.err") || look=fail;;
    bashc) look=$(bash -c 'source "$0"; echo "${BINDING_CONTEXT_CURRENT_INDEX-unset} $(context::jq -r .vid) ${BINDING_CONTEXT_CURRENT_BINDING-unset}"' "$VERIF_LIB" < /dev/null 2>> "$VERIF_DIR/look.err") || look=fail;;
    xargs) look=$(echo get | env -u VERIF_NO_SUCH_VARIABLE xargs "$VERIF_DIR/look.sh" 2>> "$VERIF_DIR/look.err") || look=fail;;
  esac
  [[ -n "$look" ]] || look=fail
  echo "$BINDING_CONTEXT_CURRENT_INDEX $1 $(context::jq -r '.vid') $BINDING_CONTEXT_CURRENT_BINDING $seen ${look// /|}" >> "$VERIF_LOG"
  local bad=no
  case " $VERIF_FAILIDX " in *" $BINDING_CONTEXT_CURRENT_INDEX "*) bad=yes;; esac
  case " $VERIF_FAILNAMES " in *" $1 "*) bad=yes;; esac
  case "${2:-}" in
    vars) i=99; CONTEXT_LENGTH=0; HANDLERS=; handlers=(); export BINDING_CONTEXT_CURRENT_INDEX=0 BINDING_CONTEXT_CURRENT_BINDING=onStartup BINDING_CONTEXT_PATH=/nonexistent BINDING_CONTEXT_CURRENT=x;;
    undef) unset -f __main__ __on_startup hook::_get_possible_handler_names context::jq || true; function __main__() { exit 9; };;
    cd) cd /;;
    opts) set +e +u; set +o pipefail; shopt -u inherit_errexit; false; true | false; set -Eeuo pipefail; shopt -s inherit_errexit;;
    noise) echo 0; echo __main__; echo "noise on stderr" >&2;;
    closein) exec 0<&-;;
  esac
  if [[ "$bad" == yes ]]; then
    case "$VERIF_FAILMODE" in
      return3) return 3;;
      exit2) exit 2;;
      pipefail) false | true; echo "not reached" >> "$VERIF_LOG";;
      nounset) echo "$VERIF_NO_SUCH_VARIABLE" > /dev/null; echo "not reached" >> "$VERIF_LOG";;
      cmdsubst) bad=$(false; echo y); echo "not reached" >> "$VERIF_LOG";;
      *) false; echo "not reached" >> "$VERIF_LOG";;
    esac
  fi
  return 0
}
`)
	pieces = append(pieces, sb.String())
	for _, n := range k.defined {
		pieces = append(pieces, fmt.Sprintf("function %s() { __verif_handler '%s' '%s' '%s'; }\n", n, n, k.acts[n], k.looks[n]))
	}
	loadLib := "source " + lib + "\n"
	// a shared include of the hook directory: loads the library (again) and defines a helper of its own
	common := filepath.Join(dir, "common.sh")
	_ = os.WriteFile(common, []byte("#!/bin/bash\nsource "+lib+"\nfunction common::labels() { echo 'app=verif'; }\n"), 0o644)
	loadCommon := "source " + common + "\n"
	sb.Reset()
	sb.WriteString("#!/bin/bash\n")
	switch k.layout {
	case "last":
		sb.WriteString(strings.Join(pieces, "") + loadLib)
	case "twice":
		sb.WriteString(loadLib + strings.Join(pieces, "") + loadCommon)
	case "include":
		sb.WriteString(loadCommon + strings.Join(pieces, ""))
	case "between":
		h := (len(pieces) + 1) / 2
		sb.WriteString(strings.Join(pieces[:h], "") + loadLib + strings.Join(pieces[h:], ""))
	default:
		sb.WriteString(loadLib + strings.Join(pieces, ""))
	}
	if k.exitTrap {
		sb.WriteString("trap 'rm -f \"$VERIF_DIR/hook-tmp.$$\"' EXIT\n")
		c.Note("hook:own-exit-trap")
	}
	sb.WriteString(`if [[ "${VERIF_MODE:-}" == "cands" ]]; then
  n=$(context::global::jq -r 'length')
  for ((i=${VERIF_START:-0}; i<n; i++)); do
    export BINDING_CONTEXT_CURRENT_INDEX="${i}"
    export BINDING_CONTEXT_CURRENT_BINDING=$(context::jq -r '.binding // "unknown"')
    out=$(hook::_get_possible_handler_names)
    printf 'cands=%s\n' "$(tr '\n' ',' <<< "${out:--}" | sed 's/,$//')"
  done
  exit 0
fi
hook::run "$@"
`)
	hook := filepath.Join(dir, "hook.sh")
	_ = writeScript(hook, []byte(sb.String()), 0o755)
	// the helper program a handler may delegate to: a separate script that loads the library again
	// and reads the current context the documented way
	_ = writeScript(filepath.Join(dir, "look.sh"), []byte("#!/bin/bash\nsource "+lib+`
case "${1:-jq}" in
  jq) v=$(context::jq -r .vid);;
  get) v=$(context::get vid);;
  nested) exec "$0" get;;
esac
echo "${BINDING_CONTEXT_CURRENT_INDEX-unset} $v ${BINDING_CONTEXT_CURRENT_BINDING-unset}"
`), 0o755)

	run := func(mode string, start int, args []string) (string, int, bool) {
		ctx, cancel := context.WithTimeout(context.Background(), 40*time.Second)
		defer cancel()
		cmd := exec.CommandContext(ctx, "bash", append([]string{hook}, args...)...)
		cmd.Dir = dir
		if mode == "" && len(k.stdin) > 0 {
			cmd.Stdin = strings.NewReader(strings.Join(k.stdin, "\n") + "\n")
		}
		var fi []string
		for _, i := range k.failIdx {
			fi = append(fi, fmt.Sprint(i))
		}
		// the environment the hook process starts with: no selection left over from a caller, or a stale one
		var base []string
		for _, e := range os.Environ() {
			if !strings.HasPrefix(e, "BINDING_CONTEXT_") {
				base = append(base, e)
			}
		}
		if k.inherit != "" {
			base = append(base, "BINDING_CONTEXT_CURRENT_INDEX="+k.inherit, "BINDING_CONTEXT_CURRENT_BINDING=onStartup",
				"BINDING_CONTEXT_CURRENT_TYPE=Schedule", "BINDING_CONTEXT_GROUP_NAME=stale")
		}
		if len(k.env) > 0 {
			drop := map[string]bool{}
			for _, e := range k.env {
				drop[e[:strings.IndexByte(e, '=')]] = true
			}
			var b2 []string
			for _, e := range base {
				if i := strings.IndexByte(e, '='); i < 0 || !drop[e[:i]] {
					b2 = append(b2, e)
				}
			}
			base = append(b2, k.env...)
		}
		cmd.Env = append(base, "BINDING_CONTEXT_PATH="+ctxPath, "VERIF_LOG="+logPath, "VERIF_DIR="+dir, "VERIF_LIB="+lib,
			"VERIF_MODE="+mode, fmt.Sprintf("VERIF_START=%d", start),
			"VERIF_FAILIDX="+strings.Join(fi, " "), "VERIF_FAILNAMES="+strings.Join(k.failNames, " "),
			"VERIF_FAILMODE="+k.failMode)
		// "exactly one handler per context": a run that has logged far more invocations than there are
		// contexts has already shown what it will show (a dispatch loop that does not advance never ends) —
		// it is stopped and judged on the log it wrote, not on how long it took
		stop := make(chan struct{})
		var runaway atomic.Bool
		if mode == "" {
			go func() {
				for {
					select {
					case <-stop:
						return
					case <-time.After(100 * time.Millisecond):
					}
					if lb, err := os.ReadFile(logPath); err == nil && strings.Count(string(lb), "\n") > 3*len(k.ctxs)+12 {
						runaway.Store(true)
						cancel()
						return
					}
				}
			}()
		}
		out, err := cmd.Output()
		close(stop)
		if runaway.Load() {
			return string(out), 124, false
		}
		if ctx.Err() != nil {
			return string(out), -1, true
		}
		rc := 0
		if err != nil {
			rc = 1
			if ee, ok := err.(*exec.ExitError); ok {
				rc = ee.ExitCode()
			}
		}
		return string(out), rc, false
	}

	c.Op("def "+joinStrs(k.defined), "ok")
	c.Op("failidx "+joinInts(k.failIdx), "ok")
	c.Op("failnames "+joinStrs(k.failNames), "ok")
	var acts []string
	for _, n := range k.defined {
		if a := k.acts[n]; a != "" {
			acts = append(acts, n+"="+a)
			c.Note("act:" + a)
		}
	}
	c.Op("acts "+joinStrs(acts), "ok")
	c.Op("stdin "+joinStrs(k.stdin), "ok")
	var looks []string
	for _, n := range k.defined {
		if m := k.looks[n]; m != "" {
			looks = append(looks, n+"="+c19LookClass(m)+":"+m)
			c.Note("look:" + m)
		}
	}
	c.Op("looks "+joinStrs(looks), "ok")
	c.Op("inherit "+dash(k.inherit), "ok")
	lay := k.layout
	if lay == "" {
		lay = "first"
	}
	c.Op("layout "+lay, "ok")
	c.Note("layout:" + lay)
	c.Op("env "+joinStrs(k.env), "ok")
	for _, e := range k.env {
		c.Note("env:" + e)
	}
	if len(k.env) == 0 {
		c.Note("env:none")
	}
	if k.inherit != "" {
		c.Note("inherit:stale-selection")
	} else {
		c.Note("inherit:none")
	}

	// correspondence of the candidate table: what the real function prints for each context
	cands := make([]string, 0, len(k.ctxs))
	for start := 0; start < len(k.ctxs); {
		out, _, to := run("cands", start, nil)
		if to {
			c.Inconcl = "bash timed out"
			return
		}
		got := 0
		for _, l := range strings.Split(strings.TrimSpace(out), "\n") {
			if strings.HasPrefix(l, "cands=") {
				cands = append(cands, l)
				got++
			}
		}
		start += got
		if start < len(k.ctxs) {
			cands = append(cands, "abort") // the script died inside the function for this context
			start++
		}
	}
	wellFormed := true
	for i, x := range k.ctxs {
		a := "<missing>"
		if i < len(cands) {
			a = cands[i]
		}
		if x.typ == "Group" && x.group == "" && x.binding != "onStartup" {
			wellFormed = false // the excluded point of candidates_spec: no oracle line, correspondence only
		}
		c.Op(x.line(), a)
		c.Note("kind:" + x.kind)
		c.Note("size:" + x.sizeBucket())
	}

	_ = os.Remove(logPath)
	out, rc, to := run("", 0, k.args)
	if to {
		c.Inconcl = "bash timed out"
		return
	}
	var entries, seen, cur, curOracle []string
	num := func(t string) string { // a decimal number, or u (unset / the look failed / not a number)
		if atoiOr(t, -1) < 0 {
			return "u"
		}
		return fmt.Sprint(atoiOr(t, -1))
	}
	lb, _ := os.ReadFile(logPath)
	for _, l := range strings.Split(strings.TrimSpace(string(lb)), "\n") {
		if l == "" {
			continue
		}
		f := strings.Fields(l)
		if len(f) < 3 {
			entries = append(entries, "999:malformed-log-line")
			continue
		}
		idx, name, vid := f[0], f[1], f[2]
		if idx != vid {
			name += "!current-context-is-" + vid // the context selected as current is not number idx
		}
		if i := atoiOr(idx, -1); i >= 0 && i < len(k.ctxs) {
			want := k.ctxs[i].binding
			if want == "" {
				want = "unknown"
			}
			if len(f) < 4 || f[3] != want {
				name += "!current-binding-wrong"
			}
		}
		// what the code started by the handler saw: index variable, identity (vid = position in the
		// array) of the context context::jq returned there, binding variable
		lk := []string{"u", "u", ""}
		if len(f) >= 6 {
			if p := strings.Split(f[5], "|"); len(p) == 3 {
				lk = p
			}
		}
		if i := atoiOr(idx, -1); i >= 0 && i < len(k.ctxs) && lk[2] != "" {
			want := k.ctxs[i].binding
			if want == "" {
				want = "unknown"
			}
			if lk[2] != want {
				name += "!look-binding-is-" + lk[2]
			}
		}
		cur = append(cur, num(lk[0])+"/"+num(lk[1]))
		curOracle = append(curOracle, num(idx)+":"+num(lk[0])+"/"+num(lk[1]))
		entries = append(entries, idx+":"+name)
		if len(f) >= 5 {
			seen = append(seen, f[4])
		} else {
			seen = append(seen, "?")
		}
	}
	config := 0
	if strings.Contains(out, "VERIF-CONFIG-MARKER") {
		config = 1
	}
	ok := 0
	if rc == 0 {
		ok = 1
	}
	obs := fmt.Sprintf("log=%s config=%d ok=%d", joinStrs(entries), config, ok)
	// correspondence only: what each invoked handler found on the standard input it shares with the
	// framework (the framework itself reads nothing from it)
	// cur=: per invocation, the index and the context seen from where the handler looked (model: indexSeen / currentSeen)
	c.Op(strings.TrimSpace("run "+strings.Join(k.args, " ")), obs+" in="+joinStrs(seen)+" cur="+joinStrs(cur))
	if wellFormed {
		c.Oracle(fmt.Sprintf("run args=%s %s", joinStrs(k.args), obs))
		// the clause "with that context selected as current", wherever the handler looks from:
		// invocation number n sees index n and the context at position n
		c.Oracle("current cur=" + joinStrs(curOracle))
	}
	if len(entries) < len(k.ctxs) && config == 0 {
		c.Note("run:stopped-early")
	} else if config == 1 {
		c.Note("run:config")
	} else {
		c.Note("run:complete")
	}
}

// c19RandLooks draws, for each defined function, where it looks at the current context from:
// p % of the functions get a mode of c19Looks (60 % of those a new program), the rest keep "subst".
func c19RandLooks(rng *Rng, defined []string, p int) map[string]string {
	m := map[string]string{}
	for _, d := range defined {
		if rng.Chance(p) {
			if rng.Chance(60) {
				m[d] = PickOne(rng, []string{"script", "get", "bashc", "nested", "xargs"})
			} else {
				m[d] = PickOne(rng, c19Looks)
			}
		}
	}
	return m
}

func atoiOr(s string, d int) int {
	n := 0
	if s == "" {
		return d
	}
	for _, ch := range s {
		if ch < '0' || ch > '9' {
			return d
		}
		n = n*10 + int(ch-'0')
	}
	return n
}

func c19Subsets(xs []string) [][]string {
	var res [][]string
	for m := 0; m < 1<<len(xs); m++ {
		var s []string
		for i, x := range xs {
			if m&(1<<i) != 0 {
				s = append(s, x)
			}
		}
		res = append(res, s)
	}
	return res
}

func uniqSorted(xs []string) []string {
	m := map[string]bool{}
	for _, x := range xs {
		m[x] = true
	}
	var r []string
	for x := range m {
		r = append(r, x)
	}
	sort.Strings(r)
	return r
}

func runC19(r *Run) {
	// a case runs bash up to three times (each bounded by 40 s and reported inconclusive on timeout):
	// keep the per-case watchdog above that so a loaded machine never shows up as a `hang`
	r.CaseTimeout = 150 * time.Second
	r.Rule = "real bash runs of generated hook scripts that source the repository's shell_lib.sh + frameworks/shell/*.sh: (1) exhaustive single-context cases = every context kind (onStartup, Synchronization, Event Added/Modified/Deleted, Group, Schedule, Validating, Mutating, Conversion) x every subset of its documented candidates + __main__ (76 cases); (1c) runs of ONE binding: every ordered pair and triple a,b,a of Synchronization / Added / Modified / Deleted contexts of the same binding x three definition modes (48 cases), and 35 % of the contexts of a random array repeat the binding of the context before them; (2) random arrays of 0..6 contexts of every kind incl. odd shapes (unknown type, no type, no binding, unknown watchEvent, onStartup with a type), random subsets of candidate functions plus decoy functions of other bindings/kinds, failures scripted by context index or handler name ending with return 3 / exit 2 / `false` under set -e, args none / --config / other; thorough adds all ordered pairs of kinds x {all specific handlers, only __main__, nothing for the first, nothing for the second} x failure at {none, first, second}. Every defined function also gets a place it looks at the current context from (its own shell: $(…), ( … ), a pipeline element, a background job; or a NEW PROGRAM: an executable helper script that sources the library again and calls context::jq or context::get, bash -c, the helper two execs deep, the helper started through env | xargs), and 15 % of the hooks are started with a stale BINDING_CONTEXT_CURRENT_* selection in their environment; corpus cases 8 (one function, helper script, three contexts) and 9 (one context per way of looking, last handler fails, with and without a stale inherited selection). Every hook also has a script layout (the bundled library loaded before the hook's own definitions / after them / before and a second time through a shared include / only through the include / between the definitions; block of every layout x {--config, dispatch, x --config, --config x}) and 35 % of the hooks inherit one to four variables from the operator's environment (LOG_LEVEL=debug|info|error|trace, LOG_TYPE, DEBUG*, SHELL_OPERATOR_*, KUBE_* ... and names the framework uses as plain shell variables: i, CONTEXT_LENGTH, HANDLERS, handler, handlers, f, frame, ret; a block runs every variable of the pool with an array of 2..5 contexts); corpus cases 10 (every layout: --config and a two-context dispatch) and 11 (LOG_LEVEL=debug with three / five contexts), 12 (thirteen contexts), 13 (second execution with the same binding-context path after a run of a hook that has its own EXIT trap; 10 % of the random arrays are preceded by such a run for another array). A run that has logged more than 3n+12 invocations for n contexts is stopped and judged on its log (a dispatch loop that does not advance). Observation: (index, handler, context read through context::jq, and index / context / binding seen from where the handler looks) per invocation in order, config marker on stdout, exit status; plus the output of hook::_get_possible_handler_names per context. Non-trivial: at least one context and not --config; distinct = distinct op-line sequences."
	bindings := []string{"pods", "monitor-pods", "cfg.v1", "kubernetes", "schedule", "a_b", "main", "every*min", "x[1]", "what?",
		// names that CONTAIN the name of another binding kind or of a context type without being it
		"resync-onStartup-state", "onStartup2", "xonStartup", "Synchronization", "group-pods"}
	groups := []string{"g1", "grp-a", "pods"}

	// corpus
	r.One(0, func(c *Case, _ *Rng) {
		c.Desc = "corpus: --config prints the configuration and runs no handler"
		c.Nontrivial = true
		c19Run(r, c, c19Case{ctxs: []c19Ctx{c19Make("sync", "pods", ""), c19Make("schedule", "cron", "")},
			defined: []string{"__main__", "__on_schedule::cron"}, args: []string{"--config"}, failMode: "return3"}, "a")
	})
	r.One(1, func(c *Case, _ *Rng) {
		c.Desc = "corpus: Group context without groupName aborts the script (excluded point of candidates_spec)"
		c.Nontrivial = true
		c19Run(r, c, c19Case{ctxs: []c19Ctx{c19Make("schedule", "cron", ""), {kind: "group-noname", binding: "pods", typ: "Group"}, c19Make("schedule", "cron", "")},
			defined: []string{"__main__"}, failMode: "return3"}, "a")
	})
	r.One(3, func(c *Case, _ *Rng) {
		c.Desc = "corpus: binding names with pathname-expansion characters (*, ?, [) are plain names"
		c.Nontrivial = true
		c19Run(r, c, c19Case{ctxs: []c19Ctx{c19Make("schedule", "every*min", ""), c19Make("added", "x[1]", ""), c19Make("group", "pods", "g?")},
			defined: []string{"__main__", "__on_kubernetes::x[1]::added_or_modified"}, failMode: "return3"}, "a")
	})
	r.One(2, func(c *Case, _ *Rng) {
		c.Desc = "corpus: empty context array, and `x --config` (not the first argument)"
		c.Nontrivial = true
		c19Run(r, c, c19Case{defined: []string{"__main__"}, failMode: "return3"}, "a")
		c19Run(r, c, c19Case{ctxs: []c19Ctx{c19Make("startup", "", "")}, defined: []string{"__on_startup"}, args: []string{"x", "--config"}, failMode: "exit2"}, "b")
	})

	r.One(4, func(c *Case, _ *Rng) {
		c.Desc = "corpus: one context far above 128 KiB (Synchronization with ~2000 objects) between two small ones, specific handlers and __main__ defined"
		c.Nontrivial = true
		big := c19Make("sync", "pods", "")
		big.pad = 420 * 1024
		c19Run(r, c, c19Case{ctxs: []c19Ctx{c19Make("schedule", "cron", ""), big, c19Make("deleted", "pods", "")},
			defined: []string{"__main__", "__on_kubernetes::pods::deleted", "__on_kubernetes::pods::synchronization", "__on_schedule::cron"}, failMode: "return3"}, "a")
	})
	r.One(5, func(c *Case, _ *Rng) {
		c.Desc = "corpus: contexts just below and just above 128 KiB, only specific handlers defined (no __main__)"
		c.Nontrivial = true
		a, b := c19Make("group", "pods", "g1"), c19Make("validating", "cfg.v1", "")
		a.pad, b.pad = 126*1024, 130*1024
		c19Run(r, c, c19Case{ctxs: []c19Ctx{a, b}, defined: []string{"__on_group::g1", "__on_validating::cfg.v1"}, failMode: "exit2"}, "a")
	})
	r.One(6, func(c *Case, _ *Rng) {
		c.Desc = "corpus: handlers that read their standard input (cat, read) with the hook started on /dev/null, four contexts"
		c.Nontrivial = true
		c19Run(r, c, c19Case{ctxs: []c19Ctx{c19Make("sync", "pods", ""), c19Make("added", "pods", ""), c19Make("schedule", "cron", ""), c19Make("deleted", "pods", "")},
			defined: []string{"__main__", "__on_kubernetes::pods", "__on_schedule::cron"},
			acts:    map[string]string{"__on_kubernetes::pods": "read", "__on_schedule::cron": "cat"}, failMode: "return3"}, "a")
	})
	r.One(7, func(c *Case, _ *Rng) {
		c.Desc = "corpus: the hook's standard input carries lines; handlers read one line / everything; the third handler fails after reading"
		c.Nontrivial = true
		c19Run(r, c, c19Case{ctxs: []c19Ctx{c19Make("schedule", "a_b", ""), c19Make("modified", "pods", ""), c19Make("mutating", "main", ""), c19Make("startup", "", "")},
			defined: []string{"__main__", "__on_kubernetes::pods::added_or_modified", "__on_mutating::main", "__on_schedule::a_b"},
			acts:    map[string]string{"__on_schedule::a_b": "read", "__on_kubernetes::pods::added_or_modified": "read", "__on_mutating::main": "cat", "__main__": "read"},
			stdin:   []string{"0", "7", "S2", "3"}, failIdx: []int{2}, failMode: "false"}, "a")
	})

	r.One(8, func(c *Case, _ *Rng) {
		c.Desc = "corpus: the handler delegates to a helper script (a new process that loads the library again and calls context::jq); three contexts handled by the same function"
		c.Nontrivial = true
		c19Run(r, c, c19Case{ctxs: []c19Ctx{c19Make("added", "pods", ""), c19Make("added", "pods", ""), c19Make("added", "pods", "")},
			defined: []string{"__on_kubernetes::pods::added", "__on_kubernetes::pods::deleted"},
			looks:   map[string]string{"__on_kubernetes::pods::added": "script"}, failMode: "return3"}, "a")
	})
	r.One(9, func(c *Case, _ *Rng) {
		c.Desc = "corpus: every way of looking at the current context (forks of the handler's shell, helper script, context::get, bash -c, two execs deep, started through env and xargs), one per context; the hook process inherits a stale selection; the last handler fails"
		c.Nontrivial = true
		var k c19Case
		k.looks = map[string]string{}
		for i, m := range c19Looks {
			b := fmt.Sprintf("b%d", i)
			k.ctxs = append(k.ctxs, c19Make("schedule", b, ""))
			k.defined = append(k.defined, "__on_schedule::"+b)
			k.looks["__on_schedule::"+b] = m
		}
		k.failIdx = []int{len(c19Looks) - 1}
		k.failMode = "exit2"
		c19Run(r, c, k, "a")
		k.inherit = "3"
		c19Run(r, c, k, "b")
	})

	r.One(10, func(c *Case, _ *Rng) {
		c.Desc = "corpus: every script layout (library loaded first / after the hook's own definitions / a second time by a shared include / through the include / between the definitions): --config prints the hook's configuration, and two contexts are dispatched to the hook's own functions"
		c.Nontrivial = true
		for i, lay := range c19Layouts {
			c19Run(r, c, c19Case{ctxs: []c19Ctx{c19Make("startup", "", "")}, defined: []string{"__main__", "__on_startup"},
				args: []string{"--config"}, failMode: "return3", layout: lay}, fmt.Sprintf("c%d", i))
			c19Run(r, c, c19Case{ctxs: []c19Ctx{c19Make("startup", "", ""), c19Make("modified", "pods", "")},
				defined: []string{"__main__", "__on_kubernetes::pods::added_or_modified", "__on_startup"}, failMode: "return3", layout: lay}, fmt.Sprintf("d%d", i))
		}
	})
	r.One(11, func(c *Case, _ *Rng) {
		c.Desc = "corpus: the hook inherits the operator's environment with LOG_LEVEL=debug (and a variable named like the loop index): three Schedule contexts; Synchronization followed by four contexts with one to four candidates"
		c.Nontrivial = true
		c19Run(r, c, c19Case{ctxs: []c19Ctx{c19Make("schedule", "cron", ""), c19Make("schedule", "cron", ""), c19Make("schedule", "cron", "")},
			defined: []string{"__on_schedule::cron"}, failMode: "return3", env: []string{"LOG_LEVEL=debug"}}, "a")
		c19Run(r, c, c19Case{ctxs: []c19Ctx{c19Make("sync", "pods", ""), c19Make("added", "pods", ""), c19Make("schedule", "cron", ""), c19Make("schedule", "cron", ""), c19Make("startup", "", "")},
			defined: []string{"__main__", "__on_kubernetes::pods", "__on_schedule::cron"}, failMode: "return3", env: []string{"LOG_LEVEL=debug", "i=7"}}, "b")
	})

	r.One(12, func(c *Case, _ *Rng) {
		c.Desc = "corpus: an array of thirteen contexts (two-digit indices; the order of the indices is numeric, not lexicographic), the last handler fails"
		c.Nontrivial = true
		var k c19Case
		for i := 0; i < 13; i++ {
			k.ctxs = append(k.ctxs, c19Make(c19Kinds[i%len(c19Kinds)], "pods", "g1"))
		}
		k.defined = []string{"__main__", "__on_kubernetes::pods", "__on_schedule::pods"}
		k.failIdx = []int{12}
		k.failMode = "return3"
		c19Run(r, c, k, "a")
	})

	r.One(13, func(c *Case, _ *Rng) {
		c.Desc = "corpus: second execution — the hook (which installs its own EXIT trap, the temp-file idiom) runs for [Added pods], then again with the same binding-context path for [Deleted pods, Schedule cron]: the second run dispatches the second array"
		c.Nontrivial = true
		def := []string{"__on_kubernetes::pods::added", "__on_kubernetes::pods::deleted", "__on_schedule::cron"}
		c19Run(r, c, c19Case{ctxs: []c19Ctx{c19Make("added", "pods", "")}, defined: def, failMode: "return3", exitTrap: true, ctxFile: "c19-13-ctx.json"}, "a")
		c19Run(r, c, c19Case{ctxs: []c19Ctx{c19Make("deleted", "pods", ""), c19Make("schedule", "cron", "")}, defined: def, failMode: "return3", exitTrap: true, ctxFile: "c19-13-ctx.json"}, "b")
	})

	// (1c) script layouts x {--config, dispatch, `x --config`} and every variable of the environment pool x
	// an array of 2..5 contexts (what the environment may disturb is the loop, not a single dispatch)
	type shaped struct {
		layout string
		args   []string
		env    string
	}
	var shapeds []shaped
	for _, lay := range c19Layouts {
		for _, a := range [][]string{{"--config"}, nil, {"x", "--config"}, {"--config", "x"}} {
			shapeds = append(shapeds, shaped{layout: lay, args: a})
		}
	}
	for _, e := range uniqSorted(c19EnvPool) {
		shapeds = append(shapeds, shaped{env: e})
	}
	r.Extra["layout_and_environment_cases"] = len(shapeds)
	r.Cases(300, len(shapeds), 0, func(c *Case, rng *Rng) {
		z := shapeds[c.Idx-300]
		var k c19Case
		var pool []string
		for i, n := 0, rng.Range(2, 5); i < n; i++ {
			x := c19Make(PickOne(rng, c19Kinds), PickOne(rng, bindings), PickOne(rng, groups))
			k.ctxs = append(k.ctxs, x)
			pool = append(pool, x.cands()...)
		}
		def := []string{}
		for _, p := range uniqSorted(pool) {
			if rng.Chance(60) {
				def = append(def, p)
			}
		}
		if rng.Chance(80) {
			def = append(def, "__main__") // most of these runs reach the last context
		}
		k.defined = uniqSorted(def)
		k.failMode = "return3"
		k.args = z.args
		k.layout = z.layout
		if z.env != "" {
			k.env = []string{z.env}
			k.layout = PickOne(rng, c19Layouts)
		} else {
			k.env = c19RandEnv(rng, 30)
		}
		k.looks = c19RandLooks(rng, k.defined, 30)
		c.Desc = fmt.Sprintf("shape layout=%s args=%v env=%v", k.layout, k.args, k.env)
		c.Nontrivial = true
		c19Run(r, c, k, "a")
	})

	// (1) exhaustive single-context cases
	type single struct {
		kind string
		def  []string
	}
	var singles []single
	for _, kd := range c19Kinds {
		x := c19Make(kd, "pods", "g1")
		for _, s := range c19Subsets(append(x.cands(), "__main__")) {
			singles = append(singles, single{kd, s})
		}
	}
	r.Extra["single_context_cases"] = len(singles)
	r.Cases(100, len(singles), 0, func(c *Case, rng *Rng) {
		s := singles[c.Idx-100]
		c.Desc = fmt.Sprintf("single %s defined=%v", s.kind, s.def)
		c.Nontrivial = true
		k := c19Case{ctxs: []c19Ctx{c19Make(s.kind, "pods", "g1")}, defined: s.def, failMode: "return3", looks: c19RandLooks(rng, s.def, 50)}
		if rng.Chance(20) {
			k.inherit = PickOne(rng, []string{"0", "3", "17"})
		}
		if rng.Chance(40) {
			k.layout = PickOne(rng, c19Layouts)
		}
		k.env = c19RandEnv(rng, 30)
		c19Run(r, c, k, "a")
	})
	r.Exhaust = true
	r.Extra["exhaustive_scope"] = fmt.Sprintf("all %d (context kind x subset of its candidates + __main__) single-context cases", len(singles))

	// (1b) every kind x {just above 128 KiB, far above} x {specific handlers + __main__, specific only}:
	// a small context first, then the large one, then a small one again
	type sized struct {
		kind string
		pad  int
		main bool
	}
	var sizeds []sized
	for _, kd := range c19Kinds {
		for _, pad := range []int{132 * 1024, 300 * 1024} {
			for _, m := range []bool{true, false} {
				sizeds = append(sizeds, sized{kd, pad, m})
			}
		}
	}
	r.Extra["large_context_cases"] = len(sizeds)
	r.Cases(200, len(sizeds), 0, func(c *Case, rng *Rng) {
		z := sizeds[c.Idx-200]
		x := c19Make(z.kind, PickOne(rng, bindings), PickOne(rng, groups))
		x.pad = z.pad + rng.Intn(8*1024)
		pre, post := c19Make("schedule", "cron", ""), c19Make("added", "cfg.v1", "")
		def := append(append(append([]string{}, pre.cands()...), x.cands()[rng.Intn(len(x.cands())):]...), post.cands()[1:]...)
		if z.main {
			def = append(def, "__main__")
		}
		c.Desc = fmt.Sprintf("large %s %dK main=%v", z.kind, x.pad/1024, z.main)
		c.Nontrivial = true
		def = uniqSorted(def)
		c19Run(r, c, c19Case{ctxs: []c19Ctx{pre, x, post}, defined: def, failMode: "return3", looks: c19RandLooks(rng, def, 70)}, "a")
	})

	// (1c) runs of one binding: every ordered pair and every triple a,b,a of {Synchronization, Added, Modified, Deleted}
	// contexts of the SAME binding x {every specific handler of all of them + __main__, the handlers of the last
	// context only, the most specific handler of each}: consecutive contexts that agree in binding and type and
	// differ only in watchEvent must each get their own candidates
	type sameb struct {
		ks   []string
		mode int
	}
	var samebs []sameb
	fam := []string{"sync", "added", "modified", "deleted"}
	for _, a := range fam {
		for _, b := range fam {
			if a == b {
				continue
			}
			for mode := 0; mode < 3; mode++ {
				samebs = append(samebs, sameb{[]string{a, b}, mode})
			}
			samebs = append(samebs, sameb{[]string{a, b, a}, 2})
		}
	}
	r.Extra["same_binding_run_cases"] = len(samebs)
	r.Cases(500, len(samebs), 0, func(c *Case, rng *Rng) {
		z := samebs[c.Idx-500]
		b := PickOne(rng, bindings)
		var k c19Case
		var def []string
		for i, kd := range z.ks {
			x := c19Make(kd, b, "")
			k.ctxs = append(k.ctxs, x)
			switch z.mode {
			case 0:
				def = append(def, x.cands()...)
			case 1:
				if i == len(z.ks)-1 {
					def = append(def, x.cands()...)
				}
			case 2:
				def = append(def, x.cands()[0])
			}
		}
		if z.mode == 0 {
			def = append(def, "__main__")
		}
		k.defined = uniqSorted(def)
		k.failMode = "return3"
		k.looks = c19RandLooks(rng, k.defined, 40)
		c.Desc = fmt.Sprintf("same-binding run %v mode=%d binding=%s", z.ks, z.mode, b)
		c.Nontrivial = true
		c.Note("run:same-binding")
		c19Run(r, c, k, "a")
	})

	// (2) random arrays
	allKinds := append(append([]string{}, c19Kinds...), "event-other", "event-none", "type-other", "no-type", "no-binding", "startup-typed", "conversion-plain")
	r.Cases(1000, r.N(260, 3000), 0, func(c *Case, rng *Rng) {
		var k c19Case
		n := rng.Range(0, 6)
		if rng.Chance(3) {
			n = rng.Range(7, 24) // occasionally a long array (two-digit indices)
		}
		var pool []string
		for i := 0; i < n; i++ {
			kd := PickOne(rng, c19Kinds)
			if rng.Chance(20) {
				kd = PickOne(rng, allKinds)
			}
			b, g := PickOne(rng, bindings), PickOne(rng, groups)
			if i > 0 && k.ctxs[i-1].kind != "startup" && rng.Chance(35) {
				// a run: what the operator combines into one array is mostly consecutive contexts of ONE binding
				// (and group) — the same binding again, most often another event of it
				b, g = k.ctxs[i-1].binding, k.ctxs[i-1].group
				if g == "" {
					g = PickOne(rng, groups)
				}
				if rng.Chance(70) {
					kd = PickOne(rng, []string{"sync", "added", "modified", "deleted", "event-other", "event-none"})
				}
				c.Note("run:same-binding")
			}
			x := c19Make(kd, b, g)
			x.decoy = rng.Chance(25)
			k.ctxs = append(k.ctxs, x)
			pool = append(pool, x.cands()...)
		}
		if n > 0 && rng.Chance(8) {
			// one context with a large payload: below / just above / far above 128 KiB (the limit of one
			// argument or environment string of execve), thorough also above 2 MiB
			sizes := []int{100 * 1024, 129 * 1024, 136 * 1024, 200 * 1024, 420 * 1024, 1024 * 1024}
			if r.Thorough() {
				sizes = append(sizes, 2500*1024)
			}
			k.ctxs[rng.Intn(n)].pad = PickOne(rng, sizes) + rng.Intn(2048)
		}
		pMain := PickOne(rng, []int{0, 50, 90})
		pC := PickOne(rng, []int{20, 50, 80})
		var def []string
		for _, p := range uniqSorted(pool) {
			if rng.Chance(pC) {
				def = append(def, p)
			}
		}
		if rng.Chance(pMain) {
			def = append(def, "__main__")
		}
		// decoys: handlers of other bindings / kinds / spellings
		for _, d := range []string{"__on_kubernetes::other::added", "__on_schedule::pods", "__on_kubernetes::pods::Added",
			"__on_group::pods", "__on_kubernetes", "__on_startup", "__main", "__on_conversion::pods::v1::v2", "__on_validating::main"} {
			if rng.Chance(15) {
				def = append(def, d)
			}
		}
		// near-name decoys: functions whose name extends / is a fragment of a candidate of one of the
		// contexts (a lookup by prefix, substring or word instead of by exact name would pick them up)
		if up := uniqSorted(pool); len(up) > 0 && rng.Chance(30) {
			for j, m := 0, rng.Range(1, 3); j < m; j++ {
				p := PickOne(rng, up)
				switch rng.Intn(6) {
				case 0:
					def = append(def, p+"::extra")
				case 1:
					def = append(def, p+"-old")
				case 2:
					def = append(def, p+".bak")
				case 3:
					def = append(def, p+"_2")
				case 4:
					def = append(def, "x"+p)
				case 5:
					def = append(def, p[:len(p)-1])
				}
			}
			c.Note("decoy:near-name")
		}
		k.defined = uniqSorted(def)
		for i := 0; i < n; i++ {
			if rng.Chance(12) {
				k.failIdx = append(k.failIdx, i)
			}
		}
		if len(k.defined) > 0 && rng.Chance(15) {
			k.failNames = []string{PickOne(rng, k.defined)}
		}
		k.failMode = PickOne(rng, []string{"return3", "exit2", "false", "pipefail", "nounset", "cmdsubst"})
		// what the handlers do besides ending with a status (c19Acts); the hook's stdin is /dev/null
		// (as under the operator) or carries a few lines, some of which look like context indices
		if pAct := PickOne(rng, []int{0, 0, 30, 70}); pAct > 0 {
			k.acts = map[string]string{}
			for _, d := range k.defined {
				if rng.Chance(pAct) {
					k.acts[d] = PickOne(rng, c19Acts)
					if rng.Chance(50) {
						k.acts[d] = PickOne(rng, []string{"read", "cat"})
					}
				}
			}
		}
		// where each handler looks at the current context from (its own shell, a fork, a new program),
		// and whether the hook process itself was started with a stale selection in its environment
		if pLook := PickOne(rng, []int{0, 40, 100}); pLook > 0 {
			k.looks = c19RandLooks(rng, k.defined, pLook)
		}
		if rng.Chance(15) {
			k.inherit = PickOne(rng, []string{"0", "3", "17"})
		}
		// the order in which the script loads the library and defines its functions; what the hook
		// process inherits from the operator's environment
		if rng.Chance(35) {
			k.layout = PickOne(rng, c19Layouts)
		}
		k.env = c19RandEnv(rng, 35)
		if rng.Chance(30) {
			k.stdin = []string{}
			for i, m := 0, rng.Range(0, 5); i < m; i++ {
				k.stdin = append(k.stdin, PickOne(rng, []string{"0", "1", "2", "5", "S" + fmt.Sprint(i), "__main__", "x-" + fmt.Sprint(i)}))
			}
		}
		switch a := rng.Intn(20); {
		case a == 0:
			k.args = []string{"--config"}
		case a == 1:
			k.args = []string{"x", "--config"}
		case a == 2:
			k.args = []string{"--configure"}
		}
		c.Nontrivial = n >= 1 && !(len(k.args) == 1 && k.args[0] == "--config")
		c.Note(fmt.Sprintf("len:%d", n))
		if n >= 1 && rng.Chance(10) {
			// second execution: the same hook ran before, for another array, with the same binding-context path
			// (and has an EXIT trap of its own, so nothing the library would clean up at exit is cleaned)
			k.ctxFile = fmt.Sprintf("c19-%d-ctx.json", c.Idx)
			k.exitTrap = rng.Chance(70)
			prev := k
			prev.ctxs = nil
			for i := len(k.ctxs) - 1; i >= 0; i-- {
				prev.ctxs = append(prev.ctxs, k.ctxs[i])
			}
			prev.ctxs = append(prev.ctxs, c19Make("schedule", "main", ""))
			prev.exitTrap = true
			c.Note("prev-run:other-array-same-path")
			c19Run(r, c, prev, "p")
		}
		c19Run(r, c, k, "a")
	})

	if r.Thorough() {
		// (3) all ordered pairs of kinds x definition mode x failure position
		type pair struct {
			a, b       string
			mode, fail int
		}
		var pairs []pair
		for _, a := range c19Kinds {
			for _, b := range c19Kinds {
				for mode := 0; mode < 4; mode++ {
					for fail := 0; fail < 3; fail++ {
						pairs = append(pairs, pair{a, b, mode, fail})
					}
				}
			}
		}
		r.Extra["pair_cases"] = len(pairs)
		r.Cases(100000, len(pairs), 0, func(c *Case, rng *Rng) {
			p := pairs[c.Idx-100000]
			x, y := c19Make(p.a, "pods", "g1"), c19Make(p.b, "cfg.v1", "grp-a")
			var def []string
			switch p.mode {
			case 0: // every specific handler of both + main
				def = append(append(append(def, x.cands()...), y.cands()...), "__main__")
			case 1:
				def = []string{"__main__"}
			case 2: // nothing for the first context
				def = y.cands()
			case 3: // nothing for the second context
				def = x.cands()
			}
			k := c19Case{ctxs: []c19Ctx{x, y}, defined: uniqSorted(def), failMode: PickOne(rng, []string{"return3", "exit2", "false", "pipefail", "nounset", "cmdsubst"})}
			if p.fail > 0 {
				k.failIdx = []int{p.fail - 1}
			}
			if rng.Chance(40) {
				k.acts = map[string]string{}
				for _, d := range k.defined {
					k.acts[d] = PickOne(rng, c19Acts)
				}
			}
			k.looks = c19RandLooks(rng, k.defined, 60)
			if rng.Chance(10) {
				k.inherit = PickOne(rng, []string{"0", "1", "17"})
			}
			if rng.Chance(30) {
				k.layout = PickOne(rng, c19Layouts)
			}
			k.env = c19RandEnv(rng, 40)
			c.Desc = fmt.Sprintf("pair %s,%s mode=%d fail=%d", p.a, p.b, p.mode, p.fail)
			c.Nontrivial = true
			c19Run(r, c, k, "a")
		})
	}
}
