package main

import (
	"bufio"
	"crypto/sha256"
	"encoding/hex"
	"encoding/json"
	"flag"
	"fmt"
	"os"
	"path/filepath"
	"runtime"
	"runtime/debug"
	"sort"
	"strconv"
	"strings"
	"sync"
	"time"
)

// ---------------------------------------------------------------- PRNG (splitmix64; every random
// choice of a case derives from (seed, case index), so a single case replays exactly)

type Rng struct{ s uint64 }

func NewRng(seed uint64) *Rng { return &Rng{s: seed*0x9E3779B97F4A7C15 + 0x1234567} }

func (r *Rng) U64() uint64 {
	r.s += 0x9E3779B97F4A7C15
	z := r.s
	z = (z ^ (z >> 30)) * 0xBF58476D1CE4E5B9
	z = (z ^ (z >> 27)) * 0x94D049BB133111EB
	return z ^ (z >> 31)
}
func (r *Rng) Intn(n int) int {
	if n <= 0 {
		return 0
	}
	return int(r.U64() % uint64(n))
}
func (r *Rng) Bool() bool          { return r.U64()&1 == 1 }
func (r *Rng) Chance(pct int) bool { return r.Intn(100) < pct }
func (r *Rng) Range(lo, hi int) int {
	if hi <= lo {
		return lo
	}
	return lo + r.Intn(hi-lo+1)
}
func PickOne[T any](r *Rng, xs []T) T { return xs[r.Intn(len(xs))] }
func (r *Rng) Shuffle(n int, swap func(i, j int)) {
	for i := n - 1; i > 0; i-- {
		swap(i, r.Intn(i+1))
	}
}

// ---------------------------------------------------------------- one case = op lines + answers

type Case struct {
	Idx        int
	Desc       string
	ops        []string
	impl       []string
	Nontrivial bool
	Known      string // id of a known finding this case replays ("" for ordinary cases)
	Inconcl    string // non-empty: the case could not be decided (timing); never a violation
	notes      map[string]int
	mu         sync.Mutex
	dead       bool // set when the case overran its deadline: later writes are ignored
	journal    *os.File // solo replays stream their lines so a process crash keeps them
}

// Op records one protocol line and the implementation's canonical answer to it.
func (c *Case) Op(line, implAnswer string) {
	c.mu.Lock()
	defer c.mu.Unlock()
	if c.dead {
		return
	}
	c.ops = append(c.ops, oneLine(line))
	c.impl = append(c.impl, oneLine(implAnswer))
	if c.journal != nil {
		fmt.Fprintf(c.journal, "%s\t%s\n", oneLine(line), oneLine(implAnswer))
	}
}

// Oracle records a property-oracle query: the model evaluates the property on what the
// implementation showed; the expected answer is always "true".
func (c *Case) Oracle(args string) { c.Op("oracle "+args, "true") }

func (c *Case) Note(k string) {
	c.mu.Lock()
	defer c.mu.Unlock()
	if c.notes == nil {
		c.notes = map[string]int{}
	}
	c.notes[k]++
}

func oneLine(s string) string {
	s = strings.ReplaceAll(s, "\n", "\\n")
	return strings.TrimSpace(s)
}

// ---------------------------------------------------------------- a run of one suite

type Run struct {
	Suite    string
	Seed     uint64
	Tier     string
	OutDir   string
	OnlyCase int
	Scratch  string
	start    time.Time

	mu       sync.Mutex
	cases    []*Case
	Rule     string
	Extra    map[string]any
	Exhaust  bool
	failures []string

	CaseTimeout time.Duration
	skip        map[int]bool
	jmu         sync.Mutex
	jf          *os.File
}

func (r *Run) journalLine(s string) {
	r.jmu.Lock()
	defer r.jmu.Unlock()
	if r.jf == nil {
		r.jf, _ = os.OpenFile(filepath.Join(r.OutDir, "journal.txt"), os.O_CREATE|os.O_APPEND|os.O_WRONLY, 0o644)
	}
	if r.jf != nil {
		fmt.Fprintln(r.jf, s)
	}
}

func newRun(suite string, args []string) *Run {
	fs := flag.NewFlagSet(suite, flag.ExitOnError)
	seed := fs.Uint64("seed", 1, "PRNG seed")
	tier := fs.String("tier", "quick", "quick|thorough")
	out := fs.String("out", "", "output directory")
	only := fs.Int("case", -1, "run only this case index")
	_ = fs.Parse(args)
	if *out == "" {
		fmt.Fprintln(os.Stderr, "--out required")
		os.Exit(2)
	}
	_ = os.MkdirAll(*out, 0o755)
	scratch := filepath.Join(*out, "scratch")
	_ = os.MkdirAll(scratch, 0o755)
	skip := map[int]bool{}
	for _, f := range strings.Split(os.Getenv("VERIF_SKIP_CASES"), ",") {
		if n, err := strconv.Atoi(f); err == nil {
			skip[n] = true
		}
	}
	return &Run{skip: skip, Suite: suite, Seed: *seed, Tier: *tier, OutDir: *out, OnlyCase: *only, Scratch: scratch,
		start: time.Now(), Extra: map[string]any{}, CaseTimeout: 60 * time.Second}
}

func (r *Run) Thorough() bool { return r.Tier == "thorough" }

// N picks a case count by tier.
func (r *Run) N(quick, thorough int) int {
	if r.Thorough() {
		return thorough
	}
	return quick
}

// Cases runs n cases starting at index base, in parallel (par workers; 0 = NumCPU), keeping the
// output in index order. fn must derive all randomness from rng.
func (r *Run) Cases(base, n, par int, fn func(c *Case, rng *Rng)) {
	if par <= 0 {
		par = runtime.NumCPU()
	}
	res := make([]*Case, n)
	var wg sync.WaitGroup
	ch := make(chan int)
	for w := 0; w < par; w++ {
		wg.Add(1)
		go func() {
			defer wg.Done()
			for i := range ch {
				idx := base + i
				if r.OnlyCase >= 0 && r.OnlyCase != idx {
					continue
				}
				if r.skip[idx] {
					continue
				}
				c := &Case{Idx: idx}
				if r.OnlyCase >= 0 {
					c.journal, _ = os.OpenFile(filepath.Join(r.OutDir, "case-journal.txt"), os.O_CREATE|os.O_APPEND|os.O_WRONLY, 0o644)
				}
				r.journalLine(fmt.Sprintf("start %d", idx))
				// two rounds of mixing: the streams of neighbouring cases must not be shifted copies of each other
				rng := NewRng(NewRng(r.Seed*1000003+uint64(idx)).U64() ^ 0xD1B54A32D192ED03)
				done := make(chan struct{})
				go func() {
					defer close(done)
					defer func() {
						if p := recover(); p != nil {
							// a panic escaping the case body is an observation, not a harness crash
							c.Op("harness-panic", "panic: "+firstLine(fmt.Sprint(p))+" @ "+panicSite())
						}
					}()
					fn(c, rng)
				}()
				select {
				case <-done:
				case <-time.After(r.CaseTimeout):
					// the implementation hung (e.g. a lock left held): an observation as well
					c.Op("harness-timeout", "hang")
					c.mu.Lock()
					c.dead = true
					c.mu.Unlock()
				}
				r.journalLine(fmt.Sprintf("done %d", idx))
				res[i] = c
			}
		}()
	}
	for i := 0; i < n; i++ {
		ch <- i
	}
	close(ch)
	wg.Wait()
	r.mu.Lock()
	for _, c := range res {
		if c != nil {
			r.cases = append(r.cases, c)
		}
	}
	r.mu.Unlock()
}

// One runs a single, sequential case (corpus entries, witnesses).
func (r *Run) One(idx int, fn func(c *Case, rng *Rng)) { r.Cases(idx, 1, 1, fn) }

func firstLine(s string) string {
	if i := strings.IndexByte(s, '\n'); i >= 0 {
		return s[:i]
	}
	return s
}

func panicSite() string {
	st := string(debug.Stack())
	for _, l := range strings.Split(st, "\n") {
		l = strings.TrimSpace(l)
		if strings.HasPrefix(l, "/repo/") {
			if i := strings.IndexByte(l, ' '); i > 0 {
				l = l[:i]
			}
			return l
		}
	}
	return "?"
}

// Catch runs f and maps a panic to an answer string.
func Catch(f func() string) (ans string) {
	defer func() {
		if p := recover(); p != nil {
			ans = "panic"
		}
	}()
	return f()
}

type caseMeta struct {
	Idx     int    `json:"idx"`
	Desc    string `json:"desc,omitempty"`
	Lines   int    `json:"lines"`
	Known   string `json:"known,omitempty"`
	Inconcl string `json:"inconclusive,omitempty"`
}

func (r *Run) finish() {
	sort.SliceStable(r.cases, func(i, j int) bool { return r.cases[i].Idx < r.cases[j].Idx })
	opsF, _ := os.Create(filepath.Join(r.OutDir, "ops.txt"))
	implF, _ := os.Create(filepath.Join(r.OutDir, "impl.txt"))
	ow, iw := bufio.NewWriter(opsF), bufio.NewWriter(implF)
	distinct := map[string]bool{}
	notes := map[string]int{}
	var metas []caseMeta
	var samples []any
	evals := 0
	lines := 0
	for _, c := range r.cases {
		if c.Inconcl != "" {
			metas = append(metas, caseMeta{Idx: c.Idx, Desc: c.Desc, Inconcl: c.Inconcl})
			notes["inconclusive"]++
			continue
		}
		evals++
		hdr := fmt.Sprintf("case %d", c.Idx)
		fmt.Fprintln(ow, hdr)
		fmt.Fprintln(iw, hdr)
		h := sha256.New()
		for i := range c.ops {
			fmt.Fprintln(ow, c.ops[i])
			fmt.Fprintln(iw, c.impl[i])
			h.Write([]byte(c.ops[i]))
			h.Write([]byte{0})
		}
		lines += len(c.ops) + 1
		if c.Nontrivial {
			distinct[hex.EncodeToString(h.Sum(nil)[:12])] = true
		}
		for k, v := range c.notes {
			notes[k] += v
		}
		metas = append(metas, caseMeta{Idx: c.Idx, Desc: c.Desc, Lines: len(c.ops), Known: c.Known})
		if len(samples) < 3 && c.Nontrivial && len(c.ops) > 0 {
			n := len(c.ops)
			if n > 12 {
				n = 12
			}
			pairs := []string{}
			for i := 0; i < n; i++ {
				pairs = append(pairs, c.ops[i]+"  =>  "+c.impl[i])
			}
			samples = append(samples, map[string]any{"case": c.Idx, "desc": c.Desc, "ops_and_impl_answers": pairs})
		}
	}
	ow.Flush()
	iw.Flush()
	opsF.Close()
	implF.Close()
	meta := map[string]any{
		"suite": r.Suite, "seed": r.Seed, "tier": r.Tier,
		"evaluations": evals, "distinct_nontrivial": len(distinct), "lines": lines,
		"rule": r.Rule, "samples": samples, "distribution": notes,
		"exhaustive": r.Exhaust, "cases": metas, "extra": r.Extra,
		"harness_wall_s": time.Since(r.start).Seconds(),
	}
	b, _ := json.MarshalIndent(meta, "", " ")
	_ = os.WriteFile(filepath.Join(r.OutDir, "meta.json"), b, 0o644)
	_ = os.RemoveAll(r.Scratch)
}

func joinInts(xs []int) string {
	if len(xs) == 0 {
		return "-"
	}
	ss := make([]string, len(xs))
	for i, x := range xs {
		ss[i] = fmt.Sprint(x)
	}
	return strings.Join(ss, ",")
}

func joinStrs(xs []string) string {
	if len(xs) == 0 {
		return "-"
	}
	return strings.Join(xs, ",")
}

// Interner maps strings to small naturals (the models compute on Nat identifiers).
type Interner struct {
	m    map[string]int
	next int
}

func NewInterner() *Interner { return &Interner{m: map[string]int{}, next: 1} }
func (in *Interner) Id(s string) int {
	if v, ok := in.m[s]; ok {
		return v
	}
	in.m[s] = in.next
	in.next++
	return in.m[s]
}
