package main

// C06 — startup order. Whole-operator runs: a real ShellOperator (package shell_operator, assembled by
// verif_export_c06.go) over kube-client/fake with a generated directory of bash hooks. Every hook
// appends one line per execution (hook, exit code, compact binding contexts) to a per-case log and exits
// as its failure script says. The observation is the global execution log.
// Faults of the enabling itself: a reactor of the fake dynamic client fails the initial LIST of a chosen
// binding's monitor (AddMonitor) in chosen attempts of a hook's EnableKubernetesBindings task (c06Injector).
// Secrets are created while the main queue works (a random trickle plus one after every failed execution).

import (
	"context"
	"encoding/json"
	"fmt"
	"io"
	"os"
	"path/filepath"
	"sort"
	"strconv"
	"strings"
	"sync"
	"syscall"
	"time"

	"github.com/deckhouse/deckhouse/pkg/log"
	"github.com/flant/kube-client/fake"
	"k8s.io/apimachinery/pkg/runtime"
	fakedynamic "k8s.io/client-go/dynamic/fake"
	clienttesting "k8s.io/client-go/testing"
	goruntime "runtime"

	"github.com/flant/shell-operator/pkg/hook/task_metadata"
	htypes "github.com/flant/shell-operator/pkg/hook/types"
	metricstorage "github.com/flant/shell-operator/pkg/metric_storage"
	shell_operator "github.com/flant/shell-operator/pkg/shell-operator"
	"github.com/flant/shell-operator/pkg/task"
	"github.com/flant/shell-operator/pkg/task/queue"
)

func init() { suites["c06"] = runC06 }

type c06Bind struct {
	name     string // b<j>
	group    int    // 0 = none
	execSync bool
	queue    string // "" = main
	secret   bool   // watches Secrets (the kind the harness creates while the operator starts)
	label    string // "": no label selector; else the binding selects c06fault=<label> (unique per binding: the
	// fault injector recognises the binding's LIST calls by it; no object carries the label)
	// option keys of a v1 binding that the property does not mention: whatever they are set to, the
	// Synchronization comes first (letters of the hook line's opts= token in brackets)
	waitSync int      // waitForSynchronization: 0 absent, 1 false [w], 2 true [W]
	keepFull bool     // keepFullObjectsInMemory: false [k]
	jq       bool     // jqFilter [j]
	onEvent  int      // 0 absent, 1 executeHookOnEvent: [Added] [a], 2 watchEvent: [Added, Modified] [m]
	snapFrom []string // includeSnapshotsFrom [i]
}

func (b *c06Bind) opts() string {
	o := ""
	switch b.waitSync {
	case 1:
		o += "w"
	case 2:
		o += "W"
	}
	if b.keepFull {
		o += "k"
	}
	if b.jq {
		o += "j"
	}
	switch b.onEvent {
	case 1:
		o += "a"
	case 2:
		o += "m"
	}
	if len(b.snapFrom) > 0 {
		o += "i"
	}
	return o
}

type c06Hook struct {
	path    string
	v1      bool
	order   *int
	kube    []c06Bind
	sched   bool
	fails   []bool // exit status of the k-th startup-type execution (true = exit 1); success when exhausted
	id      int    // 1-based rank in path order
	yaml    bool
	onlyCfg bool
	// fault sequence of the hook's EnableKubernetesBindings task: kfail[a] is the 0-based position of the binding
	// whose monitor cannot be created (the API server fails its initial LIST) in attempt a; the task is retried
	kfail []int
}

func (h *c06Hook) config(ns string) string {
	m := map[string]any{}
	if h.v1 {
		m["configVersion"] = "v1"
	}
	if h.order != nil {
		m["onStartup"] = *h.order
	}
	if len(h.kube) > 0 {
		var ks []any
		for _, b := range h.kube {
			kind := "ConfigMap"
			if b.secret {
				kind = "Secret"
			}
			if h.v1 {
				k := map[string]any{"name": b.name, "kind": kind,
					"namespace": map[string]any{"nameSelector": map[string]any{"matchNames": []string{ns}}}}
				if b.group != 0 {
					k["group"] = fmt.Sprintf("g%d", b.group)
				}
				if !b.execSync {
					k["executeHookOnSynchronization"] = false
				}
				if b.queue != "" {
					k["queue"] = b.queue
				}
				if b.label != "" {
					k["labelSelector"] = map[string]any{"matchLabels": map[string]string{"c06fault": b.label}}
				}
				switch b.waitSync {
				case 1:
					k["waitForSynchronization"] = false
				case 2:
					k["waitForSynchronization"] = true
				}
				if b.keepFull {
					k["keepFullObjectsInMemory"] = false
				}
				if b.jq {
					k["jqFilter"] = ".metadata.name"
				}
				switch b.onEvent {
				case 1:
					k["executeHookOnEvent"] = []string{"Added"}
				case 2:
					k["watchEvent"] = []string{"Added", "Modified"}
				}
				if len(b.snapFrom) > 0 {
					k["includeSnapshotsFrom"] = b.snapFrom
				}
				ks = append(ks, k)
			} else {
				// v0 bindings have no group, queue (always main) or executeHookOnSynchronization; those that
				// watch Secrets get add Events (in the main queue, behind the startup tasks), the others watch
				// a kind without objects
				if !b.secret {
					kind = "Pod"
				}
				k := map[string]any{"name": b.name, "kind": kind, "event": []string{"add"},
					"namespaceSelector": map[string]any{"matchNames": []string{ns}}}
				if b.label != "" {
					k["selector"] = map[string]any{"matchLabels": map[string]string{"c06fault": b.label}}
				}
				ks = append(ks, k)
			}
		}
		if h.v1 {
			m["kubernetes"] = ks
		} else {
			m["onKubernetesEvent"] = ks
		}
	}
	if h.sched {
		s := map[string]any{"name": "every-second", "crontab": "* * * * * *"}
		if h.v1 {
			s["queue"] = "sched-" + strconv.Itoa(h.id%3)
		}
		m["schedule"] = []any{s}
	}
	b, _ := json.Marshal(m)
	return string(b)
}

func (h *c06Hook) script(ns, stateDir, logPath string) string {
	return fmt.Sprintf(`#!/bin/bash
if [[ "$1" == "--config" ]]; then
cat <<'EOF_CFG'
%s
EOF_CFG
exit 0
fi
ctx=$(jq -c '[.[] | [(.binding // "-"), (.type // "-"), (.groupName // "-"), (.resourceEvent // .watchEvent // "-")]]' "$BINDING_CONTEXT_PATH")
code=0
if [[ "$ctx" == *'"onStartup"'* || "$ctx" == *'"Synchronization"'* || "$ctx" == *'"Group"'* ]]; then
  n=$(cat %q 2>/dev/null || echo 0)
  echo $((n+1)) > %q
  code=$(sed -n "$((n+1))p" %q)
  code=${code:-0}
fi
echo %q "$code" "$ctx" >> %q
exit $code
`, h.config(ns), filepath.Join(stateDir, "count"), filepath.Join(stateDir, "count"), filepath.Join(stateDir, "script"), h.path, logPath)
}

func c06GenHooks(rng *Rng, nHooks int, allowEvents bool) []*c06Hook {
	paths := map[string]bool{}
	var hooks []*c06Hook
	dirs := []string{"", "", "", "a/", "b/", "a/x/", "00/", "z-", "A"}
	orders := []int{1, 1, 1, 5, 5, 10, 2, 0, 100, -3}
	if rng.Chance(30) { // one single ORDER for everybody
		orders = []int{rng.Range(1, 9)}
	}
	for len(hooks) < nHooks {
		p := fmt.Sprintf("%sh%02d", PickOne(rng, dirs), rng.Intn(60))
		if rng.Chance(50) {
			p += ".sh"
		}
		if paths[p] {
			continue
		}
		paths[p] = true
		h := &c06Hook{path: p, v1: rng.Chance(85)}
		if rng.Chance(70) {
			o := PickOne(rng, orders)
			h.order = &o
		}
		split := false
		if rng.Chance(65) {
			nb := rng.Range(1, 4)
			if allowEvents && h.v1 && rng.Chance(30) {
				// the Synchronizations of the hook are delivered by SEVERAL executions, and a binding that is
				// synchronised late gets Events in a queue of its own
				h.kube = c06SplitBindings(rng)
				nb = len(h.kube)
				split = true
			}
			for j := 1; j <= nb && !split; j++ {
				b := c06Bind{name: fmt.Sprintf("b%d", j), execSync: rng.Chance(70)}
				if rng.Chance(45) {
					b.group = rng.Range(1, 2)
				}
				if rng.Chance(40) {
					b.queue = fmt.Sprintf("q%d", rng.Range(1, 3))
				}
				if allowEvents && h.v1 && b.group == 0 {
					// ungrouped bindings of other queues watch the Secrets created during the start (their
					// Event tasks never enter the main queue, which keeps the startup log deterministic)
					if b.queue == "" && rng.Chance(50) {
						b.queue = fmt.Sprintf("q%d", rng.Range(1, 3))
					}
					b.secret = b.queue != ""
				}
				if allowEvents && !h.v1 {
					b.secret = rng.Chance(50)
				}
				h.kube = append(h.kube, b)
			}
			// faults of the enabling itself: the EnableKubernetesBindings task fails 1-3 times, each time at
			// some binding (mostly not the first one: the earlier bindings of that attempt are already set up)
			if rng.Chance(30) {
				for k := rng.Range(1, 3); k > 0; k-- {
					pos := rng.Intn(nb)
					if nb >= 2 && rng.Chance(60) {
						pos = rng.Range(1, nb-1)
					}
					h.kfail = append(h.kfail, pos)
				}
			}
		}
		h.sched = rng.Chance(30)
		if h.order == nil && len(h.kube) == 0 && !h.sched {
			o := PickOne(rng, orders)
			h.order = &o
		}
		if rng.Chance(35) {
			for k := rng.Range(1, 3); k > 0; k-- {
				h.fails = append(h.fails, rng.Chance(60))
			}
		}
		if split && rng.Chance(80) {
			// a failure script long enough to reach the later executions of the hook (onStartup, the combined
			// execution, the skipped one does not count, the late Synchronizations): the retry delays of the late
			// Synchronizations are the windows in which the harness creates a Secret
			h.fails = nil
			for k := rng.Range(2, 6); k > 0; k-- {
				h.fails = append(h.fails, rng.Chance(60))
			}
		}
		hooks = append(hooks, h)
	}
	sort.Slice(hooks, func(i, j int) bool { return hooks[i].path < hooks[j].path })
	for i, h := range hooks {
		h.id = i + 1
	}
	c06LabelFaultBindings(hooks)
	c06OptionKeys(rng, hooks)
	return hooks
}

// c06OptionKeys sets, for the bindings of v1 hooks, the legal configuration keys the property does not talk about
// (its quantifier: any mix of ... synchronization flags per hook): waitForSynchronization (false mostly where the
// configuration keeps it — on a binding with a named queue —, sometimes on a main-queue binding, sometimes an
// explicit true), keepFullObjectsInMemory, jqFilter, executeHookOnEvent / watchEvent (always including Added, so the
// Secrets created during the start still produce Events), includeSnapshotsFrom (names of bindings of the same
// hook). None of them may change what is executed at start or let an Event overtake its Synchronization.
func c06OptionKeys(rng *Rng, hooks []*c06Hook) {
	for _, h := range hooks {
		if !h.v1 || len(h.kube) == 0 || rng.Chance(25) {
			continue
		}
		for i := range h.kube {
			b := &h.kube[i]
			switch {
			case b.queue != "" && rng.Chance(55):
				b.waitSync = 1
			case b.queue == "" && rng.Chance(15):
				b.waitSync = 1
			case rng.Chance(10):
				b.waitSync = 2
			}
			b.keepFull = rng.Chance(20)
			b.jq = rng.Chance(20)
			if rng.Chance(20) {
				b.onEvent = rng.Range(1, 2)
			}
			if rng.Chance(15) {
				for k := rng.Range(1, 2); k > 0; k-- {
					n := h.kube[rng.Intn(len(h.kube))].name
					dup := false
					for _, x := range b.snapFrom {
						dup = dup || x == n
					}
					if !dup {
						b.snapFrom = append(b.snapFrom, n)
					}
				}
			}
		}
	}
}

// c06SplitBindings generates the binding list of a v1 hook whose Synchronizations are spread over several
// executions of the main queue, in 2-3 segments: a segment is either a RUN that taskHandleHookRun combines into
// one execution (a grouped head with the flag true and 1-2 followers with the flag true — of the same group,
// of another group, or ungrouped with a queue of their own and watching Secrets) or ONE ungrouped binding with
// the flag true, a queue of its own, watching Secrets (never combined: synchronised by an execution of its
// own). Behind a run stands a binding with executeHookOnSynchronization=false (grouped or not): it stops the
// combination, so what follows is synchronised later. The list ends with a late Secret-watching binding.
func c06SplitBindings(rng *Rng) []c06Bind {
	var bs []c06Bind
	add := func(b c06Bind) {
		b.name = fmt.Sprintf("b%d", len(bs)+1)
		bs = append(bs, b)
	}
	late := func() c06Bind {
		return c06Bind{execSync: true, queue: fmt.Sprintf("q%d", rng.Range(1, 3)), secret: true}
	}
	lastWasRun := false
	for seg := rng.Range(2, 3); seg > 0 && len(bs) < 6; seg-- {
		if lastWasRun {
			stopper := c06Bind{execSync: false}
			if rng.Chance(40) {
				stopper.group = rng.Range(1, 2)
			}
			add(stopper)
		}
		if rng.Chance(60) {
			g := rng.Range(1, 2)
			head := c06Bind{group: g, execSync: true}
			if rng.Chance(30) {
				head.queue = fmt.Sprintf("q%d", rng.Range(1, 3))
			}
			add(head)
			for k := rng.Range(1, 2); k > 0; k-- {
				switch {
				case rng.Chance(50):
					add(c06Bind{group: g, execSync: true})
				case rng.Chance(40):
					add(c06Bind{group: 3 - g, execSync: true})
				default:
					add(late())
				}
			}
			lastWasRun = true
		} else {
			add(late())
			lastWasRun = false
		}
	}
	if lastWasRun {
		add(c06Bind{execSync: false})
		add(late())
	}
	return bs
}

// c06LabelFaultBindings gives every binding named in a fault sequence its own label selector.
func c06LabelFaultBindings(hooks []*c06Hook) {
	for _, h := range hooks {
		for _, pos := range h.kfail {
			h.kube[pos].label = fmt.Sprintf("h%db%d", h.id, pos)
		}
	}
}

// c06Injector fails the initial LIST of a binding's monitor (kubeEventsManager.AddMonitor ->
// CreateInformers -> loadExistedObjects) as the hooks' fault sequences say. The LIST calls of the
// informers' reflectors (other goroutines, same selector) are never failed.
type c06Injector struct {
	mu      sync.Mutex
	byID    map[int]*c06Hook
	attempt map[int]int
	fired   []string
}

func c06InAddMonitor() bool {
	pcs := make([]uintptr, 64)
	n := goruntime.Callers(2, pcs)
	frames := goruntime.CallersFrames(pcs[:n])
	for {
		f, more := frames.Next()
		if strings.HasSuffix(f.Function, ".AddMonitor") {
			return true
		}
		if !more {
			return false
		}
	}
}

func (in *c06Injector) react(a clienttesting.Action) (bool, runtime.Object, error) {
	la, ok := a.(clienttesting.ListAction)
	if !ok || la.GetListRestrictions().Labels == nil {
		return false, nil, nil
	}
	sel := la.GetListRestrictions().Labels.String()
	var id, pos int
	if n, _ := fmt.Sscanf(sel, "c06fault=h%db%d", &id, &pos); n != 2 || !c06InAddMonitor() {
		return false, nil, nil
	}
	in.mu.Lock()
	defer in.mu.Unlock()
	h := in.byID[id]
	if h == nil {
		return false, nil, nil
	}
	if k := in.attempt[id]; k < len(h.kfail) && h.kfail[k] == pos {
		in.attempt[id]++
		in.fired = append(in.fired, fmt.Sprintf("%d:%d", id, pos))
		return true, nil, fmt.Errorf("the server is currently unable to handle the request")
	}
	return false, nil, nil
}

func c06Materialise(ns, dir, stateRoot, logPath string, hooks []*c06Hook) error {
	for _, h := range hooks {
		p := filepath.Join(dir, h.path)
		if err := os.MkdirAll(filepath.Dir(p), 0o755); err != nil {
			return err
		}
		sd := filepath.Join(stateRoot, strconv.Itoa(h.id))
		if err := os.MkdirAll(sd, 0o755); err != nil {
			return err
		}
		var sb strings.Builder
		for _, f := range h.fails {
			if f {
				sb.WriteString("1\n")
			} else {
				sb.WriteString("0\n")
			}
		}
		if err := os.WriteFile(filepath.Join(sd, "script"), []byte(sb.String()), 0o644); err != nil {
			return err
		}
		syscall.ForkLock.RLock() // see c20.go: ETXTBSY when another case forks while the script is open
		err := os.WriteFile(p, []byte(h.script(ns, sd, logPath)), 0o755)
		syscall.ForkLock.RUnlock()
		if err != nil {
			return err
		}
	}
	return nil
}

func c06HookLine(h *c06Hook) string {
	os_ := "-"
	if h.order != nil {
		os_ = strconv.Itoa(*h.order)
	}
	var ks []string
	for _, b := range h.kube {
		e := 0
		if b.execSync {
			e = 1
		}
		q := 0
		if b.queue != "" && h.v1 {
			q, _ = strconv.Atoi(strings.TrimPrefix(b.queue, "q"))
		}
		ks = append(ks, fmt.Sprintf("%s:%d:%d:%d", strings.TrimPrefix(b.name, "b"), b.group, e, q))
	}
	fl := ""
	for _, f := range h.fails {
		if f {
			fl += "1"
		} else {
			fl += "0"
		}
	}
	if fl == "" {
		fl = "-"
	}
	v, s := 0, 0
	if h.v1 {
		v = 1
	}
	if h.sched {
		s = 1
	}
	var opt []string
	for _, b := range h.kube {
		if o := b.opts(); o != "" && h.v1 {
			opt = append(opt, strings.TrimPrefix(b.name, "b")+":"+o)
		}
	}
	return fmt.Sprintf("hook %d v=%d os=%s sched=%d fails=%s kube=%s kfail=%s opts=%s", h.id, v, os_, s, fl, joinStrs(ks), joinInts(h.kfail), joinStrs(opt))
}

type c06Exec struct {
	hook int
	code string
	ctxs []string
}

func (e c06Exec) String() string {
	return fmt.Sprintf("%d/%s/%s", e.hook, e.code, strings.Join(e.ctxs, "+"))
}

func (e c06Exec) startupType() bool {
	for _, c := range e.ctxs {
		if c == "o" || strings.HasPrefix(c, "s") || strings.HasPrefix(c, "g") {
			return true
		}
	}
	return false
}

func c06ParseLog(logPath string, byPath map[string]*c06Hook) ([]c06Exec, error) {
	b, err := os.ReadFile(logPath)
	if err != nil {
		if os.IsNotExist(err) {
			return nil, nil
		}
		return nil, err
	}
	var out []c06Exec
	for _, l := range strings.Split(strings.TrimSpace(string(b)), "\n") {
		if l == "" {
			continue
		}
		f := strings.SplitN(l, " ", 3)
		if len(f) != 3 {
			return nil, fmt.Errorf("bad log line %q", l)
		}
		h := byPath[f[0]]
		if h == nil {
			return nil, fmt.Errorf("unknown hook %q", f[0])
		}
		var raw [][]string
		if err := json.Unmarshal([]byte(f[2]), &raw); err != nil {
			return nil, fmt.Errorf("bad contexts %q", f[2])
		}
		e := c06Exec{hook: h.id, code: f[1]}
		for _, c := range raw {
			binding, typ, grp := c[0], c[1], c[2]
			num := func(s, pfx string) string { return strings.TrimPrefix(s, pfx) }
			switch {
			case binding == "onStartup":
				e.ctxs = append(e.ctxs, "o")
			case typ == "Synchronization":
				e.ctxs = append(e.ctxs, "s"+num(binding, "b"))
			case typ == "Group":
				e.ctxs = append(e.ctxs, "g"+num(grp, "g"))
			case typ == "Event":
				e.ctxs = append(e.ctxs, "e"+num(binding, "b"))
			case typ == "Schedule" || binding == "every-second":
				e.ctxs = append(e.ctxs, "c")
			case typ == "-" && strings.HasPrefix(binding, "b"):
				// the v0 rendering has no type: a context of a kubernetes binding is an Event when it carries
				// a watch event (add/update/delete) — without one it is a Synchronization
				if c[3] == "add" || c[3] == "update" || c[3] == "delete" {
					e.ctxs = append(e.ctxs, "e"+num(binding, "b"))
				} else {
					e.ctxs = append(e.ctxs, "s"+num(binding, "b"))
				}
			default:
				e.ctxs = append(e.ctxs, "x")
			}
		}
		out = append(out, e)
	}
	return out, nil
}

func c06TaskTok(t task.Task, byPath map[string]*c06Hook) string {
	hm := task_metadata.HookMetadataAccessor(t)
	id := 0
	if h := byPath[hm.HookName]; h != nil {
		id = h.id
	}
	switch t.GetType() {
	case task_metadata.HookRun:
		if hm.BindingType == htypes.OnStartup {
			return fmt.Sprintf("S%d", id)
		}
		return fmt.Sprintf("R%d", id)
	case task_metadata.EnableKubernetesBindings:
		return fmt.Sprintf("K%d", id)
	case task_metadata.EnableScheduleBindings:
		return fmt.Sprintf("C%d", id)
	}
	return "?"
}

func c06Bootstrapping(q *queue.TaskQueue) bool {
	pending := false
	q.Iterate(func(t task.Task) {
		switch t.GetType() {
		case task_metadata.EnableKubernetesBindings, task_metadata.EnableScheduleBindings:
			pending = true
		case task_metadata.HookRun:
			hm := task_metadata.HookMetadataAccessor(t)
			if hm.BindingType == htypes.OnStartup || hm.IsSynchronization() {
				pending = true
			}
		}
	})
	return pending
}

// c06Run runs one generated hook set through a real operator start.
func c06Run(r *Run, c *Case, rng *Rng, hooks []*c06Hook, events bool) {
	base := filepath.Join(r.Scratch, fmt.Sprintf("c%d", c.Idx))
	hooksDir := filepath.Join(base, "hooks")
	tmpDir := filepath.Join(base, "tmp")
	stateRoot := filepath.Join(base, "state")
	logPath := filepath.Join(base, "exec.log")
	_ = os.MkdirAll(hooksDir, 0o755)
	_ = os.MkdirAll(tmpDir, 0o755)
	defer os.RemoveAll(base)
	// the informer factories of kube_events_manager live in a process-wide store keyed by
	// (GVR, namespace, selectors) — not by client: parallel cases must not share a namespace
	ns := fmt.Sprintf("c06-%d-%d", r.Seed, c.Idx)
	if err := c06Materialise(ns, hooksDir, stateRoot, logPath, hooks); err != nil {
		c.Inconcl = "materialise: " + err.Error()
		return
	}
	byPath := map[string]*c06Hook{}
	for _, h := range hooks {
		byPath[h.path] = h
		c.Op(c06HookLine(h), "ok")
	}

	fc := fake.NewFakeCluster(fake.ClusterVersionV121)
	fc.CreateNs(ns)
	for i := rng.Intn(3); i > 0; i-- {
		fc.CreateSimpleNamespaced(ns, "ConfigMap", fmt.Sprintf("cm%d", i))
	}
	if rng.Bool() {
		fc.CreateSimpleNamespaced(ns, "Secret", "s0")
	}
	inj := &c06Injector{byID: map[int]*c06Hook{}, attempt: map[int]int{}}
	nFaults := 0
	for _, h := range hooks {
		inj.byID[h.id] = h
		nFaults += len(h.kfail)
	}
	if nFaults > 0 {
		dc, ok := fc.Client.Dynamic().(*fakedynamic.FakeDynamicClient)
		if !ok {
			c.Inconcl = "the fake cluster's dynamic client takes no reactors"
			return
		}
		dc.PrependReactor("list", "*", inj.react)
	}
	ctx, cancel := context.WithCancel(context.Background())
	defer cancel()
	ms := metricstorage.NewMetricStorage(ctx, "c06_", true, log.NewNop())
	hms := metricstorage.NewMetricStorage(ctx, "c06h_", true, log.NewNop())
	op, err := shell_operator.VerifC06Assemble(ctx, log.NewNop(), fc.Client, ms, hms, hooksDir, tmpDir)
	if err != nil {
		c.Op("assemble", "err "+firstLine(err.Error()))
		return
	}

	// 1. GetHooksInOrder(OnStartup)
	names, err := op.HookManager.GetHooksInOrder(htypes.OnStartup)
	ids := []int{}
	for _, n := range names {
		if h := byPath[n]; h != nil {
			ids = append(ids, h.id)
		} else {
			ids = append(ids, 0)
		}
	}
	if err != nil {
		c.Op("order", "err")
	} else {
		c.Op("order", joinInts(ids))
		c.Oracle("order got=" + joinInts(ids))
	}

	// 2. the bootstrapped main queue
	mainQ := op.VerifC06Bootstrap()
	var toks []string
	mainQ.Iterate(func(t task.Task) { toks = append(toks, c06TaskTok(t, byPath)) })
	c.Op("bootstrap", joinStrs(toks))
	c.Oracle("bootstrap got=" + joinStrs(toks))

	// 3. run
	op.VerifC06Run(func(q *queue.TaskQueue) {
		// the retry delay: long enough for an Event task that was (wrongly) let through after a failed
		// Synchronization to run in its own queue before the retry finishes
		q.ExponentialBackoffFn = func(int) time.Duration { return 30 * time.Millisecond }
		q.WaitLoopCheckInterval = 2 * time.Millisecond
		q.DelayOnQueueIsEmpty = 5 * time.Millisecond
		q.DelayOnRepeat = 2 * time.Millisecond
	})
	eventsDone := make(chan struct{})
	stopEvents := make(chan struct{})
	go func() {
		defer close(eventsDone)
		if !events {
			return
		}
		// Secrets appear while the main queue works through the startup tasks: the bindings that watch
		// them get Events which must not overtake their Synchronization. Two sources: a random trickle (at
		// most 40), and — coupled to the progress of the run, so that it does not depend on the speed of the
		// machine — one Secret right after every failed startup execution that shows up in the execution log:
		// a watched object changes during the retry delay of a failed Synchronization.
		erng := NewRng(rng.U64())
		create := func(name string) {
			defer func() {
				if p := recover(); p != nil && os.Getenv("C06_DEBUG") != "" {
					fmt.Fprintf(os.Stderr, "case %d: creating a Secret panicked: %v\n", c.Idx, p)
				}
			}()
			fc.CreateSimpleNamespaced(ns, "Secret", name)
		}
		var off int64
		newFailures := func() int {
			f, err := os.Open(logPath)
			if err != nil {
				return 0
			}
			defer f.Close()
			if _, err := f.Seek(off, 0); err != nil {
				return 0
			}
			b, _ := io.ReadAll(f)
			end := strings.LastIndexByte(string(b), '\n')
			if end < 0 {
				return 0
			}
			off += int64(end + 1)
			n := 0
			for _, l := range strings.Split(string(b[:end]), "\n") {
				if fs := strings.SplitN(l, " ", 3); len(fs) == 3 && fs[1] != "0" {
					n++
				}
			}
			return n
		}
		randomLeft, triggered := 40, 0
		nextRandom := time.Now().Add(time.Duration(erng.Range(10, 50)) * time.Millisecond)
		for {
			select {
			case <-stopEvents:
				return
			case <-time.After(4 * time.Millisecond):
			}
			for k := newFailures(); k > 0 && triggered < 80; k-- {
				triggered++
				create(fmt.Sprintf("evf%d", triggered))
			}
			if randomLeft > 0 && time.Now().After(nextRandom) {
				create(fmt.Sprintf("ev%d", 41-randomLeft))
				randomLeft--
				nextRandom = time.Now().Add(time.Duration(erng.Range(10, 50)) * time.Millisecond)
			}
		}
	}()
	deadline := time.Now().Add(45 * time.Second)
	finished := false
	for time.Now().Before(deadline) {
		if !c06Bootstrapping(mainQ) {
			finished = true
			break
		}
		time.Sleep(10 * time.Millisecond)
	}
	close(stopEvents)
	<-eventsDone
	if finished {
		hasSched := false
		for _, h := range hooks {
			hasSched = hasSched || h.sched
		}
		if hasSched {
			time.Sleep(1100 * time.Millisecond) // let the every-second schedules fire once
		} else if events {
			time.Sleep(300 * time.Millisecond)
		}
	}
	if os.Getenv("C06_DEBUG") == "late" {
		fc.CreateSimpleNamespaced(ns, "Secret", "late-secret")
		fc.CreateSimpleNamespaced(ns, "ConfigMap", "late-cm")
		time.Sleep(800 * time.Millisecond)
	}
	op.Shutdown()
	cancel()
	if !finished {
		c.Inconcl = "the main queue did not finish its startup tasks within 45 s"
		return
	}
	time.Sleep(30 * time.Millisecond)
	if os.Getenv("C06_DEBUG") != "" {
		b, _ := os.ReadFile(logPath)
		fmt.Fprintf(os.Stderr, "case %d ns=%s\n%s\n", c.Idx, ns, string(b))
		for _, h := range hooks {
			fmt.Fprintf(os.Stderr, "  %s %s\n", h.path, h.config(ns))
		}
	}
	execs, err := c06ParseLog(logPath, byPath)
	if err != nil {
		c.Op("run", "err "+err.Error())
		return
	}
	var startup, all []string
	nEv, nSched := 0, 0
	for _, e := range execs {
		all = append(all, e.String())
		if e.startupType() {
			startup = append(startup, e.String())
		}
		for _, x := range e.ctxs {
			if strings.HasPrefix(x, "e") {
				nEv++
			}
			if x == "c" {
				nSched++
			}
		}
	}
	if nEv > 0 {
		c.Note("has-event-executions")
	}
	if nSched > 0 {
		c.Note("has-schedule-executions")
	}
	inj.mu.Lock()
	fired := append([]string{}, inj.fired...)
	inj.mu.Unlock()
	c.Op("enablefaults", joinStrs(fired))
	c.Op("run", "log="+strings.Join(startup, ";")+";")
	c.Oracle("log " + strings.Join(all, ";") + ";")

	// in which queue did the hook runs of each binding happen? (labels of the hook_run_seconds histogram)
	var triples []string
	if mfs, err := ms.Gatherer.Gather(); err == nil {
		for _, mf := range mfs {
			if mf.GetName() != "c06_hook_run_seconds" {
				continue
			}
			for _, m := range mf.GetMetric() {
				lb := map[string]string{}
				for _, l := range m.GetLabel() {
					lb[l.GetName()] = l.GetValue()
				}
				h := byPath[lb["hook"]]
				if h == nil || m.GetHistogram().GetSampleCount() == 0 || !strings.HasPrefix(lb["binding"], "b") {
					continue
				}
				q := "0"
				if lb["queue"] != "main" {
					q = strings.TrimPrefix(lb["queue"], "q")
				}
				triples = append(triples, fmt.Sprintf("%d/%s/%s", h.id, strings.TrimPrefix(lb["binding"], "b"), q))
			}
		}
		sort.Strings(triples)
		c.Oracle("queues " + strings.Join(all, ";") + "; " + strings.Join(triples, ";") + ";")
	}
}

func c06Classify(c *Case, hooks []*c06Hook) {
	n := len(hooks)
	switch {
	case n <= 3:
		c.Note("hooks:1-3")
	case n <= 12:
		c.Note("hooks:4-12")
	default:
		c.Note("hooks:13+")
	}
	eq := map[int]int{}
	grouped, skipped, v0, fails := 0, 0, 0, 0
	kfails, kfailsLater, v0kube := 0, 0, 0
	for _, h := range hooks {
		if len(h.kfail) > 0 {
			kfails++
		}
		for _, p := range h.kfail {
			if p > 0 {
				kfailsLater++
				break
			}
		}
		if !h.v1 && len(h.kube) > 0 {
			v0kube++
		}
		if h.order != nil {
			eq[*h.order]++
		}
		if !h.v1 {
			v0++
		}
		if len(h.fails) > 0 {
			fails++
		}
		for _, b := range h.kube {
			if b.group != 0 {
				grouped++
			}
			if !b.execSync {
				skipped++
			}
		}
	}
	mx := 0
	for _, v := range eq {
		if v > mx {
			mx = v
		}
	}
	if mx >= 13 {
		c.Note("equal-ORDER>=13")
	} else if mx >= 2 {
		c.Note("equal-ORDER:2-12")
	}
	if grouped > 0 {
		c.Note("grouped-bindings")
	}
	if skipped > 0 {
		c.Note("executeHookOnSynchronization=false")
	}
	if v0 > 0 {
		c.Note("v0-hooks")
	}
	if fails > 0 {
		c.Note("scripted-failures")
	}
	if kfails > 0 {
		c.Note("enable-kubernetes-bindings-faults")
	}
	if kfailsLater > 0 {
		c.Note("enable-fault-at-a-later-binding")
	}
	if v0kube > 0 {
		c.Note("v0-hooks-with-kubernetes-bindings")
	}
	for _, h := range hooks {
		if c06LateAfterCombined(h) {
			c.Note("late-own-Synchronization-behind-a-combined-one")
			break
		}
	}
	optKeys, noWait := false, false
	for _, h := range hooks {
		for i, b := range h.kube {
			if !h.v1 {
				continue
			}
			optKeys = optKeys || b.opts() != ""
			// the configuration keeps waitForSynchronization=false (named queue), the binding gets Events during the
			// start and its Synchronization is not the hook's first startup execution or is scripted to fail
			if b.waitSync == 1 && b.queue != "" && b.secret && b.execSync && b.group == 0 && (i > 0 || h.order != nil || len(h.fails) > 0) {
				noWait = true
			}
		}
	}
	if optKeys {
		c.Note("binding-option-keys")
	}
	if noWait {
		c.Note("waitForSynchronization=false-on-a-named-queue-with-events")
	}
	c.Nontrivial = n >= 2 && (mx >= 2 || grouped > 0 || skipped > 0 || fails > 0 || kfails > 0)
}

// c06LateAfterCombined: the hook has a combined Synchronization execution (a grouped head with the flag true and
// at least one follower with the flag true) and, behind the binding that stops that combination, an ungrouped
// Secret-watching binding of another queue that is synchronised by a later execution of its own.
func c06LateAfterCombined(h *c06Hook) bool {
	if !h.v1 {
		return false
	}
	combined := false
	for i := 0; i < len(h.kube); {
		b := h.kube[i]
		j := i + 1
		if b.execSync && b.group != 0 {
			for j < len(h.kube) && h.kube[j].execSync {
				j++
			}
			if j > i+1 {
				combined = true
			}
		} else if b.execSync && b.group == 0 && b.secret && b.queue != "" && combined {
			return true
		}
		i = j
	}
	return false
}

// c06OrderOnly: hook.Manager alone, up to 200 hooks, GetHooksInOrder compared directly.
func c06OrderOnly(r *Run, c *Case, rng *Rng, n int) {
	var hooks []*c06Hook
	orders := []int{1, 1, 1, 2, 5}
	if rng.Chance(40) {
		orders = []int{7}
	}
	for i := 0; i < n; i++ {
		o := PickOne(rng, orders)
		h := &c06Hook{path: fmt.Sprintf("h%03d", i), v1: true, order: &o, id: i + 1}
		if rng.Chance(15) {
			h.order = nil
			h.sched = true
		}
		hooks = append(hooks, h)
	}
	c06Classify(c, hooks)
	c.Note("order-only")
	base := filepath.Join(r.Scratch, fmt.Sprintf("c%d", c.Idx))
	hooksDir := filepath.Join(base, "hooks")
	_ = os.MkdirAll(hooksDir, 0o755)
	_ = os.MkdirAll(filepath.Join(base, "tmp"), 0o755)
	defer os.RemoveAll(base)
	if err := c06Materialise("default", hooksDir, filepath.Join(base, "state"), filepath.Join(base, "exec.log"), hooks); err != nil {
		c.Inconcl = "materialise: " + err.Error()
		return
	}
	byPath := map[string]*c06Hook{}
	for _, h := range hooks {
		byPath[h.path] = h
		c.Op(c06HookLine(h), "ok")
	}
	ctx, cancel := context.WithCancel(context.Background())
	defer cancel()
	fc := fake.NewFakeCluster(fake.ClusterVersionV121)
	ms := metricstorage.NewMetricStorage(ctx, "c06_", true, log.NewNop())
	op, err := shell_operator.VerifC06Assemble(ctx, log.NewNop(), fc.Client, ms, ms, hooksDir, filepath.Join(base, "tmp"))
	if err != nil {
		c.Op("assemble", "err "+firstLine(err.Error()))
		return
	}
	for rep := 0; rep < 2; rep++ { // the second call sorts the already sorted slice again
		names, err := op.HookManager.GetHooksInOrder(htypes.OnStartup)
		ids := []int{}
		for _, nm := range names {
			ids = append(ids, byPath[nm].id)
		}
		if err != nil {
			c.Op("order", "err")
			return
		}
		c.Op("order", joinInts(ids))
		c.Oracle("order got=" + joinInts(ids))
	}
}

func runC06(r *Run) {
	r.Rule = "whole-operator starts: generated hook directories (1-25 bash hooks in nested paths, ORDER values drawn from a small pool so that many are equal, 30% of the cases one single ORDER; 0-4 kubernetes bindings per hook with groups g1/g2, queues, executeHookOnSynchronization true/false, and for 75% of the v1 hooks the option keys the property does not mention — waitForSynchronization false (55% of the bindings with a named queue, where the configuration keeps it, 15% of the main-queue ones) or an explicit true, keepFullObjectsInMemory=false, jqFilter, executeHookOnEvent/watchEvent, includeSnapshotsFrom —, v0 and v1 configs, every-second schedules, scripted exit codes for the first 1-3 startup executions of a hook; for 30% of the hooks with kubernetes bindings a fault sequence of the enabling itself: the EnableKubernetesBindings task fails 1-3 times, each time because the API server fails the initial LIST of one chosen binding's monitor — mostly not the first one — injected by a reactor of the fake dynamic client that recognises the binding by its own label selector) run by a real ShellOperator over kube-client/fake (ConfigMaps/Secrets present, Secrets created while the main queue runs for ungrouped bindings of other queues and for v0 bindings; 30% of the v1 hooks with kubernetes bindings in such a case get a SPLIT binding list of up to 7 bindings whose Synchronizations are spread over several executions — runs that are combined into one execution (grouped head, followers of the same/another group or ungrouped), each followed by a binding with the flag false that stops the combination, and ungrouped Secret-watching bindings of other queues that are synchronised late by executions of their own, with a failure script of 2-6 entries reaching those late executions); back-off shortened through the public queue fields. Observation: GetHooksInOrder(OnStartup), the bootstrapped main queue, the global execution log written by the hooks (v0 binding contexts have no type: one of a kubernetes binding without a watch event counts as a Synchronization), the faults that were injected. Thorough adds the exhaustive scope of one v1 hook with every list of 1-3 bindings over {no group, g1, g2} x {flag true, false} (258 starts). Plus order-only cases: hook.Manager with 13-200 onStartup hooks, GetHooksInOrder compared directly. Non-trivial: >= 2 hooks and (equal ORDER values, or grouped bindings, or a binding with executeHookOnSynchronization=false, or scripted failures); distinct = distinct hook-line sequences."
	r.CaseTimeout = 120 * time.Second
	ip := func(i int) *int { return &i }
	mk := func(hs ...*c06Hook) []*c06Hook {
		sort.Slice(hs, func(i, j int) bool { return hs[i].path < hs[j].path })
		for i, h := range hs {
			h.id = i + 1
		}
		return hs
	}
	// corpus
	r.One(0, func(c *Case, rng *Rng) {
		c.Desc = "corpus: 20 onStartup hooks, 19 with equal ORDER (repaired defect: sort.Slice is not stable above 12 elements)"
		var hs []*c06Hook
		for i := 0; i < 20; i++ {
			o := 5
			if i == 7 {
				o = 1
			}
			hs = append(hs, &c06Hook{path: fmt.Sprintf("h%02d", i), v1: true, order: ip(o)})
		}
		hs = mk(hs...)
		c06Classify(c, hs)
		c06Run(r, c, rng, hs, false)
	})
	r.One(1, func(c *Case, rng *Rng) {
		c.Desc = "corpus: grouped head Synchronization followed by an ungrouped binding with executeHookOnSynchronization=false (repaired defect: combine merged the follower and delivered its context)"
		hs := mk(&c06Hook{path: "hook.sh", v1: true, kube: []c06Bind{{name: "b1", group: 1, execSync: true}, {name: "b2", execSync: false}, {name: "b3", group: 1, execSync: true}}})
		c06Classify(c, hs)
		c.Nontrivial = true
		c06Run(r, c, rng, hs, false)
	})
	r.One(2, func(c *Case, rng *Rng) {
		c.Desc = "corpus: grouped head of one group followed by a grouped binding of another group with executeHookOnSynchronization=false; failing startup executions"
		hs := mk(
			&c06Hook{path: "a/h1", v1: true, order: ip(5), fails: []bool{true, true}, kube: []c06Bind{{name: "b1", group: 1, execSync: true}, {name: "b2", group: 2, execSync: false}}, sched: true},
			&c06Hook{path: "a.sh", v1: true, order: ip(5), kube: []c06Bind{{name: "b1", execSync: true}, {name: "b2", group: 1, execSync: true, queue: "q1"}, {name: "b3", group: 1, execSync: true}}, fails: []bool{false, true}},
			&c06Hook{path: "b", v1: false, order: ip(1), kube: []c06Bind{{name: "b1", execSync: true}}, sched: true},
		)
		c06Classify(c, hs)
		c06Run(r, c, rng, hs, false)
	})
	r.One(3, func(c *Case, rng *Rng) {
		c.Desc = "corpus: the EnableKubernetesBindings task of a hook fails at its second binding, then at its third, then succeeds; another hook's fails at its only binding twice"
		hs := mk(
			&c06Hook{path: "a.sh", v1: true, kube: []c06Bind{{name: "b1", execSync: true}, {name: "b2", execSync: true, queue: "q1"}, {name: "b3", group: 1, execSync: true}}, kfail: []int{1, 2}, sched: true},
			&c06Hook{path: "b.sh", v1: true, order: ip(1), kube: []c06Bind{{name: "b1", execSync: true}}, kfail: []int{0, 0}, fails: []bool{true}},
			&c06Hook{path: "c.sh", v1: true, kube: []c06Bind{{name: "b1", group: 2, execSync: true}, {name: "b2", group: 2, execSync: true}}, kfail: []int{1}},
		)
		c06LabelFaultBindings(hs)
		c06Classify(c, hs)
		c06Run(r, c, rng, hs, false)
	})
	r.One(4, func(c *Case, rng *Rng) {
		c.Desc = "corpus: a v0 hook with two onKubernetesEvent bindings (one of them gets add Events) between a v1 hook and a v1 hook with executeHookOnSynchronization=false"
		hs := mk(
			&c06Hook{path: "a_v1.sh", v1: true, kube: []c06Bind{{name: "b1", execSync: true}}},
			&c06Hook{path: "b_v1_off.sh", v1: true, kube: []c06Bind{{name: "b1", execSync: false}}},
			&c06Hook{path: "c_v0.sh", v1: false, order: ip(3), kube: []c06Bind{{name: "b1", execSync: true, secret: true}, {name: "b2", execSync: true}}, kfail: []int{1}},
		)
		c06LabelFaultBindings(hs)
		c06Classify(c, hs)
		c.Nontrivial = true
		c06Run(r, c, rng, hs, true)
	})
	r.One(5, func(c *Case, rng *Rng) {
		c.Desc = "corpus: two bindings of one group (one combined Group execution), a binding with executeHookOnSynchronization=false that stops the combination, then an ungrouped Secret-watching binding of another queue whose own Synchronization fails twice; Secrets are created meanwhile"
		hs := mk(
			&c06Hook{path: "a.sh", v1: true, order: ip(2), fails: []bool{false, false, true, true}, kube: []c06Bind{
				{name: "b1", group: 1, execSync: true}, {name: "b2", group: 1, execSync: true}, {name: "b3", execSync: false},
				{name: "b4", execSync: true, queue: "q1", secret: true}}},
			&c06Hook{path: "b.sh", v1: true, fails: []bool{true, false, true}, kube: []c06Bind{
				{name: "b1", group: 2, execSync: true, queue: "q2"}, {name: "b2", execSync: true, queue: "q2", secret: true}, {name: "b3", group: 1, execSync: false},
				{name: "b4", execSync: true, queue: "q3", secret: true}, {name: "b5", execSync: true, queue: "q1", secret: true}}},
		)
		c06Classify(c, hs)
		c.Nontrivial = true
		c06Run(r, c, rng, hs, true)
	})
	r.One(6, func(c *Case, rng *Rng) {
		c.Desc = "corpus: option keys the property does not mention — Secret-watching bindings of named queues with waitForSynchronization=false (kept by the configuration), keepFullObjectsInMemory=false, jqFilter, executeHookOnEvent, includeSnapshotsFrom, behind a main-queue binding whose Synchronization fails twice, and with failing Synchronizations of their own; Secrets are created meanwhile"
		hs := mk(
			&c06Hook{path: "a.sh", v1: true, order: ip(1), fails: []bool{false, true, true, false, true}, kube: []c06Bind{
				{name: "b1", execSync: true, waitSync: 1},
				{name: "b2", execSync: true, queue: "q1", secret: true, waitSync: 1},
				{name: "b3", execSync: true, queue: "q2", secret: true, waitSync: 1, keepFull: true, jq: true, onEvent: 1, snapFrom: []string{"b1"}}}},
			&c06Hook{path: "b.sh", v1: true, fails: []bool{true, false, true}, sched: true, kube: []c06Bind{
				{name: "b1", execSync: true, queue: "q3", secret: true, waitSync: 1, onEvent: 2},
				{name: "b2", group: 1, execSync: true, queue: "q1", waitSync: 1},
				{name: "b3", execSync: false, queue: "q2", secret: true, waitSync: 1},
				{name: "b4", execSync: true, queue: "q2", secret: true, waitSync: 2}}},
		)
		c06Classify(c, hs)
		c.Nontrivial = true
		c06Run(r, c, rng, hs, true)
	})
	n := r.N(48, 400)
	par := 5 // more parallel operators starve the informers: Events during startup become rare
	if v, err := strconv.Atoi(os.Getenv("C06_PAR")); err == nil && v > 0 {
		par = v
	}
	r.Cases(100, n, par, func(c *Case, rng *Rng) {
		nh := rng.Range(1, 8)
		if rng.Chance(35) {
			nh = rng.Range(13, 25)
		}
		events := rng.Chance(50)
		hooks := c06GenHooks(rng, nh, events)
		c06Classify(c, hooks)
		if events {
			c.Note("secrets-created-during-startup")
		}
		c06Run(r, c, rng, hooks, events)
	})
	if r.Thorough() {
		// exhaustive small scope: one v1 hook, every list of 1-3 kubernetes bindings over
		// group in {none, g1, g2} x executeHookOnSynchronization in {true, false}
		r.Exhaust = true
		var all [][]c06Bind
		var rec func(cur []c06Bind)
		rec = func(cur []c06Bind) {
			if len(cur) > 0 {
				all = append(all, append([]c06Bind{}, cur...))
			}
			if len(cur) == 3 {
				return
			}
			for g := 0; g <= 2; g++ {
				for _, e := range []bool{true, false} {
					rec(append(cur, c06Bind{name: fmt.Sprintf("b%d", len(cur)+1), group: g, execSync: e}))
				}
			}
		}
		rec(nil)
		r.Extra["exhaustive_cases"] = len(all)
		r.Cases(1000000, len(all), par, func(c *Case, rng *Rng) {
			hs := mk(&c06Hook{path: "hook.sh", v1: true, kube: all[c.Idx-1000000]})
			c06Classify(c, hs)
			c.Note("exhaustive")
			c.Nontrivial = true
			c06Run(r, c, rng, hs, false)
		})
	}
	m := r.N(10, 60)
	r.Cases(100000, m, 8, func(c *Case, rng *Rng) {
		nh := rng.Range(13, 60)
		if rng.Chance(30) {
			nh = rng.Range(100, 200)
		}
		c06OrderOnly(r, c, rng, nh)
	})
}
