package main

// Helpers shared by the C08 and C09 suites: canonical JSON text for protocol lines, a generator of
// small JSON values / Kubernetes-shaped objects, and the jq fragment (AST -> jq text for the real
// code, AST -> JSON encoding for the Lean driver).

import (
	"encoding/json"
	"fmt"
	"sort"
	"strings"
)

// g4CanonJSON prints v the way the Lean printer does: compact, object keys sorted (encoding/json
// sorts map keys), blanks inside strings escaped so that the text is one protocol token.
func g4CanonJSON(v any) string {
	b, err := json.Marshal(v)
	if err != nil {
		return "marshal-error"
	}
	var x any
	if err := json.Unmarshal(b, &x); err != nil { // normalises structs / typed maps / numbers
		return "unmarshal-error"
	}
	b, _ = json.Marshal(x)
	return strings.ReplaceAll(string(b), " ", "\\u0020")
}

func g4DeepCopyJSON(v map[string]any) map[string]any {
	b, _ := json.Marshal(v)
	var out map[string]any
	_ = json.Unmarshal(b, &out)
	return g4Intify(out).(map[string]any)
}

// g4Intify turns float64 whole numbers into int64 (what unstructured objects hold; DeepCopyJSON of
// apimachinery panics on int).
func g4Intify(v any) any {
	switch x := v.(type) {
	case float64:
		if x == float64(int64(x)) {
			return int64(x)
		}
		return x
	case map[string]any:
		for k, e := range x {
			x[k] = g4Intify(e)
		}
		return x
	case []any:
		for i, e := range x {
			x[i] = g4Intify(e)
		}
		return x
	}
	return v
}

// ---------------------------------------------------------------- jq fragment

type jqField struct {
	Key string
	F   *jqF
}

type jqF struct {
	Kind   string // path | lit | obj | arr | alt | comma (top level only)
	Path   []string
	Lit    any
	Fields []jqField
	Items  []*jqF
	A, B   *jqF
}

func (f *jqF) text() string {
	switch f.Kind {
	case "path":
		return g4PathText(f.Path)
	case "lit":
		b, _ := json.Marshal(f.Lit)
		s := string(b)
		if strings.HasPrefix(s, "-") {
			return "(" + s + ")"
		}
		return s
	case "obj":
		var ps []string
		for _, fl := range f.Fields {
			ps = append(ps, fl.Key+":("+fl.F.text()+")")
		}
		return "{" + strings.Join(ps, ",") + "}"
	case "arr":
		var ps []string
		for _, it := range f.Items {
			ps = append(ps, "("+it.text()+")")
		}
		return "[" + strings.Join(ps, ",") + "]"
	case "alt":
		return "(" + f.A.text() + "//" + f.B.text() + ")"
	case "comma": // top level only: several outputs
		var ps []string
		for _, it := range f.Items {
			ps = append(ps, "("+it.text()+")")
		}
		return strings.Join(ps, ",")
	}
	return "?"
}

// g4PathText: `.a.b` for keys that are identifiers; any other key (blanks, dots, ...) in the
// bracket form with a string literal: `.data["k k"]`, `.["k k"].x`.
func g4PathText(p []string) string {
	if len(p) == 0 {
		return "."
	}
	var sb strings.Builder
	for i, k := range p {
		ident := k != ""
		for j, r := range k {
			if !(r == '_' || (r >= 'a' && r <= 'z') || (r >= 'A' && r <= 'Z') || (j > 0 && r >= '0' && r <= '9')) {
				ident = false
			}
		}
		if ident {
			sb.WriteString("." + k)
			continue
		}
		b, _ := json.Marshal(k)
		if i == 0 {
			sb.WriteString(".")
		}
		sb.WriteString("[" + string(b) + "]")
	}
	return sb.String()
}

func (f *jqF) ast() any {
	switch f.Kind {
	case "path":
		p := make([]any, len(f.Path))
		for i, k := range f.Path {
			p[i] = k
		}
		return map[string]any{"p": p}
	case "lit":
		return map[string]any{"l": f.Lit}
	case "obj":
		fs := []any{}
		for _, fl := range f.Fields {
			fs = append(fs, []any{fl.Key, fl.F.ast()})
		}
		return map[string]any{"o": fs}
	case "arr":
		is := []any{}
		for _, it := range f.Items {
			is = append(is, it.ast())
		}
		return map[string]any{"a": is}
	case "alt":
		return map[string]any{"alt": []any{f.A.ast(), f.B.ast()}}
	case "comma":
		is := []any{}
		for _, it := range f.Items {
			is = append(is, it.ast())
		}
		return map[string]any{"c": is}
	}
	return nil
}

// paths collects the object paths a filter reads (first two components), for the generator's
// "inside / outside the projection" choice.
func (f *jqF) paths(acc map[string]bool) {
	switch f.Kind {
	case "path":
		if len(f.Path) == 0 {
			acc["*"] = true
		} else {
			acc[strings.Join(f.Path, ".")] = true
		}
	case "obj":
		for _, fl := range f.Fields {
			fl.F.paths(acc)
		}
	case "arr", "comma":
		for _, it := range f.Items {
			it.paths(acc)
		}
	case "alt":
		f.A.paths(acc)
		f.B.paths(acc)
	}
}

// the mutable leaves of generated objects
var g4ObjLeaves = [][]string{
	{"spec", "replicas"}, {"spec", "a"}, {"spec", "b", "c"}, {"status", "x"}, {"data", "k"}, {"metadata", "labels", "l"},
}

// filter paths: the leaves, their parents, missing keys (null result), paths through scalars
// (null.k = null, but number.k is a jq error)
var g4FilterPaths = [][]string{
	{"spec", "replicas"}, {"spec", "a"}, {"spec", "b", "c"}, {"spec", "b"}, {"spec"}, {"status", "x"}, {"status"},
	{"data", "k"}, {"data"}, {"metadata", "labels"}, {"metadata", "labels", "l"}, {"metadata", "name"},
	{"nope"}, {"spec", "nope", "deeper"}, {"spec", "replicas", "x"}, {"spec", "a", "y"}, {},
}

func g4GenLeaf(rng *Rng) any {
	switch rng.Intn(10) {
	case 0:
		return nil
	case 1:
		return rng.Bool()
	case 2:
		return PickOne(rng, []string{"x", "y", "on off"})
	case 3:
		return map[string]any{"n": int64(rng.Intn(3))}
	case 4:
		return []any{int64(rng.Intn(2)), PickOne(rng, []string{"p", "q"})}
	case 5:
		return int64(-1 - rng.Intn(2))
	default:
		return int64(rng.Intn(4))
	}
}

func g4GenLit(rng *Rng) any {
	switch rng.Intn(6) {
	case 0:
		return nil
	case 1:
		return rng.Bool()
	case 2:
		return PickOne(rng, []string{"d", "e"})
	case 3:
		return int64(-1 - rng.Intn(2))
	default:
		return int64(rng.Intn(3))
	}
}

// g4SafeFilterPaths never index into a leaf value: a filter built from them cannot fail.
var g4SafeFilterPaths = [][]string{
	{"spec", "replicas"}, {"spec", "a"}, {"spec", "b", "c"}, {"spec", "b"}, {"spec"}, {"status", "x"}, {"status"},
	{"data", "k"}, {"data"}, {"metadata", "labels"}, {"metadata", "name"}, {"nope"}, {"spec", "nope", "deeper"}, {},
}

func g4GenFilter(rng *Rng, depth int) *jqF { return g4GenProg(rng, depth, g4FilterPaths) }

// g4GenProg: one expression of the fragment, or (12%) two or three joined by `,` at top level — a
// program with several outputs, which ApplyFilterValue merges the legacy way.
func g4GenProg(rng *Rng, depth int, paths [][]string) *jqF {
	if !rng.Chance(12) {
		return g4GenFilterWith(rng, depth, paths)
	}
	f := &jqF{Kind: "comma"}
	for n := rng.Range(2, 3); n > 0; n-- {
		f.Items = append(f.Items, g4GenFilterWith(rng, depth-1, paths))
	}
	return f
}

func g4GenFilterWith(rng *Rng, depth int, paths [][]string) *jqF {
	k := rng.Intn(100)
	if depth <= 0 && k >= 60 {
		k = rng.Intn(60)
	}
	switch {
	case k < 50:
		return &jqF{Kind: "path", Path: PickOne(rng, paths)}
	case k < 60:
		return &jqF{Kind: "lit", Lit: g4GenLit(rng)}
	case k < 75:
		f := &jqF{Kind: "obj"}
		for n := rng.Intn(4); n > 0; n-- {
			f.Fields = append(f.Fields, jqField{PickOne(rng, []string{"x", "y", "z", "a"}), g4GenFilterWith(rng, depth-1, paths)})
		}
		return f
	case k < 88:
		f := &jqF{Kind: "arr"}
		for n := rng.Intn(4); n > 0; n-- {
			f.Items = append(f.Items, g4GenFilterWith(rng, depth-1, paths))
		}
		return f
	default:
		return &jqF{Kind: "alt", A: g4GenFilterWith(rng, depth-1, paths), B: g4GenFilterWith(rng, depth-1, paths)}
	}
}

// g4ResultClass classifies a rendered filter result for the input distribution.
func g4ResultClass(s string) string {
	switch {
	case s == "err":
		return "error"
	case s == "null":
		return "null"
	case strings.HasPrefix(s, "{"):
		return "object"
	case strings.HasPrefix(s, "["):
		return "array"
	default:
		return "scalar"
	}
}

func g4SetPath(obj map[string]any, p []string, v any) {
	m := obj
	for i, k := range p {
		if i == len(p)-1 {
			m[k] = v
			return
		}
		next, ok := m[k].(map[string]any)
		if !ok {
			next = map[string]any{}
			m[k] = next
		}
		m = next
	}
}

func g4DelPath(obj map[string]any, p []string) {
	m := obj
	for i, k := range p {
		if i == len(p)-1 {
			delete(m, k)
			return
		}
		next, ok := m[k].(map[string]any)
		if !ok {
			return
		}
		m = next
	}
}

// g4GenObject builds a ConfigMap-shaped object with a random subset of the leaves set.
func g4GenObject(rng *Rng, ns, name string) map[string]any {
	o := map[string]any{
		"apiVersion": "v1", "kind": "ConfigMap",
		"metadata": map[string]any{"name": name, "namespace": ns},
	}
	for _, l := range g4ObjLeaves {
		if rng.Chance(65) {
			if l[0] == "metadata" {
				g4SetPath(o, l, PickOne(rng, []string{"u", "v", "w"})) // label values stay strings
			} else {
				g4SetPath(o, l, g4GenLeaf(rng))
			}
		}
	}
	return o
}

func g4SortedKeys[V any](m map[string]V) []string {
	ks := make([]string, 0, len(m))
	for k := range m {
		ks = append(ks, k)
	}
	sort.Strings(ks)
	return ks
}

// g4CkInterner numbers checksums by first appearance (only the equality pattern is compared).
type g4CkInterner struct{ m map[string]int }

func (c *g4CkInterner) id(s string) string {
	if c.m == nil {
		c.m = map[string]int{}
	}
	if v, ok := c.m[s]; ok {
		return fmt.Sprintf("c%d", v)
	}
	c.m[s] = len(c.m) + 1
	return fmt.Sprintf("c%d", c.m[s])
}
