package main

import (
	"encoding/hex"
	"fmt"
	"strconv"
	"strings"

	objectpatch "github.com/flant/shell-operator/pkg/kube/object_patch"
	"github.com/flant/shell-operator/pkg/metric_storage/operation"
)

// Generated hook outputs for C04: the text of the metrics file and of the kubernetes patch file a
// hook leaves behind. Mostly-valid streams of JSON documents, damaged in one of several ways. Whether
// a text is a well-formed stream is NOT decided here: the Lean driver decides it from the text.

// c04Out is what one hook execution leaves behind.
type c04Out struct {
	Exit    int
	Sig     int    // > 0: the hook process does not exit, it is terminated by this signal (after writing its files)
	Metrics string // text of $METRICS_PATH ("" = left empty)
	Patch   string // text of $KUBERNETES_PATCH_PATH
	PApply  bool   // the patch operations (when the text is parsable) can be applied
	Shape   string // bucket for the distribution notes
	Bad     bool   // the generator's intent (only bounds the number of failures per task)
}

func c04Hex(s string) string {
	if s == "" {
		return "-"
	}
	return hex.EncodeToString([]byte(s))
}

func (o *c04Out) args() string {
	exit := strconv.Itoa(o.Exit)
	if o.Sig > 0 {
		exit = "sig" + strconv.Itoa(o.Sig) // how the process ended is an input; whether that is a failed run the driver decides
	}
	return fmt.Sprintf("exit=%s metrics=%s patch=%s papply=%d", exit, c04Hex(o.Metrics), c04Hex(o.Patch), c04B01(o.PApply))
}

func c04Blank(rng *Rng) string {
	return PickOne(rng, []string{"", "", "", " ", "\n", "\t", " \n ", "\r\n"})
}

func c04Num(rng *Rng) string {
	return PickOne(rng, []string{"1", "0", "-1", "2.5", "-0.25", "1e2", "3E-1", "12.5e+1", "42", "0.0"})
}

// c04MetricDocs: 1..3 valid metric operations (JSON documents) with varied spelling.
func c04MetricDocs(rng *Rng, tag string) []string {
	n := rng.Range(1, 3)
	var docs []string
	for i := 0; i < n; i++ {
		name := fmt.Sprintf("verif_%s_%d", tag, rng.Intn(4))
		b := c04Blank
		var d string
		switch rng.Intn(12) {
		case 9, 10, 11:
			// a VALID operation out of the cross product of the members the validation looks at
			ok := false
			for k := 0; k < 200 && !ok; k++ {
				d, ok = c04TableOp(rng, tag)
			}
			if !ok {
				d = fmt.Sprintf(`{"name":"%s","set":1}`, name+"_g")
			}
		case 0:
			d = fmt.Sprintf(`{%s"name"%s:%s"%s",%s"set":%s%s}`, b(rng), b(rng), b(rng), name+"_g", b(rng), c04Num(rng), b(rng))
		case 1:
			d = fmt.Sprintf(`{"name":"%s","add":%s,"labels":{"a":"b"}}`, name+"_c", PickOne(rng, []string{"1", "0", "2.5", "1e2"}))
		case 2:
			d = fmt.Sprintf(`{"name":"%s","action":"set","value":%s,"labels":{}}`, name+"_g", c04Num(rng))
		case 3:
			d = fmt.Sprintf(`{"name":"%s","action":"observe","value":%s,"buckets":[1,2.5,%s]}`, name+"_h", c04Num(rng), PickOne(rng, []string{"5", "1e1", "5.0"})) // increasing: a histogram that cannot be created is dropped silently (C16 findings)
		case 4:
			// the name carries the group: one series written by two groups stays owned by the first (C16 finding)
			g := rng.Intn(2)
			d = fmt.Sprintf(`{"group":"grp%d","name":"%s%d","action":"add","value":1,"labels":{"x":"\u0041\n\"q\""}}`, g, name+"_gc", g)
		case 5:
			d = fmt.Sprintf(`{"group":"grp%d","action":"expire"}`, rng.Intn(2))
		case 6:
			d = fmt.Sprintf(`{"Name":"%s","SET":%s,"unknown":[{"k":[true,false,null,"}"]},-0.5e-3],"labels":null,"group":null}`, name+"_g", c04Num(rng))
		case 7:
			d = fmt.Sprintf("{\n  \"name\": \"%s\",\n  \"action\": \"add\",\n  \"value\": %s,\n  \"add\": null\n}", name+"_c2", PickOne(rng, []string{"1", "0.5"}))
		default:
			d = fmt.Sprintf(`{"name":"%s","set":%s,"value":null,"buckets":null}`, name+"_g", c04Num(rng))
		}
		docs = append(docs, d)
	}
	return docs
}

// c04TableOp draws ONE metric operation from the cross product of the members that decide whether an
// operation can be applied: group (none / present) x action (set, add, observe, expire, none, unknown,
// wrong case) x name x value x buckets x the set/add shortcuts. Every member is spelled legally
// ("absent" is omitted / null / ""); only the combination decides. Most draws are supported
// combinations. The second result is the generator's INTENT (it only bounds the number of failures per
// task and picks the bucket); whether the text makes the run a failed one the Lean driver decides.
// Names depend on group and effective action, so applied operations never clash in the registry.
func c04TableOp(rng *Rng, tag string) (string, bool) {
	group := PickOne(rng, []string{"", "", "", "grp0", "grp1", "grp0"})
	action := PickOne(rng, []string{"set", "add", "observe", "expire", "set", "add", "observe", "expire", "set", "add", "observe", "expire", "", "bogus", "Observe", "EXPIRE", "Set"})
	wantsValue := action == "set" || action == "add" || action == "observe"
	hasName := rng.Chance(88)
	if action == "expire" {
		hasName = rng.Chance(30)
	}
	hasValue := rng.Chance(15)
	if wantsValue {
		hasValue = rng.Chance(90)
	}
	hasBuckets := rng.Chance(12)
	if action == "observe" {
		hasBuckets = rng.Chance(88)
	}
	set, add := false, false
	switch rng.Intn(14) {
	case 0:
		set = true
	case 1:
		add = true
	case 2:
		set, add = rng.Chance(70), true
	}
	if (set || add) && rng.Chance(60) {
		action = PickOne(rng, []string{"", "", action})
	}
	// what MetricOperationsFromReader makes of the shortcuts
	eff, effValue := action, hasValue
	if set && !add {
		eff, effValue = "set", true
	}
	if add && !set {
		eff, effValue = "add", true
	}
	valid := eff != "" && !(set && add)
	if group == "" {
		valid = valid && (eff == "set" || eff == "add" || eff == "observe") && hasName
	} else {
		valid = valid && (eff == "expire" || eff == "set" || eff == "add") && (hasName || eff == "expire")
	}
	if (eff == "set" || eff == "add" || eff == "observe") && !effValue {
		valid = false
	}
	if eff == "observe" && !hasBuckets {
		valid = false
	}
	kind := eff
	if kind != "set" && kind != "add" && kind != "observe" {
		kind = "x"
	}
	g := "u"
	if group != "" {
		g = group
	}
	var ms []string
	str := func(key, val string, has bool) {
		switch {
		case has:
			ms = append(ms, fmt.Sprintf(`"%s":"%s"`, key, val))
		case rng.Chance(25):
			ms = append(ms, fmt.Sprintf(`"%s":%s`, key, PickOne(rng, []string{`""`, "null"})))
		}
	}
	str("group", group, group != "")
	str("action", action, action != "")
	str("name", fmt.Sprintf("verif_%s_tab_%s_%s", tag, g, kind), hasName)
	num := func(key string, has bool, val string) {
		switch {
		case has:
			ms = append(ms, fmt.Sprintf(`"%s":%s`, key, val))
		case rng.Chance(20):
			ms = append(ms, fmt.Sprintf(`"%s":null`, key))
		}
	}
	num("value", hasValue, PickOne(rng, []string{"1", "0", "2.5", "1e1"}))
	num("buckets", hasBuckets, PickOne(rng, []string{"[1,2,5]", "[1,2,5]", "[1,2,5]", "[]"}))
	num("set", set, PickOne(rng, []string{"1", "0", "3.5"}))
	num("add", add, PickOne(rng, []string{"1", "2"}))
	if rng.Chance(15) {
		ms = append(ms, `"labels":{}`)
	}
	rng.Shuffle(len(ms), func(i, j int) { ms[i], ms[j] = ms[j], ms[i] })
	return "{" + strings.Join(ms, ",") + "}", valid
}

func c04Join(rng *Rng, docs []string) string {
	var b strings.Builder
	b.WriteString(c04Blank(rng))
	for i, d := range docs {
		if i > 0 {
			b.WriteString(PickOne(rng, []string{"\n", "\n", "", " ", "\n\n"}))
		}
		b.WriteString(d)
	}
	b.WriteString(PickOne(rng, []string{"\n", "\n", "", " \n"}))
	return b.String()
}

// c04Damage returns a damaged copy of a stream of documents and the name of the shape.
// kind: "m" metrics, "p" patch. Only damages whose outcome does not depend on a YAML reading are
// used for patch files (structure, not tokens).
func c04Damage(rng *Rng, docs []string, kind string) (string, string) {
	closer := PickOne(rng, []string{"}", "]", "}", "]", "}}", "]}"})
	sp := PickOne(rng, []string{"", "", " ", "\n"})
	pos := rng.Intn(len(docs) + 1)
	shapes := []string{"truncated", "stray-closer", "stray-closer", "stray-closer", "trailing-garbage", "wrong-type", "top-level-not-object", "separator"}
	if kind == "m" {
		shapes = append(shapes, "bad-token", "invalid-operation", "validation-table", "validation-table", "validation-table")
	} else {
		shapes = append(shapes, "unknown-field")
	}
	shape := PickOne(rng, shapes)
	cp := append([]string{}, docs...)
	switch shape {
	case "truncated":
		full := c04Join(rng, cp)
		t := strings.TrimRight(full, " \n\r\t")
		// cut inside the last document (at least its closing brace goes)
		last := cp[len(cp)-1]
		cut := len(t) - 1 - rng.Intn(len(last)-1)
		return t[:cut], shape
	case "stray-closer":
		// a closing brace/bracket where a document should start: before the first, between two, after the last
		var parts []string
		for i := 0; i <= len(cp); i++ {
			if i == pos {
				parts = append(parts, sp+closer+sp)
			}
			if i < len(cp) {
				parts = append(parts, cp[i])
			}
		}
		where := "middle"
		if pos == 0 {
			where = "first"
		} else if pos == len(cp) {
			where = "last"
		}
		return strings.Join(parts, PickOne(rng, []string{"", "\n"})) + PickOne(rng, []string{"", "\n", "\ngarbage after it", "\n" + cp[0]}), shape + "-" + where
	case "trailing-garbage":
		g := PickOne(rng, []string{" xyz", ",", ":", " {", " [", "\nEOF", " \"", ",\n"})
		return strings.Join(cp, "\n") + g + PickOne(rng, []string{"", "\n"}), shape
	case "wrong-type":
		i := rng.Intn(len(cp))
		if kind == "m" {
			key, val := "name", "5"
			switch rng.Intn(8) {
			case 0:
				key, val = "name", PickOne(rng, []string{"5", "[\"a\"]", "{\"a\":1}", "true"})
			case 1:
				key, val = "set", PickOne(rng, []string{"\"1\"", "[1]", "true", "{}"})
			case 2:
				key, val = "value", PickOne(rng, []string{"\"1\"", "false"})
			case 3:
				key, val = "buckets", PickOne(rng, []string{"{\"a\":1}", "[\"a\"]", "5", "[[1]]"})
			case 4:
				key, val = "labels", PickOne(rng, []string{"[\"a\"]", "{\"a\":1}", "\"a=b\"", "{\"a\":{\"b\":\"c\"}}"})
			case 5:
				key, val = "action", PickOne(rng, []string{"1", "[]"})
			case 6:
				key, val = "group", PickOne(rng, []string{"1", "false"})
			default:
				key, val = "add", PickOne(rng, []string{"\"2\"", "[]"})
			}
			// an extra member in front: the later, well-typed occurrence does not cure it
			cp[i] = "{\"" + key + "\":" + val + "," + strings.TrimLeft(cp[i], " \n\r\t")[1:]
			return c04Join(rng, cp), shape + "-" + key
		}
		val := PickOne(rng, []string{"5", "[\"CreateOrUpdate\"]", "{\"a\":1}", "null", "\"Bogus\"", "true"})
		cp[i] = strings.Replace(cp[i], "\"operation\":\"", "\"operation\":"+val+",\"kind\":\"", 1)
		return c04Join(rng, cp), shape + "-operation"
	case "top-level-not-object":
		switch rng.Intn(4) {
		case 0:
			return "[" + strings.Join(cp, ",") + "]\n", shape + "-array"
		case 1:
			return c04Join(rng, append(cp, PickOne(rng, []string{"5", "\"str\"", "true", "[]", "null"}))), shape + "-scalar"
		case 2:
			return c04Join(rng, append([]string{PickOne(rng, []string{"[1,2]", "null", "\"x\""})}, cp...)), shape + "-scalar-first"
		default:
			return c04Join(rng, append(cp, "{}")), shape + "-empty-object"
		}
	case "separator":
		return strings.Join(cp, PickOne(rng, []string{",", ",\n", " ; ", ":"})) + PickOne(rng, []string{",", ",\n"}), shape
	case "unknown-field":
		i := rng.Intn(len(cp))
		cp[i] = "{" + PickOne(rng, []string{"\"foo\":1,", "\"Operation\":\"Create\",", "\"objects\":[],"}) + cp[i][1:]
		return c04Join(rng, cp), shape
	case "bad-token":
		i := rng.Intn(len(cp))
		d := cp[i]
		switch rng.Intn(9) {
		case 0:
			d = strings.Replace(d, "\"", "'", 2)
		case 1:
			d = strings.TrimRight(d, " \n}") + ",}"
		case 2:
			d = strings.Replace(d, "{", "{\"x\":01,", 1)
		case 3:
			d = strings.Replace(d, "{", "{\"x\":\"a\\xb\",", 1)
		case 4:
			d = strings.Replace(d, "{", "{\"x\":\"a\tb\",", 1) // raw control character inside a string
		case 5:
			d = strings.Replace(d, "{", "{\"x\":"+PickOne(rng, []string{"+1", ".5", "1.", "NaN", "tru", "nul", "1e", "-", "0x10"})+",", 1)
		case 6:
			d = strings.Replace(d, "{", "{x:1,", 1)
		case 7:
			d = strings.Replace(d, ":", "=", 1)
		default:
			d = strings.Replace(d, "{", "{\"x\":\"\\u12G4\",", 1)
		}
		cp[i] = d
		return c04Join(rng, cp), shape
	case "validation-table":
		// an operation every member of which is spelled legally, but whose COMBINATION of group / action /
		// name / value / buckets / shortcuts is not supported (nothing would apply it)
		bad, ok := "", true
		for k := 0; k < 200 && ok; k++ {
			bad, ok = c04TableOp(rng, "t")
		}
		var parts []string
		for i := 0; i <= len(cp); i++ {
			if i == pos {
				parts = append(parts, bad)
			}
			if i < len(cp) {
				parts = append(parts, cp[i])
			}
		}
		return c04Join(rng, parts), shape
	default: // invalid-operation: parsable, rejected by ValidateOperations
		bad := PickOne(rng, []string{
			`{"name":"verif_x","action":"bogus","value":1}`,
			`{"name":"verif_x","value":1}`,
			`{"set":1}`,
			`{"name":"verif_x","set":1,"add":2}`,
			`{"name":"verif_x","action":"observe","value":1}`,
			`{"name":"verif_x","action":"set"}`,
			`{"name":"verif_x","action":"expire"}`,
			`{"group":"g","name":"verif_x","action":"observe","value":1,"buckets":[1]}`,
			`{"group":"g","action":"add","value":1}`,
			`{"name":"","set":1}`,
		})
		var parts []string
		for i := 0; i <= len(cp); i++ {
			if i == pos {
				parts = append(parts, bad)
			}
			if i < len(cp) {
				parts = append(parts, cp[i])
			}
		}
		return c04Join(rng, parts), "invalid-operation"
	}
}

// c04PatchDocs: 1..2 valid operation specs; the second result says whether they can be applied.
func c04PatchDocs(rng *Rng, ns string) ([]string, bool) {
	n := rng.Range(1, 2)
	var docs []string
	apply := true
	for i := 0; i < n; i++ {
		switch rng.Intn(5) {
		case 0, 1:
			docs = append(docs, fmt.Sprintf(`{"operation":"CreateOrUpdate","object":{"apiVersion":"v1","kind":"ConfigMap","metadata":{"name":"out-%d","namespace":"%s"},"data":{"a":"%d"}}}`, rng.Intn(3), ns, rng.Intn(100)))
		case 2:
			docs = append(docs, fmt.Sprintf(`{"operation":"CreateIfNotExists","object":{"apiVersion":"v1","kind":"ConfigMap","metadata":{"name":"out-%d","namespace":"%s"},"data":{"b":"]}"}}}`, rng.Intn(3), ns))
		case 3:
			docs = append(docs, fmt.Sprintf("{\n \"operation\": \"CreateOrUpdate\",\n \"object\": {\"apiVersion\": \"v1\", \"kind\": \"ConfigMap\", \"metadata\": {\"name\": \"out-%d\", \"namespace\": \"%s\"}}\n}", rng.Intn(3), ns))
		default:
			docs = append(docs, fmt.Sprintf(`{"operation":"MergePatch","kind":"ConfigMap","namespace":"%s","name":"does-not-exist","mergePatch":{"data":{"a":"b"}}}`, ns))
			apply = false
		}
	}
	return docs, apply
}

// non-zero exit codes (boundaries of the 8-bit status, the shell's own 126/127/128+n) and signals
// whose default action terminates the process
var c04ExitCodes = []int{1, 1, 2, 3, 64, 126, 127, 128, 130, 137, 143, 254, 255}
var c04Signals = []int{9, 9, 15, 15, 11, 6, 1, 2, 3, 10, 12, 13, 14, 7, 8, 4}

// c04GenOut generates what one execution leaves behind. bad = the run is meant to fail.
func c04GenOut(rng *Rng, bad bool, tag, ns string) *c04Out {
	o := &c04Out{PApply: true, Bad: bad}
	withM := rng.Chance(70)
	withP := rng.Chance(35)
	var mdocs, pdocs []string
	if withM {
		mdocs = c04MetricDocs(rng, tag)
		o.Metrics = c04Join(rng, mdocs)
	}
	if withP {
		pdocs, o.PApply = c04PatchDocs(rng, ns)
		if !bad {
			for !o.PApply {
				pdocs, o.PApply = c04PatchDocs(rng, ns)
			}
		}
		o.Patch = c04Join(rng, pdocs)
	}
	if !bad {
		o.Shape = "valid-output"
		if rng.Chance(10) {
			o.Metrics, o.Shape = PickOne(rng, []string{" \n", "\n", ""}), "blank-metrics"
		}
		return o
	}
	if withP && !o.PApply {
		o.Shape = "patch:cannot-be-applied"
		return o
	}
	switch {
	case rng.Chance(15):
		o.Exit, o.Shape = PickOne(rng, c04ExitCodes), "exit-nonzero-with-output"
	case rng.Chance(18):
		// the process is terminated by a signal (OOM killer, kill, a crash): os.ProcessState.ExitCode() is -1
		o.Sig = PickOne(rng, c04Signals)
		o.Shape = "killed-by-signal-" + strconv.Itoa(o.Sig)
	case withP && rng.Chance(50):
		o.Patch, o.Shape = c04Damage(rng, pdocs, "p")
		o.Shape = "patch:" + o.Shape
	default:
		if !withM {
			mdocs = c04MetricDocs(rng, tag)
		}
		o.Metrics, o.Shape = c04Damage(rng, mdocs, "m")
		o.Shape = "metrics:" + o.Shape
	}
	return o
}

// ---------------------------------------------------------------- part 3: the parsers alone

func c04MetricsAnswer(text string) string {
	return Catch(func() string {
		ops, err := operation.MetricOperationsFromBytes([]byte(text))
		if err != nil {
			return "err"
		}
		if operation.ValidateOperations(ops) != nil {
			return "invalid"
		}
		return fmt.Sprintf("ok n=%d", len(ops))
	})
}

func c04PatchAnswer(text string) string {
	return Catch(func() string {
		if _, err := objectpatch.ParseOperations([]byte(text)); err != nil {
			return "err"
		}
		return "ok"
	})
}

func c04Parsers(c *Case, rng *Rng, r *Run) {
	c.Desc = "output files alone: generated metrics / patch texts through MetricOperationsFromBytes+ValidateOperations / ParseOperations"
	c.Nontrivial = true
	for i := 0; i < r.N(150, 1500); i++ {
		bad := rng.Chance(75)
		mdocs := c04MetricDocs(rng, "p")
		text, shape := c04Join(rng, mdocs), "valid"
		if bad {
			text, shape = c04Damage(rng, mdocs, "m")
		}
		c.Note("metricsfile:" + shape)
		c.Op("metricsfile hex="+c04Hex(text), c04MetricsAnswer(text))
		pdocs, _ := c04PatchDocs(rng, "ns")
		text, shape = c04Join(rng, pdocs), "valid"
		if bad {
			text, shape = c04Damage(rng, pdocs, "p")
		}
		c.Note("patchfile:" + shape)
		c.Op("patchfile hex="+c04Hex(text), c04PatchAnswer(text))
		// one operation out of the validation table, supported or not
		top, valid := c04TableOp(rng, "p")
		c.Note(fmt.Sprintf("metricsfile:table-op-intended-valid=%v", valid))
		c.Op("metricsfile hex="+c04Hex(top), c04MetricsAnswer(top))
	}
}

// c04ParserCorpus: fixed texts, one per shape (and the boundary cases of the stream grammar).
func c04ParserCorpus(c *Case) {
	c.Desc = "output files alone: corpus of metrics / patch texts (every damage shape, boundary cases)"
	c.Nontrivial = true
	m := `{"name":"verif_m","set":1}`
	for _, t := range []string{"", " \n", m, m + "\n" + m, m + m, m + "}", m + "]", m + "\n}\n", m + " ] " + m, "}" + m, "]", "}", m + "}}garbage",
		m + ",", m + "," + m, "[" + m + "]", m[:len(m)-1], m[:9], m + "\n{", m + " xyz", "null", m + "null", "5", `{"name":5,"set":1}`, `{"name":"verif_m_h","action":"observe","value":1,"buckets":[1,2.5,null]}`,
		`{"name":"verif_m","set":"1"}`, `{"name":"verif_m","action":"bogus","value":1}`, `{"NAME":"verif_m","Add":1}`, `{}`,
		`{"name":"verif_m","set":1,"set":null}`, `{"name":"verif_m","set":01}`, `{"name":"verif_m","set":1,}`, `{"name":"verif_m","set":1e}`,
		"{\"name\":\"verif\tm\",\"set\":1}", `{"name":"verif_\u00e9","set":1}`, `{"name":"verif_\x","set":1}`, `{'name':'verif_m','set':1}`} {
		c.Op("metricsfile hex="+c04Hex(t), c04MetricsAnswer(t))
	}
	// the whole validation table: group x action x name x value x buckets, then the shortcuts
	for _, g := range []string{"", `"group":"g",`} {
		for _, a := range []string{"set", "add", "observe", "expire", "", "bogus", "Observe"} {
			for bits := 0; bits < 8; bits++ {
				t := "{" + g
				if a != "" {
					t += `"action":"` + a + `",`
				}
				if bits&1 != 0 {
					t += `"name":"verif_m",`
				}
				if bits&2 != 0 {
					t += `"value":1,`
				}
				if bits&4 != 0 {
					t += `"buckets":[1,2],`
				}
				t += `"labels":{}}`
				c.Op("metricsfile hex="+c04Hex(t), c04MetricsAnswer(t))
			}
			for _, sc := range []string{`"set":1`, `"add":1`, `"set":1,"add":1`, `"set":null,"add":2`} {
				for _, n := range []string{"", `"name":"verif_m",`} {
					t := "{" + g + n
					if a != "" {
						t += `"action":"` + a + `",`
					}
					t += sc + "}"
					c.Op("metricsfile hex="+c04Hex(t), c04MetricsAnswer(t))
				}
			}
		}
	}
	p := `{"operation":"CreateOrUpdate","object":{"apiVersion":"v1","kind":"ConfigMap","metadata":{"name":"x","namespace":"d"},"data":{"a":"b"}}}`
	for _, t := range []string{"", " \n", p, p + "\n" + p, p + p, p + "}", p + "]", p + "\n}\n", "}" + p, p + " ] " + p, p + ",", p + " xyz", "[" + p + "]",
		p[:len(p)-1], p[:20], p + " {", "null", "5", `{"operation":5}`, `{"operation":["x"]}`, `{"operation":"Bogus"}`, `{}`,
		`{"operation":"CreateOrUpdate","object":{"a":1},"foo":1}`, `{"Operation":"CreateOrUpdate","object":{"a":1}}`} {
		c.Op("patchfile hex="+c04Hex(t), c04PatchAnswer(t))
	}
}
