package main

import (
	"encoding/hex"
	"encoding/json"
	"fmt"
	"strings"
	"time"

	"github.com/hashicorp/go-multierror"
	admv1 "k8s.io/api/admissionregistration/v1"
	metav1 "k8s.io/apimachinery/pkg/apis/meta/v1"
	"k8s.io/apimachinery/pkg/util/validation/field"
	sigsyaml "sigs.k8s.io/yaml"

	"github.com/flant/shell-operator/pkg/app"
	"github.com/flant/shell-operator/pkg/hook/config"
	htypes "github.com/flant/shell-operator/pkg/hook/types"
	"github.com/flant/shell-operator/pkg/webhook/validating/validation"
)

func init() { suites["c10"] = runC10 }

// c10WebhookOK: the kubernetes-style validation of one webhook (fully qualified name, rules, selectors),
// timeout and duplicate names excluded (the model has those).
func c10WebhookOK(a c10Adm) bool {
	wh := &admv1.ValidatingWebhook{Name: a.Name, Rules: a.Rules, ObjectSelector: a.LabelSel, NamespaceSelector: a.NsLabelSel}
	err := validation.ValidateValidatingWebhook(wh, field.NewPath("webhooks").Index(0))
	if err == nil {
		return true
	}
	if me, ok := err.(*multierror.Error); ok {
		return me == nil || me.Len() == 0
	}
	return false
}

// ------------------------------------------------------------------ loading the real thing

type c10Loaded struct {
	out string // ok | err | panic
	msg string
	cfg *config.HookConfig
}

func c10LoadInline(data []byte) (res c10Loaded) {
	defer func() {
		if p := recover(); p != nil {
			res = c10Loaded{out: "panic", msg: firstLine(fmt.Sprint(p)) + " @ " + panicSite()}
		}
	}()
	cfg := &config.HookConfig{}
	if err := cfg.LoadAndValidate(data); err != nil {
		return c10Loaded{out: "err", msg: firstLine(err.Error())}
	}
	return c10Loaded{out: "ok", cfg: cfg}
}

// c10Load runs the real loader under recover and under a watchdog: a load that does not return within
// 30 s is the observation `hang` (its goroutine cannot be stopped and keeps spinning until the run ends).
func c10Load(data []byte) c10Loaded {
	ch := make(chan c10Loaded, 1)
	go func() { ch <- c10LoadInline(data) }()
	select {
	case r := <-ch:
		return r
	case <-time.After(30 * time.Second):
		return c10Loaded{out: "hang", msg: "LoadAndValidate did not return within 30 s"}
	}
}

type c10Eff struct {
	counts, settings, onStartup   string
	kubes, scheds, val, mut, conv []string
	typed                         string // c10Digest of the typed (decoded) document: equal for YAML and JSON
	schedCrons                    []string // the crontab text of every effective schedule, as the schedule manager will get it
}

func c10Evs(k htypes.OnKubernetesEventConfig) []string {
	var out []string
	for _, e := range k.Monitor.EventTypes {
		out = append(out, string(e))
	}
	return out
}

func c10Render(cfg *config.HookConfig) c10Eff {
	v0 := cfg.Version == "v0"
	var e c10Eff
	e.counts = fmt.Sprintf("k=%d s=%d v=%d m=%d c=%d", len(cfg.OnKubernetesEvents), len(cfg.Schedules), len(cfg.KubernetesValidating), len(cfg.KubernetesMutating), len(cfg.KubernetesConversion))
	e.settings = "~"
	if cfg.Settings != nil {
		e.settings = fmt.Sprintf("%d %d", int64(cfg.Settings.ExecutionMinInterval), cfg.Settings.ExecutionBurst)
	}
	e.onStartup = "~"
	if cfg.OnStartup != nil {
		if cfg.OnStartup.Order == float64(int64(cfg.OnStartup.Order)) && cfg.OnStartup.BindingName == "onStartup" && !cfg.OnStartup.AllowFailure {
			e.onStartup = fmt.Sprint(int64(cfg.OnStartup.Order))
		} else {
			e.onStartup = fmt.Sprintf("odd:%v/%s/%v", cfg.OnStartup.Order, cfg.OnStartup.BindingName, cfg.OnStartup.AllowFailure)
		}
	}
	for _, k := range cfg.OnKubernetesEvents {
		flags := "sync=* wait=* keep=*"
		if !v0 {
			keep := c10TokBit(k.KeepFullObjectsInMemory)
			if k.Monitor.KeepFullObjectsInMemory != k.KeepFullObjectsInMemory {
				keep = "monitor-differs"
			}
			flags = fmt.Sprintf("sync=%s wait=%s keep=%s", c10TokBit(k.ExecuteHookOnSynchronization), c10TokBit(k.WaitForSynchronization), keep)
		}
		e.kubes = append(e.kubes, fmt.Sprintf("name=%s ev=%s %s af=%s inc=%s q=%s g=%s pt=%s", c10TokStr(k.BindingName), c10TokList(c10Evs(k)), flags,
			c10TokBit(k.AllowFailure), c10TokList(k.IncludeSnapshotsFrom), c10TokStr(k.Queue), c10TokStr(k.Group), c10MonitorPT(k.Monitor)))
	}
	for _, s := range cfg.Schedules {
		e.schedCrons = append(e.schedCrons, s.ScheduleEntry.Crontab)
		e.scheds = append(e.scheds, fmt.Sprintf("name=%s c=%s af=%s inc=%s q=%s g=%s", c10TokStr(s.BindingName), c10TokCron(s.ScheduleEntry.Crontab), c10TokBit(s.AllowFailure),
			c10TokList(s.IncludeSnapshotsFrom), c10TokStr(s.Queue), c10TokStr(s.Group)))
	}
	adm := func(name, group string, incl []string, fp *admv1.FailurePolicyType, sf *admv1.SideEffectClass, to *int32, pt string, whName string) string {
		f, s, t := "nil", "nil", "nil"
		if fp != nil {
			f = string(*fp)
		}
		if sf != nil {
			s = string(*sf)
		}
		if to != nil {
			t = fmt.Sprint(*to)
		}
		if whName != name {
			name = name + "!webhook-name:" + whName
		}
		return fmt.Sprintf("name=%s inc=%s g=%s fp=%s sf=%s to=%s pt=%s", c10TokStr(name), c10TokList(incl), c10TokStr(group), c10TokStr(f), c10TokStr(s), t, pt)
	}
	for _, v := range cfg.KubernetesValidating {
		w := v.Webhook.ValidatingWebhook
		e.val = append(e.val, adm(v.BindingName, v.Group, v.IncludeSnapshotsFrom, w.FailurePolicy, w.SideEffects, w.TimeoutSeconds,
			c10Digest(c10AdmPT{Rules: w.Rules, ObjSel: c10NormLS(w.ObjectSelector), NsSel: c10NormLS(w.NamespaceSelector), MatchCond: w.MatchConditions}), w.Name))
	}
	for _, v := range cfg.KubernetesMutating {
		w := v.Webhook.MutatingWebhook
		e.mut = append(e.mut, adm(v.BindingName, v.Group, v.IncludeSnapshotsFrom, w.FailurePolicy, w.SideEffects, w.TimeoutSeconds,
			c10Digest(c10AdmPT{Rules: w.Rules, ObjSel: c10NormLS(w.ObjectSelector), NsSel: c10NormLS(w.NamespaceSelector), MatchCond: w.MatchConditions}), w.Name))
	}
	for _, c := range cfg.KubernetesConversion {
		var rs [][2]string
		rs = [][2]string{}
		for _, r := range c.Webhook.Rules {
			rs = append(rs, [2]string{r.FromVersion, r.ToVersion})
		}
		e.conv = append(e.conv, fmt.Sprintf("name=%s inc=%s g=%s pt=%s", c10TokStr(c.BindingName), c10TokList(c.IncludeSnapshotsFrom), c10TokStr(c.Group), c10Digest(c10ConvPT{c.Webhook.CrdName, rs})))
	}
	if cfg.V1 != nil {
		e.typed = c10Digest(cfg.V1)
	} else {
		e.typed = c10Digest(cfg.V0)
	}
	return e
}

func (e c10Eff) all() string {
	return c10Digest([]any{e.counts, e.settings, e.onStartup, e.kubes, e.scheds, e.val, e.mut, e.conv, e.typed})
}

func c10Bytes(m c10Omap) (y, j []byte) {
	j, _ = json.Marshal(m)
	y, _ = sigsyaml.JSONToYAML(j)
	return y, j
}

func c10LoadedDigest(l c10Loaded) string {
	if l.out != "ok" {
		return l.out
	}
	return c10Render(l.cfg).all()
}

// c10RunDoc: declaration lines, both renderings through the real loader, correspondence and oracles.
// Returns the verdict of the YAML load.
func c10RunDoc(c *Case, d c10Doc, policy string) string {
	y, j := c10Bytes(d.toMap())
	return c10RunDocBytes(c, d, policy, y, j)
}

// c10RunDocBytes: as c10RunDoc for a document given by its bytes; `d` is what the bytes declare.
func c10RunDocBytes(c *Case, d c10Doc, policy string, y, j []byte) string {
	for _, l := range d.declLines(policy) {
		c.Op(l, "ok")
	}
	ly, lj := c10Load(y), c10Load(j)
	c.Op("convert", ly.out)
	// the "rejected" clause, judged by the specification on the declared document (Spec.mustReject)
	c.Oracle("verdict out=" + ly.out)
	c.Oracle("verdict out=" + lj.out)
	c.Oracle("nopanic out=" + ly.out)
	c.Oracle("nopanic out=" + lj.out)
	if (ly.out != "ok" && ly.out != "err") || (lj.out != "ok" && lj.out != "err") {
		c.Op("panic-bytes "+hex.EncodeToString(y), ly.out+"/"+lj.out+": "+ly.msg+lj.msg)
	}
	c.Oracle(fmt.Sprintf("same yaml=%s json=%s", c10LoadedDigest(ly), c10LoadedDigest(lj)))
	// a second YAML spelling of the same document: document markers, a comment, a trailing end marker
	ly2 := c10Load([]byte("---\n# generated\n" + string(y) + "...\n"))
	c.Oracle("nopanic out=" + ly2.out)
	c.Oracle(fmt.Sprintf("same yaml=%s json=%s", c10LoadedDigest(ly2), c10LoadedDigest(lj)))
	if ly.out != "ok" {
		c.Note("verdict:" + ly.out)
		return ly.out
	}
	e := c10Render(ly.cfg)
	c.Op("eff counts", e.counts)
	c.Oracle("counts " + e.counts)
	if !d.V0 {
		c.Op("eff settings", e.settings)
		c.Oracle("settings " + func() string {
			if e.settings == "~" {
				return "~ ~"
			}
			return e.settings
		}())
	}
	c.Op("eff onstartup", e.onStartup)
	c.Oracle("onstartup " + e.onStartup)
	emit := func(kind string, items []string) {
		for i, it := range items {
			c.Op(fmt.Sprintf("eff %s %d", kind, i), it)
			c.Oracle(fmt.Sprintf("%s %d %s", kind, i, it))
		}
	}
	emit("kube", e.kubes)
	emit("sched", e.scheds)
	// "bad crontabs are rejected", on the result: the text a loaded schedule carries goes to cron.AddFunc
	// (whose error the schedule manager drops) — it must be a crontab that very library parses
	for i, ct := range e.schedCrons {
		c.Oracle(fmt.Sprintf("schedusable %d c=%s cok=%s", i, c10TokCron(ct), c10TokBit(c10ParseOK(ct))))
	}
	emit("val", e.val)
	emit("mut", e.mut)
	emit("conv", e.conv)
	c.Oracle("includes")
	c.Note("verdict:ok")
	return "ok"
}

// ------------------------------------------------------------------ generator of valid documents

func c10Bptr(b bool) *bool { return &b }
func c10Iptr(i int) *int   { return &i }

func c10GenLabelSel(rng *Rng) *metav1.LabelSelector {
	ls := &metav1.LabelSelector{}
	k := rng.Intn(3)
	if k == 0 || k == 2 {
		ls.MatchLabels = map[string]string{"app": PickOne(rng, []string{"web", "db"})}
		if rng.Chance(30) {
			ls.MatchLabels["tier"] = "front"
		}
	}
	if k == 1 || k == 2 {
		ls.MatchExpressions = []metav1.LabelSelectorRequirement{{Key: "tier", Operator: metav1.LabelSelectorOpIn, Values: []string{"a", "b"}}}
		if rng.Chance(40) {
			ls.MatchExpressions = append(ls.MatchExpressions, metav1.LabelSelectorRequirement{Key: "x", Operator: metav1.LabelSelectorOpExists})
		}
	}
	return ls
}

func c10GenEvents(rng *Rng) *[]string {
	all := []string{"Added", "Modified", "Deleted"}
	rng.Shuffle(3, func(i, j int) { all[i], all[j] = all[j], all[i] })
	n := rng.Intn(4)
	l := append([]string{}, all[:n]...)
	return &l
}

func c10OptBool(rng *Rng) *bool {
	switch rng.Intn(3) {
	case 0:
		return nil
	case 1:
		return c10Bptr(true)
	}
	return c10Bptr(false)
}

func c10GenRules(rng *Rng) []admv1.RuleWithOperations {
	sc := admv1.NamespacedScope
	r := admv1.RuleWithOperations{Operations: []admv1.OperationType{admv1.Create}, Rule: admv1.Rule{APIGroups: []string{"apps"}, APIVersions: []string{"v1"}, Resources: []string{"deployments"}}}
	if rng.Bool() {
		r.Operations = append(r.Operations, admv1.Update)
	}
	if rng.Bool() {
		r.Scope = &sc
	}
	return []admv1.RuleWithOperations{r}
}

type c10GenOpts struct{ needKube, needSched, needVal, needUniqueKubes bool }

func c10GenDoc(rng *Rng, o c10GenOpts) c10Doc {
	var d c10Doc
	nk := rng.Intn(5)
	if o.needKube && nk == 0 {
		nk = rng.Range(1, 3)
	}
	namePool := []string{"a", "b", "c", "d", "pods", "cms"}
	rng.Shuffle(len(namePool), func(i, j int) { namePool[i], namePool[j] = namePool[j], namePool[i] })
	groups := []string{"", "", "", "g1", "g2"}
	var includable []string
	unnamedUsed := false
	for i := 0; i < nk; i++ {
		k := c10Kube{Kind: PickOne(rng, []string{"Pod", "ConfigMap", "Deployment"})}
		if rng.Chance(75) || unnamedUsed {
			k.Name = namePool[i]
		} else {
			unnamedUsed = true
		}
		if k.Name != "" {
			includable = append(includable, k.Name)
		} else {
			includable = append(includable, "kubernetes")
		}
		k.ApiVersion = PickOne(rng, []string{"", "", "v1", "apps/v1", "stable.example.com/v1"})
		if rng.Chance(35) {
			k.ExecEvents = c10GenEvents(rng)
		}
		if rng.Chance(35) {
			k.WatchEvents = c10GenEvents(rng)
		}
		k.Sync, k.Wait, k.Keep, k.AllowFailure = c10OptBool(rng), c10OptBool(rng), c10OptBool(rng), c10OptBool(rng)
		if rng.Chance(30) {
			l := []string{"obj1"}
			if rng.Bool() {
				l = append(l, "obj2")
			}
			if rng.Chance(10) {
				l = []string{}
			}
			k.NameSel = &l
		}
		if rng.Chance(30) {
			k.LabelSel = c10GenLabelSel(rng)
		}
		if rng.Chance(25) {
			fe := []c10FieldExpr{{"status.phase", PickOne(rng, []string{"=", "==", "Equals", "!=", "NotEquals"}), "Running"}}
			if rng.Chance(30) && !(k.NameSel != nil && len(*k.NameSel) > 0) {
				fe = append(fe, c10FieldExpr{"metadata.name", "Equals", "x"})
			}
			k.FieldSel = &fe
		}
		if rng.Chance(30) {
			switch rng.Intn(3) {
			case 0:
				l := []string{"ns1", "ns2"}
				k.NsNames = &l
			case 1:
				k.NsLabelSel = c10GenLabelSel(rng)
			default:
				l := []string{"ns1"}
				k.NsNames = &l
				k.NsLabelSel = c10GenLabelSel(rng)
			}
		}
		if rng.Chance(30) {
			k.Jq = PickOne(rng, []string{".metadata.labels", ".spec", ".data | keys"})
		}
		if rng.Chance(15) {
			k.Resync = "10m"
		}
		k.Queue = PickOne(rng, []string{"", "", "q1", "slow"})
		k.Group = PickOne(rng, groups)
		k.ExplicitEmpty = rng.Chance(12)
		d.Kubes = append(d.Kubes, k)
	}
	// a pair of bindings with one name: legal as long as nobody refers to the name and they have no group
	if !o.needUniqueKubes && nk >= 1 && rng.Chance(10) {
		k := c10Kube{Kind: "Secret", Name: d.Kubes[0].Name}
		d.Kubes[0].Group = ""
		d.Kubes = append(d.Kubes, k)
		n := d.Kubes[0].Name
		if n == "" {
			n = "kubernetes"
		}
		var keep []string
		for _, x := range includable {
			if x != n {
				keep = append(keep, x)
			}
		}
		includable = keep
	}
	pickIncl := func() []string {
		var out []string
		for _, n := range includable {
			if rng.Chance(35) {
				out = append(out, n)
			}
		}
		rng.Shuffle(len(out), func(i, j int) { out[i], out[j] = out[j], out[i] })
		if len(out) > 0 && rng.Chance(8) {
			out = append(out, out[0])
		}
		return out
	}
	for i := range d.Kubes {
		if rng.Chance(40) {
			d.Kubes[i].Includes = pickIncl()
		}
	}
	ns := rng.Intn(4)
	if o.needSched && ns == 0 {
		ns = 1
	}
	for i := 0; i < ns; i++ {
		s := c10Sched{Crontab: PickOne(rng, []string{"* * * * *", "*/5 * * * *", "0 3 * * 1", "30 2 1 * * *", "@hourly"})}
		if rng.Chance(60) {
			s.Name = PickOne(rng, []string{"every", "nightly", "s" + fmt.Sprint(i)})
		}
		s.AllowFailure = c10OptBool(rng)
		s.Queue = PickOne(rng, []string{"", "", "q1", "crons"})
		s.Group = PickOne(rng, groups)
		if rng.Chance(50) {
			s.Includes = pickIncl()
		}
		d.Scheds = append(d.Scheds, s)
	}
	genAdm := func(i int, kind string) c10Adm {
		a := c10Adm{Name: fmt.Sprintf("%s%d.example.com", kind, i), Rules: c10GenRules(rng), Group: PickOne(rng, groups)}
		if rng.Chance(50) {
			a.Includes = pickIncl()
		}
		a.FailurePolicy = PickOne(rng, []string{"", "", "Ignore", "Fail"})
		a.SideEffects = PickOne(rng, []string{"", "", "None", "NoneOnDryRun"})
		if rng.Chance(40) {
			a.Timeout = c10Iptr(rng.Range(1, 30))
		}
		if rng.Chance(30) {
			a.LabelSel = c10GenLabelSel(rng)
		}
		if rng.Chance(30) {
			a.NsLabelSel = c10GenLabelSel(rng)
		}
		if rng.Chance(20) {
			a.MatchCond = []admv1.MatchCondition{{Name: "c1", Expression: "object.metadata.name != 'x'"}}
		}
		return a
	}
	nv := rng.Intn(3)
	if rng.Chance(50) {
		nv = 0
	}
	if o.needVal && nv == 0 {
		nv = 1
	}
	for i := 0; i < nv; i++ {
		d.Validating = append(d.Validating, genAdm(i, "val"))
	}
	if rng.Chance(25) {
		for i := 0; i < rng.Range(1, 2); i++ {
			d.Mutating = append(d.Mutating, genAdm(i, "mut"))
		}
	}
	if rng.Chance(25) {
		for i := 0; i < rng.Range(1, 2); i++ {
			c := c10Conv{Name: fmt.Sprintf("conv%d", i), CrdName: "crontabs.stable.example.com", Rules: [][2]string{{"v1alpha1", "v1beta1"}}, Group: PickOne(rng, groups)}
			if rng.Bool() {
				c.Rules = append(c.Rules, [2]string{"v1beta1", "v1"})
			}
			if rng.Chance(40) {
				c.Includes = pickIncl()
			}
			d.Convs = append(d.Convs, c)
		}
	}
	if rng.Chance(30) {
		d.Settings = &c10Settings{Interval: PickOne(rng, []string{"3s", "100ms", "1m30s", "0"}), Burst: rng.Range(0, 9)}
		if !o.needKube && !o.needSched && rng.Chance(12) {
			if rng.Bool() {
				d.Settings.NoInterval = true
			} else {
				d.Settings.NoBurst = true
			}
		}
	}
	if rng.Chance(30) {
		d.OnStartup = c10Iptr(rng.Range(-3, 40))
	}
	if len(d.Kubes)+len(d.Scheds)+len(d.Validating)+len(d.Mutating)+len(d.Convs) == 0 && d.OnStartup == nil && d.Settings == nil {
		d.OnStartup = c10Iptr(1)
	}
	return d
}

func c10GenDocV0(rng *Rng) c10Doc {
	d := c10Doc{V0: true}
	if rng.Chance(40) {
		d.OnStartup = c10Iptr(rng.Range(0, 20))
	}
	for i := 0; i < rng.Intn(3); i++ {
		s := c10Sched{Crontab: PickOne(rng, []string{"* * * * *", "*/5 * * * *"})}
		if rng.Bool() {
			s.Name = fmt.Sprintf("s%d", i)
		}
		s.AllowFailure = c10OptBool(rng)
		d.Scheds = append(d.Scheds, s)
	}
	for i := 0; i < rng.Intn(3); i++ {
		k := c10Kube0{Kind: PickOne(rng, []string{"pod", "configmap"})}
		if rng.Bool() {
			k.Name = fmt.Sprintf("k%d", i)
		}
		if rng.Chance(70) {
			all := []string{"add", "update", "delete"}
			rng.Shuffle(3, func(i, j int) { all[i], all[j] = all[j], all[i] })
			k.Events = append([]string{}, all[:rng.Intn(4)]...)
		}
		k.AllowFailure = rng.Bool()
		if rng.Chance(30) {
			k.ObjectName = "obj"
		}
		if rng.Chance(30) {
			k.Jq = ".spec"
		}
		if rng.Chance(40) {
			k.NsAny = rng.Bool()
			if rng.Bool() {
				l := []string{"ns1"}
				k.NsNames = &l
			}
		}
		if rng.Chance(30) {
			k.Selector = c10GenLabelSel(rng)
		}
		d.Kubes0 = append(d.Kubes0, k)
	}
	if d.OnStartup == nil && len(d.Scheds) == 0 && len(d.Kubes0) == 0 {
		d.OnStartup = c10Iptr(5)
	}
	return d
}

// ------------------------------------------------------------------ single-fault mutations

// typed-level faults: the mutated document is still a typed document the model can judge
var c10TypedFaults = []string{"bad-crontab", "unknown-include", "ambiguous-include", "bad-label-selector", "bad-label-key",
	"name-and-field-selector", "bad-apiversion", "bad-settings", "bad-timeout", "dup-webhook-name", "webhook-name-not-fqdn",
	"bad-ns-label-selector", "group-ambiguous-unnamed", "group-ambiguous-named", "bad-mut-ns-label-selector", "bad-mut-label-selector"}

// schema-valid but semantically invalid label selectors (FormatLabelSelector refuses them)
func c10BadLabelSels() []*metav1.LabelSelector {
	return []*metav1.LabelSelector{
		{MatchExpressions: []metav1.LabelSelectorRequirement{{Key: "env", Operator: metav1.LabelSelectorOpIn}}},
		{MatchExpressions: []metav1.LabelSelectorRequirement{{Key: "env", Operator: metav1.LabelSelectorOpNotIn, Values: []string{}}}},
		{MatchExpressions: []metav1.LabelSelectorRequirement{{Key: "env", Operator: metav1.LabelSelectorOpExists, Values: []string{"prod"}}}},
		{MatchExpressions: []metav1.LabelSelectorRequirement{{Key: "env", Operator: metav1.LabelSelectorOpDoesNotExist, Values: []string{"a", "b"}}}},
		{MatchLabels: map[string]string{"bad key!": "v"}},
		{MatchLabels: map[string]string{"ok": "v"}, MatchExpressions: []metav1.LabelSelectorRequirement{{Key: "-bad-", Operator: metav1.LabelSelectorOpExists}}},
	}
}

func c10ApplyTyped(rng *Rng, d c10Doc, fault string) c10Doc {
	badLS := &metav1.LabelSelector{MatchExpressions: []metav1.LabelSelectorRequirement{{Key: "tier", Operator: metav1.LabelSelectorOpIn}}}
	switch fault {
	case "bad-crontab":
		i := rng.Intn(len(d.Scheds))
		d.Scheds[i].Crontab = PickOne(rng, []string{"61 * * * *", "not a cron", "* * *", "* * * * * * *", "*/0 * * * *", "1-5/00 * * * *", "* * */0 * *", "0 0 1,2-3/0 * *", "* * * * * */-0", "", "@reboot", "1-0 * * * *"})
	case "unknown-include":
		switch k := rng.Intn(5); {
		case k == 0 && len(d.Kubes) > 0:
			i := rng.Intn(len(d.Kubes))
			d.Kubes[i].Includes = append(d.Kubes[i].Includes, "nope")
		case k == 1 && len(d.Validating) > 0:
			d.Validating[0].Includes = append(d.Validating[0].Includes, "nope")
		case k == 2:
			d.Mutating = append(d.Mutating, c10Adm{Name: "mutx.example.com", Rules: c10GenRules(rng), Includes: []string{"nope"}})
		case k == 3:
			d.Convs = append(d.Convs, c10Conv{Name: "convx", CrdName: "a.b.c", Rules: [][2]string{{"v1", "v2"}}, Includes: []string{"nope"}})
		default:
			i := rng.Intn(len(d.Scheds))
			d.Scheds[i].Includes = append(d.Scheds[i].Includes, "nope")
		}
	case "ambiguous-include":
		n := PickOne(rng, []string{"twin", ""})
		d.Kubes = append(d.Kubes, c10Kube{Kind: "Pod", Name: n}, c10Kube{Kind: "Secret", Name: n})
		if n == "" {
			n = "kubernetes"
		}
		if rng.Bool() {
			i := rng.Intn(len(d.Scheds))
			d.Scheds[i].Includes = append(d.Scheds[i].Includes, n)
		} else {
			d.Kubes[0].Includes = append(d.Kubes[0].Includes, n)
		}
	case "bad-label-selector":
		d.Kubes[rng.Intn(len(d.Kubes))].LabelSel = badLS
	case "bad-label-key":
		d.Kubes[rng.Intn(len(d.Kubes))].LabelSel = &metav1.LabelSelector{MatchLabels: map[string]string{"bad key!": "v"}}
	case "name-and-field-selector":
		i := rng.Intn(len(d.Kubes))
		l := []string{"obj1"}
		fe := []c10FieldExpr{{"metadata.name", "Equals", "obj1"}}
		d.Kubes[i].NameSel, d.Kubes[i].FieldSel = &l, &fe
	case "bad-apiversion":
		d.Kubes[rng.Intn(len(d.Kubes))].ApiVersion = "a/b/c"
	case "bad-settings":
		d.Settings = &c10Settings{Interval: PickOne(rng, []string{"abc", "5", "3 s"}), Burst: 1}
	case "bad-timeout":
		d.Validating[0].Timeout = c10Iptr(PickOne(rng, []int{0, 31, -1, 100}))
	case "dup-webhook-name":
		a := d.Validating[0]
		a.Includes = nil
		d.Validating = append(d.Validating, a)
	case "webhook-name-not-fqdn":
		d.Validating[0].Name = PickOne(rng, []string{"short", "two.parts", "Bad_Name.example.com"})
	case "bad-ns-label-selector":
		if rng.Bool() {
			d.Validating[0].NsLabelSel = badLS
		} else {
			d.Validating[0].LabelSel = badLS
		}
	case "bad-mut-ns-label-selector", "bad-mut-label-selector":
		// a kubernetesMutating binding has no second validation pass (ValidateValidatingWebhooks is for
		// validating bindings only): CheckAdmission alone must refuse either selector. The other selector
		// is absent or valid; the binding is a new one or an existing one.
		bad := PickOne(rng, c10BadLabelSels())
		var other *metav1.LabelSelector
		if rng.Bool() {
			other = &metav1.LabelSelector{MatchLabels: map[string]string{"app": "x"}}
		}
		if len(d.Mutating) == 0 || rng.Bool() {
			d.Mutating = append(d.Mutating, c10Adm{Name: "mutx.example.com", Rules: c10GenRules(rng)})
		}
		i := rng.Intn(len(d.Mutating))
		if fault == "bad-mut-ns-label-selector" {
			d.Mutating[i].NsLabelSel, d.Mutating[i].LabelSel = bad, other
		} else {
			d.Mutating[i].LabelSel, d.Mutating[i].NsLabelSel = bad, other
		}
	case "group-ambiguous-unnamed":
		// DESIGN §9 row 21: two unnamed kubernetes bindings in one group
		d.Kubes = append(d.Kubes, c10Kube{Kind: "Pod", Group: "gx"}, c10Kube{Kind: "Secret", Group: "gx"})
	case "group-ambiguous-named":
		d.Kubes = append(d.Kubes, c10Kube{Kind: "Pod", Name: "twin", Group: "gx"}, c10Kube{Kind: "Secret", Name: "twin", Group: PickOne(rng, []string{"gx", "gy", ""})})
	}
	return d
}

// schema-level faults: applied to the rendered map; only the verdict is judged
var c10SchemaFaults = []string{"unknown-field-top", "unknown-field-kube", "unknown-field-sched", "unknown-field-nested", "wrong-type-name",
	"wrong-type-allowfailure", "wrong-type-onstartup", "wrong-type-list", "version-v2", "version-int", "version-null", "version-empty",
	"missing-kind", "missing-crontab", "bad-event-enum", "bad-field-operator", "empty-include-list", "empty-kubernetes-list", "v1-key-in-v0",
	"string-bool", "extra-selector-prop"}

func c10ApplySchema(rng *Rng, m c10Omap, fault string) c10Omap {
	b, _ := json.Marshal(m)
	var c c10Omap
	_ = json.Unmarshal(b, &c)
	first := func(key string) c10Omap { return c[key].([]any)[0].(map[string]any) }
	switch fault {
	case "unknown-field-top":
		c[PickOne(rng, []string{"kubernets", "onStartUp", "extra"})] = PickOne(rng, []any{1, "x", []any{}, c10Omap{}})
	case "unknown-field-kube":
		first("kubernetes")[PickOne(rng, []string{"mode", "names", "watchEvents", "includeSnapshots"})] = "x"
	case "unknown-field-sched":
		first("schedule")[PickOne(rng, []string{"cron", "allowFail", "kind"})] = "x"
	case "unknown-field-nested":
		first("kubernetes")["nameSelector"] = c10Omap{"matchNames": []any{"a"}, "matchName": []any{"b"}}
	case "wrong-type-name":
		first("kubernetes")["name"] = PickOne(rng, []any{5, true, []any{"a"}})
	case "wrong-type-allowfailure":
		first("schedule")["allowFailure"] = PickOne(rng, []any{"yes", 1, "true"})
	case "wrong-type-onstartup":
		c["onStartup"] = PickOne(rng, []any{"10", true, 1.5, []any{1}})
	case "wrong-type-list":
		c[PickOne(rng, []string{"kubernetes", "schedule"})] = PickOne(rng, []any{c10Omap{"kind": "Pod"}, "x", 3})
	case "version-v2":
		c["configVersion"] = PickOne(rng, []string{"v2", "v10", "V1", "1", "v1 "})
	case "version-int":
		c["configVersion"] = PickOne(rng, []any{1, 1.0, true})
	case "version-null":
		c["configVersion"] = nil
	case "version-empty":
		c["configVersion"] = ""
	case "missing-kind":
		delete(first("kubernetes"), "kind")
	case "missing-crontab":
		delete(first("schedule"), "crontab")
	case "bad-event-enum":
		first("kubernetes")[PickOne(rng, []string{"executeHookOnEvent", "watchEvent"})] = []any{"Added", PickOne(rng, []string{"Created", "added", "Synchronization"})}
	case "bad-field-operator":
		first("kubernetes")["fieldSelector"] = c10Omap{"matchExpressions": []any{c10Omap{"field": "status.phase", "operator": PickOne(rng, []string{"In", "<", "=~"}), "value": "x"}}}
	case "empty-include-list":
		first("schedule")["includeSnapshotsFrom"] = []any{}
	case "empty-kubernetes-list":
		c["kubernetes"] = []any{}
	case "v1-key-in-v0":
		delete(c, "configVersion")
	case "string-bool":
		first("kubernetes")[PickOne(rng, []string{"keepFullObjectsInMemory", "executeHookOnSynchronization", "waitForSynchronization"})] = "false"
	case "extra-selector-prop":
		first("kubernetes")["labelSelector"] = c10Omap{"matchLabels": c10Omap{"a": "b"}, "matchExpressions": []any{}, "matchFields": []any{}}
	}
	return c
}

// ------------------------------------------------------------------ malformed byte stream (TESTING, not a theorem)

func c10Malformed(rng *Rng, base []byte) []byte {
	switch rng.Intn(12) {
	case 0: // random bytes
		b := make([]byte, rng.Range(0, 200))
		for i := range b {
			b[i] = byte(rng.Intn(256))
		}
		return b
	case 1: // random printable yaml-ish soup
		alpha := "{}[]:,-&*!|>'\"%@`#?\n\t  abckindname01.~"
		b := make([]byte, rng.Range(1, 300))
		for i := range b {
			b[i] = alpha[rng.Intn(len(alpha))]
		}
		return b
	case 2: // truncate
		if len(base) == 0 {
			return base
		}
		return append([]byte{}, base[:rng.Intn(len(base))]...)
	case 3: // flip bytes
		b := append([]byte{}, base...)
		for k := 0; k < rng.Range(1, 6) && len(b) > 0; k++ {
			b[rng.Intn(len(b))] = byte(rng.Intn(256))
		}
		return b
	case 4: // replace a scalar by null / number / list / map
		s := string(base)
		lines := strings.Split(s, "\n")
		i := rng.Intn(len(lines))
		if p := strings.Index(lines[i], ":"); p >= 0 {
			lines[i] = lines[i][:p+1] + " " + PickOne(rng, []string{"null", "~", "12345678901234567890123", "-0", "1e999", ".inf", "[]", "{}", "[[[]]]", "!!binary aGVsbG8=", "!!set {a}", "&a x", "*a", "0x1F", "0o17", "2001-12-14t21:59:43.10-05:00", "<<: {a: 1}", "? [a]", "|\n  x", "\"\\u0000\""})
		}
		return []byte(strings.Join(lines, "\n"))
	case 5: // duplicate a line / key
		lines := strings.Split(string(base), "\n")
		i := rng.Intn(len(lines))
		lines = append(lines[:i+1], lines[i:]...)
		return []byte(strings.Join(lines, "\n"))
	case 6: // deep nesting
		n := rng.Range(10, 3000)
		if rng.Bool() {
			return []byte("configVersion: v1\nkubernetes: " + strings.Repeat("[", n) + strings.Repeat("]", n))
		}
		return []byte(`{"configVersion":"v1","kubernetes":` + strings.Repeat(`{"a":`, n) + "1" + strings.Repeat("}", n) + "}")
	case 7: // top-level non-map documents
		return []byte(PickOne(rng, []string{"", "null", "~", "[]", "42", "\"x\"", "- a\n- b", "---\n---\n", "--- a\n--- b\n", "configVersion: v1\n---\nconfigVersion: v1\n", "\xef\xbb\xbfconfigVersion: v1\nonStartup: 1\n", "%YAML 1.1\n---\nconfigVersion: v1\nonStartup: 1\n", "{", "}", "\x00", "a: b: c", "? : :"}))
	case 8: // anchors, aliases, merge keys around real structure
		return []byte("x: &k\n  kind: Pod\nconfigVersion: v1\nkubernetes:\n- *k\n- <<: *k\n  name: " + PickOne(rng, []string{"a", "*k", "&k b", "!!int 5"}) + "\n")
	case 9: // nulls and wrong shapes at every level of the v1 structure
		key := PickOne(rng, []string{"kubernetes", "schedule", "kubernetesValidating", "kubernetesMutating", "kubernetesCustomResourceConversion", "settings", "onStartup", "configVersion"})
		val := PickOne(rng, []string{"null", "[null]", "[[]]", "[{}]", "{}", "[{kind: null}]", "[{crontab: null}]", "[{name: null}]", "[{kind: Pod, nameSelector: null}]", "[{kind: Pod, namespace: {nameSelector: null}}]", "[{kind: Pod, labelSelector: {matchExpressions: [null]}}]", "[{kind: Pod, fieldSelector: {matchExpressions: null}}]", "[{name: a.b.c, rules: [null]}]", "[{name: a.b.c, rules: [{operations: null}]}]", "[{name: a, crdName: b, conversions: [null]}]", "{executionMinInterval: null, executionBurst: null}", "[{kind: Pod, includeSnapshotsFrom: [null]}]", "[{kind: Pod, executeHookOnEvent: null}]", "[{crontab: '* * * * *', includeSnapshotsFrom: null}]", "[{name: a.b.c, namespace: {labelSelector: null}}]", "[{name: a.b.c, timeoutSeconds: 99999999999}]", "[{name: a.b.c, failurePolicy: null, sideEffects: null}]"})
		pre := "configVersion: v1\n"
		if key == "configVersion" {
			pre = "onStartup: 1\n"
		}
		return []byte(pre + key + ": " + val + "\n")
	case 10: // v0 shapes
		return []byte(PickOne(rng, []string{"onStartup: null", "schedule: [null]", "schedule: [{}]", "onKubernetesEvent: [null]", "onKubernetesEvent: [{event: null}]", "onKubernetesEvent: [{kind: pod, event: [null]}]", "onKubernetesEvent: [{kind: pod, namespaceSelector: null}]", "onKubernetesEvent: [{kind: pod, namespaceSelector: {any: 5}}]", "onKubernetesEvent: [{kind: pod, selector: 5}]", "schedule: [{crontab: 5}]", "schedule: [{crontab: '* * * * *', allowFailure: x}]", "onStartup: 1e3", "onStartup: 0x10", "onStartup: 9999999999999999999999", "onStartup: -0.0", "schedule: {a: b}", "onKubernetesEvent: {}"}) + "\n")
	default: // insert junk in the middle
		b := append([]byte{}, base...)
		p := 0
		if len(b) > 0 {
			p = rng.Intn(len(b))
		}
		junk := PickOne(rng, []string{"\t", "\r", "\x00", "\xff\xfe", "{{", "}}", "- -", ": :", "\n\n---\n", "'", "\"", "#", "%", "@", "`"})
		return append(append(append([]byte{}, b[:p]...), junk...), b[p:]...)
	}
}

// c10FuzzValues replaces scalars of a schema-valid document by odd values of the same JSON type: the code
// behind the schema (typed decoding, parsers, kubernetes validation, conversion) sees them. TESTING.
var c10OddStrings = map[string][]string{
	"crontab": {"*/0 * * * *", "0-59/0 * * * * *", "1-0 * * * *", "@every", "@every -1s", "@every 0s", "@every 1x", "? ? ? ? ?", "*/99999999999999999999 * * * *",
		"TZ=Nowhere * * * * *", "TZ=UTC", "1,,2 * * * *", "* * * JAN MON", "*/+0 * * * *", "*/-0 * * * *", "*/ * * * *", "/ * * * *", "*/1/2 * * * *", "1-2-3 * * * *", "@", "@@", " ", "\t* * * * *", "* * * * * *  ", "⏰ * * * *"},
	"executionMinInterval":    {"", "abc", "1h1", "-5s", "9223372036854775807ns", "9223372036854775808ns", "1e3s", ".5s", "5", "1.5h", "+3s", "3 s", "١s"},
	"apiVersion":              {"/", "a/b/c", "/v1", "v1/", " ", "apps/v1 ", "a//b", "%", "\u0000"},
	"key":                     {"", " ", "a b", "a/b/c", "/", "a/", "/a", strings.Repeat("k", 70), "k8s.io/" + strings.Repeat("n", 64), "-a", "a-", "A_b.c", "é"},
	"operator":                {"In", "NotIn", "Exists", "DoesNotExist"},
	"field":                   {"", "metadata.name", "metadata.namespace", "a=b", "a,b", "a!=b", " ", "=", "\\"},
	"value":                   {"", "a,b", "a=b", "\\", "\\,", " ", strings.Repeat("v", 300)},
	"name":                    {"", " ", "kubernetes", "schedule", "onStartup", "a b", "a\nb", "é", strings.Repeat("n", 300), "a.b.c", "A.b.c", "a..b.c", "-a.b.c", "a.b.c.", "*.b.c", "1.2.3"},
	"crdName":                 {"", "a", "a.b", " ", "/"},
	"fromVersion":             {"", "v1", "a/v1", "//"},
	"kind":                    {"", " ", "pod", "Pod/status", "*"},
	"jqFilter":                {"", ".", "..", "|", "[", ".a | error", "input", "$__loc__", "\\("},
	"resynchronizationPeriod": {"", "abc", "-1s"},
	"expression":              {"", "(", "true"},
}

func c10Odd(rng *Rng, key string, v any) any {
	switch x := v.(type) {
	case string:
		if pool, ok := c10OddStrings[key]; ok {
			return PickOne(rng, pool)
		}
		if key == "queue" || key == "group" || key == "toVersion" {
			return PickOne(rng, c10OddStrings["name"])
		}
		return x
	case float64:
		return PickOne(rng, []any{0, -1, 1, 31, 2147483647, 2147483648, -2147483649, 9007199254740993.0, 1e19, 1e-9, 1.0e2})
	}
	return v
}

func c10FuzzValues(rng *Rng, v any, key string, pct int) any {
	switch x := v.(type) {
	case map[string]any:
		for k, c := range x {
			x[k] = c10FuzzValues(rng, c, k, pct)
		}
		return x
	case []any:
		for i, c := range x {
			x[i] = c10FuzzValues(rng, c, key, pct)
		}
		if rng.Chance(3) && len(x) > 0 {
			x = append(x, x[0]) // repeat an item
		}
		return x
	case string, float64:
		if key != "configVersion" && rng.Chance(pct) {
			return c10Odd(rng, key, v)
		}
	}
	return v
}

func runC10(r *Run) {
	r.Rule = "valid stream: grammar-directed generator of typed v1 documents (0-5 kubernetes bindings with every option: name/default, apiVersion, executeHookOnEvent / watchEvent incl. [], the three synchronization/memory flags absent/true/false, name/label/field/namespace selectors, jqFilter, allowFailure, includeSnapshotsFrom, queue, group; 0-3 schedules; validating / mutating / conversion bindings; settings; onStartup; 12% v0 documents), each rendered as YAML and as JSON and loaded by the real HookConfig.LoadAndValidate; the effective config is compared item by item with the model (correspondence) and judged by the specification (oracles: verdict = the declared document has no bad crontab / invalid selector / unknown or ambiguous include or it was rejected, counts, documented defaults, group union, unambiguous effective includes, YAML = JSON, no panic). exhaustive scope: every combination (5 184) of the options that have a documented default on one kubernetes binding. fault stream: every single-fault mutation (16 typed-level kinds also judged by the model, 21 schema-level kinds) of a valid document must be rejected, in both renderings. value-fuzz stream (TESTING): schema-valid documents whose scalars are replaced by odd values of the same type (crontabs with zero / huge / negative steps, durations, label keys, field-selector values, names, int32 overflow ...) — no panic, no hang, YAML = JSON. malformed stream (TESTING, not a theorem: third-party decoders and the OpenAPI validator are outside the model): random and mutated byte strings under recover — never a panic, always error-or-config. A case is non-trivial when it is a valid document with >= 2 binding kinds and a group or include, or a fault case, or a malformed case whose bytes decode to a map; distinct = distinct op-line sequences."
	// warm the schema cache: it is an unsynchronised package-level map (the operator loads hooks sequentially)
	config.GetSchema("v0")
	config.GetSchema("v1")
	policy := app.ValidatingWebhookSettings.DefaultFailurePolicy
	if policy == "" {
		policy = "Fail"
	}
	// corpus 0: the defect of DESIGN §9 row 21 (repaired): two unnamed kubernetes bindings in one group
	r.One(0, func(c *Case, rng *Rng) {
		c.Desc = "corpus: two unnamed kubernetes bindings sharing a group (the merged include list names an ambiguous binding)"
		c.Nontrivial = true
		d := c10Doc{Kubes: []c10Kube{{Kind: "Pod", Group: "g"}, {Kind: "ConfigMap", Group: "g"}}, Scheds: []c10Sched{{Crontab: "* * * * *", Group: "g"}}}
		v := c10RunDoc(c, d, policy)
		c.Oracle("reject fault=group-ambiguous-unnamed verdict=" + v)
	})
	r.One(1, func(c *Case, rng *Rng) {
		c.Desc = "corpus: one name in two groups"
		c.Nontrivial = true
		d := c10Doc{Kubes: []c10Kube{{Kind: "Pod", Name: "a", Group: "g"}, {Kind: "ConfigMap", Name: "a", Group: "h"}}}
		v := c10RunDoc(c, d, policy)
		c.Oracle("reject fault=group-ambiguous-named verdict=" + v)
	})
	r.One(2, func(c *Case, rng *Rng) {
		c.Desc = "corpus: every default at once, [] events, priorities, group union with declared includes"
		c.Nontrivial = true
		ee, we := []string{}, []string{"Added"}
		d := c10Doc{Settings: &c10Settings{Interval: "3s", Burst: 5}, OnStartup: c10Iptr(7),
			Kubes: []c10Kube{{Kind: "Pod", Name: "a", Group: "g", ExecEvents: &ee, WatchEvents: &we, Keep: c10Bptr(false)},
				{Kind: "Pod", Name: "b", Group: "g", Queue: "q", Wait: c10Bptr(false)}, {Kind: "Pod", Wait: c10Bptr(false), Includes: []string{"a"}}},
			Scheds:     []c10Sched{{Crontab: "* * * * *", Group: "g", Includes: []string{"kubernetes", "a"}}, {Crontab: "1 * * * *", Name: "s"}},
			Validating: []c10Adm{{Name: "v.example.com", Group: "g", Rules: c10GenRules(rng)}},
			Convs:      []c10Conv{{Name: "conv", CrdName: "a.b.c", Rules: [][2]string{{"v1", "v2"}}, Includes: []string{"kubernetes"}}}}
		c10RunDoc(c, d, policy)
	})
	r.One(3, func(c *Case, rng *Rng) {
		c.Desc = "corpus: crontab with a zero step (the cron library loops forever on it)"
		c.Nontrivial = true
		for _, ct := range []string{"*/0 * * * *", "0-59/00 * * * * *"} {
			d := c10Doc{Scheds: []c10Sched{{Crontab: ct, Name: "z"}}}
			v := c10RunDoc(c, d, policy)
			c.Oracle("reject fault=bad-crontab-zero-step verdict=" + v)
			if v == "hang" {
				break // one spinning goroutine is enough
			}
		}
	})
	r.One(4, func(c *Case, rng *Rng) {
		c.Desc = "corpus: invalid selectors of admission bindings — object labelSelector / namespace.labelSelector, validating / mutating, alone and next to a valid other selector (schema-valid, refused by FormatLabelSelector); the valid twin loads"
		c.Nontrivial = true
		good := &metav1.LabelSelector{MatchLabels: map[string]string{"app": "x"}, MatchExpressions: []metav1.LabelSelectorRequirement{{Key: "env", Operator: metav1.LabelSelectorOpIn, Values: []string{"prod"}}}}
		rules := c10GenRules(rng)
		mk := func(mutating bool, obj, ns *metav1.LabelSelector) c10Doc {
			a := c10Adm{Name: "adm.example.com", Rules: rules, LabelSel: obj, NsLabelSel: ns}
			if mutating {
				return c10Doc{Mutating: []c10Adm{a}}
			}
			return c10Doc{Validating: []c10Adm{a}}
		}
		for _, mutating := range []bool{true, false} {
			kind := map[bool]string{true: "mut", false: "val"}[mutating]
			if v := c10RunDoc(c, mk(mutating, good, good), policy); v != "ok" {
				c.Oracle("reject fault=none-expected-valid verdict=ok-expected-but-" + v)
			}
			for _, bad := range c10BadLabelSels() {
				for _, other := range []*metav1.LabelSelector{nil, good} {
					c.Oracle(fmt.Sprintf("reject fault=bad-%s-ns-label-selector verdict=%s", kind, c10RunDoc(c, mk(mutating, other, bad), policy)))
					c.Oracle(fmt.Sprintf("reject fault=bad-%s-label-selector verdict=%s", kind, c10RunDoc(c, mk(mutating, bad, other), policy)))
				}
			}
		}
	})
	nValid := r.N(2500, 30000)
	r.Cases(10, nValid, 0, func(c *Case, rng *Rng) {
		var d c10Doc
		if rng.Chance(12) {
			d = c10GenDocV0(rng)
			c.Note("doc:v0")
		} else {
			d = c10GenDoc(rng, c10GenOpts{needUniqueKubes: false})
			c.Note("doc:v1")
		}
		v := c10RunDoc(c, d, policy)
		kinds := 0
		for _, n := range []int{len(d.Kubes), len(d.Scheds), len(d.Validating), len(d.Mutating), len(d.Convs)} {
			if n > 0 {
				kinds++
			}
		}
		grouped := false
		for _, k := range d.Kubes {
			if k.Group != "" || len(k.Includes) > 0 {
				grouped = true
			}
		}
		c.Nontrivial = v == "ok" && kinds >= 2 && grouped
		c.Desc = "valid document"
		if d.Settings != nil && (d.Settings.NoInterval || d.Settings.NoBurst) {
			// settings with one key only: the loader rejects it (the absent key is parsed as ""); the
			// property neither demands nor forbids that — only the model is compared
			c.Note("doc:settings-one-key")
			return
		}
		if v != "ok" {
			// a generated document is valid by construction: a rejection is reported
			c.Oracle("reject fault=none-expected-valid verdict=ok-expected-but-" + v)
		}
	})
	// exhaustive small scope: every combination of the options that have a documented default, on one
	// kubernetes binding next to a grouped neighbour and a schedule of the same group
	{
		evOpts := []*[]string{nil, {}, {"Added"}, {"Deleted", "Modified"}}
		boolOpts := []*bool{nil, c10Bptr(true), c10Bptr(false)}
		type combo struct {
			ee, we           *[]string
			sync, wait, keep *bool
			af               *bool
			queue, name      string
		}
		var combos []combo
		for _, ee := range evOpts {
			for _, we := range evOpts {
				for _, sy := range boolOpts {
					for _, wa := range boolOpts {
						for _, ke := range boolOpts {
							for _, af := range boolOpts {
								for _, q := range []string{"", "q1"} {
									for _, n := range []string{"", "a"} {
										combos = append(combos, combo{ee, we, sy, wa, ke, af, q, n})
									}
								}
							}
						}
					}
				}
			}
		}
		r.Exhaust = true
		r.Extra["exhaustive_scope"] = fmt.Sprintf("all %d combinations of executeHookOnEvent x watchEvent (absent, [], one, two) x executeHookOnSynchronization x waitForSynchronization x keepFullObjectsInMemory x allowFailure (absent, true, false) x queue x name (absent, given) on one kubernetes binding", len(combos))
		r.Cases(100000, len(combos), 0, func(c *Case, rng *Rng) {
			k := combos[c.Idx-100000]
			d := c10Doc{Kubes: []c10Kube{{Kind: "Pod", Name: k.name, ExecEvents: k.ee, WatchEvents: k.we, Sync: k.sync, Wait: k.wait, Keep: k.keep,
				AllowFailure: k.af, Queue: k.queue, Group: "g"}, {Kind: "ConfigMap", Name: "b", Group: "g"}},
				Scheds: []c10Sched{{Crontab: "* * * * *", Group: "g", AllowFailure: k.af, Queue: k.queue}}}
			c10RunDoc(c, d, policy)
			c.Nontrivial = true
			c.Note("exhaustive-options")
			c.Desc = "exhaustive option combination"
		})
	}
	nFault := r.N(1400, 14000)
	r.Cases(200000, nFault, 0, func(c *Case, rng *Rng) {
		c.Nontrivial = true
		if rng.Chance(8) {
			// v0 faults
			d := c10GenDocV0(rng)
			fault := PickOne(rng, []string{"v0-bad-event", "v0-bad-crontab", "v0-zero-step"})
			switch fault {
			case "v0-bad-event":
				d.Kubes0 = append(d.Kubes0, c10Kube0{Kind: "pod", Events: []string{"add", PickOne(rng, []string{"Added", "create", "", "ADD"})}})
			case "v0-bad-crontab":
				d.Scheds = append(d.Scheds, c10Sched{Crontab: PickOne(rng, []string{"61 * * * *", "x", "* * *"})})
			default:
				d.Scheds = append(d.Scheds, c10Sched{Crontab: PickOne(rng, []string{"*/0 * * * *", "* */00 * * *"})})
			}
			c.Desc = "typed fault " + fault
			c.Note("fault:" + fault)
			v := c10RunDoc(c, d, policy)
			c.Oracle(fmt.Sprintf("reject fault=%s verdict=%s", fault, v))
			return
		}
		if rng.Chance(45) {
			fault := c10TypedFaults[(c.Idx-200000)%len(c10TypedFaults)]
			d := c10GenDoc(rng, c10GenOpts{needKube: true, needSched: true, needVal: true, needUniqueKubes: true})
			d = c10ApplyTyped(rng, d, fault)
			c.Desc = "typed fault " + fault
			c.Note("fault:" + fault)
			v := c10RunDoc(c, d, policy)
			c.Oracle(fmt.Sprintf("reject fault=%s verdict=%s", fault, v))
			// the JSON rendering as well
			_, j := c10Bytes(d.toMap())
			c.Oracle(fmt.Sprintf("reject fault=%s-json verdict=%s", fault, c10Load(j).out))
			return
		}
		fault := c10SchemaFaults[(c.Idx-200000)%len(c10SchemaFaults)]
		d := c10GenDoc(rng, c10GenOpts{needKube: true, needSched: true})
		m := c10ApplySchema(rng, d.toMap(), fault)
		c.Desc = "schema fault " + fault
		c.Note("fault:" + fault)
		y, j := c10Bytes(m)
		for _, enc := range []struct {
			n string
			b []byte
		}{{"yaml", y}, {"json", j}} {
			l := c10Load(enc.b)
			c.Oracle("nopanic out=" + l.out)
			c.Oracle(fmt.Sprintf("reject fault=%s-%s verdict=%s", fault, enc.n, l.out))
			if l.out != "ok" && l.out != "err" {
				c.Op("panic-bytes "+hex.EncodeToString(enc.b), l.out+": "+l.msg)
			}
		}
	})
	// crontab stream: documents (v1 and v0) whose schedules carry crontabs drawn from the grammar of the cron
	// library's input — [white space] [TZ=zone] (descriptor | 5 or 6 fields) [white space] — mostly valid, or with
	// one fault; the cron library itself is the oracle bit of each text, the model and the specification judge
	// the verdict, the effective crontab must be the declared text and usable by the scheduler
	nCron := r.N(1500, 20000)
	r.Cases(600000, nCron, 0, func(c *Case, rng *Rng) {
		var d c10Doc
		if rng.Chance(20) {
			d = c10GenDocV0(rng)
			c.Note("cron-doc:v0")
		} else {
			d = c10GenDoc(rng, c10GenOpts{needSched: true, needUniqueKubes: true})
			d.Settings = nil
			c.Note("cron-doc:v1")
		}
		if len(d.Scheds) == 0 {
			d.Scheds = append(d.Scheds, c10Sched{})
		}
		bad := false
		for i := range d.Scheds {
			ct, classes := c10GenCrontab(rng)
			d.Scheds[i].Crontab = ct
			good := c10ParseOK(ct) && !c10ZeroStep(ct)
			for _, cl := range classes {
				c.Note(fmt.Sprintf("cron:%s:%v", cl, good))
			}
			if !good {
				bad = true
			}
		}
		c.Nontrivial = true
		c.Desc = "document with grammar-generated crontabs"
		v := c10RunDoc(c, d, policy)
		if bad {
			c.Oracle("reject fault=bad-crontab verdict=" + v)
		} else if v != "ok" {
			c.Oracle("reject fault=none-expected-valid verdict=ok-expected-but-" + v)
		}
	})
	nFuzz := r.N(2500, 40000)
	r.Cases(300000, nFuzz, 0, func(c *Case, rng *Rng) {
		d := c10GenDoc(rng, c10GenOpts{needKube: rng.Bool(), needSched: rng.Bool(), needVal: rng.Chance(30)})
		b, _ := json.Marshal(d.toMap())
		var m any
		_ = json.Unmarshal(b, &m)
		m = c10FuzzValues(rng, m, "", PickOne(rng, []int{4, 10, 25}))
		y, j := c10Bytes(m.(map[string]any))
		ly, lj := c10Load(y), c10Load(j)
		// a document the loader accepts must be loaded faithfully, whatever its values: read it back
		// independently and judge it item by item like a generated one
		if rd, ok := c10ReadDoc(m.(map[string]any)); ok && ly.out == "ok" && c10TokenSafe(rd) {
			c10RunDocBytes(c, rd, policy, y, j)
			c.Note("valuefuzz:ok-judged-item-by-item")
			c.Desc = "schema-valid document with odd scalar values, accepted: judged item by item"
			c.Nontrivial = true
			return
		}
		c.Oracle("nopanic out=" + ly.out)
		c.Oracle("nopanic out=" + lj.out)
		c.Oracle(fmt.Sprintf("same yaml=%s json=%s", c10LoadedDigest(ly), c10LoadedDigest(lj)))
		c.Note("valuefuzz:" + ly.out)
		c.Desc = "schema-valid document with odd scalar values (testing)"
		c.Nontrivial = true
		if (ly.out != "ok" && ly.out != "err") || (lj.out != "ok" && lj.out != "err") {
			c.Desc = strings.ToUpper(ly.out+"/"+lj.out) + " on bytes " + hex.EncodeToString(j)
			c.Op("panic-bytes "+hex.EncodeToString(j), ly.out+"/"+lj.out+": "+ly.msg+lj.msg)
		}
		c.Op("bytes "+c10Digest(string(j)), "bad-op")
	})
	nMal := r.N(6000, 120000)
	r.Cases(400000, nMal, 0, func(c *Case, rng *Rng) {
		var base []byte
		if rng.Chance(15) {
			base, _ = c10Bytes(c10GenDocV0(rng).toMap())
		} else {
			y, j := c10Bytes(c10GenDoc(rng, c10GenOpts{}).toMap())
			base = y
			if rng.Chance(30) {
				base = j
			}
		}
		b := c10Malformed(rng, base)
		l := c10Load(b)
		c.Oracle("nopanic out=" + l.out)
		c.Note("malformed:" + l.out)
		c.Desc = "malformed bytes (testing)"
		var probe map[string]any
		c.Nontrivial = sigsyaml.Unmarshal(b, &probe) == nil && len(probe) > 0
		if l.out != "ok" && l.out != "err" {
			c.Desc = strings.ToUpper(l.out) + " on bytes " + hex.EncodeToString(b)
			c.Op("panic-bytes "+hex.EncodeToString(b), l.out+": "+l.msg)
		}
		// distinct cases are counted by their op lines: carry a c10Digest of the input
		c.Op("bytes "+c10Digest(string(b)), "bad-op")
	})
}
