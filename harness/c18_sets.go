package main

// C18 (h) — a hooks DIRECTORY with several hooks, loaded by the real hook manager (Manager.Init ->
// loadHook -> `hook --config` -> Hook.LoadConfig -> CreateRateLimiter, and whatever else the manager does
// with the hooks it has loaded): "for a hook configured with I and B …; hooks without settings are not
// throttled" speaks about EVERY hook of the operator, each with its own settings, whatever the other hooks
// of the directory are called and whatever their settings are. The names of the hooks are a dimension of
// their own: relative paths that are NEAR each other (the same words joined by `/`, `-`, `_`, `.`, blanks,
// doubled separators; upper / lower case; a sub-directory against a prefix), i.e. distinct names that any
// normalisation somebody might key an index with (file-safe names, label values, lower-casing, base names)
// tends to fold together. The limiters of all hooks are then driven with explicit times, the requests of
// the hooks interleaved, and the property is checked for every hook on its own grant times.

import (
	"context"
	"fmt"
	"os"
	"path/filepath"
	"strings"
	"time"

	"github.com/deckhouse/deckhouse/pkg/log"

	metricstorage "github.com/flant/shell-operator/pkg/metric_storage"
	shell_operator "github.com/flant/shell-operator/pkg/shell-operator"
)

type c18SetHook struct {
	name      string // path relative to the hooks directory
	throttled bool
	iv        time.Duration
	b         int
	schedule  bool // a schedule binding next to onStartup
}

type c18SetScn struct {
	desc  string
	hooks []c18SetHook
	n     int    // requests (over all hooks)
	order string // how the requests are dealt to the hooks
}

func c18SetCorpus(idx int) c18SetScn {
	h1 := time.Hour
	switch idx {
	case 40:
		return c18SetScn{desc: "corpus: fast-a.sh (no settings) and fast_a.sh (1h / 2); sub/hook.sh (250ms / 1) and sub-hook.sh (no settings)",
			hooks: []c18SetHook{{name: "fast-a.sh"}, {name: "fast_a.sh", throttled: true, iv: h1, b: 2},
				{name: "sub/hook.sh", throttled: true, iv: 250 * time.Millisecond, b: 1}, {name: "sub-hook.sh"}},
			n: 48, order: "round-robin"}
	case 41:
		return c18SetScn{desc: "corpus: slow-b.sh (1h / 2) and slow_b.sh (no settings); Slow-b.sh (100ms / 3); slow.b.sh (1s / 1)",
			hooks: []c18SetHook{{name: "slow-b.sh", throttled: true, iv: h1, b: 2}, {name: "slow_b.sh"},
				{name: "Slow-b.sh", throttled: true, iv: 100 * time.Millisecond, b: 3}, {name: "slow.b.sh", throttled: true, iv: time.Second, b: 1}},
			n: 60, order: "random"}
	default:
		return c18SetScn{desc: "corpus: 001-init/run.sh (50ms / 5), 001-init-run.sh (1s / 1), 001 init run.sh (no settings), other.sh (250ms / 2)",
			hooks: []c18SetHook{{name: "001-init/run.sh", throttled: true, iv: 50 * time.Millisecond, b: 5}, {name: "001-init-run.sh", throttled: true, iv: time.Second, b: 1},
				{name: "001 init run.sh"}, {name: "other.sh", throttled: true, iv: 250 * time.Millisecond, b: 2, schedule: true}},
			n: 60, order: "blocks"}
	}
}

// c18NearNames: k distinct relative paths made of the same words with different separators / case.
func c18NearNames(rng *Rng, k int) []string {
	if rng.Chance(25) {
		// the same base name in different directories / with different extensions (keys made of the base name,
		// of the name without its extension, of the directory)
		base := PickOne(rng, []string{"hook", "run", "sync"})
		dirs := []string{"", "a/", "b/", "a/b/", "001-a/", "A/"}
		exts := []string{".sh", ".sh", ".py", ""}
		seen := map[string]bool{}
		var out []string
		for tries := 0; len(out) < k && tries < 200; tries++ {
			name := PickOne(rng, dirs) + base + PickOne(rng, exts)
			if !seen[name] {
				seen[name] = true
				out = append(out, name)
			}
		}
		return out
	}
	words := PickOne(rng, [][]string{{"fast", "a"}, {"slow", "b"}, {"sub", "hook"}, {"001", "init", "run"}, {"x", "y", "z"}, {"global", "hooks", "sync"}, {"a", "b"}})
	seps := []string{"/", "-", "_", ".", " ", "--", "__", "-_", "/", "-", "_"}
	seen := map[string]bool{}
	var out []string
	for tries := 0; len(out) < k && tries < 200; tries++ {
		var sb strings.Builder
		for i, w := range words {
			if i > 0 {
				sb.WriteString(PickOne(rng, seps))
			}
			switch rng.Intn(8) {
			case 0:
				w = strings.ToUpper(w)
			case 1:
				w = strings.ToUpper(w[:1]) + w[1:]
			}
			sb.WriteString(w)
		}
		name := sb.String() + ".sh"
		if !seen[name] {
			seen[name] = true
			out = append(out, name)
		}
	}
	return out
}

func c18SetRandom(rng *Rng, thorough bool) c18SetScn {
	scn := c18SetScn{order: PickOne(rng, []string{"round-robin", "random", "blocks"})}
	names := c18NearNames(rng, rng.Range(2, 4))
	if rng.Chance(40) {
		names = append(names, PickOne(rng, []string{"other.sh", "zz/other.sh", "0-first.sh"}))
	}
	ivs := []time.Duration{50 * time.Millisecond, 100 * time.Millisecond, 250 * time.Millisecond, 333333333 * time.Nanosecond, time.Second, 3 * time.Second, time.Minute, time.Hour}
	for _, n := range names {
		h := c18SetHook{name: n, throttled: rng.Chance(60), schedule: rng.Chance(30)}
		if h.throttled {
			h.iv, h.b = PickOne(rng, ivs), PickOne(rng, []int{1, 1, 2, 3, 5})
		}
		scn.hooks = append(scn.hooks, h)
	}
	// at least one hook with settings and one whose settings differ from it
	if !scn.hooks[0].throttled && !scn.hooks[1].throttled {
		i := rng.Intn(2)
		scn.hooks[i].throttled, scn.hooks[i].iv, scn.hooks[i].b = true, PickOne(rng, ivs), PickOne(rng, []int{1, 2, 3})
	}
	hi := 80
	if thorough {
		hi = 120
	}
	scn.n = rng.Range(30, hi)
	var ds []string
	for _, h := range scn.hooks {
		if h.throttled {
			ds = append(ds, fmt.Sprintf("%q (%v / %d)", h.name, h.iv, h.b))
		} else {
			ds = append(ds, fmt.Sprintf("%q (no settings)", h.name))
		}
	}
	scn.desc = fmt.Sprintf("%d hooks: %s; %d requests dealt %s", len(scn.hooks), strings.Join(ds, ", "), scn.n, scn.order)
	return scn
}

func c18RunSet(r *Run, c *Case, scn c18SetScn, rng *Rng) {
	c.Desc = "hooks directory: " + scn.desc
	dir := filepath.Join(r.Scratch, fmt.Sprintf("c18-set-%d", c.Idx))
	hooksDir, tmp := filepath.Join(dir, "hooks"), filepath.Join(dir, "tmp")
	_ = os.MkdirAll(tmp, 0o755)
	defer os.RemoveAll(dir)
	for hi, h := range scn.hooks {
		var cfg strings.Builder
		cfg.WriteString("configVersion: v1\n")
		if h.throttled {
			fmt.Fprintf(&cfg, "settings:\n  executionMinInterval: %s\n  executionBurst: %d\n", h.iv.String(), h.b)
		}
		cfg.WriteString("onStartup: 1\n")
		if h.schedule {
			fmt.Fprintf(&cfg, "schedule:\n- name: never-%d\n  crontab: \"%d 3 1 1 *\"\n", hi, hi)
		}
		p := filepath.Join(hooksDir, filepath.FromSlash(h.name))
		_ = os.MkdirAll(filepath.Dir(p), 0o755)
		script := "#!/bin/bash\nif [[ \"${1:-}\" == \"--config\" ]]; then\ncat <<'EOF'\n" + cfg.String() + "EOF\nexit 0\nfi\nexit 0\n"
		_ = writeScript(p, []byte(script), 0o755)
	}
	ctx, cancel := context.WithCancel(context.Background())
	defer cancel()
	op := shell_operator.NewShellOperator(ctx, shell_operator.WithLogger(log.NewNop()))
	op.MetricStorage = metricstorage.NewMetricStorage(ctx, "", true, log.NewNop())
	op.HookMetricStorage = metricstorage.NewMetricStorage(ctx, "", true, log.NewNop())
	// the real setupHookManagers + initHookManager: Manager.Init() loads every executable of the directory
	if err := op.VerifC18Setup(hooksDir, tmp); err != nil {
		c.Op(fmt.Sprintf("hookset n=%d", len(scn.hooks)), "err "+firstLine(err.Error()))
		return
	}
	loaded := op.HookManager.GetHookNames()
	c.Op(fmt.Sprintf("hookset n=%d", len(scn.hooks)), fmt.Sprintf("loaded=%d", len(loaded)))
	enc := func(s string) string { return strings.ReplaceAll(s, " ", "%20") }
	type hs struct {
		reqs, grants []int64
		delayed      int
	}
	st := make([]hs, len(scn.hooks))
	for hi, h := range scn.hooks {
		hk := op.HookManager.GetHook(h.name)
		line := fmt.Sprintf("hookload h=%d name=%s i=- b=-", hi, enc(h.name))
		if h.throttled {
			line = fmt.Sprintf("hookload h=%d name=%s i=%d b=%d", hi, enc(h.name), int64(h.iv), h.b)
		}
		if hk == nil || hk.RateLimiter == nil {
			c.Op(line, "hook-not-loaded")
			return
		}
		c.Op(line, c18LimLine(hk.RateLimiter))
	}
	// request times on a millisecond grid (7 arrival patterns), scaled by the interval of one of the hooks
	gi := 10 * time.Millisecond
	var fin []time.Duration
	for _, h := range scn.hooks {
		if h.throttled && h.iv <= 3*time.Second {
			fin = append(fin, h.iv)
		}
	}
	if len(fin) > 0 {
		gi = PickOne(rng, fin)
	}
	ts, pat := c18Arrivals(rng, gi, scn.n)
	c.Note("pattern:" + pat)
	c.Note("order:" + scn.order)
	block := rng.Range(2, 9)
	for i, t := range ts {
		var hi int
		switch scn.order {
		case "round-robin":
			hi = i % len(scn.hooks)
		case "blocks":
			hi = (i / block) % len(scn.hooks)
		default:
			hi = rng.Intn(len(scn.hooks))
		}
		hk := op.HookManager.GetHook(scn.hooks[hi].name)
		at := c18Base.Add(time.Duration(t))
		rv := hk.RateLimiter.ReserveN(at, 1)
		if !rv.OK() {
			c.Op(fmt.Sprintf("hreq h=%d t=%d delay=refused", hi, t), "ok")
			continue
		}
		d := int64(rv.DelayFrom(at))
		c.Op(fmt.Sprintf("hreq h=%d t=%d delay=%d", hi, t, d), "ok")
		st[hi].reqs = append(st[hi].reqs, t)
		st[hi].grants = append(st[hi].grants, t+d)
		if d > 0 {
			st[hi].delayed++
		}
	}
	// the property, hook by hook, on the hook's own grant times
	delayed := 0
	for hi, h := range scn.hooks {
		if len(st[hi].grants) == 0 {
			continue
		}
		delayed += st[hi].delayed
		if h.throttled {
			c.Oracle(fmt.Sprintf("bound I=%d B=%d starts=%s", int64(h.iv), h.b, joinI64(st[hi].grants)))
		} else {
			c.Oracle(fmt.Sprintf("nodelay reqs=%s starts=%s", joinI64(st[hi].reqs), joinI64(st[hi].grants)))
		}
	}
	// the limiters at the end of the run are still what the settings say
	for _, h := range scn.hooks {
		hk := op.HookManager.GetHook(h.name)
		line := "hookcfg-after i=- b=- binds=onStartup"
		if h.throttled {
			line = fmt.Sprintf("hookcfg-after i=%d b=%d binds=onStartup", int64(h.iv), h.b)
		}
		c.Op(line, c18LimLine(hk.RateLimiter))
	}
	c.Note("kind:hook-set")
	c.Note(fmt.Sprintf("hooks:%d", len(scn.hooks)))
	c.Nontrivial = scn.n >= 20 && delayed > 0
}
