package main

// C02 helpers: a kube-client/fake cluster whose list/watch honour namespace, label and field
// selectors the way an API server does (client-go's fake ignores field selectors on list and every
// selector on watch), a mirror of what the harness wrote, canonical rendering of snapshots.

import (
	"context"
	"encoding/json"
	"fmt"
	"sort"
	"strconv"
	"strings"
	"sync"
	"time"

	corev1 "k8s.io/api/core/v1"
	"k8s.io/apimachinery/pkg/api/meta"
	metav1 "k8s.io/apimachinery/pkg/apis/meta/v1"
	"k8s.io/apimachinery/pkg/apis/meta/v1/unstructured"
	"k8s.io/apimachinery/pkg/fields"
	"k8s.io/apimachinery/pkg/labels"
	"k8s.io/apimachinery/pkg/runtime"
	"k8s.io/apimachinery/pkg/runtime/schema"
	"k8s.io/apimachinery/pkg/watch"
	fakedynamic "k8s.io/client-go/dynamic/fake"
	fakeclientset "k8s.io/client-go/kubernetes/fake"
	k8stesting "k8s.io/client-go/testing"

	"github.com/deckhouse/deckhouse/pkg/log"

	"github.com/flant/kube-client/fake"
	kem "github.com/flant/shell-operator/pkg/kube_events_manager"
	kemtypes "github.com/flant/shell-operator/pkg/kube_events_manager/types"
)

// universe (ranks are 1-based positions; both lists are sorted as Go strings)
var c02Namespaces = []string{"a", "a-b", "a0", "b"}
var c02Names = []string{"x", "x-y", "x.y", "x0"}
var c02Kinds = []string{"Widget", "Gadget"}

const c02LabelKey = "sel"

type c02Key struct {
	ns, kind, name int // ranks
}

type c02Val struct {
	a, b, lbl int
}

func (v c02Val) content() int { return v.lbl*10000 + v.a*100 + v.b }

type c02Cluster struct {
	fc    *fake.Cluster
	dyn   *fakedynamic.FakeDynamicClient
	group string

	mu      sync.Mutex
	objs    map[c02Key]c02Val
	nss     map[int]int                // ns rank -> label value
	watches map[string]int             // watch key -> number of watches opened so far
	stores  map[string]map[string]bool // watch key -> shared informers (factories) seen for it
	nsInfs  int                        // namespace informers started in this case
	stale   map[string]bool            // ids of varying informers whose namespace has stopped matching since
}

func c02NsRank(s string) int {
	for i, n := range c02Namespaces {
		if n == s {
			return i + 1
		}
	}
	return 0
}
func c02NameRank(s string) int {
	for i, n := range c02Names {
		if n == s {
			return i + 1
		}
	}
	return 0
}
func c02KindRank(s string) int {
	for i, n := range c02Kinds {
		if n == s {
			return i + 1
		}
	}
	return 0
}

func newC02Cluster(idx int) *c02Cluster {
	cl := &c02Cluster{objs: map[c02Key]c02Val{}, nss: map[int]int{}, watches: map[string]int{}, stores: map[string]map[string]bool{}, stale: map[string]bool{}}
	cl.group = fmt.Sprintf("c%d.verif.test", idx)
	cl.fc = fake.NewFakeCluster(fake.ClusterVersionV121)
	for _, k := range c02Kinds {
		cl.fc.RegisterCRD(cl.group, "v1", k, true)
	}
	cl.dyn = cl.fc.Client.Dynamic().(*fakedynamic.FakeDynamicClient)
	cl.dyn.PrependReactor("list", "*", cl.listReactor)
	cl.dyn.PrependWatchReactor("*", cl.watchReactor)
	cs := cl.fc.Client.Interface.(*fakeclientset.Clientset)
	cs.PrependWatchReactor("namespaces", func(action k8stesting.Action) (bool, watch.Interface, error) {
		wa := action.(k8stesting.WatchAction)
		w, err := cs.Tracker().Watch(wa.GetResource(), wa.GetNamespace())
		if err != nil {
			return true, nil, err
		}
		r := wa.GetWatchRestrictions()
		initial := map[string]bool{}
		if l, err := cs.Tracker().List(wa.GetResource(), schema.GroupVersionKind{Version: "v1", Kind: "Namespace"}, ""); err == nil {
			if items, err := meta.ExtractList(l); err == nil {
				for _, it := range items {
					if c02Match(it, r.Labels, r.Fields) {
						initial[c02ObjKey(it)] = true
					}
				}
			}
		}
		cl.noteWatch("namespaces||" + selStr(r.Labels) + "|" + fselStr(r.Fields))
		return true, newSelWatch(w, r.Labels, r.Fields, initial), nil
	})
	return cl
}

func selStr(l labels.Selector) string {
	if l == nil {
		return ""
	}
	return l.String()
}
func fselStr(f fields.Selector) string {
	if f == nil {
		return ""
	}
	return f.String()
}

func (cl *c02Cluster) noteWatch(k string) {
	cl.mu.Lock()
	cl.watches[k]++
	cl.mu.Unlock()
}

func c02ObjKey(o runtime.Object) string {
	acc, err := meta.Accessor(o)
	if err != nil {
		return "?"
	}
	return acc.GetNamespace() + "/" + acc.GetName()
}

func c02Match(o runtime.Object, l labels.Selector, f fields.Selector) bool {
	acc, err := meta.Accessor(o)
	if err != nil {
		return false
	}
	if l != nil && !l.Empty() && !l.Matches(labels.Set(acc.GetLabels())) {
		return false
	}
	if f != nil && !f.Empty() && !f.Matches(fields.Set{"metadata.name": acc.GetName(), "metadata.namespace": acc.GetNamespace()}) {
		return false
	}
	return true
}

// listReactor adds field-selector filtering (labels are filtered by the fake client itself).
func (cl *c02Cluster) listReactor(action k8stesting.Action) (bool, runtime.Object, error) {
	la, ok := action.(k8stesting.ListActionImpl)
	if !ok {
		return false, nil, nil
	}
	f := la.GetListRestrictions().Fields
	if f == nil || f.Empty() {
		return false, nil, nil
	}
	obj, err := cl.dyn.Tracker().List(la.GetResource(), la.Kind, la.GetNamespace())
	if err != nil {
		return true, nil, err
	}
	items, err := meta.ExtractList(obj)
	if err != nil {
		return true, nil, err
	}
	var keep []runtime.Object
	for _, it := range items {
		if c02Match(it, nil, f) {
			keep = append(keep, it)
		}
	}
	if err := meta.SetList(obj, keep); err != nil {
		return true, nil, err
	}
	return true, obj, nil
}

func (cl *c02Cluster) watchReactor(action k8stesting.Action) (bool, watch.Interface, error) {
	wa, ok := action.(k8stesting.WatchAction)
	if !ok {
		return false, nil, nil
	}
	gvr, ns := wa.GetResource(), wa.GetNamespace()
	r := wa.GetWatchRestrictions()
	w, err := cl.dyn.Tracker().Watch(gvr, ns)
	if err != nil {
		return true, nil, err
	}
	initial := map[string]bool{}
	kind := ""
	for _, k := range c02Kinds {
		if strings.ToLower(k)+"s" == gvr.Resource {
			kind = k
		}
	}
	if kind != "" {
		if l, err := cl.dyn.Tracker().List(gvr, gvr.GroupVersion().WithKind(kind), ns); err == nil {
			if items, err := meta.ExtractList(l); err == nil {
				for _, it := range items {
					if c02Match(it, r.Labels, r.Fields) {
						initial[c02ObjKey(it)] = true
					}
				}
			}
		}
	}
	cl.noteWatch(gvr.String() + "|" + ns + "|" + selStr(r.Labels) + "|" + fselStr(r.Fields))
	return true, newSelWatch(w, r.Labels, r.Fields, initial), nil
}

// selWatch filters a tracker watch by selectors with API-server semantics: an object that stops
// matching is reported Deleted, one that starts matching is reported Added.
type selWatch struct {
	src     watch.Interface
	out     chan watch.Event
	stop    chan struct{}
	once    sync.Once
	matched map[string]bool
	l       labels.Selector
	f       fields.Selector
}

func newSelWatch(src watch.Interface, l labels.Selector, f fields.Selector, initial map[string]bool) *selWatch {
	s := &selWatch{src: src, out: make(chan watch.Event, 256), stop: make(chan struct{}), matched: initial, l: l, f: f}
	go s.run()
	return s
}

func (s *selWatch) run() {
	defer close(s.out)
	for {
		select {
		case <-s.stop:
			return
		case ev, ok := <-s.src.ResultChan():
			if !ok {
				return
			}
			key := c02ObjKey(ev.Object)
			was := s.matched[key]
			var outEv *watch.Event
			switch ev.Type {
			case watch.Added, watch.Modified:
				now := c02Match(ev.Object, s.l, s.f)
				switch {
				case now && !was:
					s.matched[key] = true
					outEv = &watch.Event{Type: watch.Added, Object: ev.Object}
				case now && was:
					outEv = &watch.Event{Type: watch.Modified, Object: ev.Object}
				case !now && was:
					delete(s.matched, key)
					outEv = &watch.Event{Type: watch.Deleted, Object: ev.Object}
				}
			case watch.Deleted:
				if was {
					delete(s.matched, key)
					outEv = &watch.Event{Type: watch.Deleted, Object: ev.Object}
				}
			default:
				e := ev
				outEv = &e
			}
			if outEv != nil {
				select {
				case s.out <- *outEv:
				case <-s.stop:
					return
				}
			}
		}
	}
}

func (s *selWatch) Stop() {
	s.once.Do(func() { close(s.stop); s.src.Stop() })
}
func (s *selWatch) ResultChan() <-chan watch.Event { return s.out }

// ------------------------------------------------------------------ cluster operations

func (cl *c02Cluster) gvr(kind int) schema.GroupVersionResource {
	return schema.GroupVersionResource{Group: cl.group, Version: "v1", Resource: strings.ToLower(c02Kinds[kind-1]) + "s"}
}

func (cl *c02Cluster) apiVersion() string { return cl.group + "/v1" }

func (cl *c02Cluster) manifest(k c02Key, v c02Val) *unstructured.Unstructured {
	u := &unstructured.Unstructured{Object: map[string]interface{}{
		"apiVersion": cl.apiVersion(),
		"kind":       c02Kinds[k.kind-1],
		"metadata": map[string]interface{}{
			"name":      c02Names[k.name-1],
			"namespace": c02Namespaces[k.ns-1],
		},
		"data": map[string]interface{}{"a": strconv.Itoa(v.a), "b": strconv.Itoa(v.b)},
	}}
	if v.lbl == 1 {
		u.SetLabels(map[string]string{c02LabelKey: "yes"})
	}
	return u
}

// set creates or replaces an object; returns the protocol line.
func (cl *c02Cluster) set(k c02Key, v c02Val) (string, error) {
	cl.mu.Lock()
	_, exists := cl.objs[k]
	cl.objs[k] = v
	cl.mu.Unlock()
	ri := cl.dyn.Resource(cl.gvr(k.kind)).Namespace(c02Namespaces[k.ns-1])
	var err error
	if exists {
		_, err = ri.Update(context.TODO(), cl.manifest(k, v), metav1.UpdateOptions{})
	} else {
		_, err = ri.Create(context.TODO(), cl.manifest(k, v), metav1.CreateOptions{})
	}
	return fmt.Sprintf("set %d %d %d %d %d %d", k.ns, k.kind, k.name, v.a, v.b, v.lbl), err
}

func (cl *c02Cluster) del(k c02Key) (string, error) {
	cl.mu.Lock()
	_, exists := cl.objs[k]
	delete(cl.objs, k)
	cl.mu.Unlock()
	var err error
	if exists {
		err = cl.dyn.Resource(cl.gvr(k.kind)).Namespace(c02Namespaces[k.ns-1]).Delete(context.TODO(), c02Names[k.name-1], metav1.DeleteOptions{})
	}
	return fmt.Sprintf("del %d %d %d", k.ns, k.kind, k.name), err
}

func (cl *c02Cluster) nsSet(ns, lbl int) (string, error) {
	cl.mu.Lock()
	_, exists := cl.nss[ns]
	cl.nss[ns] = lbl
	cl.mu.Unlock()
	o := &corev1.Namespace{}
	o.Name = c02Namespaces[ns-1]
	if lbl == 1 {
		o.Labels = map[string]string{c02LabelKey: "yes"}
	}
	var err error
	if exists {
		_, err = cl.fc.Client.CoreV1().Namespaces().Update(context.TODO(), o, metav1.UpdateOptions{})
	} else {
		_, err = cl.fc.Client.CoreV1().Namespaces().Create(context.TODO(), o, metav1.CreateOptions{})
	}
	return fmt.Sprintf("nsset %d %d", ns, lbl), err
}

// nsDel deletes a namespace the way Kubernetes does: its objects first. Returns all lines.
func (cl *c02Cluster) nsDel(ns int) ([]string, error) {
	var lines []string
	cl.mu.Lock()
	var ks []c02Key
	for k := range cl.objs {
		if k.ns == ns {
			ks = append(ks, k)
		}
	}
	_, exists := cl.nss[ns]
	delete(cl.nss, ns)
	cl.mu.Unlock()
	sort.Slice(ks, func(i, j int) bool {
		if ks[i].kind != ks[j].kind {
			return ks[i].kind < ks[j].kind
		}
		return ks[i].name < ks[j].name
	})
	for _, k := range ks {
		l, err := cl.del(k)
		if err != nil {
			return lines, err
		}
		lines = append(lines, l)
	}
	var err error
	if exists {
		err = cl.fc.Client.CoreV1().Namespaces().Delete(context.TODO(), c02Namespaces[ns-1], metav1.DeleteOptions{})
	}
	lines = append(lines, fmt.Sprintf("nsdel %d", ns))
	return lines, err
}

// ridLine renders the rank table of the resource-id strings `ns/Kind/name` of the universe.
func c02RidLine() string {
	type ent struct {
		k c02Key
		s string
	}
	var all []ent
	for ki, kind := range c02Kinds {
		for ni, ns := range c02Namespaces {
			for mi, nm := range c02Names {
				all = append(all, ent{c02Key{ni + 1, ki + 1, mi + 1}, ns + "/" + kind + "/" + nm})
			}
		}
	}
	sort.Slice(all, func(i, j int) bool { return all[i].s < all[j].s })
	var parts []string
	for i, e := range all {
		parts = append(parts, fmt.Sprintf("%d.%d.%d=%d", e.k.ns, e.k.kind, e.k.name, i+1))
	}
	return "rid " + strings.Join(parts, ",")
}

// ------------------------------------------------------------------ monitor configuration

type c02MonSpec struct {
	id     int
	kind   int
	keep   bool
	flt    int      // 0 none, 1 jqFilter, 2 FilterFunc
	prog   *c02Prog // the jqFilter program (nil = the legacy one; FilterFunc always computes the legacy one)
	names  []int
	nss    []int
	nsSel  bool
	lblSel bool
	excl   int // 0 = none
}

// theProg: the program whose result the binding's filter produces.
func (s c02MonSpec) theProg() *c02Prog {
	if s.flt == 1 && s.prog != nil {
		return s.prog
	}
	return c02LegacyProg()
}

func (s c02MonSpec) line() string {
	b := func(x bool) int {
		if x {
			return 1
		}
		return 0
	}
	excl := "-"
	if s.excl > 0 {
		excl = strconv.Itoa(s.excl)
	}
	f := 0
	if s.flt > 0 {
		f = 1
	}
	prog := ""
	if f == 1 {
		prog = " prog=" + s.theProg().ast()
	}
	return fmt.Sprintf("mon %d kind=%d keep=%d flt=%d names=%s nss=%s nssel=%d lsel=%d excl=%s%s",
		s.id, s.kind, b(s.keep), f, joinInts(s.names), joinInts(s.nss), b(s.nsSel), b(s.lblSel), excl, prog)
}

const c02JqFilter = `{"a": .data.a}`

func (s c02MonSpec) config(cl *c02Cluster, monitorID string) *kem.MonitorConfig {
	mc := &kem.MonitorConfig{ApiVersion: cl.apiVersion(), Kind: c02Kinds[s.kind-1], KeepFullObjectsInMemory: s.keep}
	mc.Metadata.MonitorId = monitorID
	mc.Metadata.DebugName = monitorID
	mc.Metadata.LogLabels = map[string]string{}
	mc.Metadata.MetricLabels = map[string]string{}
	mc.Logger = log.NewNop()
	mc.WithEventTypes(nil)
	mc.Mode = kemtypes.ModeIncremental
	switch s.flt {
	case 1:
		mc.JqFilter = s.theProg().text()
	case 2:
		mc.FilterFunc = func(u *unstructured.Unstructured) (interface{}, error) {
			a, _, _ := unstructured.NestedString(u.Object, "data", "a")
			return map[string]interface{}{"a": a}, nil
		}
	}
	if len(s.names) > 0 {
		var ns []string
		for _, n := range s.names {
			ns = append(ns, c02Names[n-1])
		}
		mc.NameSelector = &kemtypes.NameSelector{MatchNames: ns}
	}
	if len(s.nss) > 0 || s.nsSel {
		mc.NamespaceSelector = &kemtypes.NamespaceSelector{}
		if len(s.nss) > 0 {
			var ns []string
			for _, n := range s.nss {
				ns = append(ns, c02Namespaces[n-1])
			}
			mc.NamespaceSelector.NameSelector = &kemtypes.NameSelector{MatchNames: ns}
		}
		if s.nsSel {
			mc.NamespaceSelector.LabelSelector = &metav1.LabelSelector{MatchLabels: map[string]string{c02LabelKey: "yes"}}
		}
	}
	if s.lblSel {
		mc.LabelSelector = &metav1.LabelSelector{MatchLabels: map[string]string{c02LabelKey: "yes"}}
	}
	if s.excl > 0 {
		mc.FieldSelector = &kemtypes.FieldSelector{MatchExpressions: []kemtypes.FieldSelectorRequirement{
			{Field: "metadata.name", Operator: "!=", Value: c02Names[s.excl-1]}}}
	}
	return mc
}

func hasInt(xs []int, x int) bool {
	for _, y := range xs {
		if y == x {
			return true
		}
	}
	return false
}

// matches: the harness' own reading of "the objects that currently match the binding"; used only
// to decide when to stop waiting (the verdict is the Lean side's).
func (s c02MonSpec) matches(cl *c02Cluster, k c02Key, v c02Val) bool {
	if k.kind != s.kind {
		return false
	}
	if len(s.names) > 0 && !hasInt(s.names, k.name) {
		return false
	}
	if s.lblSel && v.lbl != 1 {
		return false
	}
	if s.excl > 0 && k.name == s.excl {
		return false
	}
	if s.nsSel {
		l, ok := cl.nss[k.ns]
		return ok && l == 1
	}
	if len(s.nss) > 0 && !hasInt(s.nss, k.ns) {
		return false
	}
	return true
}

// ------------------------------------------------------------------ rendering

func c02FilterA(fr interface{}) (int, bool) {
	if fr == nil {
		return 0, false
	}
	var m map[string]interface{}
	switch x := fr.(type) {
	case map[string]interface{}:
		m = x
	case string:
		if json.Unmarshal([]byte(x), &m) != nil {
			return 0, false
		}
	default:
		b, err := json.Marshal(fr)
		if err != nil || json.Unmarshal(b, &m) != nil {
			return 0, false
		}
	}
	s, ok := m["a"].(string)
	if !ok {
		return 0, false
	}
	n, err := strconv.Atoi(s)
	return n, err == nil
}

func c02ObjContent(u *unstructured.Unstructured) string {
	a, _, _ := unstructured.NestedString(u.Object, "data", "a")
	b, _, _ := unstructured.NestedString(u.Object, "data", "b")
	ai, e1 := strconv.Atoi(a)
	bi, e2 := strconv.Atoi(b)
	if e1 != nil || e2 != nil {
		return "bad"
	}
	l := 0
	if u.GetLabels()[c02LabelKey] == "yes" {
		l = 1
	}
	return strconv.Itoa(l*10000 + ai*100 + bi)
}

// renderSnap: `<nsRank>.<nameRank>:<content|->:<fr>` per element, in the order returned.
func c02RenderSnap(snap []kemtypes.ObjectAndFilterResult, hasFilter bool) string {
	var parts []string
	for _, e := range snap {
		seg := strings.Split(e.Metadata.ResourceId, "/")
		nsr, nmr := 0, 0
		if len(seg) == 3 {
			nsr, nmr = c02NsRank(seg[0]), c02NameRank(seg[2])
		}
		obj := "-"
		if e.Object != nil {
			obj = c02ObjContent(e.Object)
			// the key of the element must be the key of the object it carries
			if c02NsRank(e.Object.GetNamespace()) != nsr || c02NameRank(e.Object.GetName()) != nmr {
				obj = "wrongobj"
			}
		}
		fr := "0"
		if hasFilter {
			if t, ok := c02FilterText(e.FilterResult); ok {
				fr = c02EncText(t)
			} else {
				fr = "nofr"
			}
		} else if e.FilterResult != nil {
			fr = "extrafr"
		}
		parts = append(parts, fmt.Sprintf("%d.%d:%s:%s", nsr, nmr, obj, fr))
	}
	return joinStrs(parts)
}

// wantSnap: what the harness expects to see once the informers have caught up (for waiting only).
func (cl *c02Cluster) wantSnap(s c02MonSpec) string {
	cl.mu.Lock()
	defer cl.mu.Unlock()
	type ent struct {
		k   c02Key
		v   c02Val
		rid string
	}
	var es []ent
	for k, v := range cl.objs {
		if s.matches(cl, k, v) {
			es = append(es, ent{k, v, c02Namespaces[k.ns-1] + "/" + c02Kinds[k.kind-1] + "/" + c02Names[k.name-1]})
		}
	}
	sort.Slice(es, func(i, j int) bool {
		if !s.keep {
			return es[i].rid < es[j].rid
		}
		if es[i].k.ns != es[j].k.ns {
			return es[i].k.ns < es[j].k.ns
		}
		return es[i].k.name < es[j].k.name
	})
	var parts []string
	prog := s.theProg()
	for _, e := range es {
		obj := "-"
		if s.keep {
			obj = strconv.Itoa(e.v.content())
		}
		fr := "0"
		if s.flt > 0 {
			fr = c02EncText(prog.want(e.v))
		}
		parts = append(parts, fmt.Sprintf("%d.%d:%s:%s", e.k.ns, e.k.name, obj, fr))
	}
	return joinStrs(parts)
}

// ------------------------------------------------------------------ waiting

// drained: client-go's own stores behind the monitor's informers (and the namespace informer's
// store) hold exactly what the cluster holds for their scope — the list/watch machinery has
// delivered everything; what the operator's caches show after that is the operator's doing.
func (cl *c02Cluster) drained(mon kem.Monitor, s c02MonSpec) bool {
	for _, inf := range kem.VerifC02Describe(mon) {
		store, ok := kem.VerifC02Store(inf.Index)
		if !ok {
			continue
		}
		lsel, err1 := labels.Parse(inf.Index.LabelSelector)
		fsel, err2 := fields.ParseSelector(inf.Index.FieldSelector)
		if err1 != nil || err2 != nil {
			continue
		}
		want := map[string]string{}
		cl.mu.Lock()
		for k, v := range cl.objs {
			if k.kind != s.kind {
				continue
			}
			ns, nm := c02Namespaces[k.ns-1], c02Names[k.name-1]
			if inf.Index.Namespace != "" && inf.Index.Namespace != ns {
				continue
			}
			lb := labels.Set{}
			if v.lbl == 1 {
				lb[c02LabelKey] = "yes"
			}
			if !lsel.Matches(lb) || !fsel.Matches(fields.Set{"metadata.name": nm, "metadata.namespace": ns}) {
				continue
			}
			want[ns+"/"+nm] = strconv.Itoa(v.content())
		}
		cl.mu.Unlock()
		if len(store) != len(want) {
			return false
		}
		for _, u := range store {
			if want[u.GetNamespace()+"/"+u.GetName()] != c02ObjContent(u) {
				return false
			}
		}
	}
	if names, ok := kem.VerifC02NamespaceStore(mon); ok {
		want := map[string]bool{}
		cl.mu.Lock()
		for ns, l := range cl.nss {
			if l == 1 {
				want[c02Namespaces[ns-1]] = true
			}
		}
		cl.mu.Unlock()
		if len(names) != len(want) {
			return false
		}
		for _, n := range names {
			if !want[n] {
				return false
			}
		}
	}
	return true
}

const c02Grace = 1500 * time.Millisecond
const c02Deadline = 25 * time.Second

// settle polls Snapshot() until it shows `want`; when it does not, it keeps polling until
// client-go's stores have caught up with the cluster AND the snapshot has then stayed unchanged for
// the grace period (the observation is then the operator's own), or gives up as inconclusive when
// the list/watch machinery itself never catches up.
func (cl *c02Cluster) settle(mon kem.Monitor, s c02MonSpec, want string) (got string, inconcl bool) {
	start := time.Now()
	last, since := "", time.Now()
	sleep := time.Millisecond
	for {
		got = c02RenderSnap(mon.Snapshot(), s.flt > 0)
		if got == want {
			return got, false
		}
		dr := cl.drained(mon, s)
		if !dr || got != last {
			last, since = got, time.Now()
		} else if time.Since(since) > c02Grace {
			return got, false
		}
		if time.Since(start) > c02Deadline {
			return got, !dr
		}
		time.Sleep(sleep)
		if sleep < 20*time.Millisecond {
			sleep *= 2
		}
	}
}

// waitWatches waits until every informer of the monitor (and its namespace informer) is registered
// with a shared informer whose watch is established on the fake cluster: the fake has no resource
// versions, an object written between a shared informer's list and its watch would be lost by the
// fake, not by the operator. Every shared informer opens exactly one watch right after its list, so
// "watches opened for the key >= shared informers ever seen for the key" means all of them have.
func (cl *c02Cluster) waitWatches(mon kem.Monitor, s c02MonSpec, wantVaryingNs []int) bool {
	deadline := time.Now().Add(10 * time.Second)
	for {
		ok := true
		seen := map[string]bool{}
		for _, inf := range kem.VerifC02Describe(mon) {
			cl.mu.Lock()
			isStale := cl.stale[inf.ID]
			cl.mu.Unlock()
			if isStale {
				// an informer of a namespace incarnation that has ended: the namespace callback has
				// not removed it yet, so the monitor has not caught up with the namespace events
				ok = false
				continue
			}
			if inf.Varying {
				seen[inf.Namespace] = true
			}
			ls, fs := inf.Index.LabelSelector, inf.Index.FieldSelector
			if p, err := labels.Parse(ls); err == nil {
				ls = p.String()
			}
			if p, err := fields.ParseSelector(fs); err == nil {
				fs = p.String()
			}
			k := inf.Index.GVR.String() + "|" + inf.Index.Namespace + "|" + ls + "|" + fs
			if !inf.Registered || inf.StoreID == "" {
				ok = false
				continue
			}
			cl.mu.Lock()
			if cl.stores[k] == nil {
				cl.stores[k] = map[string]bool{}
			}
			cl.stores[k][inf.StoreID] = true
			if cl.watches[k] < len(cl.stores[k]) {
				ok = false
			}
			cl.mu.Unlock()
		}
		for _, ns := range wantVaryingNs {
			if !seen[c02Namespaces[ns-1]] {
				ok = false
			}
		}
		if s.nsSel {
			cl.mu.Lock()
			if cl.watches["namespaces||"+c02LabelKey+"=yes|"] < cl.nsInfs {
				ok = false
			}
			cl.mu.Unlock()
		}
		if ok {
			return true
		}
		if time.Now().After(deadline) {
			return false
		}
		time.Sleep(time.Millisecond)
	}
}
