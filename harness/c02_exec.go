package main

func runC02Exec(r *Run) {}
