package main

// C02, execution level: real HookConfig.LoadAndValidate (group -> includeSnapshotsFrom expansion),
// real HookController with real Kubernetes/Schedule/Admission binding controllers over the real
// kubeEventsManager, UpdateSnapshots at every kind of execution point, the cluster changed between
// the SnapshotsFor calls of ONE execution (a decorator around the KubernetesBindingsController
// changes the cluster and waits for the informers before delegating the read).

import (
	"context"
	"encoding/json"
	"fmt"
	"sort"
	"strings"
	"sync"
	"time"

	"github.com/deckhouse/deckhouse/pkg/log"
	admissionv1 "k8s.io/api/admission/v1"

	bctx "github.com/flant/shell-operator/pkg/hook/binding_context"
	"github.com/flant/shell-operator/pkg/hook/config"
	"github.com/flant/shell-operator/pkg/hook/controller"
	htypes "github.com/flant/shell-operator/pkg/hook/types"
	kem "github.com/flant/shell-operator/pkg/kube_events_manager"
	kemtypes "github.com/flant/shell-operator/pkg/kube_events_manager/types"
	metricstorage "github.com/flant/shell-operator/pkg/metric_storage"
	schedulemanager "github.com/flant/shell-operator/pkg/schedule_manager"
	"github.com/flant/shell-operator/pkg/webhook/admission"
)

type c02Bind struct {
	typ   string // k s v m
	name  string
	group string
	incl  []string
	spec  c02MonSpec // kubernetes bindings only
	cron  string
}

// c02Ctx: a binding context together with the index (within its type, declaration order) of the
// binding that emitted it — names need not be unique within a type.
type c02Ctx struct {
	bc   bctx.BindingContext
	decl int
}

type c02Exec struct {
	e     *c02Env
	rng   *Rng
	names *Interner // binding names -> ids
	binds []c02Bind
	hc    *controller.HookController
	mgr   kem.KubeEventsManager
	cfg   *config.HookConfig

	snapIDs    map[string]int
	nameBucket string
	// per UpdateSnapshots call
	armed     bool
	mutateAt  map[int]bool
	readCount int
	reads     []string
	pending   [][2]string // lines to emit (op, answer) in chronological order
	inconcl   bool

	resMu    sync.Mutex
	resolved []string // monitor ids the controller fetched from the manager during the last delegated read

	prevOut []bctx.BindingContext // the contexts of the previous execution and how they read then
	prevGot string

	evMu   sync.Mutex
	events []kemtypes.KubeEvent
}

// group names are arbitrary strings too (compared byte by byte by the group -> includeSnapshotsFrom
// expansion): the pool holds relatives of one name.
var c02GroupIDs = map[string]int{"": 0, "g1": 1, "g2": 2, "G1": 3, "g1 ": 4, "g": 5}

func (x *c02Exec) groupID(g string) int { return c02GroupIDs[g] }

func (x *c02Exec) kube(name string) *c02Bind {
	for i := range x.binds {
		if x.binds[i].typ == "k" && x.binds[i].name == name {
			return &x.binds[i]
		}
	}
	return nil
}

func (x *c02Exec) monitorOf(name string) (kem.Monitor, *c02Bind) {
	b := x.kube(name)
	if b == nil {
		return nil, nil
	}
	for _, kc := range x.cfg.OnKubernetesEvents {
		if kc.BindingName == name && x.mgr.HasMonitor(kc.Monitor.Metadata.MonitorId) {
			return x.mgr.GetMonitor(kc.Monitor.Metadata.MonitorId), b
		}
	}
	return nil, b
}

func (x *c02Exec) snapID(rendered string) int {
	if rendered == "-" {
		return 0
	}
	if id, ok := x.snapIDs[rendered]; ok {
		return id
	}
	id := len(x.snapIDs) + 1
	x.snapIDs[rendered] = id
	return id
}

// c02Mgr decorates the real kubeEventsManager handed to the KubernetesBindingsController: it records
// which monitor the controller asks for (what the name -> monitor glue resolved).
type c02Mgr struct {
	kem.KubeEventsManager
	x *c02Exec
}

func (m *c02Mgr) GetMonitor(id string) kem.Monitor {
	m.x.resMu.Lock()
	m.x.resolved = append(m.x.resolved, id)
	m.x.resMu.Unlock()
	return m.KubeEventsManager.GetMonitor(id)
}

// delegate: the real SnapshotsFor + the declaration numbers (1-based, configuration order) of the
// monitors it fetched.
func (k *c02KC) delegate(name string) ([]kemtypes.ObjectAndFilterResult, string) {
	x := k.x
	x.resMu.Lock()
	x.resolved = nil
	x.resMu.Unlock()
	res := k.KubernetesBindingsController.SnapshotsFor(name)
	x.resMu.Lock()
	defer x.resMu.Unlock()
	var got []string
	for _, id := range x.resolved {
		n := 0
		for i, kc := range x.cfg.OnKubernetesEvents {
			if kc.Monitor.Metadata.MonitorId == id {
				n = i + 1
			}
		}
		got = append(got, fmt.Sprint(n))
	}
	if len(got) == 0 {
		return res, "-"
	}
	return res, strings.Join(got, "+")
}

// lookupLines: the name -> monitor resolution of one read as op + oracle (names as hex of their bytes).
func (x *c02Exec) lookupLines(name, got string) {
	var has []string
	for i, kc := range x.cfg.OnKubernetesEvents {
		if x.mgr.HasMonitor(kc.Monitor.Metadata.MonitorId) {
			has = append(has, fmt.Sprint(i+1))
		}
	}
	hs := joinStrsSep(has, ",")
	x.pending = append(x.pending, [2]string{fmt.Sprintf("lookup x%x has=%s", name, hs), got})
	x.pending = append(x.pending, [2]string{fmt.Sprintf("oracle lookup x%x has=%s got=%s", name, hs, got), "true"})
}

func (x *c02Exec) kbindsLine() string {
	var parts []string
	for i, kc := range x.cfg.OnKubernetesEvents {
		parts = append(parts, fmt.Sprintf("x%x=%d", kc.BindingName, i+1))
	}
	return "kbinds " + joinStrsSep(parts, ",")
}

// c02KC decorates the real KubernetesBindingsController: SnapshotsFor may first change the cluster.
type c02KC struct {
	controller.KubernetesBindingsController
	x *c02Exec
}

func (k *c02KC) SnapshotsFor(name string) []kemtypes.ObjectAndFilterResult {
	x := k.x
	if !x.armed {
		return k.KubernetesBindingsController.SnapshotsFor(name)
	}
	idx := x.readCount
	x.readCount++
	if x.mutateAt[idx] {
		x.mutate()
	}
	mon, b := x.monitorOf(name)
	var res []kemtypes.ObjectAndFilterResult
	resolved := "-"
	if mon != nil {
		// let the informers of this binding catch up, so that the read is a quiet-cluster read.
		// settle() may return at an instant where the snapshot looks right only because events are
		// still on their way (create then delete): the read that counts is the delegated one, so it
		// is repeated until it shows the quiet state itself (or the observation is the slow path's).
		want := x.e.cl.wantSnap(b.spec)
		for attempt := 0; attempt < 200; attempt++ {
			got, inc := x.e.cl.settle(mon, b.spec, want)
			if inc {
				x.inconcl = true
			}
			res, resolved = k.delegate(name)
			if inc || got != want || c02RenderSnap(res, b.spec.flt > 0) == want {
				break
			}
		}
	} else {
		res, resolved = k.delegate(name)
	}
	x.lookupLines(name, resolved)
	id := x.names.Id(name)
	if res == nil {
		x.reads = append(x.reads, fmt.Sprintf("%d=nil", id))
		return res
	}
	r := c02RenderSnap(res, b != nil && b.spec.flt > 0)
	if b != nil {
		x.pending = append(x.pending, [2]string{fmt.Sprintf("oracle snap %d got=%s", id, r), "true"})
		if b.spec.flt > 0 {
			x.pending = append(x.pending, [2]string{fmt.Sprintf("oracle filt %d got=%s", id, r), "true"})
		}
	}
	x.reads = append(x.reads, fmt.Sprintf("%d=%d", id, x.snapID(r)))
	return res
}

// mutate applies 1-2 object operations (the cluster another reader of the same execution sees).
func (x *c02Exec) mutate() {
	cl, rng := x.e.cl, x.rng
	for i := rng.Range(1, 2); i > 0; i-- {
		k := c02Key{ns: rng.Range(1, 4), kind: rng.Range(1, 2), name: rng.Range(1, 4)}
		cl.mu.Lock()
		cur, exists := cl.objs[k]
		_, nsExists := cl.nss[k.ns]
		cl.mu.Unlock()
		if !nsExists {
			continue
		}
		var line string
		var err error
		switch {
		case exists && rng.Chance(40):
			line, err = cl.del(k)
		case exists:
			cur.a = rng.Range(1, 9)
			line, err = cl.set(k, cur)
		default:
			line, err = cl.set(k, c02Val{a: rng.Range(1, 9), b: rng.Range(1, 9), lbl: rng.Intn(2)})
		}
		ans := "ok"
		if err != nil {
			ans = "err " + firstLine(err.Error())
		}
		x.pending = append(x.pending, [2]string{line, ans})
	}
}

func (x *c02Exec) typeOf(bc bctx.BindingContext) string {
	switch bc.Metadata.BindingType {
	case htypes.OnKubernetesEvent:
		return "k"
	case htypes.Schedule:
		return "s"
	case htypes.KubernetesValidating:
		return "v"
	case htypes.KubernetesMutating:
		return "m"
	case htypes.KubernetesConversion:
		return "c"
	}
	return "o"
}

func (x *c02Exec) renderObjects(bc bctx.BindingContext) int {
	if len(bc.Objects) == 0 {
		return 0
	}
	b := x.kube(bc.Binding)
	return x.snapID(c02RenderSnap(bc.Objects, b != nil && b.spec.flt > 0))
}

// jsonShape: keys of `snapshots` and list lengths as the hook would read them from the binding
// context file; must agree with the structures (otherwise the observation is marked).
func jsonShape(bc bctx.BindingContext) (keys map[string]int, objects int, ok bool) {
	list := bctx.ConvertBindingContextList("v1", []bctx.BindingContext{bc})
	data, err := list.Json()
	if err != nil {
		return nil, 0, false
	}
	var parsed []map[string]json.RawMessage
	if json.Unmarshal(data, &parsed) != nil || len(parsed) != 1 {
		return nil, 0, false
	}
	keys = map[string]int{}
	if raw, has := parsed[0]["snapshots"]; has {
		var m map[string]json.RawMessage
		if json.Unmarshal(raw, &m) != nil {
			return nil, 0, false
		}
		for k, v := range m {
			var l []json.RawMessage
			if json.Unmarshal(v, &l) != nil {
				return nil, 0, false
			}
			keys[k] = len(l)
		}
	}
	objects = -1
	if raw, has := parsed[0]["objects"]; has {
		var l []json.RawMessage
		if json.Unmarshal(raw, &l) != nil {
			return nil, 0, false
		}
		objects = len(l)
	}
	return keys, objects, true
}

// execute runs one UpdateSnapshots over ctx and emits the lines.
func (x *c02Exec) execute(kind string, cctx []c02Ctx) bool {
	c := x.e.c
	if len(cctx) == 0 {
		return true
	}
	var in []string
	var ctx []bctx.BindingContext
	for _, cc := range cctx {
		bc := cc.bc
		ctx = append(ctx, bc)
		sy := 0
		if bc.IsSynchronization() {
			sy = 1
		}
		in = append(in, fmt.Sprintf("%d:%s:%d:%d:%d", x.names.Id(bc.Binding), x.typeOf(bc), sy, x.renderObjects(bc), cc.decl))
	}
	x.armed, x.readCount, x.reads, x.pending = true, 0, nil, nil
	x.mutateAt = map[int]bool{}
	for i := 1; i < 8; i++ { // never before the first read: the change must fall between two reads
		if x.rng.Chance(45) {
			x.mutateAt[i] = true
		}
	}
	out := x.hc.UpdateSnapshots(ctx)
	x.armed = false
	if x.inconcl {
		c.Inconcl = "list/watch machinery of the fake cluster did not catch up within the deadline"
		return false
	}
	for _, p := range x.pending {
		c.Op(p[0], p[1])
	}
	// an execution that ran before still holds its contexts (its hook is running, or its context
	// file is not written yet) while this one — another queue, an admission request — has read the
	// same bindings after the cluster changed: what the earlier one holds must read as it did
	if x.prevOut != nil {
		again := strings.Join(x.renderOut(x.prevOut), ";")
		c.Oracle(fmt.Sprintf("same first=%s again=%s", x.prevGot, again))
		c.Note("exec:earlier-execution-looked-again")
	}
	got := x.renderOut(out)
	x.prevOut, x.prevGot = out, strings.Join(got, ";")
	ctxS, readsS, gotS := strings.Join(in, ";"), joinStrsSep(x.reads, ";"), strings.Join(got, ";")
	c.Op(fmt.Sprintf("exec ctx=%s reads=%s", ctxS, readsS), gotS)
	c.Oracle(fmt.Sprintf("exec ctx=%s reads=%s got=%s", ctxS, readsS, gotS))
	c.Note("exec:" + kind)
	if len(x.pending) > 0 && len(x.reads) >= 2 {
		c.Note("exec:cluster-changed-between-reads")
	}
	return true
}

// renderOut: the contexts of one execution as the hook would read them from the context file.
func (x *c02Exec) renderOut(out []bctx.BindingContext) []string {
	var got []string
	for _, bc := range out {
		// the observation is what the hook reads from the binding context file: the keys of
		// `snapshots` and the list lengths come from the rendered JSON, the identity of each list
		// from the structure that was rendered
		keys, objs, ok := jsonShape(bc)
		type kv struct {
			id   int
			snap string
		}
		var kvs []kv
		for name, n := range keys {
			snap, has := bc.Snapshots[name]
			v := "shape"
			if has && len(snap) == n {
				b := x.kube(name)
				v = fmt.Sprint(x.snapID(c02RenderSnap(snap, b != nil && b.spec.flt > 0)))
			}
			kvs = append(kvs, kv{x.names.Id(name), v})
		}
		sort.Slice(kvs, func(i, j int) bool { return kvs[i].id < kvs[j].id })
		var pairs []string
		for _, p := range kvs {
			pairs = append(pairs, fmt.Sprintf("%d=%s", p.id, p.snap))
		}
		s := strings.Join(pairs, "+")
		if len(pairs) == 0 {
			s = "-"
		}
		o := fmt.Sprint(x.renderObjects(bc))
		if !ok || (bc.IsSynchronization() && bc.Metadata.Group == "" && objs != len(bc.Objects)) {
			o = "shape"
		}
		got = append(got, fmt.Sprintf("%d:o=%s:s=%s", x.names.Id(bc.Binding), o, s))
	}
	return got
}

func joinStrsSep(xs []string, sep string) string {
	if len(xs) == 0 {
		return "-"
	}
	return strings.Join(xs, sep)
}

// declIndex: position of binding i (index into x.binds) among the bindings of its type.
func (x *c02Exec) declIndex(i int) int {
	n := 0
	for j := 0; j < i; j++ {
		if x.binds[j].typ == x.binds[i].typ {
			n++
		}
	}
	return n
}

func (x *c02Exec) declIndexByName(typ, name string) int {
	for i, b := range x.binds {
		if b.typ == typ && b.bindingName() == name {
			return x.declIndex(i)
		}
	}
	return 0
}

// bindingName: the name the operator gives the binding (unnamed bindings get the type's default).
func (b c02Bind) bindingName() string {
	if b.name != "" {
		return b.name
	}
	switch b.typ {
	case "k":
		return "kubernetes"
	case "s":
		return "schedule"
	}
	return b.name
}

func (x *c02Exec) declLine() string {
	per := map[string][]string{}
	for _, b := range x.binds {
		var inc []string
		for _, n := range b.incl {
			inc = append(inc, fmt.Sprint(x.names.Id(n)))
		}
		is := strings.Join(inc, "+")
		if is == "" {
			is = "-"
		}
		per[b.typ] = append(per[b.typ], fmt.Sprintf("%d:%d:%s", x.names.Id(b.bindingName()), x.groupID(b.group), is))
	}
	f := func(t string) string { return joinStrsSep(per[t], ";") }
	return fmt.Sprintf("hook kube=%s sched=%s val=%s mut=%s", f("k"), f("s"), f("v"), f("m"))
}

func yamlList(xs []string) string {
	var q []string
	for _, x := range xs {
		q = append(q, fmt.Sprintf("%q", x))
	}
	return "[" + strings.Join(q, ", ") + "]"
}

func (x *c02Exec) yaml() string {
	cl := x.e.cl
	var sb strings.Builder
	sb.WriteString("configVersion: v1\n")
	common := func(b c02Bind) {
		if b.group != "" {
			fmt.Fprintf(&sb, "  group: %s\n", c02YamlStr(b.group))
		}
		if len(b.incl) > 0 {
			fmt.Fprintf(&sb, "  includeSnapshotsFrom: %s\n", yamlList(b.incl))
		}
	}
	section := func(typ, header string, body func(b c02Bind)) {
		first := true
		for _, b := range x.binds {
			if b.typ != typ {
				continue
			}
			if first {
				sb.WriteString(header + ":\n")
				first = false
			}
			if b.name != "" {
				fmt.Fprintf(&sb, "- name: %s\n", c02YamlStr(b.name))
			} else {
				fmt.Fprintf(&sb, "- allowFailure: false\n")
			}
			common(b)
			body(b)
		}
	}
	section("k", "kubernetes", func(b c02Bind) {
		fmt.Fprintf(&sb, "  apiVersion: %s\n  kind: %s\n", cl.apiVersion(), c02Kinds[b.spec.kind-1])
		fmt.Fprintf(&sb, "  keepFullObjectsInMemory: %v\n", b.spec.keep)
		if b.spec.flt == 1 {
			fmt.Fprintf(&sb, "  jqFilter: '%s'\n", b.spec.theProg().text())
		}
		if len(b.spec.nss) > 0 {
			var ns []string
			for _, n := range b.spec.nss {
				ns = append(ns, c02Namespaces[n-1])
			}
			fmt.Fprintf(&sb, "  namespace:\n    nameSelector:\n      matchNames: %s\n", yamlList(ns))
		}
		if len(b.spec.names) > 0 {
			var ns []string
			for _, n := range b.spec.names {
				ns = append(ns, c02Names[n-1])
			}
			fmt.Fprintf(&sb, "  nameSelector:\n    matchNames: %s\n", yamlList(ns))
		}
	})
	section("s", "schedule", func(b c02Bind) { fmt.Fprintf(&sb, "  crontab: %q\n", b.cron) })
	rules := "  rules:\n  - operations: [\"*\"]\n    apiGroups: [\"\"]\n    apiVersions: [\"v1\"]\n    resources: [\"pods\"]\n"
	section("v", "kubernetesValidating", func(b c02Bind) { sb.WriteString(rules) })
	section("m", "kubernetesMutating", func(b c02Bind) { sb.WriteString(rules) })
	return sb.String()
}

func (x *c02Exec) genBindings() {
	rng := x.rng
	nk := rng.Range(2, 4)
	groups := []string{"", "", "g1", "g1", "g2"}
	if rng.Chance(40) {
		groups = []string{"", "", "g1", "g1", "G1", "G1", "g1 ", "g", "g2"}
	}
	// binding names are arbitrary strings compared byte by byte: pairwise different, but related
	knames, family, bucket := c02BindingNames(rng, nk)
	x.nameBucket = bucket
	someKube := func(max int) []string {
		var res []string
		for _, n := range knames {
			if len(res) < max && rng.Chance(40) {
				res = append(res, n)
			}
		}
		return res
	}
	for i, n := range knames {
		spec := c02MonSpec{id: 0, kind: rng.Range(1, 2), keep: rng.Bool(), flt: rng.Intn(2)}
		if spec.flt == 1 && rng.Chance(60) {
			spec.prog = c02GenProg(rng)
		}
		if rng.Chance(50) {
			spec.nss = c02PickList(rng, 3)
		}
		if rng.Chance(20) {
			spec.names = c02PickList(rng, 2)
		}
		_ = i
		x.binds = append(x.binds, c02Bind{typ: "k", name: n, group: PickOne(rng, groups), incl: someKube(2), spec: spec})
	}
	nsched := rng.Range(0, 2)
	unnamed := rng.Chance(35) // unnamed schedule bindings are all called "schedule"
	for i := 1; i <= nsched; i++ {
		name := fmt.Sprintf("sb%d", i)
		if unnamed {
			name = ""
		} else if rng.Chance(15) {
			name = knames[0] // a schedule binding may carry the name of a kubernetes binding
		} else if rng.Chance(25) {
			name = PickOne(rng, family) // ... or a relative of one (another type: need not be different)
		}
		x.binds = append(x.binds, c02Bind{typ: "s", name: name, group: PickOne(rng, groups), incl: someKube(3),
			cron: fmt.Sprintf("*/%d * * * *", i+1)})
	}
	if rng.Chance(50) {
		x.binds = append(x.binds, c02Bind{typ: "v", name: "v1.verif.test", group: PickOne(rng, groups), incl: someKube(2)})
	}
	if rng.Chance(40) {
		x.binds = append(x.binds, c02Bind{typ: "m", name: "m1.verif.test", group: PickOne(rng, groups), incl: someKube(2)})
	}
	x.internBindings()
}

// internBindings interns the names in declaration order; kubernetes binding ids double as monitor ids.
func (x *c02Exec) internBindings() {
	for i := range x.binds {
		id := x.names.Id(x.binds[i].bindingName())
		if x.binds[i].typ == "k" {
			x.binds[i].spec.id = id
		}
	}
}

func (x *c02Exec) drainEvents(ctx context.Context) {
	go func() {
		for {
			select {
			case ev := <-x.mgr.Ch():
				x.evMu.Lock()
				x.events = append(x.events, ev)
				x.evMu.Unlock()
			case <-ctx.Done():
				return
			}
		}
	}()
}

func (x *c02Exec) takeEvents() []kemtypes.KubeEvent {
	x.evMu.Lock()
	defer x.evMu.Unlock()
	res := x.events
	x.events = nil
	return res
}

func c02ExecCase(c *Case, rng *Rng, preset []c02Bind) {
	rng = NewRng(rng.U64()) // the lib derives neighbouring cases from shifted copies of one stream
	kem.DefaultSyncTime = time.Millisecond
	e := &c02Env{c: c, cl: newC02Cluster(c.Idx)}
	x := &c02Exec{e: e, rng: rng, names: NewInterner(), snapIDs: map[string]int{}}
	c.Op(c02RidLine(), "ok")
	h := &c02Hist{e: e, rng: rng, deleted: map[c02Key]bool{}}
	for ns := 1; ns <= 4; ns++ {
		e.op(e.cl.nsSet(ns, 0))
	}
	for i := rng.Range(2, 7); i > 0; i-- {
		k := c02Key{ns: rng.Range(1, 4), kind: rng.Range(1, 2), name: rng.Range(1, 4)}
		e.cl.mu.Lock()
		_, exists := e.cl.objs[k]
		e.cl.mu.Unlock()
		if !exists {
			h.creates++
			e.op(e.cl.set(k, c02Val{a: rng.Range(1, 9), b: rng.Range(1, 9), lbl: rng.Intn(2)}))
		}
	}
	if preset != nil {
		x.binds = preset
		x.internBindings()
	} else {
		x.genBindings()
	}
	x.cfg = &config.HookConfig{}
	if err := x.cfg.LoadAndValidate([]byte(x.yaml())); err != nil {
		c.Op("hook-load", "err "+firstLine(err.Error()))
		return
	}
	for i := range x.cfg.OnKubernetesEvents {
		x.cfg.OnKubernetesEvents[i].Monitor.Logger = log.NewNop()
	}
	c.Op(x.declLine(), "ok")
	c.Op(x.kbindsLine(), "ok")
	for _, b := range x.binds {
		if b.typ == "k" {
			c.Op(b.spec.line(), "ok")
		}
	}

	ctx, cancel := context.WithCancel(context.Background())
	defer cancel()
	mgr := kem.NewKubeEventsManager(ctx, e.cl.fc.Client, log.NewNop())
	mgr.WithMetricStorage(metricstorage.NewMetricStorage(ctx, "c02x_", true, log.NewNop()))
	x.mgr = mgr
	x.drainEvents(ctx)
	hc := controller.NewHookController()
	hc.InitKubernetesBindings(x.cfg.OnKubernetesEvents, &c02Mgr{KubeEventsManager: mgr, x: x}, log.NewNop())
	sm := schedulemanager.NewScheduleManager(ctx, log.NewNop())
	hc.InitScheduleBindings(x.cfg.Schedules, sm)
	hc.EnableScheduleBindings()
	wm := admission.NewWebhookManager(e.cl.fc.Client)
	wm.Settings = &admission.WebhookSettings{}
	hc.InitAdmissionBindings(x.cfg.KubernetesValidating, x.cfg.KubernetesMutating, wm)
	hc.EnableAdmissionBindings()
	x.hc = hc
	hc.KubernetesController = &c02KC{KubernetesBindingsController: hc.KubernetesController, x: x}
	defer hc.StopMonitors()

	// Synchronization: AddMonitor + StartMonitor per binding, in configuration order
	var syncInfos []controller.BindingExecutionInfo
	err := hc.HandleEnableKubernetesBindings(func(info controller.BindingExecutionInfo) { syncInfos = append(syncInfos, info) })
	if err != nil {
		c.Op("enable-kubernetes-bindings", "err "+firstLine(err.Error()))
		return
	}
	for _, kc := range x.cfg.OnKubernetesEvents {
		id := x.names.Id(kc.BindingName)
		c.Op(fmt.Sprintf("add %d", id), "ok")
		c.Op(fmt.Sprintf("start %d", id), "ok")
	}
	for _, kc := range x.cfg.OnKubernetesEvents {
		if b := x.kube(kc.BindingName); b != nil {
			e.cl.waitWatches(mgr.GetMonitor(kc.Monitor.Metadata.MonitorId), b.spec, nil)
		}
	}
	var all [][]c02Ctx
	var combined []c02Ctx
	for _, info := range syncInfos {
		var part []c02Ctx
		for _, bc := range info.BindingContext {
			part = append(part, c02Ctx{bc, x.declIndexByName("k", bc.Binding)})
		}
		combined = append(combined, part...)
		all = append(all, part)
	}
	if rng.Bool() {
		if !x.execute("synchronization-combined", combined) {
			return
		}
	} else {
		for _, part := range all {
			if !x.execute("synchronization", part) {
				return
			}
		}
	}
	hc.UnlockKubernetesEvents()

	// Event
	var eventCtx []c02Ctx
	for tries := 0; tries < 3 && len(eventCtx) == 0; tries++ {
		x.takeEvents()
		k := c02Key{ns: rng.Range(1, 4), kind: rng.Range(1, 2), name: rng.Range(1, 4)}
		e.op(e.cl.set(k, c02Val{a: rng.Range(1, 9), b: rng.Range(1, 9), lbl: rng.Intn(2)}))
		deadline := time.Now().Add(300 * time.Millisecond)
		for time.Now().Before(deadline) && len(eventCtx) == 0 {
			for _, ev := range x.takeEvents() {
				hc.HandleKubeEvent(ev, func(info controller.BindingExecutionInfo) {
					for _, bc := range info.BindingContext {
						eventCtx = append(eventCtx, c02Ctx{bc, x.declIndexByName("k", bc.Binding)})
					}
				})
			}
			time.Sleep(2 * time.Millisecond)
		}
	}
	if len(eventCtx) > 0 {
		if !x.execute("event", eventCtx) {
			return
		}
	}
	// Schedule: one crontab per binding, so the emitting binding is known although names may repeat
	var schedCtx []c02Ctx
	for i, b := range x.binds {
		if b.typ == "s" {
			d := x.declIndex(i)
			hc.HandleScheduleEvent(b.cron, func(info controller.BindingExecutionInfo) {
				for _, bc := range info.BindingContext {
					schedCtx = append(schedCtx, c02Ctx{bc, d})
				}
			})
		}
	}
	if len(schedCtx) > 0 {
		if !x.execute("schedule", schedCtx) {
			return
		}
	}
	// admission
	var admCtx []c02Ctx
	if hc.AdmissionController != nil {
		var ids []string
		for id := range hc.AdmissionController.AdmissionLinks {
			ids = append(ids, id)
		}
		sort.Strings(ids)
		for _, id := range ids {
			hc.HandleAdmissionEvent(admission.Event{WebhookId: id, ConfigurationId: hc.AdmissionController.ConfigurationId,
				Request: &admissionv1.AdmissionRequest{}},
				func(info controller.BindingExecutionInfo) {
					for _, bc := range info.BindingContext {
						admCtx = append(admCtx, c02Ctx{bc, x.declIndexByName(x.typeOf(bc), bc.Binding)})
					}
				})
		}
	}
	if len(admCtx) > 0 {
		if !x.execute("admission", admCtx) {
			return
		}
	}
	// a combined execution: contexts of several tasks of the hook in one run
	var mix []c02Ctx
	for _, part := range [][]c02Ctx{eventCtx, combined, schedCtx, admCtx} {
		if len(part) > 0 && rng.Chance(60) {
			mix = append(mix, part...)
		}
	}
	if len(mix) > 1 {
		x.execute("combined", mix)
	}
	grouped := false
	maxIncl := 0
	for _, b := range x.binds {
		if b.group != "" {
			grouped = true
		}
		if len(b.incl) > maxIncl {
			maxIncl = len(b.incl)
		}
	}
	if grouped {
		c.Note("exec:group")
	}
	for _, b := range x.binds {
		if b.typ == "k" && b.spec.flt == 1 {
			c.Note("exec:" + b.spec.theProg().bucket())
		}
	}
	if unnamedSched(x.binds) {
		c.Note("exec:same-named-schedule-bindings")
	}
	if x.nameBucket != "" {
		c.Note("exec:" + x.nameBucket)
	}
	c.Nontrivial = len(combined) >= 2 && (grouped || maxIncl >= 1)
	c.Desc = fmt.Sprintf("execution points over %d bindings (grouped=%v)", len(x.binds), grouped)
}

func runC02Exec(r *Run) {
	n := r.N(200, 3000)
	// corpus: two unnamed schedule bindings ("schedule"), only the second declares includeSnapshotsFrom
	r.One(10, func(c *Case, rng *Rng) {
		c02ExecCase(c, rng, []c02Bind{
			{typ: "k", name: "kb1", spec: c02MonSpec{kind: 1, keep: true, flt: 1}},
			{typ: "k", name: "kb2", group: "g1", spec: c02MonSpec{kind: 2, keep: false, flt: 1}},
			{typ: "s", name: "", cron: "*/2 * * * *"},
			{typ: "s", name: "", cron: "*/3 * * * *", incl: []string{"kb1"}},
			{typ: "s", name: "", cron: "*/4 * * * *", group: "g1"},
		})
		c.Desc = "corpus: unnamed schedule bindings share the name `schedule`; only the later ones include snapshots"
		c.Nontrivial = true
	})
	// corpus: two kubernetes bindings whose names differ only in case, the later one with other objects
	r.One(11, func(c *Case, rng *Rng) {
		c02ExecCase(c, rng, []c02Bind{
			{typ: "k", name: "settings", incl: []string{"Settings"}, spec: c02MonSpec{kind: 1, keep: true, flt: 1, nss: []int{1, 2}}},
			{typ: "k", name: "Settings", spec: c02MonSpec{kind: 1, keep: true, flt: 1, nss: []int{3, 4}}},
			{typ: "k", name: "SETTINGS ", group: "g1", spec: c02MonSpec{kind: 2, keep: false, flt: 0}},
			{typ: "s", name: "settings", cron: "*/2 * * * *", incl: []string{"settings", "Settings"}},
			{typ: "s", name: "", cron: "*/3 * * * *", group: "g1"},
		})
		c.Desc = "corpus: kubernetes bindings `settings`, `Settings`, `SETTINGS ` — names are compared byte by byte"
		c.Nontrivial = true
	})
	r.Cases(100000, n, 0, func(c *Case, rng *Rng) { c02ExecCase(c, rng, nil) })
}

func unnamedSched(bs []c02Bind) bool {
	n := 0
	for _, b := range bs {
		if b.typ == "s" && b.name == "" {
			n++
		}
	}
	return n >= 2
}
