package main

import (
	"context"
	"fmt"
	"os"
	"path/filepath"
	"sort"
	"strings"
	"time"

	"github.com/deckhouse/deckhouse/pkg/log"

	"github.com/flant/shell-operator/pkg/hook/task_metadata"
	htypes "github.com/flant/shell-operator/pkg/hook/types"
	schedulemanager "github.com/flant/shell-operator/pkg/schedule_manager"
	smtypes "github.com/flant/shell-operator/pkg/schedule_manager/types"
	shell_operator "github.com/flant/shell-operator/pkg/shell-operator"
	"github.com/flant/shell-operator/pkg/task"
	"github.com/flant/shell-operator/pkg/task/queue"
)

func init() { suites["c11"] = runC11 }

// Crontabs that parse and do not come due while a check runs (1 January / 29 February / 1 July, 03:07).
var c11Valid = []string{"7 3 1 1 *", "7 3 29 2 *", "7 3 1 7 *", "0 8 3 1 1 *", "@yearly"}

// Specs the cron library rejects.
var c11Invalid = []string{"61 * * * *", "not a crontab", "* * *", ""}

// ------------------------------------------------------------------ part A: the manager alone

type c11Sm struct {
	sm       schedulemanager.ScheduleManager
	cancel   context.CancelFunc
	crontabs []string // index+1 = model number
	c        *Case
}

func newC11Sm(c *Case, crontabs []string, started bool) *c11Sm {
	ctx, cancel := context.WithCancel(context.Background())
	sm := schedulemanager.NewScheduleManager(ctx, log.NewNop())
	if started {
		sm.Start()
	}
	m := &c11Sm{sm: sm, cancel: cancel, crontabs: crontabs, c: c}
	decl := []string{}
	for i, s := range crontabs {
		v := 0
		if schedulemanager.VerifC11ParseOK(s) {
			v = 1
		}
		decl = append(decl, fmt.Sprintf("%d:%d", i+1, v))
	}
	c.Op("crontabs "+strings.Join(decl, " "), "ok")
	return m
}

func (m *c11Sm) num(crontab string) int {
	for i, s := range m.crontabs {
		if s == crontab {
			return i + 1
		}
	}
	return 0
}

// fireAll runs the job of every live cron registration and reads what it sends: `id@crontab` per
// registration (by id) and the sorted list of crontabs fired.
func c11FireAll(sm schedulemanager.ScheduleManager, num func(string) int) (string, string) {
	ids := schedulemanager.VerifC11CronEntries(sm)
	sort.Ints(ids)
	var live []string
	var fired []int
	for _, id := range ids {
		done := make(chan bool, 1)
		go func() { done <- schedulemanager.VerifC11Fire(sm, id) }()
		select {
		case crontab := <-sm.Ch():
			live = append(live, fmt.Sprintf("%d@%d", id, num(crontab)))
			fired = append(fired, num(crontab))
			<-done
		case ok := <-done:
			if ok {
				select {
				case crontab := <-sm.Ch():
					live = append(live, fmt.Sprintf("%d@%d", id, num(crontab)))
					fired = append(fired, num(crontab))
				case <-time.After(20 * time.Second):
					live = append(live, fmt.Sprintf("%d@silent", id))
				}
			} else {
				live = append(live, fmt.Sprintf("%d@gone", id))
			}
		case <-time.After(20 * time.Second):
			live = append(live, fmt.Sprintf("%d@timeout", id))
		}
	}
	sort.Ints(fired)
	return joinStrs(live), joinInts(fired)
}

// c11Live lists the live cron registrations as `id@crontab` by matching each registration's parsed
// schedule with the declared crontabs (no job is run), plus the sorted crontab list.
func c11Live(sm schedulemanager.ScheduleManager, crontabs []string) (string, string) {
	all := schedulemanager.VerifC11CronEntries(sm)
	sort.Ints(all)
	of := map[int]int{}
	for i, spec := range crontabs {
		for _, id := range schedulemanager.VerifC11EntriesFor(sm, spec) {
			of[id] = i + 1
		}
	}
	var live []string
	var fired []int
	for _, id := range all {
		live = append(live, fmt.Sprintf("%d@%d", id, of[id]))
		fired = append(fired, of[id])
	}
	sort.Ints(fired)
	return joinStrs(live), joinInts(fired)
}

func c11Dump(sm schedulemanager.ScheduleManager, num func(string) int, idNum func(string) int) string {
	var rows []string
	type row struct {
		c int
		s string
	}
	var rs []row
	for _, e := range schedulemanager.VerifC11Dump(sm) {
		var ids []int
		for _, id := range e.Ids {
			ids = append(ids, idNum(id))
		}
		sort.Ints(ids)
		s := "_"
		if len(ids) > 0 {
			ss := make([]string, len(ids))
			for i, x := range ids {
				ss[i] = fmt.Sprint(x)
			}
			s = strings.Join(ss, "+")
		}
		rs = append(rs, row{num(e.Crontab), fmt.Sprintf("%d:%d:%s", num(e.Crontab), e.EntryID, s)})
	}
	sort.Slice(rs, func(i, j int) bool { return rs[i].c < rs[j].c })
	for _, r := range rs {
		rows = append(rows, r.s)
	}
	if len(rows) == 0 {
		return "-"
	}
	return strings.Join(rows, ";")
}

func (m *c11Sm) op(kind string, cn, id int) {
	ans := Catch(func() string {
		e := smtypes.ScheduleEntry{Crontab: m.crontabs[cn-1], Id: fmt.Sprintf("id%d", id)}
		if kind == "add" {
			m.sm.Add(e)
		} else {
			m.sm.Remove(e)
		}
		idNum := func(s string) int {
			var n int
			fmt.Sscanf(s, "id%d", &n)
			return n
		}
		live, fired := c11FireAll(m.sm, m.num)
		if l2, _ := c11Live(m.sm, m.crontabs); l2 != live {
			live = "fired:" + live + "!=scheduled:" + l2
		}
		m.c.Op(fmt.Sprintf("%s %d %d", kind, cn, id), fmt.Sprintf("entries=%s cron=%s", c11Dump(m.sm, m.num, idNum), live))
		m.c.Oracle("live fired=" + fired)
		return ""
	})
	if ans != "" {
		m.c.Op(fmt.Sprintf("%s %d %d", kind, cn, id), ans)
	}
}

func (m *c11Sm) close() { m.cancel() }

// ------------------------------------------------------------------ part B: hooks, controller, operator callback

type c11Sched struct {
	name, crontab, queue, group string
	allowFailure                bool
	includes                    []string
}
type c11Kube struct{ name, group string }
type c11Hook struct {
	file   string
	kubes  []c11Kube
	scheds []c11Sched
}

func (h c11Hook) yaml() string {
	var b strings.Builder
	b.WriteString("configVersion: v1\n")
	if len(h.kubes) > 0 {
		b.WriteString("kubernetes:\n")
		for _, k := range h.kubes {
			b.WriteString("- apiVersion: v1\n  kind: ConfigMap\n")
			if k.name != "" {
				fmt.Fprintf(&b, "  name: %s\n", k.name)
			}
			if k.group != "" {
				fmt.Fprintf(&b, "  group: %s\n", k.group)
			}
		}
	}
	if len(h.scheds) > 0 {
		b.WriteString("schedule:\n")
		for _, s := range h.scheds {
			fmt.Fprintf(&b, "- crontab: %q\n", s.crontab)
			if s.name != "" {
				fmt.Fprintf(&b, "  name: %s\n", s.name)
			}
			if s.queue != "" {
				fmt.Fprintf(&b, "  queue: %s\n", s.queue)
			}
			if s.group != "" {
				fmt.Fprintf(&b, "  group: %s\n", s.group)
			}
			if s.allowFailure {
				b.WriteString("  allowFailure: true\n")
			}
			if len(s.includes) > 0 {
				fmt.Fprintf(&b, "  includeSnapshotsFrom: [%s]\n", strings.Join(s.includes, ", "))
			}
		}
	}
	return b.String()
}

type c11Sys struct {
	c        *Case
	op       *shell_operator.ShellOperator
	cancel   context.CancelFunc
	in       *Interner
	crontabs []string
	hookIdx  map[string]int // hook name -> model number (position in hooksInOrder[Schedule] + 1)
	hookName []string
	idNum    map[string]int // schedule entry uuid -> model id
	queues   []string       // all queues (sorted by model number order of declaration)
	enTasks  map[string]task.Task
	started  bool
}

func (s *c11Sys) cnum(crontab string) int {
	for i, x := range s.crontabs {
		if x == crontab {
			return i + 1
		}
	}
	return 0
}

func (s *c11Sys) incl(xs []string) string {
	if len(xs) == 0 {
		return "_"
	}
	ss := make([]string, len(xs))
	for i, x := range xs {
		ss[i] = fmt.Sprint(s.in.Id("snap/" + x))
	}
	return strings.Join(ss, "+")
}

// renderTask is the observation of one task: hook, binding, group, allowFailure, the context's
// binding / includeSnapshots / group, and the queue it was found in (or names, for `cb`).
func (s *c11Sys) renderTask(t task.Task, foundIn string) string {
	hm := task_metadata.HookMetadataAccessor(t)
	h, ok := s.hookIdx[hm.HookName]
	if !ok {
		return "unknown-hook!" + hm.HookName
	}
	if t.GetType() != task_metadata.HookRun || hm.BindingType != htypes.Schedule || len(hm.BindingContext) != 1 ||
		hm.BindingContext[0].Metadata.BindingType != htypes.Schedule {
		return fmt.Sprintf("bad-task-shape!%s/%s/%d", t.GetType(), hm.BindingType, len(hm.BindingContext))
	}
	if foundIn != t.GetQueueName() {
		return fmt.Sprintf("misplaced!%s-in-%s", t.GetQueueName(), foundIn)
	}
	bc := hm.BindingContext[0]
	return fmt.Sprintf("%d:%d:%d:%v:%d:%s:%d:%d", h, s.in.Id("name/"+hm.Binding), s.in.Id("group/"+hm.Group), hm.AllowFailure,
		s.in.Id("name/"+bc.Binding), s.incl(bc.Metadata.IncludeSnapshots), s.in.Id("group/"+bc.Metadata.Group), s.in.Id("queue/"+foundIn))
}

func (s *c11Sys) idOf(uuid string) int { return s.idNum[uuid] }

func (s *c11Sys) smObs() (string, string) {
	live, fired := c11Live(s.op.ScheduleManager, s.crontabs)
	return fmt.Sprintf("entries=%s cron=%s", c11Dump(s.op.ScheduleManager, s.cnum, s.idOf), live), fired
}

func newC11Sys(r *Run, c *Case, hooks []c11Hook, crontabs []string) (*c11Sys, string) {
	dir := filepath.Join(r.Scratch, fmt.Sprintf("c11-%d", c.Idx))
	hooksDir := filepath.Join(dir, "hooks")
	tmpDir := filepath.Join(dir, "tmp")
	_ = os.MkdirAll(hooksDir, 0o755)
	_ = os.MkdirAll(tmpDir, 0o755)
	for _, h := range hooks {
		script := "#!/bin/bash\nif [[ \"$1\" == \"--config\" ]]; then\ncat <<'EOF'\n" + h.yaml() + "EOF\nfi\n"
		if err := writeScript(filepath.Join(hooksDir, h.file), []byte(script), 0o755); err != nil {
			return nil, "scratch: " + err.Error()
		}
	}
	ctx, cancel := context.WithCancel(context.Background())
	op, err := shell_operator.VerifC11Setup(ctx, hooksDir, tmpDir, log.NewNop())
	// ETXTBSY: a script written by this process can still be open for writing in a child forked by
	// another case at that instant (golang/go#22315); not a property of the code under test — retry.
	for try := 0; err != nil && strings.Contains(err.Error(), "text file busy") && try < 200; try++ {
		time.Sleep(5 * time.Millisecond)
		op, err = shell_operator.VerifC11Setup(ctx, hooksDir, tmpDir, log.NewNop())
	}
	if err != nil {
		cancel()
		return nil, "setup: " + err.Error()
	}
	op.VerifC11CreateHookQueues()
	s := &c11Sys{c: c, op: op, cancel: cancel, in: NewInterner(), crontabs: crontabs, hookIdx: map[string]int{},
		idNum: map[string]int{}, enTasks: map[string]task.Task{}}
	decl := []string{}
	for i := range crontabs {
		decl = append(decl, fmt.Sprintf("%d:1", i+1))
	}
	c.Op("crontabs "+strings.Join(decl, " "), "ok")
	// queues that exist
	var qs []string
	op.TaskQueues.Iterate(func(q *queue.TaskQueue) { qs = append(qs, q.Name) })
	sort.Strings(qs)
	s.queues = qs
	for _, q := range qs {
		c.Op(fmt.Sprintf("queue %d", s.in.Id("queue/"+q)), "ok")
	}
	// the effective schedule bindings (what C10 is about) are the model's configuration
	names, _ := op.HookManager.GetHooksInOrder(htypes.Schedule)
	nextID := 100
	for i, name := range names {
		s.hookIdx[name] = i + 1
		s.hookName = append(s.hookName, name)
		c.Op(fmt.Sprintf("hook %d", i+1), "ok")
		for _, b := range op.HookManager.GetHook(name).GetConfig().Schedules {
			nextID++
			s.idNum[b.ScheduleEntry.Id] = nextID
			c.Op(fmt.Sprintf("binding %d %d %d %d %s %v %d %d", i+1, nextID, s.in.Id("name/"+b.BindingName), s.cnum(b.ScheduleEntry.Crontab),
				s.incl(b.IncludeSnapshotsFrom), b.AllowFailure, s.in.Id("queue/"+b.Queue), s.in.Id("group/"+b.Group)), "ok")
		}
	}
	// the EnableScheduleBindings tasks bootstrapMainQueue queued, one per hook with schedules
	op.TaskQueues.GetMain().Iterate(func(t task.Task) {
		if t.GetType() == task_metadata.EnableScheduleBindings {
			s.enTasks[task_metadata.HookMetadataAccessor(t).HookName] = t
		}
	})
	return s, ""
}

func (s *c11Sys) enable(h int) {
	name := s.hookName[h-1]
	t, ok := s.enTasks[name]
	if !ok {
		s.c.Op(fmt.Sprintf("enable %d", h), "no-enable-task-in-main-queue")
		return
	}
	res := s.op.VerifC11TaskHandler(t)
	obs, fired := s.smObs()
	if res.Status != "Success" {
		obs = "status=" + string(res.Status) + " " + obs
	}
	s.c.Op(fmt.Sprintf("enable %d", h), obs)
	s.c.Oracle("live fired=" + fired)
}

func (s *c11Sys) disable(h int) {
	s.op.HookManager.GetHook(s.hookName[h-1]).HookController.DisableScheduleBindings()
	obs, fired := s.smObs()
	s.c.Op(fmt.Sprintf("disable %d", h), obs)
	s.c.Oracle("live fired=" + fired)
}

// cb calls the operator's schedule callback directly (one event).
func (s *c11Sys) cb(cn int) int {
	ts := s.op.VerifC11ScheduleCb(s.crontabs[cn-1])
	var out []string
	for _, t := range ts {
		out = append(out, s.renderTask(t, t.GetQueueName()))
	}
	sort.Strings(out)
	s.c.Op(fmt.Sprintf("cb %d", cn), joinStrs(out))
	return len(out)
}

// drain empties every queue except main and returns the rendered tasks per queue.
func (s *c11Sys) drain() map[string][]string {
	res := map[string][]string{}
	for _, qn := range s.queues {
		q := s.op.TaskQueues.GetByName(qn)
		if q == nil {
			continue
		}
		var keep []task.Task
		q.Iterate(func(t task.Task) {
			if t.GetType() == task_metadata.HookRun && task_metadata.HookMetadataAccessor(t).BindingType == htypes.Schedule {
				res[qn] = append(res[qn], s.renderTask(t, qn))
			} else {
				keep = append(keep, t)
			}
		})
		q.Filter(func(t task.Task) bool {
			for _, k := range keep {
				if k.GetId() == t.GetId() {
					return true
				}
			}
			return false
		})
	}
	return res
}

// tick injects one wall-clock tick of the crontab: the job of every live cron registration whose
// schedule is that crontab's is run (each sends to ScheduleCh, capacity 1), the started
// ManagerEventsHandler turns the events into tasks and appends them to the queues. Barrier without
// timing: two dummy events (a crontab no hook has) are sent afterwards; the handler handles one event
// completely before it receives the next, so when the second dummy has been accepted by the channel
// the first has been received, i.e. every event of the tick has been turned into queued tasks.
func (s *c11Sys) tick(cn int) int {
	if !s.started {
		s.op.ManagerEventsHandler.Start()
		s.started = true
	}
	sm := s.op.ScheduleManager
	line := fmt.Sprintf("tick %d", cn)
	for _, id := range schedulemanager.VerifC11EntriesFor(sm, s.crontabs[cn-1]) {
		if !schedulemanager.VerifC11Fire(sm, id) {
			s.c.Op(line, "entry-gone")
			return 0
		}
	}
	for i := 0; i < 2; i++ {
		select {
		case sm.Ch() <- "verif-barrier":
		case <-time.After(30 * time.Second):
			s.c.Op(line, "events-handler-stalled")
			return 0
		}
	}
	got := s.drain()
	var parts []string
	var all []string
	type qrow struct {
		n int
		s string
	}
	var rows []qrow
	for _, qn := range s.queues {
		ts := got[qn]
		sort.Strings(ts)
		all = append(all, ts...)
		rows = append(rows, qrow{s.in.Id("queue/" + qn), fmt.Sprintf("q%d=%s", s.in.Id("queue/"+qn), joinStrs(ts))})
	}
	for _, r := range rows {
		parts = append(parts, r.s)
	}
	s.c.Op(line, strings.Join(parts, " "))
	sort.Strings(all)
	s.c.Oracle(fmt.Sprintf("tick c=%d tasks=%s", cn, joinStrs(all)))
	return len(all)
}

func (s *c11Sys) close() {
	s.op.ScheduleManager.Stop()
	s.cancel()
}

func c11GenHooks(rng *Rng, crontabs []string) []c11Hook {
	nh := rng.Range(1, 4)
	queues := []string{"", "", "q1", "q2"}
	groups := []string{"", "", "g1", "g2"}
	var hooks []c11Hook
	for i := 0; i < nh; i++ {
		h := c11Hook{file: fmt.Sprintf("hook%d.sh", i+1)}
		nk := rng.Intn(3)
		for k := 0; k < nk; k++ {
			h.kubes = append(h.kubes, c11Kube{name: fmt.Sprintf("kube%d", k+1), group: PickOne(rng, groups)})
		}
		ns := rng.Range(0, 3)
		if (i == 0 || nk == 0) && ns == 0 {
			ns = 1
		}
		for k := 0; k < ns; k++ {
			s := c11Sched{crontab: PickOne(rng, crontabs), queue: PickOne(rng, queues), group: PickOne(rng, groups), allowFailure: rng.Bool()}
			if rng.Chance(70) {
				s.name = PickOne(rng, []string{"every", "nightly", fmt.Sprintf("s%d", k+1)})
			}
			for _, kb := range h.kubes {
				if rng.Chance(40) {
					s.includes = append(s.includes, kb.name)
				}
			}
			h.scheds = append(h.scheds, s)
		}
		hooks = append(hooks, h)
	}
	return hooks
}

func runC11(r *Run) {
	r.Rule = "part A: random histories (<= 30 ops) of scheduleManager.Add/Remove over 3 crontabs x 4 ids on a real manager (started or not; in 35% of the cases one crontab is a spec the cron library rejects), repeats and unknown pairs included; after every op every live cron registration's job is run and the crontab it sends is read back. part B: 1-4 generated hooks with 0-3 schedule bindings each over 3 crontabs, sharing crontabs, queues and groups, loaded by the real hook manager (--config); histories (<= 30 ops) of EnableScheduleBindings (the task from the main queue through taskHandler) / DisableScheduleBindings / direct schedule callback / injected ticks through the started ManagerEventsHandler into the real queues. thorough adds every Add/Remove history of length <= 5 over 2 crontabs x 2 ids and every enable/disable history of length <= 4 over two hooks that share a crontab and a queue (a tick of each crontab after every op). A case is non-trivial when (A) it contains a repeated add, a removal of an unknown pair and a removal that empties a crontab, or (B) two bindings share a crontab and some tick produced >= 2 tasks; distinct = distinct op-line sequences."
	// corpus: the asymmetries of Add/Remove read off the code
	r.One(0, func(c *Case, _ *Rng) {
		c.Desc = "corpus: same id added twice then removed once; unknown pair; invalid crontab between valid ones"
		c.Nontrivial = true
		m := newC11Sm(c, []string{c11Valid[0], c11Valid[1], c11Invalid[0]}, false)
		defer m.close()
		for _, o := range []struct {
			k    string
			c, i int
		}{{"add", 1, 1}, {"add", 1, 1}, {"remove", 1, 1}, {"remove", 1, 1}, {"remove", 2, 3}, {"add", 1, 2}, {"add", 3, 1},
			{"add", 2, 1}, {"remove", 3, 1}, {"add", 3, 2}, {"add", 3, 2}, {"remove", 1, 9}, {"remove", 3, 2}, {"add", 1, 1}, {"remove", 1, 2}, {"remove", 1, 1}} {
			m.op(o.k, o.c, o.i)
		}
	})
	r.One(1, func(c *Case, _ *Rng) {
		c.Desc = "corpus: started cron, invalid crontab first (entry id 0), then valid"
		c.Nontrivial = true
		m := newC11Sm(c, []string{c11Invalid[1], c11Valid[0], c11Valid[2]}, true)
		defer m.close()
		for _, o := range []struct {
			k    string
			c, i int
		}{{"add", 1, 1}, {"add", 2, 1}, {"remove", 1, 1}, {"add", 3, 1}, {"add", 3, 2}, {"remove", 2, 1}, {"remove", 3, 1}, {"remove", 3, 2}, {"remove", 3, 2}} {
			m.op(o.k, o.c, o.i)
		}
	})
	nA := r.N(1500, 12000)
	r.Cases(10, nA, 0, func(c *Case, rng *Rng) {
		cts := []string{}
		perm := []int{0, 1, 2, 3, 4}
		rng.Shuffle(len(perm), func(i, j int) { perm[i], perm[j] = perm[j], perm[i] })
		for i := 0; i < 3; i++ {
			cts = append(cts, c11Valid[perm[i]])
		}
		if rng.Chance(35) {
			cts[rng.Intn(3)] = PickOne(rng, c11Invalid)
			c.Note("A:with-invalid-crontab")
		}
		started := rng.Bool()
		m := newC11Sm(c, cts, started)
		defer m.close()
		n := rng.Range(3, 30)
		reg := map[[2]int]bool{}
		rep, unk, emptied := false, false, false
		for i := 0; i < n; i++ {
			cn, id := rng.Range(1, 3), rng.Range(1, 4)
			if rng.Chance(55) {
				if reg[[2]int{cn, id}] {
					rep = true
				}
				reg[[2]int{cn, id}] = true
				m.op("add", cn, id)
			} else {
				if !reg[[2]int{cn, id}] {
					unk = true
				} else {
					delete(reg, [2]int{cn, id})
					left := 0
					for k := range reg {
						if k[0] == cn {
							left++
						}
					}
					if left == 0 {
						emptied = true
					}
				}
				m.op("remove", cn, id)
			}
		}
		c.Nontrivial = rep && unk && emptied
		c.Note(fmt.Sprintf("A:len<=%d", (n/10+1)*10))
		c.Desc = fmt.Sprintf("A started=%v", started)
	})
	nB := r.N(120, 900)
	r.Cases(100000, nB, 0, func(c *Case, rng *Rng) {
		perm := []int{0, 1, 2, 3, 4}
		rng.Shuffle(len(perm), func(i, j int) { perm[i], perm[j] = perm[j], perm[i] })
		cts := []string{c11Valid[perm[0]], c11Valid[perm[1]], c11Valid[perm[2]]}
		hooks := c11GenHooks(rng, cts)
		s, err := newC11Sys(r, c, hooks, cts)
		if err != "" {
			c.Op("setup", err)
			return
		}
		defer s.close()
		if rng.Bool() {
			s.op.ScheduleManager.Start()
			c.Note("B:cron-started")
		}
		nh := len(s.hookName)
		n := rng.Range(4, 30)
		maxTasks := 0
		var used []int
		for _, h := range hooks {
			for _, b := range h.scheds {
				used = append(used, s.cnum(b.crontab))
			}
		}
		pickC := func() int {
			if len(used) > 0 && rng.Chance(80) {
				return PickOne(rng, used)
			}
			return rng.Range(1, 3)
		}
		for i := 0; i < n; i++ {
			k := rng.Intn(100)
			h := rng.Range(1, nh)
			switch {
			case k < 35:
				s.enable(h)
			case k < 50:
				s.disable(h)
			case k < 65:
				s.cb(pickC())
			default:
				if t := s.tick(pickC()); t > maxTasks {
					maxTasks = t
				}
			}
			if c.Inconcl != "" {
				return
			}
		}
		shared := false
		seen := map[string]int{}
		for _, h := range hooks {
			for _, b := range h.scheds {
				seen[b.crontab]++
				if seen[b.crontab] > 1 {
					shared = true
				}
			}
		}
		c.Nontrivial = shared && maxTasks >= 2
		c.Note(fmt.Sprintf("B:hooks-with-schedules=%d", nh))
		if maxTasks >= 2 {
			c.Note("B:tick-with>=2-tasks")
		}
		c.Desc = fmt.Sprintf("B hooks=%d", len(hooks))
	})
	if r.Thorough() {
		// every Add/Remove history of length <= 5 over 2 crontabs x 2 ids
		type o struct{ k, c, i int }
		var alpha []o
		for k := 0; k < 2; k++ {
			for cn := 1; cn <= 2; cn++ {
				for id := 1; id <= 2; id++ {
					alpha = append(alpha, o{k, cn, id})
				}
			}
		}
		var hist [][]o
		var gen func(cur []o, d int)
		gen = func(cur []o, d int) {
			if len(cur) > 0 {
				hist = append(hist, append([]o{}, cur...))
			}
			if d == 0 {
				return
			}
			for _, a := range alpha {
				gen(append(cur, a), d-1)
			}
		}
		gen(nil, 5)
		r.Exhaust = true
		r.Extra["exhaustive_scope"] = fmt.Sprintf("all %d Add/Remove histories of length 1..5 over 2 crontabs x 2 ids (unstarted cron)", len(hist))
		// every enable/disable history of length <= 4 over two hooks sharing a crontab and a queue; after
		// every op one injected tick of each crontab
		sysAlpha := []string{"e1", "e2", "d1", "d2"}
		var sysHist [][]string
		var genS func(cur []string, d int)
		genS = func(cur []string, d int) {
			if len(cur) > 0 {
				sysHist = append(sysHist, append([]string{}, cur...))
			}
			if d == 0 {
				return
			}
			for _, a := range sysAlpha {
				genS(append(cur, a), d-1)
			}
		}
		genS(nil, 4)
		r.Extra["exhaustive_scope_B"] = fmt.Sprintf("all %d enable/disable histories of length 1..4 over 2 hooks (3 schedule bindings, shared crontab and queue), a tick of both crontabs after every op", len(sysHist))
		r.Cases(2000000, len(sysHist), 0, func(c *Case, _ *Rng) {
			cts := []string{c11Valid[0], c11Valid[1], c11Valid[2]}
			hooks := []c11Hook{
				{file: "hook1.sh", kubes: []c11Kube{{name: "k1", group: "g1"}}, scheds: []c11Sched{
					{name: "s1", crontab: cts[0], queue: "q1", group: "g1", includes: []string{"k1"}}, {crontab: cts[1]}}},
				{file: "hook2.sh", scheds: []c11Sched{{name: "s1", crontab: cts[0], queue: "q1", allowFailure: true}}},
			}
			s, err := newC11Sys(r, c, hooks, cts)
			if err != "" {
				c.Op("setup", err)
				return
			}
			defer s.close()
			for _, o := range sysHist[c.Idx-2000000] {
				h := int(o[1] - '0')
				if o[0] == 'e' {
					s.enable(h)
				} else {
					s.disable(h)
				}
				s.tick(1)
				s.tick(2)
				if c.Inconcl != "" {
					return
				}
			}
			c.Nontrivial = len(sysHist[c.Idx-2000000]) >= 2
			c.Note("B:exhaustive")
			c.Desc = "B exhaustive " + strings.Join(sysHist[c.Idx-2000000], ",")
		})
		r.Cases(1000000, len(hist), 0, func(c *Case, _ *Rng) {
			hs := hist[c.Idx-1000000]
			m := newC11Sm(c, []string{c11Valid[0], c11Valid[1]}, false)
			defer m.close()
			for _, a := range hs {
				if a.k == 0 {
					m.op("add", a.c, a.i)
				} else {
					m.op("remove", a.c, a.i)
				}
			}
			c.Nontrivial = len(hs) >= 3
			c.Note("A:exhaustive")
		})
	}
}
