package main

import (
	"context"
	"encoding/json"
	"fmt"
	"os"
	"path/filepath"
	"reflect"
	"sort"
	"strings"
	"time"

	"github.com/deckhouse/deckhouse/pkg/log"

	hookconfig "github.com/flant/shell-operator/pkg/hook/config"
	"github.com/flant/shell-operator/pkg/hook/task_metadata"
	htypes "github.com/flant/shell-operator/pkg/hook/types"
	schedulemanager "github.com/flant/shell-operator/pkg/schedule_manager"
	smtypes "github.com/flant/shell-operator/pkg/schedule_manager/types"
	shell_operator "github.com/flant/shell-operator/pkg/shell-operator"
	"github.com/flant/shell-operator/pkg/task"
	"github.com/flant/shell-operator/pkg/task/queue"
)

func init() { suites["c11"] = runC11 }

// Crontabs that parse and do not come due while a check runs (1 January / 29 February / 1 July, 03:07).
var c11Valid = []string{"7 3 1 1 *", "7 3 29 2 *", "7 3 1 7 *", "0 8 3 1 1 *", "@yearly"}

// Specs the cron library rejects.
var c11Invalid = []string{"61 * * * *", "not a crontab", "* * *", ""}

// ---- crontab spellings ---------------------------------------------------------------------------
//
// A crontab is a STRING: the manager keys its Entries map by it, the cron job sends it, the controller
// compares it with the link's. The cron parser accepts many spellings of one schedule (runs of blanks and
// tabs, leading/trailing blanks, 5 or 6 fields, month/day names in any case, leading zeros, one-element
// ranges and lists, `?` for `*`, descriptors, a TZ= prefix). Every generated spelling is calibrated against
// the real config check (config.ParseCrontab, i.e. what a hook configuration may contain): it is used only
// if it is accepted AND parses to the schedule of its class. All schedules are rare dates (03:0x on
// 1 January / 29 February / 1 July, or a year from now) so that a started cron does not fire by itself.

// c11Class is one schedule: six fields (second minute hour day-of-month month day-of-week) and, for the
// classes that have them, descriptor spellings.
type c11Class struct {
	fields      [6]string
	descriptors []string
}

var c11Classes = []c11Class{
	{fields: [6]string{"0", "7", "3", "1", "1", "*"}},
	{fields: [6]string{"0", "7", "3", "29", "2", "*"}},
	{fields: [6]string{"0", "7", "3", "1", "7", "*"}},
	{fields: [6]string{"0", "8", "3", "1", "1", "*"}},
	{fields: [6]string{"0", "0", "0", "1", "1", "*"}, descriptors: []string{"@yearly", "@annually"}},
	{fields: [6]string{"30", "9", "3", "29", "2", "1"}},
	{descriptors: []string{"@every 8760h", "@every 8760h0m0s", "@every 525600m", "@every 8760h0s"}},
}

var c11MonthNames = []string{"", "jan", "feb", "mar", "apr", "may", "jun", "jul", "aug", "sep", "oct", "nov", "dec"}
var c11DowNames = []string{"sun", "mon", "tue", "wed", "thu", "fri", "sat"}

func (k c11Class) canonical() string {
	if k.fields[0] == "" {
		return k.descriptors[0]
	}
	if k.fields[0] == "0" {
		return strings.Join(k.fields[1:], " ")
	}
	return strings.Join(k.fields[:], " ")
}

func c11Case(rng *Rng, s string) string {
	switch rng.Intn(3) {
	case 0:
		return strings.ToUpper(s)
	case 1:
		return strings.ToUpper(s[:1]) + s[1:]
	}
	return s
}

// c11SameSchedule: both are accepted by the hook-config check and parse to the same schedule.
func c11SameSchedule(a, b string) bool {
	sa, ea := hookconfig.ParseCrontab(a)
	sb, eb := hookconfig.ParseCrontab(b)
	return ea == nil && eb == nil && reflect.DeepEqual(sa, sb)
}

// c11CameDue: a started cron fires by itself when a crontab comes due; the schedules are rare dates, but a
// check may run at 03:07 on 1 January. Such a case cannot be decided (tasks appear on their own).
func c11CameDue(c *Case, crontabs []string, start time.Time) {
	for _, spec := range crontabs {
		sch, err := hookconfig.ParseCrontab(spec)
		if err != nil || sch == nil {
			continue
		}
		if next := sch.Next(start.Add(-2 * time.Second)); !next.IsZero() && !next.After(time.Now().Add(2*time.Second)) {
			c.Inconcl = fmt.Sprintf("crontab %q came due while the case ran", spec)
		}
	}
}

// c11Spell writes the class in an unusual but legal way; the kinds used are returned for the input
// distribution. The result is calibrated by the caller.
func c11Spell(rng *Rng, k c11Class) (string, []string) {
	var kinds []string
	if k.fields[0] == "" || (len(k.descriptors) > 0 && rng.Chance(40)) {
		return PickOne(rng, k.descriptors), []string{"descriptor"}
	}
	f := k.fields
	for i := range f {
		n := 0
		if _, err := fmt.Sscanf(f[i], "%d", &n); err != nil {
			if f[i] == "*" && rng.Chance(25) {
				f[i] = "?"
				kinds = append(kinds, "question-mark")
			}
			continue
		}
		switch rng.Intn(12) {
		case 0:
			f[i] = "0" + f[i]
			kinds = append(kinds, "leading-zero")
		case 1:
			f[i] = f[i] + "-" + f[i]
			kinds = append(kinds, "range")
		case 2:
			f[i] = f[i] + "," + f[i]
			kinds = append(kinds, "list")
		case 3, 4, 5:
			if i == 4 {
				f[i] = c11Case(rng, c11MonthNames[n])
				kinds = append(kinds, "name")
			} else if i == 5 {
				f[i] = c11Case(rng, c11DowNames[n])
				kinds = append(kinds, "name")
			}
		}
	}
	fs := f[:]
	if f[0] == "0" && rng.Chance(60) {
		fs = f[1:]
	} else {
		kinds = append(kinds, "6-field")
	}
	var b strings.Builder
	if rng.Chance(8) {
		b.WriteString("TZ=Local ")
		kinds = append(kinds, "tz")
	}
	blanks := []string{" ", "  ", "\t", " \t", "   ", "\t\t"}
	if rng.Chance(25) {
		b.WriteString(PickOne(rng, blanks))
		kinds = append(kinds, "leading-blank")
	}
	odd := rng.Chance(65)
	wide := false
	for i, x := range fs {
		if i > 0 {
			sep := " "
			if odd && rng.Chance(50) {
				sep = PickOne(rng, blanks)
			}
			if sep != " " {
				wide = true
			}
			b.WriteString(sep)
		}
		b.WriteString(x)
	}
	if wide {
		kinds = append(kinds, "wide-separator")
	}
	if rng.Chance(25) {
		b.WriteString(PickOne(rng, []string{" ", "\t", "\n", "  "}))
		kinds = append(kinds, "trailing-blank")
	}
	return b.String(), kinds
}

// c11Near rewrites a crontab string without touching its tokens: other blanks between the fields, a
// leading / trailing blank added or dropped, or the case of its letters changed (month / weekday names).
// The caller calibrates the result (same schedule, accepted) and rejects a string it already has.
func c11Near(rng *Rng, s string) (string, []string) {
	if rng.Chance(25) {
		up, low := strings.ToUpper(s), strings.ToLower(s)
		if up != low && !strings.Contains(s, "TZ=") && !strings.HasPrefix(strings.TrimSpace(s), "@") {
			if s != up && rng.Bool() {
				return up, []string{"near:letter-case"}
			}
			if s != low {
				return low, []string{"near:letter-case"}
			}
		}
	}
	fs := strings.Fields(s)
	blanks := []string{" ", " ", "  ", "\t", " \t", "   "}
	var b strings.Builder
	if rng.Chance(30) {
		b.WriteString(PickOne(rng, blanks))
	}
	for i, x := range fs {
		if i > 0 {
			b.WriteString(PickOne(rng, blanks))
		}
		b.WriteString(x)
	}
	if rng.Chance(30) {
		b.WriteString(PickOne(rng, []string{" ", "\t", "\n", "  "}))
	}
	return b.String(), []string{"near:blanks-only"}
}

// c11PickCrontabs chooses the n crontab strings of a case (pairwise distinct strings). About a third of
// the cases keep the ordinary single-space spellings; in the others every crontab is respelled and, half
// of the time, two of them are different spellings of ONE schedule (they fire at the same instant, the
// manager must keep them apart, each binding must be triggered by its own spelling only).
func c11PickCrontabs(c *Case, rng *Rng, n int) []string {
	perm := make([]int, len(c11Classes))
	for i := range perm {
		perm[i] = i
	}
	rng.Shuffle(len(perm), func(i, j int) { perm[i], perm[j] = perm[j], perm[i] })
	var cts []string
	if rng.Chance(35) {
		for i := 0; i < n; i++ {
			cts = append(cts, c11Classes[perm[i]].canonical())
		}
		c.Note("crontabs:canonical")
		return cts
	}
	cls := make([]int, n)
	for i := range cls {
		cls[i] = perm[i]
	}
	if n >= 2 && rng.Chance(50) {
		cls[rng.Intn(n-1)+1] = cls[0]
		c.Note("crontabs:two-spellings-of-one-schedule")
	}
	for i := 0; i < n; i++ {
		k := c11Classes[cls[i]]
		got := ""
		// the second spelling of a schedule is, most of the time, a NEAR variant of the first one: the same
		// text up to blanks (other separators, leading / trailing blank) or up to the case of its letters —
		// strings that any "canonicalisation" of crontabs would identify although they are two crontabs
		near := i > 0 && cls[i] == cls[0] && rng.Chance(60)
		for try := 0; try < 20 && got == ""; try++ {
			s, kinds := c11Spell(rng, k)
			if near && try < 8 {
				s, kinds = c11Near(rng, cts[0])
			}
			if try >= 10 && try%2 == 0 {
				s, kinds = k.canonical(), nil
			}
			dup := false
			for _, x := range cts {
				dup = dup || x == s
			}
			if dup {
				continue
			}
			if !c11SameSchedule(s, k.canonical()) {
				c.Note("spelling-not-accepted-by-the-parser")
				continue
			}
			got = s
			for _, kd := range kinds {
				c.Note("spelling:" + kd)
			}
		}
		if got == "" {
			// no further distinct spelling of this class: take another class
			for _, j := range perm {
				s := c11Classes[j].canonical()
				dup := false
				for _, x := range cts {
					dup = dup || x == s
				}
				if !dup {
					got = s
					break
				}
			}
		}
		cts = append(cts, got)
	}
	return cts
}

// ------------------------------------------------------------------ part A: the manager alone

type c11Sm struct {
	sm       schedulemanager.ScheduleManager
	cancel   context.CancelFunc
	crontabs []string // index+1 = model number
	c        *Case
	start    time.Time
	started  bool
}

func newC11Sm(c *Case, crontabs []string, started bool) *c11Sm {
	ctx, cancel := context.WithCancel(context.Background())
	sm := schedulemanager.NewScheduleManager(ctx, log.NewNop())
	if started {
		sm.Start()
	}
	m := &c11Sm{sm: sm, cancel: cancel, crontabs: crontabs, c: c, start: time.Now(), started: started}
	decl := []string{}
	for i, s := range crontabs {
		v := 0
		if schedulemanager.VerifC11ParseOK(s) {
			v = 1
		}
		decl = append(decl, fmt.Sprintf("%d:%d", i+1, v))
	}
	c.Op("crontabs "+strings.Join(decl, " "), "ok")
	return m
}

func (m *c11Sm) num(crontab string) int {
	for i, s := range m.crontabs {
		if s == crontab {
			return i + 1
		}
	}
	return 0
}

// fireAll runs the job of every live cron registration and reads what it sends: `id@crontab` per
// registration (by id) and the sorted list of crontabs fired.
func c11FireAll(sm schedulemanager.ScheduleManager, num func(string) int) (string, string) {
	ids := schedulemanager.VerifC11CronEntries(sm)
	sort.Ints(ids)
	var live []string
	var fired []int
	for _, id := range ids {
		done := make(chan bool, 1)
		go func() { done <- schedulemanager.VerifC11Fire(sm, id) }()
		select {
		case crontab := <-sm.Ch():
			live = append(live, fmt.Sprintf("%d@%d", id, num(crontab)))
			fired = append(fired, num(crontab))
			<-done
		case ok := <-done:
			if ok {
				select {
				case crontab := <-sm.Ch():
					live = append(live, fmt.Sprintf("%d@%d", id, num(crontab)))
					fired = append(fired, num(crontab))
				case <-time.After(20 * time.Second):
					live = append(live, fmt.Sprintf("%d@silent", id))
				}
			} else {
				live = append(live, fmt.Sprintf("%d@gone", id))
			}
		case <-time.After(20 * time.Second):
			live = append(live, fmt.Sprintf("%d@timeout", id))
		}
	}
	sort.Ints(fired)
	return joinStrs(live), joinInts(fired)
}

// c11Owner maps the cron entry ids recorded in the Entries map to the crontab string of their row.
func c11Owner(sm schedulemanager.ScheduleManager) map[int]string {
	owner := map[int]string{}
	for _, e := range schedulemanager.VerifC11Dump(sm) {
		if e.EntryID != 0 {
			owner[e.EntryID] = e.Crontab
		}
	}
	return owner
}

// c11Live lists the live cron registrations as `id@crontab` by matching each registration's parsed
// schedule with the declared crontabs (no job is run), plus the sorted crontab list. When several
// declared crontabs are spellings of one schedule the registration is attributed to the spelling of the
// Entries row that holds its id (the first such spelling when no row does).
func c11Live(sm schedulemanager.ScheduleManager, crontabs []string) (string, string) {
	all := schedulemanager.VerifC11CronEntries(sm)
	sort.Ints(all)
	owner := c11Owner(sm)
	of := map[int]int{}
	for i, spec := range crontabs {
		for _, id := range schedulemanager.VerifC11EntriesFor(sm, spec) {
			if of[id] == 0 || owner[id] == spec {
				of[id] = i + 1
			}
		}
	}
	var live []string
	var fired []int
	for _, id := range all {
		live = append(live, fmt.Sprintf("%d@%d", id, of[id]))
		fired = append(fired, of[id])
	}
	sort.Ints(fired)
	return joinStrs(live), joinInts(fired)
}

func c11Dump(sm schedulemanager.ScheduleManager, num func(string) int, idNum func(string) int) string {
	var rows []string
	type row struct {
		c int
		s string
	}
	var rs []row
	for _, e := range schedulemanager.VerifC11Dump(sm) {
		var ids []int
		for _, id := range e.Ids {
			ids = append(ids, idNum(id))
		}
		sort.Ints(ids)
		s := "_"
		if len(ids) > 0 {
			ss := make([]string, len(ids))
			for i, x := range ids {
				ss[i] = fmt.Sprint(x)
			}
			s = strings.Join(ss, "+")
		}
		rs = append(rs, row{num(e.Crontab), fmt.Sprintf("%d:%d:%s", num(e.Crontab), e.EntryID, s)})
	}
	sort.Slice(rs, func(i, j int) bool { return rs[i].c < rs[j].c })
	for _, r := range rs {
		rows = append(rows, r.s)
	}
	if len(rows) == 0 {
		return "-"
	}
	return strings.Join(rows, ";")
}

func (m *c11Sm) op(kind string, cn, id int) {
	ans := Catch(func() string {
		e := smtypes.ScheduleEntry{Crontab: m.crontabs[cn-1], Id: fmt.Sprintf("id%d", id)}
		if kind == "add" {
			m.sm.Add(e)
		} else {
			m.sm.Remove(e)
		}
		idNum := func(s string) int {
			var n int
			fmt.Sscanf(s, "id%d", &n)
			return n
		}
		live, fired := c11FireAll(m.sm, m.num)
		if l2, _ := c11Live(m.sm, m.crontabs); l2 != live {
			live = "fired:" + live + "!=scheduled:" + l2
		}
		m.c.Op(fmt.Sprintf("%s %d %d", kind, cn, id), fmt.Sprintf("entries=%s cron=%s", c11Dump(m.sm, m.num, idNum), live))
		m.c.Oracle("live fired=" + fired)
		return ""
	})
	if ans != "" {
		m.c.Op(fmt.Sprintf("%s %d %d", kind, cn, id), ans)
	}
}

func (m *c11Sm) close() {
	if m.started {
		c11CameDue(m.c, m.crontabs, m.start)
	}
	m.cancel()
}

// ------------------------------------------------------------------ part B: hooks, controller, operator callback

type c11Sched struct {
	name, crontab, queue, group string
	allowFailure                bool
	includes                    []string
}
type c11Kube struct{ name, group string }
type c11Hook struct {
	file   string
	kubes  []c11Kube
	scheds []c11Sched
	v0     bool // legacy configuration format: {"schedule":[{"name","crontab","allowFailure"}]}, no configVersion
	json   bool // v1 configuration printed as JSON instead of YAML
}

func (h c11Hook) yaml() string {
	var b strings.Builder
	if h.v0 {
		type sch struct {
			Name         string `json:"name,omitempty"`
			Crontab      string `json:"crontab"`
			AllowFailure bool   `json:"allowFailure,omitempty"`
		}
		var l []sch
		for _, s := range h.scheds {
			l = append(l, sch{s.name, s.crontab, s.allowFailure})
		}
		m := map[string]interface{}{}
		if len(l) > 0 {
			m["schedule"] = l
		}
		if len(h.kubes) > 0 {
			var ks []map[string]interface{}
			for _, k := range h.kubes {
				ks = append(ks, map[string]interface{}{"name": k.name, "kind": "ConfigMap", "event": []string{"add"}})
			}
			m["onKubernetesEvent"] = ks
		}
		out, _ := json.Marshal(m)
		return string(out) + "\n"
	}
	if h.json {
		m := map[string]interface{}{"configVersion": "v1"}
		var ks, ss []map[string]interface{}
		for _, k := range h.kubes {
			e := map[string]interface{}{"apiVersion": "v1", "kind": "ConfigMap"}
			if k.name != "" {
				e["name"] = k.name
			}
			if k.group != "" {
				e["group"] = k.group
			}
			ks = append(ks, e)
		}
		for _, sc := range h.scheds {
			e := map[string]interface{}{"crontab": sc.crontab}
			if sc.name != "" {
				e["name"] = sc.name
			}
			if sc.queue != "" {
				e["queue"] = sc.queue
			}
			if sc.group != "" {
				e["group"] = sc.group
			}
			if sc.allowFailure {
				e["allowFailure"] = true
			}
			if len(sc.includes) > 0 {
				e["includeSnapshotsFrom"] = sc.includes
			}
			ss = append(ss, e)
		}
		if len(ks) > 0 {
			m["kubernetes"] = ks
		}
		if len(ss) > 0 {
			m["schedule"] = ss
		}
		out, _ := json.Marshal(m)
		return string(out) + "\n"
	}
	b.WriteString("configVersion: v1\n")
	if len(h.kubes) > 0 {
		b.WriteString("kubernetes:\n")
		for _, k := range h.kubes {
			b.WriteString("- apiVersion: v1\n  kind: ConfigMap\n")
			if k.name != "" {
				fmt.Fprintf(&b, "  name: %s\n", k.name)
			}
			if k.group != "" {
				fmt.Fprintf(&b, "  group: %s\n", k.group)
			}
		}
	}
	if len(h.scheds) > 0 {
		b.WriteString("schedule:\n")
		for _, s := range h.scheds {
			fmt.Fprintf(&b, "- crontab: %q\n", s.crontab)
			if s.name != "" {
				fmt.Fprintf(&b, "  name: %s\n", s.name)
			}
			if s.queue != "" {
				fmt.Fprintf(&b, "  queue: %s\n", s.queue)
			}
			if s.group != "" {
				fmt.Fprintf(&b, "  group: %s\n", s.group)
			}
			if s.allowFailure {
				b.WriteString("  allowFailure: true\n")
			}
			if len(s.includes) > 0 {
				fmt.Fprintf(&b, "  includeSnapshotsFrom: [%s]\n", strings.Join(s.includes, ", "))
			}
		}
	}
	return b.String()
}

type c11Sys struct {
	c        *Case
	op       *shell_operator.ShellOperator
	cancel   context.CancelFunc
	in       *Interner
	crontabs []string
	hookIdx  map[string]int // hook name -> model number (position among the declared hooks with schedules + 1)
	hookName []string
	idNum    map[string]int // schedule entry uuid -> model id
	queues   []string       // all queues (sorted by model number order of declaration)
	enTasks  map[string]task.Task
	started  bool
	start    time.Time
}

func (s *c11Sys) cnum(crontab string) int {
	for i, x := range s.crontabs {
		if x == crontab {
			return i + 1
		}
	}
	return 0
}

func (s *c11Sys) incl(xs []string) string {
	if len(xs) == 0 {
		return "_"
	}
	ss := make([]string, len(xs))
	for i, x := range xs {
		ss[i] = fmt.Sprint(s.in.Id("snap/" + x))
	}
	return strings.Join(ss, "+")
}

// renderTask is the observation of one task: hook, binding, group, allowFailure, the context's
// binding / includeSnapshots / group, and the queue it was found in (or names, for `cb`).
func (s *c11Sys) renderTask(t task.Task, foundIn string) string {
	hm := task_metadata.HookMetadataAccessor(t)
	h, ok := s.hookIdx[hm.HookName]
	if !ok {
		return "unknown-hook!" + hm.HookName
	}
	if t.GetType() != task_metadata.HookRun || hm.BindingType != htypes.Schedule || len(hm.BindingContext) != 1 ||
		hm.BindingContext[0].Metadata.BindingType != htypes.Schedule {
		return fmt.Sprintf("bad-task-shape!%s/%s/%d", t.GetType(), hm.BindingType, len(hm.BindingContext))
	}
	if foundIn != t.GetQueueName() {
		return fmt.Sprintf("misplaced!%s-in-%s", t.GetQueueName(), foundIn)
	}
	bc := hm.BindingContext[0]
	return fmt.Sprintf("%d:%d:%d:%v:%d:%s:%d:%d", h, s.in.Id("name/"+hm.Binding), s.in.Id("group/"+hm.Group), hm.AllowFailure,
		s.in.Id("name/"+bc.Binding), s.incl(bc.Metadata.IncludeSnapshots), s.in.Id("group/"+bc.Metadata.Group), s.in.Id("queue/"+foundIn))
}

func (s *c11Sys) idOf(uuid string) int { return s.idNum[uuid] }

func (s *c11Sys) smObs() (string, string) {
	live, fired := c11Live(s.op.ScheduleManager, s.crontabs)
	return fmt.Sprintf("entries=%s cron=%s", c11Dump(s.op.ScheduleManager, s.cnum, s.idOf), live), fired
}

func newC11Sys(r *Run, c *Case, hooks []c11Hook, crontabs []string) (*c11Sys, string) {
	dir := filepath.Join(r.Scratch, fmt.Sprintf("c11-%d", c.Idx))
	hooksDir := filepath.Join(dir, "hooks")
	tmpDir := filepath.Join(dir, "tmp")
	_ = os.MkdirAll(hooksDir, 0o755)
	_ = os.MkdirAll(tmpDir, 0o755)
	for _, h := range hooks {
		script := "#!/bin/bash\nif [[ \"$1\" == \"--config\" ]]; then\ncat <<'EOF'\n" + h.yaml() + "EOF\nfi\n"
		if err := writeScript(filepath.Join(hooksDir, h.file), []byte(script), 0o755); err != nil {
			return nil, "scratch: " + err.Error()
		}
	}
	ctx, cancel := context.WithCancel(context.Background())
	op, err := shell_operator.VerifC11Setup(ctx, hooksDir, tmpDir, log.NewNop())
	// ETXTBSY: a script written by this process can still be open for writing in a child forked by
	// another case at that instant (golang/go#22315); not a property of the code under test — retry.
	for try := 0; err != nil && strings.Contains(err.Error(), "text file busy") && try < 200; try++ {
		time.Sleep(5 * time.Millisecond)
		op, err = shell_operator.VerifC11Setup(ctx, hooksDir, tmpDir, log.NewNop())
	}
	if err != nil {
		cancel()
		return nil, "setup: " + err.Error()
	}
	op.VerifC11CreateHookQueues()
	s := &c11Sys{c: c, op: op, cancel: cancel, in: NewInterner(), crontabs: crontabs, hookIdx: map[string]int{},
		idNum: map[string]int{}, enTasks: map[string]task.Task{}, start: time.Now()}
	decl := []string{}
	for i := range crontabs {
		decl = append(decl, fmt.Sprintf("%d:1", i+1))
	}
	c.Op("crontabs "+strings.Join(decl, " "), "ok")
	// queues that exist
	var qs []string
	op.TaskQueues.Iterate(func(q *queue.TaskQueue) { qs = append(qs, q.Name) })
	sort.Strings(qs)
	s.queues = qs
	for _, q := range qs {
		c.Op(fmt.Sprintf("queue %d", s.in.Id("queue/"+q)), "ok")
	}
	// The model's configuration is what the hooks DECLARE (the generated --config output), loaded by the
	// model of config_v0.go / config_v1.go; the effective bindings the real loader handed to the
	// controllers are the implementation's answer (`decl` lines) and are judged by `oracle loaded`:
	// "that binding's name, group, allowFailure, snapshot list, queue" = the declared ones (absent name =
	// "schedule", absent queue = "main", group adds the group's kubernetes binding names).
	c.Op(fmt.Sprintf("defaults %d %d %d", s.in.Id("name/"+string(htypes.Schedule)), s.in.Id("queue/main"), s.in.Id("group/")), "ok")
	names, _ := op.HookManager.GetHooksInOrder(htypes.Schedule)
	inOrder := map[string]bool{}
	for _, n := range names {
		inOrder[n] = true
	}
	opt := func(pfx, v string) string {
		if v == "" {
			return "_"
		}
		return fmt.Sprint(s.in.Id(pfx + v))
	}
	nextID := 100
	hn := 0
	for _, dh := range hooks {
		if len(dh.scheds) == 0 {
			continue
		}
		hn++
		s.hookIdx[dh.file] = hn
		s.hookName = append(s.hookName, dh.file)
		ver, ans := "v1", "ok"
		if dh.v0 {
			ver = "v0"
		}
		if !inOrder[dh.file] {
			ans = "not-in-schedule-order"
		}
		c.Op(fmt.Sprintf("hook %d %s", hn, ver), ans)
		for _, k := range dh.kubes {
			c.Op(fmt.Sprintf("kube %d %d %d", hn, s.in.Id("snap/"+k.name), s.in.Id("group/"+k.group)), "ok")
		}
		var got []htypes.ScheduleConfig
		if inOrder[dh.file] {
			if hk := op.HookManager.GetHook(dh.file); hk != nil && hk.GetConfig() != nil {
				got = hk.GetConfig().Schedules
			}
		}
		for i, d := range dh.scheds {
			nextID++
			line := fmt.Sprintf("decl %d %d %s %d %s %v %s %d", hn, nextID, opt("name/", d.name), s.cnum(d.crontab),
				s.incl(d.includes), d.allowFailure, opt("queue/", d.queue), s.in.Id("group/"+d.group))
			if i >= len(got) {
				c.Op(line, "not-loaded")
				continue
			}
			b := got[i]
			s.idNum[b.ScheduleEntry.Id] = nextID
			obs := fmt.Sprintf("%d:%d:%s:%v:%d:%d", s.in.Id("name/"+b.BindingName), s.cnum(b.ScheduleEntry.Crontab),
				s.incl(b.IncludeSnapshotsFrom), b.AllowFailure, s.in.Id("queue/"+b.Queue), s.in.Id("group/"+b.Group))
			c.Op(line, obs)
			c.Oracle(fmt.Sprintf("loaded h=%d id=%d got=%s", hn, nextID, obs))
		}
		if len(got) > len(dh.scheds) {
			c.Op(fmt.Sprintf("extra-bindings %d", hn), fmt.Sprint(len(got)-len(dh.scheds)))
		}
	}
	for _, n := range names {
		if _, ok := s.hookIdx[n]; !ok {
			c.Op("undeclared-hook-in-schedule-order", n)
		}
	}
	// the reference counting is keyed by (crontab, binding id): ids identify bindings — over ALL hooks
	// (hypothesis huniq of the theorems, checked on the ids the real loader generated)
	nb := 0
	distinct := map[string]bool{}
	for _, n := range names {
		if hk := op.HookManager.GetHook(n); hk != nil && hk.GetConfig() != nil {
			for _, b := range hk.GetConfig().Schedules {
				nb++
				distinct[b.ScheduleEntry.Id] = true
			}
		}
	}
	c.Oracle(fmt.Sprintf("ids bindings=%d distinct=%d", nb, len(distinct)))
	// the EnableScheduleBindings tasks bootstrapMainQueue queued, one per hook with schedules
	op.TaskQueues.GetMain().Iterate(func(t task.Task) {
		if t.GetType() == task_metadata.EnableScheduleBindings {
			s.enTasks[task_metadata.HookMetadataAccessor(t).HookName] = t
		}
	})
	return s, ""
}

func (s *c11Sys) enable(h int) {
	name := s.hookName[h-1]
	t, ok := s.enTasks[name]
	if !ok {
		s.c.Op(fmt.Sprintf("enable %d", h), "no-enable-task-in-main-queue")
		return
	}
	res := s.op.VerifC11TaskHandler(t)
	obs, fired := s.smObs()
	if res.Status != "Success" {
		obs = "status=" + string(res.Status) + " " + obs
	}
	s.c.Op(fmt.Sprintf("enable %d", h), obs)
	s.c.Oracle("live fired=" + fired)
}

func (s *c11Sys) disable(h int) {
	s.op.HookManager.GetHook(s.hookName[h-1]).HookController.DisableScheduleBindings()
	obs, fired := s.smObs()
	s.c.Op(fmt.Sprintf("disable %d", h), obs)
	s.c.Oracle("live fired=" + fired)
}

// cb calls the operator's schedule callback directly (one event).
func (s *c11Sys) cb(cn int) int {
	ts := s.op.VerifC11ScheduleCb(s.crontabs[cn-1])
	var out []string
	for _, t := range ts {
		out = append(out, s.renderTask(t, t.GetQueueName()))
	}
	sort.Strings(out)
	s.c.Op(fmt.Sprintf("cb %d", cn), joinStrs(out))
	// one firing of the crontab = one event: the same clause as for an injected tick
	s.c.Oracle(fmt.Sprintf("event c=%d tasks=%s", cn, joinStrs(out)))
	return len(out)
}

// drain empties every queue except main and returns the rendered tasks per queue.
func (s *c11Sys) drain() map[string][]string {
	res := map[string][]string{}
	for _, qn := range s.queues {
		q := s.op.TaskQueues.GetByName(qn)
		if q == nil {
			continue
		}
		var keep []task.Task
		q.Iterate(func(t task.Task) {
			if t.GetType() == task_metadata.HookRun && task_metadata.HookMetadataAccessor(t).BindingType == htypes.Schedule {
				res[qn] = append(res[qn], s.renderTask(t, qn))
			} else {
				keep = append(keep, t)
			}
		})
		q.Filter(func(t task.Task) bool {
			for _, k := range keep {
				if k.GetId() == t.GetId() {
					return true
				}
			}
			return false
		})
	}
	return res
}

// spellings lists the declared crontabs (model numbers) that parse to the schedule of crontab cn,
// cn included: the crontabs a wall clock fires at the same instants.
func (s *c11Sys) spellings(cn int) []int {
	var res []int
	for i, x := range s.crontabs {
		if i+1 == cn || c11SameSchedule(x, s.crontabs[cn-1]) {
			res = append(res, i+1)
		}
	}
	return res
}

// regsOf lists the live cron registrations a firing of the crontab STRING cn runs: those whose schedule
// is the crontab's, except the ones the manager's Entries map records for another declared spelling of
// that schedule (a registration no row records is run: it fires at that instant whatever it sends).
func (s *c11Sys) regsOf(cn int) []int {
	sm := s.op.ScheduleManager
	owner := c11Owner(sm)
	var res []int
	for _, id := range schedulemanager.VerifC11EntriesFor(sm, s.crontabs[cn-1]) {
		if o, ok := owner[id]; ok && o != s.crontabs[cn-1] && s.cnum(o) != 0 {
			continue
		}
		res = append(res, id)
	}
	return res
}

// inject runs the jobs of the given cron registrations (each sends to ScheduleCh, capacity 1); the started
// ManagerEventsHandler turns the events into tasks and appends them to the queues. Barrier without
// timing: two dummy events (a crontab no hook has) are sent afterwards; the handler handles one event
// completely before it receives the next, so when the second dummy has been accepted by the channel
// the first has been received, i.e. every event of the tick has been turned into queued tasks.
// Returns the rendered queues (op answer) and all tasks, or "" and an error answer.
func (s *c11Sys) inject(ids []int) (string, []string, string) {
	if !s.started {
		s.op.ManagerEventsHandler.Start()
		s.started = true
	}
	sm := s.op.ScheduleManager
	for _, id := range ids {
		if !schedulemanager.VerifC11Fire(sm, id) {
			return "", nil, "entry-gone"
		}
	}
	for i := 0; i < 2; i++ {
		select {
		case sm.Ch() <- "verif-barrier":
		case <-time.After(30 * time.Second):
			return "", nil, "events-handler-stalled"
		}
	}
	got := s.drain()
	var parts []string
	var all []string
	for _, qn := range s.queues {
		ts := got[qn]
		sort.Strings(ts)
		all = append(all, ts...)
		parts = append(parts, fmt.Sprintf("q%d=%s", s.in.Id("queue/"+qn), joinStrs(ts)))
	}
	sort.Strings(all)
	return strings.Join(parts, " "), all, ""
}

// tick injects one firing of the crontab string cn (see regsOf).
func (s *c11Sys) tick(cn int) int {
	line := fmt.Sprintf("tick %d", cn)
	obs, all, err := s.inject(s.regsOf(cn))
	if err != "" {
		s.c.Op(line, err)
		return 0
	}
	s.c.Op(line, obs)
	s.c.Oracle(fmt.Sprintf("tick c=%d tasks=%s", cn, joinStrs(all)))
	return len(all)
}

// wtick injects one wall-clock instant at which the schedule of crontab cn is due: EVERY live
// registration with that schedule runs, whatever spelling registered it, one right after the other (the
// events queue up in ScheduleCh behind each other, as they do when cron fires them at one instant).
func (s *c11Sys) wtick(cn int) int {
	cs := s.spellings(cn)
	ss := make([]string, len(cs))
	for i, x := range cs {
		ss[i] = fmt.Sprint(x)
	}
	line := "wtick " + strings.Join(ss, "+")
	obs, all, err := s.inject(schedulemanager.VerifC11EntriesFor(s.op.ScheduleManager, s.crontabs[cn-1]))
	if err != "" {
		s.c.Op(line, err)
		return 0
	}
	s.c.Op(line, obs)
	s.c.Oracle(fmt.Sprintf("wtick cs=%s tasks=%s", strings.Join(ss, "+"), joinStrs(all)))
	return len(all)
}

func (s *c11Sys) close() {
	c11CameDue(s.c, s.crontabs, s.start)
	s.op.ScheduleManager.Stop()
	s.cancel()
}

// c11Configs renders the declared configurations (the hooks' --config outputs) for a case description.
func c11Configs(hooks []c11Hook) string {
	var parts []string
	for _, h := range hooks {
		parts = append(parts, fmt.Sprintf("%s=%q", h.file, h.yaml()))
	}
	return "[" + strings.Join(parts, " ") + "]"
}

func c11GenHooks(rng *Rng, crontabs []string) []c11Hook {
	nh := rng.Range(1, 4)
	queues := []string{"", "", "q1", "q2"}
	groups := []string{"", "", "g1", "g2"}
	var hooks []c11Hook
	for i := 0; i < nh; i++ {
		h := c11Hook{file: fmt.Sprintf("hook%d.sh", i+1), v0: rng.Chance(30)}
		h.json = !h.v0 && rng.Chance(25)
		nk := rng.Intn(3)
		if h.v0 && rng.Bool() {
			nk = 0
		}
		for k := 0; k < nk; k++ {
			kb := c11Kube{name: fmt.Sprintf("kube%d", k+1), group: PickOne(rng, groups)}
			if h.v0 {
				kb.group = "" // the v0 format has no groups
			}
			h.kubes = append(h.kubes, kb)
		}
		ns := rng.Range(0, 3)
		if (i == 0 || nk == 0) && ns == 0 {
			ns = 1
		}
		for k := 0; k < ns; k++ {
			s := c11Sched{crontab: PickOne(rng, crontabs), queue: PickOne(rng, queues), group: PickOne(rng, groups), allowFailure: rng.Bool()}
			if rng.Chance(70) {
				s.name = PickOne(rng, []string{"every", "nightly", fmt.Sprintf("s%d", k+1)})
			}
			for _, kb := range h.kubes {
				if rng.Chance(40) {
					s.includes = append(s.includes, kb.name)
				}
			}
			if h.v0 {
				s.queue, s.group, s.includes = "", "", nil
			}
			h.scheds = append(h.scheds, s)
		}
		hooks = append(hooks, h)
	}
	return hooks
}

func runC11(r *Run) {
	r.Rule = "crontabs: 3 pairwise distinct strings per case over 7 rare-date schedules; in 35% of the cases the ordinary single-space spellings, otherwise every crontab is respelled (runs of blanks/tabs between fields, leading/trailing blanks incl. newline, 5- or 6-field form, month/weekday names in any case, leading zeros, one-element ranges and lists, ? for *, descriptors @yearly/@annually/@every, TZ=Local prefix) and in half of those two crontabs are different spellings of ONE schedule; every spelling is calibrated against the real config check (accepted, same parsed schedule). part A: random histories (<= 30 ops) of scheduleManager.Add/Remove over 3 crontabs x 4 ids on a real manager (started or not; in 35% of the cases one crontab is a spec the cron library rejects), repeats and unknown pairs included; after every op every live cron registration's job is run and the crontab STRING it sends is read back. part B: 1-4 generated hooks with 0-3 schedule bindings each over the 3 crontabs, sharing crontabs, queues and groups (30% of the hooks in the legacy v0 configuration format — half of those with onKubernetesEvent bindings —, 25% of the v1 hooks print JSON instead of YAML; names, queues, groups, includeSnapshotsFrom present or absent), loaded by the real hook manager (--config); the model's configuration is what the hooks DECLARE, loaded by the model of config_v0.go/config_v1.go, and every binding the real loader hands to the controller is judged against its declaration (oracle loaded: absent name = schedule, absent queue = main, group adds the group's kubernetes binding names); histories (<= 30 ops) of EnableScheduleBindings (the task from the main queue through taskHandler) / DisableScheduleBindings / direct schedule callback (one event) / injected firings of one crontab string / injected wall-clock instants (every registration of the schedule, whatever spelling registered it, fired back to back) through the started ManagerEventsHandler into the real queues. thorough adds every Add/Remove history of length <= 5 over 2 crontabs x 2 ids and every enable/disable history of length <= 4 over two hooks that share a crontab and a queue (a tick of each crontab after every op). A case is non-trivial when (A) it contains a repeated add, a removal of an unknown pair and a removal that empties a crontab, or (B) two bindings share a crontab and some tick produced >= 2 tasks; distinct = distinct op-line sequences."
	// corpus: the asymmetries of Add/Remove read off the code
	r.One(0, func(c *Case, _ *Rng) {
		c.Desc = "corpus: same id added twice then removed once; unknown pair; invalid crontab between valid ones"
		c.Nontrivial = true
		m := newC11Sm(c, []string{c11Valid[0], c11Valid[1], c11Invalid[0]}, false)
		defer m.close()
		for _, o := range []struct {
			k    string
			c, i int
		}{{"add", 1, 1}, {"add", 1, 1}, {"remove", 1, 1}, {"remove", 1, 1}, {"remove", 2, 3}, {"add", 1, 2}, {"add", 3, 1},
			{"add", 2, 1}, {"remove", 3, 1}, {"add", 3, 2}, {"add", 3, 2}, {"remove", 1, 9}, {"remove", 3, 2}, {"add", 1, 1}, {"remove", 1, 2}, {"remove", 1, 1}} {
			m.op(o.k, o.c, o.i)
		}
	})
	r.One(1, func(c *Case, _ *Rng) {
		c.Desc = "corpus: started cron, invalid crontab first (entry id 0), then valid"
		c.Nontrivial = true
		m := newC11Sm(c, []string{c11Invalid[1], c11Valid[0], c11Valid[2]}, true)
		defer m.close()
		for _, o := range []struct {
			k    string
			c, i int
		}{{"add", 1, 1}, {"add", 2, 1}, {"remove", 1, 1}, {"add", 3, 1}, {"add", 3, 2}, {"remove", 2, 1}, {"remove", 3, 1}, {"remove", 3, 2}, {"remove", 3, 2}} {
			m.op(o.k, o.c, o.i)
		}
	})
	r.One(2, func(c *Case, _ *Rng) {
		c.Desc = "corpus: three spellings of one schedule (wide blanks; tab, month name, ?, trailing newline) are three crontabs: each has its own registration and sends its own string"
		c.Nontrivial = true
		m := newC11Sm(c, []string{"7 3 1 1 *", "7  3 1 1 *", "\t0 07 3 1 JAN ?\n"}, true)
		defer m.close()
		for _, o := range []struct {
			k    string
			c, i int
		}{{"add", 2, 1}, {"add", 1, 1}, {"add", 2, 2}, {"add", 3, 1}, {"remove", 1, 1}, {"remove", 2, 1}, {"add", 1, 2}, {"remove", 2, 2},
			{"remove", 2, 2}, {"add", 2, 1}, {"remove", 3, 1}, {"remove", 1, 2}, {"remove", 2, 1}} {
			m.op(o.k, o.c, o.i)
		}
	})
	r.One(3, func(c *Case, _ *Rng) {
		cts := []string{"7 3 1 1 *", "7  3 1 1 *", " 0 7\t3 01 jan * "}
		c.Desc = fmt.Sprintf("corpus: hooks whose crontabs are unusual spellings (one of them shares its schedule with a plainly spelled one) crontabs=%q", cts)
		c.Nontrivial = true
		hooks := []c11Hook{
			{file: "hook1.sh", scheds: []c11Sched{{name: "odd", crontab: cts[1], queue: "q1"}, {name: "six", crontab: cts[2], allowFailure: true}}},
			{file: "hook2.sh", scheds: []c11Sched{{name: "plain", crontab: cts[0], queue: "q1", group: "g1"}}},
		}
		s, err := newC11Sys(r, c, hooks, cts)
		if err != "" {
			c.Op("setup", err)
			return
		}
		defer s.close()
		all := func() {
			for cn := 1; cn <= 3; cn++ {
				s.tick(cn)
				s.cb(cn)
			}
			s.wtick(1)
		}
		s.enable(1)
		all()
		s.enable(2)
		all()
		s.disable(2)
		all()
		s.enable(2)
		s.disable(1)
		all()
	})
	r.One(4, func(c *Case, _ *Rng) {
		cts := []string{"7 3 1 1 *", "8 3 1 1 *", "9 3 1 1 *"}
		hooks := []c11Hook{
			// legacy v0 format: name, crontab, allowFailure only; queue "main", no group, no snapshots
			{file: "hook1.sh", v0: true, scheds: []c11Sched{{crontab: cts[0]}, {name: "legacy", crontab: cts[1], allowFailure: true}}},
			// v1, YAML: no queue / no name; group with kubernetes bindings, one of them listed explicitly
			{file: "hook2.sh", kubes: []c11Kube{{name: "k1", group: "g1"}, {name: "k2", group: "g1"}, {name: "k3"}},
				scheds: []c11Sched{{crontab: cts[0], group: "g1", includes: []string{"k2"}}, {name: "named", crontab: cts[1], queue: "q1", includes: []string{"k3"}}}},
			// v1, JSON
			{file: "hook3.sh", json: true, kubes: []c11Kube{{name: "k1", group: "g2"}},
				scheds: []c11Sched{{crontab: cts[0], queue: "q1", group: "g2", allowFailure: true}, {name: "named", crontab: cts[2]}}},
			// v0 with onKubernetesEvent next to the schedule
			{file: "hook4.sh", v0: true, kubes: []c11Kube{{name: "k1"}}, scheds: []c11Sched{{name: "named", crontab: cts[0]}}},
		}
		c.Desc = fmt.Sprintf("corpus: every way a schedule entry can be declared (v0 / v1 YAML / v1 JSON; absent name, absent queue, group with kubernetes bindings) crontabs=%q configs=%s", cts, c11Configs(hooks))
		c.Nontrivial = true
		s, err := newC11Sys(r, c, hooks, cts)
		if err != "" {
			c.Op("setup", err)
			return
		}
		defer s.close()
		for h := 1; h <= 4; h++ {
			s.enable(h)
			for cn := 1; cn <= 3; cn++ {
				s.tick(cn)
			}
		}
		s.cb(1)
		s.wtick(1)
		s.disable(1)
		s.tick(1)
		s.tick(2)
	})
	nA := r.N(1500, 12000)
	r.Cases(10, nA, 0, func(c *Case, rng *Rng) {
		cts := c11PickCrontabs(c, rng, 3)
		if rng.Chance(35) {
			cts[rng.Intn(3)] = PickOne(rng, c11Invalid)
			c.Note("A:with-invalid-crontab")
		}
		started := rng.Bool()
		m := newC11Sm(c, cts, started)
		defer m.close()
		n := rng.Range(3, 30)
		reg := map[[2]int]bool{}
		rep, unk, emptied := false, false, false
		for i := 0; i < n; i++ {
			cn, id := rng.Range(1, 3), rng.Range(1, 4)
			if rng.Chance(55) {
				if reg[[2]int{cn, id}] {
					rep = true
				}
				reg[[2]int{cn, id}] = true
				m.op("add", cn, id)
			} else {
				if !reg[[2]int{cn, id}] {
					unk = true
				} else {
					delete(reg, [2]int{cn, id})
					left := 0
					for k := range reg {
						if k[0] == cn {
							left++
						}
					}
					if left == 0 {
						emptied = true
					}
				}
				m.op("remove", cn, id)
			}
		}
		c.Nontrivial = rep && unk && emptied
		c.Note(fmt.Sprintf("A:len<=%d", (n/10+1)*10))
		c.Desc = fmt.Sprintf("A started=%v crontabs=%q", started, cts)
	})
	nB := r.N(120, 900)
	r.Cases(100000, nB, 0, func(c *Case, rng *Rng) {
		cts := c11PickCrontabs(c, rng, 3)
		hooks := c11GenHooks(rng, cts)
		s, err := newC11Sys(r, c, hooks, cts)
		if err != "" {
			c.Op("setup", err)
			return
		}
		defer s.close()
		if rng.Bool() {
			s.op.ScheduleManager.Start()
			c.Note("B:cron-started")
		}
		nh := len(s.hookName)
		n := rng.Range(4, 30)
		maxTasks := 0
		var used []int
		for _, h := range hooks {
			for _, b := range h.scheds {
				used = append(used, s.cnum(b.crontab))
			}
		}
		pickC := func() int {
			if len(used) > 0 && rng.Chance(80) {
				return PickOne(rng, used)
			}
			return rng.Range(1, 3)
		}
		for i := 0; i < n; i++ {
			k := rng.Intn(100)
			h := rng.Range(1, nh)
			switch {
			case k < 35:
				s.enable(h)
			case k < 50:
				s.disable(h)
			case k < 63:
				s.cb(pickC())
			case k < 75:
				if t := s.wtick(pickC()); t > maxTasks {
					maxTasks = t
				}
			default:
				if t := s.tick(pickC()); t > maxTasks {
					maxTasks = t
				}
			}
			if c.Inconcl != "" {
				return
			}
		}
		shared := false
		seen := map[string]int{}
		for _, h := range hooks {
			for _, b := range h.scheds {
				seen[b.crontab]++
				if seen[b.crontab] > 1 {
					shared = true
				}
			}
		}
		c.Nontrivial = shared && maxTasks >= 2
		c.Note(fmt.Sprintf("B:hooks-with-schedules=%d", nh))
		for _, h := range hooks {
			if h.v0 && len(h.scheds) > 0 {
				c.Note("B:v0-config-hook-with-schedule")
			}
			if h.json && len(h.scheds) > 0 {
				c.Note("B:v1-json-config-hook-with-schedule")
			}
			for _, b := range h.scheds {
				if !h.v0 && b.queue == "" {
					c.Note("B:v1-binding-without-queue")
				}
				if b.name == "" {
					c.Note("B:binding-without-name")
				}
				if !h.v0 && b.group != "" {
					for _, k := range h.kubes {
						if k.group == b.group {
							c.Note("B:binding-in-group-with-kubernetes-bindings")
							break
						}
					}
				}
			}
		}
		if maxTasks >= 2 {
			c.Note("B:tick-with>=2-tasks")
		}
		c.Desc = fmt.Sprintf("B hooks=%d crontabs=%q configs=%s", len(hooks), cts, c11Configs(hooks))
	})
	if r.Thorough() {
		// every Add/Remove history of length <= 5 over 2 crontabs x 2 ids
		type o struct{ k, c, i int }
		var alpha []o
		for k := 0; k < 2; k++ {
			for cn := 1; cn <= 2; cn++ {
				for id := 1; id <= 2; id++ {
					alpha = append(alpha, o{k, cn, id})
				}
			}
		}
		var hist [][]o
		var gen func(cur []o, d int)
		gen = func(cur []o, d int) {
			if len(cur) > 0 {
				hist = append(hist, append([]o{}, cur...))
			}
			if d == 0 {
				return
			}
			for _, a := range alpha {
				gen(append(cur, a), d-1)
			}
		}
		gen(nil, 5)
		r.Exhaust = true
		r.Extra["exhaustive_scope"] = fmt.Sprintf("all %d Add/Remove histories of length 1..5 over 2 crontabs x 2 ids (unstarted cron)", len(hist))
		// every enable/disable history of length <= 4 over two hooks sharing a crontab and a queue; after
		// every op one injected tick of each crontab
		sysAlpha := []string{"e1", "e2", "d1", "d2"}
		var sysHist [][]string
		var genS func(cur []string, d int)
		genS = func(cur []string, d int) {
			if len(cur) > 0 {
				sysHist = append(sysHist, append([]string{}, cur...))
			}
			if d == 0 {
				return
			}
			for _, a := range sysAlpha {
				genS(append(cur, a), d-1)
			}
		}
		genS(nil, 4)
		r.Extra["exhaustive_scope_B"] = fmt.Sprintf("all %d enable/disable histories of length 1..4 over 2 hooks (3 schedule bindings, shared crontab and queue), a tick of both crontabs after every op; the same histories once more with the second hook's crontab written as another spelling of the shared schedule (a firing of each of the three strings and one wall-clock instant after every op)", len(sysHist))
		r.Cases(2000000, 2*len(sysHist), 0, func(c *Case, _ *Rng) {
			cts := []string{c11Valid[0], c11Valid[1], c11Valid[2]}
			// second family: hook2's binding spells the schedule of crontab 1 differently (crontab 3)
			respelled := c.Idx-2000000 >= len(sysHist)
			c2 := cts[0]
			if respelled {
				cts[2] = "\t0 7  3 1 JAN ?"
				c2 = cts[2]
			}
			hooks := []c11Hook{
				{file: "hook1.sh", kubes: []c11Kube{{name: "k1", group: "g1"}}, scheds: []c11Sched{
					{name: "s1", crontab: cts[0], queue: "q1", group: "g1", includes: []string{"k1"}}, {crontab: cts[1]}}},
				{file: "hook2.sh", scheds: []c11Sched{{name: "s1", crontab: c2, queue: "q1", allowFailure: true}}},
			}
			s, err := newC11Sys(r, c, hooks, cts)
			if err != "" {
				c.Op("setup", err)
				return
			}
			defer s.close()
			hs := sysHist[(c.Idx-2000000)%len(sysHist)]
			for _, o := range hs {
				h := int(o[1] - '0')
				if o[0] == 'e' {
					s.enable(h)
				} else {
					s.disable(h)
				}
				s.tick(1)
				s.tick(2)
				if respelled {
					s.tick(3)
					s.wtick(1)
				}
				if c.Inconcl != "" {
					return
				}
			}
			c.Nontrivial = len(hs) >= 2
			c.Note("B:exhaustive")
			c.Desc = fmt.Sprintf("B exhaustive respelled=%v %s", respelled, strings.Join(hs, ","))
		})
		r.Cases(1000000, len(hist), 0, func(c *Case, _ *Rng) {
			hs := hist[c.Idx-1000000]
			m := newC11Sm(c, []string{c11Valid[0], c11Valid[1]}, false)
			defer m.close()
			for _, a := range hs {
				if a.k == 0 {
					m.op("add", a.c, a.i)
				} else {
					m.op("remove", a.c, a.i)
				}
			}
			c.Nontrivial = len(hs) >= 3
			c.Note("A:exhaustive")
		})
	}
}
