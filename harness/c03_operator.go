package main

// Whole-operator cases of C03: a real ShellOperator (real hook manager, real taskHandler, real bash hook
// processes, queues created by initAndStartHookQueues from the hooks' configurations, the real events
// consumer) over generated hooks with schedule bindings in 1-3 named queues (and `main`). Every hook
// process appends `start <hook> <n contexts>` / `end <hook>` to one log file; one hook can be made to
// hang (it waits for a file to disappear) or to fail its first run. Ticks are sent by the harness into
// the schedule manager's channel (the cron is not started).

import (
	"context"
	"fmt"
	"os"
	"path/filepath"
	"strconv"
	"strings"
	"time"

	shell_operator "github.com/flant/shell-operator/pkg/shell-operator"
	"github.com/flant/shell-operator/pkg/task/queue"
)

type opHook struct {
	idx     int
	name    string
	queueNo int    // 0 = no `queue` key (main), k = "q<k>"
	crontab string
	ticks   int // ticks sent for this hook
	starts  int // executions seen (expanded by their number of contexts)
}

func writeHook(dir string, h *opHook, logFile string, failOnce bool) error {
	queueLine := ""
	if h.queueNo > 0 {
		queueLine = fmt.Sprintf("  queue: q%d\n", h.queueNo)
	}
	script := fmt.Sprintf(`#!/usr/bin/env bash
if [[ "$1" == "--config" ]]; then
cat <<EOF
configVersion: v1
schedule:
- name: tick
  crontab: "%s"
%sEOF
exit 0
fi
n=$(jq length "$BINDING_CONTEXT_PATH")
echo "start %s $n" >> %s
while [[ -e %s/block-%s ]]; do sleep 0.005; done
rc=0
if [[ -e %s/fail-%s ]]; then rm -f %s/fail-%s; rc=1; fi
echo "end %s $rc" >> %s
exit $rc
`, h.crontab, queueLine, h.name, logFile, dir, h.name, dir, h.name, dir, h.name, h.name, logFile)
	p := filepath.Join(dir, "hooks", h.name+".sh")
	if err := writeScript(p, []byte(script), 0o755); err != nil {
		return err
	}
	if failOnce {
		return os.WriteFile(filepath.Join(dir, "fail-"+h.name), nil, 0o644)
	}
	return nil
}

func readLog(p string) []string {
	b, _ := os.ReadFile(p)
	var ls []string
	for _, l := range strings.Split(string(b), "\n") {
		if strings.TrimSpace(l) != "" {
			ls = append(ls, l)
		}
	}
	return ls
}

// c03Operator: see the file comment. The trace given to the oracles: `r<q>:<id>` per tick in send order
// (id = hook*1000 + k for the k-th tick of the hook), `s<q>:<id>:<id>` / `f<q>:<id>` per executed
// context in log order (an execution that combined n contexts of one hook stands for n consecutive
// ticks of that hook; the head of the queue is not observable from a hook process: hd = id).
func c03Operator(r *Run, c *Case, rng *Rng) {
	if tooManyHangs(c) {
		return
	}
	dir := filepath.Join(r.Scratch, fmt.Sprintf("c03op-%d", c.Idx))
	if abs, err := filepath.Abs(dir); err == nil {
		dir = abs
	}
	_ = os.MkdirAll(filepath.Join(dir, "hooks"), 0o755)
	_ = os.MkdirAll(filepath.Join(dir, "tmp"), 0o755)
	defer os.RemoveAll(dir)
	logFile := filepath.Join(dir, "run.log")
	nq := rng.Range(1, 3) // named queues q1..qnq besides main (queue 0)
	nh := rng.Range(2, 5)
	var hooks []*opHook
	for i := 1; i <= nh; i++ {
		h := &opHook{idx: i, name: fmt.Sprintf("h%d", i), queueNo: rng.Range(0, nq), crontab: fmt.Sprintf("%d %d 1 1 *", i, i)}
		if i == 1 {
			h.queueNo = 1 // the hook that will hang lives in q1
		}
		if i == 2 {
			h.queueNo = (1 % nq) + 1 // and some other hook lives elsewhere when there is an elsewhere
			if nq == 1 {
				h.queueNo = 0
			}
		}
		hooks = append(hooks, h)
		if err := writeHook(dir, h, logFile, i > 1 && rng.Chance(25)); err != nil {
			c.Inconcl = "cannot write hook: " + err.Error()
			return
		}
	}
	ctx, cancel := context.WithCancel(context.Background())
	defer cancel()
	op, err := shell_operator.VerifC03Assemble(ctx, filepath.Join(dir, "hooks"), filepath.Join(dir, "tmp"))
	// ETXTBSY: a process forked by a parallel case at the moment the script was written still holds the
	// descriptor for an instant (the usual fork/exec race of multi-threaded programs): a harness artefact
	for try := 0; err != nil && strings.Contains(err.Error(), "text file busy") && try < 10; try++ {
		time.Sleep(30 * time.Millisecond)
		op, err = shell_operator.VerifC03Assemble(ctx, filepath.Join(dir, "hooks"), filepath.Join(dir, "tmp"))
	}
	if err != nil && strings.Contains(err.Error(), "text file busy") {
		c.Inconcl = "hook script busy (fork/exec race between parallel cases)"
		return
	}
	if err != nil {
		c.Oracle("opflag what=assembled:" + strings.ReplaceAll(firstLine(err.Error()), " ", "_") + " ok=false")
		return
	}
	op.VerifC03Run(func(q *queue.TaskQueue) {
		q.WaitLoopCheckInterval = time.Millisecond
		q.DelayOnQueueIsEmpty = time.Millisecond
		q.DelayOnRepeat = time.Millisecond
		q.ExponentialBackoffFn = func(int) time.Duration { return 2 * time.Millisecond }
	})
	// the main queue first enables the schedule bindings of every hook: wait until it is empty
	waitFor := func(cond func() bool, d time.Duration) bool {
		deadline := time.Now().Add(d)
		for time.Now().Before(deadline) {
			if cond() {
				return true
			}
			time.Sleep(2 * time.Millisecond)
		}
		return cond()
	}
	if !waitFor(func() bool { return op.TaskQueues.GetMain().Length() == 0 }, 20*time.Second) {
		hangs.Add(1)
		c.Oracle("opflag what=startup-tasks-of-main-done ok=false")
		return
	}
	// which queues exist: exactly `main` and the names the configurations mention
	var want []string
	seen := map[int]bool{0: true}
	for _, h := range hooks {
		seen[h.queueNo] = true
	}
	for k := 0; k <= nq; k++ {
		if seen[k] {
			want = append(want, strconv.Itoa(k))
		}
	}
	var got []string
	for k := 0; k <= nq; k++ {
		name := "main"
		if k > 0 {
			name = fmt.Sprintf("q%d", k)
		}
		if q := op.TaskQueues.GetByName(name); q != nil {
			got = append(got, strconv.Itoa(k))
		}
	}
	c.Oracle(fmt.Sprintf("queueset want=%s got=%s", joinStrs(want), joinStrs(got)))

	qOf := func(h *opHook) int { return h.queueNo + 1 } // model names: main = 1, q<k> = k+1
	var trace []string
	tick := func(h *opHook) bool {
		h.ticks++
		trace = append(trace, fmt.Sprintf("r%d:%d", qOf(h), h.idx*1000+h.ticks))
		select {
		case op.ScheduleManager.Ch() <- h.crontab:
			return true
		case <-time.After(wStepTimeout):
			return false
		}
	}
	// 1. hook h1 (queue q1) hangs
	blocked := hooks[0]
	_ = os.WriteFile(filepath.Join(dir, "block-"+blocked.name), nil, 0o644)
	ok := tick(blocked)
	ok = ok && waitFor(func() bool { return len(readLog(logFile)) >= 1 }, 20*time.Second)
	// 2. ticks for everybody, in random order, while h1 hangs
	total := rng.Range(4, 10)
	for i := 0; i < total && ok; i++ {
		ok = tick(hooks[rng.Intn(len(hooks))])
		if rng.Chance(30) {
			time.Sleep(time.Duration(rng.Intn(20)) * time.Millisecond)
		}
	}
	// 3. the hooks of the other queues finish all their work meanwhile
	otherTicks := 0
	for _, h := range hooks {
		if h.queueNo != blocked.queueNo {
			otherTicks += h.ticks
		}
	}
	doneOthers := func() bool {
		n := 0
		for _, l := range readLog(logFile) {
			f := strings.Fields(l)
			if len(f) == 3 && f[0] == "start" {
				for _, h := range hooks {
					if h.name == f[1] && h.queueNo != blocked.queueNo {
						k, _ := strconv.Atoi(f[2])
						n += k
					}
				}
			}
		}
		if n < otherTicks {
			return false
		}
		for k := 0; k <= nq; k++ {
			if k == blocked.queueNo {
				continue
			}
			name := "main"
			if k > 0 {
				name = fmt.Sprintf("q%d", k)
			}
			if q := op.TaskQueues.GetByName(name); q != nil && q.Length() > 0 {
				return false
			}
		}
		return true
	}
	othersOK := ok && waitFor(doneOthers, 20*time.Second)
	if !othersOK {
		hangs.Add(1)
	}
	midLog := readLog(logFile)
	// 4. release h1, let everything drain
	_ = os.Remove(filepath.Join(dir, "block-"+blocked.name))
	drained := waitFor(func() bool {
		empty := true
		op.TaskQueues.Iterate(func(q *queue.TaskQueue) {
			if q.Length() > 0 {
				empty = false
			}
		})
		return empty
	}, 20*time.Second)
	if !drained {
		hangs.Add(1)
	}
	time.Sleep(5 * time.Millisecond)
	// build the execution trace from the hook processes' log
	conv := func(lines []string) []string {
		var ev []string
		started := map[string]int{}
		open := map[string][]int{}
		for _, l := range lines {
			f := strings.Fields(l)
			if len(f) != 3 {
				continue
			}
			var h *opHook
			for _, x := range hooks {
				if x.name == f[1] {
					h = x
				}
			}
			if h == nil {
				continue
			}
			if f[0] == "start" {
				n, _ := strconv.Atoi(f[2])
				var ids []int
				for j := 0; j < n; j++ {
					ids = append(ids, h.idx*1000+started[h.name]+1+j)
				}
				open[h.name] = ids
				if len(ids) > 0 {
					ev = append(ev, fmt.Sprintf("s%d:%d:%d", qOf(h), ids[0], ids[0]))
				}
			} else {
				ids := open[h.name]
				if len(ids) > 0 && f[2] == "0" {
					// one successful execution handled ids[0..]: in the trace they follow each other
					ev = append(ev, fmt.Sprintf("f%d:%d", qOf(h), ids[0]))
					for _, id := range ids[1:] {
						ev = append(ev, fmt.Sprintf("s%d:%d:%d", qOf(h), id, id), fmt.Sprintf("f%d:%d", qOf(h), id))
					}
					started[h.name] += len(ids)
				} else if len(ids) > 0 {
					// a failed run is repeated with the same contexts (maybe more): it shows as a run of the first
					ev = append(ev, fmt.Sprintf("f%d:%d", qOf(h), ids[0]))
				}
				open[h.name] = nil
			}
		}
		return ev
	}
	var qs []int
	for k := 0; k <= nq; k++ {
		if seen[k] {
			qs = append(qs, k+1)
		}
	}
	recvs := joinStrs(trace)
	{
		for k := 0; k <= nq; k++ {
			if !seen[k] || k == blocked.queueNo {
				continue
			}
			n := 0
			for _, h := range hooks {
				if h.queueNo == k {
					n += h.ticks
				}
			}
			if n > 0 {
				c.Oracle(fmt.Sprintf("progress a=%d b=%d n=%d ev=%s,%s", qOf(blocked), k+1, n, recvs, joinStrs(conv(midLog))))
			}
		}
	}
	c.Oracle(fmt.Sprintf("opflag what=all-queues-drained ok=%v", drained))
	full := recvs + "," + joinStrs(conv(readLog(logFile)))
	c.Oracle(fmt.Sprintf("logfree q=%s ev=%s", joinInts(qs), full))
	c.Oracle(fmt.Sprintf("order q=%s ev=%s", joinInts(qs), full))
	c.Oracle(fmt.Sprintf("complete q=%s ev=%s", joinInts(qs), full))
	c.Nontrivial = true
	c.Note("kind:whole-operator")
}
