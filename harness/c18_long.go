package main

// C18 (g) — "however many events arrive" and "all (I, B) values" at the operator's queues:
//
//   - LONG SERIES: 150..450 schedule events of one hook pile up in its queue while the task at the head
//     waits for its token (or before the queue is started); after the wait the real taskHandleHookRun
//     combines them into ONE HookRun task with hundreds of binding contexts. One token must start one
//     hook process, however long the series. Several waves per run: every wave is paid by one token.
//   - LONG INTERVALS: executionMinInterval of 11 s .. 24 h (longer than anything the operator could be
//     tempted to wait out in slices). The interval is not waited out: the bound says that after the
//     burst no further execution may START, so the run is observed for a second or two and abandoned
//     (the queue workers stay blocked in rate.Limiter.Wait; they die with the harness process).
//
// Everything is driven through the real code: hooks loaded by the real hook manager, schedule events
// through the real schedule callback, real named queues with the operator's task handler ->
// taskHandleHookRun -> RateLimitWait -> combineBindingContextForHook -> handleRunHook -> Hook.Run.
// Executions are counted from the line every hook process writes as its first action (its start
// time, the binding of its first context, the number of binding contexts it was given).

import (
	"context"
	"fmt"
	"os"
	"path/filepath"
	"sort"
	"strings"
	"time"

	"github.com/deckhouse/deckhouse/pkg/log"

	"github.com/flant/shell-operator/pkg/hook/task_metadata"
	metricstorage "github.com/flant/shell-operator/pkg/metric_storage"
	shell_operator "github.com/flant/shell-operator/pkg/shell-operator"
	"github.com/flant/shell-operator/pkg/task"
	"github.com/flant/shell-operator/pkg/task/queue"
)

// c18LongStep: n events of one binding, queued one after the other without a pause, when `trigger` fires.
type c18LongStep struct {
	// "prestart": before the queues are started (the queue is "busy": everything piles up);
	// "idle": when all queues are empty, or after `wait` at the latest (so that the event is handled on
	// its own when the hook is not blocked, and piles up behind the blocked head otherwise);
	// "progress": when a hook process has started since the previous step was queued (the head task got
	// its token: the next head is going to wait for about I), or after `wait` at the latest.
	trigger string
	wait    time.Duration
	bind    int
	n       int
}

type c18LongScn struct {
	desc      string
	iv        time.Duration
	b         int
	binds     []c18Bind // name, queue, crontab used
	steps     []c18LongStep
	observe   time.Duration // after the last step: until the queues are empty, at most this long
	mustDrain bool          // short intervals: a run whose queues are not empty after `observe` is inconclusive
}

func c18LongCorpus(idx int) c18LongScn {
	one := []c18Bind{{hook: 0, name: "main-0", queue: "main", crontab: c18Crontab(0)}}
	switch idx {
	case 30:
		return c18LongScn{desc: "corpus: one queue, I=1s B=1; one event, then waves of 320 and 250 events queued while the head task waits for its token (each wave is combined into one HookRun task)",
			iv: time.Second, b: 1, binds: one, mustDrain: true, observe: 50 * time.Second,
			steps: []c18LongStep{{"idle", 300 * time.Millisecond, 0, 1}, {"idle", 300 * time.Millisecond, 0, 320}, {"progress", 20 * time.Second, 0, 250}}}
	case 31:
		return c18LongScn{desc: "corpus: I=1h B=1, the hook lives in main and qa; 4 events, each queued when the queues are empty (or 250 ms after the previous one)",
			iv: time.Hour, b: 1, observe: 1200 * time.Millisecond,
			binds: []c18Bind{{hook: 0, name: "main-0", queue: "main", crontab: c18Crontab(0)}, {hook: 0, name: "qa-0", queue: "qa", crontab: c18Crontab(1)}},
			steps: []c18LongStep{{"idle", 250 * time.Millisecond, 0, 1}, {"idle", 250 * time.Millisecond, 1, 1}, {"idle", 250 * time.Millisecond, 0, 1}, {"idle", 250 * time.Millisecond, 1, 1}}}
	case 32:
		return c18LongScn{desc: "corpus: one queue, I=30m B=1; 450 events are in the queue before it is started (one combined task), then 2 single events",
			iv: 30 * time.Minute, b: 1, binds: one, observe: 1200 * time.Millisecond,
			steps: []c18LongStep{{"prestart", 0, 0, 450}, {"idle", 400 * time.Millisecond, 0, 1}, {"idle", 250 * time.Millisecond, 0, 1}}}
	case 34:
		// observed for longer than any slice a bounded wait could plausibly use: a wait that gives up after some
		// seconds and lets the task run shows here (the other runs are observed for about a second)
		// (three queues: the waits of the three later events run side by side, so whatever they do after some
		// seconds happens within this observation)
		return c18LongScn{desc: "corpus: I=1h B=1, the hook lives in main, qa and qb; 4 events 200 ms apart (main, qa, qb, main), observed for 12.5 s after the last one",
			iv: time.Hour, b: 1, observe: 12500 * time.Millisecond,
			binds: []c18Bind{{hook: 0, name: "main-0", queue: "main", crontab: c18Crontab(0)}, {hook: 0, name: "qa-0", queue: "qa", crontab: c18Crontab(1)},
				{hook: 0, name: "qb-0", queue: "qb", crontab: c18Crontab(2)}},
			steps: []c18LongStep{{"idle", 200 * time.Millisecond, 0, 1}, {"idle", 200 * time.Millisecond, 1, 1}, {"idle", 200 * time.Millisecond, 2, 1}, {"idle", 200 * time.Millisecond, 0, 1}}}
	default:
		return c18LongScn{desc: "corpus: one queue, I=11s B=2; 5 events, each queued when the queue is empty (or 250 ms after the previous one)",
			iv: 11 * time.Second, b: 2, binds: one, observe: 1200 * time.Millisecond,
			steps: []c18LongStep{{"idle", 250 * time.Millisecond, 0, 1}, {"idle", 250 * time.Millisecond, 0, 1}, {"idle", 250 * time.Millisecond, 0, 1},
				{"idle", 250 * time.Millisecond, 0, 1}, {"idle", 250 * time.Millisecond, 0, 1}}}
	}
}

func c18LongRandom(rng *Rng) c18LongScn {
	var scn c18LongScn
	queues := []string{"main", "qa", "qb"}[:PickOne(rng, []int{1, 1, 2, 3})]
	if rng.Chance(25) {
		queues = queues[len(queues)-1:]
	}
	for _, q := range queues {
		for j := 0; j < rng.Range(1, 2); j++ {
			scn.binds = append(scn.binds, c18Bind{hook: 0, name: fmt.Sprintf("%s-%d", q, j), queue: q, crontab: c18Crontab(len(scn.binds))})
		}
	}
	// the bindings of one queue (events of the same hook in the same queue are combined whatever their binding)
	inQueue := func(q string) []int {
		var xs []int
		for i, bd := range scn.binds {
			if bd.queue == q {
				xs = append(xs, i)
			}
		}
		return xs
	}
	if rng.Chance(50) {
		// long series, short interval: waves of 150..450 events behind a head task that waits for its token
		scn.iv = PickOne(rng, []time.Duration{700 * time.Millisecond, 900 * time.Millisecond, 1200 * time.Millisecond})
		scn.b = PickOne(rng, []int{1, 1, 2})
		scn.mustDrain, scn.observe = true, 50*time.Second
		q := PickOne(rng, queues)
		bs := inQueue(q)
		for i := 0; i < scn.b; i++ { // spend the burst, one execution per event
			scn.steps = append(scn.steps, c18LongStep{"idle", 300 * time.Millisecond, PickOne(rng, bs), 1})
		}
		waves := rng.Range(2, 3)
		total := 0
		for w := 0; w < waves; w++ {
			tr := "progress"
			if w == 0 {
				tr = "idle"
			}
			// a wave may be split over the bindings of the queue: still one series for the hook
			n := rng.Range(150, 450)
			if rng.Chance(15) {
				n = rng.Range(600, 2000) // far beyond any plausible batch size
			}
			total += n
			if len(bs) > 1 && rng.Bool() {
				k := rng.Range(1, n-1)
				scn.steps = append(scn.steps, c18LongStep{tr, 20 * time.Second, bs[0], k}, c18LongStep{"prestart", 0, bs[1], n - k})
			} else {
				scn.steps = append(scn.steps, c18LongStep{tr, 20 * time.Second, PickOne(rng, bs), n})
			}
		}
		scn.desc = fmt.Sprintf("long series: I=%v B=%d, %d bindings in %d queues, %d waves (%d events) in queue %s behind a waiting head task",
			scn.iv, scn.b, len(scn.binds), len(queues), waves, total, q)
		return scn
	}
	// long interval: nothing may start after the burst
	scn.iv = PickOne(rng, []time.Duration{11 * time.Second, 15 * time.Second, 30 * time.Second, time.Minute, 90 * time.Second, 10 * time.Minute,
		time.Hour, 24 * time.Hour, 12345 * time.Millisecond * 7})
	scn.b = PickOne(rng, []int{1, 1, 2, 3})
	scn.observe = 1200 * time.Millisecond
	pre := 0
	if rng.Chance(35) {
		// a long series that is already in the queue when the queue starts
		pre = rng.Range(150, 450)
		scn.steps = append(scn.steps, c18LongStep{"prestart", 0, PickOne(rng, inQueue(queues[0])), pre})
	}
	n := scn.b + rng.Range(2, 4)
	for i := 0; i < n; i++ {
		scn.steps = append(scn.steps, c18LongStep{"idle", time.Duration(rng.Range(150, 300)) * time.Millisecond, rng.Intn(len(scn.binds)), 1})
	}
	scn.desc = fmt.Sprintf("long interval: I=%v B=%d, %d bindings in %d queues, %d events queued before the start, then %d single events (each when the queues are empty or after its pause)",
		scn.iv, scn.b, len(scn.binds), len(queues), pre, n)
	return scn
}

// c18LongLog reads the start lines of the hook processes: "<unix ns> <binding of the first context> <number of contexts>".
func c18LongLog(path string) (ts []int64, names []string, nctx []int) {
	lb, _ := os.ReadFile(path)
	for _, l := range strings.Split(string(lb), "\n") {
		f := strings.Fields(l)
		if len(f) != 3 {
			continue // a line that is being written
		}
		var v int64
		var k int
		if _, err := fmt.Sscan(f[0], &v); err != nil {
			continue
		}
		if _, err := fmt.Sscan(f[2], &k); err != nil {
			continue
		}
		ts, names, nctx = append(ts, v), append(names, f[1]), append(nctx, k)
	}
	return
}

func c18RunLong(r *Run, c *Case, scn c18LongScn) {
	c.Desc = "operator queues, " + scn.desc
	dir := filepath.Join(r.Scratch, fmt.Sprintf("c18-l-%d", c.Idx))
	hooksDir := filepath.Join(dir, "hooks")
	tmp := filepath.Join(dir, "tmp")
	_ = os.MkdirAll(hooksDir, 0o755)
	_ = os.MkdirAll(tmp, 0o755)
	defer os.RemoveAll(dir)
	logf := filepath.Join(dir, "starts.log")
	bindIdx := map[string]int{}
	var cfg strings.Builder
	fmt.Fprintf(&cfg, "configVersion: v1\nsettings:\n  executionMinInterval: %s\n  executionBurst: %d\nschedule:\n", scn.iv.String(), scn.b)
	for i, bd := range scn.binds {
		bindIdx[bd.name] = i
		fmt.Fprintf(&cfg, "- name: %s\n  crontab: \"%s\"\n", bd.name, bd.crontab)
		if bd.queue != "main" {
			fmt.Fprintf(&cfg, "  queue: %s\n", bd.queue)
		}
	}
	// the very first thing an execution does is to take its start time; one line per process, written at once
	script := "#!/bin/bash\nif [[ \"${1:-}\" == \"--config\" ]]; then\ncat <<'EOF'\n" + cfg.String() + "EOF\nexit 0\nfi\n" +
		"ts=$(date +%s%N)\nctx=$(<\"$BINDING_CONTEXT_PATH\")\nre='\"binding\": *\"([^\"]+)\"'\nname=none\n[[ $ctx =~ $re ]] && name=${BASH_REMATCH[1]}\n" +
		"n=$(grep -o '\"binding\":' <<<\"$ctx\" | wc -l)\necho \"$ts $name $n\" >> " + logf + "\nexit 0\n"
	_ = writeScript(filepath.Join(hooksDir, "hook0.sh"), []byte(script), 0o755)
	ctx, cancel := context.WithCancel(context.Background())
	defer cancel()
	op := shell_operator.NewShellOperator(ctx, shell_operator.WithLogger(log.NewNop()))
	op.MetricStorage = metricstorage.NewMetricStorage(ctx, "", true, log.NewNop())
	op.HookMetricStorage = metricstorage.NewMetricStorage(ctx, "", true, log.NewNop())
	if err := op.VerifC18Setup(hooksDir, tmp); err != nil {
		c.Op("operator-setup", "err "+firstLine(err.Error()))
		return
	}
	hk := op.HookManager.GetHook("hook0.sh")
	if hk == nil {
		c.Op("operator-setup", "hook-not-loaded")
		return
	}
	c.Op(fmt.Sprintf("settings i=%d b=%d", int64(scn.iv), scn.b), c18LimLine(hk.RateLimiter))
	res := op.VerifC18EnableSchedules(task.NewTask(task_metadata.EnableScheduleBindings).
		WithMetadata(task_metadata.HookMetadata{HookName: "hook0.sh", Binding: string(task_metadata.EnableScheduleBindings)}))
	if res.Status != "Success" {
		c.Op("operator-setup", "enable-schedules-"+string(res.Status))
		return
	}
	queues := map[string]*queue.TaskQueue{}
	for _, bd := range scn.binds {
		if queues[bd.queue] == nil {
			q := op.VerifC18NewQueue(bd.queue)
			q.ExponentialBackoffFn = func(int) time.Duration { return 20 * time.Millisecond }
			q.WaitLoopCheckInterval = 5 * time.Millisecond
			q.DelayOnQueueIsEmpty = 10 * time.Millisecond
			q.DelayOnRepeat = 20 * time.Millisecond
			queues[bd.queue] = q
		}
	}
	allEmpty := func() bool {
		for _, q := range queues {
			if !q.IsEmpty() {
				return false
			}
		}
		return true
	}
	started := func() int { ts, _, _ := c18LongLog(logf); return len(ts) }

	t0 := time.Now()
	wall0 := t0.UnixNano()
	running := false
	start := func() {
		if !running {
			running = true
			for _, q := range queues {
				q.Start()
			}
		}
	}
	firstQueued := map[int]int64{}
	events, bigSeries := 0, 0
	seen := 0 // hook processes started when the previous step had been queued
	for _, st := range scn.steps {
		switch st.trigger {
		case "prestart":
			// queued right away (before the queues start / right after the previous step)
		case "idle":
			start()
			for lim := time.Now().Add(st.wait); !allEmpty() && time.Now().Before(lim); {
				time.Sleep(3 * time.Millisecond)
			}
		default:
			start()
			for lim := time.Now().Add(st.wait); started() <= seen && time.Now().Before(lim); {
				time.Sleep(3 * time.Millisecond)
			}
			if started() <= seen {
				c.Inconcl = "no execution started while waiting to queue the next wave"
				return
			}
		}
		bd := scn.binds[st.bind]
		before := time.Now().UnixNano()
		if _, ok := firstQueued[st.bind]; !ok {
			firstQueued[st.bind] = before
		}
		for i := 0; i < st.n; i++ {
			tasks := op.VerifC18ScheduleEvent(bd.crontab)
			if len(tasks) != 1 || tasks[0].GetQueueName() != bd.queue {
				c.Op("operator-setup", fmt.Sprintf("schedule-event-made-%d-tasks-or-wrong-queue", len(tasks)))
				return
			}
			queues[bd.queue].AddLast(tasks[0])
		}
		events += st.n
		if st.n >= 100 {
			bigSeries++
		}
		seen = started()
	}
	start()
	for lim := time.Now().Add(scn.observe); !allEmpty() && time.Now().Before(lim); {
		time.Sleep(5 * time.Millisecond)
	}
	drained := allEmpty()
	if scn.mustDrain && !drained {
		c.Inconcl = "the queues did not drain in 50 s"
		return
	}
	cancel()
	if d := (time.Now().UnixNano() - wall0) - int64(time.Since(t0)); d > int64(2*time.Millisecond) || d < -int64(2*time.Millisecond) {
		c.Inconcl = "the wall clock was stepped during the run"
		return
	}
	// the executions started so far, as the hook processes recorded them (whatever starts later is not
	// looked at: the check is on what HAS started)
	ts, names, nctx := c18LongLog(logf)
	var execs []c18Exec
	delivered := 0
	for i := range ts {
		bi, ok := bindIdx[names[i]]
		if !ok {
			c.Op(fmt.Sprintf("operator-series events=%d", events), "execution-with-unknown-binding")
			return
		}
		if _, q := firstQueued[bi]; !q {
			c.Op(fmt.Sprintf("operator-series events=%d", events), "execution-for-a-binding-without-events")
			return
		}
		execs = append(execs, c18Exec{hi: ts[i], bind: bi, queue: scn.binds[bi].queue})
		delivered += nctx[i]
	}
	if len(execs) == 0 {
		c.Inconcl = "no hook process started during the observation"
		return
	}
	if drained {
		// events waiting in a queue are combined, never dropped or delivered twice: the binding contexts
		// the executions were given are the events that were queued
		c.Op(fmt.Sprintf("operator-series events=%d", events), fmt.Sprintf("delivered=%d", delivered))
	} else {
		c.Op(fmt.Sprintf("operator-long events=%d", events), "running")
	}
	sort.Slice(execs, func(i, j int) bool { return execs[i].hi < execs[j].hi })
	lastInQueue := map[string]int64{}
	var los, his []int64
	qs := map[string]bool{}
	for i := range execs {
		e := &execs[i]
		e.lo = firstQueued[e.bind]
		if p, ok := lastInQueue[e.queue]; ok && p > e.lo {
			e.lo = p
		}
		lastInQueue[e.queue] = e.hi
		los = append(los, e.lo-wall0)
		his = append(his, e.hi-wall0)
		qs[e.queue] = true
	}
	c.Note("kind:operator-long")
	if bigSeries > 0 {
		c.Note("with-long-series")
	}
	if scn.iv > 10*time.Second {
		c.Note("interval>10s")
	}
	c.Note(fmt.Sprintf("queues:%d", len(queues)))
	c.Oracle(fmt.Sprintf("boundiv I=%d B=%d S=%d lo=%s hi=%s", int64(scn.iv), scn.b, c18Skew(len(qs)), joinI64(los), joinI64(his)))
	c.Nontrivial = events > scn.b
}
