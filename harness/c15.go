package main

import (
	"fmt"
	"sort"
	"strings"
	"sync"

	"github.com/flant/shell-operator/pkg/webhook/conversion"
)

func init() { suites["c15"] = runC15 }

// ---------------------------------------------------------------- versions, rules

const c15Group = "g.io"

type c15Rule struct{ From, To string }

func (r c15Rule) String() string { return c15Tok(r.From) + ">" + c15Tok(r.To) }

func c15Tok(v string) string {
	if v == "" {
		return "-"
	}
	return v
}

func c15Rules(rs []c15Rule) string {
	ss := make([]string, len(rs))
	for i, r := range rs {
		ss[i] = r.String()
	}
	return joinStrs(ss)
}

func c15Trim(v string) string {
	if i := strings.IndexByte(v, '/'); i >= 0 {
		return v[i+1:]
	}
	return v
}

func c15Full(group, v string) string {
	if strings.IndexByte(v, '/') >= 0 {
		return v
	}
	return group + "/" + v
}

// c15Valid is used only to pick, among repeated trials on fresh storages, the trial worth
// reporting (map iteration order decides whether the aliasing shows); the verdict is Lean's.
func c15Valid(rules []c15Rule, a, b string, chain []conversion.Rule) bool {
	if len(chain) == 0 {
		return false
	}
	decl := map[c15Rule]bool{}
	for _, r := range rules {
		decl[r] = true
	}
	cur := a
	for _, r := range chain {
		if !decl[c15Rule{r.FromVersion, r.ToVersion}] || !conversion.VersionsMatched(cur, r.FromVersion) {
			return false
		}
		cur = r.ToVersion
	}
	return conversion.VersionsMatched(cur, b)
}

func c15Exists(rules []c15Rule, a, b string) bool {
	seen := map[int]bool{}
	var queue []int
	for i, r := range rules {
		if conversion.VersionsMatched(a, r.From) {
			seen[i] = true
			queue = append(queue, i)
		}
	}
	for len(queue) > 0 {
		i := queue[0]
		queue = queue[1:]
		if conversion.VersionsMatched(rules[i].To, b) {
			return true
		}
		for j, r := range rules {
			if !seen[j] && conversion.VersionsMatched(rules[i].To, r.From) {
				seen[j] = true
				queue = append(queue, j)
			}
		}
	}
	return false
}

type c15Query struct{ Crd, From, To string }

// c15Scope names the excluded points of chain_complete a query falls into.
func c15Scope(multi bool, q c15Query) string {
	if multi {
		return "multi"
	}
	if c15Trim(q.From) == c15Trim(q.To) {
		return "same"
	}
	return "std"
}

// c15Trial runs the queries on a fresh real ChainStorage; returns the chains found and whether
// every answer looked right.
func c15Trial(puts []c15Query, queries []c15Query) ([][]conversion.Rule, bool, string) {
	res := make([][]conversion.Rule, len(queries))
	good := true
	perCrd := map[string][]c15Rule{}
	msg := Catch(func() string {
		cs := conversion.NewChainStorage()
		for _, p := range puts {
			cs.Get(p.Crd).Put(conversion.Rule{FromVersion: p.From, ToVersion: p.To})
			perCrd[p.Crd] = append(perCrd[p.Crd], c15Rule{p.From, p.To})
		}
		for i, q := range queries {
			ch := cs.FindConversionChain(q.Crd, conversion.Rule{FromVersion: q.From, ToVersion: q.To})
			res[i] = append([]conversion.Rule(nil), ch...) // snapshot: later queries may write into shared arrays
			if len(ch) > 0 {
				if !c15Valid(perCrd[q.Crd], q.From, q.To, ch) {
					good = false
				}
			} else if c15Trim(q.From) != c15Trim(q.To) && c15Exists(perCrd[q.Crd], q.From, q.To) {
				good = false
			}
		}
		return "ok"
	})
	return res, good && msg == "ok", msg
}

// c15ChainCase: the search part of the property on one rule set and one query sequence.
func c15ChainCase(c *Case, puts []c15Query, queries []c15Query, multi bool, trials int) {
	var res [][]conversion.Rule
	var msg string
	for t := 0; t < trials; t++ {
		r, good, m := c15Trial(puts, queries)
		res, msg = r, m
		if !good {
			break
		}
	}
	for _, p := range puts {
		c.Op(fmt.Sprintf("put %s %s %s", p.Crd, c15Tok(p.From), c15Tok(p.To)), "ok")
	}
	if msg != "ok" {
		c.Op("find-all", "panic")
		c.Oracle("panic")
		return
	}
	for i, q := range queries {
		found, ans := "0", "none"
		chain := "-"
		if len(res[i]) > 0 {
			found, ans = "1", "found"
			rs := make([]c15Rule, len(res[i]))
			for k, r := range res[i] {
				rs[k] = c15Rule{r.FromVersion, r.ToVersion}
			}
			chain = c15Rules(rs)
		}
		scope := c15Scope(multi, q)
		if scope == "std" {
			c.Op(fmt.Sprintf("find %s %s %s", q.Crd, c15Tok(q.From), c15Tok(q.To)), ans)
		} else {
			// excluded points of chain_complete: the answers are reported in the distribution instead
			// of being compared with the model (the oracle line still demands soundness)
			c.Note("excluded:" + scope + ":" + ans)
		}
		c.Oracle(fmt.Sprintf("chain crd=%s from=%s to=%s found=%s chain=%s scope=%s", q.Crd, c15Tok(q.From), c15Tok(q.To), found, chain, scope))
		c.Note("answer:" + ans)
		c.Note(fmt.Sprintf("chainlen:%d", len(res[i])))
	}
}

var c15Names = []string{"v1", "v1beta1", "v2", "v3", "v1alpha1", "v2beta1", "v11"}

func c15Spell(rng *Rng, group, v string, pctFull int) string {
	if rng.Chance(pctFull) {
		return group + "/" + v
	}
	return v
}

func c15RandomGraph(rng *Rng, nv int, multi bool) []c15Rule {
	names := append([]string(nil), c15Names[:nv]...)
	rng.Shuffle(len(names), func(i, j int) { names[i], names[j] = names[j], names[i] })
	grp := func() string {
		if multi && rng.Chance(40) {
			return "h.io"
		}
		return c15Group
	}
	pct := PickOne(rng, []int{0, 30, 50, 100})
	var rules []c15Rule
	add := func(i, j int) {
		if i == j {
			if !rng.Chance(5) {
				return
			}
		}
		rules = append(rules, c15Rule{c15Spell(rng, grp(), names[i], pct), c15Spell(rng, grp(), names[j], pct)})
	}
	switch rng.Intn(5) {
	case 0: // linear chain with a fork at the end (and some back edges)
		for i := 0; i+1 < nv; i++ {
			add(i, i+1)
		}
		for k := rng.Intn(3); k > 0; k-- {
			add(rng.Intn(nv), rng.Intn(nv))
		}
	case 1: // two-way linear (up and down conversions, the usual CRD layout)
		for i := 0; i+1 < nv; i++ {
			add(i, i+1)
			add(i+1, i)
		}
	case 2: // long stem then a fan (fork after >= 3 steps)
		stem := rng.Range(1, nv-1)
		if nv >= 5 {
			stem = rng.Range(3, nv-2)
		}
		for i := 0; i < stem; i++ {
			add(i, i+1)
		}
		for j := stem + 1; j < nv; j++ {
			add(stem, j)
		}
		if rng.Bool() {
			add(nv-1, 0)
		}
	case 3: // diamond(s)
		for i := 0; i+2 < nv; i += 2 {
			add(i, i+1)
			add(i, i+2)
			if i+3 < nv {
				add(i+1, i+3)
				add(i+2, i+3)
			}
		}
	default: // random density
		d := PickOne(rng, []int{10, 20, 35, 60})
		for i := 0; i < nv; i++ {
			for j := 0; j < nv; j++ {
				if rng.Chance(d) {
					add(i, j)
				}
			}
		}
	}
	// duplicates with another spelling
	for k := rng.Intn(3); k > 0 && len(rules) > 0; k-- {
		r := PickOne(rng, rules)
		rules = append(rules, c15Rule{c15Spell(rng, grp(), c15Trim(r.From), 50), c15Spell(rng, grp(), c15Trim(r.To), 50)})
	}
	rng.Shuffle(len(rules), func(i, j int) { rules[i], rules[j] = rules[j], rules[i] })
	return rules
}

func c15Puts(crd string, rules []c15Rule) []c15Query {
	var ps []c15Query
	for _, r := range rules {
		ps = append(ps, c15Query{crd, r.From, r.To})
	}
	return ps
}

func runC15(r *Run) {
	r.Rule = "search: rule graphs over <= 7 versions whose names contain each other (v1, v1beta1, v11 …), every endpoint spelled with or without the group, shapes = chain+fork, two-way chain, stem+fan (fork after >= 3 steps), diamonds, random density with cycles and self loops, duplicate rules in another spelling; every graph is queried several times in a random order on one stateful real ChainStorage (up to 3 fresh trials, the first one with a wrong-looking answer is reported); thorough adds every one of the 4096 rule graphs over 4 versions x all 12 (from,to) pairs. Application: a real ShellOperator (HookManager, conversionEventHandler, taskHandler, Hook.Run), the real conversion WebhookHandler (chi router, httptest) and bash hooks with a scripted outcome per run (exit 1, garbage, empty response, n objects, unconverted objects, desired version early, failedMessage, and answers whose objects differ: per object converted / at the desired version / left as it came / apiVersion removed / {} / null, the odd one first, in the middle or last, at the last or an earlier step); the declared rules are dealt to 1-3 hooks and, within a hook, to one binding or to 2-3 kubernetesCustomResourceConversion bindings for the same CRD (up/down style), so that a request may need rules of the first, a middle and the last binding of a hook. Overlap cases: 2-3 ConversionReviews in flight on one operator at the same time (the same pair of versions = the same rules and links, the tail of the other's chain, or any other pair; each with its own uid, its own distinguishable objects and its own scripted outcomes; some hooks rate limited with settings.executionMinInterval), the order of their stages (sent and handled up to 'chain found, task and binding context of the step built' / that step's hook run and the next step built / ... / answered) a random merge forced with the yield point conversion.taskBuilt in conversionEventHandler; every hook run (which request's review it was handed, which objects) and every answer is checked against its own request. Concurrent search: 2-4 goroutines start together on a fresh real ChainStorage (up/down chains over 4-7 versions or a random graph), each with 1-3 queries (often the same question at the same time), repeated on 60-120 fresh storages per case; every answer goes through the chain oracle, a runtime fatal error is the observation crash. A search case is non-trivial when some query has a chain of >= 2 rules or a not-found answer on a non-empty graph; an application case when at least one hook ran. distinct = distinct op-line sequences."

	// ---- corpus: the four repaired defects
	r.One(0, func(c *Case, _ *Rng) {
		c.Desc = "corpus: NextRules matched version names by substring (v1 inside v1alpha1)"
		c.Nontrivial = true
		rules := []c15Rule{{"v1beta1", "v1"}, {"v1alpha1", "v2"}}
		c15ChainCase(c, c15Puts("crd", rules), []c15Query{{"crd", "v1beta1", "v2"}, {"crd", "v1beta1", "v1"}}, false, 1)
	})
	r.One(1, func(c *Case, _ *Rng) {
		c.Desc = "corpus: append to the cached path shared its backing array (fork after three steps)"
		c.Nontrivial = true
		rules := []c15Rule{{"a", "b"}, {"b", "c"}, {"c", "d"}, {"d", "e"}, {"d", "f"}}
		c15ChainCase(c, c15Puts("crd", rules), []c15Query{{"crd", "a", "e"}, {"crd", "a", "f"}}, false, 64)
	})
	r.One(2, func(c *Case, _ *Rng) {
		c.Desc = "corpus: same fork, other query order, group-qualified request"
		c.Nontrivial = true
		rules := []c15Rule{{"g.io/a", "b"}, {"b", "g.io/c"}, {"c", "d"}, {"g.io/d", "g.io/e"}, {"d", "f"}, {"d", "g.io/g"}}
		c15ChainCase(c, c15Puts("crd", rules), []c15Query{{"crd", "a", "g.io/f"}, {"crd", "g.io/a", "e"}, {"crd", "a", "g"}}, false, 64)
	})
	r.One(3, func(c *Case, _ *Rng) {
		c.Desc = "corpus: unknown crd, unknown target, request for the source version itself"
		c.Nontrivial = true
		rules := []c15Rule{{"v1", "v2"}, {"v2", "v1"}}
		c15ChainCase(c, c15Puts("crd", rules), []c15Query{{"nope", "v1", "v2"}, {"crd", "v1", "v3"}, {"crd", "v1", "g.io/v1"}, {"crd", "v2", "v1"}}, false, 1)
	})
	c15E2ECorpus(r)

	// ---- random graphs
	n := r.N(4000, 60000)
	r.Cases(100, n, 0, func(c *Case, rng *Rng) {
		multi := rng.Chance(8)
		nv := rng.Range(2, 7)
		rules := c15RandomGraph(rng, nv, multi)
		crd := "crd"
		puts := c15Puts(crd, rules)
		if rng.Chance(10) { // a second CRD with its own rules
			puts = append(puts, c15Puts("other", c15RandomGraph(rng, rng.Range(2, 4), false))...)
			rng.Shuffle(len(puts), func(i, j int) { puts[i], puts[j] = puts[j], puts[i] })
		}
		var queries []c15Query
		nq := rng.Range(2, 8)
		for i := 0; i < nq; i++ {
			grp := c15Group
			if multi && rng.Chance(30) {
				grp = "h.io"
			}
			ia, ib := rng.Intn(nv), rng.Intn(nv)
			if ia == ib && rng.Chance(85) {
				ib = (ia + 1 + rng.Intn(nv-1)) % nv
			}
			a := c15Spell(rng, grp, c15Names[ia], 50)
			b := c15Spell(rng, grp, c15Names[ib], 50)
			q := c15Query{crd, a, b}
			if rng.Chance(5) {
				q.Crd = "other"
			}
			queries = append(queries, q)
		}
		c15ChainCase(c, puts, queries, multi, 3)
		c.Note(fmt.Sprintf("graph:versions=%d", nv))
		c.Note(fmt.Sprintf("graph:rules=%d", len(rules)/3*3))
		if multi {
			c.Note("graph:two-groups")
		}
		c.Nontrivial = len(rules) > 0 && (c.notes["chainlen:0"] > 0 || c15LongChain(c))
	})

	// ---- application, end to end
	c15E2ERandom(r)
	c15E2EOverlap(r)
	c15ConcurrentSearch(r)

	if r.Thorough() {
		names := []string{"v1", "v1beta1", "v2", "v3"}
		var edges [][2]int
		for i := 0; i < 4; i++ {
			for j := 0; j < 4; j++ {
				if i != j {
					edges = append(edges, [2]int{i, j})
				}
			}
		}
		r.Cases(2000000, 4096, 0, func(c *Case, rng *Rng) {
			mask := c.Idx - 2000000
			var rules []c15Rule
			for k, e := range edges {
				if mask&(1<<k) != 0 {
					f, t := names[e[0]], names[e[1]]
					// fixed mixed spelling: an endpoint is group-qualified on every other edge
					if (e[0]+2*e[1])%3 == 0 {
						f = c15Group + "/" + f
					}
					if (2*e[0]+e[1])%3 == 1 {
						t = c15Group + "/" + t
					}
					rules = append(rules, c15Rule{f, t})
				}
			}
			var queries []c15Query
			for _, e := range edges {
				queries = append(queries, c15Query{"crd", c15Spell(rng, c15Group, names[e[0]], 50), c15Spell(rng, c15Group, names[e[1]], 50)})
			}
			rng.Shuffle(len(queries), func(i, j int) { queries[i], queries[j] = queries[j], queries[i] })
			c15ChainCase(c, c15Puts("crd", rules), queries, false, 1)
			c.Nontrivial = len(rules) > 0
		})
		r.Exhaust = true
		r.Extra["exhaustive_scope"] = "all 4096 rule graphs over the 4 versions v1, v1beta1, v2, v3 (12 possible rules, fixed mixed spelling), each queried for all 12 (from,to) pairs in a random order with random spelling on one stateful ChainStorage"
	}
}

func c15LongChain(c *Case) bool {
	for k := range c.notes {
		if strings.HasPrefix(k, "chainlen:") && k != "chainlen:0" && k != "chainlen:1" {
			return true
		}
	}
	return false
}

func c15SortedKeys(m map[string]bool) []string {
	var ks []string
	for k := range m {
		ks = append(ks, k)
	}
	sort.Strings(ks)
	return ks
}

// c15ConcurrentSearch: the webhook server serves ConversionReviews concurrently, so FindConversionChain
// runs on one ChainStorage from several goroutines at the same time. 2-4 goroutines start together on
// a fresh (cold) real ChainStorage, each with its own 1-3 queries; repeated on fresh storages. Every
// answer must be a valid chain / none only if none exists (the same oracle as the sequential search);
// a Go runtime fatal error (unsynchronised map access) takes the process down and is reported as the
// observation `crash` of the case. The cases run one at a time so that a crash is attributed to its case.
func c15ConcurrentSearch(r *Run) {
	n := r.N(24, 240)
	r.Cases(700000, n, 1, func(c *Case, rng *Rng) {
		nv := rng.Range(4, 7)
		var rules []c15Rule
		if rng.Chance(60) {
			// the usual CRD layout: up and down conversions between neighbours — long chains, many passes
			names := append([]string(nil), c15Names[:nv]...)
			pct := PickOne(rng, []int{0, 50, 100})
			for i := 0; i+1 < nv; i++ {
				rules = append(rules, c15Rule{c15Spell(rng, c15Group, names[i], pct), c15Spell(rng, c15Group, names[i+1], pct)})
				rules = append(rules, c15Rule{c15Spell(rng, c15Group, names[i+1], pct), c15Spell(rng, c15Group, names[i], pct)})
			}
		} else {
			rules = c15RandomGraph(rng, nv, false)
		}
		puts := c15Puts("crd", rules)
		ng := rng.Range(2, 4)
		queries := make([][]c15Query, ng)
		for g := range queries {
			for k := rng.Range(1, 3); k > 0; k-- {
				ia, ib := rng.Intn(nv), rng.Intn(nv)
				if g > 0 && rng.Chance(40) {
					queries[g] = append(queries[g], queries[0][0]) // the same question at the same time
					continue
				}
				queries[g] = append(queries[g], c15Query{"crd", c15Spell(rng, c15Group, c15Names[ia], 50), c15Spell(rng, c15Group, c15Names[ib], 50)})
			}
		}
		trials := r.N(60, 120)
		var res [][][]conversion.Rule
		for t := 0; t < trials; t++ {
			cs := conversion.NewChainStorage()
			for _, p := range puts {
				cs.Get(p.Crd).Put(conversion.Rule{FromVersion: p.From, ToVersion: p.To})
			}
			out := make([][][]conversion.Rule, ng)
			start := make(chan struct{})
			var wg sync.WaitGroup
			for g := 0; g < ng; g++ {
				wg.Add(1)
				go func(g int) {
					defer wg.Done()
					<-start
					for _, q := range queries[g] {
						ch := cs.FindConversionChain(q.Crd, conversion.Rule{FromVersion: q.From, ToVersion: q.To})
						out[g] = append(out[g], append([]conversion.Rule(nil), ch...))
					}
				}(g)
			}
			close(start)
			wg.Wait()
			res = out
			good := true
			for g := range queries {
				for k, q := range queries[g] {
					if len(out[g][k]) > 0 {
						good = good && c15Valid(rules, q.From, q.To, out[g][k])
					} else if c15Trim(q.From) != c15Trim(q.To) && c15Exists(rules, q.From, q.To) {
						good = false
					}
				}
			}
			if !good {
				break // the trial worth reporting; the verdict is Lean's
			}
		}
		for _, p := range puts {
			c.Op(fmt.Sprintf("put %s %s %s", p.Crd, c15Tok(p.From), c15Tok(p.To)), "ok")
		}
		long := false
		for g := range queries {
			for k, q := range queries[g] {
				found, chain := "0", "-"
				if len(res[g][k]) > 0 {
					found = "1"
					rs := make([]c15Rule, len(res[g][k]))
					for j, rl := range res[g][k] {
						rs[j] = c15Rule{rl.FromVersion, rl.ToVersion}
					}
					chain = c15Rules(rs)
					long = long || len(rs) >= 2
				}
				c.Oracle(fmt.Sprintf("chain crd=%s from=%s to=%s found=%s chain=%s scope=%s", q.Crd, c15Tok(q.From), c15Tok(q.To), found, chain,
					c15Scope(false, q)))
				c.Note(fmt.Sprintf("concurrent:chainlen:%d", len(res[g][k])))
			}
		}
		c.Note(fmt.Sprintf("concurrent:goroutines=%d", ng))
		c.Note("case:concurrent-search")
		c.Desc = fmt.Sprintf("concurrent search: %d goroutines at the same time on a cold ChainStorage with %d rules, %d fresh storages", ng, len(rules), trials)
		c.Nontrivial = long
	})
}
