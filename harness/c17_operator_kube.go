package main

// Whole-operator case of C17 with cluster events: the real ShellOperator.Shutdown() on an operator whose
// hooks have `schedule` AND `kubernetes` bindings, every binding with a queue of its own choice (none,
// `main`, a name shared with a schedule binding, a name only kubernetes bindings use, a name only
// schedule bindings use). The kubernetes bindings watch ConfigMaps of one namespace of a fake cluster
// through the real informers (kube-client/fake), the real KubeEventsManager, the real events consumer.
// Before the shutdown: cluster changes and ticks lead to executions (checked, so that "nothing after"
// is not vacuous), hook h1 may hang in the middle of its run with more work queued behind it, changes
// are still in flight. After Shutdown() returned: more cluster changes and ticks, the hanging hook
// returns. Observed from the hook processes' markers, the queue statuses and (build tag verif) the
// queue contexts:
//   stopheard     — the stop request reached every queue the configurations name (and main);
//   weakstop      — after Shutdown() returned a queue starts at most the one task it had picked (its marker may
//                   come late on a loaded machine: no bound on that), and nothing at all once it showed "stop";
//   terminated    — every such queue shows "stop" once the running hook has returned;
//   latecluster   — no object created after Shutdown() returned appears in any execution.

import (
	"context"
	"fmt"
	"os"
	"path/filepath"
	"sort"
	"strconv"
	"strings"
	"time"

	"github.com/deckhouse/deckhouse/pkg/log"
	corev1 "k8s.io/api/core/v1"
	metav1 "k8s.io/apimachinery/pkg/apis/meta/v1"

	"github.com/flant/kube-client/fake"
	metricstorage "github.com/flant/shell-operator/pkg/metric_storage"
	shell_operator "github.com/flant/shell-operator/pkg/shell-operator"
	"github.com/flant/shell-operator/pkg/task/queue"
)

var c17KubeMetrics = metricstorage.NewMetricStorage(context.Background(), "verif_c17k_", true, log.NewNop())

type c17Bind struct {
	kube     bool
	name     string
	queueNo  int  // 0 = main, k = "q<k>"
	explicit bool // queueNo 0 written as `queue: main` instead of leaving the key out
	crontab  string
	sync     bool   // executeHookOnSynchronization
	ns       string // namespace a kubernetes binding watches ("" = the namespace of the case)
	qname    string // the name written after `queue:` ("" = c17QueueName(queueNo))
}

func (b *c17Bind) queueName() string {
	if b.qname != "" {
		return b.qname
	}
	return c17QueueName(b.queueNo)
}

// c17NearName: a string that is a different queue name (Go map key) but easy to mistake for `name`: another
// case, a longer / shorter one.
func c17NearName(name string, rng *Rng) (string, string) {
	switch rng.Intn(5) {
	case 0:
		return strings.ToUpper(name), "differ-by-case-only"
	case 1:
		return strings.ToUpper(name[:1]) + name[1:], "differ-by-case-only"
	case 2:
		return name[:len(name)-1] + strings.ToUpper(name[len(name)-1:]), "differ-by-case-only"
	case 3:
		return name + "-x", "one-is-a-prefix-of-the-other"
	default:
		return name[:len(name)-1], "one-is-a-prefix-of-the-other"
	}
}

// c17SetQueues: the queues of the set right now, by name (through the real Iterate).
func c17SetQueues(tqs *queue.TaskQueueSet) map[string]*queue.TaskQueue {
	m := map[string]*queue.TaskQueue{}
	tqs.Iterate(func(q *queue.TaskQueue) { m[q.Name] = q })
	return m
}

type c17Hook struct {
	idx   int
	name  string
	binds []*c17Bind
}

func c17QueueName(k int) string {
	if k == 0 {
		return "main"
	}
	return fmt.Sprintf("q%d", k)
}

func c17WriteHook(dir, ns string, h *c17Hook, logFile string) error {
	var sched, kube strings.Builder
	for _, b := range h.binds {
		ql := ""
		if b.queueNo > 0 || b.explicit {
			ql = fmt.Sprintf("  queue: %s\n", b.queueName())
		}
		if b.kube {
			bns := ns
			if b.ns != "" {
				bns = b.ns
			}
			fmt.Fprintf(&kube, "- name: %s\n  apiVersion: v1\n  kind: ConfigMap\n  namespace:\n    nameSelector:\n      matchNames: [\"%s\"]\n  executeHookOnSynchronization: %v\n%s", b.name, bns, b.sync, ql)
		} else {
			fmt.Fprintf(&sched, "- name: %s\n  crontab: \"%s\"\n%s", b.name, b.crontab, ql)
		}
	}
	conf := "configVersion: v1\n"
	if sched.Len() > 0 {
		conf += "schedule:\n" + sched.String()
	}
	if kube.Len() > 0 {
		conf += "kubernetes:\n" + kube.String()
	}
	script := fmt.Sprintf(`#!/usr/bin/env bash
if [[ "$1" == "--config" ]]; then
cat <<'EOF'
%sEOF
exit 0
fi
info=$(jq -r '[.[0].binding, .[0].type, (length|tostring), ([.[] | .object.metadata.name // empty] | join("+") | if . == "" then "-" else . end)] | join(" ")' "$BINDING_CONTEXT_PATH")
echo "start %s $info" >> %s
while [[ -e %s/block-%s ]]; do sleep 0.005; done
echo "end %s" >> %s
exit 0
`, conf, h.name, logFile, dir, h.name, h.name, logFile)
	return os.WriteFile(filepath.Join(dir, "hooks", h.name+".sh"), []byte(script), 0o755)
}

// one execution as a hook process reported it
type c17Exec struct {
	hook *c17Hook
	bind *c17Bind
	typ  string
	n    int
	objs []string
	line int // index of its `start` line in the log
}

// c17ReadExecs: the executions in log order, the index of the STOP line (-1: none), the number of lines.
func c17ReadExecs(logFile string, hooks []*c17Hook) (execs []c17Exec, stopLine int, nLines int) {
	stopLine = -1
	lines := readLog(logFile)
	nLines = len(lines)
	for i, l := range lines {
		f := strings.Fields(l)
		if len(f) >= 1 && f[0] == "STOP" {
			stopLine = i
			continue
		}
		if len(f) != 6 || f[0] != "start" {
			continue
		}
		for _, h := range hooks {
			if h.name != f[1] {
				continue
			}
			for _, b := range h.binds {
				if b.name == f[2] {
					n, _ := strconv.Atoi(f[4])
					var objs []string
					if f[5] != "-" {
						objs = strings.Split(f[5], "+")
					}
					execs = append(execs, c17Exec{hook: h, bind: b, typ: f[3], n: n, objs: objs, line: i})
				}
			}
		}
	}
	return execs, stopLine, nLines
}

func c17OperatorKube(r *Run, c *Case, rng *Rng) {
	if tooManyHangs(c) {
		return
	}
	ns := fmt.Sprintf("c17k-%d", c.Idx)
	dir := filepath.Join(r.Scratch, ns)
	if abs, err := filepath.Abs(dir); err == nil {
		dir = abs
	}
	_ = os.MkdirAll(filepath.Join(dir, "hooks"), 0o755)
	_ = os.MkdirAll(filepath.Join(dir, "tmp"), 0o755)
	defer os.RemoveAll(dir)
	logFile := filepath.Join(dir, "run.log")

	// --- configuration: hooks, bindings, queues
	nq := rng.Range(1, 4)
	nh := rng.Range(1, 4)
	// queue names: main, q1..qN; in 2 of 5 cases one of them is replaced by a near-copy of another queue's name
	// (another case — `Q1`, `Main` —, a prefix, an extension): different map keys, hence different queues
	names := []string{"main"}
	for k := 1; k <= nq; k++ {
		names = append(names, c17QueueName(k))
	}
	nearQ, nearOf := 0, 0
	if rng.Chance(40) {
		k := rng.Range(1, nq)
		j := rng.Intn(nq + 1)
		if j != k {
			if v, kind := c17NearName(names[j], rng); v != "" {
				clash := false
				for _, o := range names {
					clash = clash || o == v
				}
				if !clash {
					names[k] = v
					nearQ, nearOf = k, j
					c.Note("queue-names:" + kind)
					if j == 0 {
						c.Note("queue-names:near-copy-of-main")
					}
				}
			}
		}
	}
	qName := func(k int) string {
		if k >= 0 && k < len(names) {
			return names[k]
		}
		return c17QueueName(k)
	}
	early := rng.Chance(20) // Shutdown() is requested during the start-up (before the first queue exists, ...), the start goes on afterwards
	var hooks []*c17Hook
	for i := 1; i <= nh; i++ {
		h := &c17Hook{idx: i, name: fmt.Sprintf("h%d", i)}
		nb := rng.Range(1, 3)
		for j := 1; j <= nb; j++ {
			b := &c17Bind{kube: rng.Chance(55), queueNo: rng.Range(0, nq), explicit: rng.Chance(30), sync: rng.Chance(25)}
			if i == 1 && j == 1 {
				// some hook reacts to the cluster, in a named queue (most of the time one nobody else names)
				b.kube = true
				b.queueNo = rng.Range(1, nq)
			}
			if nearQ > 0 && rng.Chance(35) {
				b.queueNo = nearQ
			}
			b.qname = qName(b.queueNo)
			if b.kube {
				b.name = fmt.Sprintf("k%d", j)
			} else {
				b.name = fmt.Sprintf("s%d", j)
				b.crontab = fmt.Sprintf("%d %d 1 1 *", i, j)
			}
			h.binds = append(h.binds, b)
		}
		hooks = append(hooks, h)
	}
	if nearQ > 0 {
		// both names are in use: some binding names the one, another binding the other (either order, either kind)
		var all []*c17Bind
		for _, h := range hooks {
			all = append(all, h.binds...)
		}
		if len(all) < 2 {
			b := &c17Bind{name: "s9", crontab: "9 9 1 1 *"}
			hooks[0].binds = append(hooks[0].binds, b)
			all = append(all, b)
		}
		x := rng.Intn(len(all))
		y := rng.Intn(len(all) - 1)
		if y >= x {
			y++
		}
		all[x].queueNo, all[x].qname = nearOf, qName(nearOf)
		all[y].queueNo, all[y].qname = nearQ, qName(nearQ)
	}
	var desc []string
	schedQ, kubeQ := map[int]bool{}, map[int]bool{}
	var schedNames, kubeNames []int // flattened, in hook order: what initAndStartHookQueues walks over
	nKube := 0
	for _, h := range hooks {
		if err := c17WriteHook(dir, ns, h, logFile); err != nil {
			c.Inconcl = "cannot write hook: " + err.Error()
			return
		}
		for _, b := range h.binds {
			desc = append(desc, fmt.Sprintf("%s/%s->%s", h.name, b.name, b.queueName()))
			if b.kube {
				kubeQ[b.queueNo] = true
				kubeNames = append(kubeNames, b.queueNo)
				nKube++
			} else {
				schedQ[b.queueNo] = true
				schedNames = append(schedNames, b.queueNo)
			}
		}
	}
	var want []int // queues that must exist: main and every name a binding mentions
	for k := 0; k <= nq; k++ {
		if k == 0 || schedQ[k] || kubeQ[k] {
			want = append(want, k)
		}
		switch {
		case k > 0 && kubeQ[k] && !schedQ[k]:
			c.Note("queue:named-by-kubernetes-bindings-only")
		case k > 0 && schedQ[k] && !kubeQ[k]:
			c.Note("queue:named-by-schedule-bindings-only")
		case k > 0 && schedQ[k] && kubeQ[k]:
			c.Note("queue:shared-by-both-kinds")
		}
	}
	c.Desc = fmt.Sprintf("whole operator with cluster events: bindings %s", strings.Join(desc, " "))

	// --- the cluster and the operator
	fc := fake.NewFakeCluster(fake.ClusterVersionV121)
	nsObj := &corev1.Namespace{}
	nsObj.SetName(ns)
	_, _ = fc.Client.CoreV1().Namespaces().Create(context.TODO(), nsObj, metav1.CreateOptions{})
	live := map[int]int{}
	nextCs := 10
	cluster := func(e c01Ev) bool {
		if err := c01OpObj(fc, ns, e); err != nil {
			c.Inconcl = "cluster operation failed: " + err.Error()
			return false
		}
		if e.kind == "d" {
			delete(live, e.id)
		} else {
			live[e.id] = e.cs
		}
		return true
	}
	// a random valid change: create a new object, or modify / delete a live one
	nextID := 1
	change := func(lateBase int) (c01Ev, bool) {
		var ids []int
		for id := range live {
			ids = append(ids, id)
		}
		sort.Ints(ids)
		nextCs++
		var e c01Ev
		switch {
		case len(ids) == 0 || rng.Chance(50):
			nextID++
			e = c01Ev{lateBase + nextID, "a", nextCs}
		case rng.Chance(70):
			e = c01Ev{ids[rng.Intn(len(ids))], "m", nextCs}
		default:
			id := ids[rng.Intn(len(ids))]
			e = c01Ev{id, "d", live[id]}
		}
		return e, cluster(e)
	}
	for i := rng.Range(0, 2); i > 0; i-- { // objects that exist before the operator starts
		nextID++
		if !cluster(c01Ev{nextID, "a", nextCs}) {
			return
		}
	}
	ctx, cancel := context.WithCancel(context.Background())
	defer cancel()
	hd, td := filepath.Join(dir, "hooks"), filepath.Join(dir, "tmp")
	op, err := shell_operator.VerifAssembleC01(ctx, fc.Client, hd, td, c17KubeMetrics, c17KubeMetrics)
	for try := 0; err != nil && strings.Contains(err.Error(), "text file busy") && try < 10; try++ {
		time.Sleep(30 * time.Millisecond)
		op, err = shell_operator.VerifAssembleC01(ctx, fc.Client, hd, td, c17KubeMetrics, c17KubeMetrics)
	}
	if err != nil && strings.Contains(err.Error(), "text file busy") {
		c.Inconcl = "hook script busy (fork/exec race between parallel cases)"
		return
	}
	if err != nil {
		c.Oracle("opflag what=assembled:" + strings.ReplaceAll(firstLine(err.Error()), " ", "_") + " ok=false")
		return
	}
	defer func() {
		_ = os.Remove(filepath.Join(dir, "block-h1"))
		op.KubeEventsManager.PauseHandleEvents()
		op.TaskQueues.Stop()
		op.Stop()
		time.Sleep(10 * time.Millisecond)
	}()
	markStop := func() {
		if f, err := os.OpenFile(logFile, os.O_APPEND|os.O_CREATE|os.O_WRONLY, 0o644); err == nil {
			fmt.Fprintln(f, "STOP - -")
			f.Close()
		}
	}
	tune := func(q *queue.TaskQueue) {
		q.WaitLoopCheckInterval = time.Millisecond
		q.DelayOnQueueIsEmpty = time.Millisecond
		q.DelayOnRepeat = time.Millisecond
		q.ExponentialBackoffFn = func(int) time.Duration { return 2 * time.Millisecond }
	}
	if early {
		// the shutdown request comes during the start-up, between two of its queue-related steps: before the main
		// queue exists (the set is empty), before the main queue is started, before the hook queues are created,
		// before the events consumer runs. The start goes on: queues created afterwards must be born stopped,
		// queues that run already stop as usual.
		earlyStep := rng.Intn(4)
		c.Note(fmt.Sprintf("shutdown-during-start-up:before-step-%d", earlyStep))
		returned := true
		op.VerifC17RunSteps(tune, func(step int) {
			if step != earlyStep {
				return
			}
			done := make(chan struct{})
			go func() { op.Shutdown(); close(done) }()
			select {
			case <-done:
			case <-time.After(shell_operator.WaitQueuesTimeout + 20*time.Second):
				returned = false
			}
			markStop()
		})
		if !returned {
			c.Oracle("shutdownreturns returned=false")
			hangs.Add(1)
			return
		}
	} else {
		op.VerifC03Run(tune)
	}
	waitFor := func(cond func() bool, d time.Duration) bool {
		deadline := time.Now().Add(d)
		for time.Now().Before(deadline) {
			if cond() {
				return true
			}
			time.Sleep(2 * time.Millisecond)
		}
		return cond()
	}
	// the queues the operator created (correspondence with the model of initAndStartHookQueues comes below)
	var present []int
	for k := 0; k <= nq; k++ {
		if op.TaskQueues.GetByName(qName(k)) != nil {
			present = append(present, k)
		}
	}
	var schedBinds []*c17Bind
	for _, h := range hooks {
		for _, b := range h.binds {
			if !b.kube {
				schedBinds = append(schedBinds, b)
			}
		}
	}
	tick := func(b *c17Bind, d time.Duration) bool {
		select {
		case op.ScheduleManager.Ch() <- b.crontab:
			return true
		case <-time.After(d):
			return false
		}
	}
	midRun := false
	busyQueue := -1
	var took time.Duration
	if !early {
		// start-up: the main queue enables the bindings (informers are created and started, Synchronization runs)
		if !waitFor(func() bool { return op.TaskQueues.GetMain().Length() == 0 }, 30*time.Second) {
			c.Inconcl = "the start-up tasks of the main queue did not finish in 30 s"
			return
		}
		// --- before the shutdown: a cluster change leads to an execution through every kubernetes binding
		nextID++
		warm := nextID
		if !cluster(c01Ev{warm, "a", nextCs}) {
			return
		}
		warmName := fmt.Sprintf("o%d", warm)
		warmSeen := func() bool {
			execs, _, _ := c17ReadExecs(logFile, hooks)
			seen := map[*c17Bind]bool{}
			for _, e := range execs {
				if e.typ != "Event" {
					continue
				}
				for _, o := range e.objs {
					if o == warmName {
						// contexts of several bindings of one hook in one queue are combined into one execution
						for _, b := range e.hook.binds {
							if b.kube && b.queueNo == e.bind.queueNo {
								seen[b] = true
							}
						}
					}
				}
			}
			return len(seen) == nKube
		}
		if !waitFor(warmSeen, 30*time.Second) {
			c.Inconcl = "a cluster change did not reach every kubernetes binding within 30 s before the shutdown"
			return
		}
		// ... and a tick leads to an execution through every schedule binding
		for _, b := range schedBinds {
			ran := func() bool {
				execs, _, _ := c17ReadExecs(logFile, hooks)
				for _, e := range execs {
					if e.bind == b && e.typ == "Schedule" {
						return true
					}
				}
				return false
			}
			if !tick(b, wStepTimeout) || !waitFor(ran, 30*time.Second) {
				c.Inconcl = "a tick did not lead to an execution within 30 s before the shutdown"
				return
			}
		}
		startsOf := func(h *c17Hook) int {
			execs, _, _ := c17ReadExecs(logFile, hooks)
			n := 0
			for _, e := range execs {
				if e.hook == h {
					n++
				}
			}
			return n
		}
		// h1 hangs in the middle of its run (2 of 3 cases), triggered through one of its bindings
		midRun = rng.Chance(66)
		if midRun {
			before := startsOf(hooks[0])
			_ = os.WriteFile(filepath.Join(dir, "block-h1"), nil, 0o644)
			b := hooks[0].binds[rng.Intn(len(hooks[0].binds))]
			busyQueue = b.queueNo
			ok := true
			if b.kube {
				_, ok = change(0)
			} else {
				ok = tick(b, wStepTimeout)
			}
			if !ok || !waitFor(func() bool { return startsOf(hooks[0]) > before }, 30*time.Second) {
				if c.Inconcl == "" {
					c.Inconcl = "hook h1 did not start within 30 s"
				}
				return
			}
		}
		// more work: cluster changes and ticks; what is aimed at the hanging hook's queue stays queued behind it;
		// the last ones are still in flight (informer -> channel -> consumer -> queue) when Shutdown() is called
		nAct := rng.Range(0, 6)
		for i := 0; i < nAct; i++ {
			if len(schedBinds) > 0 && rng.Chance(40) {
				if !tick(schedBinds[rng.Intn(len(schedBinds))], wStepTimeout) {
					c.Inconcl = "the events consumer did not accept a tick before the shutdown"
					return
				}
			} else if _, ok := change(0); !ok {
				return
			}
			if rng.Chance(40) {
				time.Sleep(time.Duration(rng.Intn(15)) * time.Millisecond)
			}
		}

		t0 := time.Now()
		op.Shutdown() // returns when every queue shows "stop" or after WaitQueuesTimeout (shortened by the suite)
		took = time.Since(t0)
	} // !early

	// A queue that shows "stop" has no hook process any more (the handler runs the hook synchronously and
	// the worker sets the status after its last handler returned): whatever line that queue's hooks write
	// after the status was seen is an execution after the worker's exit — no timing assumption in that.
	stopped := func(k int) bool {
		q := op.TaskQueues.GetByName(qName(k))
		return q != nil && q.GetStatus() == "stop"
	}
	// every queue the set has by now belongs to the property's "every queue", whatever its name is and whoever
	// created it: names the configurations do not mention get the numbers nq+1, nq+2, ...
	addForeign := func() {
		var extra []string
		for name := range c17SetQueues(op.TaskQueues) {
			known := false
			for _, o := range names {
				known = known || o == name
			}
			if !known {
				extra = append(extra, name)
			}
		}
		sort.Strings(extra)
		for _, name := range extra {
			names = append(names, name)
			want = append(want, len(names)-1)
			c.Note("queue:not-named-by-a-binding")
		}
	}
	addForeign()
	exitPos := map[int]int{} // queue -> number of log lines when it was first seen stopped
	observeStops := func() bool {
		all := true
		for _, k := range want {
			if _, ok := exitPos[k]; ok {
				continue
			}
			if stopped(k) {
				exitPos[k] = len(readLog(logFile))
			} else {
				all = false
			}
		}
		return all
	}
	observeStops()
	// has the stop request reached every queue? (the contexts, no timing involved)
	var heard []int
	var setNow []int
	for k := 0; k < len(names); k++ {
		if q := op.TaskQueues.GetByName(qName(k)); q != nil {
			setNow = append(setNow, k)
			if q.VerifStopRequested() {
				heard = append(heard, k)
			}
		}
	}
	if !early {
		markStop()
	}
	// cluster events and ticks keep arriving after the shutdown
	var late []string
	for i := rng.Range(2, 5); i > 0; i-- {
		if len(schedBinds) > 0 && rng.Chance(35) {
			_ = tick(schedBinds[rng.Intn(len(schedBinds))], 200*time.Millisecond) // nobody has to listen any more
			continue
		}
		e, ok := change(500)
		if !ok {
			return
		}
		if e.kind == "a" {
			late = append(late, fmt.Sprintf("o%d", e.id))
		}
	}
	_ = os.Remove(filepath.Join(dir, "block-h1")) // the current handler returns
	allStopped := waitFor(observeStops, 20*time.Second)
	if allStopped {
		time.Sleep(30 * time.Millisecond)
	} else {
		hangs.Add(1)
		time.Sleep(500 * time.Millisecond) // what a worker that is still alive starts meanwhile is evidence
	}

	// --- the model of initAndStartHookQueues / NewNamedQueue / Stop against what the operator built
	c.Op(fmt.Sprintf("hookqueues sched=%s kube=%s", joinInts(schedNames), joinInts(kubeNames)),
		fmt.Sprintf("queues=%s heard=%s", joinInts(setNow), joinInts(heard)))
	// --- the property on what the implementation showed
	c.Oracle(fmt.Sprintf("stopheard want=%s heard=%s", joinInts(want), joinInts(heard)))
	execs, stopLine, nLines := c17ReadExecs(logFile, hooks)
	var ev []string
	var seenObjs []string
	seenObj := map[string]bool{}
	var qs []int
	for _, k := range want {
		qs = append(qs, k+1)
	}
	putExits := func(upTo int) { // the exits observed before line upTo was written
		for _, k := range want {
			if p, ok := exitPos[k]; ok && p <= upTo {
				ev = append(ev, fmt.Sprintf("x%d", k+1))
				delete(exitPos, k)
			}
		}
	}
	next := 0
	for i := 0; i < nLines; i++ {
		putExits(i)
		if i == stopLine {
			ev = append(ev, "S")
		}
		for next < len(execs) && execs[next].line == i {
			e := execs[next]
			next++
			qn := e.bind.queueNo
			if e.typ == "Synchronization" {
				qn = 0 // Synchronization runs in the main queue whatever the binding's queue is
			}
			id := e.hook.idx*1000 + next
			ev = append(ev, fmt.Sprintf("s%d:%d:%d", qn+1, id, id))
			for _, o := range e.objs {
				if !seenObj[o] {
					seenObj[o] = true
					seenObjs = append(seenObjs, o)
				}
			}
		}
	}
	if stopLine < 0 {
		ev = append(ev, "S")
	}
	putExits(nLines + 1)
	sort.Strings(seenObjs)
	c.Oracle(fmt.Sprintf("weakstop q=%s ev=%s", joinInts(qs), joinStrs(ev)))
	c.Oracle(fmt.Sprintf("terminated q=%s ev=%s", joinInts(qs), joinStrs(ev)))
	c.Oracle(fmt.Sprintf("latecluster late=%s seen=%s", joinStrs(late), joinStrs(seenObjs)))
	if midRun {
		// h1 was inside its handler for the whole call: the wait for the queues cannot have ended before its timeout
		c.Oracle(fmt.Sprintf("shutdownwaits busy=%d early=%v", busyQueue, took < shell_operator.WaitQueuesTimeout))
	}
	c.Nontrivial = true
	if early {
		c.Note("kind:whole-operator-shutdown-during-start-up")
	} else if midRun {
		c.Note("kind:whole-operator-cluster-events-shutdown-mid-run")
	} else {
		c.Note("kind:whole-operator-cluster-events-shutdown")
	}
}
