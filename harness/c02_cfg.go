package main

// C02, configuration glue: the real MonitorConfig.names() / namespaces() — the lists the informer
// loops of monitor.CreateInformers / createInformersForNamespace run over — on matchNames lists
// with repeats at arbitrary positions. One informer per element: an entry handed out twice is an
// object listed twice in every snapshot of the binding.

import (
	"fmt"

	metav1 "k8s.io/apimachinery/pkg/apis/meta/v1"

	kem "github.com/flant/shell-operator/pkg/kube_events_manager"
	kemtypes "github.com/flant/shell-operator/pkg/kube_events_manager/types"
)

// c02RandList: 0..8 ranks over 1..4; runs, non-adjacent repeats, all equal, no repeats.
func c02RandList(rng *Rng) []int {
	n := rng.Range(0, 8)
	res := make([]int, 0, n)
	hi := rng.Range(1, 4)
	for i := 0; i < n; i++ {
		if len(res) > 0 && rng.Chance(25) {
			res = append(res, res[rng.Intn(len(res))]) // repeat an earlier entry
		} else {
			res = append(res, rng.Range(1, hi))
		}
	}
	return res
}

func c02CfgCase(c *Case, rng *Rng) {
	rng = NewRng(rng.U64() ^ 0x7f4a7c15)
	repeats, gaps := 0, 0
	for i := rng.Range(3, 6); i > 0; i-- {
		l := c02RandList(rng)
		if rep, gap := c02HasRepeat(l); rep {
			repeats++
			if gap {
				gaps++
			}
		}
		var strs []string
		mc := &kem.MonitorConfig{}
		if rng.Bool() {
			for _, x := range l {
				strs = append(strs, c02Names[x-1])
			}
			if len(l) > 0 || rng.Bool() {
				mc.NameSelector = &kemtypes.NameSelector{MatchNames: strs}
			}
			before := append([]string{}, strs...)
			var got []int
			for _, s := range kem.VerifC02Names(mc) {
				got = append(got, c02NameRank(s))
			}
			c.Op("cfgnames "+joinInts(l), joinInts(got))
			c.Oracle(fmt.Sprintf("uniq in=%s got=%s", joinInts(l), joinInts(got)))
			c02CfgUntouched(c, before, strs)
			continue
		}
		for _, x := range l {
			strs = append(strs, c02Namespaces[x-1])
		}
		sel := rng.Chance(25)
		mc.NamespaceSelector = &kemtypes.NamespaceSelector{NameSelector: &kemtypes.NameSelector{MatchNames: strs}}
		if sel {
			mc.NamespaceSelector.LabelSelector = &metav1.LabelSelector{MatchLabels: map[string]string{c02LabelKey: "yes"}}
		}
		before := append([]string{}, strs...)
		res := kem.VerifC02Namespaces(mc)
		b := 0
		if sel {
			b = 1
		}
		line := fmt.Sprintf("cfgnss %d %s", b, joinInts(l))
		switch {
		case len(res) == 0:
			c.Op(line, "nil")
		case len(l) == 0 && len(res) == 1 && res[0] == "":
			c.Op(line, "0")
		default:
			var got []int
			for _, s := range res {
				got = append(got, c02NsRank(s))
			}
			c.Op(line, joinInts(got))
			c.Oracle(fmt.Sprintf("uniq in=%s got=%s", joinInts(l), joinInts(got)))
		}
		c02CfgUntouched(c, before, strs)
	}
	c.Nontrivial = repeats > 0
	c.Note("cfg-glue")
	if gaps > 0 {
		c.Note("cfg-glue:repeat-nonadjacent")
	} else if repeats > 0 {
		c.Note("cfg-glue:repeat-adjacent")
	}
	c.Desc = "names()/namespaces() on matchNames lists with repeats"
}

// the hook configuration's own list is not modified by the glue (it is read again for every namespace)
func c02CfgUntouched(c *Case, before, after []string) {
	same := len(before) == len(after)
	for i := 0; same && i < len(before); i++ {
		same = before[i] == after[i]
	}
	if !same {
		c.Op("cfg-list-untouched", "modified")
	}
}
