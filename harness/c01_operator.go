package main

import (
	"context"
	"encoding/json"
	"fmt"
	"os"
	"path/filepath"
	"sort"
	"strconv"
	"strings"
	"sync"
	"time"

	"github.com/deckhouse/deckhouse/pkg/log"
	corev1 "k8s.io/api/core/v1"
	metav1 "k8s.io/apimachinery/pkg/apis/meta/v1"
	"k8s.io/apimachinery/pkg/runtime/schema"

	"github.com/flant/kube-client/fake"
	"github.com/flant/kube-client/manifest"
	"github.com/flant/shell-operator/pkg/hook/types"
	kem "github.com/flant/shell-operator/pkg/kube_events_manager"
	metricstorage "github.com/flant/shell-operator/pkg/metric_storage"
	shell_operator "github.com/flant/shell-operator/pkg/shell-operator"
	"github.com/flant/shell-operator/pkg/task/queue"
	"github.com/flant/shell-operator/pkg/utils/verifsched"
)

// Whole-operator exploration for C01 (uncontrolled scheduling, real informers on the fake cluster,
// real queues, real bash hook): validates the informer-contract assumption of the model and covers
// what the informer-level suite cannot see — the unlock call site in taskHandleHookRun (only after a
// SUCCESSFUL Synchronization), the single consumer turning events into tasks in order, the group form.

var c01OpMetrics = metricstorage.NewMetricStorage(context.Background(), "verif_c01op_", true, log.NewNop())

func c01OpInit() {
	queue.DefaultWaitLoopCheckInterval = 3 * time.Millisecond
	queue.DefaultDelayOnQueueIsEmpty = 6 * time.Millisecond
	queue.DefaultDelayOnRepeat = 3 * time.Millisecond
	queue.DefaultInitialDelayOnFailedTask = 30 * time.Millisecond
}

type c01OpCfg struct {
	group    string
	queue    string
	jq       bool
	types    []string // a m d
	failSync int      // the Synchronization run fails this many times first
	// park: the cluster changes INSIDE the snapshot reads of one Synchronization run (quantifier item
	// (b): "snapshot reads by the Synchronization run itself"): the run's goroutine is parked at the
	// k-th yield point it reaches in monitor.Snapshot() (snapshot.read before an informer is read,
	// snapshot.sort after the last one) during attempt `attempt`, the changes are applied and cached
	// by the informer, then the run goes on.
	park *c01SnapPark
	// quiet: nothing is created after the history (no sentinel): what the hook got must be complete
	// by itself — a later unrelated event would refresh the snapshots of a group and hide a loss.
	quiet bool
}

type c01SnapPark struct {
	attempt, k int
	evs        []c01Ev
}

const c01HookScript = `#!/bin/bash
if [[ "$1" == "--config" ]]; then
  cat "$(dirname "$0")/config.yaml"
  exit 0
fi
LOG=%s
n=$(ls "$LOG" | grep -c '^ctx-')
n=$((n+1))
cp "$BINDING_CONTEXT_PATH" "$LOG/ctx-$n.json"
code=0
if [[ -f "$LOG/wait-$n" ]]; then
  while [[ ! -f "$LOG/go-$n" ]]; do sleep 0.005; done
  code=$(cat "$LOG/go-$n")
fi
echo "$code" > "$LOG/exit-$n"
exit "$code"
`

// c01WriteGate creates a gate file a hook process polls for and then reads: the content must be there
// the moment the name exists (os.WriteFile creates the file empty first; a hook that read the empty
// file exited with a status the harness did not ask for).
func c01WriteGate(path, content string) {
	tmp := filepath.Join(filepath.Dir(path), ".gate-"+filepath.Base(path))
	_ = os.WriteFile(tmp, []byte(content), 0o644)
	_ = os.Rename(tmp, path)
}

func c01OpObj(fc *fake.Cluster, ns string, e c01Ev) error {
	gvr := schema.GroupVersionResource{Version: "v1", Resource: "configmaps"}
	name := fmt.Sprintf("o%d", e.id)
	switch e.kind {
	case "d":
		return fc.Client.Dynamic().Resource(gvr).Namespace(ns).Delete(context.TODO(), name, metav1.DeleteOptions{})
	case "a":
		mft := manifest.MustFromYAML(fmt.Sprintf("apiVersion: v1\nkind: ConfigMap\nmetadata:\n  name: %q\ndata:\n  v: %q\n", name, strconv.Itoa(e.cs)))
		return fc.Create(ns, mft)
	default:
		obj, err := fc.Client.Dynamic().Resource(gvr).Namespace(ns).Get(context.TODO(), name, metav1.GetOptions{})
		if err != nil {
			return err
		}
		obj.Object["data"] = map[string]interface{}{"v": strconv.Itoa(e.cs)}
		lbl := obj.GetLabels()
		if lbl == nil {
			lbl = map[string]string{}
		}
		lbl["touch"] = strconv.FormatInt(time.Now().UnixNano(), 10) // a change outside `.data`
		obj.SetLabels(lbl)
		_, err = fc.Client.Dynamic().Resource(gvr).Namespace(ns).Update(context.TODO(), obj, metav1.UpdateOptions{})
		return err
	}
}

type c01OpExec struct {
	kinds  string // letters of the context types present: S E G O
	exit   int
	view   map[int]int // objects / snapshot of the binding in this execution (nil if none)
	events []c01Ev
}

func c01StateStr(m map[int]int) string {
	var ids []int
	for id := range m {
		ids = append(ids, id)
	}
	sort.Ints(ids)
	var ss []string
	for _, id := range ids {
		ss = append(ss, fmt.Sprintf("%d@%d", id, m[id]))
	}
	return joinStrs(ss)
}

func c01ObjState(o map[string]interface{}) (int, int, bool) {
	obj, ok := o["object"].(map[string]interface{})
	if !ok {
		return 0, 0, false
	}
	md, _ := obj["metadata"].(map[string]interface{})
	name, _ := md["name"].(string)
	id, _ := strconv.Atoi(strings.TrimPrefix(name, "o"))
	data, _ := obj["data"].(map[string]interface{})
	vs, _ := data["v"].(string)
	v, _ := strconv.Atoi(vs)
	return id, v, true
}

func c01ReadExecs(logDir string) ([]c01OpExec, error) {
	var res []c01OpExec
	for n := 1; ; n++ {
		b, err := os.ReadFile(filepath.Join(logDir, fmt.Sprintf("ctx-%d.json", n)))
		if err != nil {
			return res, nil
		}
		eb, err := os.ReadFile(filepath.Join(logDir, fmt.Sprintf("exit-%d", n)))
		if err != nil {
			return nil, fmt.Errorf("execution %d still running", n)
		}
		var ctxs []map[string]interface{}
		if err := json.Unmarshal(b, &ctxs); err != nil {
			return nil, fmt.Errorf("context file %d is not a JSON array: %v", n, err)
		}
		ex := c01OpExec{}
		ex.exit, _ = strconv.Atoi(strings.TrimSpace(string(eb)))
		for _, cx := range ctxs {
			t, _ := cx["type"].(string)
			switch t {
			case "Synchronization":
				ex.kinds += "S"
				ex.view = map[int]int{}
				objs, _ := cx["objects"].([]interface{})
				for _, o := range objs {
					if om, ok := o.(map[string]interface{}); ok {
						if id, v, ok := c01ObjState(om); ok {
							ex.view[id] = v
						}
					}
				}
			case "Event":
				ex.kinds += "E"
				we, _ := cx["watchEvent"].(string)
				k := map[string]string{"Added": "a", "Modified": "m", "Deleted": "d"}[we]
				if id, v, ok := c01ObjState(cx); ok {
					ex.events = append(ex.events, c01Ev{id, k, v})
				}
			case "Group":
				ex.kinds += "G"
				ex.view = map[int]int{}
				snaps, _ := cx["snapshots"].(map[string]interface{})
				objs, _ := snaps["cms"].([]interface{})
				for _, o := range objs {
					if om, ok := o.(map[string]interface{}); ok {
						if id, v, ok := c01ObjState(om); ok {
							ex.view[id] = v
						}
					}
				}
			default:
				ex.kinds += "O"
			}
		}
		res = append(res, ex)
	}
}

func c01OpRun(c *Case, rng *Rng, cfg c01OpCfg, initial, duringSync [][]c01Ev, after []c01Ev, scratch string) {
	ns := fmt.Sprintf("c01op-%d", c.Idx)
	base := filepath.Join(scratch, ns)
	hooksDir, logDir, tmpDir := filepath.Join(base, "hooks"), filepath.Join(base, "log"), filepath.Join(base, "tmp")
	for _, d := range []string{hooksDir, logDir, tmpDir} {
		_ = os.MkdirAll(d, 0o755)
	}
	var evs []string
	for _, t := range cfg.types {
		evs = append(evs, map[string]string{"a": "Added", "m": "Modified", "d": "Deleted"}[t])
	}
	conf := "configVersion: v1\nkubernetes:\n- name: cms\n  apiVersion: v1\n  kind: ConfigMap\n" +
		"  namespace:\n    nameSelector:\n      matchNames: [\"" + ns + "\"]\n" +
		"  executeHookOnEvent: [" + strings.Join(evs, ",") + "]\n"
	if cfg.jq {
		conf += "  jqFilter: \".data\"\n"
	}
	if cfg.group != "" {
		conf += "  group: " + cfg.group + "\n"
	}
	if cfg.queue != "" {
		conf += "  queue: " + cfg.queue + "\n"
	}
	_ = os.WriteFile(filepath.Join(hooksDir, "config.yaml"), []byte(conf), 0o644)
	_ = writeScript(filepath.Join(hooksDir, "hook.sh"), []byte(fmt.Sprintf(c01HookScript, logDir)), 0o755)
	for n := 1; n <= cfg.failSync+1; n++ {
		_ = os.WriteFile(filepath.Join(logDir, fmt.Sprintf("wait-%d", n)), nil, 0o644)
	}

	fc := fake.NewFakeCluster(fake.ClusterVersionV121)
	nsObj := &corev1.Namespace{}
	nsObj.SetName(ns)
	_, _ = fc.Client.CoreV1().Namespaces().Create(context.TODO(), nsObj, metav1.CreateOptions{})
	truth := map[int]int{}
	apply := func(es []c01Ev) bool {
		for _, e := range es {
			if err := c01OpObj(fc, ns, e); err != nil {
				c.Inconcl = "cluster operation failed: " + err.Error()
				return false
			}
			if e.kind == "d" {
				delete(truth, e.id)
			} else {
				truth[e.id] = e.cs
			}
		}
		return true
	}
	if len(initial) > 0 && !apply(initial[0]) {
		return
	}
	ctx, cancel := context.WithCancel(context.Background())
	defer cancel()
	op, err := shell_operator.VerifAssembleC01(ctx, fc.Client, hooksDir, tmpDir, c01OpMetrics, c01OpMetrics)
	if err != nil {
		c.Inconcl = "operator assembly failed: " + err.Error()
		return
	}
	// controlled window inside the Synchronization run's snapshot reads
	var parkMu sync.Mutex
	armed, parkCount := false, 0
	counting, readsInRun := false, 0 // Snapshot() calls of the run the window is in
	parkedCh := make(chan *verifsched.Arrival, 1)
	arm := func(on bool) {
		parkMu.Lock()
		armed, parkCount = on, 0
		counting = on
		parkMu.Unlock()
	}
	if cfg.park != nil {
		hk0 := op.HookManager.GetHook("hook.sh")
		if hk0 == nil || len(hk0.GetConfig().OnKubernetesEvents) == 0 {
			c.Inconcl = "hook not loaded"
			return
		}
		key := "snapshot/" + hk0.GetConfig().OnKubernetesEvents[0].Monitor.Metadata.MonitorId
		raw := sched.Subscribe(key)
		stopFwd := make(chan struct{})
		defer func() {
			sched.Unsubscribe(key)
			close(stopFwd)
		}()
		go func() {
			for {
				select {
				case a := <-raw:
					parkMu.Lock()
					hold := armed && parkCount == cfg.park.k
					if armed {
						parkCount++
					}
					if hold {
						armed = false
					}
					if counting && a.Name == "snapshot.sort" {
						readsInRun++
					}
					parkMu.Unlock()
					if hold {
						parkedCh <- a
					} else {
						a.Release()
					}
				case <-stopFwd:
					for {
						select {
						case a := <-raw:
							a.Release()
						case a := <-parkedCh:
							a.Release()
						case <-time.After(50 * time.Millisecond):
							return
						}
					}
				}
			}
		}()
		if cfg.park.attempt == 1 {
			arm(true)
		}
	}
	op.VerifStart()
	defer func() {
		op.KubeEventsManager.PauseHandleEvents()
		op.TaskQueues.Stop()
		op.Stop()
		// let a blocked hook process go
		for n := 1; n <= cfg.failSync+3; n++ {
			c01WriteGate(filepath.Join(logDir, fmt.Sprintf("go-%d", n)), "0")
		}
		time.Sleep(20 * time.Millisecond)
	}()
	parked := false
	onPark := func(a *verifsched.Arrival) {
		// the Synchronization run is inside its snapshot reads: change the cluster, let the informer
		// cache (and buffer) the changes, then let the run go on
		parked = true
		bufferedNow := func() int {
			n := 0
			if hk0 := op.HookManager.GetHook("hook.sh"); hk0 != nil {
				if mon := op.KubeEventsManager.GetMonitor(hk0.GetConfig().OnKubernetesEvents[0].Monitor.Metadata.MonitorId); mon != nil {
					_, _, _, buffered := kem.VerifMonitorState(mon)
					for _, b := range buffered {
						n += b
					}
				}
			}
			return n
		}
		before, expect := bufferedNow(), 0
		for _, e := range cfg.park.evs {
			fires := false
			for _, t := range cfg.types {
				if t == e.kind {
					fires = true
				}
			}
			if cs, ok := truth[e.id]; e.kind == "m" && ok && cs == e.cs && cfg.jq {
				fires = false // only a label changed, outside the jqFilter projection
			}
			if fires {
				expect++
			}
		}
		ok := apply(cfg.park.evs)
		for deadline := time.Now().Add(5 * time.Second); ok && expect > 0 && time.Now().Before(deadline); time.Sleep(2 * time.Millisecond) {
			if bufferedNow() >= before+expect {
				break
			}
		}
		time.Sleep(15 * time.Millisecond)
		a.Release()
	}
	waitFile := func(name string) bool {
		deadline := time.Now().Add(20 * time.Second)
		for time.Now().Before(deadline) {
			select {
			case a := <-parkedCh:
				onPark(a)
			default:
			}
			if _, err := os.Stat(filepath.Join(logDir, name)); err == nil {
				return true
			}
			time.Sleep(2 * time.Millisecond)
		}
		return false
	}
	// Synchronization attempts: each one gets its view, then the cluster changes while the hook runs
	for n := 1; n <= cfg.failSync+1; n++ {
		if !waitFile(fmt.Sprintf("ctx-%d.json", n)) {
			c.Inconcl = fmt.Sprintf("execution %d did not start", n)
			return
		}
		if c.Inconcl != "" {
			return
		}
		if cfg.park != nil {
			arm(cfg.park.attempt == n+1) // the next attempt begins as soon as this one is released
			if cfg.park.attempt == n && !parked {
				// the run never reached that yield point: the changes are ordinary changes during the run
				c.Note("snapshot-window:not-reached")
				if !apply(cfg.park.evs) {
					return
				}
			}
		}
		if n-1 < len(duringSync) {
			if !apply(duringSync[n-1]) {
				return
			}
			time.Sleep(time.Duration(rng.Range(0, 30)) * time.Millisecond)
		}
		code := "0"
		if n <= cfg.failSync {
			code = "1"
		}
		c01WriteGate(filepath.Join(logDir, fmt.Sprintf("go-%d", n)), code)
	}
	if !apply(after) {
		return
	}
	// quiescence: informers caught up with the cluster (reading the snapshot is safe once unlocked),
	// the queues are empty, every started execution has finished — stable for a while
	hk := op.HookManager.GetHook("hook.sh")
	if hk == nil {
		c.Inconcl = "hook not loaded"
		return
	}
	if !waitFile(fmt.Sprintf("exit-%d", cfg.failSync+1)) {
		c.Inconcl = "Synchronization did not finish"
		return
	}
	// A sentinel object created last: events of one informer and tasks of one queue are FIFO, so
	// once the hook has seen the sentinel every earlier change has been handed over as well.
	sentinel := false
	for _, t := range cfg.types {
		if t == "a" {
			sentinel = true
		}
	}
	if cfg.quiet {
		sentinel = false
	}
	if cfg.park != nil {
		if parked {
			c.Note(fmt.Sprintf("snapshot-window:parked-at-%d", cfg.park.k))
		}
	}
	if sentinel && !apply([]c01Ev{{99, "a", 999}}) {
		return
	}
	// Do not read snapshots before the binding is unlocked: a Snapshot() of a still-locked binding
	// by anyone but its Synchronization run drops the buffered events (recorded finding R3) — the
	// harness must not cause that itself.
	monID := hk.GetConfig().OnKubernetesEvents[0].Monitor.Metadata.MonitorId
	unlockDeadline := time.Now().Add(30 * time.Second)
	stuckPolls := 0
	for {
		mon := op.KubeEventsManager.GetMonitor(monID)
		if mon != nil {
			_, statics, _, _ := kem.VerifMonitorState(mon)
			all := len(statics) > 0
			for _, en := range statics {
				all = all && en
			}
			if all {
				break
			}
		}
		// Decided without a clock: the successful Synchronization run has exited (its exit file is there),
		// and the task sits in "main" until its handler — which unlocks before it returns — has returned.
		// "main" empty and the binding still locked (read in this order): nothing is left that would
		// unlock it; the changes made meanwhile stay in the buffer for ever.
		if q := op.TaskQueues.GetByName("main"); q != nil && q.Length() == 0 && mon != nil {
			_, statics, _, buffered := kem.VerifMonitorState(mon)
			locked := len(statics) > 0
			for _, en := range statics {
				locked = locked && !en
			}
			nbuf := 0
			for _, n := range buffered {
				nbuf += n
			}
			if stuckPolls++; locked && stuckPolls > 10 && (nbuf > 0 || !sentinel) {
				ex, err := c01ReadExecs(logDir)
				if err != nil {
					c.Inconcl = "an execution is still running"
					return
				}
				c.Op(fmt.Sprintf("cfg types=%s", joinStrs(cfg.types)), "ok")
				c.Note("op:binding-never-unlocked")
				c.Oracle("op-unlock synchronization-steps-over=1 unlocked=cms:0")
				if cfg.group == "" && len(cfg.types) == 3 {
					var view map[int]int
					for _, e := range ex {
						if strings.Contains(e.kinds, "S") && e.exit == 0 {
							view = e.view
							break
						}
					}
					c.Oracle(fmt.Sprintf("replay view=%s delivered=- final=%s", c01StateStr(view), c01StateStr(truth)))
				}
				return
			}
		} else {
			stuckPolls = 0
		}
		if time.Now().After(unlockDeadline) {
			c.Inconcl = "binding was not unlocked after the successful Synchronization"
			return
		}
		time.Sleep(3 * time.Millisecond)
	}
	deadline := time.Now().Add(60 * time.Second)
	stable := 0
	need := 8
	if !sentinel {
		need = 80 // no marker available: require a long quiet period instead
	}
	var execs []c01OpExec
	for {
		if time.Now().After(deadline) {
			c.Inconcl = "operator did not come to rest"
			return
		}
		time.Sleep(15 * time.Millisecond)
		snap := map[int]int{}
		for _, o := range hk.HookController.KubernetesSnapshots()["cms"] {
			if o.Object != nil {
				id, _ := strconv.Atoi(strings.TrimPrefix(o.Object.GetName(), "o"))
				data, _, _ := unstructuredNestedString(o.Object.Object, "data", "v")
				v, _ := strconv.Atoi(data)
				snap[id] = v
			}
		}
		busy := false
		for _, qn := range []string{"main", cfg.queue} {
			if qn == "" {
				continue
			}
			if q := op.TaskQueues.GetByName(qn); q != nil && q.Length() > 0 {
				busy = true
			}
		}
		ex, err := c01ReadExecs(logDir)
		seen := !sentinel
		if err == nil {
			for _, e := range ex {
				for _, ev := range e.events {
					if ev.id == 99 {
						seen = true
					}
				}
				if strings.Contains(e.kinds, "G") && e.view[99] == 999 {
					seen = true
				}
			}
		}
		if err != nil || busy || !seen || c01StateStr(snap) != c01StateStr(truth) || len(ex) != len(execs) {
			stable = 0
			if err == nil {
				execs = ex
			}
			continue
		}
		stable++
		if stable >= need {
			break
		}
	}
	// observations -> oracle lines
	c.Op(fmt.Sprintf("cfg types=%s", joinStrs(cfg.types)), "ok")
	if cfg.park != nil {
		// correspondence with the model of UpdateSnapshots: the reads the Synchronization run made
		parkMu.Lock()
		n := readsInRun
		parkMu.Unlock()
		inc := "-"
		if cfg.group != "" {
			inc = "1" // a binding with a group includes itself
		}
		var reads []int
		for i := 0; i < n; i++ {
			reads = append(reads, 1)
		}
		c.Op("us 1:"+inc+":1", "reads="+joinInts(reads))
	}
	var runs []string
	for _, e := range execs {
		runs = append(runs, fmt.Sprintf("%s:%d", e.kinds, e.exit))
	}
	first := "S"
	if cfg.group != "" {
		first = "G"
	}
	c.Oracle(fmt.Sprintf("op-nobefore sync=%s runs=%s", first, joinStrs(runs)))
	c.Note(fmt.Sprintf("op:execs=%d", len(execs)))
	if cfg.group != "" {
		if len(cfg.types) != 3 {
			return // a change that does not pass the event-type filter need not be followed by a Group execution
		}
		last := map[int]int{}
		for _, e := range execs {
			if e.view != nil {
				last = e.view
			}
		}
		c.Oracle(fmt.Sprintf("op-group last=%s final=%s", c01StateStr(last), c01StateStr(truth)))
		return
	}
	if len(cfg.types) == 3 {
		var view map[int]int
		var delivered []c01Ev
		seenSync := false
		for _, e := range execs {
			if !seenSync {
				if strings.Contains(e.kinds, "S") && e.exit == 0 {
					seenSync = true
					view = e.view
				}
				continue
			}
			delivered = append(delivered, e.events...)
		}
		c.Oracle(fmt.Sprintf("replay view=%s delivered=%s final=%s", c01StateStr(view), c01Evs(delivered), c01StateStr(truth)))
	}
}

func unstructuredNestedString(obj map[string]interface{}, fields ...string) (string, bool, error) {
	var cur interface{} = obj
	for _, f := range fields {
		m, ok := cur.(map[string]interface{})
		if !ok {
			return "", false, nil
		}
		cur = m[f]
	}
	s, ok := cur.(string)
	return s, ok, nil
}

// c01GenClusterOps: a valid cluster history (create / modify / delete / re-create) continuing `live`.
func c01GenClusterOps(rng *Rng, live map[int]int, next *int, n int) []c01Ev {
	var w []c01Ev
	for i := 0; i < n; i++ {
		id := rng.Range(1, 3)
		cs, ok := live[id]
		switch {
		case !ok:
			*next++
			live[id] = *next
			w = append(w, c01Ev{id, "a", *next})
		case rng.Chance(25):
			delete(live, id)
			w = append(w, c01Ev{id, "d", cs})
		case rng.Chance(25):
			w = append(w, c01Ev{id, "m", cs}) // only a label changes: outside `.data`
		default:
			*next++
			live[id] = *next
			w = append(w, c01Ev{id, "m", *next})
		}
	}
	return w
}

// runC01OperatorWindow: the cluster changes inside the snapshot reads of the Synchronization run.
// A small systematic sweep (group x empty/non-empty view x yield point) followed by random cases.
func runC01OperatorWindow(r *Run) {
	all := []string{"a", "m", "d"}
	n := r.N(16+8, 16+120)
	r.Cases(750000, n, 8, func(c *Case, rng *Rng) {
		i := c.Idx - 750000
		cfg := c01OpCfg{types: all, quiet: true}
		live := map[int]int{}
		next := 10
		var initial [][]c01Ev
		park := &c01SnapPark{attempt: 1}
		if i < 16 {
			if i&1 != 0 {
				cfg.group = "g1"
			}
			nInit := 0
			if i&2 != 0 {
				nInit = rng.Range(1, 2)
			}
			initial = [][]c01Ev{c01GenClusterOps(rng, live, &next, nInit)}
			park.k = i >> 2
		} else {
			if rng.Chance(50) {
				cfg.group = "g1"
			}
			if rng.Chance(40) {
				cfg.queue = "q1"
			}
			cfg.jq = rng.Chance(40)
			cfg.quiet = rng.Chance(70)
			cfg.failSync = []int{0, 0, 1}[rng.Intn(3)]
			initial = [][]c01Ev{c01GenClusterOps(rng, live, &next, rng.Range(0, 2))}
			park.attempt = rng.Range(1, cfg.failSync+1)
			park.k = rng.Range(0, 3)
		}
		park.evs = c01GenClusterOps(rng, live, &next, rng.Range(1, 2))
		cfg.park = park
		var during [][]c01Ev
		var after []c01Ev
		for a := 0; a <= cfg.failSync; a++ {
			k := 0
			if !cfg.quiet {
				k = rng.Range(0, 2)
			}
			during = append(during, c01GenClusterOps(rng, live, &next, k))
		}
		if !cfg.quiet {
			after = c01GenClusterOps(rng, live, &next, rng.Range(0, 2))
		}
		c.Desc = fmt.Sprintf("operator, change inside the snapshot reads of Synchronization attempt %d (yield point %d): group=%q queue=%q jq=%v failSync=%d quiet=%v initial=%s inside=%s during=%v after=%s",
			park.attempt, park.k, cfg.group, cfg.queue, cfg.jq, cfg.failSync, cfg.quiet, c01Evs(initial[0]), c01Evs(park.evs), during, c01Evs(after))
		c01OpRun(c, rng, cfg, initial, during, after, r.Scratch)
		c.Nontrivial = true
		c.Note("operator-snapshot-window")
		if cfg.group != "" {
			c.Note("operator-snapshot-window:group")
		}
	})
}

func runC01Operator(r *Run) {
	c01OpInit()
	_ = types.OnKubernetesEvent
	n := r.N(24, 300)
	r.Cases(700000, n, 8, func(c *Case, rng *Rng) {
		cfg := c01OpCfg{types: []string{"a", "m", "d"}}
		if rng.Chance(30) {
			cfg.group = "g1"
		}
		if rng.Chance(40) {
			cfg.queue = "q1"
		}
		cfg.jq = rng.Chance(40)
		if rng.Chance(20) {
			cfg.types = nil
			for _, t := range []string{"a", "m", "d"} {
				if rng.Chance(60) {
					cfg.types = append(cfg.types, t)
				}
			}
			if len(cfg.types) == 0 {
				cfg.types = []string{"a"}
			}
		}
		cfg.failSync = []int{0, 0, 1, 2}[rng.Intn(4)]
		live := map[int]int{}
		next := 10
		initial := [][]c01Ev{c01GenClusterOps(rng, live, &next, rng.Range(0, 3))}
		var during [][]c01Ev
		for i := 0; i <= cfg.failSync; i++ {
			during = append(during, c01GenClusterOps(rng, live, &next, rng.Range(0, 3)))
		}
		after := c01GenClusterOps(rng, live, &next, rng.Range(0, 4))
		c.Desc = fmt.Sprintf("operator: group=%q queue=%q jq=%v types=%v failSync=%d initial=%s during=%v after=%s",
			cfg.group, cfg.queue, cfg.jq, cfg.types, cfg.failSync, c01Evs(initial[0]), during, c01Evs(after))
		c01OpRun(c, rng, cfg, initial, during, after, r.Scratch)
		c.Nontrivial = len(after)+len(during[0]) > 0
		c.Note("operator-case")
		if cfg.group != "" {
			c.Note("operator-case:group")
		}
		if cfg.failSync > 0 {
			c.Note("operator-case:sync-fails-first")
		}
	})
}
