package main

import (
	"context"
	"fmt"
	"os"
	"path/filepath"
	"strconv"
	"strings"
	"time"

	"github.com/deckhouse/deckhouse/pkg/log"

	"github.com/flant/shell-operator/pkg/hook"
	bctx "github.com/flant/shell-operator/pkg/hook/binding_context"
	"github.com/flant/shell-operator/pkg/hook/task_metadata"
	htypes "github.com/flant/shell-operator/pkg/hook/types"
	objectpatch "github.com/flant/shell-operator/pkg/kube/object_patch"
	metricstorage "github.com/flant/shell-operator/pkg/metric_storage"
	shell_operator "github.com/flant/shell-operator/pkg/shell-operator"
	"github.com/flant/shell-operator/pkg/task"
	"github.com/flant/shell-operator/pkg/task/queue"
)

// Operator-level cases of C13: the patch file travels the whole way - a real hook process writes it
// into $KUBERNETES_PATCH_PATH, Hook.Run reads it back, handleRunHook (both branches: hook succeeded /
// hook failed) parses and applies it - and two executions (of the same hook in two queues, or of two
// hooks) overlap in a controlled interleaving: each process is gated at "started", "written" and
// "exit" by marker files, the harness releases the gates in the order the case prescribes.

const c13GateScript = `#!/bin/bash
if [[ "$1" == "--config" ]]; then
  echo '{"configVersion":"v1","schedule":[{"name":"s1","crontab":"* * * * *","queue":"q1"},{"name":"s2","crontab":"* * * * *","queue":"q2"}]}'
  exit 0
fi
B=%q
id=$(jq -r '.[0].binding' "$BINDING_CONTEXT_PATH")
S="$B/x/$id"
w() { for ((i=0;i<500;i++)); do [[ -e "$1" ]] && return 0; sleep 0.05; done; : > "$S/timeout"; exit 97; }
: > "$S/started"
w "$S/go-write"
if [[ -f "$S/patch" ]]; then cat "$S/patch" > "$KUBERNETES_PATCH_PATH"; fi
: > "$S/written"
w "$S/go-exit"
exit "$(cat "$S/exit")"
`

type c13Exec struct {
	name    string // "A" / "B"
	hook    int    // index into c13OpEnv.hookNames
	queue   int
	form    string
	exit    int
	noFile  bool // the hook writes nothing into the patch file
	docs    []c13Doc
	garbled bool
	mode    string
	relay   bool   // the file is laid out with one long physical line outside the documents (c13Layout)
	padAt   int    // corpus: a YAML comment line of this many bytes in front of the last document
	layout  string // what c13Layout did
	data    []byte
	parity  int // ids of the objects this execution addresses: id%2
	dir     string
	status  string
	done    chan struct{}
}

type c13OpEnv struct {
	dir, hooksDir, tmpDir string
	hookNames             []string
	op                    *shell_operator.ShellOperator
	cl                    *c13Cluster
	cancel                context.CancelFunc
}

func c13OpSetup(r *Run, c *Case, init map[int]c13Obj) (*c13OpEnv, error) {
	e := &c13OpEnv{dir: filepath.Join(r.Scratch, fmt.Sprintf("c13op-%d", c.Idx))}
	if abs, err := filepath.Abs(r.Scratch); err == nil {
		if d, err := filepath.EvalSymlinks(abs); err == nil {
			e.dir = filepath.Join(d, fmt.Sprintf("c13op-%d", c.Idx))
		}
	}
	e.hooksDir = filepath.Join(e.dir, "hooks")
	e.tmpDir = filepath.Join(e.dir, "tmp")
	for _, d := range []string{e.hooksDir, e.tmpDir, filepath.Join(e.dir, "x")} {
		if err := os.MkdirAll(d, 0o755); err != nil {
			return nil, err
		}
	}
	e.hookNames = []string{"h1.sh", "h2.sh"}
	for _, hf := range e.hookNames {
		if err := writeScript(filepath.Join(e.hooksDir, hf), []byte(fmt.Sprintf(c13GateScript, e.dir)), 0o755); err != nil {
			return nil, err
		}
	}
	cl, err := c13NewCluster(init)
	if err != nil {
		return nil, err
	}
	e.cl = cl
	ctx, cancel := context.WithCancel(context.Background())
	e.cancel = cancel
	nop := log.NewNop()
	op := shell_operator.NewShellOperator(ctx, shell_operator.WithLogger(nop))
	op.MetricStorage = metricstorage.NewMetricStorage(ctx, "shell_operator_", true, nop)
	op.HookMetricStorage = metricstorage.NewMetricStorage(ctx, "", true, nop)
	op.KubeClient = cl.fc.Client
	op.ObjectPatcher = objectpatch.NewObjectPatcher(c13Client{cl.fc.Client}, nop)
	op.TaskQueues = queue.NewTaskQueueSet()
	op.HookManager = hook.NewHookManager(&hook.ManagerConfig{WorkingDir: e.hooksDir, TempDir: e.tmpDir, Logger: nop})
	var initErr error
	for try := 0; try < 50; try++ { // ETXTBSY, see c12Setup
		if initErr = op.HookManager.Init(); initErr == nil || !strings.Contains(initErr.Error(), "text file busy") {
			break
		}
		time.Sleep(20 * time.Millisecond)
	}
	if initErr != nil {
		cancel()
		return nil, fmt.Errorf("hook manager init: %w", initErr)
	}
	e.op = op
	return e, nil
}

func (e *c13OpEnv) prepare(x *c13Exec) error {
	x.dir = filepath.Join(e.dir, "x", "exec-"+x.name)
	if err := os.MkdirAll(x.dir, 0o755); err != nil {
		return err
	}
	if !x.noFile {
		if err := os.WriteFile(filepath.Join(x.dir, "patch"), x.data, 0o644); err != nil {
			return err
		}
	}
	return os.WriteFile(filepath.Join(x.dir, "exit"), []byte(strconv.Itoa(x.exit)), 0o644)
}

// launch: the queue worker of x's queue takes the task (taskHandler -> handleRunHook -> Hook.Run).
func (e *c13OpEnv) launch(x *c13Exec) {
	x.done = make(chan struct{})
	bc := bctx.BindingContext{Binding: "exec-" + x.name}
	bc.Metadata.BindingType = htypes.Schedule
	meta := task_metadata.HookMetadata{
		HookName:       e.hookNames[x.hook],
		Binding:        fmt.Sprintf("s%d", x.queue),
		BindingType:    htypes.Schedule,
		BindingContext: []bctx.BindingContext{bc},
	}
	t := task.NewTask(task_metadata.HookRun).WithMetadata(meta).WithQueueName(fmt.Sprintf("q%d", x.queue))
	t.WithQueuedAt(time.Now())
	go func() {
		defer close(x.done)
		x.status = Catch(func() string { return string(e.op.VerifC12TaskHandler(t).Status) })
	}()
}

// await waits for a marker file of x (or for the end of x's task); false: not within the deadline.
func (x *c13Exec) await(marker string, deadline time.Time) bool {
	p := filepath.Join(x.dir, marker)
	for {
		if _, err := os.Stat(p); err == nil {
			return true
		}
		select {
		case <-x.done:
			return true // the task is over (the hook could not even be started): nothing to wait for
		case <-time.After(5 * time.Millisecond):
		}
		if time.Now().After(deadline) {
			return false
		}
	}
}

func (x *c13Exec) release(gate string) { _ = os.WriteFile(filepath.Join(x.dir, gate), nil, 0o644) }

func c13SplitByParity(joined string, sep string, idOf func(string) (int, bool), parity int) string {
	if joined == "-" {
		return "-"
	}
	var out []string
	for _, ent := range strings.Split(joined, sep) {
		if id, ok := idOf(ent); !ok || id%2 == parity {
			out = append(out, ent) // an entry that cannot be attributed is shown to every execution
		}
	}
	if len(out) == 0 {
		return "-"
	}
	return strings.Join(out, sep)
}

func c13LogEntryID(ent string) (int, bool) { // verb.<id>.<sub>
	ps := strings.Split(ent, ".")
	if len(ps) != 3 {
		return 0, false
	}
	id, err := strconv.Atoi(ps[1])
	return id, err == nil
}

func c13ClusterEntryID(ent string) (int, bool) { // <id>:<obj>
	i := strings.IndexByte(ent, ':')
	if i < 0 {
		return 0, false
	}
	id, err := strconv.Atoi(ent[:i])
	return id, err == nil
}

func c13RestrictInit(init map[int]c13Obj, parity int) map[int]c13Obj {
	out := map[int]c13Obj{}
	for id, o := range init {
		if id%2 == parity {
			out[id] = o
		}
	}
	return out
}

// c13RunOperatorCase: the executions xs (1 or 2) with the events of sched ("LA WA LB WB EB EA": launch /
// let the process write its file / let it exit and wait for the task), then one block of lines per
// execution: its own objects (ids of its parity) before, its stream, what was observed of them.
func c13RunOperatorCase(r *Run, c *Case, init map[int]c13Obj, xs []*c13Exec, sched []string) {
	e, err := c13OpSetup(r, c, init)
	if err != nil {
		c.Op("harness-setup", "harness-error "+err.Error())
		return
	}
	defer e.cancel()
	byName := map[string]*c13Exec{}
	for _, x := range xs {
		byName[x.name] = x
		if err := e.prepare(x); err != nil {
			c.Op("harness-setup", "harness-error "+err.Error())
			return
		}
	}
	deadline := time.Now().Add(20 * time.Second)
	late := ""
	for _, ev := range sched {
		x := byName[ev[1:]]
		ok := true
		switch ev[0] {
		case 'L':
			e.launch(x)
			ok = x.await("started", deadline)
		case 'W':
			x.release("go-write")
			ok = x.await("written", deadline)
		case 'E':
			x.release("go-exit")
			select {
			case <-x.done:
			case <-time.After(time.Until(deadline)):
				ok = false
			}
		}
		if !ok {
			late = ev
			break
		}
	}
	if late == "" {
		for _, x := range xs {
			if _, err := os.Stat(filepath.Join(x.dir, "timeout")); err == nil {
				late = "hook " + x.name + " gave up waiting"
			}
		}
	}
	if late != "" {
		// the machine was too slow for this interleaving: let everything go and wait for the tasks
		for _, x := range xs {
			x.release("go-write")
			x.release("go-exit")
		}
		for _, x := range xs {
			if x.done != nil {
				select {
				case <-x.done:
				case <-time.After(20 * time.Second):
				}
			}
		}
		c.Inconcl = "operator-level case: event " + late + " did not complete within the deadline"
		return
	}
	lg, contents := e.cl.actionLog(), e.cl.contents()
	c.Op("note schedule: "+strings.Join(sched, " "), "ok")
	for _, x := range xs {
		own := c13RestrictInit(init, x.parity)
		c.Op("reset", "ok")
		c.Op("init "+c13InitTok(own), "cluster="+c13InitTok(own))
		c.Op("garbled "+c13B01(x.garbled), "ok")
		c.Op("writers -", "ok")
		for _, d := range x.docs {
			xt := ""
			if d.extra {
				xt = " x"
			}
			c.Op(fmt.Sprintf("doc %s %s %s%s", c13B01(d.valid), c13B01(d.inline), d.desc, xt), "ok")
		}
		c.Op(fmt.Sprintf("note execution %s: hook %s, queue q%d, exit %d, %s patch file (%d bytes, longest line %d, layout %s): %s", x.name, e.hookNames[x.hook], x.queue, x.exit, x.form, len(x.data), c13LongestLine(x.data), x.layout, c13Show(x.data)), "ok")
		xl := c13SplitByParity(lg, ";", c13LogEntryID, x.parity)
		xc := c13SplitByParity(contents, ";", c13ClusterEntryID, x.parity)
		c.Op(fmt.Sprintf("hookrun %s %s", x.form, c13B01(x.exit == 0)), fmt.Sprintf("status=%s log=%s cluster=%s", x.status, xl, xc))
		c.Oracle(fmt.Sprintf("hookrun form=%s hookok=%s fail=%s log=%s cluster=%s", x.form, c13B01(x.exit == 0), c13B01(x.status != "Success"), xl, xc))
	}
}

// c13Interleave merges the event sequences of the executions in a random order.
func c13Interleave(rng *Rng, xs []*c13Exec) []string {
	var seqs [][]string
	for _, x := range xs {
		seqs = append(seqs, []string{"L" + x.name, "W" + x.name, "E" + x.name})
	}
	var out []string
	for {
		var live []int
		for i, s := range seqs {
			if len(s) > 0 {
				live = append(live, i)
			}
		}
		if len(live) == 0 {
			return out
		}
		i := PickOne(rng, live)
		out = append(out, seqs[i][0])
		seqs[i] = seqs[i][1:]
	}
}

func c13KeysOfParity(parity int) []*c13Key {
	var ks []*c13Key
	for _, k := range c13Pool {
		if k.id%2 == parity {
			ks = append(ks, k)
		}
	}
	return ks
}

func (x *c13Exec) render(rng *Rng) {
	if x.form == "json" {
		x.data = c13RenderJSON(x.docs, x.garbled, rng)
	} else {
		x.data = c13RenderYAML(x.docs, x.garbled, rng.Intn(60))
	}
	x.layout = "as-rendered"
	if x.relay {
		x.data, x.layout = c13Layout(x.data, x.form, rng)
	}
	if x.padAt > 0 && x.form == "yaml" {
		starts := c13DocStarts(x.data, x.form)
		at := starts[len(starts)-1] - 4 // in front of the "---\n" of the last document
		pad := "# " + strings.Repeat("-", x.padAt-2) + "\n"
		x.data = []byte(string(x.data[:at]) + pad + string(x.data[at:]))
		x.layout = fmt.Sprintf("comment-line-in-front-of-the-separator:%d-bytes:at-document-%d/%d", x.padAt, len(starts), len(starts))
	}
}

func c13OperatorRandom(r *Run) func(c *Case, rng *Rng) {
	return func(c *Case, rng *Rng) {
		rng = c13Reseed(rng)
		nx := 2
		if rng.Chance(25) {
			nx = 1
		}
		sameHook := rng.Chance(70)
		// 30%: the executions (the operator's single ObjectPatcher serves them all) address a kind served
		// at two versions, each its own objects at both versions
		twoVersions := rng.Chance(30)
		var xs []*c13Exec
		var hot []*c13Key
		for i := 0; i < nx; i++ {
			x := &c13Exec{name: string(rune('A' + i)), queue: i + 1, parity: (i + 1) % 2, form: PickOne(rng, []string{"json", "yaml"})}
			if !sameHook {
				x.hook = i
			}
			if rng.Chance(40) {
				x.exit = PickOne(rng, []int{1, 1, 2, 42})
			}
			g := &c13Gen{rng: rng, c: c}
			pool := c13KeysOfParity(x.parity)
			if twoVersions {
				var grps [][]*c13Key
				for _, grp := range c13Versioned() {
					if grp[0].id%2 == x.parity {
						grps = append(grps, grp)
					}
				}
				g.only = append(g.only, PickOne(rng, grps)...)
				if rng.Chance(30) {
					g.only = append(g.only, PickOne(rng, pool[:4]))
				}
			} else {
				for n := rng.Range(1, 3); n > 0; n-- {
					if rng.Chance(90) {
						g.only = append(g.only, PickOne(rng, pool[:4]))
					} else {
						g.only = append(g.only, PickOne(rng, pool[4:]))
					}
				}
			}
			hot = append(hot, g.only...)
			if x.exit != 0 {
				g.statusBias = 60
			}
			x.docs, x.garbled, x.mode = g.stream(c)
			if rng.Chance(6) {
				x.noFile, x.docs, x.garbled, x.mode = true, nil, false, "nothing-written"
			}
			// 25%: one long physical line (4 KiB ... 1 MiB) between / next to two documents of the file; long
			// lines INSIDE a document come with the long values of the table c13Exotics
			x.relay = !x.noFile && rng.Chance(25)
			x.render(rng)
			xs = append(xs, x)
			c.Note("op-level:stream:" + x.mode)
			c.Note("op-level:longest-physical-line:" + c13LineClass(c13LongestLine(x.data)))
			c.Note(fmt.Sprintf("op-level:hook-exit-zero:%v", x.exit == 0))
			for _, d := range x.docs {
				if d.valid && d.m["subresource"] == "/status" && d.m["ignoreHookError"] == true {
					c.Note("op-level:on-hook-error-patch-documents")
				}
			}
		}
		init, _ := c13Init(rng, hot)
		for _, k := range hot { // objects to patch: mostly present
			if _, ok := init[k.id]; !ok && k.kind.known && rng.Chance(50) {
				init[k.id] = c13Obj{1: rng.Range(1, 9)}
			}
		}
		sched := c13Interleave(rng, xs)
		overlap := false
		if nx == 2 {
			s := strings.Join(sched, " ")
			overlap = s != "LA WA EA LB WB EB" && s != "LB WB EB LA WA EA"
		}
		c.Note(fmt.Sprintf("op-level:executions:%d same-hook:%v overlap:%v", nx, nx == 2 && sameHook, overlap))
		c.Note(fmt.Sprintf("op-level:one-kind-at-two-versions:%v", twoVersions))
		c.Desc = fmt.Sprintf("operator-level: %d execution(s), same hook=%v, schedule %s", nx, sameHook, strings.Join(sched, " "))
		for _, x := range xs {
			c.Desc += fmt.Sprintf("; %s: %d docs %s %s exit=%d", x.name, len(x.docs), x.mode, x.form, x.exit)
		}
		c.Nontrivial = true
		c13RunOperatorCase(r, c, init, xs, sched)
	}
}

// c13OperatorCorpus: hand-written operator-level cases.
func c13OperatorCorpus(r *Run, base int) {
	cmA, cmB := c13Pool[0], c13Pool[1] // ConfigMap default/a (id 1), default/b (id 2)
	statusPatch := func(k *c13Key, f, n int) c13Doc {
		return c13Doc{valid: true, inline: true, family: "patch:m", key: k.id,
			m: map[string]any{"operation": "MergePatch", "kind": "ConfigMap", "namespace": k.ns, "name": k.name, "subresource": "/status",
				"ignoreHookError": true, "mergePatch": map[string]any{"data": map[string]any{k.kind.fields[f-1]: k.kind.val(n)}}},
			desc: fmt.Sprintf("P/m/%d/1/2/01/set.%d.%s", k.id, f, k.kind.tok(n))}
	}
	create := func(k *c13Key, o c13Obj) c13Doc {
		return c13Doc{valid: true, inline: true, family: "create:CreateOrUpdate", key: k.id, locks: true,
			m:    map[string]any{"operation": "CreateOrUpdate", "object": c13Manifest(k, k.kind.apiVersion, o)},
			desc: fmt.Sprintf("C/01/%d/1/%s", k.id, c13ObjTok(k.kind, o))}
	}
	type oc struct {
		desc  string
		init  map[int]c13Obj
		xs    func(rng *Rng) []*c13Exec
		sched string
	}
	cases := []oc{
		{"a FAILED hook whose file is [valid /status patch with ignoreHookError, invalid document]: nothing may be applied",
			map[int]c13Obj{cmA.id: {1: 1}},
			func(rng *Rng) []*c13Exec {
				p := statusPatch(cmA, 2, 7)
				return []*c13Exec{{name: "A", queue: 1, parity: 1, form: "yaml", exit: 1, mode: "invalid-after-valid",
					docs: []c13Doc{p, c13ApplyFault(create(cmA, c13Obj{1: 3}), "unknownOperation", rng)}}}
			}, "LA WA EA"},
		{"a FAILED hook whose file is valid: the execution fails; nothing, or only the on-hook-error patches, applied",
			map[int]c13Obj{cmA.id: {1: 1}},
			func(rng *Rng) []*c13Exec {
				return []*c13Exec{{name: "A", queue: 1, parity: 1, form: "json", exit: 2, mode: "valid",
					docs: []c13Doc{statusPatch(cmA, 2, 7), create(cmA, c13Obj{1: 3})}}}
			}, "LA WA EA"},
		{"the same hook runs in two queues; the second run starts, writes and ends while the first one waits to exit",
			map[int]c13Obj{},
			func(rng *Rng) []*c13Exec {
				return []*c13Exec{
					{name: "A", queue: 1, parity: 1, form: "json", mode: "valid", docs: []c13Doc{create(cmA, c13Obj{1: 1}), create(c13Pool[2], c13Obj{2: 2})}},
					{name: "B", queue: 2, parity: 0, form: "yaml", mode: "valid", docs: []c13Doc{create(cmB, c13Obj{3: 3})}}}
			}, "LA WA LB WB EB EA"},
		{"the same hook runs in two queues; both processes are started before either writes, the first one ends first",
			map[int]c13Obj{},
			func(rng *Rng) []*c13Exec {
				return []*c13Exec{
					{name: "A", queue: 1, parity: 1, form: "yaml", mode: "valid", docs: []c13Doc{create(cmA, c13Obj{1: 1})}},
					{name: "B", queue: 2, parity: 0, form: "json", mode: "valid", docs: []c13Doc{create(cmB, c13Obj{3: 3}), create(c13Pool[3], c13Obj{1: 4})}}}
			}, "LA LB WA WB EA EB"},
		// the physical layout of the file (case numbers 20, 21): one line of the file is longer than 64 KiB
		{"`jq -c` output: three creates, one JSON document per line, the second one carries a 64 KiB value: all three applied, in order",
			map[int]c13Obj{},
			func(rng *Rng) []*c13Exec {
				return []*c13Exec{{name: "A", queue: 1, parity: 1, form: "json", mode: "valid",
					docs: []c13Doc{create(cmA, c13Obj{1: 1}), create(c13Pool[2], c13Obj{2: c13LongValue}), create(c13Pool[4], c13Obj{1: 3})}}}
			}, "LA WA EA"},
		{"a valid create, a comment line of 70000 bytes, an invalid document: nothing may be applied and the execution fails",
			map[int]c13Obj{},
			func(rng *Rng) []*c13Exec {
				x := &c13Exec{name: "A", queue: 1, parity: 1, form: "yaml", mode: "invalid-after-valid",
					docs: []c13Doc{create(cmA, c13Obj{1: 1}), c13ApplyFault(create(c13Pool[2], c13Obj{1: 3}), "unknownOperation", rng)}}
				x.padAt = 70000
				return []*c13Exec{x}
			}, "LA WA EA"},
	}
	for i, oc := range cases {
		oc := oc
		idx := base + i
		if i >= 4 {
			idx = 20 + i - 4 // 17-19 are taken by other corpus cases
		}
		r.One(idx, func(c *Case, rng *Rng) {
			xs := oc.xs(rng)
			for _, x := range xs {
				x.render(rng)
			}
			c.Desc = "corpus (operator-level): " + oc.desc
			c.Nontrivial = true
			c.Note("corpus")
			c13RunOperatorCase(r, c, oc.init, xs, strings.Fields(oc.sched))
		})
	}
}
