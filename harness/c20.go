package main

// C20 — hook discovery. Random directory trees are materialised under r.Scratch; the real
// RecursiveGetExecutablePaths and the real hook.Manager.Init run on them. Every file is a bash script
// that appends "<relative name> <args>" to a per-case log and then prints a valid / invalid config or
// exits non-zero, as scripted.

import (
	"fmt"
	"os"
	"path/filepath"
	"sort"
	"strings"
	"syscall"

	"github.com/deckhouse/deckhouse/pkg/log"

	"github.com/flant/shell-operator/pkg/app"
	"github.com/flant/shell-operator/pkg/hook"
	utils_file "github.com/flant/shell-operator/pkg/utils/file"
	"github.com/flant/shell-operator/pkg/webhook/admission"
	"github.com/flant/shell-operator/pkg/webhook/conversion"
)

func init() { suites["c20"] = runC20 }

type c20Node struct {
	name     string
	dir      bool
	children []*c20Node
	mode     os.FileMode
	kind     string // ok | fail | invalid
	variant  int
	// class != "": a generated configuration (c20_cfg.go, c20GenSchedules); the hook prints text,
	// kind (ok | invalid) is its fixed verdict
	class, text string
	// link: the entry is a symbolic link (what filepath.Walk's Lstat shows: not a directory, permission
	// bits 0777). linkTo == "": the link points to a generated script outside the hooks directory
	// (mode tmode, always with an execute bit); linkTo != "": the verbatim link text (corpus only).
	link   bool
	tmode  os.FileMode
	linkTo string
	logAs  string // the script logs this name instead of its own relative path (a file reached through a link)
}

// c20LinkMode: the permission bits Lstat reports for a symbolic link (lrwxrwxrwx)
const c20LinkMode os.FileMode = 0o777

// c20FailKinds: how a --config run that does not complete successfully ends (<end>:<what it printed>):
// exit statuses, death by a signal, each with nothing or with a complete valid configuration on stdout
var c20FailKinds = []struct {
	tok    string
	valid  bool // prints a valid configuration first
	ending string
	raw    string // != "": the whole content of the file (a run that cannot be started; such a file cannot log its invocation)
}{
	{"exit3:none", false, "exit 3", ""},
	{"exit1:valid", true, "exit 1", ""},
	{"sig9:none", false, "echo boom >&2\nkill -9 $$", ""},
	{"sig9:valid", true, "kill -9 $$", ""},
	{"sig15:valid", true, "kill -TERM $$", ""},
	{"exit255:valid", true, "exit 255", ""},
	{"sig11:valid", true, "ulimit -c 0\nkill -SEGV $$", ""},
	{"sig6:valid", true, "ulimit -c 0\nkill -ABRT $$", ""},
	{"exit126:none", false, "exit 126", ""},
	{"sig1:valid", true, "kill -HUP $$", ""},
	{"nostart-no-interpreter:none", false, "", "#!/nonexistent/interpreter\necho '{\"configVersion\":\"v1\",\"onStartup\":1}'\n"},
	{"nostart-exec-format:none", false, "", "this file has an execute bit but is neither a script with an interpreter line nor a binary\n"},
}

var c20FileNames = []string{"a", "b", "c", "hook", "hook.sh", "a.sh", "a-b", "a0", "a.yaml", "b.json", "r.md", "n.txt",
	".hidden", ".a.sh", "lib", "lib.sh", "x.yaml.sh", "y.YAML", "z.", "yaml", "txt", "json.x", "00-first", "Z", "_u",
	"a.b.txt", ".yaml", "md", "a.yml", "q.yaml.json", "hook.py", "A.sh", "tmp", "hooks"}
var c20DirNames = []string{"a", "b", "lib", ".git", ".hid", "sub", "lib2", "xlib", "d.yaml", "a.sh", "001", "conf.d", "Lib",
	"lib.d", "hook", "n.txt", ".lib", "A", "tmp", "shell-operator", "hooks", "t"}
var c20RootNames = []string{"hooks", "hooks", "hooks", "hooks", "lib", ".hooks", ".git", "hooks.d", "lib2", "a.yaml", "h"}
var c20Modes = []os.FileMode{0o755, 0o755, 0o755, 0o644, 0o700, 0o600, 0o010, 0o001, 0o100, 0o111, 0o666, 0o011, 0o444, 0o000, 0o750, 0o655}

func c20GenDir(rng *Rng, depth int, isRoot bool) []*c20Node {
	n := rng.Range(0, 5)
	if isRoot {
		n = rng.Range(1, 7)
	}
	used := map[string]bool{}
	var out []*c20Node
	for i := 0; i < n; i++ {
		isDir := depth < 4 && rng.Chance(38)
		var name string
		if isDir {
			name = PickOne(rng, c20DirNames)
		} else {
			name = PickOne(rng, c20FileNames)
		}
		if used[name] {
			continue
		}
		used[name] = true
		if isDir {
			out = append(out, &c20Node{name: name, dir: true, children: c20GenDir(rng, depth+1, false)})
			continue
		}
		nd := &c20Node{name: name, variant: rng.Intn(1000)}
		if rng.Chance(85) {
			nd.mode = PickOne(rng, c20Modes)
		} else {
			nd.mode = os.FileMode(rng.Intn(512))
		}
		switch k := rng.Intn(100); {
		case k < 78:
			nd.kind = "ok"
		case k < 89:
			nd.kind = "fail"
		default:
			nd.kind = "invalid"
		}
		if nd.kind != "fail" && rng.Chance(12) {
			nd.kind, nd.class, nd.text = c20GenSchedules(rng, nd.kind == "invalid")
		}
		c20MaybeLink(rng, nd)
		out = append(out, nd)
	}
	sort.Slice(out, func(i, j int) bool { return out[i].name < out[j].name }) // the order filepath.Walk visits
	return out
}

// c20MaybeLink turns 9 % of the generated files into symbolic links to an executable script that lives
// outside the hooks directory (how a hooks directory looks when it is a mounted ConfigMap / Secret
// volume or a set of links into a shared checkout). The target always carries an execute bit, so
// "carries an execute bit" holds for the link (Lstat: 0777) and for the file it leads to.
func c20MaybeLink(rng *Rng, nd *c20Node) {
	if !rng.Chance(9) {
		return
	}
	nd.link = true
	nd.mode = c20LinkMode
	nd.tmode = PickOne(rng, []os.FileMode{0o755, 0o755, 0o700, 0o555, 0o750, 0o511})
}

type c20Env struct {
	okOut, badOut []c20Out // the catalogue of c20_cfg.go: verdicts fixed on the unchanged tree, not asked of the code under test
	euid          int
}

// out is what the file prints on --config (kinds ok and invalid)
func (e *c20Env) out(nd *c20Node) c20Out {
	switch {
	case nd.class != "":
		return c20Out{nd.class, nd.text}
	case nd.kind == "ok":
		return e.okOut[nd.variant%len(e.okOut)]
	}
	return e.badOut[nd.variant%len(e.badOut)]
}

func (e *c20Env) script(rel, logPath string, nd *c20Node) string {
	if nd.kind == "fail" {
		if fk := c20FailKinds[nd.variant%len(c20FailKinds)]; fk.raw != "" {
			return fk.raw
		}
	}
	b := &strings.Builder{}
	if nd.logAs != "" {
		rel = nd.logAs
	}
	fmt.Fprintf(b, "#!/bin/bash\necho %q \"$*\" >> %q\n", rel, logPath)
	switch nd.kind {
	case "ok":
		fmt.Fprintf(b, "cat <<'EOF_CFG'\n%s\nEOF_CFG\n", e.out(nd).text)
	case "invalid":
		o := e.out(nd).text
		if o != "" {
			fmt.Fprintf(b, "cat <<'EOF_CFG'\n%s\nEOF_CFG\n", o)
		}
	case "fail":
		fk := c20FailKinds[nd.variant%len(c20FailKinds)]
		if fk.valid { // a complete valid configuration on stdout, but the run does not end with status 0
			fmt.Fprintf(b, "cat <<'EOF_CFG'\n%s\nEOF_CFG\n", e.okOut[0].text)
		}
		b.WriteString(fk.ending + "\nexit 97\n") // not reached
	}
	return b.String()
}

// writeFile writes one generated hook file (script, then mode).
func (e *c20Env) writeFile(p, rel, logPath string, nd *c20Node) error {
	if nd.link {
		_ = os.Remove(p)
		if nd.linkTo != "" {
			return os.Symlink(nd.linkTo, p)
		}
		tdir := filepath.Join(filepath.Dir(logPath), "link-targets")
		if err := os.MkdirAll(tdir, 0o755); err != nil {
			return err
		}
		target := filepath.Join(tdir, strings.ReplaceAll(rel, "/", "%"))
		_ = os.Chmod(target, 0o600)
		reg := *nd
		reg.link, reg.mode = false, nd.tmode
		if err := e.writeFile(target, rel, logPath, &reg); err != nil {
			return err
		}
		if nd.variant%2 == 1 { // a relative link text
			if r, err := filepath.Rel(filepath.Dir(p), target); err == nil {
				target = r
			}
		}
		return os.Symlink(target, p)
	}
	// no fork of a concurrent case may happen while the script is open for writing: the child
	// would inherit the descriptor until its exec and running the script would fail with ETXTBSY
	syscall.ForkLock.RLock()
	err := os.WriteFile(p, []byte(e.script(rel, logPath, nd)), 0o600)
	syscall.ForkLock.RUnlock()
	if err != nil {
		return err
	}
	return os.Chmod(p, nd.mode)
}

// materialise writes the tree below dir
func (e *c20Env) materialise(dir, rel, logPath string, nodes []*c20Node) error {
	for _, nd := range nodes {
		p := filepath.Join(dir, nd.name)
		r := nd.name
		if rel != "" {
			r = rel + "/" + nd.name
		}
		if nd.dir {
			if err := os.Mkdir(p, 0o755); err != nil {
				return err
			}
			if err := e.materialise(p, r, logPath, nd.children); err != nil {
				return err
			}
			continue
		}
		if err := e.writeFile(p, r, logPath, nd); err != nil {
			return err
		}
	}
	return nil
}

// kindTok is the outcome token of a file in the tree line: ok | invalid followed by what exactly the
// hook prints, or fail:<how the run ends: exitN | sigN>:<what it printed before: none | valid> (the Lean
// driver computes the outcome of a `fail` token through its model of execCommandOutput / loadHook).
func (e *c20Env) kindTok(nd *c20Node) string {
	switch nd.kind {
	case "ok", "invalid":
		return nd.kind + ":" + e.out(nd).class
	case "fail":
		return "fail:" + c20FailKinds[nd.variant%len(c20FailKinds)].tok
	}
	return nd.kind
}

// describe returns the protocol tokens of the tree and the relative names of all its files
func (e *c20Env) describe(rel string, nodes []*c20Node, toks *[]string, files *[]string) {
	for _, nd := range nodes {
		r := nd.name
		if rel != "" {
			r = rel + "/" + nd.name
		}
		if nd.dir {
			*toks = append(*toks, "d", nd.name)
			e.describe(r, nd.children, toks, files)
			*toks = append(*toks, "u")
			continue
		}
		if nd.link {
			*toks = append(*toks, "l", nd.name, e.kindTok(nd))
		} else {
			*toks = append(*toks, "f", nd.name, fmt.Sprintf("%o", uint32(nd.mode)), e.kindTok(nd))
		}
		*files = append(*files, r)
	}
}

func c20NameChar(b byte) bool {
	return b == '.' || b == '_' || b == '/' || b == '-' || (b >= '0' && b <= '9') || (b >= 'a' && b <= 'z') || (b >= 'A' && b <= 'Z')
}

// named reports whether text mentions name as a whole path token
func c20Named(text, name string) bool {
	for from := 0; ; {
		i := strings.Index(text[from:], name)
		if i < 0 {
			return false
		}
		i += from
		j := i + len(name)
		if (i == 0 || !c20NameChar(text[i-1])) && (j == len(text) || !c20NameChar(text[j])) {
			return true
		}
		from = i + 1
	}
}

func c20Rels(workingDir string, paths []string) []string {
	var out []string
	for _, p := range paths {
		out = append(out, strings.TrimPrefix(p, workingDir+"/"))
	}
	return out
}

// c20Start is one later start of the operator in the same process: how the hooks directory changed
// since the previous start (see c20_multi.go)
type c20Start struct {
	rebuild bool // remove the hooks directory and build another tree at the same path
	edits   int  // otherwise: number of edits
	mtimes  int  // 0: leave modification times alone, 1: restore the hooks directory's own mtime, 2: of every directory
}

func (e *c20Env) runCase(r *Run, c *Case, rootName string, nodes []*c20Node, withInit bool) {
	e.runStarts(r, c, nil, rootName, nodes, withInit, nil)
}

// runStarts materialises the tree, performs a start (walk + Manager.Init), then for every entry of
// `later` changes the tree on disk and performs another start in the same process (new hook manager on
// the same path). The property speaks about every start: each one gets its own tree line and oracles.
func (e *c20Env) runStarts(r *Run, c *Case, rng *Rng, rootName string, nodes []*c20Node, withInit bool, later []c20Start) {
	base := filepath.Join(r.Scratch, fmt.Sprintf("c%d", c.Idx))
	workingDir := filepath.Join(base, rootName)
	logPath := filepath.Join(base, "invocations.log")
	tmpName := c20TmpName(c, rootName, nodes)
	if err := os.MkdirAll(workingDir, 0o755); err != nil {
		c.Inconcl = "mkdir: " + err.Error()
		return
	}
	_ = os.MkdirAll(c20TmpDir(base, tmpName), 0o755)
	defer os.RemoveAll(base)
	if err := e.materialise(workingDir, "", logPath, nodes); err != nil {
		c.Inconcl = "materialise: " + err.Error()
		return
	}
	if !e.start(r, c, base, rootName, tmpName, nodes, withInit) {
		return
	}
	for i, st := range later {
		var err error
		var what string
		nodes, what, err = e.change(rng, workingDir, logPath, nodes, st)
		if err != nil {
			c.Inconcl = "change: " + err.Error()
			return
		}
		_ = i
		for _, w := range strings.Split(what, "+") {
			c.Note("later-start-after:" + w)
		}
		if !e.start(r, c, base, rootName, tmpName, nodes, withInit) {
			return
		}
	}
}

// c20TmpDir: the manager's TempDir. It lies outside the hooks directory; only its last path element is
// chosen per case (c20TmpName).
// c20TmpFixed: TempDir names of corpus cases (filled before any case runs, read-only afterwards)
var c20TmpFixed = map[int]string{}

func c20TmpDir(base, tmpName string) string { return filepath.Join(base, "t", tmpName) }

// c20TmpName chooses the last path element of the manager's TempDir. The other settings of the manager
// are strings too, and which files are hooks must not depend on them: the name is taken from the names
// that occur in the tree (a visible, non-lib sub-directory at any depth, or a file), from the operator's
// defaults (`shell-operator`, `tmp`) — both are in the directory-name pool of the generator — or is
// the name of the hooks directory itself.
func c20TmpName(c *Case, rootName string, nodes []*c20Node) string {
	var dirs, files []string
	c20Count(nodes, func(n *c20Node, _ int) {
		switch {
		case n.dir && n.name != "lib" && !strings.HasPrefix(n.name, "."):
			dirs = append(dirs, n.name)
		case !n.dir:
			files = append(files, n.name)
		}
	}, 1)
	if n, ok := c20TmpFixed[c.Idx]; ok {
		return n
	}
	k := c.Idx / 5 // c.Idx % 5 is the spelling of the hooks directory
	name := "tmp"
	switch k % 6 {
	case 0:
		name = "shell-operator"
	case 1, 2, 3:
		if len(dirs) > 0 {
			name = dirs[(k/6)%len(dirs)]
			c.Note("tmpdir-named-like:a-sub-directory")
		}
	case 4:
		if len(files) > 0 {
			name = files[(k/6)%len(files)]
			c.Note("tmpdir-named-like:a-file")
		}
	case 5:
		name = rootName
		c.Note("tmpdir-named-like:the-hooks-directory")
	}
	return name
}

// start = what the operator does when it starts: RequireExistingDirectory, the walk, Manager.Init.
func (e *c20Env) start(r *Run, c *Case, base, rootName, tmpName string, nodes []*c20Node, withInit bool) bool {
	workingDir := filepath.Join(base, rootName)
	logPath := filepath.Join(base, "invocations.log")
	tmpDir := c20TmpDir(base, tmpName)
	_ = os.Remove(logPath)
	var toks, files []string
	e.describe("", nodes, &toks, &files)
	// the settings of this start other than the tree (part of the failing input of a replay)
	c.Op("env hooksdir="+rootName+" tmpdir=<scratch>/t/"+tmpName, "ok")
	line := "tree " + rootName
	if len(toks) > 0 {
		line += " " + strings.Join(toks, " ")
	}
	line += " u"

	// The hooks directory as the operator gets it: any spelling of the path (trailing slash, "/./",
	// "x/../", relative to the current directory) goes through RequireExistingDirectory first
	// (bootstrap.go), and its answer is what the walk and the hook manager are given.
	canon := workingDir
	spelled := workingDir
	switch c.Idx % 5 {
	case 1:
		spelled = workingDir + "/"
	case 2:
		spelled = filepath.Dir(workingDir) + "/./" + rootName
	case 3:
		spelled = workingDir + "/../" + rootName
	case 4:
		if cwd, err := os.Getwd(); err == nil {
			if rel, err := filepath.Rel(cwd, workingDir); err == nil {
				spelled = rel
			}
		}
	}
	c.Note(fmt.Sprintf("hooksdir-spelling:%d", c.Idx%5))
	if wd, err := utils_file.RequireExistingDirectory(spelled); err != nil {
		c.Op(line, "walk=err-require-dir")
		return false
	} else {
		workingDir = wd
	}

	// 1. the walk
	paths, err := utils_file.RecursiveGetExecutablePaths(workingDir)
	if err != nil {
		c.Op(line, "walk=err")
		return false
	}
	rels := c20Rels(canon, paths)
	c.Op(line, "walk="+joinStrs(rels))
	c.Oracle("discover got=" + joinStrs(rels))
	if !withInit {
		return true
	}

	// 2. Manager.Init
	conversionManager := conversion.NewWebhookManager()
	conversionManager.Settings = app.ConversionWebhookSettings
	admissionManager := admission.NewWebhookManager(nil)
	admissionManager.Settings = app.ValidatingWebhookSettings
	hm := hook.NewHookManager(&hook.ManagerConfig{WorkingDir: workingDir, TempDir: tmpDir,
		Wmgr: admissionManager, Cmgr: conversionManager, Logger: log.NewNop()})
	ierr := hm.Init()
	names := append([]string{}, hm.GetHookNames()...)
	var asked []string
	if b, err := os.ReadFile(logPath); err == nil {
		for _, l := range strings.Split(strings.TrimSpace(string(b)), "\n") {
			if l == "" {
				continue
			}
			f := strings.SplitN(l, " ", 2)
			if len(f) == 2 && f[1] == "--config" {
				asked = append(asked, f[0])
			} else {
				asked = append(asked, strings.ReplaceAll(l, " ", "!"))
			}
		}
	}
	failed := "0"
	var errNames []string
	if ierr != nil && os.Getenv("C20_DEBUG") != "" {
		fmt.Fprintf(os.Stderr, "case %d: Init error: %v\n", c.Idx, ierr)
	}
	if ierr != nil {
		failed = "1"
		text := strings.ReplaceAll(strings.ReplaceAll(ierr.Error(), workingDir+"/", ""), canon+"/", "")
		// what the hook printed is quoted in the error: it is not where the error "names the hook"
		if i := strings.Index(text, "\nhook --config output:"); i >= 0 {
			text = text[:i]
		}
		// the hook the error names: a file name of the tree that appears quoted; if the wording has no
		// quoted file name, any file name that appears as a whole path token
		for _, f := range files {
			if strings.Contains(text, "'"+f+"'") || strings.Contains(text, "\""+f+"\"") {
				errNames = append(errNames, f)
			}
		}
		if len(errNames) == 0 {
			for _, f := range files {
				if c20Named(text, f) {
					errNames = append(errNames, f)
				}
			}
		}
		sort.Strings(errNames)
	}
	obs := fmt.Sprintf("names=%s asked=%s err=%s", joinStrs(names), joinStrs(asked), joinStrs(errNames))
	c.Op("init", obs)
	c.Oracle("load failed=" + failed + " " + obs)
	return true
}

func c20Count(nodes []*c20Node, f func(*c20Node, int), depth int) {
	for _, n := range nodes {
		f(n, depth)
		if n.dir {
			c20Count(n.children, f, depth+1)
		}
	}
}

func (e *c20Env) classify(c *Case, rootName string, nodes []*c20Node) {
	filesN, execN, inLib, inHidden, maxDepth, bad := 0, 0, 0, 0, 0, 0
	var rec func(ns []*c20Node, depth int, lib, hid bool)
	rec = func(ns []*c20Node, depth int, lib, hid bool) {
		for _, n := range ns {
			if depth > maxDepth {
				maxDepth = depth
			}
			if n.dir {
				rec(n.children, depth+1, lib || n.name == "lib", hid || strings.HasPrefix(n.name, "."))
				continue
			}
			filesN++
			if n.mode&0o111 != 0 {
				execN++
			}
			if lib {
				inLib++
			}
			if hid {
				inHidden++
			}
			if n.kind != "ok" {
				bad++
			}
			if n.link {
				c.Note("has-symlink-to-executable")
			}
			if n.kind == "fail" && n.mode&0o111 != 0 {
				c.Note("config-run-fails:" + c20FailKinds[n.variant%len(c20FailKinds)].tok)
			}
			if n.kind == "invalid" && n.mode&0o111 != 0 {
				c.Note("invalid-cfg:" + c20CfgFamily(e.out(n).class))
			}
		}
	}
	rec(nodes, 1, false, false)
	c.Note(fmt.Sprintf("depth:%d", maxDepth))
	c.Note("root:" + rootName)
	if inLib > 0 {
		c.Note("files-below-lib")
	}
	if inHidden > 0 {
		c.Note("files-below-hidden-dir")
	}
	if bad > 0 {
		c.Note("has-bad-config-file")
	}
	switch {
	case filesN == 0:
		c.Note("files:0")
	case filesN <= 3:
		c.Note("files:1-3")
	case filesN <= 8:
		c.Note("files:4-8")
	default:
		c.Note("files:9+")
	}
	c.Nontrivial = filesN >= 2 && execN >= 1 && execN < filesN || rootName != "hooks" && execN >= 1
}

func runC20(r *Run) {
	r.Rule = "random directory trees materialised on disk (hooks-directory names incl. lib/.hooks/.git, depth <= 4, 0-7 entries per directory from pools of 32 file names and 18 directory names so that names collide across directories; modes from a biased pool plus uniformly random 9-bit modes incl. group/other-only execute bits; excluded extensions, hidden files, lib/hidden directories at any depth, byte-order traps such as a.sh vs a/b); 9 % of the files are symbolic links to an executable script outside the hooks directory (absolute or relative link text; Lstat shows a non-directory with mode 0777), corpus: the ConfigMap-volume layout hook.sh -> ..data/hook.sh, ..data -> ..<timestamp>/; every file is a bash script that logs its invocation and prints a valid config, an invalid one or whose run does not complete successfully in one of 12 ways (exit 3 / 126 without output, exit 1 / 255 after a complete valid configuration, killed by SIGKILL without output, killed by SIGKILL / SIGTERM / SIGSEGV / SIGABRT / SIGHUP after a complete valid configuration, or cannot be started at all: interpreter line naming a missing interpreter, exec format error — such a file cannot write the invocation log, the oracle does not expect it there). The last path element of the manager's TempDir is chosen per case: shell-operator, tmp, the name of a visible non-lib sub-directory of the tree (50 %), of a file of the tree, or of the hooks directory itself (the pools of directory names contain tmp, shell-operator, hooks). Configurations come from a catalogue with FIXED verdicts (calibrated once on the unchanged tree, never asked of the code under test): 71 invalid documents with one defect each (bad crontab of several kinds, unknown field, wrong type, unsupported configVersion, malformed label/field/name selector, unknown or ambiguous includeSnapshotsFrom, ambiguous group, bad settings, admission/conversion defects; 20 of them in the legacy v0 format without configVersion) and 14 valid ones, each printed as JSON and as YAML, 10 malformed outputs, plus generated schedule lists (v0 or v1, JSON or YAML, 1-4 entries, crontabs from calibrated valid/invalid pools). The hooks directory is given in one of five spellings (canonical, trailing slash, /./, name/../name, relative to the current directory) to the real RequireExistingDirectory (as bootstrap.go does), whose answer goes to the real RecursiveGetExecutablePaths, then real hook.Manager.Init. 35% of the random cases perform 2-3 starts in the same process: between starts 1-3 edits (file added / removed / chmod +x / chmod -x / rewritten, sub-directory added / removed; 75% strictly below a sub-directory) or a rebuild of the whole tree at the same path, optionally with the modification time of the hooks directory or of every directory put back; each start has its own tree line and oracles. Fixed-index blocks: every catalogue entry alone between two good hooks (10000+, 20000+), generated schedule lists (30000+). Thorough adds the exhaustive scope {3 root names} x {directory chains of length 0-2 over s/lib/.g} x {8 file names} x {5 modes} plus all 512 modes for one file. Non-trivial: >= 2 files of which some but not all carry an execute bit, or a non-default hooks-directory name with an executable file, or a catalogue / multi-start corpus case; distinct = distinct tree lines."
	e := &c20Env{euid: os.Geteuid()}
	e.okOut = c20Expand(c20GoodCfgs, false)
	e.badOut = append(c20Expand(c20BadCfgs, false), c20Expand(c20BadRaw, true)...)
	r.Extra["valid_config_variants"] = len(e.okOut)
	r.Extra["invalid_config_variants"] = len(e.badOut)
	// diagnostics only (and warm-up of the loader's schema cache): the verdicts are fixed in c20_cfg.go
	r.Extra["catalogue_disagreements_of_this_loader"] = append(c20Disagreements(e.okOut, true), c20Disagreements(e.badOut, false)...)
	r.Extra["euid"] = e.euid
	r.Extra["symlinks"] = "generated: links to executable files (9 % of the files; Lstat shows a non-directory with mode 0777); links to non-executable files and to directories are observed only (see notes/C20.md)"
	// symbolic links: observed only (outside the model): what does the walk return for a link to an
	// executable file, a link to a non-executable file and a link to a directory with a hook inside?
	func() {
		base := filepath.Join(r.Scratch, "symlink-observation", "hooks")
		if os.MkdirAll(filepath.Join(base, "real"), 0o755) != nil {
			return
		}
		defer os.RemoveAll(filepath.Join(r.Scratch, "symlink-observation"))
		_ = writeScript(filepath.Join(base, "real", "x.sh"), []byte("#!/bin/bash\n"), 0o755)
		_ = os.WriteFile(filepath.Join(base, "real", "plain"), []byte("data\n"), 0o644)
		_ = os.Symlink("real/x.sh", filepath.Join(base, "link-to-exec"))
		_ = os.Symlink("real/plain", filepath.Join(base, "link-to-plain"))
		_ = os.Symlink("real", filepath.Join(base, "link-to-dir"))
		if paths, err := utils_file.RecursiveGetExecutablePaths(base); err == nil {
			r.Extra["symlinks_observed"] = map[string]any{
				"tree":   "real/x.sh(0755) real/plain(0644) link-to-exec->real/x.sh link-to-plain->real/plain link-to-dir->real",
				"result": c20Rels(base, paths),
				"note":   "filepath.Walk uses Lstat: a link reports mode 0777 and is not a directory, so every link counts as a hook and linked directories are not descended",
			}
		}
	}()
	if e.euid != 0 {
		// without root an execute bit for group/other only does not let the owner run the file:
		// keep the invocation log decidable by giving such files the owner bit as well
		for i, m := range c20Modes {
			if m&0o111 != 0 {
				c20Modes[i] = m | 0o100
			}
		}
	}
	f := func(name string, mode os.FileMode, kind string) *c20Node {
		return &c20Node{name: name, mode: mode, kind: kind}
	}
	d := func(name string, ch ...*c20Node) *c20Node {
		sort.Slice(ch, func(i, j int) bool { return ch[i].name < ch[j].name })
		return &c20Node{name: name, dir: true, children: ch}
	}
	corpus := []struct {
		desc  string
		root  string
		nodes []*c20Node
	}{
		{"corpus: hooks directory named lib (repaired defect: the walk applied its lib/hidden test to the root)", "lib",
			[]*c20Node{f("a.sh", 0o755, "ok"), d("lib", f("x", 0o755, "ok")), d("sub", f("b", 0o755, "ok"))}},
		{"corpus: hidden hooks directory .hooks", ".hooks", []*c20Node{f("a.sh", 0o755, "ok")}},
		{"corpus: byte order a-b < a.sh < a/b < a0, second hook invalid", "hooks",
			[]*c20Node{d("a", f("b", 0o010, "ok")), f("a-b", 0o755, "ok"), f("a.sh", 0o755, "invalid"), f("a0", 0o755, "fail")}},
		{"corpus: lib and hidden directories at depth 3, file named lib, directory with excluded extension", "hooks",
			[]*c20Node{d("s", d("t", d("lib", f("h", 0o755, "fail")), d(".g", f("h", 0o755, "fail"))), f("lib", 0o001, "ok")),
				d("d.yaml", f("h", 0o100, "ok")), f("c.yaml", 0o755, "fail"), f(".h", 0o755, "fail"), f("n", 0o666, "fail")}},
		{"corpus: first hook fails after printing a valid config", "hooks",
			[]*c20Node{{name: "00", mode: 0o755, kind: "fail", variant: 1}, f("zz", 0o755, "ok")}},
		{"corpus: empty hooks directory", "hooks", nil},
	}
	for i, cc := range corpus {
		cc := cc
		r.One(i, func(c *Case, _ *Rng) {
			c.Desc = cc.desc
			sort.Slice(cc.nodes, func(i, j int) bool { return cc.nodes[i].name < cc.nodes[j].name })
			e.classify(c, cc.root, cc.nodes)
			c.Nontrivial = true
			e.runCase(r, c, cc.root, cc.nodes, true)
		})
	}
	// corpus: later starts in the same process after a change that does not touch the hooks directory itself
	multi := []struct {
		desc  string
		nodes []*c20Node
		apply func(wd string)
		after []*c20Node
	}{
		{"corpus: second start after hooks were added and chmod +x'ed strictly below sub-directories",
			[]*c20Node{d("sub", f("a.sh", 0o755, "ok"), f("b-not-yet.sh", 0o644, "ok"), d("deep", f("c.sh", 0o755, "ok"))), f("top.sh", 0o755, "ok")},
			nil,
			[]*c20Node{d("sub", f("a.sh", 0o755, "ok"), f("b-not-yet.sh", 0o755, "ok"), d("deep", f("c.sh", 0o755, "ok"), f("e-new.sh", 0o700, "ok"))), f("top.sh", 0o755, "ok")}},
		{"corpus: second start after a nested hook lost its execute bit and another was removed",
			[]*c20Node{d("sub", f("a.sh", 0o755, "ok"), d("deep", f("c.sh", 0o755, "ok"))), f("top.sh", 0o755, "ok")},
			nil,
			[]*c20Node{d("sub", f("a.sh", 0o644, "ok"), d("deep")), f("top.sh", 0o755, "ok")}},
		{"corpus: second start after a top-level hook lost its execute bit (no directory's mtime moves)",
			[]*c20Node{f("a.sh", 0o755, "ok"), f("b.sh", 0o755, "ok")},
			nil,
			[]*c20Node{f("a.sh", 0o755, "ok"), f("b.sh", 0o644, "ok")}},
	}
	for i, mc := range multi {
		mc := mc
		r.One(len(corpus)+i, func(c *Case, _ *Rng) {
			c.Desc = mc.desc
			e.classify(c, "hooks", mc.nodes)
			c.Nontrivial = true
			c.Note("starts:2")
			e.runFixedStarts(r, c, "hooks", mc.nodes, mc.after)
		})
	}
	// corpus, third part (indices after the multi-start cases)
	lnk := func(name, kind string) *c20Node {
		return &c20Node{name: name, kind: kind, link: true, mode: c20LinkMode, tmode: 0o755}
	}
	corpus3 := []struct {
		desc  string
		tmp   string
		nodes []*c20Node
	}{
		{"corpus: the hooks directory is a mounted ConfigMap volume: hook.sh -> ..data/hook.sh, ..data -> ..<timestamp>/ (the real file lies below a hidden directory), plus a regular hook", "tmp",
			[]*c20Node{d("..2026_09_30_10_00_00.0123456789", &c20Node{name: "hook.sh", mode: 0o755, kind: "ok", logAs: "hook.sh"}),
				{name: "..data", kind: "ok", link: true, mode: c20LinkMode, linkTo: "..2026_09_30_10_00_00.0123456789"},
				{name: "hook.sh", kind: "ok", link: true, mode: c20LinkMode, linkTo: "..data/hook.sh"},
				d("sub", f("plain.sh", 0o755, "ok"))}},
		{"corpus: links to executables outside the hooks directory, at the top and below a sub-directory, a lib and a hidden directory; one with an excluded extension, one hidden", "tmp",
			[]*c20Node{lnk("010-link", "ok"), d("sub", lnk("b.sh", "ok"), f("c.sh", 0o644, "ok")), d("lib", lnk("x", "fail")), d(".g", lnk("y", "fail")),
				lnk("cfg.yaml", "fail"), lnk(".hid", "fail"), lnk("zz-bad", "invalid")}},
		{"corpus: the --config run of the second hook prints a valid configuration and is then killed (SIGKILL)", "tmp",
			[]*c20Node{f("a.sh", 0o755, "ok"), d("sub", &c20Node{name: "b.sh", mode: 0o755, kind: "fail", variant: 3}), f("z.sh", 0o755, "ok")}},
		{"corpus: the --config run of the first hook prints a valid configuration and dies of SIGSEGV", "tmp",
			[]*c20Node{{name: "00-native", mode: 0o755, kind: "fail", variant: 6}, f("zz", 0o755, "ok")}},
		{"corpus: sub-directories named like the last path element of the temp directory (operator default /tmp/shell-operator)", "shell-operator",
			[]*c20Node{f("a.sh", 0o755, "ok"), d("shell-operator", f("b.sh", 0o755, "ok")), d("sub", d("shell-operator", d("deep", f("c.sh", 0o755, "ok"))))}},
		{"corpus: the second hook cannot be started (its interpreter line names a missing interpreter), the third would be fine", "tmp",
			[]*c20Node{f("a.sh", 0o755, "ok"), {name: "b.rb", mode: 0o755, kind: "fail", variant: 10}, f("z.sh", 0o755, "ok")}},
		{"corpus: a link to a file with an execute bit that is not executable (exec format error) is the first hook", "tmp",
			[]*c20Node{{name: "00-data", kind: "fail", variant: 11, link: true, mode: c20LinkMode, tmode: 0o755}, f("zz", 0o755, "ok")}},
		{"corpus: sub-directory named tmp, temp directory <…>/tmp; a file named like the hooks directory", "tmp",
			[]*c20Node{d("tmp", f("hook", 0o755, "ok")), d("hooks", f("hooks", 0o755, "ok")), f("tmp.sh", 0o755, "ok")}},
	}
	for i, cc := range corpus3 {
		cc := cc
		idx := len(corpus) + len(multi) + i
		c20TmpFixed[idx] = cc.tmp
		r.One(idx, func(c *Case, _ *Rng) {
			c.Desc = cc.desc
			c20SortDeep(cc.nodes)
			e.classify(c, "hooks", cc.nodes)
			c.Nontrivial = true
			e.runCase(r, c, "hooks", cc.nodes, true)
		})
	}
	n := r.N(1200, 8000)
	r.Cases(100, n, 0, func(c *Case, rng *Rng) {
		root := PickOne(rng, c20RootNames)
		nodes := c20GenDir(rng, 1, true)
		e.classify(c, root, nodes)
		var later []c20Start
		if rng.Chance(35) {
			later = c20GenStarts(rng)
		}
		c.Note(c20StartsDesc(later))
		e.runStarts(r, c, rng, root, nodes, true, later)
	})
	// the catalogue, entry by entry: a hooks directory with a good hook before and after the one that
	// prints the entry (indices fixed: 10000+i invalid entries, 20000+i valid entries)
	r.Cases(10000, len(e.badOut), 0, func(c *Case, _ *Rng) {
		i := c.Idx - 10000
		o := e.badOut[i]
		name := []string{"cron-hook.sh", "hook", "b.py"}[i%3]
		nodes := []*c20Node{d("001-good", f("hook.sh", 0o755, "ok")),
			d("002-x", &c20Node{name: name, mode: 0o755, kind: "invalid", variant: i}),
			d("003-good", &c20Node{name: "hook.sh", mode: 0o755, kind: "ok", variant: i})}
		c.Desc = "catalogue: invalid configuration " + o.class
		c.Note("catalogue-invalid:" + c20CfgFamily(o.class))
		c.Nontrivial = true
		e.runCase(r, c, "hooks", nodes, true)
	})
	// generated schedule lists (1-4 entries, each crontab valid or not, both formats, both syntaxes)
	r.Cases(30000, r.N(120, 800), 0, func(c *Case, rng *Rng) {
		g := &c20Node{name: []string{"cron-hook.sh", "hook", "b.py"}[c.Idx%3], mode: 0o755}
		g.kind, g.class, g.text = c20GenSchedules(rng, rng.Chance(60))
		nodes := []*c20Node{d("001-good", f("hook.sh", 0o755, "ok")), d("002-x", g),
			d("003-good", &c20Node{name: "hook.sh", mode: 0o755, kind: "ok", variant: c.Idx})}
		c.Desc = "generated schedule list " + g.class
		c.Note("generated-schedules:" + g.kind + ":" + c20CfgFamily(strings.TrimPrefix(g.class, "gen-")))
		c.Nontrivial = true
		e.runCase(r, c, "hooks", nodes, true)
	})
	r.Cases(20000, len(e.okOut), 0, func(c *Case, _ *Rng) {
		i := c.Idx - 20000
		o := e.okOut[i]
		nodes := []*c20Node{d("001-good", f("hook.sh", 0o755, "ok")),
			d("002-x", &c20Node{name: "hook", mode: 0o755, kind: "ok", variant: i}),
			d("003-bad", &c20Node{name: "hook.sh", mode: 0o755, kind: "invalid", variant: i})}
		c.Desc = "catalogue: valid configuration " + o.class
		c.Note("catalogue-valid:" + c20CfgFamily(o.class))
		c.Nontrivial = true
		e.runCase(r, c, "hooks", nodes, true)
	})
	if !r.Thorough() {
		return
	}
	// exhaustive small scope
	r.Exhaust = true
	type ex struct {
		root  string
		chain []string
		file  string
		mode  os.FileMode
	}
	var all []ex
	chains := [][]string{{}}
	dn := []string{"s", "lib", ".g"}
	for _, a := range dn {
		chains = append(chains, []string{a})
		for _, b := range dn {
			chains = append(chains, []string{a, b})
		}
	}
	for _, root := range []string{"hooks", "lib", ".h"} {
		for _, ch := range chains {
			for _, fn := range []string{"h", ".h", "h.yaml", "h.json", "h.md", "h.txt", "h.sh", "lib"} {
				for _, m := range []os.FileMode{0o644, 0o755, 0o010, 0o001, 0o100} {
					all = append(all, ex{root, ch, fn, m})
				}
			}
		}
	}
	for m := 0; m < 512; m++ {
		all = append(all, ex{"hooks", nil, "h", os.FileMode(m)})
	}
	r.Extra["exhaustive_cases"] = len(all)
	r.Cases(1000000, len(all), 0, func(c *Case, _ *Rng) {
		x := all[c.Idx-1000000]
		if e.euid != 0 && x.mode&0o111 != 0 {
			x.mode |= 0o100
		}
		node := f(x.file, x.mode, "ok")
		for i := len(x.chain) - 1; i >= 0; i-- {
			node = d(x.chain[i], node)
		}
		nodes := []*c20Node{node}
		c.Note("exhaustive")
		c.Nontrivial = true
		e.runCase(r, c, x.root, nodes, true)
	})
}
