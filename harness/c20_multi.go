package main

// C20 — later starts in the same process. "At start the set of hooks is exactly the files …" holds at
// EVERY start: after a start the tree on disk is changed (files added / removed / chmod'ed / rewritten,
// sub-directories added / removed — mostly strictly below sub-directories, so that the hooks
// directory's own modification time does not move; optionally the modification times of the hooks
// directory or of all directories are put back, as `rsync -t` / `cp -p` / an image layer would), then a
// new hook manager is started on the same path in the same process. Anything remembered from the
// earlier scan or the earlier --config runs shows up as a wrong hook set / wrong --config log.

import (
	"fmt"
	"os"
	"path/filepath"
	"sort"
	"strings"
	"time"
)

type c20DirRef struct {
	rel  string   // relative to the hooks directory, "" for the hooks directory itself
	node *c20Node // nil for the hooks directory
	kids *[]*c20Node
}

func c20Clone(nodes []*c20Node) []*c20Node {
	out := make([]*c20Node, 0, len(nodes))
	for _, n := range nodes {
		m := *n
		m.children = c20Clone(n.children)
		out = append(out, &m)
	}
	return out
}

func c20Dirs(rel string, kids *[]*c20Node, out *[]c20DirRef) {
	for _, n := range *kids {
		if n.dir {
			r := n.name
			if rel != "" {
				r = rel + "/" + n.name
			}
			*out = append(*out, c20DirRef{rel: r, node: n, kids: &n.children})
			c20Dirs(r, &n.children, out)
		}
	}
}

func c20SortKids(kids *[]*c20Node) {
	sort.Slice(*kids, func(i, j int) bool { return (*kids)[i].name < (*kids)[j].name })
}

func c20NewFile(rng *Rng, name string) *c20Node {
	nd := &c20Node{name: name, variant: rng.Intn(1000), mode: PickOne(rng, c20Modes)}
	switch k := rng.Intn(100); {
	case k < 80:
		nd.kind = "ok"
	case k < 90:
		nd.kind = "fail"
	default:
		nd.kind = "invalid"
	}
	if nd.kind != "fail" && rng.Chance(12) {
		nd.kind, nd.class, nd.text = c20GenSchedules(rng, nd.kind == "invalid")
	}
	c20MaybeLink(rng, nd)
	return nd
}

func c20FreeName(rng *Rng, kids []*c20Node, pool []string) string {
	used := map[string]bool{}
	for _, k := range kids {
		used[k.name] = true
	}
	for try := 0; try < 20; try++ {
		n := PickOne(rng, pool)
		if !used[n] {
			return n
		}
	}
	return ""
}

// change applies one step of changes to the tree on disk and returns the new in-memory tree.
func (e *c20Env) change(rng *Rng, workingDir, logPath string, old []*c20Node, st c20Start) ([]*c20Node, string, error) {
	nodes := c20Clone(old)
	// modification times before the change
	mt := map[string]time.Time{}
	var before []c20DirRef
	c20Dirs("", &nodes, &before)
	before = append(before, c20DirRef{rel: ""})
	for _, d := range before {
		if fi, err := os.Stat(filepath.Join(workingDir, d.rel)); err == nil {
			mt[d.rel] = fi.ModTime()
		}
	}
	var what []string
	if st.rebuild {
		if err := os.RemoveAll(workingDir); err != nil {
			return nil, "", err
		}
		if err := os.Mkdir(workingDir, 0o755); err != nil {
			return nil, "", err
		}
		nodes = c20GenDir(rng, 1, true)
		if err := e.materialise(workingDir, "", logPath, nodes); err != nil {
			return nil, "", err
		}
		what = append(what, "rebuild")
	}
	for i := 0; i < st.edits; i++ {
		var dirs []c20DirRef
		c20Dirs("", &nodes, &dirs)
		d := c20DirRef{rel: "", kids: &nodes}
		if len(dirs) > 0 && rng.Chance(75) {
			d = PickOne(rng, dirs)
		}
		depth := "sub"
		if d.rel == "" {
			depth = "top"
		}
		abs := filepath.Join(workingDir, d.rel)
		relOf := func(name string) string {
			if d.rel == "" {
				return name
			}
			return d.rel + "/" + name
		}
		var filesIdx, dirsIdx []int
		for i, k := range *d.kids {
			if k.dir {
				dirsIdx = append(dirsIdx, i)
			} else {
				filesIdx = append(filesIdx, i)
			}
		}
		op := rng.Intn(100)
		switch {
		case op < 25 || (len(filesIdx) == 0 && op < 80): // a new file
			name := c20FreeName(rng, *d.kids, c20FileNames)
			if name == "" {
				continue
			}
			nd := c20NewFile(rng, name)
			if err := e.writeFile(filepath.Join(abs, name), relOf(name), logPath, nd); err != nil {
				return nil, "", err
			}
			*d.kids = append(*d.kids, nd)
			c20SortKids(d.kids)
			what = append(what, "add-file-"+depth)
		case op < 45: // a file goes away
			i := PickOne(rng, filesIdx)
			if err := os.Remove(filepath.Join(abs, (*d.kids)[i].name)); err != nil {
				return nil, "", err
			}
			*d.kids = append((*d.kids)[:i:i], (*d.kids)[i+1:]...)
			what = append(what, "rm-file-"+depth)
		case op < 70: // mode bits only: an execute bit appears or disappears
			nd := (*d.kids)[PickOne(rng, filesIdx)]
			if nd.link { // the mode bits of a link cannot be changed
				continue
			}
			var pool []os.FileMode
			for _, m := range c20Modes {
				if (m&0o111 != 0) != (nd.mode&0o111 != 0) {
					pool = append(pool, m)
				}
			}
			if len(pool) == 0 {
				continue
			}
			nd.mode = PickOne(rng, pool)
			if err := os.Chmod(filepath.Join(abs, nd.name), nd.mode); err != nil {
				return nil, "", err
			}
			if nd.mode&0o111 != 0 {
				what = append(what, "chmod+x-"+depth)
			} else {
				what = append(what, "chmod-x-"+depth)
			}
		case op < 80: // same name and mode, the file now prints something else
			nd := (*d.kids)[PickOne(rng, filesIdx)]
			nw := c20NewFile(rng, nd.name)
			nd.kind, nd.variant, nd.class, nd.text = nw.kind, nw.variant, nw.class, nw.text
			p := filepath.Join(abs, nd.name)
			if !nd.link {
				_ = os.Chmod(p, 0o600)
			}
			if err := e.writeFile(p, relOf(nd.name), logPath, nd); err != nil {
				return nil, "", err
			}
			what = append(what, "rewrite-"+depth)
		case op < 92 || len(dirsIdx) == 0: // a new sub-directory with files
			name := c20FreeName(rng, *d.kids, c20DirNames)
			if name == "" || strings.Count(d.rel, "/") >= 3 {
				continue
			}
			nd := &c20Node{name: name, dir: true}
			for j, k := 0, rng.Range(1, 2); j < k; j++ {
				if fn := c20FreeName(rng, nd.children, c20FileNames); fn != "" {
					nd.children = append(nd.children, c20NewFile(rng, fn))
				}
			}
			c20SortKids(&nd.children)
			if err := os.Mkdir(filepath.Join(abs, name), 0o755); err != nil {
				return nil, "", err
			}
			if err := e.materialise(filepath.Join(abs, name), relOf(name), logPath, nd.children); err != nil {
				return nil, "", err
			}
			*d.kids = append(*d.kids, nd)
			c20SortKids(d.kids)
			what = append(what, "add-dir-"+depth)
		default: // a sub-directory goes away
			i := PickOne(rng, dirsIdx)
			if err := os.RemoveAll(filepath.Join(abs, (*d.kids)[i].name)); err != nil {
				return nil, "", err
			}
			*d.kids = append((*d.kids)[:i:i], (*d.kids)[i+1:]...)
			what = append(what, "rm-dir-"+depth)
		}
	}
	// put modification times back
	switch st.mtimes {
	case 1:
		if t, ok := mt[""]; ok {
			_ = os.Chtimes(workingDir, t, t)
		}
		what = append(what, "root-mtime-restored")
	case 2:
		for rel, t := range mt {
			p := filepath.Join(workingDir, rel)
			if fi, err := os.Stat(p); err == nil && fi.IsDir() {
				_ = os.Chtimes(p, t, t)
			}
		}
		what = append(what, "all-dir-mtimes-restored")
	}
	if len(what) == 0 {
		what = append(what, "nothing")
	}
	sort.Strings(what)
	what = uniqStrs(what)
	return nodes, strings.Join(what, "+"), nil
}

func c20GenStarts(rng *Rng) []c20Start {
	var out []c20Start
	for i, n := 0, rng.Range(1, 2); i < n; i++ {
		st := c20Start{edits: rng.Range(1, 3), mtimes: []int{0, 0, 1, 2}[rng.Intn(4)]}
		if rng.Chance(12) {
			st.rebuild = true
			st.edits = rng.Range(0, 1)
		}
		out = append(out, st)
	}
	return out
}

func c20StartsDesc(later []c20Start) string {
	return fmt.Sprintf("starts:%d", 1+len(later))
}

// runFixedStarts: first start on `first`, then the tree on disk is brought to `second` by chmod /
// create / remove of exactly the differing entries (never touching what is unchanged), second start.
func (e *c20Env) runFixedStarts(r *Run, c *Case, rootName string, first, second []*c20Node) {
	base := filepath.Join(r.Scratch, fmt.Sprintf("c%d", c.Idx))
	workingDir := filepath.Join(base, rootName)
	logPath := filepath.Join(base, "invocations.log")
	if err := os.MkdirAll(workingDir, 0o755); err != nil {
		c.Inconcl = "mkdir: " + err.Error()
		return
	}
	tmpName := c20TmpName(c, rootName, first)
	_ = os.MkdirAll(c20TmpDir(base, tmpName), 0o755)
	defer os.RemoveAll(base)
	c20SortDeep(first)
	c20SortDeep(second)
	if err := e.materialise(workingDir, "", logPath, first); err != nil {
		c.Inconcl = "materialise: " + err.Error()
		return
	}
	if !e.start(r, c, base, rootName, tmpName, first, true) {
		return
	}
	if err := e.bringTo(workingDir, "", logPath, first, second); err != nil {
		c.Inconcl = "change: " + err.Error()
		return
	}
	e.start(r, c, base, rootName, tmpName, second, true)
}

func c20SortDeep(nodes []*c20Node) {
	sort.Slice(nodes, func(i, j int) bool { return nodes[i].name < nodes[j].name })
	for _, n := range nodes {
		if n.dir {
			c20SortDeep(n.children)
		}
	}
}

func (e *c20Env) bringTo(dir, rel, logPath string, from, to []*c20Node) error {
	old := map[string]*c20Node{}
	for _, n := range from {
		old[n.name] = n
	}
	for _, n := range to {
		p := filepath.Join(dir, n.name)
		r := n.name
		if rel != "" {
			r = rel + "/" + n.name
		}
		o := old[n.name]
		delete(old, n.name)
		switch {
		case o == nil && n.dir:
			if err := os.Mkdir(p, 0o755); err != nil {
				return err
			}
			if err := e.materialise(p, r, logPath, n.children); err != nil {
				return err
			}
		case o == nil:
			if err := e.writeFile(p, r, logPath, n); err != nil {
				return err
			}
		case n.dir && o.dir:
			if err := e.bringTo(p, r, logPath, o.children, n.children); err != nil {
				return err
			}
		case !n.dir && !o.dir:
			if n.kind != o.kind || n.variant != o.variant || n.text != o.text || n.link != o.link {
				if !o.link {
					_ = os.Chmod(p, 0o600)
				} else {
					_ = os.Remove(p)
				}
				if err := e.writeFile(p, r, logPath, n); err != nil {
					return err
				}
			} else if n.mode != o.mode {
				if err := os.Chmod(p, n.mode); err != nil {
					return err
				}
			}
		default:
			return fmt.Errorf("%s changes between file and directory", r)
		}
	}
	for name := range old {
		if err := os.RemoveAll(filepath.Join(dir, name)); err != nil {
			return err
		}
	}
	return nil
}

func uniqStrs(xs []string) []string {
	var out []string
	for i, x := range xs {
		if i == 0 || x != xs[i-1] {
			out = append(out, x)
		}
	}
	return out
}
