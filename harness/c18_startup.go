package main

// C18 (f) — start-up of the whole operator on a fake cluster: the real bootstrapMainQueue puts the
// onStartup / EnableKubernetesBindings / EnableScheduleBindings tasks of a generated hook into the main
// queue, the real taskHandleEnableKubernetesBindings turns every kubernetes binding into a
// Synchronization HookRun task (HeadTasks of the main queue), the queue worker hands them to
// op.taskHandler -> taskHandleHookRun -> Hook.Run. A hook with `settings` and several kubernetes
// bindings thus gets a burst of queued executions the moment the operator starts; afterwards objects
// are created in the cluster and the bindings' Event executions arrive through the real informers,
// the real ManagerEventsHandler and the bindings' own queues. Every execution START is counted from
// the line the hook process itself writes as its first action.

import (
	"context"
	"fmt"
	"os"
	"path/filepath"
	"sort"
	"strings"
	"time"

	"github.com/deckhouse/deckhouse/pkg/log"
	corev1 "k8s.io/api/core/v1"
	metav1 "k8s.io/apimachinery/pkg/apis/meta/v1"

	"github.com/flant/kube-client/fake"
	"github.com/flant/kube-client/manifest"
	metricstorage "github.com/flant/shell-operator/pkg/metric_storage"
	shell_operator "github.com/flant/shell-operator/pkg/shell-operator"
	"github.com/flant/shell-operator/pkg/task/queue"
)

type c18KBind struct {
	name       string
	kind       string // ConfigMap, Secret, Pod
	group      string // "" = no group: its Synchronization is never combined with another one
	execOnSync bool   // executeHookOnSynchronization
	queue      string // "" = main (Synchronization runs in main whatever this says)
}

type c18StartScn struct {
	desc      string
	throttled bool
	iv        time.Duration
	b         int
	binds     []c18KBind
	onStartup bool
	schedule  bool            // a schedule binding as well (it never ticks: "0 3 1 1 *")
	webhooks  []string        // other bindings of the hook
	objects   []time.Duration // ConfigMaps created after the start-up burst is over, at these offsets
	quiet     time.Duration   // nothing happens for this long between the end of the start-up burst and the first object
	serial    bool            // every object but the first is created when an Event execution has started since the previous one (never combined)
}

func c18StartupCorpus(idx int) c18StartScn {
	kb := func(n int, kind string) c18KBind {
		return c18KBind{name: fmt.Sprintf("kb%d", n), kind: kind, execOnSync: true}
	}
	switch idx {
	case 20:
		return c18StartScn{desc: "corpus: I=700ms B=1, four kubernetes bindings without a group: four Synchronization executions queued at start-up",
			throttled: true, iv: 700 * time.Millisecond, b: 1,
			binds: []c18KBind{kb(0, "ConfigMap"), kb(1, "Secret"), kb(2, "Pod"), kb(3, "ConfigMap")}}
	case 21:
		s := c18StartScn{desc: "corpus: I=600ms B=2, onStartup + five kubernetes bindings (two share a group, one is not executed on Synchronization, one has its own queue), then 3 ConfigMaps",
			throttled: true, iv: 600 * time.Millisecond, b: 2, onStartup: true,
			binds:   []c18KBind{kb(0, "ConfigMap"), kb(1, "ConfigMap"), kb(2, "Secret"), kb(3, "ConfigMap"), kb(4, "Pod")},
			objects: []time.Duration{0, 0, 50 * time.Millisecond}}
		s.binds[1].group, s.binds[2].group = "g", "g"
		s.binds[3].execOnSync = false
		s.binds[4].queue = "pods"
		s.binds[0].queue = "cms"
		return s
	case 23:
		// the history "start-up, a quiet period of several intervals, then a burst of events": whatever the start-up
		// did, the bucket holds B tokens after the pause, not one per binding
		s := c18StartScn{desc: "corpus: I=300ms B=1, six ConfigMap bindings in six queues (main, qa .. qe); after the start-up burst 2.1 s (7 intervals) of silence, then one ConfigMap: six Event executions at once",
			throttled: true, iv: 300 * time.Millisecond, b: 1,
			binds:   []c18KBind{kb(0, "ConfigMap"), kb(1, "ConfigMap"), kb(2, "ConfigMap"), kb(3, "ConfigMap"), kb(4, "ConfigMap"), kb(5, "ConfigMap")},
			objects: []time.Duration{0}, quiet: 2100 * time.Millisecond}
		for i, q := range []string{"qa", "qb", "qc", "qd", "qe"} {
			s.binds[i+1].queue = q
		}
		return s
	case 24:
		return c18StartScn{desc: "corpus: I=400ms B=2, five bindings (3 ConfigMap, Secret, Pod) all in main; after the start-up burst 2 s (5 intervals) of silence, then 5 ConfigMaps one after another, each when the previous one's execution has started",
			throttled: true, iv: 400 * time.Millisecond, b: 2,
			binds:   []c18KBind{kb(0, "ConfigMap"), kb(1, "Secret"), kb(2, "ConfigMap"), kb(3, "Pod"), kb(4, "ConfigMap")},
			objects: []time.Duration{0, 0, 0, 0, 0}, quiet: 2 * time.Second, serial: true}
	default:
		return c18StartScn{desc: "corpus: no settings, five kubernetes bindings: nothing is throttled",
			binds: []c18KBind{kb(0, "ConfigMap"), kb(1, "Secret"), kb(2, "Pod"), kb(3, "ConfigMap"), kb(4, "Secret")}}
	}
}

func c18StartupRandom(rng *Rng) c18StartScn {
	s := c18StartScn{throttled: !rng.Chance(10), iv: PickOne(rng, []time.Duration{500 * time.Millisecond, 600 * time.Millisecond, 800 * time.Millisecond}),
		b: PickOne(rng, []int{1, 1, 2, 3})}
	n := rng.Range(3, 6)
	for i := 0; i < n; i++ {
		b := c18KBind{name: fmt.Sprintf("kb%d", i), kind: PickOne(rng, []string{"ConfigMap", "ConfigMap", "Secret", "Pod"}), execOnSync: !rng.Chance(12)}
		if rng.Chance(15) {
			b.group = PickOne(rng, []string{"g", "h"})
		}
		if rng.Chance(25) {
			b.queue = PickOne(rng, []string{"qa", "qb"})
		}
		s.binds = append(s.binds, b)
	}
	s.onStartup = rng.Chance(35)
	s.schedule = rng.Chance(30)
	if rng.Chance(30) {
		s.webhooks = []string{PickOne(rng, []string{"validating", "mutating", "conversion"})}
	}
	if rng.Chance(60) {
		k := rng.Range(1, 4)
		var at time.Duration
		for i := 0; i < k; i++ {
			s.objects = append(s.objects, at)
			at += time.Duration(rng.Intn(int(s.iv/time.Millisecond))) * time.Millisecond / 2
		}
	}
	if len(s.objects) > 0 && rng.Chance(50) {
		// a quiet period of B+2 .. B+4 intervals after the start-up burst (the bucket is full again: B tokens),
		// then the events; short intervals so that the run stays short
		s.iv = PickOne(rng, []time.Duration{300 * time.Millisecond, 400 * time.Millisecond})
		s.quiet = time.Duration(s.b+rng.Range(2, 4)) * s.iv
		s.serial = rng.Bool()
		if s.serial {
			for len(s.objects) < s.b+3 {
				s.objects = append(s.objects, 0)
			}
		} else {
			// the ConfigMap bindings get queues of their own: one object = one execution per binding, side by side
			qi := 0
			for i := range s.binds {
				if s.binds[i].kind == "ConfigMap" && s.binds[i].group == "" {
					s.binds[i].queue = []string{"", "qa", "qb", "qc", "qd", "qe"}[qi%6]
					qi++
				}
			}
		}
	}
	ungrouped := 0
	for _, b := range s.binds {
		if b.group == "" && b.execOnSync {
			ungrouped++
		}
	}
	s.desc = fmt.Sprintf("I=%v B=%d throttled=%v, %d kubernetes bindings (%d executed on Synchronization without a group), onStartup=%v schedule=%v webhooks=%v, %d objects created afterwards (after a pause of %v, one by one=%v)",
		s.iv, s.b, s.throttled, n, ungrouped, s.onStartup, s.schedule, s.webhooks, len(s.objects), s.quiet, s.serial)
	return s
}

func c18RunStartup(r *Run, c *Case, scn c18StartScn) {
	c.Desc = "operator start-up: " + scn.desc
	ns := fmt.Sprintf("c18s-%d", c.Idx)
	dir := filepath.Join(r.Scratch, ns)
	hooksDir, tmp := filepath.Join(dir, "hooks"), filepath.Join(dir, "tmp")
	_ = os.MkdirAll(hooksDir, 0o755)
	_ = os.MkdirAll(tmp, 0o755)
	defer os.RemoveAll(dir)
	logf := filepath.Join(dir, "starts.log")

	var cfg strings.Builder
	cfg.WriteString("configVersion: v1\n")
	if scn.throttled {
		fmt.Fprintf(&cfg, "settings:\n  executionMinInterval: %s\n  executionBurst: %d\n", scn.iv.String(), scn.b)
	}
	if scn.onStartup {
		cfg.WriteString("onStartup: 1\n")
	}
	if scn.schedule {
		cfg.WriteString("schedule:\n- name: never\n  crontab: \"0 3 1 1 *\"\n")
	}
	for _, k := range scn.webhooks {
		cfg.WriteString(c18WebhookYAML(k, 0))
	}
	cfg.WriteString("kubernetes:\n")
	bindOf := map[string]int{}
	for i, b := range scn.binds {
		bindOf[b.name] = i
		fmt.Fprintf(&cfg, "- name: %s\n  apiVersion: v1\n  kind: %s\n  executeHookOnSynchronization: %v\n  executeHookOnEvent: [Added]\n  namespace:\n    nameSelector:\n      matchNames: [%q]\n",
			b.name, b.kind, b.execOnSync, ns)
		if b.group != "" {
			fmt.Fprintf(&cfg, "  group: %s\n", b.group)
		}
		if b.queue != "" {
			fmt.Fprintf(&cfg, "  queue: %s\n", b.queue)
		}
	}
	// the very first thing an execution does is to take its start time; then the name of the binding of its
	// first binding context and whether it is a Synchronization / an Event execution
	script := "#!/bin/bash\nif [[ \"${1:-}\" == \"--config\" ]]; then\ncat <<'EOF'\n" + cfg.String() + "EOF\nexit 0\nfi\n" +
		"ts=$(date +%s%N)\nctx=$(<\"$BINDING_CONTEXT_PATH\")\nre='\"binding\": *\"([^\"]+)\"'\nname=none\n[[ $ctx =~ $re ]] && name=${BASH_REMATCH[1]}\n" +
		"ty=other\nres='\"type\": *\"Synchronization\"'\nree='\"type\": *\"Event\"'\nif [[ $ctx =~ $res ]]; then ty=sync; elif [[ $ctx =~ $ree ]]; then ty=event; fi\n" +
		"all=$(grep -o '\"binding\": *\"[^\"]*\"' \"$BINDING_CONTEXT_PATH\" | cut -d'\"' -f4 | sort -u | tr '\\n' ',')\n" +
		"echo \"$ts $name $ty ${all:-none}\" >> " + logf + "\nexit 0\n"
	_ = writeScript(filepath.Join(hooksDir, "hook.sh"), []byte(script), 0o755)

	fc := fake.NewFakeCluster(fake.ClusterVersionV121)
	nsObj := &corev1.Namespace{}
	nsObj.SetName(ns)
	_, _ = fc.Client.CoreV1().Namespaces().Create(context.TODO(), nsObj, metav1.CreateOptions{})

	ctx, cancel := context.WithCancel(context.Background())
	defer cancel()
	ms := metricstorage.NewMetricStorage(ctx, "", true, log.NewNop())
	op, err := shell_operator.VerifAssembleC01(ctx, fc.Client, hooksDir, tmp, ms, ms)
	if err != nil {
		c.Op("operator-setup", "err "+firstLine(err.Error()))
		return
	}
	hk := op.HookManager.GetHook("hook.sh")
	if hk == nil {
		c.Op("operator-setup", "hook-not-loaded")
		return
	}
	binds := []string{"kubernetes"}
	if scn.onStartup {
		binds = append(binds, "onStartup")
	}
	if scn.schedule {
		binds = append(binds, "schedule")
	}
	binds = append(binds, scn.webhooks...)
	if scn.throttled {
		c.Op(fmt.Sprintf("hookcfg i=%d b=%d binds=%s", int64(scn.iv), scn.b, strings.Join(binds, "+")), c18LimLine(hk.RateLimiter))
	} else {
		c.Op(fmt.Sprintf("hookcfg i=- b=- binds=%s", strings.Join(binds, "+")), c18LimLine(hk.RateLimiter))
	}

	t0 := time.Now()
	wall0 := t0.UnixNano()
	// Start() without the HTTP servers: bootstrapMainQueue, StartMain, the bindings' queues, the event handler
	op.VerifStart()
	queuesEmpty := func() bool {
		empty := true
		op.TaskQueues.Iterate(func(q *queue.TaskQueue) {
			if q != nil && !q.IsEmpty() {
				empty = false
			}
		})
		return empty
	}
	deadline := time.Now().Add(50 * time.Second)
	for !queuesEmpty() {
		if time.Now().After(deadline) {
			c.Inconcl = "the main queue did not drain in 50 s"
			return
		}
		time.Sleep(5 * time.Millisecond)
	}
	// the bindings are enabled and every Synchronization task is done; a quiet period (the hook's bucket refills
	// to its burst B and not further), then objects appear in the cluster
	if scn.quiet > 0 && len(scn.objects) > 0 {
		time.Sleep(scn.quiet)
		c.Note("quiet-period-before-events")
	}
	evLo := time.Now().UnixNano()
	watchers := 0 // bindings whose Event executions are recognisable (no group) and that watch ConfigMaps
	for _, b := range scn.binds {
		if b.kind == "ConfigMap" && b.group == "" {
			watchers++
		}
	}
	readLog := func() (lines [][]string) {
		lb, _ := os.ReadFile(logf)
		for _, l := range strings.Split(strings.TrimSpace(string(lb)), "\n") {
			if f := strings.Fields(l); len(f) == 4 {
				lines = append(lines, f)
			}
		}
		return lines
	}
	eventExecs := func() (n int) {
		for _, f := range readLog() {
			if f[2] != "sync" && f[1] != "onStartup" && f[1] != "none" {
				n++
			}
		}
		return n
	}
	tEv := time.Now()
	seenBefore := eventExecs()
	for i, at := range scn.objects {
		if d := at - time.Since(tEv); d > 0 {
			time.Sleep(d)
		}
		if scn.serial && i > 0 && watchers > 0 {
			// one by one: wait (at most 10 s, asserting nothing) until an execution has started since the previous object
			for till := time.Now().Add(10 * time.Second); eventExecs() <= seenBefore && time.Now().Before(till); {
				time.Sleep(3 * time.Millisecond)
			}
			seenBefore = eventExecs()
		}
		mft := manifest.MustFromYAML(fmt.Sprintf("apiVersion: v1\nkind: ConfigMap\nmetadata:\n  name: \"o%d\"\ndata:\n  v: \"%d\"\n", i, i))
		if err := fc.Create(ns, mft); err != nil {
			c.Inconcl = "cluster operation failed: " + err.Error()
			return
		}
	}
	if len(scn.objects) > 0 && watchers > 0 {
		// wait (never asserting how long it takes) until the events have been delivered and executed: at
		// least one Event execution was logged and the queues stayed empty for a while; a run in which the
		// informers deliver nothing in 20 s simply has fewer executions to look at
		evDeadline := time.Now().Add(20 * time.Second)
		quiet := 0
		for time.Now().Before(evDeadline) {
			seen := false
			for _, f := range readLog() {
				if f[2] == "event" {
					seen = true
				}
			}
			if seen && queuesEmpty() {
				quiet++
			} else {
				quiet = 0
			}
			if quiet >= 60 { // ~300 ms of silence after the first Event execution
				break
			}
			time.Sleep(5 * time.Millisecond)
		}
		for !queuesEmpty() {
			if time.Now().After(deadline) {
				c.Inconcl = "the queues did not drain in 50 s"
				return
			}
			time.Sleep(5 * time.Millisecond)
		}
	}
	cancel()
	if d := (time.Now().UnixNano() - wall0) - int64(time.Since(t0)); d > int64(2*time.Millisecond) || d < -int64(2*time.Millisecond) {
		c.Inconcl = "the wall clock was stepped during the run"
		return
	}

	// the executions, as the hook processes recorded them
	type ex struct {
		lo, hi int64
		queue  string
		ty     string
	}
	var execs []ex
	synced := map[string]int{}    // Synchronization executions whose first binding context is this binding's
	mentioned := map[string]int{} // start-up executions (before the first object existed) with a binding context of this binding
	grouped := false
	for _, b := range scn.binds {
		if b.group != "" {
			grouped = true
		}
	}
	status := "synced"
	for _, f := range readLog() {
		var v int64
		if _, err := fmt.Sscan(f[0], &v); err != nil {
			continue
		}
		e := ex{lo: wall0, hi: v, queue: "main", ty: f[2]}
		switch {
		case f[1] == "onStartup" || f[1] == "none":
			if !scn.onStartup {
				status = "execution-with-unknown-binding"
			}
		default:
			bi, ok := bindOf[f[1]]
			if !ok {
				status = "execution-with-unknown-binding"
				break
			}
			if f[2] != "event" {
				for _, n := range strings.Split(f[3], ",") {
					if n != "" {
						mentioned[n]++
					}
				}
			}
			switch f[2] {
			case "sync":
				synced[f[1]]++
			case "event":
				// an Event execution cannot have been granted before the first object existed; it runs in
				// the binding's own queue
				e.lo = evLo
				if q := scn.binds[bi].queue; q != "" {
					e.queue = q
				}
			default:
				// a grouped binding (context type Group: Synchronization or Event): lo stays the operator's start
				if q := scn.binds[bi].queue; q != "" {
					e.queue = "main+" + q
				}
			}
		}
		execs = append(execs, e)
	}
	// every binding that is executed on Synchronization was: in an execution of its own when no binding of the
	// hook has a group (Synchronizations without a group are not combined), else at least inside a combined one
	// (a grouped Synchronization task takes the following tasks of the hook with it)
	for _, b := range scn.binds {
		switch {
		case b.execOnSync && !grouped && synced[b.name] != 1:
			status = fmt.Sprintf("binding-%s-synchronized-%d-times", b.name, synced[b.name])
		case b.execOnSync && b.group == "" && mentioned[b.name] == 0: // (the contexts of one group are compacted into one: no names to look for)
			status = fmt.Sprintf("binding-%s-never-synchronized", b.name)
		case !b.execOnSync && synced[b.name] != 0:
			status = fmt.Sprintf("binding-%s-executed-on-synchronization", b.name)
		}
	}
	c.Op(fmt.Sprintf("operator-startup binds=%d", len(scn.binds)), status)
	// after start-up, pause and events the hook's limiter is still the one its settings describe
	if scn.throttled {
		c.Op(fmt.Sprintf("hookcfg-after i=%d b=%d binds=%s", int64(scn.iv), scn.b, strings.Join(binds, "+")), c18LimLine(hk.RateLimiter))
	} else {
		c.Op(fmt.Sprintf("hookcfg-after i=- b=- binds=%s", strings.Join(binds, "+")), c18LimLine(hk.RateLimiter))
	}
	c.Note("kind:operator-startup")
	c.Note(fmt.Sprintf("sync-executions:%d", len(synced)))
	c.Nontrivial = len(execs) >= 3
	if !scn.throttled || len(execs) == 0 {
		return
	}
	// lo of an execution: the operator's start (Event executions: the first object was created), or later — the
	// previous execution that certainly ran in the same queue had started (one worker per queue: executions of
	// one queue are sequential, so the next handler call comes after the previous process start). All
	// Synchronization / onStartup executions run in main; no assumption on how long the informers take to start.
	sort.Slice(execs, func(i, j int) bool { return execs[i].hi < execs[j].hi })
	var los, his []int64
	qs := map[string]bool{}
	lastIn := map[string]int64{}
	for _, e := range execs {
		certain := !strings.Contains(e.queue, "+")
		if p, ok := lastIn[e.queue]; certain && ok && p > e.lo {
			e.lo = p
		}
		if certain {
			lastIn[e.queue] = e.hi
		}
		los = append(los, e.lo-wall0)
		his = append(his, e.hi-wall0)
		for _, q := range strings.Split(e.queue, "+") {
			qs[q] = true
		}
	}
	c.Oracle(fmt.Sprintf("boundiv I=%d B=%d S=%d lo=%s hi=%s", int64(scn.iv), scn.b, c18Skew(len(qs)), joinI64(los), joinI64(his)))
}
