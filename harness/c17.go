package main

import (
	"fmt"
	"os"
	"strings"
	"time"

	shell_operator "github.com/flant/shell-operator/pkg/shell-operator"
)

func init() { suites["c17"] = runC17 }

// randResult scripts what a handler returns.
func randResult(rng *Rng, next *int) wResult {
	fresh := func() []int {
		var l []int
		if rng.Chance(25) {
			for j := rng.Range(1, 2); j > 0; j-- {
				*next++
				l = append(l, *next)
			}
		}
		return l
	}
	r := wResult{}
	k := rng.Intn(100)
	switch {
	case k < 55:
		r.status = "success"
	case k < 75:
		r.status = "fail"
		r.backMs = rng.Intn(3)
		if rng.Chance(20) {
			r.backMs = 60000
		}
	case k < 87:
		r.status = "repeat"
	default:
		r.status = "keep"
	}
	if r.status == "success" || r.status == "keep" {
		r.head, r.after, r.tl = fresh(), fresh(), fresh()
	}
	if rng.Chance(15) {
		r.delayMs = 2
	}
	return r
}

// stepWorker performs the one op that is enabled for queue n's worker at its current position.
func stepWorker(w *world, n int, rng *Rng, next *int) bool {
	q := w.qs[n]
	switch {
	case q.at == "loop" || q.at == "afterCheck" || q.at == "afterHandler":
		w.opGo(n)
	case q.at == "beforeSelect":
		if rng.Chance(10) {
			w.opCancelDelay(n)
		}
		w.opSel(n, w.stopped && rng.Chance(75))
	case q.at == "tick":
		if rng.Chance(10) {
			w.opCancelDelay(n)
		}
		w.opTickGo(n)
	case strings.HasPrefix(q.at, "run:"):
		if rng.Chance(12) {
			var keep []int
			for i := 1; i <= *next; i++ {
				if rng.Chance(60) {
					keep = append(keep, i)
				}
			}
			w.opFilter(n, keep)
		} else {
			w.opRet(n, randResult(rng, next))
		}
	default:
		return false
	}
	return true
}

// waitStop runs the real WaitStopWithTimeout; "true" = it returned before its timeout.
func waitStop(w *world) string {
	expect := len(w.order) > 0
	for _, n := range w.order {
		if w.qs[n].at != "exit" {
			expect = false
		}
	}
	timeout := 300 * time.Millisecond
	if expect {
		timeout = 6 * time.Second
	}
	// TaskQueueSet.Iterate has a yield point keyed with the main queue's name (C03's): a wait that goes through
	// Iterate must not be parked by this world's subscription (the workers are not stepped any more)
	if q, ok := w.qs[1]; ok {
		sched.Unsubscribe(q.name)
	}
	t0 := time.Now()
	done := make(chan struct{})
	go func() {
		w.tqs.WaitStopWithTimeout(timeout)
		close(done)
	}()
	select {
	case <-done:
	case <-time.After(timeout + 10*time.Second):
		hangs.Add(1) // the wait does not even end at its timeout
		return "false"
	}
	if time.Since(t0) < timeout {
		return "true"
	}
	return "false"
}

func c17Random(c *Case, rng *Rng, stopAt int) {
	if tooManyHangs(c) {
		return
	}
	w := newWorld(c, fmt.Sprintf("c17-%d", c.Idx))
	defer w.close()
	next := 10
	nq := rng.Range(1, 3)
	// stopAt < 0: the stop request comes during the set-up, before set-up op number -stopAt-1 (-1: the set is
	// still empty — no queue has been created yet; queues created and started afterwards must be born stopped)
	pre := 0
	preStop := func() {
		if stopAt < 0 && pre == -stopAt-1 && !w.stopped {
			if len(w.order) == 0 {
				c.Note("stop-at:before-the-first-queue")
			} else {
				c.Note("stop-at:during-set-up")
			}
			w.opStop()
		}
		pre++
	}
	for i := 1; i <= nq; i++ {
		preStop()
		w.opNew(i, true)
		if rng.Chance(85) || (stopAt < 0 && i == 1) {
			preStop()
			w.opStart(i)
		}
	}
	deliver := func() {
		var ts []delivery
		for j := rng.Range(1, 3); j > 0; j-- {
			next++
			qn := rng.Range(1, nq)
			if rng.Chance(5) {
				qn = 9 // a queue that does not exist
			}
			ts = append(ts, delivery{qn, next})
		}
		w.opDeliver(ts, rng.Bool(), "deliver")
	}
	total := stopAt + rng.Range(4, 14)
	if stopAt < 0 {
		total = rng.Range(4, 14)
	}
	for i := 0; i < total && w.bad == ""; i++ {
		if i == stopAt {
			c.Note("stop-at:" + strings.SplitN(w.qs[w.order[0]].at, ":", 2)[0])
			w.opStop()
			continue
		}
		k := rng.Intn(100)
		switch {
		case k < 22:
			deliver()
		case k < 27:
			n := rng.Range(1, nq)
			w.opStart(n)
		case k < 30 && nq < 4:
			nq++
			w.opNew(nq, !rng.Chance(15))
			if rng.Chance(70) {
				w.opStart(nq)
			}
		default:
			n := w.order[rng.Intn(len(w.order))]
			if !stepWorker(w, n, rng, &next) {
				deliver()
			}
		}
	}
	if !w.stopped {
		w.opStop()
	}
	// every worker runs to its exit; the current handlers return
	for i := 0; i < 40 && w.bad == ""; i++ {
		progressed := false
		for _, n := range w.order {
			q := w.qs[n]
			if q.at != "exit" && q.at != "-" {
				if stepWorker(w, n, rng, &next) {
					progressed = true
				}
			}
		}
		if !progressed {
			break
		}
	}
	// every worker that was started has exited by now (at most 5 own steps and one handler return each)
	if w.bad == "" {
		var started []int
		for _, n := range w.order {
			if w.qs[n].at != "-" {
				started = append(started, n)
			}
		}
		c.Oracle(fmt.Sprintf("terminated q=%s ev=%s", joinInts(started), w.traceStr()))
	}
	// late events and late starts: nothing may run any more
	deliver()
	for _, n := range w.order {
		q := w.qs[n]
		if q.at == "-" && q.q.Handler != nil && rng.Chance(70) {
			w.opStart(n)
			for i := 0; i < 6 && q.at != "exit" && w.bad == ""; i++ {
				stepWorker(w, n, rng, &next)
			}
		} else if rng.Chance(30) {
			w.opStart(n)
		}
	}
	deliver()
	time.Sleep(3 * time.Millisecond)
	for _, n := range w.order {
		// a worker that has exited must not come back: nothing may arrive any more
		q := w.qs[n]
		select {
		case a := <-q.arrive:
			w.ev(fmt.Sprintf("p%d:%s", n, pointLetter[a.Name]))
			a.Release()
		case p := <-q.picked:
			w.ev(fmt.Sprintf("s%d:%s:%s", n, p.id, p.head))
		default:
		}
	}
	if w.bad != "" {
		c.Op("harness-timeout", "hang")
		return
	}
	w.oracleLog()
	{
		// the stop request reached the context of every queue of the set, whenever the queue was created
		// (before the request, after it, after a request that found the set empty)
		var heard []int
		for _, n := range w.order {
			if w.qs[n].q.VerifStopRequested() {
				heard = append(heard, n)
			}
		}
		// the model of WithContext / Stop / NewNamedQueue / Start (Model/SetContext) over the set-level operations
		// of this case, in the order they were performed
		var setOps []string
		for _, l := range c.ops {
			f := strings.Fields(l)
			switch {
			case len(f) == 1 && f[0] == "stop":
				setOps = append(setOps, "S")
			case len(f) >= 2 && f[0] == "new":
				setOps = append(setOps, "n"+f[1])
			case len(f) == 2 && f[0] == "start":
				setOps = append(setOps, "s"+f[1])
			}
		}
		c.Op("setctx ops="+joinStrs(setOps), fmt.Sprintf("requested=%v heard=%s", w.stopped, joinInts(heard)))
		c.Oracle(fmt.Sprintf("stopheard want=%s heard=%s", w.names(), joinInts(heard)))
	}
	if rng.Chance(20) {
		exitedAll := len(w.order) > 0
		for _, n := range w.order {
			if w.qs[n].at != "exit" {
				exitedAll = false
			}
		}
		ans := waitStop(w)
		c.Op("allStopped", ans)
		if ans == "true" {
			c.Oracle(fmt.Sprintf("stopped q=%s ev=%s", w.names(), w.traceStr()))
		}
		// WaitStopWithTimeout returns ahead of its timeout exactly when every queue worker has exited
		c.Oracle(fmt.Sprintf("waitreturns exited=%v early=%s", exitedAll, ans))
		c.Note("waitstop:" + ans)
	}
	c.Nontrivial = len(w.trace) >= 6
}

// c17SelectRace: the worker is parked before the `select` of the wait loop (sleeping in a back-off, or
// waiting on an empty queue that then received a task); the stop is requested; the ticker is left
// time to fire, so that both cases of the select are ready. Go picks one at random: the scenario is
// repeated on fresh queues until the ticker branch was taken after the stop (at most `tries` times).
func c17SelectRace(c *Case, backoff bool, tries int) {
	var last *Case
	for i := 0; i < tries; i++ {
		sub := &Case{Idx: c.Idx}
		w := newWorld(sub, fmt.Sprintf("c17r-%d-%d", c.Idx, i))
		w.opNew(1, true)
		w.opStart(1)
		if backoff {
			w.opDeliver([]delivery{{1, 5}}, false, "deliver")
			w.opGo(1) // afterCheck
			w.opGo(1) // handler
			w.opRet(1, wResult{status: "fail", backMs: 1})
			w.opGo(1) // loop (sleep = 1ms)
			w.opGo(1) // afterCheck
			w.opGo(1) // beforeSelect
		} else {
			w.opGo(1) // afterCheck
			w.opGo(1) // beforeSelect (empty queue)
			w.opDeliver([]delivery{{1, 5}}, true, "deliver")
		}
		w.opStop()
		br := w.opSel(1, true)
		for j := 0; j < 8 && w.qs[1].at != "exit" && w.bad == ""; j++ {
			q := w.qs[1]
			switch {
			case q.at == "tick":
				w.opTickGo(1)
			case strings.HasPrefix(q.at, "run:"):
				w.opRet(1, wResult{status: "success"})
			case q.at == "beforeSelect":
				w.opSel(1, false)
			default:
				w.opGo(1)
			}
		}
		if w.bad != "" {
			sub.Op("harness-timeout", "hang")
		} else {
			w.oracleLog()
		}
		w.close()
		last = sub
		if br == "tick" || w.bad != "" {
			break
		}
	}
	for i := range last.ops {
		c.Op(last.ops[i], last.impl[i])
	}
	c.Nontrivial = true
}

// detStep: the one enabled op of queue n's worker, handlers answer Success; false when the worker is gone.
func detStep(w *world, n int) bool {
	q := w.qs[n]
	switch {
	case q.at == "loop" || q.at == "afterCheck" || q.at == "afterHandler":
		w.opGo(n)
	case q.at == "beforeSelect":
		w.opSel(n, w.stopped)
	case q.at == "tick":
		w.opTickGo(n)
	case strings.HasPrefix(q.at, "run:"):
		w.opRet(n, wResult{status: "success"})
	default:
		return false
	}
	return true
}

// c17Interleave: two queues with one task each; `mask` says which of the 14 slots belong to queue 1
// (7 slots each: enough for a worker to take its task, run it, apply the result and go back to
// waiting); Stop() is injected before slot `stopPos` (14 = after the last slot). Exhaustive small scope.
func c17Interleave(c *Case, mask uint, stopPos int) {
	if tooManyHangs(c) {
		return
	}
	w := newWorld(c, fmt.Sprintf("c17x-%d", c.Idx))
	defer w.close()
	w.opNew(1, true)
	w.opNew(2, true)
	w.opStart(1)
	w.opStart(2)
	w.opDeliver([]delivery{{1, 11}, {2, 21}}, false, "deliver")
	for i := 0; i < 14 && w.bad == ""; i++ {
		if i == stopPos {
			w.opStop()
		}
		n := 2
		if mask&(1<<uint(i)) != 0 {
			n = 1
		}
		detStep(w, n)
	}
	if !w.stopped {
		w.opStop()
	}
	for i := 0; i < 12 && w.bad == ""; i++ {
		a := detStep(w, 1)
		b := detStep(w, 2)
		if !a && !b {
			break
		}
	}
	if w.bad != "" {
		c.Op("harness-timeout", "hang")
		return
	}
	c.Oracle(fmt.Sprintf("terminated q=1,2 ev=%s", w.traceStr()))
	w.oracleLog()
	c.Nontrivial = true
	c.Note("kind:interleave")
}

// c17WaitBusy: the wait of Shutdown() with every queue in turn the unfinished one. nq queues (created in
// a shuffled order, so that the main queue and the busy queue sit at different places of the set's map),
// all of them started; queue `busy` is in the middle of a handler (kind 0) or parked somewhere in its
// loop (kind 1) when Stop() is requested, every other worker runs to its exit. WaitStopWithTimeout is
// called while that one worker is still alive and is given `rounds` of its 100 ms check — each check
// visits the queues in a fresh map order — before the handler returns: it must not be back. Then the
// worker finishes and the wait must end ahead of its timeout. Only lower bounds on durations are asserted
// for the first half (load makes the checks rarer, never more frequent).
func c17WaitBusy(c *Case, rng *Rng, nq, busy, kind, rounds int) {
	if tooManyHangs(c) {
		return
	}
	w := newWorld(c, fmt.Sprintf("c17w-%d", c.Idx))
	defer w.close()
	order := make([]int, nq)
	for i := range order {
		order[i] = i + 1
	}
	rng.Shuffle(nq, func(i, j int) { order[i], order[j] = order[j], order[i] })
	for _, n := range order {
		w.opNew(n, true)
	}
	for _, n := range order {
		w.opStart(n)
	}
	next := 10
	var ts []delivery
	for n := 1; n <= nq; n++ {
		if n == busy || rng.Chance(50) {
			for j := rng.Range(1, 2); j > 0; j-- {
				next++
				ts = append(ts, delivery{n, next})
			}
		}
	}
	w.opDeliver(ts, rng.Bool(), "deliver")
	// the busy worker goes into its handler (kind 0) or a few steps into its loop (kind 1)
	if kind == 0 {
		for i := 0; i < 8 && !strings.HasPrefix(w.qs[busy].at, "run:") && w.bad == ""; i++ {
			detStep(w, busy)
		}
		if !strings.HasPrefix(w.qs[busy].at, "run:") && w.bad == "" {
			c.Inconcl = "the busy worker did not reach its handler in 8 steps"
			return
		}
	} else {
		for i := rng.Intn(3); i > 0 && w.bad == ""; i-- {
			if strings.HasPrefix(w.qs[busy].at, "run:") {
				break
			}
			detStep(w, busy)
		}
	}
	// the others do some of their work
	for i := rng.Intn(6); i > 0 && w.bad == ""; i-- {
		n := order[rng.Intn(nq)]
		if n != busy {
			detStep(w, n)
		}
	}
	w.opStop()
	for i := 0; i < 14 && w.bad == ""; i++ {
		progressed := false
		for _, n := range order {
			if n != busy && detStep(w, n) {
				progressed = true
			}
		}
		if !progressed {
			break
		}
	}
	if w.bad != "" {
		c.Op("harness-timeout", "hang")
		return
	}
	c.Note(fmt.Sprintf("waitbusy:queues=%d", nq))
	c.Note("waitbusy:busy-at=" + strings.SplitN(w.qs[busy].at, ":", 2)[0])
	if busy == 1 {
		c.Note("waitbusy:busy-is-main")
	}
	// TaskQueueSet.Iterate has a yield point keyed with the main queue's name (C03's): a wait that goes through
	// Iterate must not be parked by this world's subscription. Queue 1 needs none for the moment: its worker
	// has exited, sits in its handler, or is parked already (a parked goroutine stays parked).
	sched.Unsubscribe(w.qs[1].name)
	const timeout = 10 * time.Second
	done := make(chan struct{})
	t0 := time.Now()
	go func() {
		w.tqs.WaitStopWithTimeout(timeout)
		close(done)
	}()
	early := "false"
	select {
	case <-done:
		if time.Since(t0) < timeout {
			early = "true" // back although queue `busy` has a live worker
		}
	case <-time.After(time.Duration(rounds)*100*time.Millisecond + 60*time.Millisecond):
	}
	c.Op("allStopped", early)
	if early == "true" {
		c.Oracle(fmt.Sprintf("stopped q=%s ev=%s", w.names(), w.traceStr()))
	}
	c.Oracle(fmt.Sprintf("waitreturns exited=false early=%s", early))
	if busy == 1 {
		w.qs[1].arrive = sched.Subscribe(w.qs[1].name) // its worker is stepped again
	}
	// the current handler returns, the worker runs to its exit
	for i := 0; i < 10 && w.qs[busy].at != "exit" && w.bad == ""; i++ {
		if !detStep(w, busy) {
			break
		}
	}
	if w.bad != "" {
		c.Op("harness-timeout", "hang")
		return
	}
	if early == "true" {
		// the wait came back with a live worker: that is the finding; the second half needs a wait that is still going on
		w.oracleLog()
		c.Nontrivial = true
		c.Note("kind:wait-with-one-busy-queue")
		return
	}
	ans := "false"
	select {
	case <-done:
		if time.Since(t0) < timeout {
			ans = "true"
		}
	case <-time.After(timeout + 5*time.Second):
	}
	c.Op("allStopped", ans)
	if ans == "true" {
		c.Oracle(fmt.Sprintf("stopped q=%s ev=%s", w.names(), w.traceStr()))
	}
	c.Oracle(fmt.Sprintf("waitreturns exited=true early=%s", ans))
	c.Oracle(fmt.Sprintf("terminated q=%s ev=%s", w.names(), w.traceStr()))
	w.oracleLog()
	c.Nontrivial = true
	c.Note("kind:wait-with-one-busy-queue")
}

func runC17(r *Run) {
	r.Rule = "real TaskQueueSet + started TaskQueue workers + the real ManagerEventsHandler; every worker is stepped from one yield point to the next (loop, afterCtxCheck, beforeSelect, tick, handler entry, afterHandler, exit); a case is a random schedule over 1-4 queues (deliveries through the consumer incl. absent queues, handler results Success/Fail/Repeat/Keep with head/after/tail tasks and delays, Filter from inside the handler, repeated Start, queues created/started late) with TaskQueueSet.Stop() injected at position k (quick: k random in 0..30; thorough: every k in 0..40 for 150 schedule seeds, and exhaustively all 3432 interleavings of two workers (7 steps each) x 15 stop positions), then all workers run to exit, late deliveries and late starts follow; free-running cases (real goroutines, Stop() at a random moment while events keep arriving) check the weak form (at most one more start per queue, every worker exits, nothing after exit); whole-operator cases call the real ShellOperator.Shutdown() on an operator with bash hooks in several queues, one hook in the middle of its run and ticks still arriving, and check from the hook processes' markers and the queue statuses that after Shutdown() returned a queue starts at most the one task it had picked and nothing once it showed Status stop, and that every queue shows Status stop once the running hook returns; whole-operator cases with cluster events do the same on hooks with 1-3 schedule and kubernetes bindings each (every binding with no queue, `main`, or one of 1-4 names: queues named only by kubernetes bindings, only by schedule bindings, by both), the kubernetes bindings watching ConfigMaps of a fake cluster through the real informers and the real events consumer: a cluster change reaches every kubernetes binding before the shutdown, hook h1 hangs mid-run (2 of 3) with work queued behind it, changes in flight, Shutdown(), then more cluster changes (new objects, modifications, deletions) and ticks; checked: the stop request reached the context of every queue the configurations name, after Shutdown() returned a queue starts at most the one task it had picked and nothing once it showed stop (no bound on how late a hook process writes its marker), every queue shows stop, no object created after the shutdown appears in an execution; the real WaitStopWithTimeout is run with 2-4 (thorough 2-6) queues created in a shuffled order, each queue in turn the unfinished one (in the middle of a handler / parked in its loop) while the others have exited, over several rounds of its 100 ms check (a fresh map order each): it must not be back before that worker has exited and must end ahead of its timeout afterwards; whole-operator cases with a silent API server (one at a time) request the real Shutdown() while the main queue's handler is inside AddMonitor / StartMonitor of a later hook (a reactor on the fake dynamic client holds that LIST request), hook h1 hanging mid-run with runs of other hooks queued behind it and every other queue run dry: Shutdown() must come back, the stop request must have reached every queue, a queue starts at most the one task it had picked, every named queue shows stop once h1 returns (the API server still silent) and main once the API server answers; whenever a worker was inside its handler for a whole Shutdown() call, the call must not have returned ahead of WaitQueuesTimeout; the stop request is also placed inside the set-up of a controlled case (quick: 8 % of the cases; thorough: positions -4..-1 of every schedule seed): before the first NewNamedQueue — the set is empty —, between NewNamedQueue and Start, between two queues; queues created and started after it must be born stopped, and at the end of every controlled case the context of every queue of the set must have heard the request (stopheard) and the model of WithContext / Stop / NewNamedQueue is compared on the set-level operations of the case (setctx); in the whole-operator cases with cluster events 2 of 5 configurations use two queue names that are near-copies of each other (differ by case only — q2 / Q2, main / Main / MAIN —, or one a prefix of the other), both in use, in either order and by either kind of binding; a tick must lead to an execution through every schedule binding (and a cluster change through every kubernetes binding) before the shutdown; every queue the set holds after the run — whatever its name, whoever created it — is held to stopheard / terminated / weakstop, queues no binding names are reported to the model; in 1 of 5 of these cases the real Shutdown() is called during the start-up instead, between two queue-related steps of Start() (before bootstrapMainQueue — no queue exists —, before StartMain, before initAndStartHookQueues, before the events consumer starts), the start goes on, cluster changes and ticks follow; one case runs the real ScheduleManager with an every-second crontab and checks that no tick arrives once Stop() has taken effect; when the stop finds a worker before the select the ticker is given time to fire so that both select cases are ready. Non-trivial = the observed event trace has >= 6 events; distinct = distinct op-line sequences."
	if os.Getenv("VERIF_C17_ONLY") == "slowapi" { // debugging aid: this one family alone, as parallel as in a full run
		shell_operator.WaitQueuesTimeout = time.Second
		r.Cases(80000, r.N(12, 60), 1, func(c *Case, rng *Rng) { c17OperatorSlowAPI(r, c, rng) })
		return
	}
	r.One(0, func(c *Case, _ *Rng) {
		c.Desc = "corpus: stop while the worker sleeps in a back-off, ticker and Done both ready at the select"
		c17SelectRace(c, true, 40)
	})
	r.One(1, func(c *Case, _ *Rng) {
		c.Desc = "corpus: stop while the worker waits on a queue that just received a task, ticker and Done both ready"
		c17SelectRace(c, false, 40)
	})
	cronDone := make(chan struct{})
	go func() {
		defer close(cronDone)
		r.One(2, func(c *Case, _ *Rng) {
			c.Desc = "the real ScheduleManager: no tick after Stop()"
			c17Cron(c)
		})
	}()
	n := r.N(1200, 8000)
	r.Cases(10, n, 0, func(c *Case, rng *Rng) {
		stopAt := rng.Range(0, 30)
		if rng.Chance(8) {
			stopAt = -rng.Range(1, 4) // during the set-up: before the first queue exists, between NewNamedQueue and Start, ...
		}
		c17Random(c, rng, stopAt)
	})
	r.Cases(50000, r.N(300, 3000), 0, func(c *Case, rng *Rng) { c17Free(c, rng) })
	// the wait of Shutdown(): 2..maxq queues, each of them in turn the one that is not finished, in the middle
	// of a handler / parked in its loop; several rounds of the 100 ms check (fresh map order each)
	{
		type wb struct{ nq, busy, kind int }
		var combos []wb
		maxq, reps, rounds := 4, 1, 4
		if r.Thorough() {
			maxq, reps, rounds = 6, 3, 7
		}
		for rep := 0; rep < reps; rep++ {
			for nq := 2; nq <= maxq; nq++ {
				for b := 1; b <= nq; b++ {
					combos = append(combos, wb{nq, b, 0}, wb{nq, b, 1})
				}
			}
		}
		r.Cases(55000, len(combos), 0, func(c *Case, rng *Rng) {
			k := combos[c.Idx-55000]
			c.Desc = fmt.Sprintf("WaitStopWithTimeout with %d queues, queue %d unfinished (kind %d)", k.nq, k.busy, k.kind)
			c17WaitBusy(c, rng, k.nq, k.busy, k.kind, rounds)
		})
		r.Extra["wait_scope"] = fmt.Sprintf("WaitStopWithTimeout: 2..%d queues, each queue in turn the unfinished one (in its handler / parked in its loop), %d rounds of the check", maxq, rounds)
	}
	// the real ShellOperator.Shutdown(); its wait for the queues is shortened from 10 s to 1 s
	shell_operator.WaitQueuesTimeout = time.Second
	r.Cases(60000, r.N(24, 160), 8, func(c *Case, rng *Rng) { c17Operator(r, c, rng) })
	// the same with cluster events: hooks with kubernetes bindings (queues of their own) on a fake cluster, real informers
	r.Cases(70000, r.N(32, 200), 8, func(c *Case, rng *Rng) { c17OperatorKube(r, c, rng) })
	// shutdown requested while the main queue's handler waits for a silent API server (AddMonitor / StartMonitor)
	// (one at a time: a cache sync in progress holds the process-wide DefaultFactoryStore lock)
	r.Cases(80000, r.N(12, 60), 1, func(c *Case, rng *Rng) { c17OperatorSlowAPI(r, c, rng) })
	<-cronDone
	if r.Thorough() {
		// every stop position for a set of schedule seeds
		const seeds, positions, early = 150, 45, 4 // positions -4..-1 are set-up positions (-1: before the first queue)
		r.Cases(100000, seeds*positions, 0, func(c *Case, _ *Rng) {
			k := c.Idx - 100000
			rng := NewRng(r.Seed*7919 + uint64(k/positions)) // same schedule, different stop position
			c17Random(c, rng, k%positions-early)
		})
		// exhaustive small scope: every interleaving of two workers (7 steps each) x every stop position
		var masks []uint
		for m := uint(0); m < 1<<14; m++ {
			bits := 0
			for b := m; b != 0; b &= b - 1 {
				bits++
			}
			if bits == 7 {
				masks = append(masks, m)
			}
		}
		r.Cases(1000000, len(masks)*15, 0, func(c *Case, _ *Rng) {
			k := c.Idx - 1000000
			c17Interleave(c, masks[k/15], k%15)
		})
		r.Exhaust = true
		r.Extra["exhaustive_scope"] = fmt.Sprintf("all %d interleavings of two queue workers (7 steps each, one task each) x 15 stop positions", len(masks))
		r.Extra["stop_positions"] = fmt.Sprintf("every stop position -%d..%d (negative: during the set-up, -1 = before the first queue exists) for %d schedule seeds", early, positions-early-1, seeds)
	}
}
