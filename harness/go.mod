module verifharness

go 1.23.8

require (
	github.com/deckhouse/deckhouse/pkg/log v0.0.0-20241205040953-7b376bae249c
	github.com/flant/shell-operator v0.0.0
)

require (
	github.com/DataDog/gostackparse v0.7.0 // indirect
	github.com/beorn7/perks v1.0.1 // indirect
	github.com/cespare/xxhash/v2 v2.3.0 // indirect
	github.com/davecgh/go-spew v1.1.1 // indirect
	github.com/gofrs/uuid/v5 v5.3.2 // indirect
	github.com/gojuno/minimock/v3 v3.4.5 // indirect
	github.com/hashicorp/errwrap v1.1.0 // indirect
	github.com/hashicorp/go-multierror v1.1.1 // indirect
	github.com/munnerz/goautoneg v0.0.0-20191010083416-a7dc8b61c822 // indirect
	github.com/pmezard/go-difflib v1.0.0 // indirect
	github.com/prometheus/client_golang v1.20.5 // indirect
	github.com/prometheus/client_model v0.6.1 // indirect
	github.com/prometheus/common v0.55.0 // indirect
	github.com/prometheus/procfs v0.15.1 // indirect
	golang.org/x/sys v0.31.0 // indirect
	google.golang.org/protobuf v1.36.5 // indirect
	gopkg.in/yaml.v3 v3.0.1 // indirect
)

replace github.com/flant/shell-operator => /repo

// same replacement as /repo/go.mod (replace directives are not inherited)
replace github.com/go-openapi/validate => github.com/flant/go-openapi-validate v0.19.12-flant.0
