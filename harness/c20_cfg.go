package main

// C20 — catalogue of hook configurations a generated hook prints on `--config`.
//
// The verdict (valid / invalid) of every entry is FIXED here; it is what the documented hook
// configuration format says (HOOKS.md: crontab must be a cron expression, unknown fields are rejected,
// selectors must be well-formed, includeSnapshotsFrom / group must name exactly one kubernetes binding,
// configVersion is absent (legacy v0 format) or "v1", ...), and every entry was calibrated once against
// the real config.LoadAndValidate of the UNCHANGED tree, in both syntaxes (see notes/C20.md, fourth
// wave). The code under test is NOT asked for the verdict at run time: if it accepts an entry of the
// invalid list (or rejects one of the valid list) Init's answer contradicts the property and the
// `oracle load` line of that case turns false — with the tree and the configuration as the failing input.
// Every non-raw entry is printed by hooks in two syntaxes: the JSON text below and its YAML rendering
// (sigs.k8s.io/yaml.JSONToYAML, the library the loader itself uses).
// Candidates the real loader ACCEPTS on the unchanged tree (so they are not in the invalid list; C10's
// business, recorded in the notes): unparsable jqFilter, v0 onKubernetesEvent without kind / with a
// numeric kind / with an unknown selector operator, v0 schedule name given as a number, a YAML document
// with a duplicated key, a second YAML document, trailing text after a JSON object.

import (
	"encoding/json"
	"fmt"
	"strings"

	"sigs.k8s.io/yaml"

	hookcfg "github.com/flant/shell-operator/pkg/hook/config"
)

type c20Cfg struct{ class, doc string }

// c20Out is one concrete output of a hook: class is "<catalogue class>/<json|yaml|raw>"
type c20Out struct{ class, text string }

// invalid configurations, structured (mostly-valid documents with ONE defect each)
var c20BadCfgs = []c20Cfg{
	// v1
	{"v1-crontab-words", `{"configVersion":"v1","schedule":[{"crontab":"every now and then"}]}`},
	{"v1-crontab-3-fields", `{"configVersion":"v1","schedule":[{"name":"s","crontab":"* * *"}]}`},
	{"v1-crontab-out-of-range", `{"configVersion":"v1","schedule":[{"crontab":"61 * * * *"}]}`},
	{"v1-crontab-second-of-two", `{"configVersion":"v1","schedule":[{"name":"bnd-a","crontab":"*/5 * * * *"},{"name":"bnd-b","crontab":"nope"}]}`},
	{"v1-crontab-empty", `{"configVersion":"v1","schedule":[{"crontab":""}]}`},
	{"v1-schedule-no-crontab", `{"configVersion":"v1","schedule":[{"name":"s"}]}`},
	{"v1-schedule-empty-list", `{"configVersion":"v1","schedule":[]}`},
	{"v1-schedule-unknown-field", `{"configVersion":"v1","schedule":[{"crontab":"* * * * *","every":"5m"}]}`},
	{"v1-unknown-top-field", `{"configVersion":"v1","onStartDown":1}`},
	{"v1-unknown-top-field-2", `{"configVersion":"v1","onStartup":1,"onKubernetesEvent":[{"kind":"Pod"}]}`},
	{"v1-onstartup-string", `{"configVersion":"v1","onStartup":"first"}`},
	{"v1-onstartup-list", `{"configVersion":"v1","onStartup":[1]}`},
	{"v1-onstartup-float", `{"configVersion":"v1","onStartup":1.5}`},
	{"version-v9", `{"configVersion":"v9","onStartup":1}`},
	{"version-v2", `{"configVersion":"v2","onStartup":1}`},
	{"version-number", `{"configVersion":1,"onStartup":1}`},
	{"version-empty", `{"configVersion":"","onStartup":1}`},
	{"version-null", `{"configVersion":null,"onStartup":1}`},
	{"version-V1-upper", `{"configVersion":"V1","onStartup":1}`},
	{"v1-only-version", `{"configVersion":"v1"}`},
	{"v1-kube-no-kind", `{"configVersion":"v1","kubernetes":[{"name":"x"}]}`},
	{"v1-kube-unknown-field", `{"configVersion":"v1","kubernetes":[{"kind":"Pod","unknownField":1}]}`},
	{"v1-kube-bad-apiversion", `{"configVersion":"v1","kubernetes":[{"apiVersion":"a/b/c","kind":"Pod"}]}`},
	{"v1-kube-bad-event", `{"configVersion":"v1","kubernetes":[{"kind":"Pod","executeHookOnEvent":["Bogus"]}]}`},
	{"v1-kube-labelselector-op", `{"configVersion":"v1","kubernetes":[{"kind":"Pod","labelSelector":{"matchExpressions":[{"key":"lbl","operator":"Bad"}]}}]}`},
	{"v1-kube-labelselector-in-novalues", `{"configVersion":"v1","kubernetes":[{"kind":"Pod","labelSelector":{"matchExpressions":[{"key":"lbl","operator":"In"}]}}]}`},
	{"v1-kube-labelselector-badkey", `{"configVersion":"v1","kubernetes":[{"kind":"Pod","labelSelector":{"matchLabels":{"a b/c d":"x"}}}]}`},
	{"v1-kube-labelselector-empty", `{"configVersion":"v1","kubernetes":[{"kind":"Pod","labelSelector":{}}]}`},
	{"v1-kube-fieldselector-op", `{"configVersion":"v1","kubernetes":[{"kind":"Pod","fieldSelector":{"matchExpressions":[{"field":"status.phase","operator":"Greater","value":"1"}]}}]}`},
	{"v1-kube-fieldselector-and-names", `{"configVersion":"v1","kubernetes":[{"kind":"Pod","nameSelector":{"matchNames":["bnd-a"]},"fieldSelector":{"matchExpressions":[{"field":"metadata.name","operator":"Equals","value":"obj"}]}}]}`},
	{"v1-kube-nameselector-empty", `{"configVersion":"v1","kubernetes":[{"kind":"Pod","nameSelector":{}}]}`},
	{"v1-kube-include-missing", `{"configVersion":"v1","kubernetes":[{"name":"bnd-a","kind":"Pod","includeSnapshotsFrom":["zzz"]}]}`},
	{"v1-kube-include-ambiguous", `{"configVersion":"v1","kubernetes":[{"name":"bnd-a","kind":"Pod"},{"name":"bnd-a","kind":"Secret"},{"name":"bnd-b","kind":"ConfigMap","includeSnapshotsFrom":["bnd-a"]}]}`},
	{"v1-schedule-include-missing", `{"configVersion":"v1","schedule":[{"crontab":"* * * * *","includeSnapshotsFrom":["pods"]}]}`},
	{"v1-schedule-include-ambiguous", `{"configVersion":"v1","kubernetes":[{"name":"pods","kind":"Pod"},{"name":"pods","kind":"Pod","namespace":{"nameSelector":{"matchNames":["x"]}}}],"schedule":[{"crontab":"* * * * *","includeSnapshotsFrom":["pods"]}]}`},
	{"v1-group-ambiguous", `{"configVersion":"v1","kubernetes":[{"name":"bnd-a","kind":"Pod","group":"g"},{"name":"bnd-a","kind":"Secret","group":"g"}]}`},
	{"v1-settings-interval", `{"configVersion":"v1","onStartup":1,"settings":{"executionMinInterval":"soon"}}`},
	{"v1-settings-burst-string", `{"configVersion":"v1","onStartup":1,"settings":{"executionMinInterval":"1s","executionBurst":"many"}}`},
	{"v1-settings-unknown", `{"configVersion":"v1","onStartup":1,"settings":{"speed":"fast"}}`},
	{"v1-queue-number", `{"configVersion":"v1","schedule":[{"crontab":"* * * * *","queue":5}]}`},
	{"v1-allowfailure-string", `{"configVersion":"v1","schedule":[{"crontab":"* * * * *","allowFailure":"yes"}]}`},
	{"v1-validating-no-name", `{"configVersion":"v1","kubernetesValidating":[{"rules":[{"apiGroups":["*"],"apiVersions":["*"],"operations":["*"],"resources":["pods"]}]}]}`},
	{"v1-validating-include-missing", `{"configVersion":"v1","kubernetesValidating":[{"name":"v.example.com","includeSnapshotsFrom":["nothing"],"rules":[{"apiGroups":["*"],"apiVersions":["*"],"operations":["*"],"resources":["pods"]}]}]}`},
	{"v1-validating-failurepolicy", `{"configVersion":"v1","kubernetesValidating":[{"name":"v.example.com","failurePolicy":"Maybe","rules":[{"apiGroups":["*"],"apiVersions":["*"],"operations":["*"],"resources":["pods"]}]}]}`},
	{"v1-validating-labelselector", `{"configVersion":"v1","kubernetesValidating":[{"name":"v.example.com","labelSelector":{"matchExpressions":[{"key":"lbl","operator":"In"}]},"rules":[{"apiGroups":["*"],"apiVersions":["*"],"operations":["*"],"resources":["pods"]}]}]}`},
	{"v1-mutating-include-missing", `{"configVersion":"v1","kubernetesMutating":[{"name":"m.example.com","includeSnapshotsFrom":["nothing"],"rules":[{"apiGroups":["*"],"apiVersions":["*"],"operations":["*"],"resources":["pods"]}]}]}`},
	{"v1-conversion-no-crdname", `{"configVersion":"v1","kubernetesCustomResourceConversion":[{"name":"c","conversions":[{"fromVersion":"v1","toVersion":"v2"}]}]}`},
	{"v1-conversion-include-missing", `{"configVersion":"v1","kubernetesCustomResourceConversion":[{"name":"c","crdName":"x.example.com","includeSnapshotsFrom":["nothing"],"conversions":[{"fromVersion":"v1","toVersion":"v2"}]}]}`},
	{"v1-kubernetes-not-a-list", `{"configVersion":"v1","kubernetes":{"kind":"Pod"}}`},
	{"v1-kube-mode-bad", `{"configVersion":"v1","kubernetes":[{"kind":"Pod","mode":"Everything"}]}`},
	{"v1-kube-sync-bad", `{"configVersion":"v1","kubernetes":[{"kind":"Pod","executeHookOnSynchronization":"maybe"}]}`},
	// v0 (no configVersion key)
	{"v0-crontab-words", `{"schedule":[{"crontab":"every now and then"}]}`},
	{"v0-crontab-3-fields", `{"onStartup":1,"schedule":[{"name":"s","crontab":"* * *"}]}`},
	{"v0-crontab-out-of-range", `{"schedule":[{"crontab":"61 * * * *","allowFailure":true}]}`},
	{"v0-crontab-second-of-two", `{"schedule":[{"name":"bnd-a","crontab":"*/5 * * * *"},{"name":"bnd-b","crontab":"nope"}]}`},
	{"v0-crontab-empty", `{"schedule":[{"name":"s","crontab":""}]}`},
	{"v0-schedule-no-crontab", `{"schedule":[{"name":"s"}]}`},
	{"v0-schedule-not-objects", `{"schedule":["* * * * *"]}`},
	{"v0-schedule-not-a-list", `{"schedule":{"crontab":"* * * * *"}}`},
	{"v0-unknown-top-field", `{"onStartDown":1}`},
	{"v0-v1-key-kubernetes", `{"onStartup":1,"kubernetes":[{"kind":"Pod"}]}`},
	{"v0-v1-key-settings", `{"onStartup":1,"settings":{"executionMinInterval":"1s"}}`},
	{"v0-onstartup-string", `{"onStartup":"first"}`},
	{"v0-onstartup-float", `{"onStartup":1.5}`},
	{"v0-onstartup-bool", `{"onStartup":true}`},
	{"v0-empty-object", `{}`},
	{"v0-kube-bad-event", `{"onKubernetesEvent":[{"kind":"pod","event":["bogus"]}]}`},
	{"v0-kube-event-not-list", `{"onKubernetesEvent":[{"kind":"pod","event":"add"}]}`},
	{"v0-kube-not-objects", `{"onKubernetesEvent":["pod"]}`},
	{"v0-kube-nsselector-string", `{"onKubernetesEvent":[{"kind":"pod","namespaceSelector":"all"}]}`},
	{"v0-schedule-allowfailure-string", `{"schedule":[{"crontab":"* * * * *","allowFailure":"yes"}]}`},
}

// invalid outputs that are not (single, well-formed) documents
var c20BadRaw = []c20Cfg{
	{"raw-not-a-config", "not a config {"},
	{"raw-empty", ""},
	{"raw-whitespace", "   \n"},
	{"raw-list", "- onStartup\n- 1\n"},
	{"raw-scalar", "42"},
	{"raw-null", "null"},
	{"raw-truncated-json", `{"configVersion":"v1","onStartup":1`},
	{"raw-bad-indent-yaml", "configVersion: v1\nschedule:\n- crontab: '* * * * *'\n   name: x\n"},
	{"raw-tab-yaml", "configVersion: v1\n\tonStartup: 1\n"},
	{"raw-log-line-before", "loading...\nconfigVersion: v1\nonStartup: 1\n"},
}

// valid configurations (both formats, every binding type that needs no cluster at Init)
var c20GoodCfgs = []c20Cfg{
	{"v1-onstartup", `{"configVersion":"v1","onStartup":1}`},
	{"v1-settings", `{"configVersion":"v1","onStartup":20,"settings":{"executionMinInterval":"1s","executionBurst":2}}`},
	{"v1-schedule", `{"configVersion":"v1","schedule":[{"name":"every-5","crontab":"*/5 * * * *","allowFailure":true,"queue":"q1"}]}`},
	{"v1-schedule-6-fields", `{"configVersion":"v1","schedule":[{"crontab":"0 */5 * * * *"},{"name":"bnd-b","crontab":"30 3 * * 1"}]}`},
	{"v1-kubernetes", `{"configVersion":"v1","kubernetes":[{"name":"pods","apiVersion":"v1","kind":"Pod","executeHookOnEvent":["Added","Deleted"],"labelSelector":{"matchLabels":{"app":"x"}},"namespace":{"nameSelector":{"matchNames":["default"]}},"jqFilter":".metadata.labels"}]}`},
	{"v1-kube-include", `{"configVersion":"v1","kubernetes":[{"name":"bnd-a","kind":"Pod"},{"name":"bnd-b","kind":"Secret","includeSnapshotsFrom":["bnd-a"]}],"schedule":[{"crontab":"* * * * *","includeSnapshotsFrom":["bnd-a","bnd-b"]}]}`},
	{"v1-kube-group", `{"configVersion":"v1","onStartup":3,"kubernetes":[{"name":"bnd-a","kind":"Pod","group":"g"},{"name":"bnd-b","kind":"Secret","group":"g"}],"schedule":[{"crontab":"* * * * *","group":"g"}]}`},
	{"v1-kube-fieldselector", `{"configVersion":"v1","kubernetes":[{"kind":"Pod","fieldSelector":{"matchExpressions":[{"field":"status.phase","operator":"Equals","value":"Running"}]}}]}`},
	{"v1-validating", `{"configVersion":"v1","kubernetesValidating":[{"name":"v.example.com","rules":[{"apiGroups":["*"],"apiVersions":["*"],"operations":["*"],"resources":["pods"],"scope":"*"}]}]}`},
	{"v0-onstartup", `{"onStartup":5}`},
	{"v0-schedule", `{"schedule":[{"name":"s","crontab":"*/5 * * * *","allowFailure":true}]}`},
	{"v0-schedule-two", `{"onStartup":2,"schedule":[{"crontab":"0 3 * * *"},{"name":"bnd-b","crontab":"* * * * * *"}]}`},
	{"v0-kube", `{"onKubernetesEvent":[{"name":"pods","kind":"pod","event":["add","update","delete"],"selector":{"matchLabels":{"lbl":"val"}},"namespaceSelector":{"matchNames":["default"]},"jqFilter":".metadata"}]}`},
	{"v0-kube-any", `{"onStartup":1,"onKubernetesEvent":[{"kind":"configmap","objectName":"cm","namespaceSelector":{"any":true},"allowFailure":true}]}`},
}

func c20Expand(cfgs []c20Cfg, raw bool) []c20Out {
	var out []c20Out
	for _, c := range cfgs {
		if raw {
			out = append(out, c20Out{c.class + "/raw", c.doc})
			continue
		}
		out = append(out, c20Out{c.class + "/json", c.doc})
		if y, err := yaml.JSONToYAML([]byte(c.doc)); err == nil {
			out = append(out, c20Out{c.class + "/yaml", strings.TrimRight(string(y), "\n")})
		}
	}
	return out
}

// c20LoaderVerdict asks the real LoadAndValidate (diagnostics for the evidence file only; it also warms
// the package-level schema cache of pkg/hook/config before the parallel cases start).
func c20LoaderVerdict(text string) (ok bool) {
	defer func() {
		if p := recover(); p != nil {
			ok = false
		}
	}()
	return (&hookcfg.HookConfig{}).LoadAndValidate([]byte(text)) == nil
}

// c20Disagreements lists the catalogue entries on which the loader of the tree under test does not
// give the fixed verdict (empty on the unchanged tree).
func c20Disagreements(outs []c20Out, want bool) []string {
	var res []string
	for _, o := range outs {
		if c20LoaderVerdict(o.text) != want {
			res = append(res, fmt.Sprintf("%s: loader says valid=%v", o.class, !want))
		}
	}
	return res
}

func c20CfgFamily(class string) string {
	class = strings.TrimPrefix(class, "gen-")
	switch {
	case strings.HasPrefix(class, "v0-"):
		return "v0"
	case strings.HasPrefix(class, "raw-"):
		return "raw"
	case strings.HasPrefix(class, "version-"):
		return "version"
	}
	return "v1"
}

// crontab pools, calibrated against the real ParseCrontab of the unchanged tree
var c20GoodCrontabs = []string{"* * * * *", "*/5 * * * *", "0 3 * * 1", "* * * * * *", "30 2 1 1 *", "0 0 * * 0", "@hourly",
	"@every 5m", "1,2,3 * * * *", "0-30/5 * * * *", "0 12 * * MON-FRI", "15 10 ? * *", "0 0 1 JAN *", "*/1 * * * * *"}
var c20BadCrontabs = []string{"every now and then", "* * *", "61 * * * *", "", "nope", "* * * * * * * *", "*/0 * * * *",
	"x y z w v", "5-1 * * * *", "* * * * 8", "* 25 * * *", "* * 32 * *", "* * * 13 *", "@sometimes", "*/x * * * *",
	"* * * * MOONDAY", "-1 * * * *", "0 3 * *", "@every soon"}

// c20GenSchedules generates a hook configuration whose only possible defect is an invalid crontab in
// some `schedule` entries: legacy v0 format (no configVersion) or v1, JSON or YAML, 1-4 entries,
// optionally next to an onStartup binding. invalid => at least one entry gets a crontab of the bad pool.
func c20GenSchedules(rng *Rng, invalid bool) (kind, class, text string) {
	v1 := rng.Bool()
	n := rng.Range(1, 4)
	bad := make([]bool, n)
	if invalid {
		bad[rng.Intn(n)] = true
		for i := range bad {
			if rng.Chance(20) {
				bad[i] = true
			}
		}
	}
	var scheds []map[string]any
	var shown []string
	for i := 0; i < n; i++ {
		ct := PickOne(rng, c20GoodCrontabs)
		if bad[i] {
			ct = PickOne(rng, c20BadCrontabs)
		}
		s := map[string]any{"crontab": ct}
		if rng.Bool() {
			s["name"] = fmt.Sprintf("sched-%d", i)
		}
		if rng.Chance(30) {
			s["allowFailure"] = rng.Bool()
		}
		if v1 && rng.Chance(25) {
			s["queue"] = "q-sched"
		}
		scheds = append(scheds, s)
		shown = append(shown, strings.ReplaceAll(ct, " ", "_"))
	}
	doc := map[string]any{"schedule": scheds}
	ver := "v0"
	if v1 {
		doc["configVersion"] = "v1"
		ver = "v1"
	}
	if rng.Chance(40) {
		doc["onStartup"] = rng.Range(1, 30)
	}
	j, _ := json.Marshal(doc)
	text, syn := string(j), "json"
	if rng.Bool() {
		if y, err := yaml.JSONToYAML(j); err == nil {
			text, syn = strings.TrimRight(string(y), "\n"), "yaml"
		}
	}
	kind = "ok"
	if invalid {
		kind = "invalid"
	}
	return kind, fmt.Sprintf("gen-%s-schedule[%s]/%s", ver, strings.Join(shown, "|"), syn), text
}
