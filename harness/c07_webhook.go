package main

// C07, sixth wave: hook runs that are NOT queue tasks. An admission (kubernetesValidating /
// kubernetesMutating) or conversion (kubernetesCustomResourceConversion) request is answered by the
// operator out of band: the event closure of initValidatingWebhookManager / conversionEventHandler
// builds a HookRun task that lives in no queue and hands it to taskHandler → taskHandleHookRun. The
// property lets tasks leave a queue only by being merged into the executed HEAD of that queue: such a
// run must receive exactly its own binding context and every task of every queue keeps its place,
// whatever the queues hold at that moment (a running / retry-waiting head of the same hook followed
// by tasks of the same hook included).
//
// The requests go through the real routers (chi, httptest) of the real admission / conversion
// WebhookHandler of the operator of the c04 world, while the head task of a queue is blocked at its
// gate (state "running") or sleeps in its back-off (state "backoff").

import (
	"bytes"
	"fmt"
	"net/http"
	"net/http/httptest"
	"os"
	"path/filepath"
	"strings"
	"sync/atomic"
	"time"

	"github.com/flant/shell-operator/pkg/metric"
	"github.com/flant/shell-operator/pkg/metric_storage/operation"
	"github.com/flant/shell-operator/pkg/utils/string_helper"
)

// c07FaultStorage is the operator's storage of hook metrics (public field HookMetricStorage, an
// interface) with a fault that can be armed: the next SendBatch — taskHandleHookRun calls it after
// every hook process that ended well, i.e. after the combination and the hook run — panics, once.
// The wrapped queue handler of the c04 world (recoverPanics) reports the escaping panic as a failed
// run: the task is retried, and every attempt is judged by `oracle merged`.
type c07FaultStorage struct {
	metric.Storage
	armed atomic.Bool
}

func (s *c07FaultStorage) SendBatch(ops []operation.MetricOperation, labels map[string]string) error {
	if s.armed.CompareAndSwap(true, false) {
		panic("c07: the storage of hook metrics is broken (once)")
	}
	return s.Storage.SendBatch(ops, labels)
}

// c07InstallFault puts the fault storage into the operator of the world (while no hook run is past its gate).
func c07InstallFault(w *c04World) *c07FaultStorage {
	fs := &c07FaultStorage{Storage: w.op.HookMetricStorage}
	w.op.HookMetricStorage = fs
	w.recoverPanics = true
	return fs
}

// c07Wh is one webhook binding of a generated hook.
type c07Wh struct {
	Kind  string // conversion | validating | mutating
	Name  string
	Crd   string
	Group int
}

func (x c07Wh) yaml() string {
	var b strings.Builder
	switch x.Kind {
	case "conversion":
		fmt.Fprintf(&b, "kubernetesCustomResourceConversion:\n- name: %s\n  crdName: %s\n", x.Name, x.Crd)
		if x.Group != 0 {
			fmt.Fprintf(&b, "  group: %s\n", c04GroupName(x.Group))
		}
		b.WriteString("  conversions:\n  - fromVersion: alpha\n    toVersion: beta\n")
	case "validating":
		fmt.Fprintf(&b, "kubernetesValidating:\n- name: %s\n", x.Name)
		if x.Group != 0 {
			fmt.Fprintf(&b, "  group: %s\n", c04GroupName(x.Group))
		}
		b.WriteString("  rules:\n  - operations: [\"CREATE\"]\n    apiGroups: [\"\"]\n    apiVersions: [\"v1\"]\n    resources: [\"pods\"]\n")
	case "mutating":
		fmt.Fprintf(&b, "kubernetesMutating:\n- name: %s\n", x.Name)
		if x.Group != 0 {
			fmt.Fprintf(&b, "  group: %s\n", c04GroupName(x.Group))
		}
		b.WriteString("  rules:\n  - operations: [\"CREATE\"]\n    apiGroups: [\"\"]\n    apiVersions: [\"v1\"]\n    resources: [\"pods\"]\n")
	}
	return b.String()
}

// c07GenWebhooks gives hook number num (1-based) 1..2 webhook bindings of different kinds; 30 % of
// them carry a `group:` (g1: the group the schedule / kubernetes bindings of the layouts use).
func c07GenWebhooks(rng *Rng, num int) []c07Wh {
	kinds := []string{"conversion", "validating", "mutating"}
	k0 := rng.Intn(3)
	n := 1 + rng.Intn(2)
	var res []c07Wh
	for i := 0; i < n; i++ {
		x := c07Wh{Kind: kinds[(k0+i)%3]}
		switch x.Kind {
		case "conversion":
			x.Name = fmt.Sprintf("conv%d", num)
			x.Crd = fmt.Sprintf("things%d.c07.example.com", num)
		case "validating":
			x.Name = fmt.Sprintf("v%d.c07.example.com", num)
		case "mutating":
			x.Name = fmt.Sprintf("m%d.c07.example.com", num)
		}
		if rng.Chance(30) {
			x.Group = 1
		}
		res = append(res, x)
	}
	return res
}

// c07WhWorld drives the webhook routes of the operator of a c04 world.
type c07WhWorld struct {
	w      *c04World // set at the first execution (c04Execute creates the world)
	byHook map[int][]c07Wh
	inited bool
	conv   http.Handler
	adm    http.Handler
	n      int
	fired  int
}

func (s *c07WhWorld) init() bool {
	if s.inited {
		return true
	}
	w := s.w
	needAdm, needConv := false, false
	for _, l := range s.byHook {
		for _, x := range l {
			if x.Kind == "conversion" {
				needConv = true
			} else {
				needAdm = true
			}
		}
	}
	if needConv {
		// the body of initConversionWebhookManager without certificates and listener
		hd := w.op.VerifC07InitConversion()
		if hd == nil {
			w.c.Op("webhook-init conversion", "no-conversion-hook-loaded")
			return false
		}
		s.conv = hd.Router
	}
	if needAdm {
		// the real initValidatingWebhookManager (the admission event closure is installed by it)
		ca := filepath.Join(w.dir, "ca.crt")
		_ = os.WriteFile(ca, []byte("not a certificate: only read into CABundle\n"), 0o644)
		hd, err := w.op.VerifC18InitAdmission(ca, filepath.Join(w.dir, "tmp"))
		if err != nil {
			w.c.Op("webhook-init admission", "error "+firstLine(err.Error()))
			return false
		}
		if hd == nil {
			w.c.Op("webhook-init admission", "no-admission-hook-loaded")
			return false
		}
		s.adm = hd.Router
	}
	s.inited = true
	return true
}

// queues: every queue of the set as <n>:<ids>.
func (s *c07WhWorld) queues() string {
	var parts []string
	for _, qn := range []int{0, 1} {
		q := s.w.op.TaskQueues.GetByName(c04QueueName(qn))
		if q == nil {
			continue
		}
		parts = append(parts, fmt.Sprintf("%d:%s", qn, s.w.snapIds(s.w.snapQueue(q))))
	}
	if len(parts) == 0 {
		return "-"
	}
	return strings.Join(parts, ";")
}

// send answers one request through the real router; returns the HTTP status.
func (s *c07WhWorld) send(x c07Wh, uid string) int {
	var req *http.Request
	var h http.Handler
	if x.Kind == "conversion" {
		body := fmt.Sprintf(`{"apiVersion":"apiextensions.k8s.io/v1","kind":"ConversionReview","request":{"uid":%q,"desiredAPIVersion":"beta","objects":[{"apiVersion":"alpha","kind":"Thing","metadata":{"name":"t1"}}]}}`, uid)
		req = httptest.NewRequest(http.MethodPost, "/"+x.Crd, bytes.NewReader([]byte(body)))
		h = s.conv
	} else {
		body := fmt.Sprintf(`{"apiVersion":"admission.k8s.io/v1","kind":"AdmissionReview","request":{"uid":%q,"kind":{"group":"","version":"v1","kind":"Pod"},"resource":{"group":"","version":"v1","resource":"pods"},"name":"p","namespace":"default","operation":"CREATE","object":{"apiVersion":"v1","kind":"Pod","metadata":{"name":"p"}}}}`, uid)
		req = httptest.NewRequest(http.MethodPost, "/x", bytes.NewReader([]byte(body)))
		req.URL.Path = "/hooks/" + string_helper.SafeURLString(x.Name)
		h = s.adm
	}
	req.Header.Set("Content-Type", "application/json")
	rec := httptest.NewRecorder()
	h.ServeHTTP(rec, req)
	return rec.Code
}

// fire sends one request for webhook binding x of hook index hi and states the property for the hook
// run it causes (oracle webhook). state: what the head of the driven queue is doing (running |
// backoff). Returns false when the case cannot go on.
func (s *c07WhWorld) fire(hi int, x c07Wh, state string) bool {
	w := s.w
	c := w.c
	if !s.init() {
		return false
	}
	h := w.hooks[hi]
	w.imu.Lock()
	own := fmt.Sprintf("%d:9:%d", w.binds.Id(x.Name), x.Group)
	w.imu.Unlock()
	pre := s.queues()
	sameHead := false
	if mq := w.op.TaskQueues.GetMain(); mq != nil {
		if ss := w.snapQueue(mq); len(ss) > 0 {
			if hh, ok := w.hookByName(ss[0].hook); ok && hh.Num == h.Num {
				sameHead = true
			}
		}
	}
	s.n++
	uid := fmt.Sprintf("c07-%d-%d", c.Idx, s.n)
	done := make(chan int, 1)
	go func() {
		defer func() {
			if p := recover(); p != nil {
				done <- -1
			}
		}()
		done <- s.send(x, uid)
	}()
	line := fmt.Sprintf("webhook hook=%d kind=%s own=%s", h.Num, x.Kind, own)
	// A request sent during a back-off: once the back-off can have ended the worker of the queue may
	// start the retry (another hook process writes its start line, the head merges its followers):
	// from then on nothing that is seen can be attributed — the case is undecided, never a violation.
	late := func() bool {
		if !w.notAfter.IsZero() && !time.Now().Before(w.notAfter) {
			c.Inconcl = "a webhook request sent during a back-off was not answered before the back-off could end (machine too busy): the worker may have started the retry meanwhile"
			return true
		}
		return false
	}
	// the hook run: its start line, then it blocks at its gate
	deadline := time.Now().Add(40 * time.Second)
	var start *c04Start
	code, finished := 0, false
	for start == nil {
		if late() {
			return false
		}
		if ss := w.readStarts(); len(ss) > w.logSeen {
			st := ss[w.logSeen]
			w.logSeen++
			start = &st
			break
		}
		if finished {
			break // answered without a hook run (checked once more after the answer)
		}
		select {
		case code = <-done:
			finished = true
			continue
		default:
		}
		if time.Now().After(deadline) {
			c.Op(line, "hang")
			return false
		}
		time.Sleep(2 * time.Millisecond)
	}
	ctxs, during := "no-hook-run", pre
	if start != nil {
		if sh, ok := w.hookByName(start.hook); !ok || sh.Num != h.Num {
			ctxs = "another-hook-ran"
		} else {
			ctxs = w.hookCtxs(start.ctxs)
		}
		during = s.queues()
		if late() {
			return false
		}
		w.openGate(filepath.Join(w.dir, fmt.Sprintf("gate.%s.%d", start.hook, start.n)), "ok")
		for answered := false; !answered; {
			select {
			case code = <-done:
				answered = true
			case <-time.After(2 * time.Millisecond):
				if late() {
					return false
				}
				if time.Now().After(deadline.Add(40 * time.Second)) {
					c.Op(line, "hang")
					return false
				}
			}
		}
	}
	after := s.queues()
	if late() {
		return false
	}
	_ = code
	c.Oracle(fmt.Sprintf("%s ctxs=%s pre=%s queue=%s after=%s", line, ctxs, pre, during, after))
	s.fired++
	c.Note("webhook:" + x.Kind)
	c.Note("webhook-while-head:" + state)
	if x.Group != 0 {
		c.Note("webhook:grouped-binding")
	}
	if sameHead {
		c.Note("webhook:head-of-main-is-a-task-of-the-same-hook")
	}
	return true
}
