package main

// C02, binding names: a binding name is an arbitrary string chosen by the hook author and compared
// byte by byte everywhere (validation of includeSnapshotsFrom, group expansion, keys of `snapshots`,
// name -> monitor in SnapshotsFor, name -> include list in getIncludeSnapshotsFrom). The generator
// therefore draws the names of ONE hook from a family of strings that are pairwise different but
// related: equal after case mapping (ASCII and Unicode simple folding), after trimming or
// normalising, one a prefix / an extension of the other, separators exchanged, or equal to the
// names the operator itself gives to unnamed bindings.

import (
	"fmt"
	"strings"
	"unicode"
)

var c02NameStems = []string{"kb", "settings", "pods", "kubernetes", "schedule", "monitor-ns", "café", "straße", "k"}

// c02FoldTwins: runes with a different rune in their simple case-folding orbit outside ASCII.
var c02FoldTwins = map[rune]rune{'k': 'K', 'K': 'K', 's': 'ſ', 'S': 'ſ', 'å': 'Å', 'ß': 'ẞ', 'µ': 'μ'}

// c02NameFamily: pairwise different relatives of stem (the stem itself first).
func c02NameFamily(rng *Rng, stem string) []string {
	rs := []rune(stem)
	mapAt := func(i int, f func(rune) rune) string {
		c := append([]rune{}, rs...)
		c[i] = f(c[i])
		return string(c)
	}
	fam := []string{stem,
		strings.ToUpper(stem),
		mapAt(0, unicode.ToUpper),
		mapAt(len(rs)-1, unicode.ToUpper),
		mapAt(rng.Intn(len(rs)), unicode.ToUpper),
		stem + " ", " " + stem, stem + "\t", stem + "\u200b", // what trimming / invisible characters would unify
		stem + "1", stem + "10", stem + "01", stem + "-1", stem + "_1", stem + ".1", // extensions, separators
		stem + stem,
	}
	if len(rs) > 1 {
		fam = append(fam, string(rs[:len(rs)-1]), string(rs[1:]))
	}
	for i, r := range rs {
		if t, ok := c02FoldTwins[r]; ok {
			fam = append(fam, mapAt(i, func(rune) rune { return t }))
		}
		switch r { // canonically equivalent spellings
		case 'é':
			fam = append(fam, string(rs[:i])+"e\u0301"+string(rs[i+1:]))
		case 'ß':
			fam = append(fam, string(rs[:i])+"ss"+string(rs[i+1:]))
		}
	}
	seen := map[string]bool{}
	var res []string
	for _, n := range fam {
		if !seen[n] && n != "" {
			seen[n] = true
			res = append(res, n)
		}
	}
	return res
}

// c02BindingNames: n pairwise different names for the kubernetes bindings of one hook, the family
// they come from (for the names of other bindings) and the bucket.
func c02BindingNames(rng *Rng, n int) (names, family []string, bucket string) {
	if rng.Chance(35) {
		for i := 1; i <= n; i++ {
			names = append(names, fmt.Sprintf("kb%d", i))
		}
		return names, names, "names:plain"
	}
	family = c02NameFamily(rng, PickOne(rng, c02NameStems))
	if rng.Chance(30) { // two stems in one hook
		family = append(family, c02NameFamily(rng, PickOne(rng, c02NameStems))...)
		uniq := map[string]bool{}
		var f []string
		for _, s := range family {
			if !uniq[s] {
				uniq[s] = true
				f = append(f, s)
			}
		}
		family = f
	}
	pool := append([]string{}, family...)
	rng.Shuffle(len(pool), func(i, j int) { pool[i], pool[j] = pool[j], pool[i] })
	// the relation between two names matters, not the value of one of them: most of the time a pair
	// standing in a chosen relation is forced into the hook, in either order
	var rel func(a, b string) bool
	switch r := rng.Intn(100); {
	case r < 45:
		rel = strings.EqualFold
	case r < 60:
		rel = func(a, b string) bool { return strings.TrimSpace(a) == strings.TrimSpace(b) }
	case r < 75:
		rel = func(a, b string) bool { return strings.HasPrefix(a, b) || strings.HasPrefix(b, a) }
	}
	if rel != nil {
		var pairs [][2]int
		for i := range pool {
			for j := range pool {
				if i != j && rel(pool[i], pool[j]) {
					pairs = append(pairs, [2]int{i, j})
				}
			}
		}
		if len(pairs) > 0 {
			pr := pairs[rng.Intn(len(pairs))]
			a, b := pool[pr[0]], pool[pr[1]]
			rest := []string{a, b}
			for _, s := range pool {
				if s != a && s != b {
					rest = append(rest, s)
				}
			}
			pool = rest
		}
	}
	names = pool[:n]
	rng.Shuffle(n, func(i, j int) { names[i], names[j] = names[j], names[i] })
	return names, family, c02NamesBucket(names)
}

func c02NamesBucket(names []string) string {
	fold, trim, prefix := false, false, false
	for i := range names {
		for j := range names {
			if i == j {
				continue
			}
			a, b := names[i], names[j]
			if strings.EqualFold(a, b) {
				fold = true
			}
			if strings.TrimSpace(a) == strings.TrimSpace(b) {
				trim = true
			}
			if strings.HasPrefix(a, b) {
				prefix = true
			}
		}
	}
	switch {
	case fold:
		return "names:equal-under-case-folding"
	case trim:
		return "names:equal-after-trimming"
	case prefix:
		return "names:one-a-prefix-of-another"
	}
	return "names:related"
}

// c02YamlStr: a YAML double-quoted scalar (Go's escapes \t \" \\ \uXXXX are YAML's).
func c02YamlStr(s string) string { return fmt.Sprintf("%q", s) }
