package main

import (
	"context"
	"encoding/json"
	"fmt"
	"os"
	"path/filepath"
	"sort"
	"strconv"
	"strings"
	"time"

	corev1 "k8s.io/api/core/v1"
	metav1 "k8s.io/apimachinery/pkg/apis/meta/v1"

	"github.com/flant/kube-client/fake"
	kem "github.com/flant/shell-operator/pkg/kube_events_manager"
	shell_operator "github.com/flant/shell-operator/pkg/shell-operator"
)

// Several kubernetes bindings of ONE hook in generated layouts (grouped blocks whose Synchronization
// tasks are combined into one run, single bindings, differing allowFailure /
// executeHookOnSynchronization at which combining stops, own queues): the unlock that follows a
// successful (combined) Synchronization run must unlock exactly the bindings whose Synchronization
// was part of that run. "No Event of a binding is handed to the hook before THAT binding's
// Synchronization step has completed successfully."
//
// Every execution of the hook is held until the harness lets it go; while an execution is held the
// harness looks at the lock state of every binding (the observation of the `op-lock` oracle) and
// changes the cluster.

const c01HookScript3 = `#!/bin/bash
if [[ "$1" == "--config" ]]; then
  cat "$(dirname "$0")/config.yaml"
  exit 0
fi
LOG=%s
start=$(date +%%s%%N)
id="$start-$$"
cp "$BINDING_CONTEXT_PATH" "$LOG/.ctx-$id.json" && mv "$LOG/.ctx-$id.json" "$LOG/ctx-$id.json"
code=0
if [[ -f "$LOG/hold-all" ]]; then
  while [[ ! -f "$LOG/go-$id" ]]; do sleep 0.005; done
  code=$(cat "$LOG/go-$id")
fi
echo "$code $(date +%%s%%N)" > "$LOG/.exit-$id" && mv "$LOG/.exit-$id" "$LOG/exit-$id"
exit "$code"
`

type c01Bind3 struct {
	name         string
	group        string
	allowFailure bool
	execOnSync   bool
	queue        string
}

type c01Ctx3 struct {
	binding, typ, group string
	view                map[int]int            // Synchronization: objects
	snaps               map[string]map[int]int // Group: snapshots per binding
	ev                  *c01Ev
}

type c01Exec3 struct {
	id         string
	start, end int64
	exit       int // -1: still running
	ctxs       []c01Ctx3
}

func c01ViewOf(objs []interface{}) map[int]int {
	v := map[int]int{}
	for _, o := range objs {
		if om, ok := o.(map[string]interface{}); ok {
			if id, cs, ok := c01ObjState(om); ok {
				v[id] = cs
			}
		}
	}
	return v
}

func c01ReadExecs3(logDir string) []c01Exec3 {
	ents, _ := os.ReadDir(logDir)
	var res []c01Exec3
	for _, e := range ents {
		if !strings.HasPrefix(e.Name(), "ctx-") {
			continue
		}
		id := strings.TrimSuffix(strings.TrimPrefix(e.Name(), "ctx-"), ".json")
		ex := c01Exec3{id: id, exit: -1, end: 1 << 62}
		ex.start, _ = strconv.ParseInt(strings.SplitN(id, "-", 2)[0], 10, 64)
		if b, err := os.ReadFile(filepath.Join(logDir, "exit-"+id)); err == nil {
			if f := strings.Fields(string(b)); len(f) == 2 {
				ex.exit, _ = strconv.Atoi(f[0])
				ex.end, _ = strconv.ParseInt(f[1], 10, 64)
			}
		}
		b, err := os.ReadFile(filepath.Join(logDir, e.Name()))
		if err != nil {
			continue
		}
		var ctxs []map[string]interface{}
		if json.Unmarshal(b, &ctxs) != nil {
			continue
		}
		for _, cx := range ctxs {
			c3 := c01Ctx3{}
			c3.binding, _ = cx["binding"].(string)
			c3.typ, _ = cx["type"].(string)
			c3.group, _ = cx["groupName"].(string)
			switch c3.typ {
			case "Synchronization":
				objs, _ := cx["objects"].([]interface{})
				c3.view = c01ViewOf(objs)
			case "Group":
				c3.snaps = map[string]map[int]int{}
				snaps, _ := cx["snapshots"].(map[string]interface{})
				for name, l := range snaps {
					objs, _ := l.([]interface{})
					c3.snaps[name] = c01ViewOf(objs)
				}
			case "Event":
				we, _ := cx["watchEvent"].(string)
				k := map[string]string{"Added": "a", "Modified": "m", "Deleted": "d"}[we]
				if id, v, ok := c01ObjState(cx); ok {
					c3.ev = &c01Ev{id, k, v}
				}
			}
			ex.ctxs = append(ex.ctxs, c3)
		}
		res = append(res, ex)
	}
	sort.Slice(res, func(i, j int) bool { return res[i].start < res[j].start })
	return res
}

func c01OpRun3(c *Case, rng *Rng, binds []c01Bind3, failBudget int, x0 []c01Ev, inject [][]c01Ev, after []c01Ev, scratch string) {
	ns := fmt.Sprintf("c01op3-%d", c.Idx)
	base := filepath.Join(scratch, ns)
	hooksDir, logDir, tmpDir := filepath.Join(base, "hooks"), filepath.Join(base, "log"), filepath.Join(base, "tmp")
	for _, d := range []string{hooksDir, logDir, tmpDir} {
		_ = os.MkdirAll(d, 0o755)
	}
	conf := "configVersion: v1\nkubernetes:\n"
	byName := map[string]c01Bind3{}
	for _, b := range binds {
		byName[b.name] = b
		conf += "- name: " + b.name + "\n  apiVersion: v1\n  kind: ConfigMap\n  namespace:\n    nameSelector:\n      matchNames: [\"" + ns + "\"]\n"
		if b.group != "" {
			conf += "  group: " + b.group + "\n"
		}
		if b.allowFailure {
			conf += "  allowFailure: true\n"
		}
		if !b.execOnSync {
			conf += "  executeHookOnSynchronization: false\n"
		}
		if b.queue != "" {
			conf += "  queue: " + b.queue + "\n"
		}
	}
	_ = os.WriteFile(filepath.Join(hooksDir, "config.yaml"), []byte(conf), 0o644)
	_ = os.WriteFile(filepath.Join(hooksDir, "hook.sh"), []byte(fmt.Sprintf(c01HookScript3, logDir)), 0o755)
	_ = os.WriteFile(filepath.Join(logDir, "hold-all"), nil, 0o644)
	fc := fake.NewFakeCluster(fake.ClusterVersionV121)
	nsObj := &corev1.Namespace{}
	nsObj.SetName(ns)
	_, _ = fc.Client.CoreV1().Namespaces().Create(context.TODO(), nsObj, metav1.CreateOptions{})
	truth := map[int]int{}
	apply := func(es []c01Ev) bool {
		for _, e := range es {
			if err := c01OpObj(fc, ns, e); err != nil {
				c.Inconcl = "cluster operation failed: " + err.Error()
				return false
			}
			if e.kind == "d" {
				delete(truth, e.id)
			} else {
				truth[e.id] = e.cs
			}
		}
		return true
	}
	if !apply(x0) {
		return
	}
	ctx, cancel := context.WithCancel(context.Background())
	defer cancel()
	op, err := shell_operator.VerifAssembleC01(ctx, fc.Client, hooksDir, tmpDir, c01OpMetrics, c01OpMetrics)
	if err != nil {
		c.Inconcl = "operator assembly failed: " + err.Error()
		return
	}
	hk := op.HookManager.GetHook("hook.sh")
	if hk == nil {
		c.Inconcl = "hook not loaded"
		return
	}
	monOf := map[string]string{}
	for _, kb := range hk.GetConfig().OnKubernetesEvents {
		monOf[kb.BindingName] = kb.Monitor.Metadata.MonitorId
	}
	enabled := func(name string) bool {
		mon := op.KubeEventsManager.GetMonitor(monOf[name])
		if mon == nil {
			return false
		}
		_, statics, _, _ := kem.VerifMonitorState(mon)
		all := len(statics) > 0
		for _, en := range statics {
			all = all && en
		}
		return all
	}
	op.VerifStart()
	released := map[string]bool{}
	release := func(id, code string) {
		released[id] = true
		c01WriteGate(filepath.Join(logDir, "go-"+id), code)
	}
	defer func() {
		op.KubeEventsManager.PauseHandleEvents()
		op.TaskQueues.Stop()
		op.Stop()
		_ = os.Remove(filepath.Join(logDir, "hold-all"))
		for _, e := range c01ReadExecs3(logDir) {
			if e.exit < 0 && !released[e.id] {
				release(e.id, "0")
			}
		}
		time.Sleep(20 * time.Millisecond)
	}()
	// syncOk: a successful execution that carried the Synchronization of this binding has FINISHED
	syncOk := func(execs []c01Exec3, b c01Bind3) bool {
		for _, e := range execs {
			if e.exit != 0 {
				continue
			}
			for _, cx := range e.ctxs {
				if b.group == "" && cx.typ == "Synchronization" && cx.binding == b.name {
					return true
				}
				if b.group != "" && cx.typ == "Group" && cx.group == b.group {
					return true
				}
			}
		}
		return false
	}
	var lockObs []string
	queues := []string{"main"}
	for _, b := range binds {
		if b.queue != "" {
			queues = append(queues, b.queue)
		}
	}
	injected := 0
	deadline := time.Now().Add(50 * time.Second)
	idle := 0
	for {
		if time.Now().After(deadline) {
			c.Inconcl = "the Synchronization phase did not come to an end"
			return
		}
		execs := c01ReadExecs3(logDir)
		var held *c01Exec3
		for i := range execs {
			if execs[i].exit < 0 && !released[execs[i].id] {
				held = &execs[i]
				break
			}
		}
		if held == nil {
			allUnlocked := true
			for _, b := range binds {
				allUnlocked = allUnlocked && enabled(b.name)
			}
			running := false
			for _, e := range execs {
				running = running || e.exit < 0
			}
			if allUnlocked && !running {
				idle++
				if idle > 10 {
					break
				}
			} else {
				idle = 0
			}
			time.Sleep(3 * time.Millisecond)
			continue
		}
		idle = 0
		// an execution is held: what is unlocked right now? (lock state first, then the finished runs:
		// a binding is unlocked only after the run that carried its Synchronization has exited)
		var obs []string
		var ens []bool
		for _, b := range binds {
			ens = append(ens, enabled(b.name))
		}
		execs = c01ReadExecs3(logDir)
		for i, b := range binds {
			if !b.execOnSync {
				continue // its Synchronization step is not a hook run: nothing to observe
			}
			en, ok := 0, 0
			if ens[i] {
				en = 1
			}
			if syncOk(execs, b) {
				ok = 1
			}
			obs = append(obs, fmt.Sprintf("%s:%d:%d", b.name, en, ok))
		}
		lockObs = append(lockObs, strings.Join(obs, ","))
		if injected < len(inject) {
			if !apply(inject[injected]) {
				return
			}
			injected++
			time.Sleep(time.Duration(rng.Range(40, 120)) * time.Millisecond)
		}
		code := "0"
		if failBudget > 0 {
			can := false
			for _, cx := range held.ctxs {
				if cx.typ == "Synchronization" || cx.typ == "Group" {
					can = true
				}
			}
			for _, cx := range held.ctxs {
				if byName[cx.binding].allowFailure || cx.typ == "Event" {
					can = false
				}
			}
			if can {
				code = "1"
				failBudget--
			}
		}
		release(held.id, code)
	}
	_ = os.Remove(filepath.Join(logDir, "hold-all"))
	for ; injected < len(inject); injected++ {
		if !apply(inject[injected]) {
			return
		}
	}
	if !apply(after) || !apply([]c01Ev{{99, "a", 999}}) {
		return
	}
	// rest: every binding has shown the sentinel object to the hook, queues empty, nothing running
	var execs []c01Exec3
	stable := 0
	deadline = time.Now().Add(60 * time.Second)
	for {
		if time.Now().After(deadline) {
			c.Inconcl = "operator did not come to rest"
			return
		}
		time.Sleep(15 * time.Millisecond)
		ex := c01ReadExecs3(logDir)
		seen := map[string]bool{}
		done := true
		for _, e := range ex {
			if e.exit < 0 {
				done = false
				if !released[e.id] {
					release(e.id, "0") // started while hold-all was still there
				}
			}
			for _, cx := range e.ctxs {
				if cx.ev != nil && cx.ev.id == 99 {
					seen[cx.binding] = true
				}
				for name, v := range cx.snaps {
					if v[99] == 999 {
						seen[name] = true
					}
				}
			}
		}
		busy := false
		for _, qn := range queues {
			if q := op.TaskQueues.GetByName(qn); q != nil && q.Length() > 0 {
				busy = true
			}
		}
		all := true
		for _, b := range binds {
			all = all && seen[b.name]
		}
		if !done || busy || !all || len(ex) != len(execs) {
			stable = 0
			execs = ex
			continue
		}
		stable++
		if stable >= 8 {
			break
		}
	}
	c.Op("cfg types=a,m,d", "ok")
	for _, o := range lockObs {
		c.Oracle("op-lock held=" + o)
	}
	for _, b := range binds {
		if !b.execOnSync {
			continue
		}
		if b.group != "" {
			// executions of different queues are not ordered by their start time (the snapshots are read
			// before the process starts): the property asks for SOME Group execution that reflects the change
			var views []string
			seenView := map[string]bool{}
			for _, e := range execs {
				for _, cx := range e.ctxs {
					if v, ok := cx.snaps[b.name]; ok {
						if vs := c01StateStr(v); !seenView[vs] {
							seenView[vs] = true
							views = append(views, vs)
						}
					}
				}
			}
			if len(views) == 0 {
				views = []string{"-"}
			}
			c.Oracle(fmt.Sprintf("op-group-any binding=%s views=%s final=%s", b.name, strings.Join(views, "|"), c01StateStr(truth)))
			continue
		}
		type tok struct {
			at  int64
			txt string
		}
		var toks []tok
		var view map[int]int
		var viewEnd int64
		var delivered []c01Ev
		for _, e := range execs {
			kinds := ""
			for _, cx := range e.ctxs {
				if cx.binding != b.name {
					continue
				}
				switch cx.typ {
				case "Synchronization":
					kinds += "S"
					// allowFailure: a failed run counts as completed (C04); the harness never fails those
					if e.exit == 0 && view == nil {
						view = cx.view
						viewEnd = e.end
					}
				case "Event":
					kinds += "E"
				default:
					kinds += "O"
				}
			}
			if kinds == "" {
				continue
			}
			at := e.start
			if strings.Contains(kinds, "S") {
				at = e.end
			}
			toks = append(toks, tok{at, fmt.Sprintf("%s:%d", kinds, e.exit)})
		}
		sort.SliceStable(toks, func(i, j int) bool { return toks[i].at < toks[j].at })
		var runs []string
		for _, t := range toks {
			runs = append(runs, t.txt)
		}
		c.Oracle(fmt.Sprintf("op-nobefore sync=S binding=%s runs=%s", b.name, joinStrs(runs)))
		for _, e := range execs {
			if view == nil || e.start < viewEnd {
				continue
			}
			for _, cx := range e.ctxs {
				if cx.binding == b.name && cx.ev != nil {
					delivered = append(delivered, *cx.ev)
				}
			}
		}
		c.Oracle(fmt.Sprintf("replay binding=%s view=%s delivered=%s final=%s", b.name, c01StateStr(view), c01Evs(delivered), c01StateStr(truth)))
	}
	c.Note(fmt.Sprintf("op3:execs=%d", len(execs)))
}

// c01GenLayout3: blocks of bindings; a block is one binding or two bindings of one group; the
// attributes (allowFailure, executeHookOnSynchronization) are per block, the queue per binding.
func c01GenLayout3(rng *Rng, shape int) []c01Bind3 {
	var binds []c01Bind3
	type blk struct {
		grouped, allow, exec bool
	}
	var blocks []blk
	switch shape {
	case 0: // group, then a binding at which combining stops: different allowFailure
		blocks = []blk{{true, false, true}, {false, true, true}}
	case 1: // the other way round
		blocks = []blk{{true, true, true}, {false, false, true}}
	case 2: // group, then a binding that is combined with it
		blocks = []blk{{true, false, true}, {false, false, true}}
	case 3: // group, then a binding whose Synchronization is not executed, then another one
		blocks = []blk{{true, false, true}, {false, false, false}, {false, false, true}}
	case 4: // single, group, single with different allowFailure
		blocks = []blk{{false, false, true}, {true, false, true}, {false, true, true}}
	case 5: // two groups with different allowFailure
		blocks = []blk{{true, false, true}, {true, true, true}}
	default:
		n := rng.Range(2, 3)
		for i := 0; i < n; i++ {
			blocks = append(blocks, blk{rng.Chance(55), rng.Chance(35), !rng.Chance(15)})
		}
	}
	for i, bl := range blocks {
		size := 1
		group := ""
		if bl.grouped {
			size = 2
			group = fmt.Sprintf("g%d", i)
		}
		for j := 0; j < size; j++ {
			b := c01Bind3{name: fmt.Sprintf("b%d%d", i, j), group: group, allowFailure: bl.allow, execOnSync: bl.exec}
			if rng.Chance(50) {
				b.queue = fmt.Sprintf("q%d%d", i, j)
			}
			binds = append(binds, b)
		}
	}
	return binds
}

func runC01Operator3(r *Run) {
	n := r.N(6+6, 6+100)
	r.Cases(850000, n, 6, func(c *Case, rng *Rng) {
		binds := c01GenLayout3(rng, c.Idx-850000)
		live := map[int]int{}
		next := 10
		x0 := c01GenClusterOps(rng, live, &next, rng.Range(0, 2))
		var inject [][]c01Ev
		for i := 0; i < 3; i++ {
			inject = append(inject, c01GenClusterOps(rng, live, &next, rng.Range(1, 2)))
		}
		after := c01GenClusterOps(rng, live, &next, rng.Range(0, 2))
		fail := []int{0, 0, 1}[rng.Intn(3)]
		var ds []string
		for _, b := range binds {
			ds = append(ds, fmt.Sprintf("%s(group=%q allowFailure=%v execOnSync=%v queue=%q)", b.name, b.group, b.allowFailure, b.execOnSync, b.queue))
		}
		c.Desc = fmt.Sprintf("operator, bindings of one hook: %s; before=%s while-runs-are-held=%v after=%s failing-synchronizations=%d",
			strings.Join(ds, " "), c01Evs(x0), inject, c01Evs(after), fail)
		c01OpRun3(c, rng, binds, fail, x0, inject, after, r.Scratch)
		c.Nontrivial = true
		c.Note("operator-layout")
	})
}
