package main

import (
	"context"
	"encoding/json"
	"fmt"
	"os"
	"path/filepath"
	"sort"
	"strconv"
	"strings"
	"time"

	corev1 "k8s.io/api/core/v1"
	metav1 "k8s.io/apimachinery/pkg/apis/meta/v1"

	"github.com/flant/kube-client/fake"
	kem "github.com/flant/shell-operator/pkg/kube_events_manager"
	shell_operator "github.com/flant/shell-operator/pkg/shell-operator"
)

// Several kubernetes bindings of ONE hook in generated layouts (grouped blocks whose Synchronization
// tasks are combined into one run, single bindings, differing allowFailure /
// executeHookOnSynchronization at which combining stops, own queues): the unlock that follows a
// successful (combined) Synchronization run must unlock exactly the bindings whose Synchronization
// was part of that run. "No Event of a binding is handed to the hook before THAT binding's
// Synchronization step has completed successfully."
//
// Every execution of the hook is held until the harness lets it go; while an execution is held the
// harness looks at the lock state of every binding (the observation of the `op-lock` oracle) and
// changes the cluster.

const c01HookScript3 = `#!/bin/bash
if [[ "$1" == "--config" ]]; then
  cat "$(dirname "$0")/config.yaml"
  exit 0
fi
LOG=%s
start=$(date +%%s%%N)
id="$start-$$"
cp "$BINDING_CONTEXT_PATH" "$LOG/.ctx-$id.json" && mv "$LOG/.ctx-$id.json" "$LOG/ctx-$id.json"
code=0
if [[ -f "$LOG/hold-all" ]]; then
  while [[ ! -f "$LOG/go-$id" ]]; do sleep 0.005; done
  code=$(cat "$LOG/go-$id")
fi
echo "$code $(date +%%s%%N)" > "$LOG/.exit-$id" && mv "$LOG/.exit-$id" "$LOG/exit-$id"
exit "$code"
`

type c01Bind3 struct {
	name         string
	group        string
	allowFailure bool
	execOnSync   bool
	queue        string
}

// c01Opt3: dimensions of the whole hook.
type c01Opt3 struct {
	// v0: a legacy hook (its --config output has no configVersion key): `onKubernetesEvent` bindings loaded
	// by the real loader. Its Synchronization step is a task that runs no hook; afterwards every change
	// must reach the hook as an Event in the v0 shape (resourceEvent / resourceName).
	v0 bool
	// lateNs: every binding selects its namespaces by namespace.labelSelector and NO namespace matches
	// at start (zero informers); the first matching namespace appears, with objects, while the first
	// hook execution is held.
	lateNs bool
	// the first `fail` executions that carry a Synchronization (and no allowFailure binding) exit 1
	fail int
	// evRounds: after the Synchronization phase every LATER execution (Event / Group) is held as well. Per
	// round: the cluster changes ([0]) until an execution is held — it has read its snapshots already —,
	// then the cluster changes again ([1]) while that execution is still the running head of its queue,
	// the harness waits until the events handler has turned the change into a task (or a bounded time,
	// no verdict depends on it), and lets the execution go. Such a case ends QUIET: no sentinel object, no
	// later change — an unrelated later event would refresh the snapshots of a group and hide a change
	// that was never followed by a Group execution.
	evRounds [][2][]c01Ev
}

type c01Ctx3 struct {
	binding, typ, group string
	view                map[int]int            // Synchronization: objects
	snaps               map[string]map[int]int // Group: snapshots per binding
	ev                  *c01Ev
}

type c01Exec3 struct {
	id         string
	start, end int64
	exit       int // -1: still running
	ctxs       []c01Ctx3
}

func c01ViewOf(objs []interface{}) map[int]int {
	v := map[int]int{}
	for _, o := range objs {
		if om, ok := o.(map[string]interface{}); ok {
			if id, cs, ok := c01ObjState(om); ok {
				v[id] = cs
			}
		}
	}
	return v
}

func c01ReadExecs3(logDir string) []c01Exec3 {
	ents, _ := os.ReadDir(logDir)
	var res []c01Exec3
	for _, e := range ents {
		if !strings.HasPrefix(e.Name(), "ctx-") {
			continue
		}
		id := strings.TrimSuffix(strings.TrimPrefix(e.Name(), "ctx-"), ".json")
		ex := c01Exec3{id: id, exit: -1, end: 1 << 62}
		ex.start, _ = strconv.ParseInt(strings.SplitN(id, "-", 2)[0], 10, 64)
		if b, err := os.ReadFile(filepath.Join(logDir, "exit-"+id)); err == nil {
			if f := strings.Fields(string(b)); len(f) == 2 {
				ex.exit, _ = strconv.Atoi(f[0])
				ex.end, _ = strconv.ParseInt(f[1], 10, 64)
			}
		}
		b, err := os.ReadFile(filepath.Join(logDir, e.Name()))
		if err != nil {
			continue
		}
		var ctxs []map[string]interface{}
		if json.Unmarshal(b, &ctxs) != nil {
			continue
		}
		for _, cx := range ctxs {
			c3 := c01Ctx3{}
			c3.binding, _ = cx["binding"].(string)
			c3.typ, _ = cx["type"].(string)
			c3.group, _ = cx["groupName"].(string)
			if re, ok := cx["resourceEvent"].(string); ok && c3.typ == "" {
				// v0 shape: {binding, resourceEvent, resourceNamespace, resourceKind, resourceName}
				c3.typ = "Event"
				name, _ := cx["resourceName"].(string)
				if id, err := strconv.Atoi(strings.TrimPrefix(name, "o")); err == nil {
					c3.ev = &c01Ev{id, map[string]string{"add": "a", "update": "m", "delete": "d"}[re], 0}
				}
			}
			switch c3.typ {
			case "Synchronization":
				objs, _ := cx["objects"].([]interface{})
				c3.view = c01ViewOf(objs)
			case "Group":
				c3.snaps = map[string]map[int]int{}
				snaps, _ := cx["snapshots"].(map[string]interface{})
				for name, l := range snaps {
					objs, _ := l.([]interface{})
					c3.snaps[name] = c01ViewOf(objs)
				}
			case "Event":
				we, _ := cx["watchEvent"].(string)
				k := map[string]string{"Added": "a", "Modified": "m", "Deleted": "d"}[we]
				if id, v, ok := c01ObjState(cx); ok {
					c3.ev = &c01Ev{id, k, v}
				}
			}
			ex.ctxs = append(ex.ctxs, c3)
		}
		res = append(res, ex)
	}
	sort.Slice(res, func(i, j int) bool { return res[i].start < res[j].start })
	return res
}

func c01OpRun3(c *Case, rng *Rng, binds []c01Bind3, opt c01Opt3, x0 []c01Ev, inject [][]c01Ev, after []c01Ev, scratch string) {
	ns := fmt.Sprintf("c01op3-%d", c.Idx)
	base := filepath.Join(scratch, ns)
	hooksDir, logDir, tmpDir := filepath.Join(base, "hooks"), filepath.Join(base, "log"), filepath.Join(base, "tmp")
	for _, d := range []string{hooksDir, logDir, tmpDir} {
		_ = os.MkdirAll(d, 0o755)
	}
	byName := map[string]c01Bind3{}
	var conf string
	if opt.v0 {
		// legacy format: no configVersion key; the real loader (config_v0.go) turns it into ModeV0 monitors
		var items []string
		for _, b := range binds {
			byName[b.name] = b
			it := fmt.Sprintf(`{"name":%q,"kind":"ConfigMap","event":["add","update","delete"],"namespaceSelector":{"matchNames":[%q]}`, b.name, ns)
			if b.allowFailure {
				it += `,"allowFailure":true`
			}
			items = append(items, it+"}")
		}
		conf = `{"onKubernetesEvent":[` + strings.Join(items, ",") + `]}`
	} else {
		conf = "configVersion: v1\nkubernetes:\n"
		nsSel := "  namespace:\n    nameSelector:\n      matchNames: [\"" + ns + "\"]\n"
		if opt.lateNs {
			nsSel = "  namespace:\n    labelSelector:\n      matchLabels:\n        c01op3: \"yes\"\n"
		}
		for _, b := range binds {
			byName[b.name] = b
			conf += "- name: " + b.name + "\n  apiVersion: v1\n  kind: ConfigMap\n" + nsSel
			if b.group != "" {
				conf += "  group: " + b.group + "\n"
			}
			if b.allowFailure {
				conf += "  allowFailure: true\n"
			}
			if !b.execOnSync {
				conf += "  executeHookOnSynchronization: false\n"
			}
			if b.queue != "" {
				conf += "  queue: " + b.queue + "\n"
			}
		}
	}
	_ = os.WriteFile(filepath.Join(hooksDir, "config.yaml"), []byte(conf), 0o644)
	_ = writeScript(filepath.Join(hooksDir, "hook.sh"), []byte(fmt.Sprintf(c01HookScript3, logDir)), 0o755)
	_ = os.WriteFile(filepath.Join(logDir, "hold-all"), nil, 0o644)
	fc := fake.NewFakeCluster(fake.ClusterVersionV121)
	watchCount := c01CountWatches(fc)
	nsThere := false
	ensureNs := func() {
		if nsThere {
			return
		}
		nsThere = true
		nsObj := &corev1.Namespace{}
		nsObj.SetName(ns)
		nsObj.SetLabels(map[string]string{"c01op3": "yes"})
		_, _ = fc.Client.CoreV1().Namespaces().Create(context.TODO(), nsObj, metav1.CreateOptions{})
	}
	if !opt.lateNs {
		ensureNs()
	}
	truth := map[int]int{}
	var settleNs func()
	apply := func(es []c01Ev) bool {
		// lateNs: the first matching namespace appears together with its first objects. The objects are
		// written first, then the Namespace, then the harness waits until the informers created for it
		// have their watches: the fake cluster has no resource versions, a change made between the list
		// and the watch of a new informer would be lost by the fake, not by the operator.
		first := len(es) > 0 && !nsThere
		defer func() {
			if first {
				ensureNs()
				settleNs()
			}
		}()
		for _, e := range es {
			if err := c01OpObj(fc, ns, e); err != nil {
				c.Inconcl = "cluster operation failed: " + err.Error()
				return false
			}
			if e.kind == "d" {
				delete(truth, e.id)
			} else {
				truth[e.id] = e.cs
			}
		}
		return true
	}
	if !opt.lateNs && !apply(x0) {
		return
	}
	ctx, cancel := context.WithCancel(context.Background())
	defer cancel()
	op, err := shell_operator.VerifAssembleC01(ctx, fc.Client, hooksDir, tmpDir, c01OpMetrics, c01OpMetrics)
	if err != nil {
		c.Inconcl = "operator assembly failed: " + err.Error()
		return
	}
	hk := op.HookManager.GetHook("hook.sh")
	if hk == nil {
		c.Inconcl = "hook not loaded"
		return
	}
	if want := map[bool]string{true: "v0", false: "v1"}[opt.v0]; hk.GetConfig().Version != want {
		c.Inconcl = "hook config loaded as version " + hk.GetConfig().Version
		return
	}
	monOf := map[string]string{}
	for _, kb := range hk.GetConfig().OnKubernetesEvents {
		monOf[kb.BindingName] = kb.Monitor.Metadata.MonitorId
	}
	settleNs = func() {
		stores := map[string]bool{}
		for dl := time.Now().Add(5 * time.Second); time.Now().Before(dl); time.Sleep(2 * time.Millisecond) {
			ok := true
			for _, b := range binds {
				mon := op.KubeEventsManager.GetMonitor(monOf[b.name])
				if mon == nil {
					continue
				}
				has := false
				for _, inf := range kem.VerifC02Describe(mon) {
					if inf.Namespace != ns {
						continue
					}
					has = true
					if !inf.Registered || inf.StoreID == "" {
						ok = false
						continue
					}
					stores[inf.StoreID] = true
				}
				ok = ok && has
			}
			if ok && watchCount(ns) >= len(stores) {
				return
			}
		}
	}
	// state: does SOME informer of the binding pass events on (anyEn); is the whole binding unlocked —
	// eventsEnabled set and every informer it has, static and per namespace, enabled (allEn); how many
	// events sit in the buffers of its informers
	state := func(name string) (anyEn, allEn bool, buf int) {
		mon := op.KubeEventsManager.GetMonitor(monOf[name])
		if mon == nil {
			return false, false, 0
		}
		flag, statics, varying, buffered := kem.VerifMonitorState(mon)
		allEn = flag
		for _, en := range statics {
			anyEn, allEn = anyEn || en, allEn && en
		}
		for _, l := range varying {
			for _, en := range l {
				anyEn, allEn = anyEn || en, allEn && en
			}
		}
		for _, n := range buffered {
			buf += n
		}
		return anyEn, allEn, buf
	}
	op.VerifStart()
	released := map[string]bool{}
	release := func(id, code string) {
		released[id] = true
		c01WriteGate(filepath.Join(logDir, "go-"+id), code)
	}
	defer func() {
		op.KubeEventsManager.PauseHandleEvents()
		op.TaskQueues.Stop()
		op.Stop()
		_ = os.Remove(filepath.Join(logDir, "hold-all"))
		for _, e := range c01ReadExecs3(logDir) {
			if e.exit < 0 && !released[e.id] {
				release(e.id, "0")
			}
		}
		time.Sleep(20 * time.Millisecond)
	}()
	// carries: this execution carries the Synchronization of binding b
	carries := func(e c01Exec3, b c01Bind3) bool {
		for _, cx := range e.ctxs {
			if b.group == "" && cx.typ == "Synchronization" && cx.binding == b.name {
				return true
			}
			if b.group != "" && cx.typ == "Group" && cx.group == b.group {
				return true
			}
		}
		return false
	}
	// syncOk: a successful execution that carried the Synchronization of this binding has FINISHED
	syncOk := func(execs []c01Exec3, b c01Bind3) bool {
		for _, e := range execs {
			if e.exit == 0 && carries(e, b) {
				return true
			}
		}
		return false
	}
	// hookRunsSync: the Synchronization step of this binding is an execution of the hook
	hookRunsSync := func(b c01Bind3) bool { return b.execOnSync && !opt.v0 }
	lockNow := func() string {
		// lock state first, then the finished runs: a binding is unlocked only after the run that carried
		// its Synchronization has exited
		var ens []bool
		for _, b := range binds {
			en, _, _ := state(b.name)
			ens = append(ens, en)
		}
		execs := c01ReadExecs3(logDir)
		var obs []string
		for i, b := range binds {
			if !hookRunsSync(b) {
				continue // its Synchronization step is not a hook run: nothing to compare with
			}
			en, ok := 0, 0
			if ens[i] {
				en = 1
			}
			if syncOk(execs, b) {
				ok = 1
			}
			obs = append(obs, fmt.Sprintf("%s:%d:%d", b.name, en, ok))
		}
		return strings.Join(obs, ",")
	}
	var lockObs []string
	queues := []string{"main"}
	for _, b := range binds {
		if b.queue != "" {
			queues = append(queues, b.queue)
		}
	}
	mainIdle := func() bool {
		q := op.TaskQueues.GetByName("main")
		return q != nil && q.Length() == 0
	}
	failBudget := opt.fail
	stuck := map[string]bool{} // Synchronization step done, task gone from the queue, binding still locked
	injected := 0
	deadline := time.Now().Add(50 * time.Second)
	idle := 0
	for {
		if time.Now().After(deadline) {
			c.Inconcl = "the Synchronization phase did not come to an end"
			return
		}
		execs := c01ReadExecs3(logDir)
		var held *c01Exec3
		for i := range execs {
			if execs[i].exit < 0 && !released[execs[i].id] {
				held = &execs[i]
				break
			}
		}
		if held == nil {
			running := false
			for _, e := range execs {
				running = running || e.exit < 0
			}
			allSync := true
			for _, b := range binds {
				if hookRunsSync(b) {
					allSync = allSync && syncOk(execs, b)
				}
			}
			// The order of the two reads matters. Every Synchronization task of the hook sits in "main" from
			// the moment the bindings are enabled (one queue operation replaces the EnableKubernetesBindings
			// task by them) until its handler has returned Success, and the handler unlocks before it
			// returns: "main" empty => every Synchronization step is over, unlock calls included.
			idleQ := mainIdle()
			allUnlocked := true
			for _, b := range binds {
				_, all, _ := state(b.name)
				allUnlocked = allUnlocked && all
			}
			if !running && allSync && idleQ {
				idle++
				if idle > 10 {
					if !allUnlocked {
						// decided without a clock: nothing is left that could unlock these bindings
						for _, b := range binds {
							if _, all, _ := state(b.name); !all {
								stuck[b.name] = true
							}
						}
					}
					break
				}
			} else {
				idle = 0
			}
			time.Sleep(3 * time.Millisecond)
			continue
		}
		idle = 0
		// an execution is held: what is unlocked right now?
		if o := lockNow(); o != "" {
			lockObs = append(lockObs, o)
		}
		if injected < len(inject) {
			before := map[string]int{}
			for _, b := range binds {
				_, _, before[b.name] = state(b.name)
			}
			nExecs := len(c01ReadExecs3(logDir))
			if !apply(inject[injected]) {
				return
			}
			k := len(inject[injected])
			injected++
			// let the change sink in: every still-locked binding has it in a buffer (for lateNs: the namespace
			// callback has created the informers and they have listed the objects), or something new was
			// handed to the hook; no verdict depends on this wait
			for dl := time.Now().Add(1500 * time.Millisecond); time.Now().Before(dl); time.Sleep(3 * time.Millisecond) {
				sunk := true
				for _, b := range binds {
					if en, _, buf := state(b.name); !en && buf < before[b.name]+k {
						sunk = false
					}
				}
				if sunk || len(c01ReadExecs3(logDir)) > nExecs {
					break
				}
			}
			time.Sleep(time.Duration(rng.Range(40, 120)) * time.Millisecond)
			if o := lockNow(); o != "" {
				lockObs = append(lockObs, o)
			}
		}
		code := "0"
		if failBudget > 0 {
			can := false
			for _, b := range binds {
				if hookRunsSync(b) && !syncOk(execs, b) && carries(*held, b) {
					can = true
				}
			}
			for _, cx := range held.ctxs {
				if byName[cx.binding].allowFailure || cx.typ == "Event" {
					can = false
				}
			}
			if can {
				code = "1"
				failBudget--
				c.Note("op3:synchronization-run-failed")
				if len(held.ctxs) > 1 {
					c.Note("op3:combined-synchronization-run-failed")
				}
			}
		}
		release(held.id, code)
	}
	quiet := len(opt.evRounds) > 0
	if quiet {
		// what was not used up while Synchronization runs were held happens now, before the held Event /
		// Group executions: nothing may follow them
		for ; injected < len(inject); injected++ {
			if !apply(inject[injected]) {
				return
			}
		}
	}
	qlen := func() int {
		n := 0
		for _, qn := range queues {
			if q := op.TaskQueues.GetByName(qn); q != nil {
				n += q.Length()
			}
		}
		return n
	}
	heldNow := func() *c01Exec3 {
		ex := c01ReadExecs3(logDir)
		for i := range ex {
			if ex[i].exit < 0 && !released[ex[i].id] {
				return &ex[i]
			}
		}
		return nil
	}
	for ri, round := range opt.evRounds {
		// drain: nothing held, nothing running, queues empty — the next change meets an idle operator, its
		// execution becomes the head (and, for one binding, the only task) of its queue
		for dl := time.Now().Add(20 * time.Second); ; time.Sleep(3 * time.Millisecond) {
			if time.Now().After(dl) {
				c.Inconcl = "operator did not become idle between two held executions"
				return
			}
			if h := heldNow(); h != nil {
				release(h.id, "0")
				continue
			}
			running := false
			for _, e := range c01ReadExecs3(logDir) {
				running = running || e.exit < 0
			}
			if !running && qlen() == 0 {
				break
			}
		}
		if !apply(round[0]) {
			return
		}
		var held *c01Exec3
		for dl := time.Now().Add(10 * time.Second); held == nil && time.Now().Before(dl); time.Sleep(3 * time.Millisecond) {
			held = heldNow()
		}
		if held == nil {
			// every binding that would have run the hook is stuck (never unlocked): nothing to hold
			c.Note("op3:no-execution-to-hold")
			break
		}
		// the held execution has its binding contexts and snapshots already (the context file is written by
		// the hook process); let the tasks of the other bindings for the same change queue up behind it
		time.Sleep(time.Duration(rng.Range(20, 60)) * time.Millisecond)
		nQ, nE := qlen(), len(c01ReadExecs3(logDir))
		if !apply(round[1]) {
			return
		}
		c.Note("op3:change-while-a-later-execution-is-held")
		if nQ == 1 {
			c.Note("op3:change-while-the-held-execution-is-the-only-task")
		}
		_ = ri
		for dl := time.Now().Add(1500 * time.Millisecond); time.Now().Before(dl); time.Sleep(3 * time.Millisecond) {
			if qlen() > nQ || len(c01ReadExecs3(logDir)) > nE {
				break
			}
		}
		time.Sleep(time.Duration(rng.Range(10, 40)) * time.Millisecond)
		release(held.id, "0")
	}
	_ = os.Remove(filepath.Join(logDir, "hold-all"))
	// the verdict on the unlock: every Synchronization step is over (see above)
	var unlockObs []string
	for _, b := range binds {
		u := 1
		if stuck[b.name] {
			u = 0
			c.Note("op3:binding-never-unlocked")
		}
		unlockObs = append(unlockObs, fmt.Sprintf("%s:%d", b.name, u))
	}
	baseline := map[int]int{} // v0: what existed when the (hook-less) Synchronization step was over
	for id := range truth {
		baseline[id] = 0
	}
	for ; injected < len(inject); injected++ {
		if !apply(inject[injected]) {
			return
		}
	}
	if !quiet && (!apply(after) || !apply([]c01Ev{{99, "a", 999}})) {
		return
	}
	// cacheOk (quiet cases): the informers of every unlocked binding have caught up with the cluster.
	// Never read the snapshot of a binding that is still locked (finding R3).
	cacheOk := func() bool {
		snaps := hk.HookController.KubernetesSnapshots()
		for _, b := range binds {
			if _, allEn, _ := state(b.name); !allEn {
				continue
			}
			got := map[int]int{}
			for _, o := range snaps[b.name] {
				if o.Object != nil {
					id, _ := strconv.Atoi(strings.TrimPrefix(o.Object.GetName(), "o"))
					data, _, _ := unstructuredNestedString(o.Object.Object, "data", "v")
					v, _ := strconv.Atoi(data)
					got[id] = v
				}
			}
			if c01StateStr(got) != c01StateStr(truth) {
				return false
			}
		}
		return true
	}
	// shown (quiet cases): what the hook has been given so far already accounts for the final state of
	// every binding. If not, the quiet period is stretched: a verdict "never followed by an execution"
	// must not be an event that was merely still on its way.
	shown := func(ex []c01Exec3) bool {
		for _, b := range binds {
			if !b.execOnSync || opt.v0 {
				continue
			}
			ok := false
			var view map[int]int
			var viewEnd int64
			for _, e := range ex {
				for _, cx := range e.ctxs {
					if v, has := cx.snaps[b.name]; has && b.group != "" && c01StateStr(v) == c01StateStr(truth) {
						ok = true
					}
					if b.group == "" && cx.binding == b.name && cx.typ == "Synchronization" && e.exit == 0 && view == nil {
						view, viewEnd = cx.view, e.end
					}
				}
			}
			if b.group == "" {
				got := map[int]int{}
				for id, v := range view {
					got[id] = v
				}
				for _, e := range ex {
					if view == nil || e.start < viewEnd {
						continue
					}
					for _, cx := range e.ctxs {
						if cx.binding == b.name && cx.ev != nil {
							if cx.ev.kind == "d" {
								delete(got, cx.ev.id)
							} else {
								got[cx.ev.id] = cx.ev.cs
							}
						}
					}
				}
				ok = c01StateStr(got) == c01StateStr(truth)
			}
			if !ok {
				return false
			}
		}
		return true
	}
	// rest: every binding has shown the sentinel object to the hook (a binding that stayed locked: has it
	// in a buffer that nothing will ever replay), queues empty, nothing running
	var execs []c01Exec3
	stable, lost := 0, 0
	deadline = time.Now().Add(60 * time.Second)
	for {
		if time.Now().After(deadline) {
			c.Inconcl = "operator did not come to rest"
			return
		}
		time.Sleep(15 * time.Millisecond)
		ex := c01ReadExecs3(logDir)
		seen := map[string]bool{}
		done := true
		for _, e := range ex {
			if e.exit < 0 {
				done = false
				if !released[e.id] {
					release(e.id, "0") // started while hold-all was still there
				}
			}
			for _, cx := range e.ctxs {
				if cx.ev != nil && cx.ev.id == 99 {
					seen[cx.binding] = true
				}
				for name, v := range cx.snaps {
					if v[99] == 999 {
						seen[name] = true
					}
				}
			}
		}
		busy := false
		for _, qn := range queues {
			if q := op.TaskQueues.GetByName(qn); q != nil && q.Length() > 0 {
				busy = true
			}
		}
		all := true
		for _, b := range binds {
			if seen[b.name] || quiet {
				continue
			}
			if _, allEn, buf := state(b.name); stuck[b.name] && !allEn && buf > 0 {
				continue
			}
			all = false
		}
		changed := len(ex) != len(execs)
		execs = ex // always the latest reading: exit codes and end times of runs that were still going on
		if !done || busy || changed || (quiet && !cacheOk()) {
			stable, lost = 0, 0
			continue
		}
		if !all {
			// The sentinel has not been shown to some binding. Either it is still on its way — or it never
			// will be: nothing runs, every queue is empty, the informers of every unlocked binding have
			// cached it. A long quiet period in that state is taken as final (the oracles then say what is
			// missing) instead of waiting for the watchdog.
			stable = 0
			if !cacheOk() {
				lost = 0
				continue
			}
			if lost++; lost < 400 {
				continue
			}
			c.Note("op3:sentinel-never-shown")
			break
		}
		stable++
		need := 8
		if quiet {
			need = 80 // no marker available: a long quiet period instead
			if !shown(execs) {
				need = 400
			}
		}
		if stable >= need {
			break
		}
	}
	c.Op("cfg types=a,m,d", "ok")
	for _, o := range lockObs {
		c.Oracle("op-lock held=" + o)
	}
	c.Oracle("op-unlock synchronization-steps-over=1 unlocked=" + strings.Join(unlockObs, ","))
	for _, b := range binds {
		if opt.v0 {
			// v0: no view was ever given; the hook is told names only. Every change made after the
			// Synchronization step was over must arrive, in order: baseline + Events = cluster (existence)
			var delivered []c01Ev
			for _, e := range execs {
				for _, cx := range e.ctxs {
					if cx.binding == b.name && cx.ev != nil {
						delivered = append(delivered, *cx.ev)
					}
				}
			}
			final := map[int]int{}
			for id := range truth {
				final[id] = 0
			}
			c.Oracle(fmt.Sprintf("replay binding=%s view=%s delivered=%s final=%s", b.name, c01StateStr(baseline), c01Evs(delivered), c01StateStr(final)))
			continue
		}
		if !b.execOnSync {
			continue
		}
		if b.group != "" {
			// executions of different queues are not ordered by their start time (the snapshots are read
			// before the process starts): the property asks for SOME Group execution that reflects the change
			var views []string
			seenView := map[string]bool{}
			for _, e := range execs {
				for _, cx := range e.ctxs {
					if v, ok := cx.snaps[b.name]; ok {
						if vs := c01StateStr(v); !seenView[vs] {
							seenView[vs] = true
							views = append(views, vs)
						}
					}
				}
			}
			if len(views) == 0 {
				views = []string{"-"}
			}
			c.Oracle(fmt.Sprintf("op-group-any binding=%s views=%s final=%s", b.name, strings.Join(views, "|"), c01StateStr(truth)))
			continue
		}
		type tok struct {
			at  int64
			txt string
		}
		var toks []tok
		var view map[int]int
		var viewEnd int64
		var delivered []c01Ev
		for _, e := range execs {
			kinds := ""
			for _, cx := range e.ctxs {
				if cx.binding != b.name {
					continue
				}
				switch cx.typ {
				case "Synchronization":
					kinds += "S"
					// allowFailure: a failed run counts as completed (C04); the harness never fails those
					if e.exit == 0 && view == nil {
						view = cx.view
						viewEnd = e.end
					}
				case "Event":
					kinds += "E"
				default:
					kinds += "O"
				}
			}
			if kinds == "" {
				continue
			}
			at := e.start
			if strings.Contains(kinds, "S") {
				at = e.end
			}
			toks = append(toks, tok{at, fmt.Sprintf("%s:%d", kinds, e.exit)})
		}
		sort.SliceStable(toks, func(i, j int) bool { return toks[i].at < toks[j].at })
		var runs []string
		for _, t := range toks {
			runs = append(runs, t.txt)
		}
		c.Oracle(fmt.Sprintf("op-nobefore sync=S binding=%s runs=%s", b.name, joinStrs(runs)))
		for _, e := range execs {
			if view == nil || e.start < viewEnd {
				continue
			}
			for _, cx := range e.ctxs {
				if cx.binding == b.name && cx.ev != nil {
					delivered = append(delivered, *cx.ev)
				}
			}
		}
		c.Oracle(fmt.Sprintf("replay binding=%s view=%s delivered=%s final=%s", b.name, c01StateStr(view), c01Evs(delivered), c01StateStr(truth)))
	}
	c.Note(fmt.Sprintf("op3:execs=%d", len(execs)))
}

// c01GenLayout3: blocks of bindings; a block is one binding or two bindings of one group; the
// attributes (allowFailure, executeHookOnSynchronization) are per block, the queue per binding.
func c01GenLayout3(rng *Rng, shape int) []c01Bind3 {
	var binds []c01Bind3
	type blk struct {
		grouped, allow, exec bool
		shared               bool // the block's group is the one group "gs" that other blocks may use too; 1-2 bindings
	}
	var blocks []blk
	switch shape {
	case 0: // group, then a binding at which combining stops: different allowFailure
		blocks = []blk{{true, false, true, false}, {false, true, true, false}}
	case 1: // the other way round
		blocks = []blk{{true, true, true, false}, {false, false, true, false}}
	case 2: // group, then a binding that is combined with it
		blocks = []blk{{true, false, true, false}, {false, false, true, false}}
	case 3: // group, then a binding whose Synchronization is not executed, then another one
		blocks = []blk{{true, false, true, false}, {false, false, false, false}, {false, false, true, false}}
	case 4: // single, group, single with different allowFailure
		blocks = []blk{{false, false, true, false}, {true, false, true, false}, {false, true, true, false}}
	case 5: // two groups with different allowFailure
		blocks = []blk{{true, false, true, false}, {true, true, true, false}}
	default:
		n := rng.Range(2, 3)
		for i := 0; i < n; i++ {
			grouped := rng.Chance(55)
			blocks = append(blocks, blk{grouped, rng.Chance(35), !rng.Chance(15), grouped && rng.Chance(35)})
		}
	}
	for i, bl := range blocks {
		size := 1
		group := ""
		if bl.grouped {
			size = 2
			group = fmt.Sprintf("g%d", i)
		}
		if bl.shared {
			size = rng.Range(1, 2)
			group = "gs"
		}
		for j := 0; j < size; j++ {
			b := c01Bind3{name: fmt.Sprintf("b%d%d", i, j), group: group, allowFailure: bl.allow, execOnSync: bl.exec}
			if rng.Chance(50) {
				b.queue = fmt.Sprintf("q%d%d", i, j)
			}
			binds = append(binds, b)
		}
	}
	return binds
}

// c01FixedShapes3: the first cases of the suite are fixed layouts (0..5: see c01GenLayout3) and fixed
// hook-level dimensions:
//
//	6  group + combinable single binding, the combined Synchronization run fails once, then succeeds
//	7  two groups (one run, two contexts), fails twice
//	8  legacy v0 hook, one binding        9  legacy v0 hook, two bindings (one allowFailure)
//	10 namespace.labelSelector, no namespace at start, single binding with its own queue
//	11 the same with a group + a single binding, own queues, first run fails
//	12 two bindings of one group, the first with executeHookOnSynchronization: false; two failing runs
//	13 one grouped binding (main queue), LATER executions held too (evRounds), quiet end
//	14 one grouped binding with its own queue, the same
//	15 two bindings of one group in the main queue, the same
//	16 one grouped binding in the main queue + one ungrouped binding with its own queue, the same
const c01FixedShapes3 = 17

func runC01Operator3(r *Run) {
	n := r.N(c01FixedShapes3+8, c01FixedShapes3+120)
	r.Cases(850000, n, 6, func(c *Case, rng *Rng) {
		shape := c.Idx - 850000
		var opt c01Opt3
		var binds []c01Bind3
		hold := false // later (Event / Group) executions are held too, quiet end
		opt.fail = []int{0, 0, 1, 2}[rng.Intn(4)]
		switch shape {
		case 6:
			binds, opt.fail = c01GenLayout3(rng, 2), 1
			for i := range binds {
				binds[i].queue = ""
			}
		case 7:
			binds, opt.fail = c01GenLayout3(rng, 5), 2
			for i := range binds {
				binds[i].allowFailure = false
			}
		case 8:
			opt.v0 = true
			binds = []c01Bind3{{name: "b00", execOnSync: true}}
		case 9:
			opt.v0 = true
			binds = []c01Bind3{{name: "b00", execOnSync: true}, {name: "b10", execOnSync: true, allowFailure: true}}
		case 10:
			opt.lateNs, opt.fail = true, 0
			binds = []c01Bind3{{name: "b00", execOnSync: true, queue: "q00"}}
		case 11:
			opt.lateNs, opt.fail = true, 1
			binds = c01GenLayout3(rng, 2)
			for i := range binds {
				binds[i].queue = "q" + binds[i].name[1:]
			}
		case 12:
			// a binding whose Synchronization is not executed (unlocked at once) shares its group with a
			// binding whose Synchronization run fails twice: Events of the first one queue up behind it
			opt.fail = 2
			binds = []c01Bind3{{name: "b00", group: "gs", execOnSync: false}, {name: "b10", group: "gs", execOnSync: true}}
		case 13, 14, 15, 16:
			opt.fail = 0
			hold = true
			switch shape {
			case 13:
				binds = []c01Bind3{{name: "b00", group: "g0", execOnSync: true}}
			case 14:
				binds = []c01Bind3{{name: "b00", group: "g0", execOnSync: true, queue: "q00"}}
			case 15:
				binds = []c01Bind3{{name: "b00", group: "g0", execOnSync: true}, {name: "b01", group: "g0", execOnSync: true}}
			case 16:
				binds = []c01Bind3{{name: "b00", group: "g0", execOnSync: true}, {name: "b10", execOnSync: true, queue: "q10"}}
			}
		default:
			lay := shape
			if shape >= c01FixedShapes3 {
				lay = 100
				hold = rng.Chance(35)
				switch {
				case rng.Chance(15):
					opt.v0 = true
				case rng.Chance(30):
					opt.lateNs = true
				}
			}
			binds = c01GenLayout3(rng, lay)
			if opt.v0 {
				// the v0 format knows neither group nor queue nor executeHookOnSynchronization
				for i := range binds {
					binds[i].group, binds[i].queue, binds[i].execOnSync = "", "", true
				}
			}
		}
		live := map[int]int{}
		next := 10
		var x0 []c01Ev
		if !opt.lateNs {
			x0 = c01GenClusterOps(rng, live, &next, rng.Range(0, 2))
		}
		var inject [][]c01Ev
		for i := 0; i < 3; i++ {
			inject = append(inject, c01GenClusterOps(rng, live, &next, rng.Range(1, 2)))
		}
		liveBefore, nextBefore := map[int]int{}, next
		for id, v := range live {
			liveBefore[id] = v
		}
		after := c01GenClusterOps(rng, live, &next, rng.Range(0, 2))
		if hold && !opt.v0 {
			after, live, next = nil, liveBefore, nextBefore
			for i := rng.Range(1, 2); i > 0; i-- {
				first := c01GenClusterOps(rng, live, &next, 1)
				opt.evRounds = append(opt.evRounds, [2][]c01Ev{first, c01GenClusterOps(rng, live, &next, rng.Range(1, 2))})
			}
		}
		var ds []string
		for _, b := range binds {
			ds = append(ds, fmt.Sprintf("%s(group=%q allowFailure=%v execOnSync=%v queue=%q)", b.name, b.group, b.allowFailure, b.execOnSync, b.queue))
		}
		kind := "configVersion v1"
		if opt.v0 {
			kind = "legacy v0 config (onKubernetesEvent)"
		}
		if opt.lateNs {
			kind += ", namespace.labelSelector with NO matching namespace at start (it appears with the first change)"
		}
		c.Desc = fmt.Sprintf("operator, %s, bindings of one hook: %s; before=%s while-runs-are-held=%v after=%s failing-synchronizations=%d",
			kind, strings.Join(ds, " "), c01Evs(x0), inject, c01Evs(after), opt.fail)
		if len(opt.evRounds) > 0 {
			c.Desc += fmt.Sprintf("; then per round [change -> its execution is held -> change while it is held -> released]: %v; quiet end (no sentinel)", opt.evRounds)
			c.Note("operator-layout:later-executions-held")
		}
		c01OpRun3(c, rng, binds, opt, x0, inject, after, r.Scratch)
		c.Nontrivial = true
		c.Note("operator-layout")
		if opt.v0 {
			c.Note("operator-layout:v0-hook")
		}
		if opt.lateNs {
			c.Note("operator-layout:no-namespace-at-start")
		}
	})
}
